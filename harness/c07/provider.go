package main

// which = 8 | 9 | 10 — the REAL jobProvider around the offsets file (coverage round: the callers of save / load that the
// table-driven streams never reached).
//
//	which 8   sync persistence    case = (table (script ...) K)       obs = ((loadres (done_j ...)) ...)
//	          as which 4, but the provider runs with persistence_mode = sync: the save is the one INSIDE the real
//	          jobProvider.commit (provider.go:308); judged by the predicate of which 4 (c07_overlap)
//	which 9   async saver + stop  case = (table (script ...) nreads)  obs = (loadres ...)
//	          a provider built by the real NewJobProvider and started by the real start() (empty watch directory): the
//	          saves are those of the real saveOffsetsCyclic goroutine (interval 200 us) racing one committer per job, the
//	          last one is the final save of the real stop(); judged by the predicate of which 3 (c07_concurrent)
//	which 10  provider history    case = (sync op0 ((#name size) ...) (op ...))   obs = ((res loadres) ...) one per op
//	          a sequential history on a real provider over real files (real NewJobProvider / start / addJob /
//	          initJobOffset / initEofInfo / commit / refreshFile -> truncateJob / doneJob / maintenanceJob ->
//	          deleteJobAndUnlock / stop), see coq/Model/OffsetsProv.v
//	          sync = 0 async | 1 sync;  op0 = offsets_op 0 continue | 1 tail | 2 reset (used by every start)
//	          op = (0 fi kind seq #stream off)  real commit of an event of file fi (fi >= number of files: a source the
//	                                            provider does not know); kind 0 regular 1 unlock 2 timeout 3 child 4 childParent
//	             | (1)                          real offsetDB.save (what a tick of the async saver does)
//	             | (2 fi pos seq)               the worker read up to pos and numbered its last event seq (simulated: Seek
//	                                            on the job's file, job.lastEventSeq)
//	             | (3 fi size)                  the file is truncated / extended to size bytes, then the real refreshFile
//	                                            with a write notification (-> checkFileWasTruncated -> truncateJob)
//	             | (4 fi)                       the worker reached EOF: real doneJob
//	             | (5 fi remove)                remove = 1: the file is unlinked first; then the real maintenanceJob
//	             | (6 crash)                    crash = 0: real stop() (final save); 1: the process dies (nothing saved);
//	                                            then a NEW provider: real NewJobProvider + start() on the same directory
//	             | (7 fi ts)                    the worker saw EOF at time ts (eofReadInfo, real setUnixNanoTimestamp)
//	          res: 0 returned / 7 panicked (commit: the "offset corruption" panic); ops naming a file without a job (or a file no longer on disk): 8;
//	               done 0 / 8 already done; maintenance: the real result 1 not done, 2 resumed, 3 deleted, 4 noop (0 error);
//	               9 = the call did not return within 10 s (a lock left behind)
//	          loadres = the real load of the offsets file after the op; file names without their directory, source ids
//	          replaced by the file's index
//
// The provider's methods are unexported methods of an unexported type and the add-only export file of this property has
// wrappers only for commit and save: they are reached by their link names (the bodies stay the ones compiled from
// provider.go / offset.go; stub.s only allows the body-less declarations), fields through reflect + unsafe.

import (
	"fmt"
	"os"
	"path/filepath"
	"reflect"
	"runtime"
	"sort"
	"strings"
	"sync"
	"syscall"
	"time"
	"unsafe"

	"github.com/ozontech/file.d/metric"
	"github.com/ozontech/file.d/pipeline"
	filein "github.com/ozontech/file.d/plugin/input/file"
	"github.com/prometheus/client_golang/prometheus"
	"go.uber.org/zap"

	"verif/harness/hmain"
	"verif/harness/hx"
)

//go:linkname c07NewMetricCollection github.com/ozontech/file.d/plugin/input/file.newMetricCollection
func c07NewMetricCollection(a, b *metric.Counter, c, d *metric.Gauge) unsafe.Pointer

//go:linkname c07NewJobProvider github.com/ozontech/file.d/plugin/input/file.NewJobProvider
func c07NewJobProvider(cfg *filein.Config, mc unsafe.Pointer, l *zap.SugaredLogger) unsafe.Pointer

//go:linkname c07Start github.com/ozontech/file.d/plugin/input/file.(*jobProvider).start
func c07Start(jp unsafe.Pointer)

//go:linkname c07Stop github.com/ozontech/file.d/plugin/input/file.(*jobProvider).stop
func c07Stop(jp unsafe.Pointer)

//go:linkname c07Commit github.com/ozontech/file.d/plugin/input/file.(*jobProvider).commit
func c07Commit(jp unsafe.Pointer, e *pipeline.Event)

//go:linkname c07RefreshFile github.com/ozontech/file.d/plugin/input/file.(*jobProvider).refreshFile
func c07RefreshFile(jp unsafe.Pointer, stat os.FileInfo, filename string, symlink string, isWrite bool)

//go:linkname c07DoneJob github.com/ozontech/file.d/plugin/input/file.(*jobProvider).doneJob
func c07DoneJob(jp unsafe.Pointer, job *filein.Job)

//go:linkname c07MaintenanceJob github.com/ozontech/file.d/plugin/input/file.(*jobProvider).maintenanceJob
func c07MaintenanceJob(jp unsafe.Pointer, job *filein.Job) int

//go:linkname c07OffsetDBSave github.com/ozontech/file.d/plugin/input/file.(*offsetDB).save
func c07OffsetDBSave(o unsafe.Pointer, jobs map[pipeline.SourceID]*filein.Job, mu *sync.RWMutex)

//go:linkname c07SetEOFTimestamp github.com/ozontech/file.d/plugin/input/file.(*eofInfo).setUnixNanoTimestamp
func c07SetEOFTimestamp(e unsafe.Pointer, nanos int64)

var c07JPType = reflect.TypeOf(filein.VerifC07Provider{}).Field(0).Type.Elem() // jobProvider

func c07Field(v reflect.Value, name string) unsafe.Pointer {
	f := v.FieldByName(name)
	if !f.IsValid() {
		panic("harness/c07: no field " + name + " in " + v.Type().String())
	}
	return unsafe.Pointer(f.UnsafeAddr())
}

// c07Prov: one real jobProvider
type c07Prov struct {
	jp  unsafe.Pointer
	v   reflect.Value // the jobProvider struct, addressable
	cfg *filein.Config
}

func (p *c07Prov) jobs() map[pipeline.SourceID]*filein.Job {
	return *(*map[pipeline.SourceID]*filein.Job)(c07Field(p.v, "jobs"))
}
func (p *c07Prov) jobsMu() *sync.RWMutex { return *(**sync.RWMutex)(c07Field(p.v, "jobsMu")) }
func (p *c07Prov) offsetDB() unsafe.Pointer {
	return *(*unsafe.Pointer)(c07Field(p.v, "offsetDB"))
}
func (p *c07Prov) save() { c07OffsetDBSave(p.offsetDB(), p.jobs(), p.jobsMu()) }

// redirect: the final save of stop() goes to another file (the process "died": nothing is saved)
func (p *c07Prov) redirect(cur string) {
	odb := reflect.NewAt(p.v.FieldByName("offsetDB").Type().Elem(), p.offsetDB()).Elem()
	*(*string)(c07Field(odb, "curOffsetsFile")) = cur
	*(*string)(c07Field(odb, "tmpOffsetsFile")) = cur + ".atomic"
}

var c07MetricN int

func c07NewProv(cur string, include []string, syncMode bool, op0 int, asyncInterval time.Duration) *c07Prov {
	c07MetricN++
	ctl := metric.NewCtl(fmt.Sprintf("verif_c07_%d", c07MetricN), prometheus.NewRegistry(), 0, 0)
	mc := c07NewMetricCollection(ctl.RegisterCounter("a", "verif"), ctl.RegisterCounter("b", "verif"),
		ctl.RegisterGauge("c", "verif"), ctl.RegisterGauge("d", "verif"))
	// MaxFiles sizes jp.jobs and jp.jobsChan (nobody drains the channel here: every resume of a history queues one job)
	cfg := &filein.Config{OffsetsFile: cur, OffsetsFileTmp: cur + ".atomic", MaxFiles: 512, AsyncInterval_: asyncInterval}
	cfg.Paths.Include = include
	cv := reflect.ValueOf(cfg).Elem()
	if syncMode {
		cv.FieldByName("PersistenceMode_").SetInt(1) // persistenceModeSync
	}
	cv.FieldByName("OffsetsOp_").SetInt(int64(op0)) // 0 continue, 1 tail, 2 reset
	jp := c07NewJobProvider(cfg, mc, zap.NewNop().Sugar())
	if jp == nil {
		panic("harness/c07: NewJobProvider returned nil")
	}
	return &c07Prov{jp: jp, v: reflect.NewAt(c07JPType, jp).Elem(), cfg: cfg}
}

// start: the real start(). The statistics and maintenance goroutines it launches (interval 0) find a stop request
// waiting and return at once - the ticks of a history are explicit ops - and so does the async saver unless keepSaver;
// start returns when they have taken their requests, so nothing of the provider runs behind the harness' back and
// nothing stays behind after stop().
func (p *c07Prov) start(keepSaver bool) {
	chans := []chan bool{*(*chan bool)(c07Field(p.v, "stopReportCh")), *(*chan bool)(c07Field(p.v, "stopMaintenanceCh"))}
	if !keepSaver && reflect.ValueOf(p.cfg).Elem().FieldByName("PersistenceMode_").Int() == 0 {
		chans = append(chans, *(*chan bool)(c07Field(p.v, "stopSaveOffsetsCh")))
	}
	for _, ch := range chans {
		ch <- true
	}
	c07Start(p.jp)
	for _, ch := range chans {
		for t0 := time.Now(); len(ch) > 0; {
			if time.Since(t0) > 8*time.Second {
				panic("harness/c07: a goroutine of the provider did not take its stop request")
			}
			runtime.Gosched()
		}
	}
}

// ---- which 8: persistence_mode = sync --------------------------------------------------------------------
func setSyncMode(p *filein.VerifC07Provider) {
	jp := reflect.ValueOf(p).Elem().FieldByName("jp").Elem()
	cfg := *(**filein.Config)(c07Field(jp, "config"))
	reflect.ValueOf(cfg).Elem().FieldByName("PersistenceMode_").SetInt(1)
}

// ---- which 9: the real async saver and the real stop() -----------------------------------------------------
func execCyclic(cs hx.Sx) hx.Sx {
	it := hx.Items(cs)
	table := decodeTable(it[0])
	scripts := hx.Items(it[1])
	nreads := int(hx.Int(it[2]))
	d := scratch()
	defer os.RemoveAll(d)
	logs := filepath.Join(d, "logs")
	_ = os.MkdirAll(logs, 0o755)
	cur := filepath.Join(d, "offsets.yaml")
	var snaps []hx.Sx
	var wg sync.WaitGroup
	panicked := hx.Catch(func() {
		p := c07NewProv(cur, []string{filepath.Join(logs, "*")}, false, 0, 200*time.Microsecond)
		p.start(true) // real start: loads (no file), starts the watcher on the empty directory and the async saver
		donor := providerJobs(filein.VerifC07NewProvider(cur+".unused", cur+".unused.atomic", table))
		p.jobsMu().Lock()
		live := p.jobs()
		for k, j := range donor {
			live[k] = j
		}
		p.jobsMu().Unlock()
		p.save() // the committed starting point (the async saver saves only after a commit)
		var running sync.WaitGroup
		for i, j := range table {
			if i >= len(scripts) {
				break
			}
			wg.Add(1)
			running.Add(1)
			go func(sid uint64, script []hx.Sx) {
				defer wg.Done()
				defer running.Done()
				for n, c := range script {
					kv := hx.Items(c)
					e, recycle := c07Event(sid, uint64(n+1), hx.Int(kv[1]), hx.Str(kv[0]))
					c07Commit(p.jp, e)
					recycle() // borrowed stream name: overwritten once commit returned
					if n%2 == 0 {
						runtime.Gosched()
					}
					if n%4 == 3 {
						time.Sleep(150 * time.Microsecond)
					}
				}
			}(j.SourceID, hx.Items(scripts[i]))
		}
		done := make(chan struct{})
		go func() { running.Wait(); close(done) }()
		var last []byte
		for stop := false; !stop; {
			select {
			case <-done:
				stop = true
			default:
			}
			content, err := os.ReadFile(cur)
			if err == nil && (last == nil || string(content) != string(last)) && len(snaps)+1 < nreads {
				last = content
				var rows []filein.VerifC07Job
				var perr error
				pn := hx.Catch(func() { rows, perr = filein.VerifC07Parse(string(content)) })
				snaps = append(snaps, loadres(rows, perr, pn))
			}
			runtime.Gosched()
		}
		wg.Wait()
		c07Stop(p.jp) // real stop: stops the saver, the watcher, and saves the last known offsets
		snaps = append(snaps, realLoad(cur))
	})
	if panicked != "" {
		wg.Wait()
		return hx.L(hx.L(hx.I(2)))
	}
	return hx.L(snaps...)
}

// ---- which 10: a history on a real provider over real files ------------------------------------------------
type c07File struct {
	name string
	path string
	sid  uint64
}

func c07SourceID(path string) uint64 { // sourceIDByStat for symlink = ""
	st, err := os.Stat(path)
	if err != nil {
		panic(err)
	}
	inode := int64(st.Sys().(*syscall.Stat_t).Ino)
	symHash := inode * 8922886018542929
	return uint64(inode + symHash&0xffffffff)
}

// within: run f, give up after 10 s (a mutex left locked by the real code must not hang the harness)
var c07Hangs int

func within(f func()) (panicMsg string, timedOut bool) {
	ch := make(chan string, 1)
	go func() { ch <- hx.Catch(f) }()
	select {
	case m := <-ch:
		return m, false
	case <-time.After(10 * time.Second):
		c07Hangs++
		return "", true
	}
}

func execHistory(cs hx.Sx) hx.Sx {
	it := hx.Items(cs)
	syncMode := hx.Int(it[0]) == 1
	op0 := int(hx.Int(it[1]))
	d := scratch()
	defer os.RemoveAll(d)
	logs := filepath.Join(d, "logs")
	state := filepath.Join(d, "state")
	_ = os.MkdirAll(logs, 0o755)
	_ = os.MkdirAll(state, 0o755)
	cur := filepath.Join(state, "offsets.yaml")
	var files []c07File
	bySid := map[uint64]int{}
	for i, f := range hx.Items(it[2]) {
		kv := hx.Items(f)
		name := hx.Str(kv[0])
		path := filepath.Join(logs, name)
		if err := os.WriteFile(path, []byte(strings.Repeat("x", int(hx.Int(kv[1])))), 0o600); err != nil {
			return badObs("file " + err.Error())
		}
		sid := c07SourceID(path)
		files = append(files, c07File{name: name, path: path, sid: sid})
		bySid[sid] = i
	}
	include := []string{filepath.Join(logs, "*")}
	var p *c07Prov
	ndead := 0
	start := func() string {
		m, to := within(func() {
			p = c07NewProv(cur, include, syncMode, op0, time.Hour)
			// The async saver goroutine start() launches would run its first iteration at an unknown moment (and save if a
			// commit happened before): a history is sequential, its saves are the explicit (1) ops (which 9 runs the saver)
			p.start(false)
		})
		if to {
			return "hang"
		}
		return m
	}
	if m := start(); m != "" {
		return badObs("start: " + m)
	}
	jobOf := func(fi int) *filein.Job {
		if fi < 0 || fi >= len(files) {
			return nil
		}
		return p.jobs()[pipeline.SourceID(files[fi].sid)]
	}
	load := func() hx.Sx {
		var rows []filein.VerifC07Job
		var err error
		pn := hx.Catch(func() { rows, err = filein.VerifC07Load(cur) })
		for i := range rows { // canonical: names without the scratch directory, source ids -> file index
			rows[i].Filename = strings.TrimPrefix(rows[i].Filename, logs+"/")
			if fi, ok := bySid[rows[i].SourceID]; ok {
				rows[i].SourceID = uint64(fi)
			} else {
				rows[i].SourceID = 1<<32 + rows[i].SourceID%1000
			}
		}
		sort.Slice(rows, func(a, b int) bool { return rows[a].SourceID < rows[b].SourceID })
		return loadres(rows, err, pn)
	}
	var out []hx.Sx
	for _, o := range hx.Items(it[3]) {
		a := hx.Items(o)
		res := 0
		var m string
		var to bool
		switch hx.Int(a[0]) {
		case 0:
			fi := int(hx.Int(a[1]))
			sid := uint64(0xdead0000) + uint64(fi)
			if fi < len(files) {
				sid = files[fi].sid
			}
			// the stream name is BORROWED (c07Lend): an unsafe string into a buffer that is overwritten as soon as commit
			// returned - also when it panicked - as the pipeline does when it recycles the event
			e, recycle := c07Event(sid, hx.Uint(a[3]), hx.Int(a[5]), hx.Str(a[4]))
			switch hx.Int(a[2]) {
			case 1:
				e.SetUnlockKind()
			case 2:
				e.SetTimeoutKind()
			case 3:
				e.SetChildKind()
			case 4:
				e.SetChildParentKind()
			}
			m, to = within(func() { c07Commit(p.jp, e) })
			if !to { // a commit that is still running keeps its event
				recycle()
			}
		case 1:
			m, to = within(func() { p.save() })
		case 2:
			if job := jobOf(int(hx.Int(a[1]))); job != nil {
				jv := reflect.ValueOf(job).Elem()
				f := *(**os.File)(c07Field(jv, "file"))
				if _, err := f.Seek(hx.Int(a[2]), 0); err != nil {
					m = "seek: " + err.Error()
				}
				*(*uint64)(c07Field(jv, "lastEventSeq")) = hx.Uint(a[3])
			} else {
				res = 8
			}
		case 3:
			fi := int(hx.Int(a[1]))
			job := jobOf(fi)
			if job == nil {
				res = 8
				break
			}
			if _, err := os.Lstat(files[fi].path); err != nil {
				res = 8
				break
			}
			if err := os.Truncate(files[fi].path, hx.Int(a[2])); err != nil {
				m = "truncate: " + err.Error()
				break
			}
			st, err := os.Stat(files[fi].path)
			if err != nil {
				m = "stat: " + err.Error()
				break
			}
			m, to = within(func() { c07RefreshFile(p.jp, st, files[fi].path, "", true) })
		case 4:
			job := jobOf(int(hx.Int(a[1])))
			if job == nil || *(*bool)(c07Field(reflect.ValueOf(job).Elem(), "isDone")) {
				res = 8 // doneJob of a done job panics with the job's lock held: the worker never does that
				break
			}
			m, to = within(func() { c07DoneJob(p.jp, job) })
		case 5:
			fi := int(hx.Int(a[1]))
			if fi < len(files) && hx.Int(a[2]) == 1 {
				_ = os.Remove(files[fi].path)
			}
			job := jobOf(fi)
			if job == nil {
				res = 8
				break
			}
			m, to = within(func() { res = c07MaintenanceJob(p.jp, job) })
		case 6:
			old := p
			if hx.Int(a[1]) == 1 {
				ndead++
				old.redirect(filepath.Join(state, fmt.Sprintf("dead%d", ndead)))
			}
			m, to = within(func() { c07Stop(old.jp) })
			if m == "" && !to {
				if m = start(); m == "hang" {
					m, to = "", true
				}
			}
		case 7:
			if job := jobOf(int(hx.Int(a[1]))); job != nil {
				c07SetEOFTimestamp(c07Field(reflect.ValueOf(job).Elem(), "eofReadInfo"), hx.Int(a[2]))
			} else {
				res = 8
			}
		default:
			return badObs("op")
		}
		if to {
			out = append(out, hx.L(hx.I(9), hx.L(hx.I(1))))
			return hx.L(out...) // the provider is wedged: give up on this history (its goroutines stay behind)
		}
		if m != "" {
			res = 7
		}
		out = append(out, hx.L(hx.I(res), load()))
	}
	_, _ = within(func() { p.redirect(filepath.Join(state, "final-dead")); c07Stop(p.jp) })
	return hx.L(out...)
}

// ---- generators ----------------------------------------------------------------------------------------------
var histNames = []string{"a.log", "b.log", "app-0.log", "a: 5", "- file: x", "  streams:", "ф.log", " ", "x y", "0", "日本語.log",
	"  inode: 3", "c.log.1", "-", ":", "\xff\xfe", "not_set"}
var histStreams = []string{"stdout", "stderr", "", "a: 5", "not_set", ":", "ж", "- file: x"}

func genProvider(c *hmain.Ctx) {
	r := c.R
	// ---- which 8: persistence_mode sync — K goroutines of real commits, each saving inside commit, one reader
	for i := 0; i < 8*c.Scale; i++ {
		nj := r.Range(8, 24)
		var t []filein.VerifC07Job
		var scripts []hx.Sx
		for ji := 0; ji < nj; ji++ {
			j := filein.VerifC07Job{Filename: fmt.Sprintf("/var/log/pods/sync-%d/0.log", ji), Inode: uint64(2000 + ji), SourceID: uint64(9000 + ji), Timestamp: int64(1700000000000000000 + ji)}
			pool := []string{"stdout", "", "a:b", "stderr", "поток: 7"}
			cur := map[string]int64{}
			first := hx.Pick(r, pool)
			cur[first] = int64(r.Range(1, 50))
			j.Streams = []filein.VerifC07Stream{{Name: first, Offset: cur[first]}}
			var sc []hx.Sx
			for n := r.Range(4, 16); n > 0; n-- {
				name := hx.Pick(r, pool)
				if _, seen := cur[name]; !seen && r.Chance(1, 4) {
					cur[name] = 16*1024*1024 + int64(r.Intn(1<<20)) // first commit of a stream beyond the "possible corruption" mark
				} else {
					cur[name] += int64(r.Range(1, 100000))
				}
				sc = append(sc, hx.L(hx.S(name), hx.Z(cur[name])))
			}
			t = append(t, j)
			scripts = append(scripts, hx.L(sc...))
		}
		k := r.Range(2, 5)
		c.W.Count(fmt.Sprintf("sync-commit-saves: K=%d", k))
		c.Do("sync-commit-saves", 8, hx.L(encodeTable(t), hx.L(scripts...), hx.I(k)), true)
	}
	// ---- which 9: the real async saver (saveOffsetsCyclic started by the real start) and the final save of stop()
	for i := 0; i < 16*c.Scale; i++ {
		t := genTable(r, 3, true)
		if len(t) == 0 {
			continue
		}
		var scripts []hx.Sx
		for ji := range t {
			cur := map[string]int64{}
			for k := range t[ji].Streams {
				t[ji].Streams[k].Offset = int64(r.Intn(50))
				cur[t[ji].Streams[k].Name] = t[ji].Streams[k].Offset
			}
			pool := []string{"stdout", "stderr", "", "a: 5"}
			for _, s := range t[ji].Streams {
				if !strings.Contains(s.Name, "\n") {
					pool = append(pool, s.Name)
				}
			}
			var sc []hx.Sx
			for n := r.Range(5, 50); n > 0; n-- {
				name := hx.Pick(r, pool)
				cur[name] += int64(r.Range(1, 1000))
				sc = append(sc, hx.L(hx.S(name), hx.Z(cur[name])))
			}
			scripts = append(scripts, hx.L(sc...))
		}
		obs := c.Do("async-saver-stop", 9, hx.L(encodeTable(t), hx.L(scripts...), hx.I(r.Range(3, 12))), true)
		c.W.Count(fmt.Sprintf("async-saver-stop: file states read in one run = %d", len(hx.Items(obs))))
	}
	// ---- which 10: histories
	genHistories(c)
}

type histGen struct {
	r      *hx.Rng
	c      *hmain.Ctx
	nfiles int
	ops    []hx.Sx
	off    []map[string]int64 // the generator's idea of the committed offsets (only to aim; the model decides)
	size   []int64            // ... and of the file sizes
	seq    uint64
}

func (g *histGen) commit(fi int, kind int, seq uint64, stream string, off int64) {
	g.ops = append(g.ops, hx.L(hx.I(0), hx.I(fi), hx.I(kind), hx.U(seq), hx.S(stream), hx.Z(off)))
}

func (g *histGen) randomOp() {
	r := g.r
	fi := r.Intn(g.nfiles)
	switch x := r.Intn(100); {
	case x < 45: // a commit
		kind := 0
		switch r.Intn(12) {
		case 0:
			kind = r.Range(1, 3) // unlock / timeout / child: never committed
			g.c.W.Count("provider-history: commit of a non-committing kind")
		case 1:
			kind = 4
			g.c.W.Count("provider-history: commit of a childParent event")
		}
		stream := hx.Pick(r, histStreams)
		if r.Chance(1, 14) {
			fi = g.nfiles + r.Intn(3) // a source the provider does not know
			g.c.W.Count("provider-history: commit of an unknown source")
		}
		var off int64
		curv := int64(0)
		if fi < g.nfiles {
			curv = g.off[fi][stream]
		}
		switch r.Intn(12) {
		case 0:
			off = curv // not beyond the stored one: "offset corruption" panic
			g.c.W.Count("provider-history: commit at the stored offset")
		case 1:
			off = curv - int64(r.Range(1, 5))
			g.c.W.Count("provider-history: commit below the stored offset")
		case 2:
			off = curv + 16*1024*1024 + int64(r.Intn(100))
		default:
			off = curv + int64(r.Range(1, 500))
		}
		g.seq++
		seq := g.seq
		if r.Chance(1, 8) && g.seq > 3 {
			seq = g.seq - uint64(r.Range(1, 3)) // an older event (matters after a truncation)
		}
		g.commit(fi, kind, seq, stream, off)
		if fi < g.nfiles && (kind == 0 || kind == 4) && off > curv {
			g.off[fi][stream] = off
		}
	case x < 55:
		g.ops = append(g.ops, hx.L(hx.I(1)))
	case x < 65: // worker progress
		pos := int64(r.Range(0, 600))
		g.ops = append(g.ops, hx.L(hx.I(2), hx.I(fi), hx.Z(pos), hx.U(g.seq)))
	case x < 70: // the worker reads the file to its end, is done, the maintenance comes by (half of the time the file is gone)
		g.ops = append(g.ops, hx.L(hx.I(2), hx.I(fi), hx.Z(g.size[fi]), hx.U(g.seq)), hx.L(hx.I(4), hx.I(fi)))
		if r.Chance(1, 3) {
			g.randomOp()
		}
		rm := 0
		if r.Bool() {
			rm = 1
		}
		g.ops = append(g.ops, hx.L(hx.I(5), hx.I(fi), hx.I(rm)))
		g.c.W.Count(fmt.Sprintf("provider-history: read to EOF, done, maintenance (file removed=%d)", rm))
	case x < 76: // truncation / growth + write notification
		sz := r.Range(0, 400)
		g.ops = append(g.ops, hx.L(hx.I(3), hx.I(fi), hx.I(sz)))
		g.size[fi] = int64(sz)
		g.off[fi] = map[string]int64{}
		g.c.W.Count("provider-history: size change + write notification")
	case x < 80:
		g.ops = append(g.ops, hx.L(hx.I(4), hx.I(fi)))
	case x < 88:
		rm := 0
		if r.Chance(1, 2) {
			rm = 1
		}
		g.ops = append(g.ops, hx.L(hx.I(5), hx.I(fi), hx.I(rm)))
		g.c.W.Count("provider-history: maintenance tick")
	case x < 95:
		crash := 0
		if r.Chance(1, 3) {
			crash = 1
		}
		g.ops = append(g.ops, hx.L(hx.I(6), hx.I(crash)), hx.L(hx.I(1)))
		g.c.W.Count(fmt.Sprintf("provider-history: restart crash=%d", crash))
		for i := range g.off {
			g.off[i] = map[string]int64{}
		}
	default:
		g.ops = append(g.ops, hx.L(hx.I(7), hx.I(fi), hx.Z(int64(r.U64()>>uint(1+r.Intn(62))))))
	}
}

func histFiles(r *hx.Rng, n int) ([]hx.Sx, []int64) {
	used := map[string]bool{}
	var out []hx.Sx
	var sizes []int64
	for len(out) < n {
		name := hx.Pick(r, histNames)
		if used[name] {
			continue
		}
		used[name] = true
		sz := r.Range(0, 300)
		out = append(out, hx.L(hx.S(name), hx.I(sz)))
		sizes = append(sizes, int64(sz))
	}
	return out, sizes
}

func genHistories(c *hmain.Ctx) {
	r := c.R
	do := func(stream string, syncMode, op0 int, files []hx.Sx, ops []hx.Sx) {
		c.Do(stream, 10, hx.L(hx.I(syncMode), hx.I(op0), hx.L(files...), hx.L(ops...)), true)
	}
	L, I, S, Z, U := hx.L, hx.I, hx.S, hx.Z, hx.U
	f2 := []hx.Sx{L(S("a.log"), I(100)), L(S("b: 1"), I(40))}
	for syncMode := 0; syncMode <= 1; syncMode++ {
		for op0 := 0; op0 <= 2; op0++ {
			// directed: commit, ignored kinds, unknown source, corruption panic then save (the lock must be free), restart
			do("provider-history-directed", syncMode, op0, f2, []hx.Sx{
				L(I(0), I(0), I(0), U(1), S("stdout"), Z(10)), L(I(0), I(0), I(1), U(2), S("stdout"), Z(20)), L(I(0), I(0), I(2), U(3), S("stdout"), Z(30)),
				L(I(0), I(0), I(3), U(4), S("stdout"), Z(40)), L(I(0), I(0), I(4), U(5), S(""), Z(50)), L(I(0), I(5), I(0), U(6), S("stdout"), Z(60)),
				L(I(1)), L(I(0), I(0), I(0), U(7), S("stdout"), Z(10)), L(I(0), I(0), I(0), U(8), S("stdout"), Z(9)), L(I(0), I(1), I(0), U(9), S("x"), Z(0)),
				L(I(1)), L(I(0), I(1), I(0), U(10), S("a: 5"), Z(1<<63-1)), L(I(7), I(0), Z(1234567)), L(I(6), I(0)), L(I(1)),
				L(I(0), I(0), I(0), U(1), S("stdout"), Z(10)), L(I(0), I(0), I(0), U(2), S("stdout"), Z(11)), L(I(6), I(1)), L(I(1)), L(I(6), I(0)), L(I(1))})
			// directed: truncation -> offsets 0 and stale events ignored; done + maintenance of a removed file -> job deleted
			do("provider-history-directed", syncMode, op0, f2, []hx.Sx{
				L(I(0), I(0), I(0), U(1), S("stdout"), Z(50)), L(I(0), I(0), I(0), U(2), S("stderr"), Z(80)), L(I(2), I(0), Z(80), U(5)), L(I(1)),
				L(I(3), I(0), I(20)), L(I(1)), L(I(0), I(0), I(0), U(5), S("stdout"), Z(5)), L(I(0), I(0), I(0), U(6), S("stdout"), Z(7)), L(I(1)),
				L(I(3), I(0), I(300)), L(I(0), I(1), I(0), U(7), S(""), Z(40)), L(I(2), I(1), Z(40), U(7)), L(I(5), I(1), I(0)), L(I(4), I(1)), L(I(4), I(1)),
				L(I(5), I(1), I(0)), L(I(2), I(1), Z(10), U(7)), L(I(5), I(1), I(0)), L(I(4), I(1)), L(I(2), I(1), Z(40), U(7)), L(I(5), I(1), I(1)), L(I(1)),
				L(I(0), I(1), I(0), U(8), S(""), Z(90)), L(I(1)), L(I(6), I(0)), L(I(1)), L(I(3), I(1), I(5)), L(I(7), I(1), Z(5))})
		}
	}
	genBorrowedNames(c, do)
	for i := 0; i < 250*c.Scale; i++ {
		if c07Hangs >= 3 { // every wedged provider costs 10 s and the code is convicted already
			c.W.Count("provider-history: generation stopped after 3 wedged providers")
			break
		}
		g := &histGen{r: r, c: c, nfiles: r.Range(1, 4)}
		var files []hx.Sx
		files, g.size = histFiles(r, g.nfiles)
		g.off = make([]map[string]int64, g.nfiles)
		for k := range g.off {
			g.off[k] = map[string]int64{}
		}
		for n := r.Range(4, 36); n > 0; n-- {
			g.randomOp()
		}
		if r.Chance(2, 3) {
			g.ops = append(g.ops, hx.L(hx.I(6), hx.I(0)), hx.L(hx.I(1)))
		}
		syncMode := 0
		if r.Chance(1, 3) {
			syncMode = 1
		}
		op0 := 0
		if r.Chance(1, 4) {
			op0 = r.Range(1, 2)
		}
		c.W.Count(fmt.Sprintf("provider-history: sync=%d offsets_op=%d", syncMode, op0))
		do("provider-history", syncMode, op0, files, g.ops)
	}
}

// ---- provider-borrowed-names (which 10) -------------------------------------------------------------------------
// The stream name of a committed event is an unsafe string into pooled event memory: every commit of the histories
// borrows its name from a buffer the harness overwrites once commit returned (c07Lend). This family makes sure every
// way a name can reach job.offsets is followed by a save + load AFTER the buffer was overwritten: the first commit of a
// stream of a job (the name is added to the table) and later ones (the name is looked up), the same name on a second
// job, another stream in between, the first commit after a graceful restart (the name came from the offsets file), a
// childParent event, a commit that panics (offset not above the stored one) - async (the save is the next tick) and
// sync (the save is inside commit, the NEXT save comes after the overwrite). Names: the pipeline's default stream name
// "not_set" (an event whose own stream field says so), all its prefixes, names around it (longer, other case, embedded),
// the usual ones, the empty name, and a name of EVERY length 0..48 (thorough: 0..300) plus lengths around 64 / 256 /
// 1024 / 4096; bytes of the long names are random (no newline: known finding C07-newline-name).
// Judged by the model of which 10 as it is: the table - hence every file - is a function of the committed (name, offset)
// VALUES, so a name that changed after the commit is a file that is no snapshot of any table of the history.
func genBorrowedNames(c *hmain.Ctx, do func(stream string, syncMode, op0 int, files []hx.Sx, ops []hx.Sx)) {
	r := c.R
	L, I, S, Z, U := hx.L, hx.I, hx.S, hx.Z, hx.U
	def := string(pipeline.DefaultStreamName)
	var names []string
	for i := 0; i <= len(def); i++ {
		names = append(names, def[:i])
	}
	names = append(names, def+"_", def+def, "x"+def, strings.ToUpper(def), def[1:], "not-set", "stdout", "stderr", "a: 5", ":", "ж")
	maxLen := 48
	if c.Scale > 1 {
		maxLen = 300
	}
	for n := 0; n <= maxLen; n++ {
		names = append(names, randBytesNoNL(r, n))
	}
	for _, n := range []int{63, 64, 65, 255, 256, 257, 1023, 1024, 4095, 4096, 4097} {
		if n > maxLen {
			names = append(names, randBytesNoNL(r, n))
		}
	}
	files := []hx.Sx{L(S("a.log"), I(200)), L(S(def), I(200))}
	commit := func(fi, kind int, seq uint64, name string, off int64) hx.Sx {
		return L(I(0), I(fi), I(kind), U(seq), S(name), Z(off))
	}
	save := L(I(1))
	for k, name := range names {
		other := "stderr"
		if name == other {
			other = "stdout"
		}
		if k%3 == 1 {
			other = def
			if name == def {
				other = ""
			}
		}
		for syncMode := 0; syncMode <= 1; syncMode++ {
			kind := 0
			if (k+syncMode)%5 == 4 {
				kind = 4 // childParent events commit too
			}
			ops := []hx.Sx{
				commit(0, kind, 1, name, 10), save, // first commit of the stream: the name enters the table
				commit(1, 0, 2, other, 5), save, // the recycled event carries another line of another file
				commit(0, 0, 3, name, 20), save, // a later commit: the name is looked up
				commit(1, kind, 4, name, 7), save, // the same name, first commit on the second job
				commit(0, 0, 5, other, 30), commit(0, 0, 6, name, 20), save, // a second stream; a commit that panics (not above 20)
				L(I(6), I(0)), save, // graceful restart: the names now come from the offsets file
				commit(0, 0, 1, name, 40), commit(1, 0, 2, other, 50), save,
				commit(1, 0, 3, name, 60), save, L(I(6), I(1)), save}
			c.W.Count(fmt.Sprintf("provider-borrowed-names: sync=%d", syncMode))
			switch {
			case name == def:
				c.W.Count("provider-borrowed-names: the name is the default stream name")
			case name == "":
				c.W.Count("provider-borrowed-names: the empty name")
			case len(name) >= 64:
				c.W.Count("provider-borrowed-names: name of 64 bytes or more")
			}
			do("provider-borrowed-names", syncMode, 0, files, ops)
		}
	}
	// random: 2..3 files, names drawn from a small pool (so that first and later commits, equal names on different jobs
	// and the default name mix), a save after a random number of commits, restarts
	for i := 0; i < 40*c.Scale; i++ {
		pool := []string{def, "", hx.Pick(r, names), hx.Pick(r, names), "stdout"}
		nf := r.Range(2, 3)
		fl := []hx.Sx{L(S("a.log"), I(300)), L(S("b.log"), I(300)), L(S(def), I(300))}[:nf]
		offs := make([]map[string]int64, nf)
		for k := range offs {
			offs[k] = map[string]int64{}
		}
		var ops []hx.Sx
		seq := uint64(0)
		for n := r.Range(6, 30); n > 0; n-- {
			switch x := r.Intn(10); {
			case x < 6:
				fi := r.Intn(nf)
				name := hx.Pick(r, pool)
				seq++
				offs[fi][name] += int64(r.Range(1, 9))
				ops = append(ops, commit(fi, 0, seq, name, offs[fi][name]))
			case x < 9:
				ops = append(ops, save)
			default:
				ops = append(ops, L(I(6), I(0)), save)
				seq = 0
			}
		}
		ops = append(ops, save)
		syncMode := 0
		if r.Chance(1, 4) {
			syncMode = 1
		}
		c.W.Count("provider-borrowed-names: random history")
		do("provider-borrowed-names", syncMode, 0, fl, ops)
	}
}
