// Intentionally empty: its presence lets provider.go declare its body-less, link-named functions.
