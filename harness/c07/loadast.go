package main

// which=7 — go/ast reading of the LOAD functions (stream "load-ast"): which paths does the loader of a saver touch?
//
//	case = (#file #recv #load #save)   file relative to the file.d module the harness was built against
//	obs  = ((#dest ...) ((#fn #path) ...)) | (#harness: ...)
//	  dest  the second argument of every os.Rename reached from method `save` of type recv (the committed file)
//	  fn/path  every call of package os / filepath / ioutil reached from method `load` (through methods of the same
//	        receiver, function literals included) other than the error predicates, with its first argument;
//	        an identifier is replaced by every expression the function assigns to it; the receiver is spelled "recv"
//
// The model demands that every path the loader touches is a rename destination of the saver: the loader reads
// only the committed file, never a temp path. This is an ADDITION to the differential streams crash-load-*.

import (
	"bytes"
	"go/ast"
	"go/parser"
	"go/printer"
	"go/token"
	"io/fs"
	"path/filepath"
	"runtime/debug"
	"sort"
	"strings"

	"verif/harness/hmain"
	"verif/harness/hx"
)

func fileDModuleDir() string {
	if bi, ok := debug.ReadBuildInfo(); ok {
		for _, d := range bi.Deps {
			if d.Path == "github.com/ozontech/file.d" && d.Replace != nil && d.Replace.Path != "" {
				return d.Replace.Path
			}
		}
	}
	return "/repo"
}

type astScan struct {
	fset    *token.FileSet
	methods map[string]*ast.FuncDecl // methods of the receiver type
	recv    string
}

func recvTypeName(fd *ast.FuncDecl) (typ string, name string) {
	if fd.Recv == nil || len(fd.Recv.List) == 0 {
		return "", ""
	}
	f := fd.Recv.List[0]
	t := f.Type
	if s, ok := t.(*ast.StarExpr); ok {
		t = s.X
	}
	if id, ok := t.(*ast.Ident); ok {
		typ = id.Name
	}
	if len(f.Names) > 0 {
		name = f.Names[0].Name
	}
	return
}

// text of an expression with the receiver identifier spelled "recv"
func (s *astScan) text(e ast.Expr, recvName string) string {
	var b bytes.Buffer
	_ = printer.Fprint(&b, s.fset, e)
	out := b.String()
	if recvName != "" {
		// rename whole-identifier occurrences of the receiver
		var r bytes.Buffer
		isId := func(c byte) bool {
			return c == '_' || c >= '0' && c <= '9' || c >= 'a' && c <= 'z' || c >= 'A' && c <= 'Z'
		}
		for i := 0; i < len(out); {
			if (i == 0 || !isId(out[i-1]) && out[i-1] != '.') && len(out)-i >= len(recvName) && out[i:i+len(recvName)] == recvName &&
				(i+len(recvName) == len(out) || !isId(out[i+len(recvName)])) {
				r.WriteString("recv")
				i += len(recvName)
				continue
			}
			r.WriteByte(out[i])
			i++
		}
		out = r.String()
	}
	return out
}

// candidates: the expression itself, or — for a plain identifier — everything the function assigns to it
func (s *astScan) candidates(fd *ast.FuncDecl, e ast.Expr, recvName string) []string {
	id, ok := e.(*ast.Ident)
	if !ok {
		return []string{s.text(e, recvName)}
	}
	var out []string
	ast.Inspect(fd.Body, func(n ast.Node) bool {
		switch a := n.(type) {
		case *ast.AssignStmt:
			for i, l := range a.Lhs {
				if li, ok := l.(*ast.Ident); ok && li.Name == id.Name {
					if len(a.Rhs) == len(a.Lhs) {
						out = append(out, s.text(a.Rhs[i], recvName))
					} else if len(a.Rhs) == 1 {
						out = append(out, s.text(a.Rhs[0], recvName))
					}
				}
			}
		case *ast.ValueSpec:
			for i, nm := range a.Names {
				if nm.Name == id.Name && i < len(a.Values) {
					out = append(out, s.text(a.Values[i], recvName))
				}
			}
		}
		return true
	})
	if len(out) == 0 {
		out = []string{s.text(e, recvName)}
	}
	return out
}

var purePredicates = map[string]bool{"IsNotExist": true, "IsExist": true, "IsPermission": true, "IsTimeout": true}
var fsPackages = map[string]bool{"os": true, "filepath": true, "ioutil": true}

// walk visits the calls of package os/filepath/ioutil reached from method `name`
func (s *astScan) walk(name string, seen map[string]bool, visit func(fd *ast.FuncDecl, recvName, pkg, fn string, call *ast.CallExpr)) {
	fd := s.methods[name]
	if fd == nil || fd.Body == nil || seen[name] {
		return
	}
	seen[name] = true
	_, recvName := recvTypeName(fd)
	ast.Inspect(fd.Body, func(n ast.Node) bool {
		call, ok := n.(*ast.CallExpr)
		if !ok {
			return true
		}
		sel, ok := call.Fun.(*ast.SelectorExpr)
		if !ok {
			return true
		}
		x, ok := sel.X.(*ast.Ident)
		if !ok {
			return true
		}
		switch {
		case fsPackages[x.Name]:
			visit(fd, recvName, x.Name, sel.Sel.Name, call)
		case x.Name == recvName && recvName != "":
			s.walk(sel.Sel.Name, seen, visit)
		}
		return true
	})
}

func execLoadAST(cs hx.Sx) hx.Sx {
	it := hx.Items(cs)
	if len(it) != 4 {
		return badObs("load-ast case")
	}
	file, recv, load, save := hx.Str(it[0]), hx.Str(it[1]), hx.Str(it[2]), hx.Str(it[3])
	dir := filepath.Dir(filepath.Join(fileDModuleDir(), file))
	s := &astScan{fset: token.NewFileSet(), methods: map[string]*ast.FuncDecl{}, recv: recv}
	pkgs, err := parser.ParseDir(s.fset, dir, func(fi fs.FileInfo) bool {
		n := fi.Name()
		return strings.HasSuffix(n, ".go") && !strings.HasSuffix(n, "_test.go") && !strings.HasPrefix(n, "verif_export_")
	}, 0)
	if err != nil {
		return badObs("parse: " + err.Error())
	}
	for _, p := range pkgs {
		for _, f := range p.Files {
			for _, d := range f.Decls {
				if fd, ok := d.(*ast.FuncDecl); ok {
					if t, _ := recvTypeName(fd); t == recv {
						s.methods[fd.Name.Name] = fd
					}
				}
			}
		}
	}
	if s.methods[load] == nil || s.methods[save] == nil {
		return badObs("method not found: " + recv + "." + load + " / " + save)
	}
	var dests []string
	s.walk(save, map[string]bool{}, func(fd *ast.FuncDecl, recvName, pkg, fn string, call *ast.CallExpr) {
		if pkg == "os" && fn == "Rename" && len(call.Args) == 2 {
			dests = append(dests, s.candidates(fd, call.Args[1], recvName)...)
		}
	})
	var touched [][2]string
	s.walk(load, map[string]bool{}, func(fd *ast.FuncDecl, recvName, pkg, fn string, call *ast.CallExpr) {
		if purePredicates[fn] {
			return
		}
		if len(call.Args) == 0 {
			touched = append(touched, [2]string{pkg + "." + fn, ""})
			return
		}
		for _, c := range s.candidates(fd, call.Args[0], recvName) {
			touched = append(touched, [2]string{pkg + "." + fn, c})
		}
	})
	sort.Strings(dests)
	sort.Slice(touched, func(a, b int) bool {
		if touched[a][0] != touched[b][0] {
			return touched[a][0] < touched[b][0]
		}
		return touched[a][1] < touched[b][1]
	})
	return hx.L(hx.Ss(dests), hx.List(touched, func(t [2]string) hx.Sx { return hx.L(hx.S(t[0]), hx.S(t[1])) }))
}

func genLoadAST(c *hmain.Ctx) {
	c.Do("load-ast", 7, hx.L(hx.S("plugin/input/file/offset.go"), hx.S("offsetDB"), hx.S("load"), hx.S("save")), true)
	c.Do("load-ast", 7, hx.L(hx.S("offset/offset.go"), hx.S("Offset"), hx.S("Load"), hx.S("Save")), true)
}
