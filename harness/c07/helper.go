package main

// Helper process of the fault-injection streams: runs ONE real save (file plugin's offsetDB.save or the
// generic offset.SaveYAML) under strace. All file-system calls of the save happen on the main OS
// thread (locked in init), bracketed by two marker syscalls so the parent can find them in the log.

import (
	"fmt"
	"os"
	"runtime"

	"github.com/ozontech/file.d/offset"
	filein "github.com/ozontech/file.d/plugin/input/file"

	"verif/harness/hx"
)

func init() {
	if len(os.Args) > 1 && os.Args[1] == "c07helper" {
		runtime.LockOSThread()
	}
}

const markBegin = "/verif-c07-marker-begin"
const markEnd = "/verif-c07-marker-end"

// c07helper <filed|generic> <dir> <table-sx>
func helperMain() {
	if len(os.Args) < 5 {
		fmt.Fprintln(os.Stderr, "usage: c07helper filed|generic dir table")
		os.Exit(2)
	}
	target, dir := os.Args[2], os.Args[3]
	table := decodeTable(hx.MustParse(os.Args[4]))
	cur := dir + "/offsets.yaml"
	_, _ = os.Stat(markBegin)
	rc := 0
	switch target {
	case "filed":
		filein.VerifC07Save(cur, cur+".atomic", table)
	case "generic":
		if err := offset.SaveYAML(cur, genericValue(table)); err != nil {
			rc = 3
		}
	}
	_, _ = os.Stat(markEnd)
	os.Exit(rc)
}
