package main

// Helper process of the fault-injection streams: runs ONE real save (file plugin's offsetDB.save or the
// generic offset.SaveYAML) under strace. All file-system calls of the save happen on the main OS
// thread (locked in init), bracketed by two marker syscalls so the parent can find them in the log.

import (
	"fmt"
	"os"
	"runtime"
	"unsafe"

	"github.com/ozontech/file.d/offset"
	"github.com/ozontech/file.d/pipeline"
	filein "github.com/ozontech/file.d/plugin/input/file"

	"verif/harness/hx"
)

func init() {
	if len(os.Args) > 1 && os.Args[1] == "c07helper" {
		runtime.LockOSThread()
	}
}

const markBegin = "/verif-c07-marker-begin"
const markEnd = "/verif-c07-marker-end"

// c07helper <filed|generic> <dir> <table-sx>
func helperMain() {
	if len(os.Args) < 5 {
		fmt.Fprintln(os.Stderr, "usage: c07helper filed|generic dir table")
		os.Exit(2)
	}
	target, dir := os.Args[2], os.Args[3]
	table := decodeTable(hx.MustParse(os.Args[4]))
	cur := dir + "/offsets.yaml"
	_, _ = os.Stat(markBegin)
	rc := 0
	switch target {
	case "filed":
		filein.VerifC07Save(cur, cur+".atomic", table)
	case "generic":
		if err := offset.SaveYAML(cur, genericValue(table)); err != nil {
			rc = 3
		}
	}
	_, _ = os.Stat(markEnd)
	os.Exit(rc)
}

// ---- borrowed byte strings ------------------------------------------------------------------------------------
// General rule of this harness: a byte string handed to the code under test is BORROWED - it is backed by a buffer the
// harness overwrites as soon as the call returned. That is what the pipeline does: Event.streamName is the unsafe string
// insane-json returns for the event's stream field, it points into the decode buffer of the pooled event, and the next
// line read into that event overwrites the bytes. Code that keeps such a string instead of copying it (a key of
// job.offsets, say) then holds whatever the buffer holds later, and the next save writes a name nobody committed.
//
// c07Lend returns s as an unsafe string over a fresh buffer and the function that poisons the buffer. The poison is a
// function of the bytes only (replays are deterministic): every byte becomes a DIFFERENT letter, never a newline /
// ':' / blank, so an aliased name is still a loadable one and shows up in the observation as a name never committed.
func c07Lend(s string) (string, func()) {
	if len(s) == 0 {
		return "", func() {}
	}
	buf := make([]byte, len(s))
	copy(buf, s)
	poison := func() {
		for i, b := range buf {
			nb := 'A' + b%26
			if nb == b {
				nb = 'z'
			}
			buf[i] = nb
		}
	}
	return unsafe.String(&buf[0], len(buf)), poison
}

// c07Event: a regular event of the source whose stream name is borrowed (see c07Lend); recycle() is what the pipeline
// does with the event after commit returned.
func c07Event(sid uint64, seq uint64, off int64, stream string) (e *pipeline.Event, recycle func()) {
	name, poison := c07Lend(stream)
	return pipeline.VerifC07Event(pipeline.SourceID(sid), seq, off, name), poison
}
