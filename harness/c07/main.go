package main

// C07 — the offsets file is always a loadable snapshot, never ahead of commits.
// Drives the real offsetDB.save / load / parse (plugin/input/file, through verif_export_c07.go), the real
// offset.SaveYAML / LoadYAML, and the real jobProvider.commit.
//
//	table   = (job ...)      job = (#file inode sid ts ((#stream off) ...))
//	loadres = (0 (row ...)) | (1) error | (2) panic       row = (#file sid ts ((#stream off) ...)), sorted
//	which=0  save then load            case = table                     obs = (#filebytes loadres)
//	which=1  parse                     case = #content                  obs = loadres
//	which=2  fault injection (strace)  case = (target old new sys k kind)
//	                                   obs  = (#oldbytes ((op res #data) ...) #finalbytes loadres)
//	which=3  commits racing saves      case = (table (script ...) nsaves)  obs = (loadres ...)
//	which=4  overlapping saves         case = (table (script ...) K)       obs = ((loadres (done_j ...)) ...)
//	         K goroutines each loop {real commit of the next offset of one of their jobs; real save} on ONE
//	         offsetDB (what persistence_mode=sync does) while a checker keeps parsing the current file
//	which=5  table sequence            case = (table ...)               obs = ((#filebytes loadres) ...)
//	         the tables are saved one after the other by ONE offsetDB (its 64 KiB buffer and snapshot slice are reused)
//	which=6  load after a crash        case = (target old new cp override names)  obs = (oldb #newb dir1 dir2 load)   see crashload.go
//	which=7  go/ast of the loaders     case = (#file #recv #load #save)  obs = ((#dest ...) ((#fn #path) ...))   see loadast.go
//	which=8  which 4 under persistence_mode sync (the save inside the real commit)                          see provider.go
//	which=9  real async saver + real stop()  case = (table (script ...) nreads)  obs = (loadres ...)          see provider.go
//	which=10 provider history          case = (sync op0 files ops)      obs = ((res loadres) ...)            see provider.go
//	which=11 error paths / foreign file case = (kind ...)                                                     see errors.go
//
// which=2 runs a helper process (this binary, "c07helper") that performs ONE real save under
// `strace -f -e inject=...`: the k-th call of one kind fails with EIO/ENOSPC or the process is killed on
// entering it; the observable is the sequence of file-system calls the save really made (from the strace
// log), the bytes of the offsets file afterwards and what the real loader makes of them.

import (
	"bytes"
	"encoding/hex"
	"fmt"
	"math"
	"os"
	"os/exec"
	"path/filepath"
	"reflect"
	"regexp"
	"runtime"
	"sort"
	"strconv"
	"strings"
	"sync"
	"sync/atomic"
	"time"
	"unsafe"

	"github.com/ozontech/file.d/logger"
	"github.com/ozontech/file.d/offset"
	"github.com/ozontech/file.d/pipeline"
	filein "github.com/ozontech/file.d/plugin/input/file"
	"go.uber.org/zap/zapcore"

	"verif/harness/hmain"
	"verif/harness/hx"
)

// ---- tables <-> sx ---------------------------------------------------------------------------------
func decodeTable(v hx.Sx) []filein.VerifC07Job {
	var out []filein.VerifC07Job
	for _, j := range hx.Items(v) {
		it := hx.Items(j)
		job := filein.VerifC07Job{Filename: hx.Str(it[0]), Inode: hx.Uint(it[1]), SourceID: hx.Uint(it[2]), Timestamp: hx.Int(it[3])}
		for _, s := range hx.Items(it[4]) {
			kv := hx.Items(s)
			job.Streams = append(job.Streams, filein.VerifC07Stream{Name: hx.Str(kv[0]), Offset: hx.Int(kv[1])})
		}
		out = append(out, job)
	}
	return out
}

func encodeStreams(ss []filein.VerifC07Stream) hx.Sx {
	return hx.List(ss, func(s filein.VerifC07Stream) hx.Sx { return hx.L(hx.S(s.Name), hx.Z(s.Offset)) })
}

func encodeTable(t []filein.VerifC07Job) hx.Sx {
	return hx.List(t, func(j filein.VerifC07Job) hx.Sx {
		return hx.L(hx.S(j.Filename), hx.U(j.Inode), hx.U(j.SourceID), hx.Z(j.Timestamp), encodeStreams(j.Streams))
	})
}

func loadres(rows []filein.VerifC07Job, err error, panicked string) hx.Sx {
	if panicked != "" {
		return hx.L(hx.I(2))
	}
	if err != nil {
		return hx.L(hx.I(1))
	}
	return hx.L(hx.I(0), hx.List(rows, func(j filein.VerifC07Job) hx.Sx {
		return hx.L(hx.S(j.Filename), hx.U(j.SourceID), hx.Z(j.Timestamp), encodeStreams(j.Streams))
	}))
}

func realLoad(cur string) hx.Sx {
	var rows []filein.VerifC07Job
	var err error
	p := hx.Catch(func() { rows, err = filein.VerifC07Load(cur) })
	return loadres(rows, err, p)
}

// ---- scratch space -----------------------------------------------------------------------------------
var scratchRoot string
var scratchN int

func scratch() string {
	if scratchRoot == "" {
		base := "/dev/shm"
		if st, err := os.Stat(base); err != nil || !st.IsDir() {
			base = os.TempDir()
		}
		scratchRoot, _ = os.MkdirTemp(base, "verif-c07-")
	}
	scratchN++
	d := filepath.Join(scratchRoot, strconv.Itoa(scratchN))
	_ = os.MkdirAll(d, 0o755)
	return d
}

// ---- which=0 / which=1 ---------------------------------------------------------------------------------
func execRoundtrip(cs hx.Sx) hx.Sx {
	table := decodeTable(cs)
	d := scratch()
	defer os.RemoveAll(d)
	cur := filepath.Join(d, "offsets.yaml")
	p := hx.Catch(func() { filein.VerifC07Save(cur, cur+".atomic", table) })
	if p != "" {
		return hx.L(hx.S(""), hx.L(hx.I(2)))
	}
	content, _ := os.ReadFile(cur)
	return hx.L(hx.B(content), realLoad(cur))
}

func execParse(cs hx.Sx) hx.Sx {
	var rows []filein.VerifC07Job
	var err error
	p := hx.Catch(func() { rows, err = filein.VerifC07Parse(hx.Str(cs)) })
	return loadres(rows, err, p)
}

// ---- which=2: strace ------------------------------------------------------------------------------------
var sysNames = []string{"openat", "write", "fsync", "renameat", "close", "unlinkat"}

type call struct {
	name   string
	args   string
	ret    string // "" = never returned (killed)
	inject bool
}

var retRe = regexp.MustCompile(`\)\s+= `)
var hexStr = regexp.MustCompile(`^"((?:\\x[0-9a-f]{2})*)"`)

func unhex(s string) (string, string, bool) { // leading "\x..\x.." literal -> bytes, rest
	m := hexStr.FindStringSubmatch(s)
	if m == nil {
		return "", s, false
	}
	b, _ := hex.DecodeString(strings.ReplaceAll(m[1], `\x`, ""))
	return string(b), s[len(m[0]):], true
}

// mainCalls returns the calls of the thread that issued the begin marker, in order, with the index of
// the marker call; lines split by strace into "<unfinished ...>" / "<... resumed>" are merged.
func mainCalls(log string) (calls []call, begin int, end int) {
	begin, end = -1, -1
	lines := strings.Split(log, "\n")
	beginHex := `"` + hexify(markBegin) + `"`
	endHex := `"` + hexify(markEnd) + `"`
	tid := ""
	for _, l := range lines {
		if strings.Contains(l, beginHex) {
			tid = strings.SplitN(l, " ", 2)[0]
			break
		}
	}
	if tid == "" {
		return nil, -1, -1
	}
	var open *call
	for _, l := range lines {
		sp := strings.SplitN(l, " ", 2)
		if len(sp) < 2 || sp[0] != tid {
			continue
		}
		rest := strings.TrimLeft(sp[1], " ")
		switch {
		case strings.HasPrefix(rest, "+++") || strings.HasPrefix(rest, "---"):
			continue
		case strings.HasPrefix(rest, "<... "):
			if open != nil {
				i := strings.Index(rest, "resumed>")
				tail := rest[i+len("resumed>"):]
				finish(open, open.args+tail)
				calls = append(calls, *open)
				open = nil
			}
		default:
			p := strings.Index(rest, "(")
			if p < 0 {
				continue
			}
			c := call{name: rest[:p]}
			body := rest[p+1:]
			if strings.HasSuffix(body, "<unfinished ...>") {
				c.args = strings.TrimSuffix(body, "<unfinished ...>")
				cc := c
				open = &cc
				continue
			}
			finish(&c, body)
			calls = append(calls, c)
		}
	}
	if open != nil { // killed inside the call
		calls = append(calls, *open)
	}
	for i, c := range calls {
		if c.name == "newfstatat" && strings.Contains(c.args, beginHex) && begin < 0 {
			begin = i
		}
		if c.name == "newfstatat" && strings.Contains(c.args, endHex) {
			end = i
		}
	}
	return calls, begin, end
}

func finish(c *call, body string) {
	loc := retRe.FindAllStringIndex(body, -1)
	if len(loc) == 0 {
		c.args = body
		return
	}
	last := loc[len(loc)-1]
	c.args = body[:last[0]]
	c.ret = strings.TrimSpace(body[last[1]:])
	c.inject = strings.Contains(c.ret, "(INJECTED)")
	if strings.HasPrefix(c.ret, "?") {
		c.ret = ""
	}
}

func hexify(s string) string {
	var b strings.Builder
	for i := 0; i < len(s); i++ {
		fmt.Fprintf(&b, `\x%02x`, s[i])
	}
	return b.String()
}

type pev struct {
	op   int
	res  int
	data []byte
	raw  int // index in the thread's call list
}

// protoEvents classifies the calls between the markers: the temp file is every path "<cur>.something".
func protoEvents(calls []call, begin, end int, cur string) []pev {
	var out []pev
	tmpfd := ""
	tmppath := ""
	hi := len(calls)
	if end >= 0 {
		hi = end
	}
	for i := begin + 1; i < hi; i++ {
		c := calls[i]
		res := 0
		switch {
		case c.ret == "":
			res = 2
		case strings.HasPrefix(c.ret, "-1"):
			res = 1
		}
		arg := strings.Split(c.args, ", ")
		switch c.name {
		case "openat":
			if len(arg) < 2 {
				continue
			}
			path, _, ok := unhex(arg[1])
			if !ok || !strings.HasPrefix(path, cur) {
				continue
			}
			if path == cur {
				out = append(out, pev{op: 9, res: res, raw: i})
				continue
			}
			tmppath = path
			if res == 0 {
				tmpfd = strings.Fields(c.ret)[0]
			}
			out = append(out, pev{op: 0, res: res, raw: i})
		case "write":
			if arg[0] != tmpfd || tmpfd == "" {
				continue
			}
			data, _, _ := unhex(arg[1])
			out = append(out, pev{op: 1, res: res, data: []byte(data), raw: i})
		case "fsync", "fdatasync":
			if arg[0] != tmpfd || tmpfd == "" {
				continue
			}
			out = append(out, pev{op: 2, res: res, raw: i})
		case "rename", "renameat", "renameat2":
			var from, to string
			for _, a := range arg {
				if s, _, ok := unhex(a); ok {
					if from == "" {
						from = s
					} else {
						to = s
					}
				}
			}
			if !strings.HasPrefix(from, cur) && !strings.HasPrefix(to, cur) {
				continue
			}
			if from == tmppath && to == cur && tmppath != "" {
				out = append(out, pev{op: 3, res: res, raw: i})
			} else {
				out = append(out, pev{op: 9, res: res, raw: i})
			}
		case "close":
			if arg[0] != tmpfd || tmpfd == "" {
				continue
			}
			out = append(out, pev{op: 4, res: res, raw: i})
			if res != 2 {
				tmpfd = ""
			}
		case "unlink", "unlinkat":
			path := ""
			for _, a := range arg {
				if s, _, ok := unhex(a); ok {
					path = s
				}
			}
			if !strings.HasPrefix(path, cur) {
				continue
			}
			if path == tmppath {
				out = append(out, pev{op: 5, res: res, raw: i})
			} else {
				out = append(out, pev{op: 9, res: res, raw: i})
			}
		}
	}
	return out
}

func runHelper(target string, dir string, table hx.Sx, inject string) (string, error) {
	exe, err := os.Executable()
	if err != nil {
		return "", err
	}
	logf := filepath.Join(dir, "strace.log")
	args := []string{"-f", "-o", logf, "-xx", "-s", "4194304",
		"-e", "trace=openat,write,fsync,fdatasync,rename,renameat,renameat2,close,unlink,unlinkat,newfstatat"}
	if inject != "" {
		args = append(args, "-e", "inject="+inject)
	}
	args = append(args, exe, "c07helper", target, dir, hx.String(table))
	cmd := exec.Command("strace", args...)
	cmd.Env = append(os.Environ(), "LOG_LEVEL=fatal")
	done := make(chan error, 1)
	if err := cmd.Start(); err != nil {
		return "", err
	}
	go func() { done <- cmd.Wait() }()
	select {
	case <-done:
	case <-time.After(30 * time.Second):
		_ = cmd.Process.Kill()
		<-done
		return "", fmt.Errorf("helper timed out")
	}
	b, err := os.ReadFile(logf)
	return string(b), err
}

func genericValue(table []filein.VerifC07Job) map[string]int64 {
	m := map[string]int64{}
	for _, j := range table {
		for _, s := range j.Streams {
			m[fmt.Sprintf("%d/%x", j.SourceID, s.Name)] = s.Offset
		}
	}
	return m
}

func badObs(why string) hx.Sx { return hx.L(hx.S("harness: " + why)) }

func execFault(cs hx.Sx) hx.Sx {
	it := hx.Items(cs)
	target := "filed"
	if hx.Int(it[0]) == 1 {
		target = "generic"
	}
	oldT, newT := decodeTable(it[1]), decodeTable(it[2])
	sys, k, kind := int(hx.Int(it[3])), int(hx.Int(it[4])), int(hx.Int(it[5]))
	if sys < 0 || sys >= len(sysNames) {
		return badObs("sys")
	}
	missing := 0
	for attempt := 0; attempt < 15; attempt++ { // under load the helper's threads are scheduled differently from the calibration run: retry
		d := scratch()
		cur := filepath.Join(d, "offsets.yaml")
		// the good old file, written by the real code without interference
		if target == "filed" {
			filein.VerifC07Save(cur, cur+".atomic", oldT)
		} else if err := offset.SaveYAML(cur, genericValue(oldT)); err != nil {
			os.RemoveAll(d)
			return badObs("old save: " + err.Error())
		}
		oldBytes, _ := os.ReadFile(cur)
		inject := ""
		if kind != 0 {
			// calibration: position of the protocol's k-th call of this kind among the thread's calls of that name
			cd := scratch()
			ccur := filepath.Join(cd, "offsets.yaml")
			_ = os.WriteFile(ccur, oldBytes, 0o600)
			clog, err := runHelper(target, cd, it[2], "")
			os.RemoveAll(cd)
			if err != nil {
				os.RemoveAll(d)
				return badObs("calibration: " + err.Error())
			}
			calls, b, e := mainCalls(clog)
			evs := protoEvents(calls, b, e, ccur)
			rawIdx, seen := -1, 0
			for _, ev := range evs {
				if ev.op == sys {
					seen++
					if seen == k {
						rawIdx = ev.raw
					}
				}
			}
			if rawIdx < 0 {
				os.RemoveAll(d)
				// under load a calibration log may come out incomplete: believe "no such call" only the third time in a row
				if missing++; missing < 3 {
					continue
				}
				return hx.L(hx.B(oldBytes), hx.L(), hx.B(oldBytes), hx.L(hx.I(9))) // the real code makes no such call
			}
			missing = 0
			when := 0
			for i := 0; i <= rawIdx; i++ {
				if calls[i].name == calls[rawIdx].name {
					when++
				}
			}
			what := map[int]string{1: "error=EIO", 2: "error=ENOSPC", 3: "signal=SIGKILL"}[kind]
			inject = fmt.Sprintf("%s:%s:when=%d", calls[rawIdx].name, what, when)
		}
		log, err := runHelper(target, d, it[2], inject)
		if err != nil {
			os.RemoveAll(d)
			return badObs("helper: " + err.Error())
		}
		calls, b, e := mainCalls(log)
		if b < 0 {
			os.RemoveAll(d)
			continue
		}
		evs := protoEvents(calls, b, e, cur)
		// did the fault land on the intended call?
		if kind != 0 {
			hit := false
			seen := 0
			for _, ev := range evs {
				if ev.op == sys {
					seen++
					if seen == k {
						hit = (kind == 3 && ev.res == 2) || (kind != 3 && ev.res == 1 && calls[ev.raw].inject)
					}
				}
			}
			if !hit {
				os.RemoveAll(d)
				continue // thread scheduling differed from the calibration run: try again
			}
		}
		finalBytes, _ := os.ReadFile(cur)
		var lr hx.Sx
		if target == "filed" {
			lr = realLoad(cur)
		} else {
			got := map[string]int64{}
			if err := offset.LoadYAML(cur, &got); err != nil {
				lr = hx.L(hx.I(1))
			} else {
				lr = hx.L(hx.I(0), hx.Bool(reflect.DeepEqual(got, genericValue(oldT))), hx.Bool(reflect.DeepEqual(got, genericValue(newT))))
			}
		}
		os.RemoveAll(d)
		return hx.L(hx.B(oldBytes), hx.List(evs, func(e pev) hx.Sx { return hx.L(hx.I(e.op), hx.I(e.res), hx.B(e.data)) }), hx.B(finalBytes), lr)
	}
	return badObs("the injected fault never landed on the intended call")
}

// ---- which=3: real commits racing real saves -----------------------------------------------------------
func execConcurrent(cs hx.Sx) hx.Sx {
	it := hx.Items(cs)
	table := decodeTable(it[0])
	scripts := hx.Items(it[1])
	nsaves := int(hx.Int(it[2]))
	d := scratch()
	defer os.RemoveAll(d)
	cur := filepath.Join(d, "offsets.yaml")
	p := filein.VerifC07NewProvider(cur, cur+".atomic", table)
	var wg sync.WaitGroup
	var snaps []hx.Sx
	panicked := hx.Catch(func() {
		for i, j := range table {
			if i >= len(scripts) {
				break
			}
			wg.Add(1)
			go func(sid uint64, script []hx.Sx) {
				defer wg.Done()
				for n, c := range script {
					kv := hx.Items(c)
					e, recycle := c07Event(sid, uint64(n+1), hx.Int(kv[1]), hx.Str(kv[0]))
					p.Commit(e)
					recycle() // the stream name was borrowed: its buffer is overwritten once commit returned
					if n%3 == 0 {
						runtime.Gosched()
					}
					if n%8 == 7 {
						time.Sleep(20 * time.Microsecond)
					}
				}
			}(j.SourceID, hx.Items(scripts[i]))
		}
		for s := 0; s+1 < nsaves; s++ {
			p.Save()
			snaps = append(snaps, realLoad(cur))
		}
		wg.Wait()
		p.Save()
		snaps = append(snaps, realLoad(cur))
	})
	if panicked != "" {
		wg.Wait()
		return hx.L(hx.L(hx.I(2)))
	}
	return hx.L(snaps...)
}

// ---- which=4: overlapping saves of one offsetDB, a concurrent reader -----------------------------------
func execOverlap(cs hx.Sx, syncMode bool) hx.Sx {
	it := hx.Items(cs)
	table := decodeTable(it[0])
	scripts := hx.Items(it[1])
	k := int(hx.Int(it[2]))
	if k < 1 {
		k = 1
	}
	d := scratch()
	defer os.RemoveAll(d)
	cur := filepath.Join(d, "offsets.yaml")
	p := filein.VerifC07NewProvider(cur, cur+".atomic", table)
	p.Save()
	if syncMode { // which 8: persistence_mode = sync, the save below is the one inside the real commit
		setSyncMode(p)
	}
	started := make([]atomic.Int64, len(table)) // commits of job j begun (incremented BEFORE the commit)
	sample := func() hx.Sx {
		out := make([]hx.Sx, len(table))
		for i := range started {
			out[i] = hx.Z(started[i].Load())
		}
		return hx.L(out...)
	}
	parse := func(content []byte) hx.Sx {
		var rows []filein.VerifC07Job
		var err error
		pn := hx.Catch(func() { rows, err = filein.VerifC07Parse(string(content)) })
		return loadres(rows, err, pn)
	}
	var stop atomic.Bool
	var wg, cwg sync.WaitGroup
	var reads []hx.Sx
	var panicMu sync.Mutex
	panicked := ""
	cwg.Add(1)
	go func() { // the checker
		defer cwg.Done()
		var last []byte
		normal, odd := 0, 0
		for !stop.Load() {
			content, err := os.ReadFile(cur)
			if err != nil || (last != nil && bytes.Equal(content, last)) {
				runtime.Gosched()
				continue
			}
			last = content
			lr := parse(content)
			dn := sample()
			looksOdd := true
			if li := hx.Items(lr); len(li) == 2 && len(hx.Items(li[1])) == len(table) {
				looksOdd = false
			}
			if looksOdd && odd < 40 {
				odd++
				reads = append(reads, hx.L(lr, dn))
			} else if !looksOdd && normal < 120 {
				normal++
				reads = append(reads, hx.L(lr, dn))
			}
		}
	}()
	for c := 0; c < k; c++ {
		wg.Add(1)
		go func(c int) {
			defer wg.Done()
			pn := hx.Catch(func() {
				pos := make([]int, len(table))
				for progressed := true; progressed; {
					progressed = false
					for i := c; i < len(table) && i < len(scripts); i += k {
						sc := hx.Items(scripts[i])
						if pos[i] >= len(sc) {
							continue
						}
						kv := hx.Items(sc[pos[i]])
						pos[i]++
						progressed = true
						started[i].Add(1)
						e, recycle := c07Event(table[i].SourceID, uint64(pos[i]), hx.Int(kv[1]), hx.Str(kv[0]))
						p.Commit(e)
						recycle() // borrowed stream name, overwritten before the save below
						if !syncMode {
							p.Save()
						}
					}
				}
			})
			if pn != "" {
				panicMu.Lock()
				panicked = pn
				panicMu.Unlock()
			}
		}(c)
	}
	wg.Wait()
	stop.Store(true)
	cwg.Wait()
	if panicked != "" {
		return hx.L(hx.L(hx.L(hx.I(2)), sample()))
	}
	content, _ := os.ReadFile(cur)
	reads = append(reads, hx.L(parse(content), sample()))
	return hx.L(reads...)
}

// ---- which=5: a sequence of tables saved by ONE offsetDB instance ---------------------------------------
// providerJobs reaches the (unexported) job table of the provider: the export file offers no way to change the
// table of a live provider, and a new provider would bring a new offsetDB (fresh 64 KiB buffer, fresh snapshot
// slice). The harness only swaps the map's content — what addJob / deleteJobAndUnlock do under jobsMu.
func providerJobs(p *filein.VerifC07Provider) map[pipeline.SourceID]*filein.Job {
	jp := reflect.ValueOf(p).Elem().FieldByName("jp").Elem() // the jobProvider struct (addressable)
	f := jp.FieldByName("jobs")
	return *(*map[pipeline.SourceID]*filein.Job)(unsafe.Pointer(f.UnsafeAddr()))
}

func execSequence(cs hx.Sx) hx.Sx {
	tables := hx.Items(cs)
	if len(tables) == 0 {
		return hx.L()
	}
	d := scratch()
	defer os.RemoveAll(d)
	cur := filepath.Join(d, "offsets.yaml")
	var p *filein.VerifC07Provider
	var live map[pipeline.SourceID]*filein.Job
	var out []hx.Sx
	for i, t := range tables {
		table := decodeTable(t)
		pn := hx.Catch(func() {
			if i == 0 {
				p = filein.VerifC07NewProvider(cur, cur+".atomic", table)
				live = providerJobs(p)
			} else {
				donor := providerJobs(filein.VerifC07NewProvider(cur+".unused", cur+".unused.atomic", table))
				for k := range live {
					delete(live, k)
				}
				for k, j := range donor {
					live[k] = j
				}
			}
			p.Save()
		})
		if pn != "" {
			out = append(out, hx.L(hx.S(""), hx.L(hx.I(2))))
			continue
		}
		content, _ := os.ReadFile(cur)
		out = append(out, hx.L(hx.B(content), realLoad(cur)))
	}
	return hx.L(out...)
}

func exec07(which int, cs hx.Sx) hx.Sx {
	switch which {
	case 5:
		return execSequence(cs)
	case 6:
		return execCrashLoad(cs)
	case 7:
		return execLoadAST(cs)
	case 0:
		return execRoundtrip(cs)
	case 1:
		return execParse(cs)
	case 2:
		return execFault(cs)
	case 3:
		return execConcurrent(cs)
	case 4:
		return execOverlap(cs, false)
	case 8:
		return execOverlap(cs, true)
	case 9:
		return execCyclic(cs)
	case 10:
		return execHistory(cs)
	case 11:
		return execErrors(cs)
	}
	return hx.L()
}

// ---- generators ---------------------------------------------------------------------------------------
var nastyStreams = []string{"", ":", "a: 5", "- file: x", "  streams:", "stdout", "stderr", "not_set", "ж", "日本語", " lead",
	"trail ", "a:b:", "    x: 1", "\t", "x\r", "\xff\xfe", "-", " ", ": ", "  last_read_timestamp: 3", "a:", ":a", "0", "stream: 7\r"}
var nastyFiles = []string{"/var/log/a.log", "- file: x", "a: 5", " ", "", "/tmp/ф.log", "  inode: 3", "/x/y: z", "  streams:", "\xff", "-", "/var/log/pods/ns_pod_uid/c/0.log"}
var nastyOffsets = []int64{0, 1, 7, 1 << 31, 1<<63 - 1, 1<<63 - 2, 16 * 1024 * 1024, 9, 10, 99, 100}

func randBytesNoNL(r *hx.Rng, n int) string {
	b := make([]byte, n)
	for i := range b {
		for {
			b[i] = byte(r.Intn(256))
			if b[i] != '\n' {
				break
			}
		}
	}
	return string(b)
}

func genName(r *hx.Rng, pool []string) string {
	switch r.Intn(10) {
	case 0:
		return randBytesNoNL(r, r.Range(0, 6))
	case 1:
		return hx.Pick(r, pool) + hx.Pick(r, pool)
	default:
		return hx.Pick(r, pool)
	}
}

func genOffset(r *hx.Rng) int64 {
	if r.Chance(1, 2) {
		return hx.Pick(r, nastyOffsets)
	}
	return int64(r.U64() >> uint(1+r.Intn(62)))
}

func genU64(r *hx.Rng) uint64 {
	switch r.Intn(5) {
	case 0:
		return 0
	case 1:
		return math.MaxUint64
	case 2:
		return uint64(r.Intn(100))
	default:
		return r.U64() >> uint(r.Intn(64))
	}
}

func genTable(r *hx.Rng, maxJobs int, allowEmptyJobs bool) []filein.VerifC07Job {
	n := r.Range(0, maxJobs)
	used := map[uint64]bool{}
	var t []filein.VerifC07Job
	for i := 0; i < n; i++ {
		sid := genU64(r)
		for used[sid] {
			sid = r.U64()
		}
		used[sid] = true
		j := filein.VerifC07Job{Filename: genName(r, nastyFiles), Inode: genU64(r), SourceID: sid}
		switch r.Intn(6) {
		case 0:
			j.Timestamp = 0
		case 1:
			j.Timestamp = math.MinInt64
		case 2:
			j.Timestamp = math.MaxInt64
		case 3:
			j.Timestamp = -1
		default:
			j.Timestamp = int64(r.U64() >> uint(r.Intn(64)))
		}
		lo := 1
		if allowEmptyJobs {
			lo = 0
		}
		ns := r.Range(lo, 4)
		names := map[string]bool{}
		for s := 0; s < ns; s++ {
			name := genName(r, nastyStreams)
			if names[name] {
				continue
			}
			names[name] = true
			j.Streams = append(j.Streams, filein.VerifC07Stream{Name: name, Offset: genOffset(r)})
		}
		t = append(t, j)
	}
	return t
}

func hasStreams(t []filein.VerifC07Job) bool {
	for _, j := range t {
		if len(j.Streams) > 0 {
			return true
		}
	}
	return false
}

func smallNames() []string {
	alpha := []string{"a", ":", " ", "-"}
	out := []string{""}
	out = append(out, alpha...)
	for _, a := range alpha {
		for _, b := range alpha {
			out = append(out, a+b)
		}
	}
	return out
}

func gen07(c *hmain.Ctx) {
	r := c.R
	if os.Getenv("C07_ONLY_COV") != "" { // development aid: the provider / error-path streams alone
		genProvider(c)
		genErrors(c)
		return
	}
	// ---- exhaustive small scope: every one-job table with 1 or 2 streams named over {a, ':', ' ', '-'} up to
	//      length 2 (incl. the empty name), offsets {0, 7, 2^63-1}; every two-job table of single streams
	names := smallNames()
	offs := []int64{0, 7, 1<<63 - 1}
	for _, n1 := range names {
		for _, o1 := range offs {
			t := []filein.VerifC07Job{{Filename: "f", Inode: 1, SourceID: 1, Timestamp: 5, Streams: []filein.VerifC07Stream{{Name: n1, Offset: o1}}}}
			c.Do("exhaustive", 0, encodeTable(t), true)
			for _, n2 := range names {
				if n2 == n1 {
					continue
				}
				for _, o2 := range offs {
					t2 := []filein.VerifC07Job{{Filename: "f", Inode: 1, SourceID: 1, Timestamp: 5,
						Streams: []filein.VerifC07Stream{{Name: n1, Offset: o1}, {Name: n2, Offset: o2}}}}
					c.Do("exhaustive", 0, encodeTable(t2), true)
				}
			}
		}
	}
	for _, n1 := range names {
		for _, n2 := range names {
			for _, f := range []string{"", "- file: x", "  streams:"} {
				t := []filein.VerifC07Job{
					{Filename: f, Inode: 0, SourceID: 2, Timestamp: -1, Streams: []filein.VerifC07Stream{{Name: n1, Offset: 3}}},
					{Filename: "g", Inode: math.MaxUint64, SourceID: math.MaxUint64, Timestamp: 0, Streams: []filein.VerifC07Stream{{Name: n2, Offset: 1<<63 - 1}}}}
				c.Do("exhaustive", 0, encodeTable(t), true)
			}
		}
	}

	// ---- structured random tables
	for i := 0; i < 10000*c.Scale; i++ {
		t := genTable(r, 5, true)
		c.W.Count(fmt.Sprintf("roundtrip jobs=%d", len(t)))
		for _, j := range t {
			for _, s := range j.Streams {
				switch {
				case s.Name == "":
					c.W.Count("stream name empty")
				case strings.Contains(s.Name, ":"):
					c.W.Count("stream name with ':'")
				}
				if s.Offset == 1<<63-1 {
					c.W.Count("offset 2^63-1")
				}
			}
		}
		c.Do("roundtrip", 0, encodeTable(t), hasStreams(t))
	}
	// ---- the empty stream name (the pipeline's stream field may be "")
	for i := 0; i < 200*c.Scale; i++ {
		t := genTable(r, 3, false)
		if len(t) == 0 {
			continue
		}
		j := &t[r.Intn(len(t))]
		has := false
		for _, s := range j.Streams {
			has = has || s.Name == ""
		}
		if !has {
			j.Streams = append(j.Streams, filein.VerifC07Stream{Name: "", Offset: genOffset(r)})
		}
		c.Do("empty-stream", 0, encodeTable(t), true)
	}
	// ---- names with a newline (stream name = the event's stream field; file names may contain one on Linux)
	for i := 0; i < 60*c.Scale; i++ {
		t := genTable(r, 2, false)
		if len(t) == 0 {
			continue
		}
		j := &t[r.Intn(len(t))]
		nl := hx.Pick(r, []string{"\n", "a\nb", "x\n", "\n    y: 3", "s\n- file: z"})
		if r.Bool() || len(j.Streams) == 0 {
			j.Filename += nl
			c.W.Count("newline in file name")
		} else {
			k := r.Intn(len(j.Streams))
			j.Streams[k].Name += nl
			c.W.Count("newline in stream name")
		}
		c.Do("newline-name", 0, encodeTable(t), true)
	}

	// ---- parser on damaged files: every single-byte edit of a few real files + token soup
	var bases [][]byte
	for i := 0; i < 3; i++ {
		t := genTable(r, 2, false)
		if i == 0 {
			t = []filein.VerifC07Job{{Filename: "/var/log/a.log", Inode: 5, SourceID: 7, Timestamp: 1234,
				Streams: []filein.VerifC07Stream{{Name: "stdout", Offset: 100}, {Name: "a:b", Offset: 1<<63 - 1}}},
				{Filename: "b", Inode: 6, SourceID: 8, Timestamp: -3, Streams: []filein.VerifC07Stream{{Name: "", Offset: 0}}}}
		}
		obs := execRoundtrip(encodeTable(t))
		bases = append(bases, hx.Bytes(hx.Items(obs)[0]))
	}
	alpha := []byte{' ', ':', '-', '\n', '0', '9', 'x', '+'}
	nmut := 0
	for bi, b := range bases {
		if len(b) > 400 {
			b = b[:400]
		}
		for pos := 0; pos <= len(b); pos++ {
			var muts [][]byte
			if pos < len(b) {
				muts = append(muts, append(append([]byte{}, b[:pos]...), b[pos+1:]...)) // delete
				muts = append(muts, append([]byte{}, b[:pos]...))                       // truncate
			}
			for _, a := range alpha {
				muts = append(muts, append(append(append([]byte{}, b[:pos]...), a), b[pos:]...)) // insert
				if pos < len(b) && b[pos] != a {
					m := append([]byte{}, b...)
					m[pos] = a
					muts = append(muts, m) // replace
				}
			}
			for _, m := range muts {
				if bi > 0 && c.Scale == 1 && nmut%3 != 0 { // quick: thin out the random bases
					nmut++
					continue
				}
				nmut++
				c.Do("parse-edits", 1, hx.B(m), true)
			}
		}
	}
	tokens := []string{"- file: ", "  inode: ", "  source_id: ", "  last_read_timestamp: ", "  streams:", "    ", ": ", ":", "\n", "\n", "\n",
		"0", "7", "18446744073709551615", "18446744073709551616", "9223372036854775807", "9223372036854775808", "-9223372036854775808",
		"-", "+5", "a", "  ", "x: 1", "_", "1_0", " 5", "5 ", "-0"}
	for i := 0; i < 4000*c.Scale; i++ {
		var b strings.Builder
		if r.Chance(2, 3) { // start from a plausible header
			b.WriteString("- file: f\n  inode: 1\n  source_id: " + strconv.Itoa(r.Intn(3)) + "\n")
			if r.Bool() {
				b.WriteString("  last_read_timestamp: " + hx.Pick(r, tokens) + "\n")
			}
			if r.Chance(4, 5) {
				b.WriteString("  streams:\n")
			}
		}
		for n := r.Range(0, 12); n > 0; n-- {
			b.WriteString(hx.Pick(r, tokens))
		}
		c.Do("parse-soup", 1, hx.S(b.String()), true)
	}

	// ---- fault injection on the real save: every call of the protocol x {EIO, ENOSPC, SIGKILL}, and no fault
	oldT := []filein.VerifC07Job{{Filename: "/var/log/a.log", Inode: 5, SourceID: 7, Timestamp: 1234,
		Streams: []filein.VerifC07Stream{{Name: "stdout", Offset: 100}, {Name: "", Offset: 7}}}}
	newT := []filein.VerifC07Job{{Filename: "/var/log/a.log", Inode: 5, SourceID: 7, Timestamp: 5678,
		Streams: []filein.VerifC07Stream{{Name: "stdout", Offset: 250}, {Name: "", Offset: 9}, {Name: "a: 5", Offset: 1<<63 - 1}}}}
	for target := 0; target <= 1; target++ {
		stream := []string{"fault-filed", "fault-generic"}[target]
		c.Do(stream, 2, hx.L(hx.I(target), encodeTable(oldT), encodeTable(newT), hx.I(0), hx.I(0), hx.I(0)), true)
		// the calls the real code makes, from one clean run (so a protocol change changes the plan)
		clean := execFault(hx.L(hx.I(target), encodeTable(oldT), encodeTable(newT), hx.I(0), hx.I(0), hx.I(0)))
		count := map[int]int{}
		if items := hx.Items(clean); len(items) == 4 {
			for _, e := range hx.Items(items[1]) {
				count[int(hx.Int(hx.Items(e)[0]))]++
			}
		}
		for sys := 0; sys < len(sysNames); sys++ {
			for k := 1; k <= count[sys]; k++ {
				for kind := 1; kind <= 3; kind++ {
					c.W.Count(fmt.Sprintf("fault %s %s", sysNames[sys], []string{"", "EIO", "ENOSPC", "SIGKILL"}[kind]))
					c.Do(stream, 2, hx.L(hx.I(target), encodeTable(oldT), encodeTable(newT), hx.I(sys), hx.I(k), hx.I(kind)), true)
				}
			}
		}
		// other tables: empty old file, empty new table, random ones
		for i := 0; i < 2*c.Scale; i++ {
			o, n := genTable(r, 2, false), genTable(r, 3, false)
			if i == 0 {
				o = nil
			}
			sys := r.Intn(4)
			c.Do(stream, 2, hx.L(hx.I(target), encodeTable(o), encodeTable(n), hx.I(sys), hx.I(1), hx.I(r.Range(1, 3))), true)
		}
	}

	// ---- real commits racing real saves
	for i := 0; i < 40*c.Scale; i++ {
		t := genTable(r, 3, true)
		if len(t) == 0 {
			continue
		}
		var scripts []hx.Sx
		for ji := range t {
			// offsets already in the table must stay below the committed ones
			cur := map[string]int64{}
			for k := range t[ji].Streams {
				t[ji].Streams[k].Offset = int64(r.Intn(50))
				cur[t[ji].Streams[k].Name] = t[ji].Streams[k].Offset
			}
			pool := []string{"stdout", "stderr", "", "a: 5"}
			for _, s := range t[ji].Streams {
				pool = append(pool, s.Name)
			}
			var sc []hx.Sx
			for n := r.Range(5, 60); n > 0; n-- {
				name := hx.Pick(r, pool)
				if strings.Contains(name, "\n") {
					continue
				}
				cur[name] += int64(r.Range(1, 1000))
				sc = append(sc, hx.L(hx.S(name), hx.Z(cur[name])))
			}
			scripts = append(scripts, hx.L(sc...))
		}
		obs := c.Do("concurrent", 3, hx.L(encodeTable(t), hx.L(scripts...), hx.I(r.Range(2, 8))), true)
		distinct := map[string]bool{}
		for _, s := range hx.Items(obs) {
			distinct[hx.String(s)] = true
		}
		c.W.Count(fmt.Sprintf("concurrent: distinct snapshots in one run = %d", len(distinct)))
	}
	// ---- overlapping saves of ONE offsetDB (persistence_mode sync with several committing goroutines)
	for i := 0; i < 24*c.Scale; i++ {
		nj := r.Range(12, 40)
		var t []filein.VerifC07Job
		var scripts []hx.Sx
		for ji := 0; ji < nj; ji++ {
			j := filein.VerifC07Job{Filename: fmt.Sprintf("/var/log/pods/app-%d/0.log", ji), Inode: uint64(1000 + ji), SourceID: uint64(5000 + ji), Timestamp: int64(1700000000000000000 + ji)}
			pool := []string{"stdout", "", "a:b", "stderr", "поток: 7"}
			cur := map[string]int64{}
			first := hx.Pick(r, pool)
			cur[first] = int64(r.Range(1, 50))
			j.Streams = []filein.VerifC07Stream{{Name: first, Offset: cur[first]}} // something is committed for every job from the start
			var sc []hx.Sx
			for n := r.Range(5, 25); n > 0; n-- {
				name := hx.Pick(r, pool)
				cur[name] += int64(r.Range(1, 100000))
				sc = append(sc, hx.L(hx.S(name), hx.Z(cur[name])))
			}
			t = append(t, j)
			scripts = append(scripts, hx.L(sc...))
		}
		k := r.Range(2, 6)
		obs := c.Do("concurrent-saves", 4, hx.L(encodeTable(t), hx.L(scripts...), hx.I(k)), true)
		c.W.Count(fmt.Sprintf("concurrent-saves: K=%d", k))
		c.W.Count(fmt.Sprintf("concurrent-saves: distinct file states seen by the checker in one run >= %d", len(hx.Items(obs))/25*25))
	}
	genCrashLoad(c)
	genLoadAST(c)
	genProvider(c)
	genErrors(c)
	if os.Getenv("C07_SKIP_THRESHOLDS") == "" { // development aid: time the streams above alone
		genThresholds(c)
	}
	if scratchRoot != "" {
		os.RemoveAll(scratchRoot)
	}
	_ = sort.Strings
	_ = bytes.Equal
}

// ---- scale / history thresholds of offset.go and provider.commit (audit items 25, 27) ---------------------
const offsetsBufCap = 65536 // offset.go:45  buf: make([]byte, 0, 65536)

// k8sTable: n jobs named like kubelet's pod log files (about 120 bytes each), one or two streams per job
func k8sTable(r *hx.Rng, n int, base uint64) []filein.VerifC07Job {
	hexs := func(k int) string {
		b := make([]byte, k)
		for i := range b {
			b[i] = "0123456789abcdef"[r.Intn(16)]
		}
		return string(b)
	}
	t := make([]filein.VerifC07Job, 0, n)
	for i := 0; i < n; i++ {
		name := fmt.Sprintf("/var/log/pods/%s_%s-%s-%s_%s-%s-%s-%s-%s/%s/%d.log",
			hx.Pick(r, []string{"default", "kube-system", "monitoring-stack", "payments-prod"}),
			hx.Pick(r, []string{"api-gateway", "file-d", "checkout-service-worker", "x"}), hexs(10), hexs(5),
			hexs(8), hexs(4), hexs(4), hexs(4), hexs(12), hx.Pick(r, []string{"app", "istio-proxy", "init-migrations"}), r.Intn(12))
		j := filein.VerifC07Job{Filename: name, Inode: base + uint64(i), SourceID: base + 1000000 + uint64(i), Timestamp: int64(1700000000000000000 + i)}
		j.Streams = []filein.VerifC07Stream{{Name: "stdout", Offset: int64(r.U64() >> uint(24+r.Intn(30)))}}
		if r.Chance(1, 3) {
			j.Streams = append(j.Streams, filein.VerifC07Stream{Name: "stderr", Offset: int64(r.Intn(1 << 20))})
		}
		t = append(t, j)
	}
	return t
}

// tableBytes = the number of bytes offsetDB.save writes for the table (jobs without streams are skipped)
func tableBytes(t []filein.VerifC07Job) int {
	n := 0
	for _, j := range t {
		if len(j.Streams) == 0 {
			continue
		}
		n += len("- file: ") + len(j.Filename) + 1
		n += len("  inode: ") + len(strconv.FormatUint(j.Inode, 10)) + 1
		n += len("  source_id: ") + len(strconv.FormatUint(j.SourceID, 10)) + 1
		n += len("  last_read_timestamp: ") + len(strconv.FormatInt(j.Timestamp, 10)) + 1
		n += len("  streams:\n")
		for _, s := range j.Streams {
			n += 4 + len(s.Name) + 2 + len(strconv.FormatUint(uint64(s.Offset), 10)) + 1
		}
	}
	return n
}

// sizedTable: a k8s table whose file is exactly `size` bytes long (the last file name is padded / a job is dropped)
func sizedTable(r *hx.Rng, size int, base uint64) []filein.VerifC07Job {
	t := k8sTable(r, size/180+40, base)
	for len(t) > 1 && tableBytes(t) > size-200 {
		t = t[:len(t)-1]
	}
	if pad := size - tableBytes(t); pad > 0 {
		t[len(t)-1].Filename += strings.Repeat("p", pad)
	}
	return t
}

func genThresholds(c *hmain.Ctx) {
	r := c.R
	sizeClass := func(n int) string {
		switch {
		case n < offsetsBufCap:
			return "< 64 KiB"
		case n == offsetsBufCap:
			return "= 64 KiB"
		case n <= offsetsBufCap+1:
			return "= 64 KiB + 1"
		case n < 2*offsetsBufCap:
			return "64..128 KiB"
		}
		return "> 128 KiB"
	}
	// ---- big-table (which 0): the offsets file outgrows the 64 KiB initial capacity of offsetDB.buf. Sizes exactly at,
	//      one below and one above the capacity, and 300..900 k8s-length names. In process (the strace helper takes the
	//      table as ONE argv string, limited to 128 KiB). Exposes: a save that writes only cap(o.buf) bytes / writes in
	//      buffer-sized pieces (several write calls: a crash between them leaves a torn temp file renamed over the good
	//      one), or any assumption that one pods directory fits the initial buffer.
	sizes := []int{offsetsBufCap - 1, offsetsBufCap, offsetsBufCap + 1}
	for i := 0; i < 2*c.Scale; i++ {
		sizes = append(sizes, r.Range(70000, 200000))
	}
	for _, sz := range sizes {
		t := sizedTable(r, sz, uint64(r.Intn(1<<30)))
		c.W.Count("big-table: file size " + sizeClass(tableBytes(t)))
		c.W.Count(fmt.Sprintf("big-table: jobs >= %d", len(t)/100*100))
		c.Do("big-table", 0, encodeTable(t), true)
	}

	// ---- table-sequence (which 5): SEVERAL saves of different tables by ONE offsetDB instance (VerifC07Save builds a
	//      new offsetDB per call, so o.buf = o.buf[:0] and o.jobsSnapshot[:0] were never exercised with a shorter table
	//      after a longer one). Directed: big then small, small-big-small, shrinking by removed jobs, sizes around the
	//      capacity in both directions, a table without streams (empty file) in the middle; random: 2..6 small tables
	//      with the nasty names of `roundtrip`. Exposes: a missing buffer / snapshot reset (stale jobs or stale bytes of
	//      the longer save survive in the shorter file — the parser may even accept them), a buffer that is kept only
	//      up to its first capacity.
	seq := func(tag string, ts ...[]filein.VerifC07Job) {
		var items []hx.Sx
		shape := ""
		for _, t := range ts {
			items = append(items, encodeTable(t))
			if tableBytes(t) >= offsetsBufCap {
				shape += "B"
			} else {
				shape += "s"
			}
		}
		if len(shape) > 6 {
			shape = shape[:6] + "+"
		}
		c.W.Count("table-sequence: " + tag + " sizes (B = 64 KiB or more, s = less) " + shape)
		c.Do("table-sequence", 5, hx.L(items...), true)
	}
	for i := 0; i < 1*c.Scale; i++ {
		big := sizedTable(r, r.Range(66000, 90000), 100)
		small := genTable(r, 4, false)
		seq("directed", big, small)
		seq("directed", small, big, small[:len(small)/2])
		half := append([]filein.VerifC07Job{}, big[:len(big)/2]...)
		seq("directed", big, half, big[:1], nil, big)
		seq("directed", sizedTable(r, offsetsBufCap, 5), sizedTable(r, offsetsBufCap+1, 5), sizedTable(r, offsetsBufCap-1, 5), sizedTable(r, 3*offsetsBufCap, 5), sizedTable(r, 300, 5))
	}
	for i := 0; i < 250*c.Scale; i++ {
		var ts [][]filein.VerifC07Job
		for n := r.Range(2, 6); n > 0; n-- {
			t := genTable(r, 5, true)
			if len(ts) > 0 && r.Chance(1, 3) { // the next table = the previous one with some jobs removed / offsets moved on
				prev := ts[len(ts)-1]
				t = nil
				for _, j := range prev {
					if r.Chance(1, 3) {
						continue
					}
					jj := j
					jj.Streams = append([]filein.VerifC07Stream{}, j.Streams...)
					for k := range jj.Streams {
						if jj.Streams[k].Offset < 1<<62 && r.Bool() {
							jj.Streams[k].Offset += int64(r.Range(1, 1000))
						}
					}
					t = append(t, jj)
				}
			}
			ts = append(ts, t)
		}
		seq("random", ts...)
	}

	// ---- large offsets (provider.go:291: `value == 0 && event.Offset >= 16 MiB` = "possible corruption" branch):
	//      the FIRST commit of a stream the job has not seen yet lies at 16 MiB or far beyond (2^32, 2^40, 2^62), raced
	//      against saves (which 3) and inside overlapping {commit; save} loops (which 4). Exposes: the branch turning
	//      into a rejection (`return` after the metric: the commit is lost and the final save misses it), offsets
	//      formatted / parsed through a narrower integer type.
	bigFirst := func() int64 {
		switch r.Intn(5) {
		case 0:
			return 16 * 1024 * 1024 // exactly the threshold
		case 1:
			return 16*1024*1024 - 1 // just below: the ordinary path
		case 2:
			return 1<<32 + int64(r.Intn(1000))
		case 3:
			return 1<<40 + int64(r.Intn(1<<20))
		}
		return 1<<62 + int64(r.Intn(1<<30))
	}
	largeScripts := func(t []filein.VerifC07Job, lo, hi int) []hx.Sx {
		var scripts []hx.Sx
		for ji := range t {
			cur := map[string]int64{}
			for _, s := range t[ji].Streams {
				cur[s.Name] = s.Offset
			}
			pool := []string{"stdout", "stderr", "", "late: 1", "late2"}
			var sc []hx.Sx
			for n := r.Range(lo, hi); n > 0; n-- {
				name := hx.Pick(r, pool)
				if _, seen := cur[name]; !seen {
					cur[name] = bigFirst()
					c.W.Count("large-offsets: first commit of a new stream " + map[bool]string{true: ">= 16 MiB", false: "< 16 MiB"}[cur[name] >= 16*1024*1024])
				} else {
					cur[name] += int64(r.Range(1, 1<<20))
				}
				sc = append(sc, hx.L(hx.S(name), hx.Z(cur[name])))
			}
			scripts = append(scripts, hx.L(sc...))
		}
		return scripts
	}
	smallJobs := func(n int) []filein.VerifC07Job {
		t := k8sTable(r, n, uint64(r.Intn(1<<20)))
		for i := range t {
			t[i].Streams = t[i].Streams[:1]
			t[i].Streams[0].Offset = int64(r.Range(1, 50))
			if r.Chance(1, 3) {
				t[i].Streams = nil // nothing committed yet: the job's very first commit is a large one
			}
		}
		return t
	}
	for i := 0; i < 12*c.Scale; i++ {
		t := smallJobs(r.Range(1, 3))
		c.Do("concurrent-large-offsets", 3, hx.L(encodeTable(t), hx.L(largeScripts(t, 5, 40)...), hx.I(r.Range(2, 8))), true)
	}
	for i := 0; i < 4*c.Scale; i++ {
		t := smallJobs(r.Range(6, 16))
		for k := range t {
			if len(t[k].Streams) == 0 { // which 4 expects every job to be listed from the first save on
				t[k].Streams = []filein.VerifC07Stream{{Name: "stdout", Offset: 1}}
			}
		}
		k := r.Range(2, 5)
		c.W.Count(fmt.Sprintf("concurrent-saves-large: K=%d", k))
		c.Do("concurrent-saves-large", 4, hx.L(encodeTable(t), hx.L(largeScripts(t, 4, 14)...), hx.I(k)), true)
	}
	// ---- overlapping saves of a table LARGER than the buffer (which 4): K goroutines {commit; save} on one offsetDB of
	//      280..340 k8s jobs while the checker parses the file. Exposes: a save that hands o.buf to the write after
	//      releasing o.mu (append reallocates beyond 64 KiB: the other save writes into the old array), torn files.
	for i := 0; i < 1*c.Scale; i++ {
		t := k8sTable(r, r.Range(280, 340), 7000)
		for k := range t {
			t[k].Streams = t[k].Streams[:1]
			t[k].Streams[0].Offset = int64(r.Range(1, 50))
		}
		var scripts []hx.Sx
		for range t {
			cur := int64(100)
			var sc []hx.Sx
			for n := r.Range(1, 2); n > 0; n-- {
				cur += int64(r.Range(1, 1<<30))
				sc = append(sc, hx.L(hx.S("stdout"), hx.Z(cur)))
			}
			scripts = append(scripts, hx.L(sc...))
		}
		c.W.Count("concurrent-saves-big-table: file size " + sizeClass(tableBytes(t)))
		c.Do("concurrent-saves-big-table", 4, hx.L(encodeTable(t), hx.L(scripts...), hx.I(r.Range(2, 4))), true)
	}
}

func main() {
	if len(os.Args) > 1 && os.Args[1] == "c07helper" {
		helperMain()
		return
	}
	logger.Level.SetLevel(zapcore.FatalLevel)
	hmain.Run(&hmain.Prop{
		ID:   "C07",
		Rule: "non-trivial = a table with at least one stream / any parser input / any fault or race scenario",
		Gen:  gen07,
		Exec: func(which int, cs hx.Sx) hx.Sx {
			obs := exec07(which, cs)
			return obs
		},
	})
	if scratchRoot != "" {
		os.RemoveAll(scratchRoot)
	}
}
