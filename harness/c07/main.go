package main

import (
	"os"

	filein "github.com/ozontech/file.d/plugin/input/file"

	"verif/harness/hx"
)

func decodeTable(v hx.Sx) []filein.VerifC07Job {
	var out []filein.VerifC07Job
	for _, j := range hx.Items(v) {
		it := hx.Items(j)
		job := filein.VerifC07Job{Filename: hx.Str(it[0]), Inode: hx.Uint(it[1]), SourceID: hx.Uint(it[2]), Timestamp: hx.Int(it[3])}
		for _, s := range hx.Items(it[4]) {
			kv := hx.Items(s)
			job.Streams = append(job.Streams, filein.VerifC07Stream{Name: hx.Str(kv[0]), Offset: hx.Int(kv[1])})
		}
		out = append(out, job)
	}
	return out
}

func main() {
	if len(os.Args) > 1 && os.Args[1] == "c07helper" {
		helperMain()
		return
	}
}
