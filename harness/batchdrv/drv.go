// Package batchdrv drives the REAL pipeline.Batcher / RetriableBatcher (+ Router dead queue) with a
// scripted OutFn and a recording Controller, and collects the verif trace labels of the batchers of
// one case (cases may run concurrently in one process: labels are demultiplexed by batcher pointer).
package batchdrv

import (
	"context"
	"errors"
	"sync"
	"sync/atomic"
	"time"

	"github.com/ozontech/file.d/metric"
	"github.com/ozontech/file.d/pipeline"
	"github.com/prometheus/client_golang/prometheus"

	"verif/harness/hx"
)

// harness-side label kinds (beyond pipeline.Vt*)
const (
	LCommitEv = 100 // (bidx 100 id src size kind)
	LPanic    = 101 // (bidx 101 0 0 0 0)
	LOutSaw   = 102 // (bidx 102 seq id...)   events ForEach yields inside OutFn
	LStuck    = 103 // the case did not reach quiescence within the deadline
	LOnError  = 104 // (bidx 104 n)          onRetryError callback observed with n events
	LDqOut    = 105 // (1 105 id)            Router.Fail handed the event to the dead-queue output
	LMaint    = 106 // (0 106 n)             BatcherOptions.MaintenanceFn ran for the n-th time (harness-only)
	LClock    = 107 // (0 107 us)            the DRIVER's clock (microseconds since the start of the case) at the moment the next
	//                                       entry of the main batcher (Add / Seal / Take / OutBegin / NotReady) was logged
	LJitter   = 108 // (0 108 us)            first entry of a clocked case: the largest oversleep of a 1 ms sleeper that ran next to
	//                                       the case (scheduling latency of this machine right now, measured apart from the batcher)
)

type label struct {
	bidx int
	kind int
	args []int64
	t    time.Time
}

// Pause is one pause of the retry loop of RetriableBatcher.Out: the time between the return of the failed attempt `Tries`
// of batch `Seq` (label RetryResult) and the start of the next attempt (label RetryCall).
type Pause struct {
	Seq, Tries int64
	D          time.Duration
}

// Timing is what a case showed about real time (not part of the observable: it is not replayable bit for bit).
type Timing struct {
	Cfg    Cfg
	Pauses []Pause
	// FlushLag: for every batch sealed by time-out (status 2), the time from its first Add to the Seal
	FlushLag []time.Duration
}

type caseLog struct {
	mu      sync.Mutex
	labels  []label
	commits atomic.Int64
}

func (l *caseLog) add(bidx, kind int, args ...int64) {
	l.mu.Lock()
	l.labels = append(l.labels, label{bidx, kind, args, time.Now()})
	l.mu.Unlock()
}

var (
	regMu    sync.RWMutex
	registry = map[*pipeline.Batcher]struct {
		log  *caseLog
		bidx int
		gate func(point int)
	}{}
	hooksOnce sync.Once
)

func installHooks() {
	hooksOnce.Do(func() {
		pipeline.SetVerifHooks(func(kind int, obj any, a, b, c, d int64) {
			bt, ok := obj.(*pipeline.Batcher)
			if !ok {
				return
			}
			regMu.RLock()
			r, ok := registry[bt]
			regMu.RUnlock()
			if ok {
				r.log.add(r.bidx, kind, a, b, c, d)
			}
		}, func(point int, obj any) {
			bt, ok := obj.(*pipeline.Batcher)
			if !ok {
				return
			}
			regMu.RLock()
			r, ok := registry[bt]
			regMu.RUnlock()
			if ok && r.gate != nil {
				r.gate(point)
			}
		})
	})
}

type controller struct {
	log  *caseLog
	bidx int
}

func (c *controller) Commit(e *pipeline.Event) {
	c.log.add(c.bidx, LCommitEv, int64(e.SeqID), e.VerifStreamID(), int64(e.Size), int64(e.VerifKind()))
	c.log.commits.Add(1)
}
func (c *controller) Error(string) {}

// dead-queue output plugin stub: Out -> Add on the dead-queue batcher (what file/kafka/... outputs do)
type dqOutput struct {
	log *caseLog
	b   *pipeline.Batcher
}

func (o *dqOutput) Start(pipeline.AnyConfig, *pipeline.OutputPluginParams) {}
func (o *dqOutput) Stop()                                                  {}
func (o *dqOutput) Out(e *pipeline.Event) {
	o.log.add(1, LDqOut, int64(e.SeqID))
	o.b.Add(e)
}

type Cfg struct {
	Workers, MaxCount, MaxBytes, FlushMs int
	Retriable                            bool
	Retry                                int
	DeadQ                                bool
	DqWorkers, DqCount                   int
	// optional (carried by the stop tuple): backoff MinRetention in ms and Multiplier in percent (0 = the historical
	// 1 ms / 1.0), MaintenanceInterval in ms (0 = no MaintenanceFn)
	RetentionMs, MultPct, MaintMs int
	// optional (5th element of the stop tuple's list): > 0 = clocked case: the observable carries the driver's clock (LClock
	// entries) and the measured scheduling latency (LJitter); the value is the base tolerance in ms the model grants per hop
	ClockSlackMs int
}

var errSend = errors.New("scripted send failure")

// RunCase executes one case and returns the observed label list.
//   case = (cfg adders outplan stop)
//   cfg = (workers maxCount maxBytes flushMs retriable retry deadq dqWorkers dqCount)
//   adders = ((op ...) ...)   op = (0 id size kind) Add | (1 ms) sleep
//   outplan = ((delayMs failures) ...) indexed by the order in which OutFn is first entered per batch seq
//   stop = (mode arg)  0: stop after quiescence; 1: Stop() after arg ms, concurrently with the adders;
//                      2: hold the first adder that seals a batch at the point after mu.Unlock until Stop() was called
//          arg is a number, or the list (arg retentionMs multiplierPercent maintenanceMs [clockSlackMs]): BackoffOpts.MinRetention /
//          Multiplier of the retriable batcher (0 = 1 ms / 1.0), MaintenanceInterval of the main batcher (0 = no hook) and,
//          when clockSlackMs > 0, a clocked observable (entries LJitter / LClock, see there)
func RunCase(cs hx.Sx) hx.Sx {
	obs, _ := RunCaseT(cs)
	return obs
}

// RunCaseT is RunCase plus the real-time observations of the run.
func RunCaseT(cs hx.Sx) (hx.Sx, Timing) {
	installHooks()
	it := hx.Items(cs)
	ci := hx.Items(it[0])
	cfg := Cfg{Workers: int(hx.Int(ci[0])), MaxCount: int(hx.Int(ci[1])), MaxBytes: int(hx.Int(ci[2])), FlushMs: int(hx.Int(ci[3])),
		Retriable: hx.Truth(ci[4]), Retry: int(hx.Int(ci[5])), DeadQ: hx.Truth(ci[6]), DqWorkers: int(hx.Int(ci[7])), DqCount: int(hx.Int(ci[8]))}
	adders := hx.Items(it[1])
	plan := hx.Items(it[2])
	stop := hx.Items(it[3])
	stopMode := int(hx.Int(stop[0]))
	stopArg := 0
	if hx.IsList(stop[1]) {
		x := hx.Items(stop[1])
		g := func(i int) int {
			if i < len(x) {
				return int(hx.Int(x[i]))
			}
			return 0
		}
		stopArg, cfg.RetentionMs, cfg.MultPct, cfg.MaintMs, cfg.ClockSlackMs = g(0), g(1), g(2), g(3), g(4)
	} else {
		stopArg = int(hx.Int(stop[1]))
	}

	log := &caseLog{}
	t0 := time.Now()
	// scheduling latency of the machine while the case runs: a sleeper independent of the batcher under test
	var jitter atomic.Int64
	if cfg.ClockSlackMs > 0 {
		canaryStop := make(chan struct{})
		canaryDone := make(chan struct{})
		go func() {
			defer close(canaryDone)
			for {
				select {
				case <-canaryStop:
					return
				default:
				}
				a := time.Now()
				time.Sleep(time.Millisecond)
				if d := int64(time.Since(a)-time.Millisecond) / 1000; d > jitter.Load() {
					jitter.Store(d)
				}
			}
		}()
		defer func() { close(canaryStop); <-canaryDone }()
	}
	mctl := metric.NewCtl("verif", prometheus.NewRegistry(), time.Minute, 0)

	var failMu sync.Mutex
	failsLeft := map[int64]int{}
	planOf := func(seq int64) (int, int) {
		if int(seq) < len(plan) {
			p := hx.Items(plan[seq])
			return int(hx.Int(p[0])), int(hx.Int(p[1]))
		}
		return 0, 0
	}
	send := func(bidx int, batch *pipeline.Batch) error {
		seq := batch.VerifSeq()
		ids := []int64{seq}
		batch.ForEach(func(e *pipeline.Event) { ids = append(ids, int64(e.SeqID)) })
		log.add(bidx, LOutSaw, ids...)
		if bidx != 0 {
			return nil
		}
		delay, fails := planOf(seq)
		if delay > 0 {
			time.Sleep(time.Duration(delay) * time.Millisecond)
		}
		failMu.Lock()
		defer failMu.Unlock()
		left, seen := failsLeft[seq]
		if !seen {
			left = fails
		}
		if left > 0 {
			failsLeft[seq] = left - 1
			return errSend
		}
		failsLeft[seq] = 0
		return nil
	}

	ctx, cancel := context.WithCancel(context.Background())
	defer cancel()

	// dead queue batcher (plain Batcher) behind the real Router
	router := pipeline.NewRouter()
	var dq *pipeline.Batcher
	if cfg.DeadQ {
		dq = pipeline.NewBatcher(pipeline.BatcherOptions{
			PipelineName: "verif", OutputType: "dq", Controller: &controller{log, 1},
			OutFn:   func(_ *pipeline.WorkerData, b *pipeline.Batch) { _ = send(1, b) },
			Workers: cfg.DqWorkers, BatchSizeCount: cfg.DqCount, FlushTimeout: time.Duration(cfg.FlushMs) * time.Millisecond, MetricCtl: mctl,
		})
		router.SetDeadQueueOutput(&pipeline.OutputPluginInfo{
			PluginStaticInfo:  &pipeline.PluginStaticInfo{Type: "dq"},
			PluginRuntimeInfo: &pipeline.PluginRuntimeInfo{Plugin: &dqOutput{log, dq}},
		})
	}

	opts := pipeline.BatcherOptions{
		PipelineName: "verif", OutputType: "main", Controller: &controller{log, 0},
		Workers: cfg.Workers, BatchSizeCount: cfg.MaxCount, BatchSizeBytes: cfg.MaxBytes,
		FlushTimeout: time.Duration(cfg.FlushMs) * time.Millisecond, MetricCtl: mctl,
	}
	if cfg.MaintMs > 0 {
		var maintN atomic.Int64
		opts.MaintenanceInterval = time.Duration(cfg.MaintMs) * time.Millisecond
		opts.MaintenanceFn = func(*pipeline.WorkerData) {
			log.add(0, LMaint, maintN.Add(1))
			time.Sleep(time.Millisecond)
		}
	}
	bo := pipeline.BackoffOpts{MinRetention: time.Millisecond, Multiplier: 1.0, AttemptNum: cfg.Retry, IsDeadQueueAvailable: cfg.DeadQ}
	if cfg.RetentionMs > 0 {
		bo.MinRetention = time.Duration(cfg.RetentionMs) * time.Millisecond
	}
	if cfg.MultPct > 0 {
		bo.Multiplier = float64(cfg.MultPct) / 100
	}
	var main *pipeline.Batcher
	var addFn func(*pipeline.Event)
	var stopFn func()
	if cfg.Retriable {
		rb := pipeline.NewRetriableBatcher(&opts,
			func(_ *pipeline.WorkerData, b *pipeline.Batch) error { return send(0, b) },
			bo,
			func(err error, events []*pipeline.Event) {
				log.add(0, LOnError, int64(len(events)))
				for i := range events { // what elasticsearch / kafka / ... outputs do
					router.Fail(events[i])
				}
			})
		main = rb.VerifBatcher()
		addFn, stopFn = rb.Add, rb.Stop
		defer func() { _ = rb }()
		regBatcher(main, log, 0, nil)
		if dq != nil {
			regBatcher(dq, log, 1, nil)
			dq.Start(ctx)
		}
		rb.Start(ctx)
	} else {
		opts.OutFn = func(_ *pipeline.WorkerData, b *pipeline.Batch) { _ = send(0, b) }
		main = pipeline.NewBatcher(opts)
		addFn, stopFn = main.Add, main.Stop
		regBatcher(main, log, 0, nil)
		main.Start(ctx)
	}
	defer unregBatcher(main)
	if dq != nil {
		defer unregBatcher(dq)
	}

	// gate scenario
	stopCalled := make(chan struct{})
	if stopMode == 2 {
		var once sync.Once
		setGate(main, func(point int) {
			if point == pipeline.VgBatchAfterUnlock {
				hold := false
				once.Do(func() { hold = true })
				if hold {
					select {
					case <-stopCalled:
					case <-time.After(2 * time.Second):
					}
				}
			}
		})
	}

	totalAdds := 0
	var wg sync.WaitGroup
	sealedFirst := make(chan struct{}, 1)
	for _, ad := range adders {
		ops := hx.Items(ad)
		for _, op := range ops {
			if hx.Int(hx.Items(op)[0]) == 0 {
				totalAdds++
			}
		}
		wg.Add(1)
		go func() {
			defer wg.Done()
			defer func() {
				if r := recover(); r != nil {
					log.add(0, LPanic, 0, 0, 0, 0)
				}
			}()
			for _, op := range ops {
				o := hx.Items(op)
				switch hx.Int(o[0]) {
				case 0:
					e := &pipeline.Event{SeqID: uint64(hx.Int(o[1])), SourceID: 1, Size: int(hx.Int(o[2]))}
					e.VerifSetKind(int(hx.Int(o[3])))
					addFn(e)
					select {
					case sealedFirst <- struct{}{}:
					default:
					}
				case 1:
					time.Sleep(time.Duration(hx.Int(o[1])) * time.Millisecond)
				}
			}
		}()
	}
	addersDone := make(chan struct{})
	go func() { wg.Wait(); close(addersDone) }()

	doStop := func() {
		func() {
			defer func() {
				if r := recover(); r != nil {
					log.add(0, LPanic, 0, 0, 0, 0)
				}
			}()
			// Stop waits for the workers; the dead queue is stopped after the main output, as Router.Stop does
			done := make(chan struct{})
			go func() {
				defer close(done)
				stopFn()
			}()
			// signal "Stop has been called" once the stop label appears (or after a grace period)
			go func() {
				for i := 0; i < 400; i++ {
					log.mu.Lock()
					seen := false
					for _, l := range log.labels {
						if l.bidx == 0 && l.kind == pipeline.VtBatchStop {
							seen = true
						}
					}
					log.mu.Unlock()
					if seen {
						break
					}
					time.Sleep(time.Millisecond)
				}
				close(stopCalled)
			}()
			select {
			case <-done:
			case <-time.After(5 * time.Second):
				log.add(0, LStuck, 1, 0, 0, 0)
			}
		}()
		if dq != nil {
			d := make(chan struct{})
			go func() { defer close(d); dq.Stop() }()
			select {
			case <-d:
			case <-time.After(5 * time.Second):
				log.add(1, LStuck, 1, 0, 0, 0)
			}
		}
	}

	switch stopMode {
	case 0:
		select {
		case <-addersDone:
		case <-time.After(10 * time.Second):
			log.add(0, LStuck, 2, 0, 0, 0)
		}
		// quiescence: every added event committed (by either batcher). Progress based: the run is
		// wedged only if no label other than heartbeat ticks appears for a whole idle window.
		idleWindow := time.Duration(3000+6*cfg.FlushMs) * time.Millisecond
		hardCap := time.Now().Add(60 * time.Second)
		progress := func() int {
			log.mu.Lock()
			defer log.mu.Unlock()
			n := 0
			for _, l := range log.labels {
				if l.kind != pipeline.VtBatchTick && l.kind != pipeline.VtBatchNotReady && l.kind != pipeline.VtBatchFree {
					n++
				}
			}
			return n
		}
		lastN, lastChange := progress(), time.Now()
		for log.commits.Load() < int64(totalAdds) && time.Now().Before(hardCap) {
			time.Sleep(2 * time.Millisecond)
			if n := progress(); n != lastN {
				lastN, lastChange = n, time.Now()
			} else if time.Since(lastChange) > idleWindow {
				break
			}
		}
		if log.commits.Load() < int64(totalAdds) {
			log.add(0, LStuck, 3, log.commits.Load(), int64(totalAdds), 0)
		}
		doStop()
	case 1:
		time.Sleep(time.Duration(stopArg) * time.Millisecond)
		doStop()
		select {
		case <-addersDone:
		case <-time.After(5 * time.Second):
			log.add(0, LStuck, 2, 0, 0, 0)
		}
	case 2:
		select {
		case <-sealedFirst:
		case <-time.After(2 * time.Second):
		}
		time.Sleep(time.Duration(stopArg) * time.Millisecond)
		doStop()
		select {
		case <-addersDone:
		case <-time.After(5 * time.Second):
			log.add(0, LStuck, 2, 0, 0, 0)
		}
	}
	time.Sleep(time.Millisecond)

	log.mu.Lock()
	defer log.mu.Unlock()
	out := make([]hx.Sx, 0, len(log.labels))
	tm := Timing{Cfg: cfg}
	if cfg.ClockSlackMs > 0 {
		out = append(out, hx.L(hx.I(0), hx.I(LJitter), hx.Z(jitter.Load())))
	}
	failedAt := map[[2]int64]time.Time{} // (seq, tries) -> time of the failed RetryResult
	var firstAdd time.Time               // first Add of the batch being filled (main batcher)
	for _, l := range log.labels {
		if cfg.ClockSlackMs > 0 && l.bidx == 0 {
			switch l.kind {
			case pipeline.VtBatchAdd, pipeline.VtBatchSeal, pipeline.VtBatchTake, pipeline.VtBatchOutBegin, pipeline.VtBatchNotReady:
				out = append(out, hx.L(hx.I(0), hx.I(LClock), hx.Z(int64(l.t.Sub(t0)/time.Microsecond))))
			}
		}
		items := []hx.Sx{hx.I(l.bidx), hx.I(l.kind)}
		for _, a := range l.args {
			items = append(items, hx.Z(a))
		}
		out = append(out, hx.L(items...))
		if l.bidx != 0 {
			continue
		}
		switch l.kind {
		case pipeline.VtRetryResult:
			if l.args[2] == 0 {
				failedAt[[2]int64{l.args[0], l.args[1]}] = l.t
			}
		case pipeline.VtRetryCall:
			if t0, ok := failedAt[[2]int64{l.args[0], l.args[1] - 1}]; ok {
				tm.Pauses = append(tm.Pauses, Pause{l.args[0], l.args[1] - 1, l.t.Sub(t0)})
			}
		case pipeline.VtBatchAdd:
			if firstAdd.IsZero() {
				firstAdd = l.t
			}
		case pipeline.VtBatchSeal:
			if l.args[2] == 2 && !firstAdd.IsZero() {
				tm.FlushLag = append(tm.FlushLag, l.t.Sub(firstAdd))
			}
			firstAdd = time.Time{}
		}
	}
	return hx.L(out...), tm
}

func regBatcher(b *pipeline.Batcher, log *caseLog, bidx int, gate func(int)) {
	regMu.Lock()
	registry[b] = struct {
		log  *caseLog
		bidx int
		gate func(point int)
	}{log, bidx, gate}
	regMu.Unlock()
}

func setGate(b *pipeline.Batcher, gate func(int)) {
	regMu.Lock()
	r := registry[b]
	r.gate = gate
	registry[b] = r
	regMu.Unlock()
}

func unregBatcher(b *pipeline.Batcher) {
	regMu.Lock()
	delete(registry, b)
	regMu.Unlock()
}
