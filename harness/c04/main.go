package main

// C04 — no wedge: every accepted event is eventually finalized.
//  which=0: the real pipeline driven by harness/pipedrv (streams, processors, batchers, pools):
//           random families + directed schedules; quiescence (pool in-use back to 0) must be reached
//           within the bounded time the harness allows (event time-out + heartbeat periods + flush).
//  which=10/11: the event pools alone (harness/pooldrv), low-memory / standard.

import (
	"verif/harness/hmain"
	"verif/harness/hx"
	"verif/harness/pipedrv"
	"verif/harness/pooldrv"
)

func gen(c *hmain.Ctx) {
	// the event pools alone (sub-models 10 / 11): lost wake-up windows, heartbeat, capacity
	pooldrv.Gen(c)
	// directed schedules first, one at a time (a panic of the real code takes the process down:
	// the case in progress is then the one recorded by the runner)
	for _, procs := range []int{1, 2, 4} {
		c.Do("stale-unblock-batch", 0, pipedrv.StaleUnblock(0, procs), true)
		c.Do("stale-unblock-sync", 0, pipedrv.StaleUnblock(1, procs), true)
	}
	var jobs []*pipedrv.Job
	// effect-based probe for "no processor asleep while work is queued": a stream charged at the same
	// instant as a continuously fed one must be served within the bound although the other never runs dry
	for i := 0; i < 12*c.Scale; i++ {
		jobs = append(jobs, &pipedrv.Job{Stream: "starvation-probe", Case: pipedrv.Starvation(2+2*(i%2), 2500, 1200)})
	}
	add := func(stream string, o pipedrv.Opts, n int) {
		for i := 0; i < n*c.Scale; i++ {
			jobs = append(jobs, &pipedrv.Job{Stream: stream, Case: pipedrv.GenCase(c.R, o)})
		}
	}
	for i := 0; i < 16*c.Scale; i++ {
		jobs = append(jobs, &pipedrv.Job{Stream: "timeout-vs-put", Case: pipedrv.TimeoutVsPut(2+2*(i%2), i%4 < 2, i%8 < 4)})
	}
	add("basic", pipedrv.FamBasic, 50)
	add("hold", pipedrv.FamHold, 70)
	add("discard-before-hold", pipedrv.FamDiscardBeforeHold, 50)
	add("split", pipedrv.FamSplit, 25)
	add("retry", pipedrv.FamRetry, 20)
	add("commit-race", pipedrv.FamCommitRace, 6)
	// families first built for C01 / C02 / C05: two holding actions, dead-queue routing, both causes of a retry give-up
	add("two-holders", pipedrv.FamTwoHolders, 20)
	add("deadqueue", pipedrv.FamDeadQ, 10)
	add("retry-stop", pipedrv.FamRetryStop, 6)
	add("deadqueue", pipedrv.FamDeadQStop, 6)
	// families / directed schedules that cross the scale / history thresholds of /repo/pipeline (what each would expose:
	// pipedrv/gen.go, pipedrv/directed.go)
	add("capacity-1", pipedrv.FamCap1, 15)
	add("slow-flush", pipedrv.FamSlowFlush, 12)
	add("hold-slow", pipedrv.FamHoldSlow, 12)
	add("recycle", pipedrv.FamRecycle, 10)
	add("split-fan", pipedrv.FamSplitFan, 10)
	add("retry-backoff", pipedrv.FamRetryBackoff, 6)
	add("maintenance", pipedrv.FamMaint, 6)
	for i := 0; i < c.Scale; i++ {
		for _, procs := range []int{1, 2, 4} {
			jobs = append(jobs, &pipedrv.Job{Stream: "stale-unblock-slow", Case: pipedrv.StaleUnblockT(0, procs, 450)})
			jobs = append(jobs, &pipedrv.Job{Stream: "stale-unblock-slow", Case: pipedrv.StaleUnblockT(1, procs, 450)})
		}
	}
	for i := 0; i < 2*c.Scale; i++ {
		jobs = append(jobs, &pipedrv.Job{Stream: "expand-procs", Case: pipedrv.ExpandProcs(2500, 1600, 2+i%3, i%2 == 1)})
	}
	// families that reach code of the anchored files no older family executes (notes/coverage/C04-triage.md; what each
	// would expose: pipedrv/gen.go); spread routing (kafka-like input: UseSpread + DisableStreams) is one more way events
	// reach the streams - the no-wedge monitors do not depend on the routing
	for _, f := range pipedrv.CoverageFamilies(12, 8, 6, 24, 6) {
		add(f.Stream, f.Opts, f.N)
	}
	add("spread", pipedrv.FamSpread, 10)
	add("spread-split", pipedrv.FamSpreadSplit, 5)
	add("spread-create", pipedrv.FamSpreadCreate, 12)
	jobs = append(jobs, pipedrv.DirectedStops(c.Scale)...)
	pipedrv.RunJobs(jobs, 40)
	for _, j := range jobs {
		pipedrv.Stats(c.W.Count, j)
		c.W.Case(j.Stream, 0, j.Case, j.Obs, true)
	}
}

func main() {
	pipedrv.UseProductionNodePool()
	hmain.Run(&hmain.Prop{ID: "C04",
		Rule: "pipeline cases as in C02 plus the family 'discard-before-hold' (an action in front of the holding one discards the event that follows a run, then silence) and directed schedules (heartbeat held before tryUnblock while the stream is unblocked and drained). Threshold-crossing families: capacity-1, slow-flush (flush >= 100 ms), hold-slow (event time-out > 200 ms), recycle (feeder op 6: pads up to 64 KiB / > 64 JSON nodes; op 'g' grows Buf; 4th case element = (avgEventSize retentionMs multiplierPercent maintenanceMs)), split-fan (0-14 children with their own ops), retry-backoff, maintenance; directed expand-procs / stale-unblock-slow. Pool cases: streams size-classes (op 8: goroutine size up to 2^32-1) and recycle (op 9; gate-list option (1 avg)). Pool stream heartbeat-lifecycle (pooldrv.HbLifecycle: a controller goroutine takes the pool through back-pressure episodes, idle periods, full-without-waiter periods and lost wake-ups, each longer than the wake-up interval, then the gated lost wake-up; ops 10 wait-for-waiters, 11 release-and-keep-parking, 12 / 13 phase counter; gate-list option (2 tid) parks only that goroutine; record 217 = the heartbeat did not finish its iteration by the end of the case). Coverage families (notes/coverage): in-variety (ext's 6th element = ((key value) ...) options of pipedrv.xopts: decoder raw / cri / auto / suggested, MaxEventSize drop / cut-off, antispam threshold, meta data, source-name meta field, saved stream offsets; empty records, non-CRI lines), match-variety (match modes or / and_prefix / or_prefix / do_if / invert, metric options), file-commit (InputPlugin.Commit handed to the real file-input jobProvider.commit: labels 118 / 119), early-stop (Pipeline.Stop with events in flight, random and directed stop-while-held; feeder op 7 asks for the stop; labels 116 / 120), batch-bytes (BatchSizeBytes). spread / spread-split / spread-create (kafka-like input: UseSpread + DisableStreams). Every case is non-trivial; distinct = distinct case text.",
		Gen:  gen, Exec: func(which int, cs hx.Sx) hx.Sx {
			if which == 10 || which == 11 {
				return pooldrv.RunCase(cs)
			}
			return pipedrv.RunCase(cs)
		}})
}
