package main

// C05 — in-flight events never exceed capacity; none leaks or is handed out twice.
//  which=0: whole-pipeline conservation on the real pipeline (both pool kinds, capacity 1..24):
//           every pooled event goes back exactly once, the pool is idle (in-use 0, no waiters) at quiescence.
//  which=10/11: the pools alone (harness/pooldrv) — wired by the coordinator when available.

import (
	"verif/harness/hmain"
	"verif/harness/hx"
	"verif/harness/pipedrv"
	"verif/harness/pooldrv"
)

func gen(c *hmain.Ctx) {
	// the event pools alone (sub-models 10 / 11): capacity, slot uniqueness, no double back
	pooldrv.Gen(c)
	pipedrv.GenFamilies(c, 0, []pipedrv.Fam{
		{Stream: "basic", Opts: pipedrv.FamBasic, N: 60},
		{Stream: "hold", Opts: pipedrv.FamHold, N: 60},
		{Stream: "split", Opts: pipedrv.FamSplit, N: 30},
		{Stream: "two-holders", Opts: pipedrv.FamTwoHolders, N: 30},
		{Stream: "discard-before-hold", Opts: pipedrv.FamDiscardBeforeHold, N: 30},
		{Stream: "retry", Opts: pipedrv.FamRetry, N: 20},
		{Stream: "deadqueue", Opts: pipedrv.FamDeadQ, N: 20},
		{Stream: "deadqueue-split", Opts: pipedrv.FamDeadQSplit, N: 20},
		// families that cross the scale / history thresholds of /repo/pipeline (what each would expose: pipedrv/gen.go)
		{Stream: "capacity-1", Opts: pipedrv.FamCap1, N: 15},
		{Stream: "recycle", Opts: pipedrv.FamRecycle, N: 20},
		{Stream: "split-fan", Opts: pipedrv.FamSplitFan, N: 15},
		// families first built for C01 / C02 / C04 (a leak or a double hand-out can hide behind each of them too)
		{Stream: "commit-race", Opts: pipedrv.FamCommitRace, N: 4},
		{Stream: "hold-slow", Opts: pipedrv.FamHoldSlow, N: 6},
		{Stream: "slow-flush", Opts: pipedrv.FamSlowFlush, N: 6},
		{Stream: "maintenance", Opts: pipedrv.FamMaint, N: 4},
		{Stream: "retry-backoff", Opts: pipedrv.FamRetryBackoff, N: 4},
		{Stream: "retry-stop", Opts: pipedrv.FamRetryStop, N: 6},
		{Stream: "deadqueue", Opts: pipedrv.FamDeadQStop, N: 6},
		// spread routing (kafka-like input: UseSpread + DisableStreams): pool conservation does not depend on the routing
		{Stream: "spread", Opts: pipedrv.FamSpread, N: 10},
		{Stream: "spread-split", Opts: pipedrv.FamSpreadSplit, N: 5},
		{Stream: "spread-create", Opts: pipedrv.FamSpreadCreate, N: 12},
	})
	// families that reach code of the anchored files no older family executes (notes/coverage/C05-triage.md; what each
	// would expose: pipedrv/gen.go): every way In() refuses a record before / after the pool hand-out, match / metric
	// options, shutdown with events in flight (no event goes back twice), batches sealed by byte size
	pipedrv.GenFamilies(c, 0, pipedrv.CoverageFamilies(16, 8, 6, 20, 6))
	// directed schedules first built for C02 / C04: the stream time-out injected while a put is already queued (an event
	// overwritten there is a pooled event that never comes back - seed C05 round 6), the stale unblock
	var directed []*pipedrv.Job
	for i := 0; i < 8*c.Scale; i++ {
		directed = append(directed, &pipedrv.Job{Stream: "timeout-vs-put", Case: pipedrv.TimeoutVsPut(2+2*(i%2), i%4 < 2, i%8 < 4)})
	}
	for i := 0; i < c.Scale; i++ {
		for _, procs := range []int{1, 2} {
			directed = append(directed, &pipedrv.Job{Stream: "stale-unblock-slow", Case: pipedrv.StaleUnblockT(i%2, procs, 450)})
		}
	}
	pipedrv.RunJobs(directed, 40)
	for _, j := range directed {
		pipedrv.Stats(c.W.Count, j)
		c.W.Case(j.Stream, 0, j.Case, j.Obs, true)
	}
	stops := pipedrv.DirectedStops(c.Scale)
	pipedrv.RunJobs(stops, 40)
	for _, j := range stops {
		pipedrv.Stats(c.W.Count, j)
		c.W.Case(j.Stream, 0, j.Case, j.Obs, true)
	}
}

func main() {
	pipedrv.UseProductionNodePool()
	hmain.Run(&hmain.Prop{ID: "C05",
		Rule: "pipeline cases (see C02) with small pool capacities (2..24), decode errors, PassEvent refusals, discard / hold / collapse / split, retries and dead queue; observable = label trace incl. finalize(notify, back) and the pool state at quiescence. Threshold-crossing families: capacity-1, recycle (feeder op 6: pads up to 64 KiB / > 64 JSON nodes; op 'g' grows Buf; 4th case element = (avgEventSize ...)), split-fan (0-14 children); pool cases: streams size-classes (op 8: goroutine size up to 2^32-1) and recycle (op 9; gate-list option (1 avg)). Coverage families (notes/coverage): in-variety (ext's 6th element = ((key value) ...) options of pipedrv.xopts: decoder raw / cri / auto / suggested, MaxEventSize drop / cut-off, antispam threshold, meta data, source-name meta field, saved stream offsets; empty records, non-CRI lines), match-variety (match modes or / and_prefix / or_prefix / do_if / invert, metric options), file-commit (InputPlugin.Commit handed to the real file-input jobProvider.commit: labels 118 / 119), early-stop (Pipeline.Stop with events in flight, random and directed stop-while-held; feeder op 7 asks for the stop; labels 116 / 120), batch-bytes (BatchSizeBytes). spread / spread-split / spread-create (kafka-like input: UseSpread + DisableStreams). Every case non-trivial; distinct = distinct case text.",
		Gen:  gen, Exec: func(which int, cs hx.Sx) hx.Sx {
			if which == 10 || which == 11 {
				return pooldrv.RunCase(cs)
			}
			return pipedrv.RunCase(cs)
		}})
}
