package main

// The parameter checks of the decoder constructors (decoder.New -> extract*Params), against coq/Model/Decoders/Params.v.
//
//	which 41   case = (kind ((#key value) ...) compiles hasMessage)
//	   kind    decoder.Type number (2 json, 6 nginx_error, 7 protobuf, 8 / 9 syslog, 10 csv); the decoder is built by
//	           decoder.New(decoder.Type(kind), params)
//	   value   (0 #s) string | (1 n) int | (2 b) bool | (3 v ...) []any | (4 (#k v) ...) map[string]any | (5 n) float64 n/2 |
//	           (6 #s) json.Number | (7) nil | (8 #s ...) []string
//	   protobuf only: the string "@schema" as proto_file stands for the schema text of proto.go, "@file" for its file;
//	           compiles / hasMessage = what the generator knows about that file and the proto_message
//	observed = (0 cfg) | (1 e) | (2 #site); cfg = the parameters as the decoder stored them, read back by reflection:
//	           json ((#path limit) ...) sorted | nginx wc | syslog (#ff #sf) | csv ((#col ...) #prefix #mode delim) | protobuf ()

import (
	"encoding/json"
	"path/filepath"
	"reflect"
	"sort"
	"strings"

	"github.com/ozontech/file.d/decoder"

	"verif/harness/hmain"
	"verif/harness/hx"
)

func anyOf(v hx.Sx) any {
	it := hx.Items(v)
	switch hx.Int(it[0]) {
	case 0:
		return hx.Str(it[1])
	case 1:
		return int(hx.Int(it[1]))
	case 2:
		return hx.Truth(it[1])
	case 3:
		out := make([]any, 0, len(it)-1)
		for _, x := range it[1:] {
			out = append(out, anyOf(x))
		}
		return out
	case 4:
		out := map[string]any{}
		for _, kv := range it[1:] {
			x := hx.Items(kv)
			out[hx.Str(x[0])] = anyOf(x[1])
		}
		return out
	case 5:
		return float64(hx.Int(it[1])) / 2
	case 6:
		return json.Number(hx.Str(it[1]))
	case 8:
		out := make([]string, 0, len(it)-1)
		for _, x := range it[1:] {
			out = append(out, hx.Str(x))
		}
		return out
	}
	return nil
}

var paramErrs = map[int][]string{
	2:  {"must be map", "must be int", "must not be negative"},
	6:  {"must be bool"},
	8:  {`"syslog_facility_format" must be string`, `invalid "syslog_facility_format" format`, `"syslog_severity_format" must be string`, `invalid "syslog_severity_format" format`},
	10: {"columns must be slice", `each value in "columns" must be string`, "prefix must be string", "invalid_line_mode must be string", "delimiter must be string with length=1", "invalid delimiter"},
	7: {`"proto_file" not set`, `"proto_file" must be string`, `"proto_message" not set`, `"proto_message" must be string`, `"proto_import_paths" must be slice`,
		`each element in "proto_import_paths" must be string`, "can't compile proto-file", "can't find message"},
}

func execParams(cs hx.Sx) hx.Sx {
	it := hx.Items(cs)
	kind := int(hx.Int(it[0]))
	params := decoder.Params{}
	for _, kv := range hx.Items(it[1]) {
		x := hx.Items(kv)
		params[hx.Str(x[0])] = anyOf(x[1])
	}
	if kind == 7 {
		switch params["proto_file"] {
		case "@schema":
			params["proto_file"] = protoWhole
		case "@file":
			params["proto_file"] = filepath.Join(protoFiles(), "whole.proto")
		case "@import":
			params["proto_file"] = "msg.proto"
			if _, ok := params["proto_import_paths"]; !ok {
				params["proto_import_paths"] = []any{filepath.Join(protoFiles(), "inc")}
			}
		}
	}
	var out hx.Sx
	if p := hx.Catch(func() {
		d, err := decoder.New(decoder.Type(kind), params)
		if err != nil {
			tbl := paramErrs[kind]
			if kind == 9 {
				tbl = paramErrs[8]
			}
			out = errObs(msgEnum(err, tbl))
			return
		}
		dv := reflect.ValueOf(d).Elem().FieldByName("params")
		switch kind {
		case 2:
			m := dv.FieldByName("maxFieldsSize")
			type kv struct {
				k string
				v int64
			}
			var kvs []kv
			for iter := m.MapRange(); iter.Next(); {
				kvs = append(kvs, kv{iter.Key().String(), iter.Value().Int()})
			}
			sort.Slice(kvs, func(i, j int) bool { return kvs[i].k < kvs[j].k })
			xs := make([]hx.Sx, len(kvs))
			for i, e := range kvs {
				xs[i] = hx.L(hx.S(e.k), hx.Z(e.v))
			}
			out = hx.L(hx.I(0), hx.L(xs...))
		case 6:
			out = hx.L(hx.I(0), hx.Bool(dv.FieldByName("withCustomFields").Bool()))
		case 8, 9:
			out = hx.L(hx.I(0), hx.L(hx.S(dv.FieldByName("facilityFormat").String()), hx.S(dv.FieldByName("severityFormat").String())))
		case 10:
			cols := dv.FieldByName("columnNames")
			xs := make([]hx.Sx, cols.Len())
			for i := range xs {
				xs[i] = hx.S(cols.Index(i).String())
			}
			out = hx.L(hx.I(0), hx.L(hx.L(xs...), hx.S(dv.FieldByName("prefix").String()), hx.S(dv.FieldByName("invalidLineMode").String()),
				hx.I(int(dv.FieldByName("delimiter").Uint()))))
		case 7:
			out = hx.L(hx.I(0), hx.L())
		default:
			panic("c12: no parameters for this decoder")
		}
	}); p != "" {
		return hx.L(hx.I(2), hx.S(p))
	}
	return out
}

func genParams(c *hmain.Ctx) {
	r := c.R
	str := func(s string) hx.Sx { return hx.L(hx.I(0), hx.S(s)) }
	num := func(n int) hx.Sx { return hx.L(hx.I(1), hx.I(n)) }
	boo := func(b bool) hx.Sx { return hx.L(hx.I(2), hx.Bool(b)) }
	list := func(xs ...hx.Sx) hx.Sx { return hx.L(append([]hx.Sx{hx.I(3)}, xs...)...) }
	mp := func(kv ...hx.Sx) hx.Sx { return hx.L(append([]hx.Sx{hx.I(4)}, kv...)...) }
	half := func(n int) hx.Sx { return hx.L(hx.I(5), hx.I(n)) }
	jnum := func(s string) hx.Sx { return hx.L(hx.I(6), hx.S(s)) }
	nilv := hx.L(hx.I(7))
	strs := func(xs ...string) hx.Sx { return hx.L(append([]hx.Sx{hx.I(8)}, hx.Items(hx.Ss(xs))...)...) }
	kv := func(k string, v hx.Sx) hx.Sx { return hx.L(hx.S(k), v) }
	emit := func(stream string, kind int, compiles, hasMsg bool, kvs ...hx.Sx) {
		c.Do(stream, 41, hx.L(hx.I(kind), hx.L(kvs...), hx.Bool(compiles), hx.Bool(hasMsg)), true)
	}
	// a value of every Go type the checks can meet
	anyValues := []hx.Sx{str(""), str("x"), str("number"), str("string"), str(","), str(";;"), str("\""), num(0), num(3), num(-1), boo(true), boo(false),
		list(), list(str("a"), str("b")), list(str("a"), num(1)), mp(), mp(kv("a", num(1))), half(3), half(-1), jnum("7"), jnum("x"), nilv, strs("a", "b")}
	// ---- params-<decoder>: every option of every decoder set to a value of every Go type (alone, the others absent or
	// valid), the values that pass and the ones each check refuses. Would expose: a check dropped or reordered, a value of
	// the wrong type stored as the zero value, a default changed, anyToInt accepting or mangling a number.
	for _, v := range anyValues {
		emit("params-json", 2, false, false, kv("json_max_fields_size", v))
		emit("params-nginx", 6, false, false, kv("nginx_with_custom_fields", v))
		for _, kind := range []int{8, 9} {
			emit("params-syslog", kind, false, false, kv("syslog_facility_format", v))
			emit("params-syslog", kind, false, false, kv("syslog_severity_format", v), kv("syslog_facility_format", str("string")))
			emit("params-syslog", kind, false, false, kv("syslog_facility_format", v), kv("syslog_severity_format", num(1)))
		}
		for _, key := range []string{"columns", "prefix", "invalid_line_mode", "delimiter"} {
			emit("params-csv", 10, false, false, kv(key, v))
			full := []hx.Sx{kv("columns", list(str("x"), str("y"))), kv("prefix", str("p_")), kv("invalid_line_mode", str("continue")), kv("delimiter", str("\t"))}
			for i, k := range []string{"columns", "prefix", "invalid_line_mode", "delimiter"} {
				if k == key {
					full[i] = kv(key, v)
				}
			}
			emit("params-csv", 10, false, false, full...)
		}
		isStr := hx.Int(hx.Items(v)[0]) == 0
		if !isStr { // a wrong type is refused before the file is compiled
			emit("params-protobuf", 7, true, true, kv("proto_message", str("Msg")), kv("proto_file", v))
			emit("params-protobuf", 7, true, true, kv("proto_file", str("@schema")), kv("proto_message", v))
		} else { // a message of that name does not exist
			emit("params-protobuf", 7, true, false, kv("proto_file", str("@schema")), kv("proto_message", v))
		}
		if hx.Int(hx.Items(v)[0]) != 3 {
			emit("params-protobuf", 7, true, true, kv("proto_file", str("@file")), kv("proto_message", str("Msg")), kv("proto_import_paths", v))
		}
	}
	for _, kind := range []int{2, 6, 7, 8, 9, 10} {
		emit("params-defaults", kind, false, false) // no parameters at all (protobuf: proto_file not set)
	}
	// the values of json_max_fields_size: anyToInt on int, float64 (truncated toward zero: -0.5 is 0 and passes), json.Number
	// (strconv.ParseInt: sign, digits, the int64 range), everything else refused; negative refused
	limitValues := []hx.Sx{num(0), num(1), num(1 << 40), num(-1), num(-1 << 40), half(0), half(1), half(3), half(-1), half(-2), half(-3), half(1 << 41),
		jnum("0"), jnum("12"), jnum("+12"), jnum("-12"), jnum("-0"), jnum(""), jnum("-"), jnum("1.5"), jnum("1e3"), jnum("1_000"), jnum(" 1"), jnum("0x10"),
		jnum("9223372036854775807"), jnum("9223372036854775808"), jnum("-9223372036854775808"), jnum("-9223372036854775809"),
		str("1"), boo(true), nilv, list(num(1)), mp()}
	for _, v := range limitValues {
		emit("params-json-limits", 2, false, false, kv("json_max_fields_size", mp(kv("a", v))))
		emit("params-json-limits", 2, false, false, kv("json_max_fields_size", mp(kv("a", num(5)), kv("b.c", v), kv("", num(0)))))
	}
	// csv delimiters: every byte value as a one-byte string, and strings of other lengths
	for b := 0; b < 256; b++ {
		emit("params-csv-delimiter", 10, false, false, kv("delimiter", str(string([]byte{byte(b)}))))
	}
	for _, s := range []string{"", ",,", "é", "\r\n", strings.Repeat(",", 300)} {
		emit("params-csv-delimiter", 10, false, false, kv("delimiter", str(s)))
	}
	// csv column lists and mode words
	emit("params-csv", 10, false, false, kv("columns", list()))
	emit("params-csv", 10, false, false, kv("columns", list(str(""), str(""), str("a"))))
	emit("params-csv", 10, false, false, kv("columns", list(str("a"), nilv, num(1))))
	for _, m := range []string{"default", "continue", "fatal", "", "Fatal", "other"} {
		emit("params-csv", 10, false, false, kv("invalid_line_mode", str(m)))
	}
	for _, f := range []string{"number", "string", "", "Number", "numbers", "str"} {
		emit("params-syslog", 8, false, false, kv("syslog_facility_format", str(f)), kv("syslog_severity_format", str(hx.Pick(r, []string{"number", "string"}))))
		emit("params-syslog", 9, false, false, kv("syslog_severity_format", str(f)))
	}
	// protobuf: the schema as text, as a file, through import paths; a text that does not compile, a missing file, a
	// message the file does not have, import paths of the wrong shape
	emit("params-protobuf", 7, true, true, kv("proto_file", str("@schema")), kv("proto_message", str("Msg")))
	emit("params-protobuf", 7, true, true, kv("proto_file", str("@schema")), kv("proto_message", str("Inner")))
	emit("params-protobuf", 7, true, false, kv("proto_file", str("@schema")), kv("proto_message", str("Nope")))
	emit("params-protobuf", 7, true, false, kv("proto_file", str("@schema")), kv("proto_message", str("")))
	emit("params-protobuf", 7, true, false, kv("proto_file", str("@schema")), kv("proto_message", str("verif.Msg")))
	emit("params-protobuf", 7, false, false, kv("proto_file", str("message Broken {")), kv("proto_message", str("Msg")))
	emit("params-protobuf", 7, true, false, kv("proto_file", str("")), kv("proto_message", str("Msg"))) // the empty text is a (proto2) file without messages
	emit("params-protobuf", 7, false, false, kv("proto_file", str("/nonexistent/verif-c12.proto")), kv("proto_message", str("Msg")))
	emit("params-protobuf", 7, true, true, kv("proto_file", str("@file")), kv("proto_message", str("Msg")))
	emit("params-protobuf", 7, true, true, kv("proto_file", str("@file")), kv("proto_message", str("Msg")), kv("proto_import_paths", list()))
	emit("params-protobuf", 7, true, true, kv("proto_file", str("@import")), kv("proto_message", str("Msg")))
	emit("params-protobuf", 7, false, false, kv("proto_file", str("@import")), kv("proto_message", str("Msg")), kv("proto_import_paths", list(str("/nonexistent"))))
	emit("params-protobuf", 7, false, false, kv("proto_file", str("@import")), kv("proto_message", str("Msg")), kv("proto_import_paths", list()))
	emit("params-protobuf", 7, true, true, kv("proto_file", str("@schema")), kv("proto_message", str("Msg")), kv("proto_import_paths", list(str("/nonexistent"), str(""))))
	emit("params-protobuf", 7, true, true, kv("proto_file", str("@schema")), kv("proto_message", str("Msg")), kv("proto_import_paths", list(str("a"), num(1))))
	emit("params-protobuf", 7, true, true, kv("proto_file", str("@schema")), kv("proto_message", str("Msg")), kv("proto_import_paths", strs("a")))
	emit("params-protobuf", 7, true, true, kv("proto_message", str("Msg")))
	emit("params-protobuf", 7, true, true, kv("proto_file", str("@schema")))
}
