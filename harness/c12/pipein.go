package main

// Pipeline.In — the anchored mechanism "Pipeline.In selects the decoder and returns the event to the pool on error"
// (pipeline/pipeline.go:405-555), driven through the public API of a REAL pipeline: pipeline.New (decoder.TypeFromString +
// decoder.New on Settings.Decoder / DecoderParams), SuggestDecoder, Start (an unresolved "auto" becomes JSON built with
// nil params), In, the fake input and the devnull output of an action-less pipeline.
//
//	which 50   case = (cfg (sugg ...) strict ((#k #v) ...) params (#line ...))
//	which 51   case = (cfg (sugg ...) strict ((#k #v) ...) params ((#line #expect wf) ...))
//	   cfg     the configured decoder, a decoder.Type number (1 auto 2 json 3 raw 4 cri 5 postgres 6 nginx_error 7 protobuf
//	           8 syslog_rfc3164 9 syslog_rfc5424 10 csv), handed to the pipeline BY NAME (Settings.Decoder)
//	   sugg    decoder.Type numbers (0..10) given to SuggestDecoder, in this order, before Start (what the k8s input does)
//	   strict  1: Settings.IsStrict, a line the decoder refuses is logged at Fatal level (the logger's fatal hook records it);
//	           2: not strict, and the antispam block of In runs with a threshold no case reaches (0: antispam off, -1)
//	   meta    the meta data the input hands to In (name / value pairs, distinct names)
//	   params  Settings.DecoderParams: (0) none | (6 wc) nginx_with_custom_fields | (8 ff sf) syslog formats |
//	           (10 delim ncols mode #prefix) csv (mode 0 default 1 continue 2 fatal 3 an unknown word) | (2 (#path limit) ...)
//	           json_max_fields_size | (7) the protobuf schema of proto.go
//	   The pipeline has an event pool of TWO events: a refused line whose event is not handed back wedges the third In.
//	observed = (item ...), one per line, or ((6)) when the pipeline could not be built
//	   which 50 item = (0) In returned EventSeqIDError | (1 ((#name value) ...)) the event at the output, fields sorted |
//	                   (2 #site) panic | (3) bytes outside the line altered | (4) Fatal log entry | (5) no event within 5 s
//	   which 51 item = (status vin same): status as above (0 1 4 5), vin = the line is well formed (json: encoding/json.Valid;
//	                   protobuf: the generator's wf flag), same = the event at the output equals the reference (json: the
//	                   document with the meta fields set by encoding/json; protobuf: #expect) | (2 #site) | (3)
//	   Before the event is read at the output the line buffer is overwritten (the input owns it again once In returns).
//
// The model (coq/Model/Decoders/PipeIn.v) resolves the effective decoder from cfg / sugg, picks the params that decoder
// reads, and derives the event from the scanner models (which 50) or judges the flags (which 51).

import (
	"bytes"
	"encoding/json"
	"fmt"
	"reflect"
	"strconv"
	"sync/atomic"
	"time"

	"github.com/ozontech/file.d/decoder"
	"github.com/ozontech/file.d/pipeline"
	"github.com/ozontech/file.d/pipeline/metadata"
	"github.com/ozontech/file.d/plugin/input/fake"
	"github.com/ozontech/file.d/plugin/output/devnull"
	"github.com/prometheus/client_golang/prometheus"
	"go.uber.org/zap"
	"go.uber.org/zap/zapcore"

	"verif/harness/hx"
)

// a Fatal log entry (logger.Fatalf of csv invalid_line_mode=fatal, Pipeline.In under is_strict, pipeline.New on a bad
// configuration) panics with this value instead of exiting; the drivers turn it into the observable (4)
type c12Fatal struct{ msg string }

type c12FatalHook struct{}

func (c12FatalHook) OnWrite(ce *zapcore.CheckedEntry, _ []zapcore.Field) { panic(c12Fatal{ce.Message}) }

func fatalLogger() *zap.Logger {
	return zap.New(zapcore.NewNopCore(), zap.WithFatalHook(c12FatalHook{}))
}

// runs f; true when it ended in a Fatal log entry (any other panic goes on to hx.Catch)
func caughtFatal(f func()) (fatal bool) {
	defer func() {
		if r := recover(); r != nil {
			if _, ok := r.(c12Fatal); ok {
				fatal = true
				return
			}
			panic(r)
		}
	}()
	f()
	return false
}

var decTypeNames = []string{"no-such-decoder", "auto", "json", "raw", "cri", "postgres", "nginx_error", "protobuf", "syslog_rfc3164", "syslog_rfc5424", "csv"}

func csvModeName(m int) string {
	switch m {
	case 0:
		return "default"
	case 1:
		return "continue"
	case 2:
		return "fatal"
	}
	return "verif-unknown-mode"
}

// Settings.DecoderParams from the case
func pipeParams(ps hx.Sx) map[string]any {
	it := hx.Items(ps)
	switch hx.Int(it[0]) {
	case 6:
		return map[string]any{"nginx_with_custom_fields": hx.Truth(it[1])}
	case 8:
		return map[string]any{"syslog_facility_format": fmtName(hx.Truth(it[1])), "syslog_severity_format": fmtName(hx.Truth(it[2]))}
	case 10:
		return csvParams(byte(hx.Int(it[1])), int(hx.Int(it[2])), int(hx.Int(it[3])), hx.Str(it[4]), true)
	case 2:
		limits := map[string]any{}
		for _, pl := range it[1:] {
			x := hx.Items(pl)
			limits[hx.Str(x[0])] = int(hx.Int(x[1]))
		}
		return map[string]any{"json_max_fields_size": limits}
	case 7:
		return protoParams(0)
	}
	return nil
}

func csvParams(delim byte, ncols, mode int, prefix string, withPrefix bool) map[string]any {
	cols := make([]any, ncols)
	for i := range cols {
		cols[i] = fmt.Sprintf("c%d", i)
	}
	p := map[string]any{"delimiter": string([]byte{delim}), "columns": cols}
	if mode != 0 {
		p["invalid_line_mode"] = csvModeName(mode)
	}
	if withPrefix {
		p["prefix"] = prefix
	}
	return p
}

var pipeSeq atomic.Int64

type pipeOut struct {
	fields hx.Sx  // which 50: the sorted field list, or a (2 #harness:..) observable
	enc    []byte // which 51: the encoded Root
}

func execPipeIn(flags bool, cs hx.Sx) hx.Sx {
	it := hx.Items(cs)
	cfg := int(hx.Int(it[0]))
	strict := hx.Int(it[2]) == 1
	var meta metadata.MetaData
	for _, kv := range hx.Items(it[3]) {
		if meta == nil {
			meta = metadata.MetaData{}
		}
		x := hx.Items(kv)
		meta[hx.Str(x[0])] = hx.Str(x[1])
	}
	s := &pipeline.Settings{
		Capacity:            2,
		Decoder:             decTypeNames[cfg],
		DecoderParams:       pipeParams(it[4]),
		IsStrict:            strict,
		AvgEventSize:        256,
		MaintenanceInterval: time.Hour,
		EventTimeout:        time.Hour,
		StreamField:         "stream",
		MetaCacheSize:       16,
		Pool:                pipeline.PoolTypeStd,
		Antispam:            pipeline.AntispamSettings{Threshold: -1, MaintenanceInterval: time.Hour},
		Metric: &pipeline.MetricSettings{
			HoldDuration:        pipeline.DefaultMetricHoldDuration,
			MaxLabelValueLength: pipeline.DefaultMetricMaxLabelValueLength,
		},
	}
	if hx.Int(it[2]) == 2 { // the antispam block of In runs (CRI: time.Parse of the row's time, the per-stream offset short-cut); never a ban
		s.Antispam.Threshold = 1 << 30
	}
	var p *pipeline.Pipeline
	gate := make(chan struct{}, 1)
	got := make(chan pipeOut, 4)
	built := false
	if msg := hx.Catch(func() {
		if caughtFatal(func() {
			p = pipeline.New("c12_in_"+strconv.FormatInt(pipeSeq.Add(1), 10), s, prometheus.NewRegistry(), fatalLogger())
			p.DisableParallelism()
			in, _ := fake.Factory()
			p.SetInput(&pipeline.InputPluginInfo{
				PluginStaticInfo:  &pipeline.PluginStaticInfo{Type: "fake"},
				PluginRuntimeInfo: &pipeline.PluginRuntimeInfo{Plugin: in.(*fake.Plugin)},
			})
			outp, _ := devnull.Factory()
			dn := outp.(*devnull.Plugin)
			p.SetOutput(&pipeline.OutputPluginInfo{
				PluginStaticInfo:  &pipeline.PluginStaticInfo{Type: "devnull"},
				PluginRuntimeInfo: &pipeline.PluginRuntimeInfo{Plugin: dn},
			})
			dn.SetOutFn(func(e *pipeline.Event) {
				<-gate // the harness has overwritten the line by now
				var o pipeOut
				if flags {
					o.enc = []byte(e.Root.EncodeToString())
				} else {
					fields, plain, bad := readObject(e.Root.Node, false)
					switch {
					case !e.Root.IsObject():
						o.fields = harnessBad("root-is-not-an-object")
					case bad != "":
						o.fields = harnessBad(bad)
					default:
						o.fields = hx.L(hx.I(1), fields)
						enc := e.Root.EncodeToString()
						var back map[string]any
						if !json.Valid([]byte(enc)) {
							o.fields = harnessBad("encoded-root-is-not-valid-json")
						} else if allValidUTF8(plain) && (json.Unmarshal([]byte(enc), &back) != nil || !reflect.DeepEqual(back, plain)) {
							o.fields = harnessBad("encoded-root-differs-from-its-fields")
						}
					}
				}
				got <- o
			})
			for _, sg := range hx.Items(it[1]) {
				p.SuggestDecoder(decoder.Type(hx.Int(sg)))
			}
			p.Start()
			built = true
		}) {
			built = false
		}
	}); msg != "" || !built {
		if p != nil && built {
			stopPipe(p)
		}
		return hx.L(hx.L(hx.I(6)))
	}
	wedged := false
	defer func() {
		if !wedged {
			stopPipe(p)
		}
	}()

	var out []hx.Sx
	for i, item := range hx.Items(it[5]) {
		var data, expect []byte
		wf := false
		if flags {
			x := hx.Items(item)
			data, expect, wf = hx.Bytes(x[0]), hx.Bytes(x[1]), hx.Truth(x[2])
		} else {
			data = hx.Bytes(item)
		}
		orig := append([]byte(nil), data...)
		o := framed(data, func(line []byte) hx.Sx {
			var seq uint64
			inDone := make(chan struct{})
			fatal := false
			var pmsg string
			go func() { // a wedged In (no free event) must not hang the harness
				defer close(inDone)
				pmsg = hx.Catch(func() {
					fatal = caughtFatal(func() {
						seq = p.In(pipeline.SourceID(1), "src", pipeline.NewOffsets(int64(i+1), nil), line, i == 0, meta)
					})
				})
			}()
			select {
			case <-inDone:
			case <-time.After(5 * time.Second):
				wedged = true
				return pipeItem(flags, 5, false, false, nil)
			}
			if pmsg != "" {
				return hx.L(hx.I(2), hx.S(pmsg[len("PANIC "):]))
			}
			vin := wf
			if flags && cfgIsJSON(cfg, it[1]) {
				vin = json.Valid(orig)
			}
			if fatal {
				wedged = true // the event of the refused line was not handed back (the process would have exited)
				return pipeItem(flags, 4, vin, false, nil)
			}
			if seq == pipeline.EventSeqIDError {
				return pipeItem(flags, 0, vin, false, nil)
			}
			for j := range line { // the input owns the line again
				line[j] = 0xEE
			}
			gate <- struct{}{}
			select {
			case g := <-got:
				if !flags {
					return g.fields
				}
				var same, sameCut bool
				if cfgIsJSON(cfg, it[1]) {
					want := jsonWithMeta(orig, meta, nil)
					same = vin && want != nil && semEq(want, g.enc)
					wantCut := jsonWithMeta(orig, meta, jsonLimits(it[4]))
					sameCut = vin && wantCut != nil && semEq(wantCut, g.enc)
				} else {
					want := jsonWithMeta(expect, meta, nil)
					same = vin && want != nil && semEqNum(want, g.enc)
					sameCut = same
				}
				return hx.L(hx.I(1), hx.Bool(vin), hx.Bool(same), hx.Bool(sameCut))
			case <-time.After(5 * time.Second):
				wedged = true
				return pipeItem(flags, 5, vin, false, nil)
			}
		})
		out = append(out, o)
		if wedged || isPanicObs(o) {
			break
		}
	}
	return hx.L(out...)
}

func stopPipe(p *pipeline.Pipeline) {
	done := make(chan struct{})
	go func() { defer close(done); _ = hx.Catch(p.Stop) }()
	select {
	case <-done:
	case <-time.After(5 * time.Second):
	}
}

func pipeItem(flags bool, status int, vin, same bool, _ any) hx.Sx {
	if flags {
		return hx.L(hx.I(status), hx.Bool(vin), hx.Bool(same), hx.Bool(same))
	}
	return hx.L(hx.I(status))
}

// the effective decoder of the case is JSON (configured, suggested to an "auto" pipeline, or the fallback of Start)
func cfgIsJSON(cfg int, sugg hx.Sx) bool {
	cur := cfg
	for _, s := range hx.Items(sugg) {
		if cur == 1 && hx.Int(s) != 0 {
			cur = int(hx.Int(s))
		}
	}
	return cur == 2 || cur == 1
}

// the json_max_fields_size limits of the case's params (top-level names only; nil: none)
func jsonLimits(ps hx.Sx) map[string]int {
	it := hx.Items(ps)
	if hx.Int(it[0]) != 2 {
		return nil
	}
	m := map[string]int{}
	for _, pl := range it[1:] {
		x := hx.Items(pl)
		m[hx.Str(x[0])] = int(hx.Int(x[1]))
	}
	return m
}

// the reference for what Pipeline.In does: the top-level strings named by limits cut to that many bytes (the generator
// keeps them plain ASCII, so bytes = characters and no escape is involved), then every meta field set on an object, on
// every object element of an array, nothing on a scalar (nil: doc does not parse)
func jsonWithMeta(doc []byte, meta metadata.MetaData, limits map[string]int) []byte {
	var x any
	dd := json.NewDecoder(bytes.NewReader(doc))
	dd.UseNumber()
	if dd.Decode(&x) != nil {
		return nil
	}
	if top, ok := x.(map[string]any); ok {
		for k, lim := range limits {
			if sv, ok := top[k].(string); ok && lim >= 0 && len(sv) > lim {
				top[k] = sv[:lim]
			}
		}
	}
	switch v := x.(type) {
	case map[string]any:
		for k, val := range meta {
			v[k] = val
		}
	case []any:
		for _, el := range v {
			if m, ok := el.(map[string]any); ok {
				for k, val := range meta {
					m[k] = val
				}
			}
		}
	}
	out, err := json.Marshal(x)
	if err != nil {
		return nil
	}
	return out
}

// semantic equality of two JSON texts; numbers are compared as text when both are integers, else as float64 values
func semEqNum(a, b []byte) bool {
	var x, y any
	da := json.NewDecoder(bytes.NewReader(a))
	da.UseNumber()
	db := json.NewDecoder(bytes.NewReader(b))
	db.UseNumber()
	if da.Decode(&x) != nil || db.Decode(&y) != nil {
		return false
	}
	return deepEqNum(x, y)
}

func deepEqNum(x, y any) bool {
	switch a := x.(type) {
	case json.Number:
		b, ok := y.(json.Number)
		if !ok {
			return false
		}
		if a == b {
			return true
		}
		fa, ea := a.Float64()
		fb, eb := b.Float64()
		return ea == nil && eb == nil && fa == fb
	case map[string]any:
		b, ok := y.(map[string]any)
		if !ok || len(a) != len(b) {
			return false
		}
		for k, v := range a {
			w, ok := b[k]
			if !ok || !deepEqNum(v, w) {
				return false
			}
		}
		return true
	case []any:
		b, ok := y.([]any)
		if !ok || len(a) != len(b) {
			return false
		}
		for i := range a {
			if !deepEqNum(a[i], b[i]) {
				return false
			}
		}
		return true
	}
	return reflect.DeepEqual(x, y)
}
