package main

// The protobuf decoder (decoder/protobuf.go: NewProtobufDecoder, Decode, DecodeToJson).  proto.Unmarshal / protojson are
// library code and are not modelled; the reference is INDEPENDENT of them: the wire bytes are written by the encoder below
// and the expected JSON is assembled by hand from the field values following the proto3 JSON mapping.
//
//	which 38   case = (variant mode #data #expect wf)
//	   variant 0 the schema handed over as text (proto_file does not end in .proto: in-memory file), 1 a .proto file named by
//	           its absolute path, 2 a .proto file found through proto_import_paths (it imports a second file)
//	   mode    0 Decode (the JSON text), 1 DecodeToJson into a Root (read back after the line was overwritten)
//	   wf      the generator knows #data to be a well-formed message whose JSON form is #expect
//	observed = (status wf same validOut) | (2 #site) | (3)
//	   status 1 decoded / 0 error; same = the result equals #expect (numbers by value); validOut = the result is a valid
//	   JSON object (encoding/json)
//	verdict (coq/Model/Decoders/PipeIn.v flag_item_ok / proto_run): never (2) / (3); decoded => validOut; wf => decoded and same.

import (
	"encoding/base64"
	"encoding/binary"
	"encoding/json"
	"fmt"
	"math"
	"os"
	"path/filepath"
	"sort"
	"strconv"
	"sync"

	"github.com/ozontech/file.d/decoder"
	insaneJSON "github.com/ozontech/insane-json"

	"verif/harness/hmain"
	"verif/harness/hx"
)

const protoInner = `syntax = "proto3";
package verif;
enum Color { RED = 0; GREEN = 1; BLUE = 2; }
message Inner { string name = 1; int32 n = 2; }
`

const protoMsgBody = `
message Msg {
  string s = 1;
  int32 i32 = 2;
  int64 i64 = 3;
  uint32 u32 = 4;
  uint64 u64 = 5;
  sint32 s32 = 6;
  bool b = 7;
  bytes raw = 8;
  double d = 9;
  Color color = 10;
  Inner inner = 11;
  repeated int32 nums = 12;
  repeated string tags = 13;
  map<string, int32> m = 14;
  fixed32 f32 = 15;
  sfixed64 sf64 = 16;
  oneof choice { string c_s = 17; int32 c_i = 18; }
  repeated Inner inners = 19;
  optional string opt_s = 20;
  sint64 snake_case_name = 21;
}
`

// one file, everything in it (variants 0 and 1)
var protoWhole = protoInner + protoMsgBody

// the importing file of variant 2
var protoImporting = `syntax = "proto3";
package verif;
import "sub/inner.proto";
` + protoMsgBody

var (
	protoDirOnce sync.Once
	protoDir     string
)

func protoFiles() string {
	protoDirOnce.Do(func() {
		protoDir = filepath.Join(os.TempDir(), "verif-c12-proto")
		write := func(rel, content string) {
			p := filepath.Join(protoDir, rel)
			if old, err := os.ReadFile(p); err == nil && string(old) == content {
				return
			}
			_ = os.MkdirAll(filepath.Dir(p), 0o755)
			tmp := p + fmt.Sprintf(".%d", os.Getpid())
			if err := os.WriteFile(tmp, []byte(content), 0o644); err != nil {
				panic(err)
			}
			if err := os.Rename(tmp, p); err != nil {
				panic(err)
			}
		}
		write("whole.proto", protoWhole)
		write("inc/msg.proto", protoImporting)
		write("inc/sub/inner.proto", protoInner)
	})
	return protoDir
}

func protoParams(variant int) map[string]any {
	switch variant {
	case 1:
		return map[string]any{"proto_file": filepath.Join(protoFiles(), "whole.proto"), "proto_message": "Msg"}
	case 2:
		return map[string]any{"proto_file": "msg.proto", "proto_message": "Msg", "proto_import_paths": []any{filepath.Join(protoFiles(), "inc")}}
	}
	return map[string]any{"proto_file": protoWhole, "proto_message": "Msg"}
}

func protoDec(variant int) decoder.Decoder {
	return getDec(fmt.Sprintf("protobuf-%d", variant), func() (decoder.Decoder, error) {
		return decoder.New(decoder.TypeFromString("protobuf"), protoParams(variant))
	})
}

func execProto(cs hx.Sx) hx.Sx {
	it := hx.Items(cs)
	variant, mode := int(hx.Int(it[0])), int(hx.Int(it[1]))
	data, expect, wf := hx.Bytes(it[2]), hx.Bytes(it[3]), hx.Truth(it[4])
	d := protoDec(variant)
	return framed(data, func(line []byte) hx.Sx {
		var res []byte
		if mode == 0 {
			r, err := d.Decode(line)
			if err != nil {
				return hx.L(hx.I(0), hx.Bool(wf), hx.I(0), hx.I(0))
			}
			res = append([]byte(nil), r.([]byte)...)
			for i := range line {
				line[i] = 0xEE
			}
		} else {
			root := bornRoot()
			defer insaneJSON.Release(root)
			if err := d.DecodeToJson(root, line); err != nil {
				return hx.L(hx.I(0), hx.Bool(wf), hx.I(0), hx.I(0))
			}
			for i := range line {
				line[i] = 0xEE
			}
			res = []byte(root.EncodeToString())
		}
		var obj map[string]any
		validOut := json.Valid(res) && json.Unmarshal(res, &obj) == nil && obj != nil
		return hx.L(hx.I(1), hx.Bool(wf), hx.Bool(wf && semEqNum(expect, res)), hx.Bool(validOut))
	})
}

// ---- a hand-written wire encoder -----------------------------------------------------------------------------------

func pbVarint(b []byte, v uint64) []byte { return binary.AppendUvarint(b, v) }
func pbTag(b []byte, num, wt int) []byte { return pbVarint(b, uint64(num)<<3|uint64(wt)) }
func pbLen(b []byte, num int, payload []byte) []byte {
	b = pbTag(b, num, 2)
	b = pbVarint(b, uint64(len(payload)))
	return append(b, payload...)
}
func pbVar(b []byte, num int, v uint64) []byte { return pbVarint(pbTag(b, num, 0), v) }
func pbFix32(b []byte, num int, v uint32) []byte {
	return binary.LittleEndian.AppendUint32(pbTag(b, num, 5), v)
}
func pbFix64(b []byte, num int, v uint64) []byte {
	return binary.LittleEndian.AppendUint64(pbTag(b, num, 1), v)
}
func zz32(v int32) uint64 { return uint64(uint32(v<<1) ^ uint32(v>>31)) }
func zz64(v int64) uint64 { return uint64(v<<1) ^ uint64(v>>63) }

type pbInner struct {
	name string
	n    int32
}

func (in pbInner) bytes() []byte {
	var b []byte
	if in.name != "" {
		b = pbLen(b, 1, []byte(in.name))
	}
	if in.n != 0 {
		b = pbVar(b, 2, uint64(int64(in.n)))
	}
	return b
}
func (in pbInner) json() map[string]any { return map[string]any{"name": in.name, "n": in.n} }

// a message value: the zero value is the empty message
type pbMsg struct {
	s                 string
	i32               int32
	i64               int64
	u32               uint32
	u64               uint64
	s32               int32
	b                 bool
	raw               []byte
	d                 float64
	color             int32
	inner             *pbInner
	nums              []int32
	tags              []string
	m                 map[string]int32
	f32               uint32
	sf64              int64
	choice            int // 0 none, 1 c_s, 2 c_i
	cS                string
	cI                int32
	inners            []pbInner
	optS              *string
	snake             int64
	packedNums        bool // nums as one packed field (else one varint field per element)
	unknown, shuffled bool
}

func (m *pbMsg) expect() []byte {
	j := map[string]any{
		"s": m.s, "i32": m.i32, "i64": strconv.FormatInt(m.i64, 10), "u32": m.u32, "u64": strconv.FormatUint(m.u64, 10),
		"s32": m.s32, "b": m.b, "raw": base64.StdEncoding.EncodeToString(m.raw), "f32": m.f32,
		"sf64": strconv.FormatInt(m.sf64, 10), "snakeCaseName": strconv.FormatInt(m.snake, 10),
	}
	switch {
	case math.IsNaN(m.d):
		j["d"] = "NaN"
	case math.IsInf(m.d, 1):
		j["d"] = "Infinity"
	case math.IsInf(m.d, -1):
		j["d"] = "-Infinity"
	default:
		j["d"] = m.d
	}
	switch m.color {
	case 0:
		j["color"] = "RED"
	case 1:
		j["color"] = "GREEN"
	case 2:
		j["color"] = "BLUE"
	default:
		j["color"] = m.color
	}
	if m.inner != nil {
		j["inner"] = m.inner.json()
	}
	nums := make([]any, len(m.nums))
	for i, v := range m.nums {
		nums[i] = v
	}
	j["nums"] = nums
	tags := make([]any, len(m.tags))
	for i, v := range m.tags {
		tags[i] = v
	}
	j["tags"] = tags
	mm := map[string]any{}
	for k, v := range m.m {
		mm[k] = v
	}
	j["m"] = mm
	switch m.choice {
	case 1:
		j["cS"] = m.cS
	case 2:
		j["cI"] = m.cI
	}
	ins := make([]any, len(m.inners))
	for i, v := range m.inners {
		ins[i] = v.json()
	}
	j["inners"] = ins
	if m.optS != nil {
		j["optS"] = *m.optS
	}
	out, err := json.Marshal(j)
	if err != nil {
		panic(err)
	}
	return out
}

// the fields as separately encoded chunks (their order is free; unset / default scalars are left out as proto3 does)
func (m *pbMsg) chunks(r *hx.Rng) [][]byte {
	var cs [][]byte
	add := func(b []byte) { cs = append(cs, b) }
	if m.s != "" {
		add(pbLen(nil, 1, []byte(m.s)))
	}
	if m.i32 != 0 {
		add(pbVar(nil, 2, uint64(int64(m.i32)))) // a negative int32 travels as a ten-byte varint
	}
	if m.i64 != 0 {
		add(pbVar(nil, 3, uint64(m.i64)))
	}
	if m.u32 != 0 {
		add(pbVar(nil, 4, uint64(m.u32)))
	}
	if m.u64 != 0 {
		add(pbVar(nil, 5, m.u64))
	}
	if m.s32 != 0 {
		add(pbVar(nil, 6, zz32(m.s32)))
	}
	if m.b {
		add(pbVar(nil, 7, 1))
	}
	if len(m.raw) > 0 {
		add(pbLen(nil, 8, m.raw))
	}
	if m.d != 0 || math.Signbit(m.d) {
		add(pbFix64(nil, 9, math.Float64bits(m.d)))
	}
	if m.color != 0 {
		add(pbVar(nil, 10, uint64(int64(m.color))))
	}
	if m.inner != nil {
		add(pbLen(nil, 11, m.inner.bytes()))
	}
	if m.packedNums && len(m.nums) > 0 {
		var p []byte
		for _, v := range m.nums {
			p = pbVarint(p, uint64(int64(v)))
		}
		add(pbLen(nil, 12, p))
	} else {
		var p []byte // the elements of a repeated field keep their order: one chunk
		for _, v := range m.nums {
			p = pbVar(p, 12, uint64(int64(v)))
		}
		if len(p) > 0 {
			add(p)
		}
	}
	{
		var p []byte
		for _, v := range m.tags {
			p = pbLen(p, 13, []byte(v))
		}
		if len(p) > 0 {
			add(p)
		}
	}
	keys := make([]string, 0, len(m.m))
	for k := range m.m {
		keys = append(keys, k)
	}
	sort.Strings(keys)
	for _, k := range keys {
		var e []byte
		if k != "" {
			e = pbLen(e, 1, []byte(k))
		}
		if m.m[k] != 0 {
			e = pbVar(e, 2, uint64(int64(m.m[k])))
		}
		add(pbLen(nil, 14, e))
	}
	if m.f32 != 0 {
		add(pbFix32(nil, 15, m.f32))
	}
	if m.sf64 != 0 {
		add(pbFix64(nil, 16, uint64(m.sf64)))
	}
	switch m.choice { // a set oneof member travels even with its default value
	case 1:
		add(pbLen(nil, 17, []byte(m.cS)))
	case 2:
		add(pbVar(nil, 18, uint64(int64(m.cI))))
	}
	{
		var p []byte
		for _, v := range m.inners {
			p = pbLen(p, 19, v.bytes())
		}
		if len(p) > 0 {
			add(p)
		}
	}
	if m.optS != nil {
		add(pbLen(nil, 20, []byte(*m.optS)))
	}
	if m.snake != 0 {
		add(pbVar(nil, 21, zz64(m.snake)))
	}
	if m.unknown { // unknown field numbers of every wire type are skipped
		add(pbVar(nil, 100, 7))
		add(pbLen(nil, 101, []byte("unknown")))
		add(pbFix32(nil, 102, 1))
		add(pbFix64(nil, 2047, 1))
		add(pbTag(pbVar(pbTag(nil, 103, 3), 1, 5), 103, 4)) // a group with one varint field
	}
	if m.shuffled {
		for i := len(cs) - 1; i > 0; i-- {
			j := r.Intn(i + 1)
			cs[i], cs[j] = cs[j], cs[i]
		}
	}
	return cs
}

func (m *pbMsg) bytes(r *hx.Rng) []byte {
	var b []byte
	for _, c := range m.chunks(r) {
		b = append(b, c...)
	}
	return b
}

func randPbMsg(r *hx.Rng) *pbMsg {
	strs := []string{"", "a", "hello world", "é", "日本", "quote\" back\\ nl\n tab\t", "\u0000\u001f", "<>& ", "😀"}
	i32s := []int32{0, 1, -1, 127, 128, 300, math.MaxInt32, math.MinInt32, 16383, 16384}
	i64s := []int64{0, 1, -1, math.MaxInt64, math.MinInt64, 1 << 53, (1 << 53) + 1, -(1 << 31)}
	m := &pbMsg{}
	on := func() bool { return r.Chance(1, 2) }
	if on() {
		m.s = hx.Pick(r, strs)
	}
	if on() {
		m.i32 = hx.Pick(r, i32s)
	}
	if on() {
		m.i64 = hx.Pick(r, i64s)
	}
	if on() {
		m.u32 = hx.Pick(r, []uint32{0, 1, 255, math.MaxUint32})
	}
	if on() {
		m.u64 = hx.Pick(r, []uint64{0, 1, math.MaxUint64, 1 << 63})
	}
	if on() {
		m.s32 = hx.Pick(r, i32s)
	}
	m.b = on()
	if on() {
		m.raw = hx.Pick(r, [][]byte{nil, {0}, {0xff, 0xfe}, []byte("abc"), []byte("abcd"), {0x80, 0x00, 0x7f, 0x22, 0x5c}})
	}
	if on() {
		m.d = hx.Pick(r, []float64{0, 1, -1, 1.5, 0.25, 1e21, 1e-7, math.MaxFloat64, math.SmallestNonzeroFloat64, math.NaN(), math.Inf(1), math.Inf(-1), math.Copysign(0, -1), 123456789.125})
	}
	if on() {
		m.color = hx.Pick(r, []int32{0, 1, 2, 3, -1, 1000})
	}
	if on() {
		m.inner = &pbInner{hx.Pick(r, strs), hx.Pick(r, i32s)}
	}
	for n := r.Intn(4); n > 0 && on(); n-- {
		m.nums = append(m.nums, hx.Pick(r, i32s))
	}
	for n := r.Intn(4); n > 0 && on(); n-- {
		m.tags = append(m.tags, hx.Pick(r, strs))
	}
	if on() {
		m.m = map[string]int32{}
		for n := r.Intn(4); n > 0; n-- {
			m.m[hx.Pick(r, []string{"", "k", "k2", "é", "a b"})] = hx.Pick(r, i32s)
		}
	}
	if on() {
		m.f32 = hx.Pick(r, []uint32{0, 1, math.MaxUint32})
	}
	if on() {
		m.sf64 = hx.Pick(r, i64s)
	}
	m.choice = r.Intn(3)
	m.cS, m.cI = hx.Pick(r, strs), hx.Pick(r, i32s)
	for n := r.Intn(3); n > 0 && on(); n-- {
		m.inners = append(m.inners, pbInner{hx.Pick(r, strs), hx.Pick(r, i32s)})
	}
	if on() {
		s := hx.Pick(r, strs)
		m.optS = &s
	}
	if on() {
		m.snake = hx.Pick(r, i64s)
	}
	m.packedNums, m.unknown, m.shuffled = on(), r.Chance(1, 4), on()
	return m
}

func protoCase(variant, mode int, data, expect []byte, wf bool) hx.Sx {
	return hx.L(hx.I(variant), hx.I(mode), hx.B(data), hx.B(expect), hx.Bool(wf))
}

func genProto(c *hmain.Ctx) {
	r := c.R
	// ---- protobuf-valid: random well-formed messages of a schema with every scalar kind, an enum, a nested message, packed
	// and unpacked repeated fields, a map, a oneof, a proto3 optional, unknown fields, free field order; through Decode and
	// DecodeToJson, the schema given as text, as a file, through import paths. Would expose: a field lost, renamed or
	// mistyped between proto.Unmarshal and the Root (DecodeToJson drops the error of root.DecodeBytes), a schema variant
	// resolved to another message, a result that aliases the input buffer.
	for i := 0; i < 600*c.Scale; i++ {
		m := randPbMsg(r)
		c.Do("protobuf-valid", 38, protoCase(i%3, i/3%2, m.bytes(r), m.expect(), true), true)
	}
	empty := &pbMsg{}
	for v := 0; v < 3; v++ {
		for mode := 0; mode < 2; mode++ {
			c.Do("protobuf-valid", 38, protoCase(v, mode, nil, empty.expect(), true), true)
		}
	}
	// last one wins for a scalar written twice, and for the members of a oneof
	{
		m := &pbMsg{s: "second", i32: 7, choice: 2, cI: 5}
		b := append(pbLen(nil, 1, []byte("first")), pbVar(nil, 2, 1)...)
		b = append(b, pbLen(nil, 17, []byte("loses"))...)
		b = append(b, m.bytes(r)...)
		c.Do("protobuf-valid", 38, protoCase(0, 0, b, m.expect(), true), true)
		c.Do("protobuf-valid", 38, protoCase(0, 1, b, m.expect(), true), true)
	}
	// ---- protobuf-truncation: every truncation of three valid messages, alone and followed by one token of the wire
	// alphabet; protobuf-exhaustive: every sequence of up to 3 (thorough: 4) wire tokens - tags of every wire type (varint,
	// fixed64, length-delimited, group start / end, fixed32, the reserved 6 and 7), field number 0, lengths that point past
	// the end, unterminated and over-long varints, invalid UTF-8 in a string field, nested message headers.
	// Totality only (wf = 0): no crash, bytes outside the line untouched, and whatever is accepted is a valid JSON object.
	tokens := []string{"\x0a", "\x12", "\x08", "\x10", "\x5a", "\x62", "\x72", "\x00", "\x01", "\x02", "\x7f", "\x80", "\xff", "a",
		"\x0b", "\x0c", "\x0d", "\x09", "\x0e", "\x0f", "\xff\xff\xff\xff\xff\xff\xff\xff\xff\x01", "\xff\xff\xff\xff\xff\xff\xff\xff\xff\x7f"}
	n := 2
	if c.Tier == "thorough" {
		n = 3
	}
	enum(tokens, n, nil, func(b []byte) {
		c.Do("protobuf-exhaustive", 38, protoCase(0, len(b)%2, b, nil, false), len(b) >= 2)
	})
	rr := hx.NewRng(7) // the same three messages on every seed: the enumeration is the point
	for k := 0; k < 3; k++ {
		m := randPbMsg(rr)
		m.inner, m.m, m.tags = &pbInner{"in", -3}, map[string]int32{"k": 1}, []string{"t", "é"}
		v := m.bytes(rr)
		for cut := 0; cut <= len(v); cut++ {
			enum(tokens, 1, v[:cut], func(b []byte) {
				c.Do("protobuf-truncation", 38, protoCase(k, (cut+len(b))%2, b, nil, false), true)
			})
		}
	}
	// ---- protobuf-damaged: valid messages with 1-3 bytes replaced / removed / inserted
	for i := 0; i < 1500*c.Scale; i++ {
		b := randPbMsg(r).bytes(r)
		for k := r.Range(1, 3); k > 0 && len(b) > 0; k-- {
			p := r.Intn(len(b))
			switch r.Intn(3) {
			case 0:
				b[p] = byte(r.Intn(256))
			case 1:
				b = append(b[:p], b[p+1:]...)
			default:
				b = append(b[:p], append([]byte{byte(r.Intn(256))}, b[p:]...)...)
			}
		}
		c.Do("protobuf-damaged", 38, protoCase(i%3, i%2, b, nil, false), true)
	}
}
