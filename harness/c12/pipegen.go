package main

// generators of the Pipeline.In streams (which 50 / 51, see pipein.go)

import (
	"fmt"
	"strings"

	"verif/harness/hmain"
	"verif/harness/hx"
)

const (
	tAuto, tJSON, tRaw, tCRI, tPostgres, tNginx, tProtobuf, tS3164, tS5424, tCSV = 1, 2, 3, 4, 5, 6, 7, 8, 9, 10
)

// what the pipeline will run (only to send the case to which 50 or 51; the model resolves it again on its own)
func effType(cfg int, sugg []int) int {
	cur := cfg
	for _, s := range sugg {
		if cur == tAuto && s != 0 {
			cur = s
		}
	}
	if cur == tAuto {
		return tJSON
	}
	return cur
}

func pipeCase(cfg int, sugg []int, strict any, meta []string, params hx.Sx, items []hx.Sx) hx.Sx {
	mode := 0
	switch v := strict.(type) {
	case bool:
		if v {
			mode = 1
		}
	case int:
		mode = v
	}
	var ms []hx.Sx
	for i := 0; i+1 < len(meta); i += 2 {
		ms = append(ms, hx.L(hx.S(meta[i]), hx.S(meta[i+1])))
	}
	return hx.L(hx.I(cfg), hx.List(sugg, hx.I), hx.I(mode), hx.L(ms...), params, hx.L(items...))
}

var pipeDelims = map[int]string{tCRI: " PF\n", tPostgres: " []=,", tNginx: " []#:*,\"\n", tS3164: "<>[]: \n19", tS5424: "<>[]=\"\\ -\n1Z.:+", tCSV: ",\"\r\n ;", tRaw: "\n a"}

func damageLine(r *hx.Rng, b []byte, alpha string) []byte {
	b = append([]byte(nil), b...)
	for n := r.Intn(3); n > 0 && len(b) > 0; n-- {
		p := r.Intn(len(b))
		switch r.Intn(4) {
		case 0:
			b = append(b[:p], b[p+1:]...)
		case 1:
			b = append(b[:p+1], b[p:]...)
		case 2:
			b[p] = alpha[r.Intn(len(alpha))]
		default:
			b = append(b[:p], append([]byte{alpha[r.Intn(len(alpha))]}, b[p:]...)...)
		}
	}
	return b
}

func genPipeIn(c *hmain.Ctx) {
	r := c.R
	none := hx.L(hx.I(0))
	valids := map[int][]string{tRaw: {"raw line\n", "no newline", "x", "a\n\n", " \n", "{\"json\":1}\n"}, tCRI: criValid, tPostgres: pgValid,
		tNginx: ngValid, tS3164: s3Valid, tS5424: s5Valid, tCSV: csvValid}
	names := map[int]string{tRaw: "raw", tCRI: "cri", tPostgres: "postgres", tNginx: "nginx", tS3164: "rfc3164", tS5424: "rfc5424", tCSV: "csv"}
	metaNames := []string{"verif_meta", "k8s_pod", "message", "log", "time", "stream", "c0", "0", "hostname", "id"}
	randMeta := func() []string {
		var m []string
		seen := map[string]bool{}
		for n := r.Intn(3); n > 0; n-- {
			k := hx.Pick(r, metaNames)
			if !seen[k] {
				seen[k] = true
				m = append(m, k, hx.Pick(r, []string{"m", "", "meta \"value\"", "é"}))
			}
		}
		return m
	}
	randParams := func(t int) hx.Sx {
		switch t {
		case tNginx:
			return hx.L(hx.I(6), hx.Bool(r.Bool()))
		case tS3164, tS5424:
			return hx.L(hx.I(8), hx.Bool(r.Bool()), hx.Bool(r.Bool()))
		case tCSV:
			return hx.L(hx.I(10), hx.I(','), hx.I([]int{0, 0, 3, 4}[r.Intn(4)]), hx.I(r.Intn(4)), hx.S(hx.Pick(r, []string{"", "csv_", "p"})))
		}
		if r.Chance(1, 4) { // params of another decoder: ignored
			return hx.Pick(r, []hx.Sx{hx.L(hx.I(6), hx.I(1)), hx.L(hx.I(8), hx.I(1), hx.I(1)), hx.L(hx.I(10), hx.I(';'), hx.I(2), hx.I(0), hx.S("x"))})
		}
		return none
	}
	// the configured name, or "auto" with suggestions whose first that counts is t
	randWay := func(t int) (int, []int) {
		if r.Chance(2, 3) {
			var sugg []int
			if r.Chance(1, 4) { // suggestions to a pipeline that is not "auto" are ignored
				sugg = append(sugg, r.Intn(11))
			}
			return t, sugg
		}
		var sugg []int
		for n := r.Intn(3); n > 0; n-- {
			sugg = append(sugg, hx.Pick(r, []int{0, 0, tAuto}))
		}
		sugg = append(sugg, t)
		for n := r.Intn(3); n > 0; n-- {
			sugg = append(sugg, r.Intn(11))
		}
		return tAuto, sugg
	}
	// ---- pipe-in-<decoder>: 3-8 lines through a real pipeline (event pool of two events) per case: canonical valid lines,
	// damaged ones, empty lines and lone newlines (not events), with 0-2 meta fields (some named like a decoded field),
	// the decoder configured by name or as "auto" + SuggestDecoder, its own params or another decoder's, is_strict in
	// one case out of six. Would expose: a decoder wired to the wrong type name, params lost on the way (SuggestDecoder
	// building the decoder without them), RAW / CRI fields taken from the wrong slice, a meta field not replacing the decoded
	// one, a refused line whose event is not handed back (the third refused line would wedge), a refused line that is let
	// through, a value still pointing into the input's buffer.
	per := 80
	for _, t := range []int{tRaw, tCRI, tPostgres, tNginx, tS3164, tS5424, tCSV} {
		for i := 0; i < per*c.Scale; i++ {
			cfg, sugg := randWay(t)
			var items []hx.Sx
			for n := r.Range(3, 8); n > 0; n-- {
				switch k := r.Intn(12); {
				case k == 0:
					items = append(items, hx.S(hx.Pick(r, []string{"", "\n"})))
				case k <= 5:
					items = append(items, hx.S(hx.Pick(r, valids[t])))
				default:
					items = append(items, hx.B(damageLine(r, []byte(hx.Pick(r, valids[t])), pipeDelims[t])))
				}
			}
			c.W.Count(fmt.Sprintf("pipe_in_%s_lines_%d", names[t], len(items)))
			c.Do("pipe-in-"+names[t], 50, pipeCase(cfg, sugg, []int{0, 0, 0, 1, 2, 2}[r.Intn(6)], randMeta(), randParams(t), items), true)
		}
	}
	// ---- pipe-in-pool: more refused lines than the pool has events (2), then an accepted one; with every decoder that can
	// refuse a line. Would expose: the error path of In keeping the event (eventPool.back skipped): the third In blocks.
	bad := map[int]string{tCRI: "no-stream-here\n", tPostgres: "not postgres\n", tNginx: "not nginx\n", tS3164: "<999>x\n", tS5424: "<1>2 x\n", tCSV: "a,\"b\n"}
	for _, t := range []int{tCRI, tPostgres, tNginx, tS3164, tS5424, tCSV} {
		for _, nbad := range []int{2, 3, 5} {
			var items []hx.Sx
			for i := 0; i < nbad; i++ {
				items = append(items, hx.S(bad[t]))
			}
			items = append(items, hx.S(valids[t][0]), hx.S(bad[t]), hx.S(valids[t][0]))
			c.Do("pipe-in-pool", 50, pipeCase(t, nil, false, nil, none, items), true)
		}
	}
	// CRI rows in the antispam block of In (mode 2): a time that time.Parse refuses is logged and the event goes on, a
	// partial row skips the block, an empty time is not parsed. Would expose: the event dropped on an unparsable time.
	for _, mode := range []int{0, 2} {
		c.Do("pipe-in-cri-time", 50, pipeCase(tCRI, nil, mode, nil, none, []hx.Sx{hx.S("not-a-time stdout F full\n"), hx.S("2016-13-40T00:00:00Z stderr P part\n"),
			hx.S(" stdout F empty time\n"), hx.S("2016-10-06T00:17:09.669794202+03:00 stdout F zone\n"), hx.S(criValid[1])}), true)
	}
	// csv: a line with the wrong number of fields under every invalid_line_mode (default: refused, continue: accepted,
	// fatal: Fatal entry, an unknown word: as default), generated column names with and without a prefix
	for mode := 0; mode <= 3; mode++ {
		for _, prefix := range []string{"", "csv_"} {
			for _, ncols := range []int{0, 2} {
				ps := hx.L(hx.I(10), hx.I(';'), hx.I(ncols), hx.I(mode), hx.S(prefix))
				c.Do("pipe-in-csv-modes", 50, pipeCase(tCSV, nil, false, nil, ps, []hx.Sx{hx.S("a;b"), hx.S("a;b;c"), hx.S("a"), hx.S("d;e\n")}), true)
			}
		}
	}
	// ---- pipe-in-select: every configured type x no suggestion / every single suggestion 0..11 / two suggestions, one
	// line that every scanner refuses and one JSON object. Types without a pipeline: the unknown name, protobuf without a
	// schema, a suggestion that is not a type (11), csv with a quote as delimiter, json with a negative limit.
	// Would expose: a suggestion applied to a pipeline that is not "auto" or the second one winning, NO taken for a
	// suggestion, "auto" left unresolved (In would meet a nil decoder), a fallback other than JSON.
	jsonItem := func(doc string) hx.Sx { return hx.L(hx.S(doc), hx.S(""), hx.I(0)) }
	sel := func(cfg int, sugg []int, ps hx.Sx) {
		if t := effType(cfg, sugg); t == tJSON || t == tProtobuf {
			c.Do("pipe-in-select", 51, pipeCase(cfg, sugg, false, nil, ps, []hx.Sx{jsonItem("<1>x"), jsonItem(`{"a":"xyz"}`)}), true)
		} else {
			c.Do("pipe-in-select", 50, pipeCase(cfg, sugg, false, nil, ps, []hx.Sx{hx.S("<1>x"), hx.S(`{"a":"xyz"}`)}), true)
		}
	}
	for cfg := 0; cfg <= 10; cfg++ {
		sel(cfg, nil, none)
		if cfg != tAuto && cfg != 0 {
			sel(cfg, []int{r.Intn(11)}, none)
			continue
		}
		for s := 0; s <= 11; s++ {
			sel(cfg, []int{s}, none)
			sel(cfg, []int{0, s, tCRI}, hx.L(hx.I(7)))
			sel(cfg, []int{tAuto, s, tPostgres}, none)
		}
	}
	sel(tProtobuf, nil, hx.L(hx.I(7)))
	sel(tCSV, nil, hx.L(hx.I(10), hx.I('"'), hx.I(0), hx.I(0), hx.S("")))
	sel(tCSV, nil, hx.L(hx.I(10), hx.I('\n'), hx.I(0), hx.I(0), hx.S("")))
	sel(tAuto, []int{tCSV}, hx.L(hx.I(10), hx.I('\r'), hx.I(0), hx.I(0), hx.S("")))
	sel(tJSON, nil, hx.L(hx.I(2), hx.L(hx.S("a"), hx.I(-1))))
	sel(tAuto, nil, hx.L(hx.I(2), hx.L(hx.S("a"), hx.I(-1)))) // never read: Start's fallback passes nil params
	sel(tAuto, []int{tJSON}, hx.L(hx.I(2), hx.L(hx.S("a"), hx.I(-1))))

	// ---- pipe-in-json: documents of every top-level kind through the JSON decoder of a pipeline with 0-2 meta fields
	// (object: set / replaced; array: set on every object element; scalar: dropped), with json_max_fields_size on plain
	// top-level strings, the decoder configured as "json", as "auto" + SuggestDecoder(JSON) (limits apply) and as "auto"
	// alone (Start builds the JSON decoder with nil params: limits do NOT apply). Would expose: meta data lost or written to
	// the wrong level, a valid document refused, the limits applied / ignored on the wrong path to the decoder.
	word := func() string {
		n := r.Intn(9)
		b := make([]byte, n)
		for i := range b {
			b[i] = "abcxyz019 -_."[r.Intn(13)]
		}
		return string(b)
	}
	obj := func() string {
		var fs []string
		keys := []string{"a", "b", "k8s_pod", "n", "o"}
		for i := range keys {
			if r.Bool() {
				continue
			}
			switch keys[i] {
			case "n":
				fs = append(fs, fmt.Sprintf(`"n":%d`, r.Intn(1000)))
			case "o":
				fs = append(fs, fmt.Sprintf(`"o":{"a":"%s","l":[1,{"a":"%s"}]}`, word(), word()))
			default:
				fs = append(fs, fmt.Sprintf(`"%s":"%s"`, keys[i], word()))
			}
		}
		return "{" + strings.Join(fs, ",") + "}"
	}
	doc := func() string {
		switch r.Intn(10) {
		case 0:
			return hx.Pick(r, []string{"1", `"s"`, "null", "true", "-1.5e3", "[]", "{}"})
		case 1, 2:
			var xs []string
			for n := r.Intn(4); n > 0; n-- {
				xs = append(xs, hx.Pick(r, []string{obj(), "1", `"s"`, "[" + obj() + "]", "null"}))
			}
			return "[" + strings.Join(xs, ",") + "]"
		case 3:
			d := obj()
			p := r.Intn(len(d))
			return d[:p] + string(`{}[],:"\ 0`[r.Intn(10)]) + d[p+r.Intn(2):]
		}
		return obj()
	}
	for i := 0; i < 120*c.Scale; i++ {
		var items []hx.Sx
		for n := r.Range(3, 8); n > 0; n-- {
			d := doc()
			if r.Chance(1, 2) {
				d += "\n"
			}
			if r.Chance(1, 15) {
				d = hx.Pick(r, []string{"", "\n"})
			}
			items = append(items, jsonItem(d))
		}
		plain := true // the reference cuts by characters: no escapes in a case with limits
		for _, it := range items {
			if strings.Contains(hx.Str(hx.Items(it)[0]), "\\") {
				plain = false
			}
		}
		ps := none
		if plain && r.Chance(2, 3) {
			ps = hx.L(hx.I(2), hx.L(hx.S("a"), hx.I(r.Intn(6))))
			if r.Bool() {
				ps = hx.L(hx.I(2), hx.L(hx.S("a"), hx.I(r.Intn(6))), hx.L(hx.S("b"), hx.I(r.Intn(6))), hx.L(hx.S("zz"), hx.I(0)))
			}
		}
		cfg, sugg := tJSON, []int(nil)
		switch r.Intn(3) {
		case 1:
			cfg, sugg = tAuto, []int{0, tJSON, tCRI}[:r.Range(2, 3)]
		case 2:
			cfg, sugg = tAuto, []int{0, tAuto}[:r.Intn(3)]
		}
		var meta []string
		for n, seen := r.Intn(3), map[string]bool{}; n > 0; n-- {
			if k := hx.Pick(r, []string{"verif_meta", "k8s_pod", "a"}); !seen[k] {
				seen[k] = true
				meta = append(meta, k, hx.Pick(r, []string{"m", "", "longer meta value"}))
			}
		}
		c.Do("pipe-in-json", 51, pipeCase(cfg, sugg, r.Chance(1, 8), meta, ps, items), true)
	}
	// ---- pipe-in-protobuf: well-formed messages (expected JSON + the meta fields) and damaged ones through a pipeline
	for i := 0; i < 40*c.Scale; i++ {
		var items []hx.Sx
		for n := r.Range(2, 5); n > 0; n-- {
			m := randPbMsg(r)
			b := m.bytes(r)
			if r.Chance(1, 4) && len(b) > 0 {
				b[r.Intn(len(b))] ^= byte(1 << r.Intn(8))
				items = append(items, hx.L(hx.B(b), hx.S(""), hx.I(0)))
				continue
			}
			if len(b) == 0 || (len(b) == 1 && b[0] == '\n') {
				continue // not an event for checkInputBytes
			}
			items = append(items, hx.L(hx.B(b), hx.B(m.expect()), hx.I(1)))
		}
		cfg, sugg := tProtobuf, []int(nil)
		if r.Chance(1, 3) {
			cfg, sugg = tAuto, []int{tProtobuf}
		}
		var meta []string
		if r.Bool() {
			meta = []string{"verif_meta", "m"}
		}
		c.Do("pipe-in-protobuf", 51, pipeCase(cfg, sugg, false, meta, hx.L(hx.I(7)), items), true)
	}
}
