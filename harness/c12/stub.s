// Intentionally empty: its presence lets small.go declare the body-less, link-named c12JSONCutKeep.
