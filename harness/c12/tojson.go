package main

// The Root side of decoding (threshold audit items 2, 3, 4).
//
//  which 30+k  DecodeToJson of scanner k (1 postgres, 2 nginx_error, 3 syslog_rfc3164, 4 syslog_rfc5424, 5 csv)
//              case = (item ...), every item a case of `which k`; the items are decoded one after the other into ONE Root,
//              reset with DecodeString("{}") before each, as Pipeline.In does with a pooled event (pipeline.go:492-498)
//              obs  = (obs-item ...), obs-item = (0 ((#name value) ...)) sorted by name | (1 errclass) | (2 #site) | (3)
//                     value = #string | ((#k #v) ...) sorted, the fields of an object (an RFC5424 SD element)
//              Before the Root is read back the line buffer is overwritten (the input re-uses its read buffer as soon as
//              In returns): a value that aliases the line shows up as garbage. Reading back goes through the field list
//              AND through Dig (the map index of objects with more than 16 fields), and the encoded Root must be valid
//              JSON that says the same: an inconsistency is reported as (2 #harness:<what>).
//  which 36    the json decoder against encoding/json: case = ((#doc #extra [noMeta]) ...) on ONE Root,
//              obs-item = (validIn err same validExtra errExtra sameExtra) | (2 #site) | (3); see coq/Model/Decoders/ToJson.v
//
// The model side (coq/Model/Decoders/ToJson.v) derives the expected fields from the row the scanner model computes.

import (
	"bytes"
	"encoding/json"
	"fmt"
	"os"
	"path/filepath"
	"reflect"
	"sort"
	"strings"
	"unicode/utf8"

	"github.com/ozontech/file.d/decoder"
	insaneJSON "github.com/ozontech/insane-json"

	"verif/harness/hmain"
	"verif/harness/hx"
)

// the decoder, the line and the error classifier of one `which k` case (the same cached decoders as execScan)
func scanParts(k int, cs hx.Sx) (d decoder.Decoder, data []byte, enum func(error) int) {
	switch k {
	case 1:
		return nil, hx.Bytes(cs), func(e error) int { return msgEnum(e, pgErrs) }
	case 2:
		it := hx.Items(cs)
		wc := hx.Truth(it[0])
		d = getDec(fmt.Sprintf("nginx-%v", wc), func() (decoder.Decoder, error) {
			return newByName("nginx_error", decoder.Params{"nginx_with_custom_fields": wc})
		})
		return d, hx.Bytes(it[1]), func(e error) int { return msgEnum(e, nginxErrs) }
	case 3, 4:
		it := hx.Items(cs)
		ff, sf := hx.Truth(it[0]), hx.Truth(it[1])
		params := decoder.Params{"syslog_facility_format": fmtName(ff), "syslog_severity_format": fmtName(sf)}
		if k == 3 {
			d = getDec(fmt.Sprintf("s3164-%v-%v", ff, sf), func() (decoder.Decoder, error) { return newByName("syslog_rfc3164", params) })
		} else {
			d = getDec(fmt.Sprintf("s5424-%v-%v", ff, sf), func() (decoder.Decoder, error) { return newByName("syslog_rfc5424", params) })
		}
		return d, hx.Bytes(it[2]), syslogEnum
	case 5:
		it := hx.Items(cs)
		return csvDec(it), hx.Bytes(it[3]), func(e error) int { return msgEnum(e, csvErrs) }
	}
	panic("c12: no DecodeToJson for this scanner")
}

// the family of a proposed finding is emitted only once the coordinator has listed its id
func knownListed(id string) bool {
	if os.Getenv("C12_ASSUME_LISTED") != "" { // development aid: behave as if the finding were already listed
		return true
	}
	exe, _ := os.Executable()
	kf, err := os.ReadFile(filepath.Join(filepath.Dir(filepath.Dir(exe)), "known_findings.json"))
	return err == nil && bytes.Contains(kf, []byte(id))
}

func harnessBad(what string) hx.Sx { return hx.L(hx.I(2), hx.S("harness:"+what)) }

// the fields of an object node as (name, value) pairs sorted by name, read through the field list and checked against Dig
func readObject(obj *insaneJSON.Node, nested bool) (hx.Sx, map[string]any, string) {
	type ent struct {
		name string
		v    hx.Sx
	}
	var ents []ent
	plain := map[string]any{}
	for _, f := range obj.AsFields() {
		name := f.AsString()
		if _, dup := plain[name]; dup {
			return nil, nil, "duplicate-field"
		}
		val := f.AsFieldValue()
		if obj.Dig(name) != val {
			return nil, nil, "dig-differs-from-field-list"
		}
		switch {
		case val.IsString():
			s := string(append([]byte(nil), val.AsString()...))
			ents = append(ents, ent{name, hx.S(s)})
			plain[name] = s
		case val.IsObject() && !nested:
			sub, subPlain, bad := readObject(val, true)
			if bad != "" {
				return nil, nil, bad
			}
			ents = append(ents, ent{name, sub})
			plain[name] = subPlain
		default:
			return nil, nil, "unexpected-node-type"
		}
	}
	sort.Slice(ents, func(i, j int) bool { return ents[i].name < ents[j].name })
	out := make([]hx.Sx, len(ents))
	for i, e := range ents {
		out[i] = hx.L(hx.S(e.name), e.v)
	}
	return hx.L(out...), plain, ""
}

func allValidUTF8(m map[string]any) bool {
	for k, v := range m {
		if !utf8.ValidString(k) {
			return false
		}
		switch x := v.(type) {
		case string:
			if !utf8.ValidString(x) {
				return false
			}
		case map[string]any:
			if !allValidUTF8(x) {
				return false
			}
		}
	}
	return true
}

func toJSONOne(k int, root *insaneJSON.Root, item hx.Sx) hx.Sx {
	d, data, enum := scanParts(k, item)
	return framed(data, func(line []byte) hx.Sx {
		_ = root.DecodeString("{}")
		var err error
		if caughtFatal(func() {
			if k == 1 {
				err = decoder.DecodePostgresToJson(root, line)
			} else {
				err = d.DecodeToJson(root, line)
			}
		}) {
			return errObs(5) // csv invalid_line_mode=fatal
		}
		if err != nil {
			return errObs(enum(err))
		}
		for i := range line { // the input owns the line again
			line[i] = 0xEE
		}
		fields, plain, bad := readObject(root.Node, false)
		if bad != "" {
			return harnessBad(bad)
		}
		enc := root.EncodeToString()
		if !json.Valid([]byte(enc)) {
			return harnessBad("encoded-root-is-not-valid-json")
		}
		if allValidUTF8(plain) {
			var back map[string]any
			if json.Unmarshal([]byte(enc), &back) != nil || !reflect.DeepEqual(back, plain) {
				return harnessBad("encoded-root-differs-from-its-fields")
			}
		}
		return hx.L(hx.I(0), fields)
	})
}

// The Root of a pooled pipeline event: born with the production pool of 16 nodes (Spawn may hand out a recycled decoder
// whose pool an earlier case has grown: ReleasePoolMem brings it back to StartNodePoolSize), and between two events
// eventPool.resetEvent (pipeline/event.go:414) keeps a pool of up to 64 nodes and re-creates a bigger one.
func bornRoot() *insaneJSON.Root {
	root := insaneJSON.Spawn()
	root.ReleasePoolMem()
	return root
}

func betweenEvents(root *insaneJSON.Root) {
	if root.PoolSize() > 16*4 {
		root.ReleasePoolMem()
	}
}

func execToJSON(k int, cs hx.Sx) hx.Sx {
	root := bornRoot()
	defer insaneJSON.Release(root)
	var out []hx.Sx
	for i, item := range hx.Items(cs) {
		if i > 0 {
			betweenEvents(root)
		}
		o := toJSONOne(k, root, item)
		out = append(out, o)
		if isPanicObs(o) {
			break // the Root is in an unknown state
		}
	}
	return hx.L(out...)
}

// ---- which 36 ------------------------------------------------------------------------------------

func semEq(a, b []byte) bool {
	var x, y any
	da := json.NewDecoder(bytes.NewReader(a))
	da.UseNumber()
	db := json.NewDecoder(bytes.NewReader(b))
	db.UseNumber()
	if da.Decode(&x) != nil || db.Decode(&y) != nil {
		return false
	}
	return reflect.DeepEqual(x, y)
}

// doc with the field "verif_meta":"m" set, by encoding/json (nil: doc is not an object)
func withMeta(doc []byte) []byte {
	var x any
	dd := json.NewDecoder(bytes.NewReader(doc))
	dd.UseNumber()
	if dd.Decode(&x) != nil {
		return nil
	}
	m, ok := x.(map[string]any)
	if !ok {
		return nil
	}
	m["verif_meta"] = "m"
	out, err := json.Marshal(m)
	if err != nil {
		return nil
	}
	return out
}

func execJSONRoundTrip(cs hx.Sx) hx.Sx {
	d := getDec("json-plain", func() (decoder.Decoder, error) { return newByName("json", decoder.Params{}) })
	root := bornRoot()
	defer insaneJSON.Release(root)
	var out []hx.Sx
	for i, item := range hx.Items(cs) {
		if i > 0 {
			betweenEvents(root)
		}
		it := hx.Items(item)
		doc, extra := hx.Bytes(it[0]), hx.Bytes(it[1])
		noMeta := len(it) > 2 && hx.Truth(it[2]) // Pipeline.In adds meta fields only when the input supplies some
		orig := append([]byte(nil), doc...)
		o := framed(doc, func(line []byte) hx.Sx {
			vin := json.Valid(line)
			if err := d.DecodeToJson(root, line); err != nil {
				return hx.L(hx.Bool(vin), hx.I(1), hx.I(0), hx.I(0), hx.I(0), hx.I(0))
			}
			for i := range line { // the input owns the line again
				line[i] = 0xEE
			}
			want := orig
			same := vin && semEq(want, []byte(root.EncodeToString()))
			if vin && root.IsObject() && !noMeta { // Pipeline.In adds the meta fields to a decoded object
				root.AddFieldNoAlloc(root, "verif_meta").MutateToString("m")
				want = withMeta(orig)
				same = same && want != nil && root.Dig("verif_meta").AsString() == "m" && semEq(want, []byte(root.EncodeToString()))
			}
			xin, xerr, xsame := false, false, false
			if len(extra) > 0 {
				xin = json.Valid(extra)
				xcopy := append([]byte(nil), extra...)
				res, err := d.Decode(xcopy, root)
				for i := range xcopy {
					xcopy[i] = 0xEE
				}
				if err != nil {
					xerr = true
				} else if node, ok := res.(*insaneJSON.Node); ok && node != nil {
					xsame = xin && semEq(extra, node.EncodeToByte()) && vin && semEq(want, []byte(root.EncodeToString()))
				}
				// a later action adds a field to the event (add_host, set_time, ...): the Root must still be usable
				if err == nil && vin && root.IsObject() {
					root.AddFieldNoAlloc(root, "verif_after").MutateToString("a")
					xsame = xsame && root.Dig("verif_after").AsString() == "a" && json.Valid([]byte(root.EncodeToString()))
				}
			}
			return hx.L(hx.Bool(vin), hx.I(0), hx.Bool(same), hx.Bool(xin), hx.Bool(xerr), hx.Bool(xsame))
		})
		out = append(out, o)
		if isPanicObs(o) {
			break
		}
	}
	return hx.L(out...)
}

// ---- generators ------------------------------------------------------------------------------------

func genToJSON(c *hmain.Ctx) {
	r := c.R
	items := func(xs ...hx.Sx) hx.Sx { return hx.L(xs...) }
	csvItem := func(ncols int, cont bool, line string) hx.Sx {
		return hx.L(hx.I(','), hx.I(ncols), hx.Bool(cont), hx.S(line))
	}
	csvLine := func(n int, tag string) string {
		fs := make([]string, n)
		for i := range fs {
			switch (i + len(tag)) % 5 {
			case 0:
				fs[i] = fmt.Sprintf(`"%s ""%d"", x"`, tag, i)
			case 1:
				fs[i] = ""
			default:
				fs[i] = fmt.Sprintf("%s%d", tag, i)
			}
		}
		return strings.Join(fs, ",")
	}
	// ---- tojson-csv-wide: 1..70 and 120..132 columns (2 nodes per field: the Root's node pool of 16 grows to 32, 64, 128,
	// 256 inside the AddFieldNoAlloc loop of csv.go:117-119; from the 17th column on AddFieldNoAlloc's own Dig goes
	// through the map index), generated names and configured names; then wide / narrow / wide on ONE Root (the map of the
	// previous wide event is re-used, insane.go:736-744). Would expose: a column lost or doubled at a pool / map boundary,
	// a stale map entry answering for a column of the previous line, values aliasing the line buffer.
	var widths []int
	for n := 1; n <= 70; n++ {
		widths = append(widths, n)
	}
	for n := 120; n <= 132; n++ {
		widths = append(widths, n)
	}
	for _, n := range widths {
		c.W.Count("tojson_csv_columns_" + bucket(n))
		c.Do("tojson-csv-wide", 35, items(csvItem(0, false, csvLine(n, "v"))), true)
		c.Do("tojson-csv-wide", 35, items(csvItem(n, false, csvLine(n, "w")+"\r\n")), true)
		// half of the names configured, the other half generated from the `prefix` option ("c": the generated name c<i>
		// of a late column equals the configured name of an early one only if i < ncols, which cannot be)
		c.Do("tojson-csv-wide", 35, items(hx.L(hx.I(','), hx.I(n/2), hx.I(0), hx.S(csvLine(n, "p")), hx.S([]string{"csv_", "c", ""}[n%3]))), true)
		if n >= 14 && n <= 40 {
			c.Do("tojson-csv-wide", 35, items(csvItem(0, false, csvLine(n, "a")), csvItem(0, false, csvLine(3, "b")), csvItem(0, false, csvLine(n+1, "c")),
				csvItem(0, false, csvLine(16, "d")), csvItem(0, false, csvLine(17, "e"))), true)
			c.Do("tojson-csv-wide", 35, items(csvItem(n, true, csvLine(n+2, "a")), csvItem(n, true, csvLine(2, "b")), csvItem(n, true, csvLine(n, "c"))), true)
		}
	}
	// ---- tojson-rfc5424-sd: 1..9 SD elements (the Root passes 16 fields with 7 of them) x 1..2 params, and 1..2 elements
	// with 15..18 and 33 params (the element's object passes 16 fields inside the param loop of syslog.go:220-226);
	// element ids that are field names (message, priority, hostname): the later write wins. Wide / narrow / wide.
	// Would expose: a param or element lost / doubled when its object crosses 16 fields, an element written under the name
	// of the previous line's element (stale map index after the re-decode), an SD element that no longer replaces a
	// header field of the same name, an element with no params turning up as an empty object.
	sdLine := func(ne, np int, ids []string) string {
		var b strings.Builder
		b.WriteString(`<165>1 2003-10-11T22:14:15.003Z host app 10 ID47 `)
		for e := 0; e < ne; e++ {
			id := fmt.Sprintf("id%d@1", e)
			if e < len(ids) {
				id = ids[e]
			}
			b.WriteString("[" + id)
			for p := 0; p < np; p++ {
				fmt.Fprintf(&b, ` p%d="v%d.%d"`, p, e, p)
			}
			b.WriteString("]")
		}
		b.WriteString(" msg")
		return b.String()
	}
	sItem := func(ff, sf bool, line string) hx.Sx { return hx.L(hx.Bool(ff), hx.Bool(sf), hx.S(line)) }
	for ne := 1; ne <= 9; ne++ {
		for np := 0; np <= 2; np++ {
			c.W.Count(fmt.Sprintf("tojson_sd_elements_%d", ne))
			c.Do("tojson-rfc5424-sd", 34, items(sItem(ne%2 == 0, np == 1, sdLine(ne, np, nil))), true)
		}
	}
	for _, np := range []int{15, 16, 17, 18, 33} {
		for ne := 1; ne <= 2; ne++ {
			c.W.Count(fmt.Sprintf("tojson_sd_params_%d", np))
			c.Do("tojson-rfc5424-sd", 34, items(sItem(false, false, sdLine(ne, np, nil))), true)
			c.Do("tojson-rfc5424-sd", 34, items(sItem(true, true, sdLine(ne, np, nil)), sItem(true, true, sdLine(1, 1, nil)), sItem(true, true, sdLine(8, 2, nil)),
				sItem(true, true, sdLine(ne, np+1, nil))), true)
		}
	}
	for _, ids := range [][]string{{"message"}, {"priority", "hostname"}, {"message", "message_id", "x"}, {"timestamp", "a", "b", "c", "d", "e", "f", "facility"}} {
		for np := 0; np <= 2; np++ {
			c.Do("tojson-rfc5424-sd", 34, items(sItem(false, true, sdLine(len(ids), np, ids))), true)
		}
	}
	// ---- tojson-nginx-fields: 0..20 custom `key: value` pairs (the Root passes 16 fields with 11 of them, nginx.go:82-84),
	// keys that are field names (time, message, cid). Wide / narrow / wide. Would expose: a custom field lost or doubled at
	// the 16-field boundary, a value that still points into the input line (MutateToBytes instead of MutateToBytesCopy).
	ngLine := func(nf int, keys []string) string {
		var b strings.Builder
		b.WriteString("2022/08/18 09:29:37 [error] 844935#844935: *44934601 upstream timed out (110: Operation timed out)")
		for i := 0; i < nf; i++ {
			key := "k" + string(rune('a'+i/26)) + string(rune('a'+i%26))
			if i < len(keys) {
				key = keys[i]
			}
			if i%3 == 0 {
				fmt.Fprintf(&b, `, %s: "v %d"`, key, i)
			} else {
				fmt.Fprintf(&b, `, %s: v%d`, key, i)
			}
		}
		return b.String()
	}
	nItem := func(wc bool, line string) hx.Sx { return hx.L(hx.Bool(wc), hx.S(line)) }
	for nf := 0; nf <= 20; nf++ {
		c.W.Count("tojson_nginx_custom_fields_" + bucket(nf+6))
		c.Do("tojson-nginx-fields", 32, items(nItem(true, ngLine(nf, nil))), true)
		c.Do("tojson-nginx-fields", 32, items(nItem(true, ngLine(nf, nil)), nItem(true, ngLine(1, nil)), nItem(false, ngLine(nf, nil)), nItem(true, ngLine(nf+1, []string{"time", "message", "cid", "level"}))), true)
	}
	// ---- tojson-<decoder>: canonical valid lines and damaged ones (as in the damaged-* streams), 1..4 lines on one Root.
	// Would expose: DecodeToJson and Decode disagreeing on a line (a field skipped, renamed, taken from the wrong row
	// member), fields of the previous line surviving the reset, a value aliasing the line buffer.
	valids := map[int][]string{1: pgValid, 2: ngValid, 3: s3Valid, 4: s5Valid, 5: csvValid}
	delims := map[int]string{1: " []=,", 2: " []#:*,\"\n", 3: "<>[]: \n19", 4: "<>[]=\"\\ -\n1Z.:+", 5: ",\"\r\n ;"}
	names := map[int]string{1: "postgres", 2: "nginx", 3: "rfc3164", 4: "rfc5424", 5: "csv"}
	wrapK := func(k int, d []byte) hx.Sx {
		switch k {
		case 2:
			return hx.L(hx.Bool(r.Bool()), hx.B(d))
		case 3, 4:
			return hx.L(hx.Bool(r.Bool()), hx.Bool(r.Bool()), hx.B(d))
		case 5:
			if r.Bool() { // the `prefix` option names the columns beyond the configured ones
				return hx.L(hx.I(','), hx.I([]int{0, 0, 3, 4}[r.Intn(4)]), hx.I(r.Intn(4)), hx.B(d), hx.S(hx.Pick(r, []string{"", "csv_", "c", "0"})))
			}
			return hx.L(hx.I(','), hx.I([]int{0, 0, 3, 4}[r.Intn(4)]), hx.I(r.Intn(4)), hx.B(d))
		}
		return hx.B(d)
	}
	damage := func(k int, b []byte) []byte {
		b = append([]byte(nil), b...)
		if r.Chance(1, 3) {
			return b
		}
		for n := r.Intn(3); n > 0 && len(b) > 0; n-- {
			p := r.Intn(len(b))
			alpha := delims[k]
			switch r.Intn(4) {
			case 0:
				b = append(b[:p], b[p+1:]...)
			case 1:
				b = append(b[:p+1], b[p:]...)
			case 2:
				b[p] = alpha[r.Intn(len(alpha))]
			default:
				b = append(b[:p], append([]byte{alpha[r.Intn(len(alpha))]}, b[p:]...)...)
			}
		}
		return b
	}
	for k := 1; k <= 5; k++ {
		for i := 0; i < 1200*c.Scale; i++ {
			var its []hx.Sx
			for j, n := 0, r.Range(1, 4); j < n; j++ {
				its = append(its, wrapK(k, damage(k, []byte(hx.Pick(r, valids[k])))))
			}
			c.Do("tojson-"+names[k], 30+k, hx.L(its...), true)
		}
	}

	// ---- exhaustive-<syslog>-pri: <0> .. <999> and the malformed spellings, x the four facility / severity format
	// combinations, through Decode (which 3 / 4) and through DecodeToJson (which 33 / 34). syslogMaxPriority = 191
	// (syslog.go:27,85,89); p/8 and p%8 index the 24 / 8 names of syslog.go:96-187 (so far only PRI 34, 4, 191, 165, 1
	// and the tokens <1> <11> <111> occurred). Would expose: an off-by-one at 191 / 192, a wrong or missing facility
	// name, a name table indexed by the wrong quotient.
	var pris []string
	for p := 0; p <= 999; p++ {
		pris = append(pris, fmt.Sprintf("%d", p))
	}
	pris = append(pris, "", "00", "000", "007", "0191", "1000", "01", "-1", "+1", "1a", "a", " 1", "1 ", "19\x00", "٣")
	for _, pri := range pris {
		for f := 0; f < 4; f++ {
			ff, sf := f&1 == 1, f&2 == 2
			l3 := "<" + pri + ">Oct 11 22:14:15 host app[10]: m"
			l5 := "<" + pri + ">1 2003-10-11T22:14:15.003Z host app 10 ID47 - m"
			c.Do("exhaustive-rfc3164-pri", 3, sItem(ff, sf, l3), true)
			c.Do("exhaustive-rfc5424-pri", 4, sItem(ff, sf, l5), true)
			if f == 3 || f == 0 {
				c.Do("exhaustive-rfc3164-pri", 33, items(sItem(ff, sf, l3)), true)
				c.Do("exhaustive-rfc5424-pri", 34, items(sItem(ff, sf, l5)), true)
			}
		}
	}
	// ---- sweep-<syslog>-timestamp: every field of the timestamp at and beyond its range check
	// (syslog_rfc5424.go:213,217,244: month 1..12, day 1..31, hour 0..23, minute / second 0..59, zone 0..23:0..59, at most
	// 6 fraction digits; syslog_rfc3164.go:159: 0..23, 0..59, 0..59), one field at a time and the fraction x zone product.
	// So far the timestamp was fixed (2003-10-11T22:14:15) and the damage alphabet had the one digit 1.
	// Would expose: a range check moved by one (month 0 or 13, day 0 or 32, hour 24, minute / second 60, zone 24:00 or
	// xx:60), a seventh fraction digit accepted, a field read at the wrong offset.
	two := []string{"00", "01", "09", "10", "12", "13", "19", "23", "24", "29", "30", "31", "32", "59", "60", "61", "99", "1a", "a1", " 1", "1 ", "-1", "+1", "1"}
	ts5 := func(y, mo, d, h, mi, s, rest string) string { return y + "-" + mo + "-" + d + "T" + h + ":" + mi + ":" + s + rest }
	emit5 := func(ts string) {
		line := "<34>1 " + ts + " host app - - - m"
		c.Do("sweep-rfc5424-timestamp", 4, sItem(false, false, line), true)
		c.Do("sweep-rfc5424-timestamp", 34, items(sItem(true, false, line)), true)
	}
	for _, v := range two {
		emit5(ts5("2003", v, "11", "22", "14", "15", "Z"))
		emit5(ts5("2003", "10", v, "22", "14", "15", "Z"))
		emit5(ts5("2003", "10", "11", v, "14", "15", "Z"))
		emit5(ts5("2003", "10", "11", "22", v, "15", "Z"))
		emit5(ts5("2003", "10", "11", "22", "14", v, "Z"))
		emit5(ts5("2003", "10", "11", "22", "14", "15", "+"+v+":00"))
		emit5(ts5("2003", "10", "11", "22", "14", "15", "-07:"+v))
	}
	for _, y := range []string{"0000", "9999", "999", "10000", "20a3", "-001", "+200"} {
		emit5(ts5(y, "10", "11", "22", "14", "15", "Z"))
	}
	fracs := []string{"", ".", ".1", ".12", ".123456", ".1234567", ".12345678", ".a", ".1a", "1", ","}
	zones := []string{"Z", "z", "", "+00:00", "-23:59", "+24:00", "+23:60", "+0700", "+07:0", "+07:00x", "Zx", "+7:00", " 07:00", "+07-00", "T"}
	for _, f := range fracs {
		for _, z := range zones {
			emit5(ts5("2003", "10", "11", "22", "14", "15", f+z))
		}
	}
	emit3 := func(ts string) {
		line := "<34>" + ts + "host app[10]: m"
		c.Do("sweep-rfc3164-timestamp", 3, sItem(false, false, line), true)
		c.Do("sweep-rfc3164-timestamp", 33, items(sItem(false, true, line)), true)
	}
	for _, v := range two {
		emit3("Oct " + v + " 22:14:15 ")
		emit3("Oct 11 " + v + ":14:15 ")
		emit3("Oct 11 22:" + v + ":15 ")
		emit3("Oct 11 22:14:" + v + " ")
	}
	for _, m := range []string{"Oct", "oct", "OCt", "OcT", "O1t", "Oc", "@ct", "[ct", "Azz", "Zaa", "A`a", "Aa{", "Ocx", "Éct"} {
		emit3(m + " 11 22:14:15 ")
	}
	for _, tail := range []string{"Oct 11 22:14:15", "Oct 11 22:14:15  ", "Oct 11 22:14:15\t", "Oct  1 22:14:15 ", "Oct 1  22:14:15 ", "Oct 11 22-14:15 ", "Oct 11 22:14-15 ", "Oct-11 22:14:15 ", "Oct 11-22:14:15 "} {
		emit3(tail)
	}
	// ---- exhaustive-rfc5424-sd-valid: structured data that is ACCEPTED. The older 'exhaustive-rfc5424-sd' allows 5 (6)
	// tokens but the shortest accepted element `[id a=""]` needs 8, so every one of its cases ended in an error: here every
	// truncation of a valid SD part is followed by every sequence of up to 3 SD tokens and a message. Would expose: a slip in
	// the accepting paths of parseStructuredData (escaped quote / backslash inside a value, a second element, a second
	// param, the offset handed back for the message) that the error-only enumeration cannot see.
	sdValid := `[a b="c"][d e="f\"g" h="i\\"] m`
	sdTokens := []string{"[", "]", " ", "=", "\"", "\\", "a", "id"}
	sdN := 3
	if c.Tier == "thorough" {
		sdN = 4
	}
	for cut := 0; cut <= len(sdValid); cut++ {
		enum(sdTokens, sdN, []byte("<1>1 - - - - - "+sdValid[:cut]), func(b []byte) {
			c.Do("exhaustive-rfc5424-sd-valid", 4, sItem(false, false, string(b)), true)
		})
	}
	for cut := 0; cut <= len(sdValid); cut++ {
		enum(sdTokens, 1, []byte("<1>1 - - - - - "+sdValid[:cut]), func(b []byte) {
			c.Do("exhaustive-rfc5424-sd-valid", 34, items(sItem(false, false, string(b))), true)
		})
	}

	genJSONRoundTrip(c)
}

func bucket(n int) string {
	switch {
	case n <= 15:
		return "<=15"
	case n == 16:
		return "16"
	case n == 17:
		return "17"
	case n <= 32:
		return "18..32"
	case n <= 64:
		return "33..64"
	}
	return ">64"
}

// ---- which 36: documents ------------------------------------------------------------------------

func genJSONRoundTrip(c *hmain.Ctx) {
	r := c.R
	// Finding C13-additional-scalar-full-node-pool (insane-json: an additionally decoded bare scalar takes the last slot of
	// the node pool, the next AddField indexes past it) is reachable through decoder/json.go:74 as well: a case whose trial
	// run panics after the additional decode of a bare scalar belongs to that family. It goes to the stream
	// 'json-additional-scalar-full-pool', emitted only once the id C12-json-additional-scalar-full-pool is listed in
	// known_findings.json (notes/finding-C12-json-additional-scalar-full-pool.md); any other panic is emitted as it is.
	listed := knownListed("C12-json-additional-scalar-full-pool")
	rtItems := func(stream string, its []hx.Sx) {
		cs := hx.L(its...)
		if trial := hx.Items(c.Prop.Exec(36, cs)); len(trial) > 0 && isPanicObs(trial[len(trial)-1]) {
			extra := bytes.TrimSpace(hx.Bytes(hx.Items(its[len(trial)-1])[1]))
			site := hx.Str(hx.Items(trial[len(trial)-1])[1])
			if len(extra) > 0 && extra[0] != '{' && extra[0] != '[' && strings.Contains(site, "index-range") {
				if !listed {
					c.W.Count("skipped_additional_scalar_full_pool(finding_not_listed_yet)")
					return
				}
				stream = "json-additional-scalar-full-pool"
			}
		}
		c.Do(stream, 36, cs, true)
	}
	rt := func(stream string, pairs ...string) {
		var its []hx.Sx
		for i := 0; i+1 < len(pairs); i += 2 {
			its = append(its, hx.L(hx.S(pairs[i]), hx.S(pairs[i+1])))
		}
		rtItems(stream, its)
	}
	rtNoMeta := func(stream string, pairs ...string) {
		var its []hx.Sx
		for i := 0; i+1 < len(pairs); i += 2 {
			its = append(its, hx.L(hx.S(pairs[i]), hx.S(pairs[i+1]), hx.I(1)))
		}
		rtItems(stream, its)
	}
	flat := func(k int, tag string) string {
		var b strings.Builder
		b.WriteString("{")
		for i := 0; i < k; i++ {
			if i > 0 {
				b.WriteString(",")
			}
			switch i % 4 {
			case 0:
				fmt.Fprintf(&b, `"%s%d":%d`, tag, i, i)
			case 1:
				fmt.Fprintf(&b, `"%s%d":"s%d"`, tag, i, i)
			case 2:
				fmt.Fprintf(&b, `"%s%d":true`, tag, i)
			default:
				fmt.Fprintf(&b, `"%s%d":null`, tag, i)
			}
		}
		b.WriteString("}")
		return b.String()
	}
	arr := func(k int) string {
		xs := make([]string, k)
		for i := range xs {
			xs[i] = fmt.Sprintf("%d", i)
		}
		return "[" + strings.Join(xs, ",") + "]"
	}
	// ---- json-roundtrip-nodes: the production node pool of 16 (cmd/file.d/file.d.go:97; the library default of 128 was in
	// force so far) and documents of every size around its growth points: flat objects of 0..70 and 120..132 fields (2
	// nodes per field + 2), arrays of 0..70 and 120..132 numbers (1 node per element + 2), the same nested one level down;
	// after the decode a field is added (Pipeline.In's meta fields: getNode right after the decode, insane.go:817) and a
	// second document (a scalar, an object, an array) is decoded additionally into the same Root (jsonDecoder.Decode ->
	// DecodeBytesAdditional, what the json_decode action does). Then a narrow document on the same Root, then the wide
	// one again. Would expose: a node-pool growth check that is off by one at 16 / 32 / 64 / 128 (index out of range, or a
	// node shared by two values), a stale field map, an additional decode that overwrites nodes of the first document.
	var sizes []int
	for n := 0; n <= 70; n++ {
		sizes = append(sizes, n)
	}
	for n := 120; n <= 132; n++ {
		sizes = append(sizes, n)
	}
	extras := []string{"1", `"s"`, "{}", "[]", `{"a":1,"b":[1,2]}`, "[1,2,3]", "null"}
	for _, n := range sizes {
		c.W.Count("json_roundtrip_fields_" + bucket(n))
		e := extras[n%len(extras)]
		rt("json-roundtrip-nodes", flat(n, "f"), e)
		rt("json-roundtrip-nodes", arr(n), e)
		rt("json-roundtrip-nodes", `{"o":`+flat(n, "g")+`,"a":`+arr(n%9)+`}`, extras[(n+3)%len(extras)])
		rt("json-roundtrip-nodes", flat(n, "f"), "", flat(2, "h"), e, flat(n+1, "f"), extras[(n+1)%len(extras)], flat(n, "k"), "")
		// without the meta field (its getNode would grow the pool), even and odd node counts, every kind of second document
		odd := strings.TrimSuffix(flat(n, "f"), "}") + map[bool]string{true: `"q":[]}`, false: `,"q":[]}`}[n == 0]
		for _, x := range extras {
			rtNoMeta("json-roundtrip-nodes", flat(n, "f"), x)
			rtNoMeta("json-roundtrip-nodes", odd, x)
		}
		rtNoMeta("json-roundtrip-nodes", odd, " 7 ", flat(n, "g"), `"s"`, odd, "true")
	}
	// ---- json-roundtrip-random: valid documents of every shape (all literal kinds, numbers with exponents and signs,
	// escapes, UTF-8, empty and duplicate keys, white space, nesting to depth 6) and light damage (mostly invalid).
	// Would expose: a valid document refused or changed by decode + encode (a literal, an exponent, an escape, an empty key,
	// white space before a comma), a crash on a damaged one, the second document corrupting the first.
	var gen func(depth int) string
	strs := []string{`""`, `"a"`, `"é"`, `"é"`, `"😀"`, `"a\"b\\c\/d\b\f\n\r\t"`, `"\u0000"`, `" "`, `"日本語"`, `"\ud800"`, `"{}[],:"`, `"` + strings.Repeat("x", 300) + `"`}
	nums := []string{"0", "-0", "1", "-1", "12345678901234567890", "1.5", "-1.5e10", "1E-2", "1e+2", "0.0", "1e400", "123456789012345678"}
	ws := func() string { return hx.Pick(r, []string{"", "", "", " ", "\n", "\t", "\r\n", "  "}) }
	gen = func(depth int) string {
		k := r.Intn(10)
		if depth <= 0 && k >= 6 {
			k = r.Intn(6)
		}
		switch k {
		case 0:
			return hx.Pick(r, []string{"true", "false", "null"})
		case 1, 2:
			return hx.Pick(r, nums)
		case 3, 4, 5:
			return hx.Pick(r, strs)
		case 6, 7:
			n := r.Intn(5)
			if r.Chance(1, 12) {
				n = r.Range(14, 20)
			}
			xs := make([]string, n)
			for i := range xs {
				xs[i] = ws() + gen(depth-1) + ws()
			}
			return "[" + ws() + strings.Join(xs, ",") + "]"
		default:
			n := r.Intn(5)
			if r.Chance(1, 12) {
				n = r.Range(14, 20)
			}
			xs := make([]string, n)
			for i := range xs {
				key := hx.Pick(r, []string{`"a"`, `"b"`, `"c"`, `""`, `"é"`, `"a\"b"`, `"k` + fmt.Sprint(i) + `"`, `"a"`})
				xs[i] = ws() + key + ws() + ":" + ws() + gen(depth-1) + ws()
			}
			return "{" + ws() + strings.Join(xs, ",") + "}"
		}
	}
	for i := 0; i < 4000*c.Scale; i++ {
		var pairs []string
		for j, n := 0, r.Range(1, 3); j < n; j++ {
			doc := ws() + gen(r.Range(1, 6)) + ws()
			if r.Chance(1, 8) && len(doc) > 0 { // damage: mostly invalid
				p := r.Intn(len(doc))
				const dmg = `{}[],:"\ 0e-tn`
				doc = doc[:p] + string(dmg[r.Intn(len(dmg))]) + doc[p+r.Intn(2):]
			}
			extra := ""
			if r.Chance(1, 3) {
				extra = gen(r.Range(0, 2))
			}
			pairs = append(pairs, doc, extra)
		}
		rt("json-roundtrip-random", pairs...)
	}
	// ---- json-roundtrip-deep: nesting 10 .. 10001 (encoding/json stops at 10000: deeper is "not valid", anything but a
	// crash will do); gjson.ValidBytes (json.go:78) is recursive and so far never went deeper than 2 - see json-cut-deep.
	// Would expose: a depth limit or a stack / pool exhaustion in the decoder on deeply nested (valid) input.
	for _, d := range []int{10, 100, 1000, 5000, 9999, 10000, 10001} {
		if d > 1000 && c.Scale == 1 && d != 10001 {
			continue
		}
		rt("json-roundtrip-deep", strings.Repeat("[", d)+strings.Repeat("]", d), "1")
		rt("json-roundtrip-deep", strings.Repeat(`{"a":`, d)+"1"+strings.Repeat("}", d), "")
	}
}
