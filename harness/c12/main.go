package main

// C12 — decoders are total and faithful. Runs the REAL scanners of /repo/decoder on every case and
// records a canonical observable:  (0 fields) | (1 errclass) | (2 #panic-site) | (3) caller's buffer
// altered outside the line.
//
//  which  decoder                     case
//  0      DecodeCRI                   #data
//  1      DecodePostgres              #data
//  2      nginx_error Decode          (withCustomFields #data)
//  3      syslog_rfc3164 Decode       (facilityAsString severityAsString #data)
//  4      syslog_rfc5424 Decode       (facilityAsString severityAsString #data)
//  5      csv Decode+CheckInvalidLine (delimiter ncolumns continueMode #data)
//  10+k   same decoder as k, same case; the model side only checks totality (non-ASCII inputs)
//  20     CRI line assembled from     (#time #stream #tag #log)
//  21     postgres line from          (14 fields, see pgLine)
//  25     csv line from               (delimiter (#field ...))
//  30+k   DecodeToJson of scanner k   (case-of-k ...) on one Root, see tojson.go
//  36     json decoder vs encoding/json ((#doc #extra) ...) on one Root, see tojson.go
//  7      json cutFieldsBySize        (#path limit #data)
//         obs = (validIn validOut (0 #out)|(2 #site) (index strlen valid exists isString))

import (
	"bytes"
	"encoding/json"
	"errors"
	"fmt"
	"sort"
	"strings"

	"github.com/ozontech/file.d/decoder"
	"github.com/ozontech/file.d/logger"
	insaneJSON "github.com/ozontech/insane-json"

	"verif/harness/hmain"
	"verif/harness/hx"
)

// ---- running one decoder inside a guarded buffer -------------------------------------------------

const pad = 8

func framed(data []byte, f func(line []byte) hx.Sx) hx.Sx {
	buf := make([]byte, pad+len(data)+pad)
	for i := 0; i < pad; i++ {
		buf[i] = 0xA5
		buf[pad+len(data)+i] = 0x5A
	}
	copy(buf[pad:], data)
	line := buf[pad : pad+len(data)] // capacity reaches into the suffix, as a read buffer's would
	var out hx.Sx
	if p := hx.Catch(func() { out = f(line) }); p != "" {
		return hx.L(hx.I(2), hx.S(p))
	}
	for i := 0; i < pad; i++ {
		if buf[i] != 0xA5 || buf[pad+len(data)+i] != 0x5A {
			return hx.L(hx.I(3))
		}
	}
	return out
}

func okObs(fields ...hx.Sx) hx.Sx { return hx.L(hx.I(0), hx.L(fields...)) }
func errObs(e int) hx.Sx          { return hx.L(hx.I(1), hx.I(e)) }

func msgEnum(err error, table []string) int {
	m := err.Error()
	for i, t := range table {
		if strings.Contains(m, t) {
			return i + 1
		}
	}
	return 99
}

var (
	criErrs = []string{"timestamp is not found", "stream type is not found", "log tag is not found", "log tag is empty"}
	pgErrs  = []string{"timestamp is not found", "pid is not found", "pid message number start", "pid message number end",
		"client start", "client end", "db start", "db end", "user start", "user end", "log is not found"}
	nginxErrs = []string{"missing required fields", "incorrect log level format", "incorrect log pid#tid format"}
	csvErrs   = []string{"in non-quoted field", "invalid non-escaped quote", "in quoted field", "wrong number of fields"}
	// the sentinel errors of decoder/syslog.go are unexported; their texts identify them
	syslogErrs = []string{"log doesn't conform the format", "PRI header not a valid priority",
		"timestamp doesn't conform the format", "version doesn't conform the format", "structured data doesn't conform the format"}
)

func syslogEnum(err error) int {
	// the outermost message names the field ("failed to parse timestamp: ..."): classify by the
	// wrapped sentinel, i.e. the text after the last ": "
	m := err.Error()
	if i := strings.LastIndex(m, ": "); i >= 0 {
		m = m[i+2:]
	}
	for i, t := range syslogErrs {
		if m == t {
			return i + 1
		}
	}
	return 99
}

func kvs(m map[string][]byte) hx.Sx {
	keys := make([]string, 0, len(m))
	for k := range m {
		keys = append(keys, k)
	}
	sort.Strings(keys)
	out := make([]hx.Sx, len(keys))
	for i, k := range keys {
		out[i] = hx.L(hx.S(k), hx.B(m[k]))
	}
	return hx.L(out...)
}

var decCache = map[string]decoder.Decoder{}

func getDec(key string, mk func() (decoder.Decoder, error)) decoder.Decoder {
	if d, ok := decCache[key]; ok {
		return d
	}
	d, err := mk()
	if err != nil {
		panic(fmt.Sprintf("c12: cannot build decoder %s: %v", key, err))
	}
	decCache[key] = d
	return d
}

// the decoder of a type name, built the way pipeline.New builds it (decoder.go: TypeFromString, New)
func newByName(name string, params decoder.Params) (decoder.Decoder, error) {
	d, err := decoder.New(decoder.TypeFromString(name), params)
	if err == nil && d == nil {
		err = fmt.Errorf("decoder.New gave no decoder for %q", name)
	}
	return d, err
}

// the csv decoder of a case (delim ncols mode #data [#prefix]); mode 0 default, 1 continue, 2 fatal, 3 an unknown word
func csvDec(it []hx.Sx) *decoder.CSVDecoder {
	delim, ncols, mode := byte(hx.Int(it[0])), int(hx.Int(it[1])), int(hx.Int(it[2]))
	withPrefix, prefix := len(it) > 4, ""
	if withPrefix {
		prefix = hx.Str(it[4])
	}
	return getDec(fmt.Sprintf("csv-%d-%d-%d-%v-%q", delim, ncols, mode, withPrefix, prefix), func() (decoder.Decoder, error) {
		return newByName("csv", csvParams(delim, ncols, mode, prefix, withPrefix))
	}).(*decoder.CSVDecoder)
}

func fmtName(b bool) string {
	if b {
		return "string"
	}
	return "number"
}

func execScan(k int, cs hx.Sx) hx.Sx {
	switch k {
	case 0:
		return framed(hx.Bytes(cs), func(line []byte) hx.Sx {
			row, err := decoder.DecodeCRI(line)
			if err != nil {
				return errObs(msgEnum(err, criErrs))
			}
			return okObs(hx.B(row.Time), hx.B(row.Stream), hx.Bool(row.IsPartial), hx.B(row.Log))
		})
	case 1:
		return framed(hx.Bytes(cs), func(line []byte) hx.Sx {
			row, err := decoder.DecodePostgres(line)
			if err != nil {
				return errObs(msgEnum(err, pgErrs))
			}
			return okObs(hx.B(row.Time), hx.B(row.PID), hx.B(row.PIDMessageNumber), hx.B(row.Client), hx.B(row.DB), hx.B(row.User), hx.B(row.Log))
		})
	case 2:
		it := hx.Items(cs)
		wc := hx.Truth(it[0])
		d := getDec(fmt.Sprintf("nginx-%v", wc), func() (decoder.Decoder, error) {
			return newByName("nginx_error", decoder.Params{"nginx_with_custom_fields": wc})
		})
		return framed(hx.Bytes(it[1]), func(line []byte) hx.Sx {
			r, err := d.Decode(line)
			if err != nil {
				return errObs(msgEnum(err, nginxErrs))
			}
			row := r.(decoder.NginxErrorRow)
			return okObs(hx.B(row.Time), hx.B(row.Level), hx.B(row.PID), hx.B(row.TID), hx.B(row.CID), hx.B(row.Message), kvs(row.CustomFields))
		})
	case 3, 4:
		it := hx.Items(cs)
		ff, sf := hx.Truth(it[0]), hx.Truth(it[1])
		params := decoder.Params{"syslog_facility_format": fmtName(ff), "syslog_severity_format": fmtName(sf)}
		if k == 3 {
			d := getDec(fmt.Sprintf("s3164-%v-%v", ff, sf), func() (decoder.Decoder, error) { return newByName("syslog_rfc3164", params) })
			return framed(hx.Bytes(it[2]), func(line []byte) hx.Sx {
				r, err := d.Decode(line)
				if err != nil {
					return errObs(syslogEnum(err))
				}
				row := r.(decoder.SyslogRFC3164Row)
				return okObs(hx.B(row.Priority), hx.S(row.Facility), hx.S(row.Severity), hx.B(row.Timestamp), hx.B(row.Hostname),
					hx.B(row.AppName), hx.B(row.ProcID), hx.B(row.Message))
			})
		}
		d := getDec(fmt.Sprintf("s5424-%v-%v", ff, sf), func() (decoder.Decoder, error) { return newByName("syslog_rfc5424", params) })
		return framed(hx.Bytes(it[2]), func(line []byte) hx.Sx {
			r, err := d.Decode(line)
			if err != nil {
				return errObs(syslogEnum(err))
			}
			row := r.(decoder.SyslogRFC5424Row)
			ids := make([]string, 0, len(row.StructuredData))
			for id := range row.StructuredData {
				ids = append(ids, id)
			}
			sort.Strings(ids)
			sd := make([]hx.Sx, len(ids))
			for i, id := range ids {
				sd[i] = hx.L(hx.S(id), kvs(row.StructuredData[id]))
			}
			return okObs(hx.B(row.Priority), hx.S(row.Facility), hx.S(row.Severity), hx.B(row.ProtoVersion), hx.B(row.Timestamp),
				hx.B(row.Hostname), hx.B(row.AppName), hx.B(row.ProcID), hx.B(row.MsgID), hx.B(row.Message), hx.L(sd...))
		})
	case 5:
		it := hx.Items(cs)
		d := csvDec(it)
		return framed(hx.Bytes(it[3]), func(line []byte) hx.Sx {
			var out hx.Sx
			if caughtFatal(func() { // invalid_line_mode=fatal: logger.Fatalf, recorded by the logger's fatal hook
				r, err := d.Decode(line)
				if err != nil {
					out = errObs(msgEnum(err, csvErrs))
					return
				}
				row := r.(decoder.CSVRow)
				if err := d.CheckInvalidLine(row); err != nil {
					out = errObs(msgEnum(err, csvErrs))
					return
				}
				fs := make([]hx.Sx, len(row))
				for i, f := range row {
					fs[i] = hx.S(f)
				}
				out = hx.L(hx.I(0), hx.L(fs...))
			}) {
				return errObs(5)
			}
			return out
		})
	}
	panic("c12: unknown scanner")
}

func criLine(f [][]byte) []byte {
	return bytes.Join([][]byte{f[0], f[1], f[2], f[3]}, []byte(" "))
}

// "<t1> <t2> <t3> [<pid>]<sep>[<num>]<k1>=<client>,<k2>=<db>,<k3>=<user> <level>  <log>"
func pgLine(f [][]byte) []byte {
	var b []byte
	b = append(b, f[0]...)
	b = append(b, ' ')
	b = append(b, f[1]...)
	b = append(b, ' ')
	b = append(b, f[2]...)
	b = append(b, ' ', '[')
	b = append(b, f[3]...)
	b = append(b, ']')
	b = append(b, f[4]...)
	b = append(b, '[')
	b = append(b, f[5]...)
	b = append(b, ']')
	b = append(b, f[6]...)
	b = append(b, '=')
	b = append(b, f[7]...)
	b = append(b, ',')
	b = append(b, f[8]...)
	b = append(b, '=')
	b = append(b, f[9]...)
	b = append(b, ',')
	b = append(b, f[10]...)
	b = append(b, '=')
	b = append(b, f[11]...)
	b = append(b, ' ')
	b = append(b, f[12]...)
	b = append(b, ' ', ' ')
	b = append(b, f[13]...)
	return b
}

func sxBytesList(v hx.Sx) [][]byte {
	it := hx.Items(v)
	out := make([][]byte, len(it))
	for i, x := range it {
		out[i] = hx.Bytes(x)
	}
	return out
}

func execJSONCut(cs hx.Sx) hx.Sx {
	it := hx.Items(cs)
	path, limit, data := hx.Str(it[0]), int(hx.Int(it[1])), hx.Bytes(it[2])
	d, err := decoder.New(decoder.TypeFromString("json"), decoder.Params{"json_max_fields_size": map[string]any{path: limit}})
	if err != nil {
		// the configuration is rejected (negative limit after fixes/C12-json-negative-limit.patch):
		// nothing is cut
		return hx.L(hx.Bool(json.Valid(data)), hx.Bool(json.Valid(data)), hx.L(hx.I(0), hx.B(data)),
			hx.L(hx.L(hx.I(0), hx.I(0), hx.I(0), hx.I(0), hx.I(0))))
	}
	valid, exists, isStr, index, strLen := decoder.VerifJsonFind(data, path)
	vin := json.Valid(data)
	var vout bool
	out := framed(data, func(line []byte) hx.Sx {
		o := decoder.VerifCutFieldsBySize(d, line)
		vout = json.Valid(o)
		return hx.L(hx.I(0), hx.B(o))
	})
	return hx.L(hx.Bool(vin), hx.Bool(vout), out, hx.L(hx.L(hx.I(index), hx.I(strLen), hx.Bool(valid), hx.Bool(exists), hx.Bool(isStr))))
}

func c12Exec(which int, cs hx.Sx) hx.Sx {
	switch {
	case which == 7:
		return execJSONCut(cs)
	case which == 8:
		return execJSONCutMany(cs)
	case which == 36:
		return execJSONRoundTrip(cs)
	case which == 9:
		return execJSONKeep(cs)
	case which == 37:
		return execJSONArgs(cs)
	case which == 40:
		return execSelect(cs)
	case which == 41:
		return execParams(cs)
	case which == 38:
		return execProto(cs)
	case which == 50:
		return execPipeIn(false, cs)
	case which == 51:
		return execPipeIn(true, cs)
	case which >= 31 && which <= 35:
		return execToJSON(which-30, cs)
	case which >= 0 && which < 10:
		return execScan(which, cs)
	case which >= 10 && which < 20:
		return execScan(which-10, cs)
	case which == 20:
		return execScan(0, hx.B(criLine(sxBytesList(cs))))
	case which == 21:
		return execScan(1, hx.B(pgLine(sxBytesList(cs))))
	case which == 25:
		it := hx.Items(cs)
		delim := byte(hx.Int(it[0]))
		line := bytes.Join(sxBytesList(it[1]), []byte{delim})
		return execScan(5, hx.L(it[0], hx.I(0), hx.I(0), hx.B(line)))
	}
	panic("c12: unknown which")
}

// ---- generators ---------------------------------------------------------------------------------

// every concatenation of at most maxN tokens appended to prefix (prefix itself included)
func enum(tokens []string, maxN int, prefix []byte, f func(b []byte)) {
	var rec func(b []byte, n int)
	rec = func(b []byte, n int) {
		f(b)
		if n == maxN {
			return
		}
		for _, t := range tokens {
			rec(append(b[:len(b):len(b)], t...), n+1)
		}
	}
	rec(append([]byte(nil), prefix...), 0)
}

type scanner struct {
	k       int
	name    string
	tokens  []string // delimiter alphabet (macro tokens) of the format
	scratch int      // max tokens from the empty string (quick)
	valid   []string // canonical valid lines: every truncation of them is a prefix for enumeration
	suffix  int      // max tokens appended to each truncation (quick)
	wrap    func(c *hmain.Ctx, data []byte) hx.Sx
	isPanic func(data []byte) bool
}

func wrapPlain(_ *hmain.Ctx, data []byte) hx.Sx { return hx.B(data) }

var (
	criValid = []string{"2016-10-06T00:17:09.669794202Z stdout P partial log\n", "2016-10-06T00:17:09.669794203Z stderr F full log\n"}
	pgValid  = []string{`2021-06-22 16:24:27 GMT [7291] => [3-1] client=test_client,db=test_db,user=test_user LOG:  listening on "/var/run/.s.PGSQL.5432"`}
	ngValid  = []string{
		"2022/08/17 10:49:27 [error] 2725122#2725122: *792412315 lua udp socket read timed out, context: ngx.timer\n",
		`2022/08/18 09:29:37 [error] 844935#844935: *44934601 upstream timed out (110: Operation timed out), client: 10.1.2.3, server: , request: "POST /d HTTP/1.1", host: "a.b:84"`,
		"2022/08/17 10:49:27 [warn] 1#2: no cid message",
	}
	s3Valid = []string{"<34>Oct 11 22:14:15 mymachine.example.com myproc[10]: 'myproc' failed on /dev/pts/8\n", "<4>Oct  5 02:04:05 h app: m", "<191>Jan 31 23:59:59 h a[]:"}
	s5Valid = []string{
		`<165>1 2003-10-11T22:14:15.003Z mymachine.example.com myproc 10 ID47 [exampleSDID@32473 iut="3" eventSource="App\"lication" eventID="1011"] An application event log`,
		"<1>1 - - - - - [id a=\"b\"][id2 c=\"d\"] \xef\xbb\xbfm\n",
		"<34>1 2003-08-24T05:14:15.000003-07:00 h a - - - message",
	}
	csvValid = []string{"1760551019001,127.0.0.1,\"quoted \"\" , field\",last\r\n", "a,b,\"c\"", "a,b,"}
)

func scanners() []*scanner {
	csvWrap := func(delim byte, ncols int, cont bool) func(*hmain.Ctx, []byte) hx.Sx {
		return func(_ *hmain.Ctx, d []byte) hx.Sx { return hx.L(hx.I(int(delim)), hx.I(ncols), hx.Bool(cont), hx.B(d)) }
	}
	sysWrap := func(c *hmain.Ctx, d []byte) hx.Sx { return hx.L(hx.I(0), hx.I(0), hx.B(d)) }
	return []*scanner{
		{k: 0, name: "cri", tokens: []string{" ", "P", "F", "a", "\n", "stdout"}, scratch: 6, valid: criValid, suffix: 2, wrap: wrapPlain},
		{k: 1, name: "postgres", tokens: []string{" ", "[", "]", "=", ",", "a"}, scratch: 6, valid: pgValid, suffix: 2, wrap: wrapPlain},
		{k: 2, name: "nginx", tokens: []string{" ", "[", "]", "#", ":", "*", ", ", "a", "\n", "\""}, scratch: 4, valid: ngValid, suffix: 2,
			wrap: func(_ *hmain.Ctx, d []byte) hx.Sx { return hx.L(hx.I(1), hx.B(d)) }},
		{k: 2, name: "nginx-plain", tokens: []string{" ", "#", ":", "*", "a", "\n"}, scratch: 6, valid: ngValid[:1], suffix: 1,
			wrap: func(_ *hmain.Ctx, d []byte) hx.Sx { return hx.L(hx.I(0), hx.B(d)) }},
		{k: 3, name: "rfc3164", tokens: []string{"<", ">", "1", " ", "[", "]", ":", "a", "\n"}, scratch: 4, valid: s3Valid, suffix: 2, wrap: sysWrap},
		{k: 4, name: "rfc5424", tokens: []string{"<", ">", "1", " ", "-", "[", "]", "=", "\"", "\\", "a", "\n"}, scratch: 4, valid: s5Valid, suffix: 2, wrap: sysWrap},
		{k: 5, name: "csv", tokens: []string{",", "\"", "a", " ", "\n", "\r"}, scratch: 6, valid: csvValid, suffix: 2, wrap: csvWrap(',', 0, false)},
		{k: 5, name: "csv-semicolon-2cols", tokens: []string{";", "\"", "a", ",", "\n"}, scratch: 5, valid: nil, wrap: csvWrap(';', 2, false)},
		{k: 5, name: "csv-tab-continue", tokens: []string{"\t", "\"", "a", "\n"}, scratch: 5, valid: nil, wrap: csvWrap('\t', 2, true)},
		// invalid_line_mode=fatal (a wrong field count is a Fatal log entry, observable (1 5)) and an unknown mode word
		// (the default branch of CheckInvalidLine's switch)
		{k: 5, name: "csv-pipe-fatal", tokens: []string{"|", "\"", "a", "\n"}, scratch: 5, valid: nil,
			wrap: func(_ *hmain.Ctx, d []byte) hx.Sx { return hx.L(hx.I('|'), hx.I(2), hx.I(2), hx.B(d)) }},
		{k: 5, name: "csv-unknown-mode", tokens: []string{",", "a", "\n"}, scratch: 5, valid: nil,
			wrap: func(_ *hmain.Ctx, d []byte) hx.Sx { return hx.L(hx.I(','), hx.I(2), hx.I(3), hx.B(d)) }},
	}
}

func isPanicObs(o hx.Sx) bool {
	it := hx.Items(o)
	return len(it) > 0 && hx.IsInt(it[0]) && (hx.Int(it[0]) == 2 || hx.Int(it[0]) == 3)
}

func c12Gen(c *hmain.Ctx) {
	r := c.R
	thorough := c.Tier == "thorough"
	bump := 0
	if thorough {
		bump = 1
	}

	// 1. exhaustive small scope per scanner: every token sequence up to `scratch` tokens, and every
	//    truncation of the canonical valid lines followed by every sequence of up to `suffix` tokens
	for _, s := range scanners() {
		s := s
		enum(s.tokens, s.scratch+bump, nil, func(b []byte) {
			c.Do("exhaustive-"+s.name, s.k, s.wrap(c, b), len(b) >= 3)
		})
		c.W.Count(fmt.Sprintf("exhaustive_%s_max_tokens_%d", s.name, s.scratch+bump))
		for _, v := range s.valid {
			for cut := 0; cut <= len(v); cut++ {
				enum(s.tokens, s.suffix+bump, []byte(v[:cut]), func(b []byte) {
					c.Do("truncation-"+s.name, s.k, s.wrap(c, b), true)
				})
			}
		}
	}
	// structured data of RFC5424 behind a fixed valid header, and the RFC3164 tail behind a valid
	// timestamp (the 16-byte timestamp keeps plain enumeration out of these parts)
	sdN, tailN := 5, 5
	enum([]string{"[", "]", " ", "=", "\"", "\\", "a", "id"}, sdN+bump, []byte("<1>1 - - - - - "), func(b []byte) {
		c.Do("exhaustive-rfc5424-sd", 4, hx.L(hx.I(0), hx.I(0), hx.B(b)), true)
	})
	enum([]string{"[", "]", " ", ":", "a", "\n"}, tailN+bump, []byte("<34>Oct 11 22:14:15 "), func(b []byte) {
		c.Do("exhaustive-rfc3164-tail", 3, hx.L(hx.I(0), hx.I(0), hx.B(b)), true)
	})
	enum([]string{"Z", ".", "1", "+", "-", ":", "0", ".12345"}, 5+bump, []byte("<1>1 2003-10-11T22:14:15"), func(b []byte) {
		c.Do("exhaustive-rfc5424-timestamp", 4, hx.L(hx.I(0), hx.I(0), hx.B(append(b[:len(b):len(b)], " h a p m -"...))), true)
	})

	// 2. Go-only deep sweep (one token more than the recorded enumeration): only panics are recorded
	for _, s := range scanners() {
		s := s
		n, hits := 0, 0
		enum(s.tokens, s.scratch+1+bump, nil, func(b []byte) {
			n++
			if isPanicObs(c.Prop.Exec(s.k, s.wrap(c, b))) {
				if hits++; hits <= 50 {
					c.Do("deep-sweep-"+s.name, s.k, s.wrap(c, b), true)
				}
			}
		})
		c.W.Dist["deep_sweep_"+s.name] += n
	}

	// 3. faithfulness: lines assembled from random well-formed fields
	word := func(alpha string, lo, hi int) []byte {
		n := r.Range(lo, hi)
		b := make([]byte, n)
		for i := range b {
			b[i] = alpha[r.Intn(len(alpha))]
		}
		return b
	}
	const free = "abcXYZ019-_.:/@#\"'\\<>\t\xc3\xa9\xff"
	for i := 0; i < 3000*c.Scale; i++ {
		tag := [][]byte{[]byte("P"), []byte("F"), []byte("P:x"), word("PFab:", 1, 3)}[r.Intn(4)]
		log := word(free+" []=,\n", 0, 30)
		if r.Chance(3, 4) {
			log = append(log, '\n')
		}
		stream := [][]byte{[]byte("stdout"), []byte("stderr"), word("abc", 6, 6)}[r.Intn(3)]
		c.Do("faithful-cri", 20, hx.L(hx.B(word(free, 0, 30)), hx.B(stream), hx.B(tag), hx.B(log)), true)
	}
	for i := 0; i < 3000*c.Scale; i++ {
		fs := []hx.Sx{
			hx.B(word(free, 0, 10)), hx.B(word(free, 0, 8)), hx.B(word(free, 0, 4)), // t1 t2 t3: no space
			hx.B(word(free+" [=,", 0, 6)),     // pid: no ']'
			hx.B(word(free+" ]=,>", 0, 4)),    // sep: no '['
			hx.B(word(free+" [=,", 0, 5)),     // num: no ']'
			hx.B(word("abc []", 0, 7)),        // k1: no '=' ','
			hx.B(word(free+" []=", 0, 10)),    // client: no ','
			hx.B(word("abc []", 0, 3)),        // k2
			hx.B(word(free+" []=", 0, 8)),     // db: no ','
			hx.B(word("abc[],", 0, 5)),        // k3: no '=' ' '
			hx.B(word(free+"[]=,", 0, 9)),     // user: no ' '
			hx.B(word(free+"[]=,", 0, 6)),     // level: no ' '
			hx.B(word(free+" []=,\n", 0, 40)), // log
		}
		c.Do("faithful-postgres", 21, hx.L(fs...), true)
	}
	for i := 0; i < 3000*c.Scale; i++ {
		delim := []byte{',', ';', '\t', '|'}[r.Intn(4)]
		n := r.Range(1, 6)
		var fs []hx.Sx
		total := 0
		for j := 0; j < n; j++ {
			alpha := "abc019 -_.:/'\\<>=[]"
			for _, d := range []byte{',', ';', '|'} {
				if d != delim {
					alpha += string(d)
				}
			}
			f := word(alpha, 0, 8)
			if j == n-1 {
				f = bytes.TrimSpace(f)
			}
			total += len(f)
			fs = append(fs, hx.B(f))
		}
		if total == 0 && n == 1 {
			fs = []hx.Sx{hx.S("x")}
		}
		c.Do("faithful-csv", 25, hx.L(hx.I(int(delim)), hx.L(fs...)), true)
	}

	// 4. valid lines of every format with random damage (deletion / duplication / replacement by a
	//    delimiter of the format), compared field by field with the model
	valids := map[int][]string{0: criValid, 1: pgValid, 2: ngValid, 3: s3Valid, 4: s5Valid, 5: csvValid}
	delims := map[int]string{0: " PF\n", 1: " []=,", 2: " []#:*,\"\n", 3: "<>[]: \n19", 4: "<>[]=\"\\ -\n1Z.:+", 5: ",\"\r\n ;"}
	wrapK := func(k int, d []byte) hx.Sx {
		switch k {
		case 2:
			return hx.L(hx.Bool(r.Bool()), hx.B(d))
		case 3, 4:
			return hx.L(hx.Bool(r.Bool()), hx.Bool(r.Bool()), hx.B(d))
		case 5:
			return hx.L(hx.I(','), hx.I([]int{0, 0, 3, 4}[r.Intn(4)]), hx.I(r.Intn(4)), hx.B(d))
		}
		return hx.B(d)
	}
	names := map[int]string{0: "cri", 1: "postgres", 2: "nginx", 3: "rfc3164", 4: "rfc5424", 5: "csv"}
	damage := func(k int, b []byte, extra string) []byte {
		b = append([]byte(nil), b...)
		for n := r.Intn(4); n > 0 && len(b) > 0; n-- {
			p := r.Intn(len(b))
			alpha := delims[k] + extra
			switch r.Intn(4) {
			case 0:
				b = append(b[:p], b[p+1:]...)
			case 1:
				b = append(b[:p+1], b[p:]...)
			case 2:
				b[p] = alpha[r.Intn(len(alpha))]
			default:
				b = append(b[:p], append([]byte{alpha[r.Intn(len(alpha))]}, b[p:]...)...)
			}
		}
		if r.Chance(1, 6) {
			b = b[:r.Intn(len(b)+1)]
		}
		return b
	}
	for k := 0; k <= 5; k++ {
		for i := 0; i < 2500*c.Scale; i++ {
			v := []byte(hx.Pick(r, valids[k]))
			nontrivial := true
			c.Do("damaged-"+names[k], k, wrapK(k, damage(k, v, "")), nontrivial)
		}
		// non-ASCII bytes (UTF-8 letters / spaces and invalid sequences): totality only
		for i := 0; i < 1500*c.Scale; i++ {
			v := []byte(hx.Pick(r, valids[k]))
			c.Do("nonascii-"+names[k], 10+k, wrapK(k, damage(k, v, "\xc3\xa9\xc2\xa0\xe2\x80\x83\xff\x80\xd0\xb6")), true)
		}
	}

	// oracle instances used by the runner: ASCII letter test and ASCII TrimSpace on ASCII inputs
	for i := 0; i < 2000; i++ {
		b := word("abzAZ @[`{ \t\n\v\f\r019:", 0, 6)
		allLetters := true
		for _, ch := range b {
			if !(ch >= 'a' && ch <= 'z' || ch >= 'A' && ch <= 'Z') {
				allLetters = false
			}
		}
		goSays := !bytes.ContainsFunc(b, func(rn rune) bool { return !isLetter(rn) })
		c.W.Oracle("ASCII key: bytes.ContainsFunc(key, !unicode.IsLetter) = not all ASCII letters", goSays == allLetters, fmt.Sprintf("%q", b))
		c.W.Oracle("ASCII input: bytes.TrimSpace = trim of \\t\\n\\v\\f\\r and space", bytes.Equal(bytes.TrimSpace(b), asciiTrim(b)), fmt.Sprintf("%q", b))
	}

	genJSONCut(c)
	genToJSON(c)
	genSmall(c)
	genParams(c)
	genProto(c)
	genPipeIn(c)
}

func asciiTrim(b []byte) []byte {
	sp := func(ch byte) bool { return ch >= 9 && ch <= 13 || ch == ' ' }
	for len(b) > 0 && sp(b[0]) {
		b = b[1:]
	}
	for len(b) > 0 && sp(b[len(b)-1]) {
		b = b[:len(b)-1]
	}
	return b
}

var _ = errors.New

func main() {
	// what cmd/file.d/file.d.go:96-97 sets before anything is decoded (the library defaults are 128 nodes and verbose errors)
	insaneJSON.DisableBeautifulErrors = true
	insaneJSON.StartNodePoolSize = 16
	// Fatal log entries of the package-level logger (csv invalid_line_mode=fatal, Pipeline.Error under is_strict) are
	// turned into a recorded observable instead of ending the process; everything below Fatal is dropped
	logger.Instance = fatalLogger().Sugar()
	hmain.Run(&hmain.Prop{ID: "C12",
		Rule: "per scanner (cri, postgres, nginx_error, syslog_rfc3164, syslog_rfc5424, csv): exhaustive = every concatenation of up to N tokens of the format's delimiter alphabet, plus every truncation of canonical valid lines followed by every short token sequence; faithful = lines assembled from random well-formed fields; damaged = valid lines with random deletions/insertions of delimiters; nonascii = same with UTF-8 / invalid bytes (totality only); json-cut = json_max_fields_size on generated documents with encoding/json validity before/after; json-cut-shared-decoder = the same with ONE decoder used by 6 goroutines at once (150 repetitions per line; a replay of such a case runs alone); tojson-* = DecodeToJson into one Root for a list of lines (1-132 csv columns, 1-9 SD elements, 15-33 SD params, 0-20 nginx custom fields, wide/narrow/wide), read back through the field list, Dig and the encoder after the line buffer was overwritten; exhaustive-<syslog>-pri = PRI 0..999 and malformed spellings x the four name formats; sweep-<syslog>-timestamp = every timestamp field at and beyond its range; exhaustive-rfc5424-sd-valid = every truncation of an accepted SD part + up to 3 tokens; json-roundtrip-* = the json decoder against encoding/json with the production node pool of 16 (documents of 0-132 fields / elements, meta field, additional decode, nesting to 10001); json-cut-many / json-cut-deep = 13-24 limited strings at once, nesting to 10001; json-cut-empty-path = the empty string as a configured path; json-keep-exhaustive = jsonCutKeep called directly (limits at and beyond the length); csv cases carry invalid_line_mode default / continue / fatal / an unknown word and an optional prefix; decoder-select = decoder.New(TypeFromString(name)) for the ten names and near misses; params-* = every option of every decoder constructor x a value of every Go type, every byte as csv delimiter, anyToInt spellings, protobuf file / message / import-path failures (stored parameters read back by reflection); protobuf-* = the protobuf decoder on messages written by a hand-made wire encoder with a hand-built expected JSON (valid, every token sequence, truncations, damage; schema as text / file / import paths); pipe-in-* = 3-8 lines through a REAL action-less pipeline per case (pipeline.New by decoder name or auto + SuggestDecoder, own / foreign / no DecoderParams, is_strict, 0-2 meta fields, event pool of two events, the line overwritten before the event is read at the output) for raw, cri, postgres, nginx_error, both syslogs, csv (which 50, event compared field by field with the model) and json / protobuf (which 51, judged against encoding/json / the expected JSON). Non-trivial = input of >= 3 bytes for plain enumeration, every other case; distinct = distinct (sub-model, case) text.",
		Gen:  c12Gen, Exec: c12Exec})
}
