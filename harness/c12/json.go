package main

// json_max_fields_size (jsonDecoder.cutFieldsBySize): differential stream with encoding/json validity
// of the document before and after the cut.
//
//  which 8  case = ((#path limit) ... #data)   one or several paths (one path: the decoder takes its fast way)
//  obs = (validIn validOut (0 #out)|(2 #site)|(3) ((index strlen valid exists isString #raw) ...))
//  (which 7, case = (#path limit #data), is the older single-path form of main.go without #raw: replays only)
//
// The model (coq/Model/Decoders/JsonCut.v) takes gjson's Index and len(Str) from the observable and finds the raw
// (escaped) text of the string itself; the verdict (coq/Model/Decoders/Entry.v json_cut_run) is
//   Violates  panic / guard bytes touched / a valid document became invalid (encoding/json) / the output is not the
//             input with nothing but the named strings shortened to a prefix of their raw text (json_cut_framed)
//   Differ    only the number of kept bytes differs from the model's

import (
	"bytes"
	"encoding/json"
	"fmt"
	"strings"
	"sync"
	"unicode"

	"github.com/ozontech/file.d/decoder"
	"github.com/tidwall/gjson"

	"verif/harness/hmain"
	"verif/harness/hx"
)

func isLetter(r rune) bool { return unicode.IsLetter(r) }

func execJSONCutMany(cs hx.Sx) hx.Sx { return execJSONCutManyWith(cs, nil) }

// shared != nil: the cut runs on that decoder (built from the same limits), possibly used by other goroutines at the same time
func execJSONCutManyWith(cs hx.Sx, shared decoder.Decoder) hx.Sx {
	it := hx.Items(cs)
	data := hx.Bytes(it[len(it)-1])
	limits := map[string]any{}
	var groups []hx.Sx
	for _, p := range it[:len(it)-1] {
		pl := hx.Items(p)
		path, limit := hx.Str(pl[0]), int(hx.Int(pl[1]))
		limits[path] = limit
		// what findPos gets from gjson for this path, on the document before the cut
		valid, exists, isStr, index, strLen := decoder.VerifJsonFind(data, path)
		var raw string
		if valid && path != "" {
			raw = gjson.GetBytes(data, path).Raw
		}
		groups = append(groups, hx.L(hx.I(index), hx.I(strLen), hx.Bool(valid), hx.Bool(exists), hx.Bool(isStr), hx.S(raw)))
	}
	vin := json.Valid(data)
	d, err := shared, error(nil)
	if d == nil {
		d, err = decoder.New(decoder.TypeFromString("json"), decoder.Params{"json_max_fields_size": limits})
	}
	if err != nil {
		for i := range groups {
			groups[i] = hx.L(hx.I(0), hx.I(0), hx.I(0), hx.I(0), hx.I(0), hx.S(""))
		}
		return hx.L(hx.Bool(vin), hx.Bool(vin), hx.L(hx.I(0), hx.B(data)), hx.L(groups...))
	}
	var vout bool
	out := framed(data, func(line []byte) hx.Sx {
		o := decoder.VerifCutFieldsBySize(d, line)
		vout = json.Valid(o)
		return hx.L(hx.I(0), hx.B(o))
	})
	return hx.L(hx.Bool(vin), hx.Bool(vout), out, hx.L(groups...))
}

// rawEnd is the model's json_raw_len on the Go side: the length of the text between the quote at doc[index] and the
// first quote that is not preceded by an unpaired backslash (-1: none).
func rawEnd(doc []byte, index int) int {
	if index < 0 || index >= len(doc) || doc[index] != '"' {
		return -1
	}
	for i := index + 1; i < len(doc); i++ {
		switch doc[i] {
		case '"':
			return i - index - 1
		case '\\':
			i++
		}
	}
	return -1
}

// the facts about gjson the model relies on, checked on every generated document.  plain: the path has no modifier /
// multipath, so its result is a slice of the document.
func checkGjson(c *hmain.Ctx, doc, path string) { checkGjsonPath(c, doc, path, true) }

func checkGjsonPath(c *hmain.Ctx, doc, path string, plain bool) {
	if path == "" || !gjson.Valid(doc) {
		return
	}
	v := gjson.GetBytes([]byte(doc), path)
	if !v.Exists() || v.Type != gjson.String {
		return
	}
	atIndex := v.Index >= 0 && v.Index+len(v.Raw) <= len(doc) && doc[v.Index:v.Index+len(v.Raw)] == v.Raw
	detail := fmt.Sprintf("%q %s", doc, path)
	c.W.Oracle("gjson: Index >= 0", v.Index >= 0, detail)
	c.W.Oracle("gjson: a string value's Raw, when it stands at Index, is the text from that quote to the first quote not preceded by an unpaired backslash (raw_consistent)",
		!atIndex || rawEnd([]byte(doc), v.Index) == len(v.Raw)-2, detail)
	if plain {
		c.W.Oracle("gjson: for a plain path (no modifier, no multipath) Raw stands at Index", atIndex, detail)
	} else if !atIndex {
		c.W.Count("json_cut_index_unknown_answer")
	}
	c.W.Oracle("gjson: len(Str) <= len(Raw)-2 (unescaping never lengthens)", len(v.Str) <= len(v.Raw)-2, detail)
}

func unescapedLen(doc, path string) int {
	v := gjson.Get(doc, path)
	if v.Type != gjson.String {
		return -1
	}
	return len(v.Str)
}

func genJSONCut(c *hmain.Ctx) {
	r := c.R
	do1 := func(stream, path string, limit int, doc string, nontrivial bool) {
		checkGjson(c, doc, path)
		c.Do(stream, 8, hx.L(hx.L(hx.S(path), hx.I(limit)), hx.S(doc)), nontrivial)
	}
	// exhaustive: the value of "a" is every concatenation of up to 3 (thorough: 4) raw pieces - plain bytes, UTF-8, two-byte
	// escapes, \uXXXX, a surrogate pair - with every limit 0..len(raw)+1
	pieces := []string{"a", "\xc3\xa9", `\\`, `\"`, `\n`, `é`, `😀`}
	maxN := 3
	if c.Tier == "thorough" {
		maxN = 4
	}
	enum(pieces, maxN, nil, func(v []byte) {
		stream := "json-cut-exhaustive"
		if bytes.IndexByte(v, '\\') >= 0 {
			stream = "json-cut-escaped"
		}
		doc := `{"x":"pre","a":"` + string(v) + `","b":[1,"a"]}`
		ul := unescapedLen(doc, "a")
		for limit := 0; limit <= len(v)+1; limit++ {
			do1(stream, "a", limit, doc, ul > limit)
		}
	})
	c.W.Count("json_cut_exhaustive_max_pieces")

	plain := func(lo, hi int) string {
		const alpha = "abcXYZ 019{}[]:,'/\xc3\xa9\xd0\xb6\xe2\x82\xac"
		n := r.Range(lo, hi)
		b := make([]byte, 0, n)
		for len(b) < n {
			// whole runes only: the documents must be valid JSON for encoding/json
			switch r.Intn(8) {
			case 0:
				b = append(b, "\xc3\xa9"...)
			case 1:
				b = append(b, "\xe2\x82\xac"...)
			default:
				b = append(b, alpha[r.Intn(18)])
			}
		}
		return string(b)
	}
	hex4 := func(lo, hi int) string {
		s := fmt.Sprintf("%04x", r.Range(lo, hi))
		if r.Bool() {
			s = strings.ToUpper(s)
		}
		return s
	}
	// one escape sequence of a JSON string
	escape := func() string {
		switch r.Intn(10) {
		case 0, 1, 2, 3:
			return `\` + string(`"\/bfnrt`[r.Intn(8)])
		case 4, 5:
			return `\u` + hex4(0, 0xd7ff) // one to three bytes when unescaped
		case 6:
			return `\u` + hex4(0xe000, 0xffff)
		case 7, 8:
			return `\u` + hex4(0xd800, 0xdbff) + `\u` + hex4(0xdc00, 0xdfff) // surrogate pair: 12 raw bytes, 4 unescaped
		default:
			return `\u` + hex4(0xd800, 0xdfff) // lone surrogate: valid JSON text, unescapes to U+FFFD
		}
	}
	// raw (escaped) content of a valid JSON string, n tokens
	esc := func(lo, hi int) string {
		var b strings.Builder
		for n := r.Range(lo, hi); n > 0; n-- {
			switch r.Intn(5) {
			case 0, 1:
				b.WriteString(escape())
			case 2:
				b.WriteString(hx.Pick(r, []string{"\xc3\xa9", "\xe2\x82\xac", "\xf0\x9f\x98\x80", "u", "uu0041", "/"}))
			default:
				b.WriteString(plain(1, 3))
			}
		}
		return b.String()
	}
	q := func(s string) string { b, _ := json.Marshal(s); return string(b) }
	// a quoted value: half of them with escape sequences
	val := func(lo, hi int) (quoted string, rawLen int) {
		if r.Bool() {
			s := esc(lo/2, hi/2)
			return `"` + s + `"`, len(s)
		}
		s := q(plain(lo, hi))
		return s, len(s) - 2
	}
	for i := 0; i < 3000*c.Scale; i++ {
		a, f := plain(0, 20), plain(0, 12)
		var doc, path string
		switch r.Intn(6) {
		case 0:
			doc, path = `{"a":`+q(a)+`,"o":{"f":`+q(f)+`}}`, "o.f"
		case 1:
			doc, path = `{"a":`+q(a)+`,"n":12345}`, "n" // not a string
		case 2:
			doc, path = `{"a":`+q(a)+`}`, "missing"
		case 3:
			doc, path = `{"a":`+q(a), "a" // invalid document: untouched
		case 4:
			doc, path = ` { "k" : 1 , "a" :  `+q(a)+` , "z":"`+f+`" } `, "a"
		default:
			doc, path = `{"a":`+q(a)+`,"b":`+q(f)+`}`, "a"
		}
		do1("json-cut-random", path, r.Intn(24), doc, true)
	}
	// escapes anywhere in the limited string, every shape of document, limits 0..len(raw)+1
	for i := 0; i < 4000*c.Scale; i++ {
		raw, f := esc(0, 8), esc(0, 4)
		var doc, path string
		switch r.Intn(7) {
		case 0:
			doc, path = `{"a":"x","o":{"f":"`+raw+`","g":"`+f+`"}}`, "o.f"
		case 1:
			doc, path = `{"`+f+`":"`+f+`","a":"`+raw+`"}`, "a" // escapes in an earlier key and value
		case 2:
			doc, path = ` { "k" : 1 , "a" :  "`+raw+`" , "z":"`+f+`" } `, "a"
		case 3:
			doc, path = `{"l":["`+f+`","`+raw+`",3]}`, "l.1"
		case 4:
			doc, path = `{"a":"`+raw+`"`, "a" // invalid document: untouched
		case 5:
			doc, path = `"`+raw+`"`, "@this" // the document is the string
		default:
			doc, path = `{"a":"`+raw+`","b":"tail"}`, "a"
		}
		limit := r.Intn(len(raw) + 2)
		stream := "json-cut-escaped"
		if strings.IndexByte(raw, '\\') < 0 {
			stream = "json-cut-random"
		}
		do1(stream, path, limit, doc, unescapedLen(doc, path) > limit)
	}
	// an escape sequence exactly at / around the limit: plain prefix of n bytes, one escape, a tail; limits n-1 .. n+len+1
	for i := 0; i < 250*c.Scale; i++ {
		pre, e, tail := plain(0, 7), escape(), esc(0, 3)
		raw := pre + e + tail
		doc := `{"a":"` + raw + `","b":"` + tail + `"}`
		ul := unescapedLen(doc, "a")
		for limit := len(pre) - 1; limit <= len(pre)+len(e)+1; limit++ {
			if limit >= 0 {
				do1("json-cut-escaped", "a", limit, doc, ul > limit)
			}
		}
	}
	// strings the validators refuse (bare control character, unknown escape, short \u, bare quote): untouched
	for i := 0; i < 300*c.Scale; i++ {
		bad := hx.Pick(r, []string{"\x01", "\n", `\x`, `\u12`, `\u12g4`, `"`, `\`, `\'`})
		raw := esc(0, 3) + bad + esc(0, 3)
		doc := `{"a":"` + raw + `","b":"tail"}`
		do1("json-cut-invalid", "a", r.Intn(len(raw)+2), doc, true)
	}
	// several paths at once (the sorted, mutex-protected way), escapes in several fields
	for i := 0; i < 2500*c.Scale; i++ {
		a, la := val(0, 16)
		b2, lb := val(0, 16)
		f, lf := val(0, 10)
		doc := `{"a":` + a + `,"o":{"f":` + f + `,"g":7},"b":` + b2 + `}`
		ps := []hx.Sx{hx.L(hx.S("a"), hx.I(r.Intn(la+2))), hx.L(hx.S("b"), hx.I(r.Intn(lb+2)))}
		if r.Bool() {
			ps = append(ps, hx.L(hx.S("o.f"), hx.I(r.Intn(lf+2))))
		}
		if r.Chance(1, 4) {
			ps = append(ps, hx.L(hx.S("o.g"), hx.I(0)))
		}
		if r.Chance(1, 8) {
			ps = append(ps, hx.L(hx.S("missing"), hx.I(r.Intn(4))))
		}
		for _, p := range []string{"a", "b", "o.f"} {
			checkGjson(c, doc, p)
		}
		c.Do("json-cut-multi", 8, hx.L(append(ps, hx.S(doc))...), true)
	}
	// several paths that name the SAME string (gjson path escapes: a = \a, o.f = o.\f = \o.f = \o.\f): it is cut once, by
	// the smallest of its limits (a08bbd4; before: the second cut ate the closing quote).  Equal and different limits, with
	// and without escapes, alone and next to other limited strings.
	perm := func(n int) []int {
		p := make([]int, n)
		for i := range p {
			p[i] = i
		}
		for i := n - 1; i > 0; i-- {
			j := r.Intn(i + 1)
			p[i], p[j] = p[j], p[i]
		}
		return p
	}
	aliasA := []string{"a", `\a`}
	aliasF := []string{"o.f", `o.\f`, `\o.f`, `\o.\f`}
	for i := 0; i < 2500*c.Scale; i++ {
		a, la := val(0, 16)
		f, lf := val(0, 12)
		z, lz := val(0, 8)
		doc := `{"a":` + a + `,"o":{"f":` + f + `,"g":7},"z":` + z + `}`
		var ps []hx.Sx
		add := func(paths []string, n, rawLen int) {
			same := r.Intn(rawLen + 2)
			for _, k := range perm(len(paths))[:n] {
				limit := same
				if r.Bool() {
					limit = r.Intn(rawLen + 2)
				}
				ps = append(ps, hx.L(hx.S(paths[k]), hx.I(limit)))
			}
		}
		switch r.Intn(5) {
		case 0:
			add(aliasA, 2, la)
		case 1:
			add(aliasF, 2+r.Intn(3), lf)
		case 2:
			add(aliasA, 2, la)
			add(aliasF, 2+r.Intn(3), lf)
		case 3:
			add(aliasA, 2, la)
			add([]string{"z"}, 1, lz)
		default:
			add(aliasF, 2, lf)
			add([]string{"a"}, 1, la)
			add([]string{"z"}, 1, lz)
		}
		shuffled := make([]hx.Sx, 0, len(ps))
		for _, k := range perm(len(ps)) {
			shuffled = append(shuffled, ps[k])
		}
		ps = shuffled
		for _, p := range []string{"a", `\a`, "o.f", `o.\f`, `\o.f`, `\o.\f`, "z"} {
			checkGjson(c, doc, p)
		}
		c.Do("json-cut-aliased", 8, hx.L(append(ps, hx.S(doc))...), true)
	}
	// paths whose result is not a slice of the document (modifiers, multipaths): gjson leaves Index at 0 (or relative to a
	// copy) and such a path must cut nothing (86e6b5f; before: the document was cut at offset limit+1).  Alone (the fast
	// way) and next to plain paths, aliases included.
	unknown := []string{"a|@this", "a|@reverse", "o.f|@this", "o|@this|f", "o|@ugly|f", "[a,z].0", "[a,z].1", "{a,z}.a", `{"q":o.f}.q`, "z|@this"}
	for i := 0; i < 2500*c.Scale; i++ {
		a, la := val(0, 16)
		f, lf := val(0, 12)
		z, lz := val(0, 8)
		doc := `{"a":` + a + `,"o":{"f":` + f + `,"g":7},"z":` + z + `}`
		if r.Chance(1, 8) {
			doc = ` { "a" : ` + a + ` , "o" : { "f" : ` + f + ` , "g":7 } , "z" : ` + z + ` } `
		}
		maxLen := la + lf + lz + 2
		var ps []hx.Sx
		used := map[string]bool{}
		add := func(path string, limit int) {
			if !used[path] {
				used[path] = true
				ps = append(ps, hx.L(hx.S(path), hx.I(limit)))
			}
		}
		nUnknown := 1
		if r.Chance(1, 3) {
			nUnknown = 2
		}
		for k := 0; k < nUnknown; k++ {
			add(hx.Pick(r, unknown), r.Intn(maxLen))
		}
		switch r.Intn(4) {
		case 0: // alone: one configured path takes the fast way
		case 1:
			add("a", r.Intn(la+2))
		case 2:
			add("a", r.Intn(la+2))
			add(`\a`, r.Intn(la+2))
			add("z", r.Intn(lz+2))
		default:
			add("o.f", r.Intn(lf+2))
			add(`o.\f`, r.Intn(lf+2))
		}
		shuffled := make([]hx.Sx, 0, len(ps))
		for _, k := range perm(len(ps)) {
			shuffled = append(shuffled, ps[k])
		}
		for p := range used {
			plain := p == "a" || p == `\a` || p == "z" || p == "o.f" || p == `o.\f`
			checkGjsonPath(c, doc, p, plain)
		}
		c.Do("json-cut-aliased", 8, hx.L(append(shuffled, hx.S(doc))...), true)
	}
	// 13..24 limited strings at once, all over their limits (so far at most 6 paths and 3 cuts): slices.SortFunc on
	// d.cutPositions (json.go:128-135) is an insertion sort up to 12 elements and pdqsort beyond, which is not stable; some
	// strings are named twice (s3 and \s3) with equal and with different limits, so equal keys do occur. Would expose: a
	// comparison function that is not a strict order on the positions, a dedup of aliased positions that relies on a
	// stable sort, a cut applied to positions that are not in descending order.
	for i := 0; i < 400*c.Scale; i++ {
		n := r.Range(13, 24)
		var doc strings.Builder
		doc.WriteString("{")
		var ps []hx.Sx
		var names []string
		for k := 0; k < n; k++ {
			v, lv := val(6, 20)
			name := fmt.Sprintf("s%d", k)
			if k > 0 {
				doc.WriteString(",")
			}
			if k == n/2 {
				f, lf := val(6, 14)
				doc.WriteString(`"o":{"f":` + f + `,"g":7},`)
				ps = append(ps, hx.L(hx.S("o.f"), hx.I(r.Intn(lf/2+1))))
				names = append(names, "o.f")
			}
			doc.WriteString(`"` + name + `":` + v)
			limit := r.Intn(lv/2 + 1)
			ps = append(ps, hx.L(hx.S(name), hx.I(limit)))
			names = append(names, name)
			if r.Chance(1, 4) { // the same string under a second name
				l2 := limit
				if r.Bool() {
					l2 = r.Intn(lv + 2)
				}
				ps = append(ps, hx.L(hx.S(`\`+name), hx.I(l2)))
				names = append(names, `\`+name)
			}
		}
		doc.WriteString("}")
		shuffled := make([]hx.Sx, 0, len(ps))
		for _, k := range perm(len(ps)) {
			shuffled = append(shuffled, ps[k])
		}
		for _, p := range names {
			checkGjson(c, doc.String(), p)
		}
		c.W.Count(fmt.Sprintf("json_cut_many_paths_%d", len(ps)))
		c.Do("json-cut-many", 8, hx.L(append(shuffled, hx.S(doc.String()))...), true)
	}
	// nesting: gjson.ValidBytes (json.go:78) is recursive and the documents so far were at most 2 levels deep; 3 .. 10001
	// levels of arrays / objects between two limited strings (encoding/json.Valid stops at 10000: beyond that the document
	// counts as invalid before and after, the cut must still be framed). Would expose: a validity pre-check that gives up
	// (or blows the stack) on deep input and lets the cut run on a document it did not validate, positions computed wrongly
	// behind a long run of brackets.
	for _, depth := range []int{3, 10, 100, 1000, 9999, 10000, 10001} {
		if depth > 1000 && depth < 10001 && c.Scale == 1 {
			continue
		}
		for _, open := range []string{"[", `{"k":`} {
			cl := "]"
			if open != "[" {
				cl = "}"
			}
			doc := `{"a":"0123456789","d":` + strings.Repeat(open, depth) + `"x"` + strings.Repeat(cl, depth) + `,"z":"tail-tail"}`
			checkGjson(c, doc, "a")
			checkGjson(c, doc, "z")
			c.Do("json-cut-deep", 8, hx.L(hx.L(hx.S("a"), hx.I(3)), hx.S(doc)), true)
			c.Do("json-cut-deep", 8, hx.L(hx.L(hx.S("z"), hx.I(4)), hx.L(hx.S("a"), hx.I(2)), hx.S(doc)), true)
		}
	}
	// ONE decoder used by several goroutines at once (a pipeline has one decoder and Pipeline.In is called from every
	// input worker): every line must be cut exactly as it is when the decoder is used alone.  Each goroutine repeats its
	// lines; the recorded observable is the first one that differs from the line's first result, else that first result.
	for round := 0; round < 4*c.Scale; round++ {
		la, lb, lf := 1+r.Intn(10), 1+r.Intn(10), 1+r.Intn(6)
		limits := map[string]any{"a": la, "b": lb, "o.f": lf}
		pathLimits := []hx.Sx{hx.L(hx.S("a"), hx.I(la)), hx.L(hx.S("b"), hx.I(lb)), hx.L(hx.S("o.f"), hx.I(lf))}
		if round%2 == 1 { // two of the strings are named twice
			la2, lf2 := 1+r.Intn(10), lf
			limits[`\a`], limits[`o.\f`] = la2, lf2
			pathLimits = append(pathLimits, hx.L(hx.S(`\a`), hx.I(la2)), hx.L(hx.S(`o.\f`), hx.I(lf2)))
			lu := r.Intn(12) // and two paths whose result is not a slice of the document
			limits["a|@this"], limits["[b,a].0"] = lu, lu+1
			pathLimits = append(pathLimits, hx.L(hx.S("a|@this"), hx.I(lu)), hx.L(hx.S("[b,a].0"), hx.I(lu+1)))
		}
		d, err := decoder.New(decoder.TypeFromString("json"), decoder.Params{"json_max_fields_size": limits})
		if err != nil {
			continue
		}
		const G, perG = 6, 6
		cases := make([][]hx.Sx, G)
		for g := 0; g < G; g++ {
			for i := 0; i < perG; i++ {
				a, _ := val(0, 24)
				b2, _ := val(0, 24)
				f, _ := val(0, 12)
				pad, _ := val(0, 30)
				doc := `{"pad":` + pad + `,"a":` + a + `,"o":{"f":` + f + `,"g":7},"b":` + b2 + `}`
				cases[g] = append(cases[g], hx.L(append(append([]hx.Sx(nil), pathLimits...), hx.S(doc))...))
			}
		}
		obs := make([][]hx.Sx, G)
		var wg sync.WaitGroup
		for g := 0; g < G; g++ {
			obs[g] = make([]hx.Sx, perG)
			wg.Add(1)
			go func(g int) {
				defer wg.Done()
				first := make([]string, perG)
				differs := make([]bool, perG)
				for it := 0; it < 150; it++ {
					for i, cs := range cases[g] {
						if differs[i] {
							continue
						}
						o := execJSONCutManyWith(cs, d)
						if it == 0 {
							first[i], obs[g][i] = hx.String(o), o
						} else if hx.String(o) != first[i] {
							differs[i], obs[g][i] = true, o
						}
					}
				}
			}(g)
		}
		wg.Wait()
		for g := 0; g < G; g++ {
			for i, cs := range cases[g] {
				c.W.Case("json-cut-shared-decoder", 8, cs, obs[g][i], true)
			}
		}
	}
	// negative limits are a configuration error (rejected by extractJsonParams after the repair)
	for i := 0; i < 300*c.Scale; i++ {
		doc := `{"a":` + q(plain(0, 12)) + `,"b":1}`
		c.Do("json-cut-negative-limit", 8, hx.L(hx.L(hx.S("a"), hx.I(-1-r.Intn(12))), hx.S(doc)), true)
	}
	// ---- json-cut-empty-path: "" as a configured path (json.go:83: nothing to look up, gjson is not asked), alone (the
	// fast way) and among paths that do cut; documents whose first / only member is named "" (gjson would answer for
	// other spellings of that name, the empty path must not). Would expose: the guard dropped or moved behind the lookup.
	for i := 0; i < 200*c.Scale; i++ {
		key := hx.Pick(r, []string{"", "", "a", "b"})
		doc := `{` + q(key) + `:` + q(plain(0, 12)) + `,"a":` + q(plain(0, 12)) + `,"z":[` + q(plain(0, 6)) + `]}`
		if key == "a" {
			doc = `{"a":` + q(plain(0, 12)) + `,"":` + q(plain(0, 12)) + `}`
		}
		lim := r.Intn(8)
		switch r.Intn(3) {
		case 0:
			c.Do("json-cut-empty-path", 8, hx.L(hx.L(hx.S(""), hx.I(lim)), hx.S(doc)), true)
		case 1:
			checkGjson(c, doc, "a")
			c.Do("json-cut-empty-path", 8, hx.L(hx.L(hx.S(""), hx.I(lim)), hx.L(hx.S("a"), hx.I(r.Intn(8))), hx.S(doc)), true)
		default:
			checkGjson(c, doc, "a")
			checkGjson(c, doc, "z.0")
			c.Do("json-cut-empty-path", 8, hx.L(hx.L(hx.S("a"), hx.I(r.Intn(8))), hx.L(hx.S(""), hx.I(lim)), hx.L(hx.S("z.0"), hx.I(r.Intn(4))), hx.S(doc)), true)
		}
	}
}

var _ = hmain.Run
