package main

// json_max_fields_size (jsonDecoder.cutFieldsBySize): differential stream with encoding/json validity
// of the document before and after the cut.
//
//  which 7  one path     case = (#path limit #data)
//  which 8  several      case = ((#path limit) ... #data)
//  obs = (validIn validOut (0 #out)|(2 #site)|(3) ((index strlen valid exists isString) ...))

import (
	"bytes"
	"encoding/json"
	"sync"
	"unicode"

	"github.com/ozontech/file.d/decoder"

	"verif/harness/hmain"
	"verif/harness/hx"
)

func isLetter(r rune) bool { return unicode.IsLetter(r) }

func execJSONCutMany(cs hx.Sx) hx.Sx { return execJSONCutManyWith(cs, nil) }

// shared != nil: the cut runs on that decoder (built from the same limits), possibly used by other goroutines at the same time
func execJSONCutManyWith(cs hx.Sx, shared decoder.Decoder) hx.Sx {
	it := hx.Items(cs)
	data := hx.Bytes(it[len(it)-1])
	limits := map[string]any{}
	var groups []hx.Sx
	for _, p := range it[:len(it)-1] {
		pl := hx.Items(p)
		path, limit := hx.Str(pl[0]), int(hx.Int(pl[1]))
		limits[path] = limit
		valid, exists, isStr, index, strLen := decoder.VerifJsonFind(data, path)
		groups = append(groups, hx.L(hx.I(index), hx.I(strLen), hx.Bool(valid), hx.Bool(exists), hx.Bool(isStr)))
	}
	vin := json.Valid(data)
	d, err := shared, error(nil)
	if d == nil {
		d, err = decoder.NewJsonDecoder(decoder.Params{"json_max_fields_size": limits})
	}
	if err != nil {
		for i := range groups {
			groups[i] = hx.L(hx.I(0), hx.I(0), hx.I(0), hx.I(0), hx.I(0))
		}
		return hx.L(hx.Bool(vin), hx.Bool(vin), hx.L(hx.I(0), hx.B(data)), hx.L(groups...))
	}
	var vout bool
	out := framed(data, func(line []byte) hx.Sx {
		o := decoder.VerifCutFieldsBySize(d, line)
		vout = json.Valid(o)
		return hx.L(hx.I(0), hx.B(o))
	})
	return hx.L(hx.Bool(vin), hx.Bool(vout), out, hx.L(groups...))
}

func genJSONCut(c *hmain.Ctx) {
	r := c.R
	// exhaustive: the value of "a" is every concatenation of up to 4 raw pieces, every limit 0..6
	pieces := []string{"a", "b", "\xc3\xa9", `\\`, `\"`, `\n`, `é`}
	maxN := 3
	if c.Tier == "thorough" {
		maxN = 4
	}
	enum(pieces, maxN, nil, func(v []byte) {
		stream := "json-cut-exhaustive"
		if bytes.IndexByte(v, '\\') >= 0 {
			stream = "json-cut-escaped"
		}
		doc := `{"x":"pre","a":"` + string(v) + `","b":[1,"a"]}`
		for limit := 0; limit <= 6; limit++ {
			c.Do(stream, 7, hx.L(hx.S("a"), hx.I(limit), hx.S(doc)), len(v) > limit)
		}
	})
	c.W.Count("json_cut_exhaustive_max_pieces")

	plain := func(lo, hi int) string {
		const alpha = "abcXYZ 019{}[]:,'/\xc3\xa9\xd0\xb6\xe2\x82\xac"
		n := r.Range(lo, hi)
		b := make([]byte, 0, n)
		for len(b) < n {
			// whole runes only: the documents must be valid JSON for encoding/json
			switch r.Intn(8) {
			case 0:
				b = append(b, "\xc3\xa9"...)
			case 1:
				b = append(b, "\xe2\x82\xac"...)
			default:
				b = append(b, alpha[r.Intn(18)])
			}
		}
		return string(b)
	}
	q := func(s string) string { b, _ := json.Marshal(s); return string(b) }
	for i := 0; i < 3000*c.Scale; i++ {
		a, f := plain(0, 20), plain(0, 12)
		var doc, path string
		switch r.Intn(6) {
		case 0:
			doc, path = `{"a":`+q(a)+`,"o":{"f":`+q(f)+`}}`, "o.f"
		case 1:
			doc, path = `{"a":`+q(a)+`,"n":12345}`, "n" // not a string
		case 2:
			doc, path = `{"a":`+q(a)+`}`, "missing"
		case 3:
			doc, path = `{"a":`+q(a), "a" // invalid document: untouched
		case 4:
			doc, path = ` { "k" : 1 , "a" :  `+q(a)+` , "z":"`+f+`" } `, "a"
		default:
			doc, path = `{"a":`+q(a)+`,"b":`+q(f)+`}`, "a"
		}
		limit := r.Intn(24)
		c.Do("json-cut-random", 7, hx.L(hx.S(path), hx.I(limit), hx.S(doc)), true)
	}
	// several paths at once (the sorted, mutex-protected way)
	for i := 0; i < 1500*c.Scale; i++ {
		a, b2, f := plain(0, 16), plain(0, 16), plain(0, 10)
		doc := `{"a":` + q(a) + `,"o":{"f":` + q(f) + `,"g":7},"b":` + q(b2) + `}`
		ps := []hx.Sx{hx.L(hx.S("a"), hx.I(r.Intn(18))), hx.L(hx.S("b"), hx.I(r.Intn(18)))}
		if r.Bool() {
			ps = append(ps, hx.L(hx.S("o.f"), hx.I(r.Intn(12))))
		}
		if r.Chance(1, 4) {
			ps = append(ps, hx.L(hx.S("o.g"), hx.I(0)))
		}
		c.Do("json-cut-multi", 8, hx.L(append(ps, hx.S(doc))...), true)
	}
	// ONE decoder used by several goroutines at once (a pipeline has one decoder and Pipeline.In is called from every
	// input worker): every line must be cut exactly as it is when the decoder is used alone.  Each goroutine repeats its
	// lines; the recorded observable is the first one that differs from the line's first result, else that first result.
	for round := 0; round < 4*c.Scale; round++ {
		la, lb, lf := 1+r.Intn(10), 1+r.Intn(10), 1+r.Intn(6)
		limits := map[string]any{"a": la, "b": lb, "o.f": lf}
		d, err := decoder.NewJsonDecoder(decoder.Params{"json_max_fields_size": limits})
		if err != nil {
			continue
		}
		const G, perG = 6, 6
		cases := make([][]hx.Sx, G)
		for g := 0; g < G; g++ {
			for i := 0; i < perG; i++ {
				a, b2, f := plain(0, 24), plain(0, 24), plain(0, 12)
				doc := `{"pad":` + q(plain(0, 30)) + `,"a":` + q(a) + `,"o":{"f":` + q(f) + `,"g":7},"b":` + q(b2) + `}`
				cases[g] = append(cases[g], hx.L(hx.L(hx.S("a"), hx.I(la)), hx.L(hx.S("b"), hx.I(lb)), hx.L(hx.S("o.f"), hx.I(lf)), hx.S(doc)))
			}
		}
		obs := make([][]hx.Sx, G)
		var wg sync.WaitGroup
		for g := 0; g < G; g++ {
			obs[g] = make([]hx.Sx, perG)
			wg.Add(1)
			go func(g int) {
				defer wg.Done()
				first := make([]string, perG)
				differs := make([]bool, perG)
				for it := 0; it < 150; it++ {
					for i, cs := range cases[g] {
						if differs[i] {
							continue
						}
						o := execJSONCutManyWith(cs, d)
						if it == 0 {
							first[i], obs[g][i] = hx.String(o), o
						} else if hx.String(o) != first[i] {
							differs[i], obs[g][i] = true, o
						}
					}
				}
			}(g)
		}
		wg.Wait()
		for g := 0; g < G; g++ {
			for i, cs := range cases[g] {
				c.W.Case("json-cut-shared-decoder", 8, cs, obs[g][i], true)
			}
		}
	}
	// escapes anywhere in the limited string (known finding: positions come from the unescaped length)
	for i := 0; i < 1000*c.Scale; i++ {
		raw := ""
		for n := r.Range(1, 8); n > 0; n-- {
			raw += hx.Pick(r, []string{"a", "bc", `\\`, `\"`, `\n`, `\t`, `é`, `\/`, "\xc3\xa9"})
		}
		doc := `{"a":"` + raw + `","b":"tail"}`
		nontrivial := bytes.IndexByte([]byte(raw), '\\') >= 0
		stream := "json-cut-escaped"
		if !nontrivial {
			stream = "json-cut-random"
		}
		c.Do(stream, 7, hx.L(hx.S("a"), hx.I(r.Intn(10)), hx.S(doc)), nontrivial)
	}
	// negative limits are a configuration error (rejected by extractJsonParams after the repair)
	for i := 0; i < 300*c.Scale; i++ {
		doc := `{"a":` + q(plain(0, 12)) + `,"b":1}`
		c.Do("json-cut-negative-limit", 7, hx.L(hx.S("a"), hx.I(-1-r.Intn(12)), hx.S(doc)), true)
	}
}

var _ = hmain.Run
