package main

// Small directed sub-models of the coverage round (coq/Model/Decoders/PipeIn.v, Select.v):
//
//	which 9   jsonCutKeep(content, limit) called directly (go:linkname; its first branch, limit >= len(content), cannot be
//	          reached through cutFieldsBySize because gjson's len(Str) never exceeds the raw length): case = (limit #content),
//	          obs = (0 keep) | (2 #site)
//	which 37  jsonDecoder.Decode without its Root argument / with an argument of another type: case = (mode #data),
//	          obs = (1 1) "empty args" | (1 2) "invalid args"
//	which 40  decoder.New(decoder.TypeFromString(name), valid params): case = #name,
//	          obs = (type 0) no decoder object (raw, cri, postgres, auto) | (type 1 t') a decoder whose Type() is t' | (type 2) error

import (
	"strings"
	_ "unsafe"

	"github.com/ozontech/file.d/decoder"

	"verif/harness/hmain"
	"verif/harness/hx"
)

//go:linkname c12JSONCutKeep github.com/ozontech/file.d/decoder.jsonCutKeep
func c12JSONCutKeep(content []byte, limit int) int

func execJSONKeep(cs hx.Sx) hx.Sx {
	it := hx.Items(cs)
	limit, content := int(hx.Int(it[0])), hx.Bytes(it[1])
	return framed(content, func(line []byte) hx.Sx {
		return hx.L(hx.I(0), hx.I(c12JSONCutKeep(line, limit)))
	})
}

func execJSONArgs(cs hx.Sx) hx.Sx {
	it := hx.Items(cs)
	mode, data := int(hx.Int(it[0])), hx.Bytes(it[1])
	d := getDec("json-plain", func() (decoder.Decoder, error) { return newByName("json", decoder.Params{}) })
	return framed(data, func(line []byte) hx.Sx {
		var err error
		var res any
		if mode == 0 {
			res, err = d.Decode(line)
		} else {
			res, err = d.Decode(line, "not a root")
		}
		switch {
		case err == nil:
			return hx.L(hx.I(0), hx.Bool(res != nil))
		case strings.Contains(err.Error(), "empty args"):
			return errObs(1)
		case strings.Contains(err.Error(), "invalid args"):
			return errObs(2)
		}
		return errObs(99)
	})
}

func execSelect(cs hx.Sx) hx.Sx {
	name := hx.Str(cs)
	var out hx.Sx
	if p := hx.Catch(func() {
		t := decoder.TypeFromString(name)
		var params decoder.Params
		if t == decoder.PROTOBUF {
			params = protoParams(0)
		}
		d, err := decoder.New(t, params)
		switch {
		case err != nil:
			out = hx.L(hx.I(int(t)), hx.I(2))
		case d == nil:
			out = hx.L(hx.I(int(t)), hx.I(0))
		default:
			out = hx.L(hx.I(int(t)), hx.I(1), hx.I(int(d.Type())))
		}
	}); p != "" {
		return hx.L(hx.I(2), hx.S(p))
	}
	return out
}

func genSmall(c *hmain.Ctx) {
	// ---- decoder-select: the ten names of decoder.go, every proper prefix and one-byte extension of them, other spellings
	// (case, white space, the Go constant names, ""): which Type the name resolves to, what New builds for it, and the
	// Type() that decoder reports. Would expose: two names swapped in TypeFromString or New, a decoder reporting another
	// type than it was asked for (Pipeline.In's switch goes by the pipeline's type, the decode action by Type()).
	names := decTypeNames[1:]
	seen := map[string]bool{}
	emit := func(n string) {
		if !seen[n] {
			seen[n] = true
			c.Do("decoder-select", 40, hx.S(n), true)
		}
	}
	for _, n := range names {
		emit(n)
		emit(strings.ToUpper(n))
		emit(" " + n)
		emit(n + "\n")
		for i := 0; i < len(n); i++ {
			emit(n[:i])
		}
		for _, x := range []string{"_", "1", "s", " "} {
			emit(n + x)
		}
	}
	for _, n := range []string{"", "no", "NO", "nginx", "syslog", "rfc3164", "rfc5424", "syslog_rfc", "syslog-rfc3164", "protobuff", "k8s", "jsonl", "tsv", "JSON", "Raw"} {
		emit(n)
	}
	// ---- json-decode-args: the argument check of jsonDecoder.Decode (json.go:65-72)
	for _, doc := range []string{"", "{}", `{"a":1}`, "nope"} {
		c.Do("json-decode-args", 37, hx.L(hx.I(0), hx.S(doc)), true)
		c.Do("json-decode-args", 37, hx.L(hx.I(1), hx.S(doc)), true)
	}
	// ---- json-keep-exhaustive: jsonCutKeep on every content of up to 4 pieces out of {a, \, \n, é, u, "} x every limit
	// 0..len+2 (the limits at and beyond the length take the first branch, json.go:151). The contents include text that is
	// NOT valid escaped content (a lone backslash at the end, \u cut short): the scan must stay inside the content.
	pieces := []string{"a", "\\", "\\n", "\\u00e9", "u", "\""}
	n := 4
	if c.Tier == "thorough" {
		n = 5
	}
	enum(pieces, n, nil, func(b []byte) {
		for limit := 0; limit <= len(b)+2; limit++ {
			c.Do("json-keep-exhaustive", 9, hx.L(hx.I(limit), hx.B(b)), len(b) > 0)
		}
	})
}
