package main

// Rule trees: Go-side representation, exchange encoding (see coq/Model/DoIf.v glue) and the two
// ways of building the REAL doif nodes (NewFromMap; the New*Node constructors).

import (
	"errors"
	"strings"
	"time"

	"github.com/ozontech/file.d/pipeline/doif"
	insaneJSON "github.com/ozontech/insane-json"

	"verif/harness/hx"
)

const (
	kField = 0
	kLen   = 1
	kTs    = 2
	kType  = 3
	kAnd   = 4
	kOr    = 5
	kNot   = 6
)

var fopNames = []string{"equal", "contains", "contains_any", "prefix", "suffix", "regex"}
var cmpNames = []string{"lt", "le", "gt", "ge", "eq", "ne"}
var lenNames = []string{"byte_len_cmp", "array_len_cmp", "int_val_cmp"}
var logNames = map[int]string{kAnd: "and", kOr: "or", kNot: "not"}

type rnode struct {
	kind   int
	op     int // field op / len op
	path   []string
	cs     bool
	vals   []*string // nil pointer = nil value
	cmp    int
	value  int64
	format string
	mode   int   // ts: 0 const, 1 now
	a      int64 // ts: constant (ns) or update interval (ns)
	shift  int64
	types  []string
	ops    []*rnode
}

func sp(s string) *string { return &s }

func pathSx(p []string) hx.Sx { return hx.Ss(p) }

func (n *rnode) sx() hx.Sx {
	switch n.kind {
	case kField:
		vs := make([]hx.Sx, len(n.vals))
		for i, v := range n.vals {
			if v == nil {
				vs[i] = hx.I(0)
			} else {
				vs[i] = hx.S(*v)
			}
		}
		return hx.L(hx.I(0), hx.I(n.op), pathSx(n.path), hx.Bool(n.cs), hx.L(vs...))
	case kLen:
		return hx.L(hx.I(1), hx.I(n.op), pathSx(n.path), hx.I(n.cmp), hx.Z(n.value))
	case kTs:
		return hx.L(hx.I(2), pathSx(n.path), hx.S(n.format), hx.I(n.cmp), hx.I(n.mode), hx.Z(n.a), hx.Z(n.shift))
	case kType:
		return hx.L(hx.I(3), pathSx(n.path), hx.Ss(n.types))
	case kBad:
		return hx.L(hx.I(kBad), hx.I(n.op))
	default:
		items := []hx.Sx{hx.I(n.kind)}
		for _, o := range n.ops {
			items = append(items, o.sx())
		}
		return hx.L(items...)
	}
}

func strsOf(s hx.Sx) []string {
	var out []string
	for _, x := range hx.Items(s) {
		out = append(out, hx.Str(x))
	}
	return out
}

func nodeFromSx(s hx.Sx) *rnode {
	it := hx.Items(s)
	k := int(hx.Int(it[0]))
	n := &rnode{kind: k}
	switch k {
	case kField:
		n.op = int(hx.Int(it[1]))
		n.path = strsOf(it[2])
		n.cs = hx.Truth(it[3])
		for _, v := range hx.Items(it[4]) {
			if hx.IsInt(v) {
				n.vals = append(n.vals, nil)
			} else {
				n.vals = append(n.vals, sp(hx.Str(v)))
			}
		}
	case kLen:
		n.op = int(hx.Int(it[1]))
		n.path = strsOf(it[2])
		n.cmp = int(hx.Int(it[3]))
		n.value = hx.Int(it[4])
	case kTs:
		n.path = strsOf(it[1])
		n.format = hx.Str(it[2])
		n.cmp = int(hx.Int(it[3]))
		n.mode = int(hx.Int(it[4]))
		n.a = hx.Int(it[5])
		n.shift = hx.Int(it[6])
	case kType:
		n.path = strsOf(it[1])
		n.types = strsOf(it[2])
	case kBad:
		n.op = int(hx.Int(it[1]))
	default:
		for _, o := range it[1:] {
			n.ops = append(n.ops, nodeFromSx(o))
		}
	}
	return n
}

func (n *rnode) walk(f func(*rnode)) {
	f(n)
	for _, o := range n.ops {
		o.walk(f)
	}
}

func (n *rnode) depth() int {
	d := 0
	for _, o := range n.ops {
		if x := o.depth(); x > d {
			d = x
		}
	}
	return d + 1
}

// selector spelling of a path: dots inside a key are shielded with a backslash
func selector(p []string) string {
	parts := make([]string, len(p))
	for i, k := range p {
		parts[i] = strings.ReplaceAll(k, ".", `\.`)
	}
	return strings.Join(parts, ".")
}

// ---- real construction ------------------------------------------------------------------------

// the full spelling: every key written out, values always a list
func (n *rnode) toMap() map[string]any { return n.spell(false, false) }

func (n *rnode) toNode() (doif.Node, error) {
	switch n.kind {
	case kBad:
		return badCtor(n.op)
	case kField:
		vs := make([][]byte, len(n.vals))
		for i, v := range n.vals {
			if v != nil {
				vs[i] = []byte(*v)
			}
		}
		return doif.NewFieldOpNode(fopNames[n.op], selector(n.path), n.cs, vs)
	case kLen:
		return doif.NewLenCmpOpNode(lenNames[n.op], selector(n.path), cmpNames[n.cmp], int(n.value))
	case kTs:
		mode := "const"
		var cv time.Time
		interval := 10 * time.Second
		switch n.mode {
		case 1:
			mode = "now"
			interval = time.Duration(n.a)
		case 2:
			cv = time.Now() // what ctor.go does for the value "file_d_start"
		default:
			cv = time.Unix(0, n.a)
		}
		return doif.NewTsCmpOpNode(selector(n.path), n.format, cmpNames[n.cmp], mode, cv, time.Duration(n.shift), interval)
	case kType:
		vs := make([][]byte, len(n.types))
		for i, v := range n.types {
			vs[i] = []byte(v)
		}
		return doif.NewCheckTypeOpNode(selector(n.path), vs)
	default:
		var ops []doif.Node
		for _, o := range n.ops {
			x, err := o.toNode()
			if err != nil {
				return nil, err
			}
			ops = append(ops, x)
		}
		return doif.NewLogicalNode(logNames[n.kind], ops)
	}
}

type checkFn func(root *insaneJSON.Root) bool

// construct builds the real checker: via 0 = doif.NewFromMap (ctor.go), via 1 = New*Node constructors
func construct(n *rnode, via int) (checkFn, *doif.Checker, error) {
	if n.hasBusyLoop() {
		return nil, nil, errors.New("harness: now-mode ts node with a zero update interval would spin")
	}
	if via == 0 {
		c, err := doif.NewFromMap(n.toMap())
		if err != nil {
			return nil, nil, err
		}
		return func(root *insaneJSON.Root) bool { return c.Check(doif.NewEventData(root)) }, c, nil
	}
	nd, err := n.toNode()
	if err != nil {
		return nil, nil, err
	}
	return func(root *insaneJSON.Root) bool { return nd.Check(doif.NewEventData(root)) }, nil, nil
}

func (n *rnode) hasBusyLoop() bool {
	bad := false
	n.walk(func(x *rnode) {
		if x.kind == kTs && x.mode == 1 && x.a <= 0 {
			bad = true
		}
	})
	return bad
}
