// Intentionally empty: its presence lets config.go declare the body-less, link-named fd readers of config.go.
