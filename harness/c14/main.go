package main

// C14 — action selection follows the documented boolean semantics.
// Real code: doif.NewFromMap / New*Node + Check, processor.isMatch (through the add-only
// pipeline/verif_export_c14.go), fd.SetupActions + a real pipeline with a discard action.
// The model (coq/Model/DoIf.v, MatchFields.v) gets the same rule and event as sx plus the values of
// the external functions (ToLower, regexp, ContainsAny, ParseTime, AsInt) on this case's strings.

import (
	"bytes"
	"math/big"
	"reflect"
	"strconv"
	"time"

	"github.com/ozontech/file.d/cfg"
	insaneJSON "github.com/ozontech/insane-json"

	"verif/harness/hmain"
	"verif/harness/hx"
)

// nominal clock handed to the model for ts_cmp "now": cases keep every now-mode comparison at least
// three years away from it, so the verdict is the same for any real clock within that margin
var nominalNow = time.Date(2026, 9, 25, 0, 0, 0, 0, time.UTC).UnixNano()

const year = int64(365 * 24 * 3600 * 1e9)

type harn struct {
	c *hmain.Ctx
	g *gen
}

// Timestamps outside the int64-nanosecond range are judged against the exact instant (stream 'ts-out-of-range'; the
// wrap-around was repaired by 1c054cc: the code saturates to MinInt64 / MaxInt64, which keeps the order against every
// constant strictly inside the range). Left out: such a timestamp against a constant that IS one of the two
// saturation points (exactly MinInt64 / MaxInt64 ns), where the saturated comparison says "equal".
func (h *harn) holdBack(f flags) bool {
	if f.tsSat {
		h.c.W.Count("skipped_ts_out_of_range_vs_saturation_point")
		return true
	}
	return false
}

func asciiLower(b []byte) []byte {
	out := make([]byte, len(b))
	for i, c := range b {
		if 'A' <= c && c <= 'Z' {
			c += 32
		}
		out[i] = c
	}
	return out
}

// checks that make the case usable: selectors parse back to the paths, the event text decodes to the
// tree the model is given, bytes.ToLower is the byte-wise map on the ASCII strings of the case
func (h *harn) usable(trees []*rnode, conds []cond, evs []hx.Sx) bool {
	w := h.c.W
	ok := true
	chk := func(p []string) {
		got := cfg.ParseFieldSelector(selector(p))
		good := reflect.DeepEqual(got, p) || (len(got) == 0 && len(p) == 0)
		w.Oracle("cfg.ParseFieldSelector(selector(path)) = path", good, selector(p))
		ok = ok && good
	}
	for _, t := range trees {
		t.walk(func(x *rnode) {
			if x.kind < kAnd {
				chk(x.path)
			}
			if x.kind == kField && !x.cs {
				for _, v := range x.vals {
					if b := valBytes(v); isASCII(b) {
						w.Oracle("bytes.ToLower is the byte-wise A-Z map on ASCII input", bytes.Equal(bytes.ToLower(b), asciiLower(b)), string(b))
					}
				}
			}
		})
	}
	for _, c := range conds {
		chk(c.path)
	}
	for _, ev := range evs {
		root := decode(ev)
		good := root != nil && hx.String(hx.JSON(root.Node)) == hx.String(ev)
		if root != nil {
			insaneJSON.Release(root)
		}
		w.Oracle("insane-json decodes the event text to the tree given to the model", good, hx.JSONText(ev))
		ok = ok && good
		for _, t := range trees {
			t.walk(func(x *rnode) {
				if x.kind == kField && !x.cs {
					if d, _, _ := jData(ev, x.path); isASCII(d) {
						w.Oracle("bytes.ToLower is the byte-wise A-Z map on ASCII input", bytes.Equal(bytes.ToLower(d), asciiLower(d)), string(d))
					}
				}
			})
		}
	}
	if !ok {
		w.Count("skipped_unusable_case")
	}
	return ok
}

// keep now-mode comparisons far from the clock (else make the node a constant-mode one)
func settleClock(t *rnode, evs []hx.Sx) {
	t.walk(func(x *rnode) {
		if x.kind != kTs || x.mode == 0 {
			return
		}
		tb := newTables()
		for _, ev := range evs {
			tb.addTree(&rnode{kind: kTs, path: x.path, format: x.format}, ev)
		}
		rhs := nominalNow + x.a + x.shift // mode 2 (file_d_start): a = 0
		for _, v := range tb.tm {
			if v != nil && new(big.Int).Abs(new(big.Int).Sub(v, big.NewInt(rhs))).Cmp(big.NewInt(3*year)) < 0 {
				x.mode, x.a = 0, nominalNow
				return
			}
		}
	})
}

// bit 1 of `via`: the side conditions of c14_check_eq_eval (lower_hyp, cont_ok) hold on this case by the
// harness' evaluation with the real bytes.ToLower; the extracted model re-evaluates its own definition
func hypBit(f flags) int {
	if f.hypFail || f.contHit {
		return 0
	}
	return 2
}

func (h *harn) count(t *rnode) {
	w := h.c.W
	t.walk(func(x *rnode) {
		switch x.kind {
		case kField:
			w.Count("op_" + fopNames[x.op])
			if !x.cs {
				w.Count("case_insensitive_field_op")
			}
			if len(x.vals) >= 2 {
				w.Count("field_op_with_2+_values")
			}
		case kLen:
			w.Count("op_" + lenNames[x.op])
		case kTs:
			w.Count("op_ts_cmp")
		case kType:
			w.Count("op_check_type")
		case kBad:
			w.Count("malformed_node_map_" + strconv.Itoa(x.op))
		default:
			w.Count("op_" + logNames[x.kind])
		}
	})
	w.Count("tree_depth_" + string(rune('0'+t.depth())))
}

func (h *harn) check(base string, via int, t *rnode, ev hx.Sx) {
	settleClock(t, []hx.Sx{ev})
	if !h.usable([]*rnode{t}, nil, []hx.Sx{ev}) {
		return
	}
	var f flags
	classify(t, ev, &f)
	if f.escState {
		h.c.W.Count("skipped_escape_sensitive")
		return
	}
	if h.holdBack(f) {
		return
	}
	tb := newTables()
	tb.addTree(t, ev)
	h.count(t)
	if r := routeOf(via); r != rtPlain {
		h.c.W.Count("rule_read_via_" + routeNames[r])
	}
	obs := h.c.Do(route(base, f), 0, hx.L(hx.I(via|hypBit(f)), t.sx(), ev, hx.Z(nominalNow), tb.sx()), f.resolves)
	h.c.W.Count("decision_" + hx.String(obs))
}

// one antispam rule (threshold 0) over antispam data: which = 0 with the data in the place of the event
func (h *harn) checkAs(base string, via int, t *rnode, d asData) {
	if !h.usable([]*rnode{t}, nil, nil) {
		return
	}
	var f flags
	classifyAs(t, d, &f)
	tb := newTables()
	tb.addTreeAs(t, d)
	h.count(t)
	h.c.W.Count("rule_read_via_" + routeNames[routeOf(via)])
	h.c.W.Count("antispam_data_cases")
	obs := h.c.Do(route(base, f), 0, hx.L(hx.I(via|hypBit(f)), t.sx(), d.sx(), hx.Z(nominalNow), tb.sx()), f.resolves)
	h.c.W.Count("antispam_decision_" + hx.String(obs))
}

func (h *harn) seq(base string, via int, ts []*rnode, evs []hx.Sx, allowEsc bool) {
	for _, t := range ts {
		settleClock(t, evs)
	}
	if !h.usable(ts, nil, evs) {
		return
	}
	var f flags
	tb := newTables()
	for _, ev := range evs {
		for _, t := range ts {
			classify(t, ev, &f)
			tb.addTree(t, ev)
		}
	}
	if f.escState && !allowEsc {
		h.c.W.Count("skipped_escape_sensitive")
		return
	}
	if h.holdBack(f) {
		return
	}
	var tsx []hx.Sx
	for _, t := range ts {
		tsx = append(tsx, t.sx())
		h.count(t)
	}
	h.c.W.Count("sequence_pairs")
	h.c.Do(route(base, f), 1, hx.L(hx.I(via|hypBit(f)), hx.L(tsx...), hx.L(evs...), hx.Z(nominalNow), tb.sx()), f.resolves)
}

// a chain of probe actions, each with its own selector and result script, over the events of one stream
func (h *harn) chain(base string, via int, acts []chainAct, evs []hx.Sx) {
	var ts []*rnode
	for _, a := range acts {
		if a.tree != nil {
			settleClock(a.tree, evs)
			ts = append(ts, a.tree)
		}
	}
	if !h.usable(ts, nil, evs) {
		return
	}
	var f flags
	tb := newTables()
	for _, ev := range evs {
		for _, t := range ts {
			classify(t, ev, &f)
			tb.addTree(t, ev)
		}
	}
	if f.escState || f.hypFail || f.contHit || f.tsRange || h.holdBack(f) {
		h.c.W.Count("chain_skipped_known_divergence")
		return
	}
	for _, t := range ts {
		h.count(t)
	}
	for _, a := range acts {
		for _, r := range a.script {
			h.c.W.Count("chain_result_" + []string{"pass", "break", "discard", "collapse"}[r])
		}
		switch {
		case a.tree == nil && a.badVal == "":
			h.c.W.Count("chain_action_without_selector")
		case a.badVal != "":
			h.c.W.Count("chain_action_with_malformed_match_fields")
		}
	}
	h.c.W.Count("chain_actions_" + strconv.Itoa(len(acts)))
	obs := h.c.Do(base, 1, hx.L(hx.I(via|hypBit(f)), chainSx(acts), hx.L(evs...), hx.Z(nominalNow), tb.sx()), true)
	if !hx.IsInt(obs) {
		for _, row := range hx.Items(obs) {
			if !hx.IsInt(row) && len(hx.Items(row)) == 2 {
				for i, b := range hx.Items(hx.Items(row)[0]) {
					if hx.Truth(b) {
						h.c.W.Count("chain_entered_action_" + strconv.Itoa(i))
					}
				}
			}
		}
	}
}

func (h *harn) proc(base string, which int, t *rnode, mode string, invert bool, cs []cond, evs []hx.Sx) {
	inner, f, ok := h.procCase(t, mode, invert, cs, evs)
	if !ok {
		return
	}
	h.c.Do(route(base, f), which, inner, f.resolves)
}

// the case of which = 2 / 3 (also the inner case of which = 5): checks, oracle tables, counters
func (h *harn) procCase(t *rnode, mode string, invert bool, cs []cond, evs []hx.Sx) (hx.Sx, flags, bool) {
	var f flags
	var trees []*rnode
	tsx := hx.Sx(hx.I(0))
	if t != nil {
		settleClock(t, evs)
		trees = []*rnode{t}
	}
	if !h.usable(trees, cs, evs) {
		return nil, f, false
	}
	tb := newTables()
	for _, ev := range evs {
		if t != nil {
			classify(t, ev, &f)
			tb.addTree(t, ev)
		}
		tb.addConds(cs, ev)
		for _, c := range cs {
			if _, ok := jDig(ev, c.path); ok {
				f.resolves = true
			}
		}
	}
	if len(evs) == 0 {
		tb.addConds(cs, jObj())
	}
	if f.escState || h.holdBack(f) {
		return nil, f, false
	}
	if t != nil {
		tsx = t.sx()
		h.count(t)
	}
	var csx []hx.Sx
	for _, c := range cs {
		csx = append(csx, c.sx())
		if c.re != nil {
			h.c.W.Count("legacy_regexp_condition")
		} else {
			h.c.W.Count("legacy_values_condition")
		}
	}
	h.c.W.Count("legacy_mode_" + mode)
	return hx.L(tsx, hx.S(mode), hx.Bool(invert), hx.L(csx...), hx.L(evs...), hx.Z(nominalNow), tb.sx()), f, true
}

func c14Gen(c *hmain.Ctx) {
	// hx.Rng streams of consecutive seeds are one-draw shifts of each other (state = seed*gamma + c,
	// step = +gamma) and re-align after any data-dependent number of draws; forking through the mixed
	// output gives every seed an unrelated stream
	c.R = c.R.Fork()
	h := &harn{c: c, g: &gen{r: c.R}}
	genExhaustive(h)
	genTargeted(h)
	genRandom(h)
	genThresholds(h)
	genCoverage(h)
	genMatchCfg(h)
	genShared(h)
}

func main() {
	// what cmd/file.d/file.d.go:96-97 sets before anything is decoded: with the library default of 128 nodes no event of
	// this harness would ever make a Root grow its node pool; with 16 the wide events walk the 16/32/64/128 expansions
	insaneJSON.DisableBeautifulErrors = true
	insaneJSON.StartNodePoolSize = 16
	hmain.Run(&hmain.Prop{ID: "C14",
		Rule: "exhaustive: every equal/contains/prefix/suffix node (case-sensitive and not) over every list of 1-2 values from {nil, strings over {a,B} up to length 2} x every field from {absent, null, 1, {}, strings over {a,B} up to length 3}; every and/or/not tree of depth <= 2 and width <= 2 over a true and a false leaf; every type check x every kind of field. random: trees of depth <= 6 over all operators with values derived from the event's own strings (shared prefixes, equal lengths, other case, multi-byte), events with absent/null/number/bool/object/array fields; sequences of checkers over sequences of events; legacy match_fields through processor.isMatch and through a real pipeline with a discard action; constructor-rejected rules. thresholds: events of 15-33 fields (insane-json map index from 17 fields on) alternating with narrow ones on one Root, through doif and through processor.isMatch; int_val_cmp on integers of 17-20 digits and around 2^31, 2^32, 2^53, 2^63; timestamps at both ends of the int64-nanosecond range; ts_cmp `now` with a 2 ms update interval and pauses between events. coverage round: the same rules x events with the rule written tersely (documented defaults left out, scalar values) / as JSON text / with float numbers / inside the antispam section of a pipeline settings object, read by doif.NewFromMap, fd.extractDoIfChecker, fd.extractAntispamRules, fd.extractPipelineParams; 36 malformed node maps and 6 constructor calls with unknown names, alone and under and/or/not; antispam rules (threshold 0) over (record bytes, source name, meta map) through Antispammer.IsSpam and Pipeline.In; chains of 1-4 probe actions, each with its own do_if selector (or none) and result script (pass / break / discard / collapse), over 3-8 events of one stream in a real pipeline. round 5: the match_fields map as written (every value a JSON tree: scalar string, list of 0-6 strings, nested list, number, bool, null, object; strings of every class: plain, empty, between slashes, leading slash only, '/', '//', not compiling, metacharacters, blanks, multi-byte) x every match mode x invert, read by fd.extractConditions (translation observed) + processor.isMatch and by fd.SetupActions in a real pipeline. round 6: rule immutability (the conditions / do_if tree read back after the events of every which = 2 / 4 / 5 case are the configured ones, values in order) and stream `shared-rule`: one rule (value lists of 2-12 values, optional second condition, every mode x invert, one case in four with a do_if tree) shared by 2-8 goroutines that evaluate events matching different non-first values 2*10^5 times at once, then a sequential sweep. Non-trivial = at least one leaf's (condition's) field exists in the event; distinct = distinct (sub-model, case) text.",
		Gen:  c14Gen, Exec: c14Exec})
}
