package main

// Harness-side reading of events (the exchange encoding of coq/Base/Json.v), the oracle tables the
// model consults (bytes.ToLower, regexp, bytes.ContainsAny, xtime.ParseTime, insane-json AsInt),
// and the classification of a case by the side conditions of the theorem.

import (
	"bytes"
	"math"
	"math/big"
	"regexp"
	"sort"
	"strconv"
	"time"

	"github.com/ozontech/file.d/xtime"
	insaneJSON "github.com/ozontech/insane-json"

	"verif/harness/hx"
)

func jNull() hx.Sx            { return hx.I(0) }
func jBool(b bool) hx.Sx      { return hx.L(hx.I(1), hx.Bool(b)) }
func jNum(s string) hx.Sx     { return hx.L(hx.I(2), hx.S(s)) }
func jStr(s string) hx.Sx     { return hx.L(hx.I(3), hx.S(s)) }
func jArr(xs ...hx.Sx) hx.Sx  { return hx.L(append([]hx.Sx{hx.I(4)}, xs...)...) }
func jKV(k string, v hx.Sx) hx.Sx { return hx.L(hx.S(k), v) }
func jObj(kvs ...hx.Sx) hx.Sx { return hx.L(append([]hx.Sx{hx.I(5)}, kvs...)...) }

// kind: 0 null 1 bool 2 num 3 str 4 arr 5 obj
func jKind(v hx.Sx) int {
	if hx.IsInt(v) {
		return 0
	}
	return int(hx.Int(hx.Items(v)[0]))
}

func jDig(v hx.Sx, path []string) (hx.Sx, bool) {
	for _, k := range path {
		switch jKind(v) {
		case 5:
			found := false
			for _, f := range hx.Items(v)[1:] {
				kv := hx.Items(f)
				if hx.Str(kv[0]) == k {
					v, found = kv[1], true
					break
				}
			}
			if !found {
				return nil, false
			}
		case 4:
			el := hx.Items(v)[1:]
			i, err := strconv.Atoi(k)
			if err != nil || i < 0 || i >= len(el) {
				return nil, false
			}
			v = el[i]
		default:
			return nil, false
		}
	}
	return v, true
}

// AsString of a scalar
func jText(v hx.Sx) string {
	switch jKind(v) {
	case 0:
		return "null"
	case 1:
		if hx.Truth(hx.Items(v)[1]) {
			return "true"
		}
		return "false"
	case 2, 3:
		return hx.Str(hx.Items(v)[1])
	}
	return ""
}

// field data as eventData.Get documents it: absent (nil), container, or bytes
func jData(ev hx.Sx, path []string) (data []byte, absent, container bool) {
	v, ok := jDig(ev, path)
	if !ok || jKind(v) == 0 {
		return nil, true, false
	}
	if k := jKind(v); k == 4 || k == 5 {
		return []byte{0}, false, true
	}
	return []byte(jText(v)), false, false
}

func isASCII(b []byte) bool {
	for _, c := range b {
		if c >= 0x80 {
			return false
		}
	}
	return true
}

func needsEscape(s string) bool {
	for i := 0; i < len(s); i++ {
		if c := s[i]; c < 0x20 || c == '"' || c == '\\' {
			return true
		}
	}
	return false
}

// a string or key with an escape sequence somewhere inside v
func hasEscapes(v hx.Sx) bool {
	switch jKind(v) {
	case 3:
		return needsEscape(hx.Str(hx.Items(v)[1]))
	case 4:
		for _, x := range hx.Items(v)[1:] {
			if hasEscapes(x) {
				return true
			}
		}
	case 5:
		for _, f := range hx.Items(v)[1:] {
			kv := hx.Items(f)
			if needsEscape(hx.Str(kv[0])) || hasEscapes(kv[1]) {
				return true
			}
		}
	}
	return false
}

type cond struct {
	path []string
	vals []string
	re   *string
	nums []int64 // list elements that are not strings (config form only, which = 3): appended after the strings
}

func (c cond) sx() hx.Sx {
	r := hx.Sx(hx.I(0))
	if c.re != nil {
		r = hx.S(*c.re)
	}
	vs := hx.Items(hx.Ss(c.vals))
	for _, n := range c.nums {
		vs = append(vs, hx.Z(n))
	}
	return hx.L(pathSx(c.path), hx.L(vs...), r)
}

func condFromSx(s hx.Sx) cond {
	it := hx.Items(s)
	c := cond{path: strsOf(it[0])}
	for _, v := range hx.Items(it[1]) {
		if hx.IsInt(v) {
			c.nums = append(c.nums, hx.Int(v))
		} else {
			c.vals = append(c.vals, hx.Str(v))
		}
	}
	if !hx.IsInt(it[2]) {
		c.re = sp(hx.Str(it[2]))
	}
	return c
}

// ---- oracle tables ------------------------------------------------------------------------------

type tables struct {
	lower map[string]string
	re    map[[2]string]bool
	reok  map[string]bool
	any   map[[2]string]bool
	tm    map[[2]string]*big.Int
	it    map[string]int64
	reC   map[string]*regexp.Regexp
}

func newTables() *tables {
	return &tables{lower: map[string]string{}, re: map[[2]string]bool{}, reok: map[string]bool{}, any: map[[2]string]bool{},
		tm: map[[2]string]*big.Int{}, it: map[string]int64{}, reC: map[string]*regexp.Regexp{}}
}

func (t *tables) addLower(b []byte) []byte {
	lo := bytes.ToLower(b)
	if !isASCII(b) {
		t.lower[string(b)] = string(lo)
	}
	return lo
}

func (t *tables) compile(p string) *regexp.Regexp {
	if re, ok := t.reC[p]; ok {
		return re
	}
	re, err := regexp.Compile(p)
	if err != nil {
		re = nil
	}
	t.reC[p] = re
	t.reok[p] = re != nil
	return re
}

func (t *tables) addRe(p string, data []byte) {
	re := t.compile(p)
	t.re[[2]string{p, string(data)}] = re != nil && re.Match(data)
}

func maxRawLen(vals []*string) int {
	m := 0
	for i, v := range vals {
		l := 0
		if v != nil {
			l = len(*v)
		}
		if i == 0 || l > m {
			m = l
		}
	}
	return m
}

func valBytes(v *string) []byte {
	if v == nil {
		return nil
	}
	return []byte(*v)
}

func realAsInt(v hx.Sx) int64 {
	root := insaneJSON.Spawn()
	defer insaneJSON.Release(root)
	if err := root.DecodeString(hx.JSONText(v)); err != nil {
		return 0
	}
	return int64(root.AsInt())
}

// the oracle values one field operation may consult on the data its path selects
func (t *tables) addField(x *rnode, data []byte) {
	lx := data
	if !x.cs {
		lx = t.addLower(data)
		m := maxRawLen(x.vals)
		if m < len(data) {
			t.addLower(data[:m])
			t.addLower(data[len(data)-m:])
		}
		for _, v := range x.vals {
			t.addLower(valBytes(v))
		}
	}
	switch x.op {
	case 5:
		for _, v := range x.vals {
			t.addRe(string(valBytes(v)), data)
		}
	case 2:
		for _, v := range x.vals {
			lc := valBytes(v)
			if !x.cs {
				lc = bytes.ToLower(lc)
			}
			t.any[[2]string{string(lx), string(lc)}] = bytes.ContainsAny(lx, string(lc))
		}
	}
}

// antispam data: only the field operations consult oracles
func (t *tables) addTreeAs(n *rnode, d asData) {
	n.walk(func(x *rnode) {
		if x.kind == kField {
			data, _ := d.get(x.path)
			t.addField(x, data)
		}
	})
}

func (t *tables) addTree(n *rnode, ev hx.Sx) {
	n.walk(func(x *rnode) {
		switch x.kind {
		case kField:
			data, _, _ := jData(ev, x.path)
			t.addField(x, data)
		case kLen:
			if x.op == 2 {
				if v, ok := jDig(ev, x.path); ok && (jKind(v) == 2 || jKind(v) == 3) {
					t.it[jText(v)] = realAsInt(v)
				}
			}
		case kTs:
			if v, ok := jDig(ev, x.path); ok && jKind(v) == 3 {
				layout, err := xtime.ParseFormatName(x.format)
				if err != nil {
					layout = x.format
				}
				key := [2]string{x.format, jText(v)}
				if tv, err := xtime.ParseTime(layout, jText(v)); err == nil {
					t.tm[key] = unixNanoExact(tv)
				} else {
					t.tm[key] = nil
				}
			}
		}
	})
}

func (t *tables) addConds(cs []cond, ev hx.Sx) {
	for _, c := range cs {
		if c.re == nil {
			continue
		}
		t.compile(*c.re)
		if v, ok := jDig(ev, c.path); ok {
			t.addRe(*c.re, []byte(jText(v)))
		}
	}
}

func sortedKeys2(m map[[2]string]bool) [][2]string {
	ks := make([][2]string, 0, len(m))
	for k := range m {
		ks = append(ks, k)
	}
	sort.Slice(ks, func(i, j int) bool { return ks[i][0]+"\x00"+ks[i][1] < ks[j][0]+"\x00"+ks[j][1] })
	return ks
}

func (t *tables) sx() hx.Sx {
	var lo, re, reok, any, tm, it []hx.Sx
	for _, k := range hx.SortedKeys(t.lower) {
		lo = append(lo, hx.L(hx.S(k), hx.S(t.lower[k])))
	}
	for _, k := range sortedKeys2(t.re) {
		re = append(re, hx.L(hx.S(k[0]), hx.S(k[1]), hx.Bool(t.re[k])))
	}
	for _, k := range hx.SortedKeys(t.reok) {
		reok = append(reok, hx.L(hx.S(k), hx.Bool(t.reok[k])))
	}
	for _, k := range sortedKeys2(t.any) {
		any = append(any, hx.L(hx.S(k[0]), hx.S(k[1]), hx.Bool(t.any[k])))
	}
	tk := make([][2]string, 0, len(t.tm))
	for k := range t.tm {
		tk = append(tk, k)
	}
	sort.Slice(tk, func(i, j int) bool { return tk[i][0]+"\x00"+tk[i][1] < tk[j][0]+"\x00"+tk[j][1] })
	for _, k := range tk {
		if v := t.tm[k]; v != nil {
			tm = append(tm, hx.L(hx.S(k[0]), hx.S(k[1]), hx.L(hx.MustParse(v.String()))))
		} else {
			tm = append(tm, hx.L(hx.S(k[0]), hx.S(k[1]), hx.I(0)))
		}
	}
	for _, k := range hx.SortedKeys(t.it) {
		it = append(it, hx.L(hx.S(k), hx.Z(t.it[k])))
	}
	return hx.L(hx.L(lo...), hx.L(re...), hx.L(reok...), hx.L(any...), hx.L(tm...), hx.L(it...))
}

// ---- classification by the side conditions of c14_check_eq_eval ---------------------------------

type flags struct {
	hypFail  bool // bytes.ToLower changes a byte length / does not commute with the truncation here
	contHit  bool // a field op accepts the placeholder byte of an array/object field
	escState bool // byte_len_cmp over a container that holds an escape sequence
	resolves bool // some leaf's field exists in the event
	tsRange  bool // ts_cmp over a field whose instant is not representable as int64 nanoseconds (before 1677-09-21 / after 2262-04-11)
	tsSat    bool // ... and the constant it is compared with is exactly MinInt64 or MaxInt64 nanoseconds
}

func lenKept(b []byte) bool { return len(bytes.ToLower(b)) == len(b) }

// the side condition fhyp of the theorem, evaluated with the real bytes.ToLower
func fieldHypOK(x *rnode, data []byte) bool {
	if x.cs {
		return true
	}
	ok := lenKept(data)
	for _, v := range x.vals {
		ok = ok && lenKept(valBytes(v))
	}
	m := maxRawLen(x.vals)
	if m < len(data) {
		lo := bytes.ToLower(data)
		if x.op == 3 && ok {
			ok = bytes.Equal(bytes.ToLower(data[:m]), lo[:m])
		}
		if x.op == 4 && ok {
			ok = bytes.Equal(bytes.ToLower(data[len(data)-m:]), lo[len(lo)-m:])
		}
	}
	return ok
}

func classifyAs(n *rnode, d asData, f *flags) {
	n.walk(func(x *rnode) {
		if x.kind != kField {
			return
		}
		data, absent := d.get(x.path)
		if !absent {
			f.resolves = true
		}
		if !fieldHypOK(x, data) {
			f.hypFail = true
		}
	})
}

func classify(n *rnode, ev hx.Sx, f *flags) {
	n.walk(func(x *rnode) {
		if x.kind >= kAnd {
			return
		}
		if _, ok := jDig(ev, x.path); ok {
			f.resolves = true
		}
		switch x.kind {
		case kField:
			data, _, container := jData(ev, x.path)
			if container {
				if placeholderAccepted(x) {
					f.contHit = true
				}
				return
			}
			if !fieldHypOK(x, data) {
				f.hypFail = true
			}
		case kLen:
			if x.op == 0 {
				if v, ok := jDig(ev, x.path); ok && jKind(v) >= 4 && hasEscapes(v) {
					f.escState = true
				}
			}
		case kTs:
			if v, ok := jDig(ev, x.path); ok && jKind(v) == 3 {
				layout, err := xtime.ParseFormatName(x.format)
				if err != nil {
					layout = x.format
				}
				if tv, err := xtime.ParseTime(layout, jText(v)); err == nil && !unixNanoExact(tv).IsInt64() {
					f.tsRange = true
					if x.mode == 0 {
						rhs := new(big.Int).Add(big.NewInt(x.a), big.NewInt(x.shift))
						if !rhs.IsInt64() || rhs.Int64() == math.MinInt64 || rhs.Int64() == math.MaxInt64 {
							f.tsSat = true
						}
					}
				}
			}
		}
	})
}

// the instant as a count of nanoseconds since the Unix epoch, exactly (time.Time.UnixNano is this number
// whenever it fits an int64 and is undefined otherwise)
func unixNanoExact(tv time.Time) *big.Int {
	ns := new(big.Int).Mul(big.NewInt(tv.Unix()), big.NewInt(1e9))
	ns.Add(ns, big.NewInt(int64(tv.Nanosecond())))
	if ns.IsInt64() && ns.Int64() != tv.UnixNano() {
		panic("c14: time.Time.UnixNano differs from Unix()*1e9+Nanosecond() on a representable instant")
	}
	return ns
}

// would this field op accept the one-byte placeholder "\x00"? (computed from the values only)
func placeholderAccepted(x *rnode) bool {
	ph := []byte{0}
	for _, v := range x.vals {
		b := valBytes(v)
		switch x.op {
		case 0:
			if v != nil && bytes.Equal(b, ph) {
				return true
			}
		case 1, 3, 4:
			if len(b) == 0 || bytes.Equal(b, ph) {
				return true
			}
		case 2:
			if bytes.ContainsAny(ph, string(b)) {
				return true
			}
		case 5:
			if re, err := regexp.Compile(string(b)); err == nil && re.Match(ph) {
				return true
			}
		}
	}
	return false
}

func route(base string, f flags) string {
	switch {
	case f.hypFail:
		return "unicode-fold"
	case f.contHit:
		return "container-placeholder"
	case f.escState:
		return "escaped-nested-string"
	case f.tsRange:
		return "ts-out-of-range"
	}
	return base
}
