package main

// Configuration readers (coverage round): the rule of a case reaches the real code in one of several spellings and through
// one of several readers, selected by bits 2.. of `via` (the model ignores them: the meaning of a rule does not depend on how
// it was written down):
//
//	route 0  doif.NewFromMap of the full map / the New*Node constructors (bit 0), as before
//	route 1  doif.NewFromMap of the TERSE map: every documented default left out (case_sensitive true, format rfc3339nano,
//	         value_shift 0, update_interval 10s), a single value written as a scalar (string / null), an unknown extra key
//	route 2  full map -> JSON text -> simplejson -> fd.extractDoIfChecker (numbers arrive as json.Number, as in a config file)
//	route 3  terse map -> JSON text -> fd.extractDoIfChecker
//	route 4  full map with float64 numbers (what a YAML reader hands over) -> doif.NewFromMap
//	route 5  {"rules":[{"name","threshold","do_if"}]} -> fd.extractAntispamRules
//	route 6  a whole pipeline `settings` object with an antispam section -> fd.extractPipelineParams
//	route 7  (antispam data only) those settings -> pipeline.New -> Pipeline.In: refused at the entrance or not
//
// The unexported readers of package fd are reached by go:linkname (no file is added to /repo).

import (
	"encoding/json"
	"errors"
	"strconv"
	"time"
	"unicode/utf8"
	_ "unsafe"

	"github.com/bitly/go-simplejson"
	"github.com/ozontech/file.d/metric"
	"github.com/ozontech/file.d/pipeline"
	"github.com/ozontech/file.d/pipeline/antispam"
	"github.com/ozontech/file.d/pipeline/doif"
	"github.com/ozontech/file.d/plugin/input/fake"
	"github.com/ozontech/file.d/plugin/output/devnull"
	"github.com/ozontech/file.d/test"
	insaneJSON "github.com/ozontech/insane-json"
	"github.com/prometheus/client_golang/prometheus"
	"go.uber.org/zap"

	"verif/harness/hx"
)

//go:linkname fdExtractDoIfChecker github.com/ozontech/file.d/fd.extractDoIfChecker
func fdExtractDoIfChecker(actionJSON *simplejson.Json) (*doif.Checker, error)

//go:linkname fdExtractAntispamRules github.com/ozontech/file.d/fd.extractAntispamRules
func fdExtractAntispamRules(settings *simplejson.Json, antispamMaintenanceInterval time.Duration) (antispam.Rules, error)

//go:linkname fdExtractPipelineParams github.com/ozontech/file.d/fd.extractPipelineParams
func fdExtractPipelineParams(settings *simplejson.Json) *pipeline.Settings

//go:linkname fdExtractConditions github.com/ozontech/file.d/fd.extractConditions
func fdExtractConditions(condJSON *simplejson.Json) (pipeline.MatchConditions, error)

const (
	rtPlain     = 0
	rtTerse     = 1
	rtJSON      = 2
	rtTerseJSON = 3
	rtFloat     = 4
	rtRules     = 5
	rtSettings  = 6
	rtPipeline  = 7

	kBad = 7 // a node map the configuration reader refuses: (7 code)
)

var routeNames = []string{"plain", "terse_map", "json_extractDoIfChecker", "terse_json_extractDoIfChecker", "float_numbers",
	"json_extractAntispamRules", "json_extractPipelineParams", "pipeline_In"}

func viaOf(bit0, route int) int { return bit0&1 | route<<2 }
func routeOf(via int) int       { return via >> 2 }

// ---- malformed node maps --------------------------------------------------------------------------------------------------
// code < 100: a map for doif.NewFromMap (ctor.go); code >= 100: a call of a New*Node constructor with an unknown name

var badMaps = []map[string]any{
	0:  {},
	1:  {"op": 5},
	2:  {"op": "xor", "operands": []any{map[string]any{"op": "equal", "field": "a", "values": []any{"x"}}}},
	3:  {"op": "equal", "values": []any{"a"}},
	4:  {"op": "equal", "field": 7, "values": []any{"a"}},
	5:  {"op": "equal", "field": "a", "case_sensitive": "yes", "values": []any{"a"}},
	6:  {"op": "equal", "field": "a"},
	7:  {"op": "contains", "field": "a", "values": 5},
	8:  {"op": "prefix", "field": "a", "values": []any{"a", 5}},
	9:  {"op": "suffix", "field": "a", "values": map[string]any{"x": "y"}},
	10: {"op": "byte_len_cmp", "cmp_op": "lt", "value": 1},
	11: {"op": "byte_len_cmp", "field": "a", "value": 1},
	12: {"op": "array_len_cmp", "field": "a", "cmp_op": "lt"},
	13: {"op": "int_val_cmp", "field": "a", "cmp_op": "lt", "value": "1"},
	14: {"op": "byte_len_cmp", "field": "a", "cmp_op": "==", "value": 1},
	15: {"op": "array_len_cmp", "field": "a", "cmp_op": "lt", "value": json.Number("1.5")},
	16: {"op": "ts_cmp", "cmp_op": "lt", "value": "now"},
	17: {"op": "ts_cmp", "field": "a", "value": "now"},
	18: {"op": "ts_cmp", "field": "a", "cmp_op": "lt"},
	19: {"op": "ts_cmp", "field": "a", "cmp_op": "lt", "value": "yesterday"},
	20: {"op": "ts_cmp", "field": "a", "cmp_op": "lt", "value": "2020-01-01T00:00:00Z", "format": 5},
	21: {"op": "ts_cmp", "field": "a", "cmp_op": "lt", "value": "2020-01-01T00:00:00Z", "value_shift": "soon"},
	22: {"op": "ts_cmp", "field": "a", "cmp_op": "lt", "value": "2020-01-01T00:00:00Z", "value_shift": 5},
	23: {"op": "ts_cmp", "field": "a", "cmp_op": "lt", "value": "2020-01-01T00:00:00Z", "update_interval": "often"},
	24: {"op": "ts_cmp", "field": "a", "cmp_op": "lt", "value": "2020-01-01T00:00:00Z", "update_interval": 5},
	25: {"op": "ts_cmp", "field": "a", "cmp_op": "==", "value": "2020-01-01T00:00:00Z"},
	26: {"op": "ts_cmp", "field": "a", "cmp_op": "lt", "value": 5},
	27: {"op": "check_type", "values": []any{"str"}},
	28: {"op": "check_type", "field": "a"},
	29: {"op": "check_type", "field": "a", "values": 5},
	30: {"op": "and"},
	31: {"op": "and", "operands": "x"},
	32: {"op": "or", "operands": []any{"x"}},
	33: {"op": "not", "operands": []any{map[string]any{}}},
	34: {"op": "regex", "field": "a", "values": []any{nil, 5}},
	35: {"op": "int_val_cmp", "field": "a", "cmp_op": "lt", "value": []any{1}},
}

const nBadCtor = 6

func badCtor(code int) (doif.Node, error) {
	ok, _ := doif.NewFieldOpNode("equal", "a", true, [][]byte{[]byte("x")})
	switch code - 100 {
	case 0:
		return doif.NewFieldOpNode("like", "a", true, [][]byte{[]byte("x")})
	case 1:
		return doif.NewLenCmpOpNode("len_cmp", "a", "lt", 1)
	case 2:
		return doif.NewLenCmpOpNode("byte_len_cmp", "a", "=<", 1)
	case 3:
		return doif.NewTsCmpOpNode("a", "rfc3339", "less", "const", time.Unix(0, 0), 0, time.Second)
	case 4:
		return doif.NewTsCmpOpNode("a", "rfc3339", "lt", "later", time.Unix(0, 0), 0, time.Second)
	case 5:
		return doif.NewLogicalNode("xor", []doif.Node{ok})
	}
	return nil, errors.New("harness: no such constructor call")
}

// ---- spellings ------------------------------------------------------------------------------------------------------------

func (n *rnode) spell(terse, float bool) map[string]any {
	num := func(v int64) any {
		if float {
			return float64(v)
		}
		return int(v)
	}
	switch n.kind {
	case kBad:
		if n.op >= 0 && n.op < len(badMaps) {
			return badMaps[n.op]
		}
		return map[string]any{"op": 0}
	case kField:
		m := map[string]any{"op": fopNames[n.op], "field": selector(n.path)}
		if !terse || !n.cs {
			m["case_sensitive"] = n.cs
		}
		if terse && len(n.vals) == 1 {
			if n.vals[0] == nil {
				m["values"] = nil
			} else {
				m["values"] = *n.vals[0]
			}
		} else {
			vs := make([]any, len(n.vals))
			for i, v := range n.vals {
				if v != nil {
					vs[i] = *v
				}
			}
			m["values"] = vs
		}
		if terse {
			m["comment"] = "an unknown key is ignored"
		}
		return m
	case kLen:
		return map[string]any{"op": lenNames[n.op], "field": selector(n.path), "cmp_op": cmpNames[n.cmp], "value": num(n.value)}
	case kTs:
		m := map[string]any{"op": "ts_cmp", "field": selector(n.path), "cmp_op": cmpNames[n.cmp]}
		if !terse || n.format != "rfc3339nano" {
			m["format"] = n.format
		}
		if !terse || n.shift != 0 {
			m["value_shift"] = time.Duration(n.shift).String()
		}
		switch n.mode {
		case 1:
			m["value"] = "now"
			if !terse || n.a != int64(10*time.Second) {
				m["update_interval"] = time.Duration(n.a).String()
			}
		case 2:
			m["value"] = "file_d_start"
		default:
			m["value"] = time.Unix(0, n.a).UTC().Format(time.RFC3339Nano)
		}
		return m
	case kType:
		m := map[string]any{"op": "check_type", "field": selector(n.path)}
		if terse && len(n.types) == 1 {
			m["values"] = n.types[0]
		} else {
			vs := make([]any, len(n.types))
			for i, v := range n.types {
				vs[i] = v
			}
			m["values"] = vs
		}
		return m
	default:
		ops := make([]any, len(n.ops))
		for i, o := range n.ops {
			ops[i] = o.spell(terse, float)
		}
		return map[string]any{"op": logNames[n.kind], "operands": ops}
	}
}

// every string of the rule survives encoding/json (which replaces invalid UTF-8 by U+FFFD)
func (n *rnode) jsonSafe() bool {
	ok := true
	chk := func(s string) { ok = ok && utf8.ValidString(s) }
	n.walk(func(x *rnode) {
		for _, k := range x.path {
			chk(k)
		}
		for _, v := range x.vals {
			if v != nil {
				chk(*v)
			}
		}
		for _, t := range x.types {
			chk(t)
		}
		chk(x.format)
	})
	return ok
}

func toSimpleJSON(v any) (*simplejson.Json, error) {
	raw, err := json.Marshal(v)
	if err != nil {
		return nil, err
	}
	return simplejson.NewJson(raw)
}

// a `settings` object as a pipeline config gives it; `full` also sets every other key extractPipelineParams reads
func settingsFor(rule map[string]any, full bool, capacity int) map[string]any {
	as := map[string]any{
		"threshold": 1000000, // Pipeline.In consults the antispam only when the common threshold is >= 0
		"rules":     []any{map[string]any{"name": "c14", "threshold": 0, "do_if": rule}},
	}
	s := map[string]any{"antispam": as, "capacity": capacity, "decoder": "raw"}
	if full {
		as["maintenance_interval"] = "2s"
		s["meta_cache_size"] = 8
		s["avg_log_size"] = 512
		s["max_event_size"] = 1 << 16
		s["cut_off_event_by_limit"] = true
		s["cut_off_event_by_limit_field"] = "cut"
		s["decoder_params"] = map[string]any{}
		s["stream_field"] = "stream"
		s["maintenance_interval"] = "7s"
		s["event_timeout"] = "20s"
		s["antispam_exceptions"] = []any{}
		s["source_name_meta_field"] = ""
		s["is_strict"] = false
		s["pool"] = "std"
		s["metrics"] = map[string]any{"hold_duration": "10m", "max_label_value_length": 50}
	}
	return s
}

var errHarness = errors.New("harness: case not expressible on this route")

// checkerVia builds the real *doif.Checker of the rule on the given route
func checkerVia(n *rnode, route int) (*doif.Checker, error) {
	if n.hasBusyLoop() {
		return nil, errors.New("harness: now-mode ts node with a zero update interval would spin")
	}
	if route >= rtJSON && route != rtFloat && !n.jsonSafe() {
		return nil, errHarness
	}
	switch route {
	case rtPlain:
		return doif.NewFromMap(n.toMap())
	case rtTerse:
		return doif.NewFromMap(n.spell(true, false))
	case rtFloat:
		return doif.NewFromMap(n.spell(false, true))
	case rtJSON, rtTerseJSON:
		js, err := toSimpleJSON(n.spell(route == rtTerseJSON, false))
		if err != nil {
			return nil, errHarness
		}
		c, err := fdExtractDoIfChecker(js)
		if err == nil && c == nil {
			return nil, errHarness
		}
		return c, err
	case rtRules:
		as := settingsFor(n.spell(true, false), false, 16)["antispam"].(map[string]any)
		if n.kind == kBad && n.op >= 200 { // a rule the reader refuses for another reason than its tree
			rule := as["rules"].([]any)[0].(map[string]any)
			rule["do_if"] = map[string]any{"op": "equal", "field": "a", "values": []any{"x"}}
			switch n.op {
			case 200:
				delete(rule, "do_if") // "missing do_if section"
			case 201:
				rule["name"] = "" // "name must be set"
			}
		}
		js, err := toSimpleJSON(as)
		if err != nil {
			return nil, errHarness
		}
		rules, err := fdExtractAntispamRules(js, 5*time.Second)
		if err != nil {
			return nil, err
		}
		if len(rules) != 1 || rules[0].Name != "c14" || rules[0].Threshold != 0 {
			return nil, errHarness
		}
		return rules[0].DoIfChecker, nil
	case rtSettings, rtPipeline:
		st, err := settingsVia(n, true)
		if err != nil {
			return nil, err
		}
		return st.Antispam.Rules[0].DoIfChecker, nil
	}
	return nil, errHarness
}

// extractPipelineParams takes the process down (logger.Fatalf) on a rule it cannot read: such rules are refused here by
// the same reader one level below (extractAntispamRules returns the error)
func settingsVia(n *rnode, full bool) (*pipeline.Settings, error) {
	m := settingsFor(n.spell(false, false), full, 16)
	js, err := toSimpleJSON(m["antispam"])
	if err != nil {
		return nil, errHarness
	}
	if _, err := fdExtractAntispamRules(js, 2*time.Second); err != nil {
		return nil, err
	}
	js, err = toSimpleJSON(m)
	if err != nil {
		return nil, errHarness
	}
	st := fdExtractPipelineParams(js)
	if st == nil || len(st.Antispam.Rules) != 1 || st.Antispam.Rules[0].DoIfChecker == nil {
		return nil, errHarness
	}
	return st, nil
}

// ---- antispam data --------------------------------------------------------------------------------------------------------

type asData struct {
	event, source string
	meta          [][2]string
}

func (d asData) sx() hx.Sx {
	ms := make([]hx.Sx, len(d.meta))
	for i, kv := range d.meta {
		ms[i] = hx.L(hx.S(kv[0]), hx.S(kv[1]))
	}
	return hx.L(hx.I(9), hx.S(d.event), hx.S(d.source), hx.L(ms...))
}

func isAsData(s hx.Sx) bool {
	if hx.IsInt(s) {
		return false
	}
	it := hx.Items(s)
	return len(it) == 4 && hx.IsInt(it[0]) && hx.Int(it[0]) == 9
}

func asDataFromSx(s hx.Sx) asData {
	it := hx.Items(s)
	d := asData{event: hx.Str(it[1]), source: hx.Str(it[2])}
	for _, kv := range hx.Items(it[3]) {
		p := hx.Items(kv)
		d.meta = append(d.meta, [2]string{hx.Str(p[0]), hx.Str(p[1])})
	}
	return d
}

// what the documentation of antispam rules says a path selects (harness-side reading, used for the oracle tables and routing)
func (d asData) get(path []string) (data []byte, absent bool) {
	if len(path) == 0 {
		return nil, true
	}
	switch path[0] {
	case "event":
		return []byte(d.event), false
	case "source_name":
		return []byte(d.source), false
	case "meta":
		if len(path) == 2 {
			for _, kv := range d.meta {
				if kv[0] == path[1] {
					return []byte(kv[1]), false
				}
			}
		}
	}
	return nil, true
}

func (d asData) metaMap() map[string]string {
	m := map[string]string{}
	for _, kv := range d.meta {
		m[kv[0]] = kv[1]
	}
	return m
}

func newSpammer(st pipeline.AntispamSettings) *antispam.Antispammer {
	return antispam.NewAntispammer(&antispam.Options{
		MaintenanceInterval: st.MaintenanceInterval,
		Threshold:           st.Threshold,
		UnbanIterations:     4,
		Exceptions:          st.Exceptions,
		Rules:               st.Rules,
		Logger:              zap.NewNop(),
		MetricsController:   metric.NewCtl("c14", prometheus.NewRegistry(), time.Minute, 0),
	})
}

// which = 0 with antispam data: the rule is the do_if of ONE antispam rule with threshold 0 ("discard all logs") under a
// common threshold nobody reaches; the decision is Antispammer.IsSpam (resp. Pipeline.In refusing the record)
func execAntispam(via int, n *rnode, d asData) hx.Sx {
	route := routeOf(via)
	var res bool
	if route == rtPipeline {
		st, err := settingsVia(n, false)
		if err != nil {
			return obsReject
		}
		var out hx.Sx
		if p := hx.Catch(func() { out = hx.Bool(runEntrance(st, d)) }); p != "" {
			return hx.L(hx.I(3), hx.S(p))
		}
		return out
	}
	var as pipeline.AntispamSettings
	if route == rtSettings {
		st, err := settingsVia(n, true)
		if err != nil {
			return obsReject
		}
		as = st.Antispam
	} else {
		c, err := checkerVia(n, route)
		if err != nil {
			return obsReject
		}
		as = pipeline.AntispamSettings{Threshold: 5000000, MaintenanceInterval: 5 * time.Second,
			Rules: antispam.Rules{{Name: "c14", Threshold: 0, DoIfChecker: c}}}
	}
	if p := hx.Catch(func() {
		a := newSpammer(as)
		res = a.IsSpam("1", d.source, false, []byte(d.event), time.Now(), d.metaMap())
		if again := a.IsSpam("1", d.source, false, []byte(d.event), time.Now(), d.metaMap()); again != res {
			panic("harness: the second identical record was judged differently")
		}
	}); p != "" {
		return hx.L(hx.I(3), hx.S(p))
	}
	return hx.Bool(res)
}

// a real pipeline built from the extracted settings (raw decoder, fake input, devnull output): is the record refused at In?
func runEntrance(st *pipeline.Settings, d asData) bool {
	p := pipeline.New("c14_entrance_"+strconv.FormatInt(probeRunSeq.Add(1), 10), st, prometheus.NewRegistry(), zap.NewNop())
	p.DisableParallelism()
	in, _ := fake.Factory()
	p.SetInput(&pipeline.InputPluginInfo{PluginStaticInfo: &pipeline.PluginStaticInfo{Type: "fake"},
		PluginRuntimeInfo: &pipeline.PluginRuntimeInfo{Plugin: in.(*fake.Plugin)}})
	out, _ := devnull.Factory()
	p.SetOutput(&pipeline.OutputPluginInfo{PluginStaticInfo: &pipeline.PluginStaticInfo{Type: "devnull"},
		PluginRuntimeInfo: &pipeline.PluginRuntimeInfo{Plugin: out.(*devnull.Plugin)}})
	p.Start()
	defer p.Stop()
	seq := p.In(1, d.source, test.NewOffset(1), []byte(d.event), false, d.metaMap())
	return seq == pipeline.EventSeqIDError
}

// ---- construction for event trees (which = 0 / 1) on the routes above ---------------------------------------------------------

func constructVia(n *rnode, via int) (checkFn, *doif.Checker, error) {
	route := routeOf(via)
	if route == rtPlain {
		return construct(n, via&1)
	}
	c, err := checkerVia(n, route)
	if err != nil {
		return nil, nil, err
	}
	return func(root *insaneJSON.Root) bool { return c.Check(doif.NewEventData(root)) }, c, nil
}
