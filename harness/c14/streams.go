package main

import (
	"strconv"
	"time"
	"verif/harness/hx"
)

// ---- 1. exhaustive small scope ------------------------------------------------------------------
func genExhaustive(h *harn) {
	var strs2, strs3 []string
	var rec func(s string, max int, out *[]string)
	rec = func(s string, max int, out *[]string) {
		*out = append(*out, s)
		if len(s) < max {
			rec(s+"a", max, out)
			rec(s+"B", max, out)
		}
	}
	rec("", 2, &strs2)
	rec("", 3, &strs3)
	vals := []*string{nil}
	for _, s := range strs2 {
		vals = append(vals, sp(s))
	}
	var lists [][]*string
	for _, a := range vals {
		lists = append(lists, []*string{a})
		for _, b := range vals {
			lists = append(lists, []*string{a, b})
		}
	}
	events := []hx.Sx{jObj(), jObj(jKV("a", jNull())), jObj(jKV("a", jNum("1"))), jObj(jKV("a", jObj()))}
	for _, s := range strs3 {
		events = append(events, jObj(jKV("a", jStr(s))))
	}
	for _, op := range []int{0, 1, 3, 4} {
		for _, cs := range []bool{true, false} {
			for _, l := range lists {
				for _, ev := range events {
					h.check("exhaustive", 0, &rnode{kind: kField, op: op, path: []string{"a"}, cs: cs, vals: l}, ev)
				}
			}
		}
	}
	// logic: every and/or/not tree of depth <= 2, width <= 2 over a true leaf and a false leaf
	ev := jObj(jKV("a", jStr("1")))
	T := &rnode{kind: kField, op: 0, path: []string{"a"}, cs: true, vals: []*string{sp("1")}}
	F := &rnode{kind: kField, op: 0, path: []string{"a"}, cs: true, vals: []*string{sp("0")}}
	level := []*rnode{T, F}
	for d := 0; d < 2; d++ {
		next := append([]*rnode(nil), level[:2]...)
		for _, k := range []int{kAnd, kOr} {
			for _, x := range level {
				next = append(next, &rnode{kind: k, ops: []*rnode{x}})
				for _, y := range level {
					next = append(next, &rnode{kind: k, ops: []*rnode{x, y}})
				}
			}
		}
		for _, x := range level {
			next = append(next, &rnode{kind: kNot, ops: []*rnode{x}})
		}
		level = next
	}
	for _, t := range level {
		h.check("exhaustive-logic", 1, t, ev)
	}
	// type checks: every type name x every kind of field; every pair of names on three kinds
	kinds := []hx.Sx{jObj(), jObj(jKV("a", jNull())), jObj(jKV("a", jNum("1"))), jObj(jKV("a", jStr("s"))), jObj(jKV("a", jBool(true))),
		jObj(jKV("a", jObj())), jObj(jKV("a", jArr()))}
	for _, tn := range typeNames {
		for _, e := range kinds {
			h.check("exhaustive", 0, &rnode{kind: kType, path: []string{"a"}, types: []string{tn}}, e)
		}
		for _, tn2 := range typeNames {
			for _, e := range kinds[4:] {
				h.check("exhaustive", 1, &rnode{kind: kType, path: []string{"a"}, types: []string{tn, tn2, tn}}, e)
			}
		}
	}
	// byte / array length of every container with at most 3 nodes
	atoms := []hx.Sx{jArr(), jObj(), jNum("1"), jStr("s"), jNull(), jBool(false)}
	conts := []hx.Sx{jArr(), jObj()}
	for _, a := range atoms {
		conts = append(conts, jArr(a), jObj(jKV("k", a)), jArr(jArr(a)), jObj(jKV("k", jObj(jKV("q", a)))), jArr(jObj(jKV("k", a))))
		for _, b := range atoms {
			conts = append(conts, jArr(a, b), jObj(jKV("k", a), jKV("l", b)))
		}
	}
	for _, ct := range conts {
		n := int64(len(hx.JSONText(ct)))
		e := jObj(jKV("a", ct))
		for _, d := range []int64{-1, 0, 1} {
			if n+d >= 0 {
				h.check("exhaustive", 0, &rnode{kind: kLen, op: 0, path: []string{"a"}, cmp: 4, value: n + d}, e)
			}
		}
		h.check("exhaustive", 0, &rnode{kind: kLen, op: 1, path: []string{"a"}, cmp: 4, value: int64(len(hx.Items(ct)) - 1)}, e)
	}
	h.c.W.Count("exhaustive_done")
}

// ---- 2. documentation examples, constructor-rejected rules, the known divergences -----------------
func genTargeted(h *harn) {
	pod := func(p, s string) hx.Sx { return jObj(jKV("pod", jStr(p)), jKV("service", jStr(s))) }
	docEvents := []hx.Sx{pod("test-pod-1", "test-service"), pod("test-pod-2", "test-service-2"), pod("test-pod", "test-service"),
		pod("test-my-pod-1", "test-service!"), pod("my-test-pod", "#my_service#"), pod("test-1-pod-1", "$$$"), pod("service123", "test-service-1")}
	f := func(op int, field string, vs ...string) *rnode {
		n := &rnode{kind: kField, op: op, path: []string{field}, cs: true}
		for _, v := range vs {
			n.vals = append(n.vals, sp(v))
		}
		return n
	}
	docRules := []*rnode{f(0, "pod", "test-pod-1", "test-pod-2"), f(1, "pod", "my-pod", "my-test"), f(2, "service", "!$#"),
		f(3, "pod", "test-1", "test-2"), f(4, "pod", "pod-1", "pod-2"), f(5, "pod", `pod-\d`, "my-test.*"),
		{kind: kOr, ops: []*rnode{f(0, "pod", "test-pod-1", "test-pod-2"), f(0, "service", "test-service")}},
		{kind: kAnd, ops: []*rnode{f(0, "pod", "test-pod-1", "test-pod-2"), f(0, "service", "test-service")}},
		{kind: kNot, ops: []*rnode{f(0, "service", "test-service")}},
		{kind: kLen, op: 0, path: []string{"pod"}, cmp: 0, value: 5},
		{kind: kNot, ops: []*rnode{{kind: kType, path: []string{"pod"}, types: []string{"obj", "arr"}}}},
		{kind: kTs, path: []string{"pod"}, format: "2006-01-02T15:04:05.999999999Z07:00", cmp: 0, mode: 0, a: 1262304000e9}}
	h.seq("readme", 0, docRules, docEvents, false)
	// match_fields README examples (match_mode and / or / and_prefix / or_prefix)
	k8s := func(ns, p string) hx.Sx { return jObj(jKV("k8s_namespace", jStr(ns)), jKV("k8s_pod", jStr(p))) }
	legacyEvents := []hx.Sx{k8s("payment", "payment-api-abcd"), k8s("tarifficator", "payment-api"), k8s("payment-tarifficator", "payment-api"),
		k8s("tarifficator", "no-payment-api"), k8s("map", "payment-api"), k8s("payment", "map-api"), k8s("sre", "cpu-quotas-abcd-1234"),
		k8s("payment", "payment-api-abcd-1234"), k8s("payment-2", "payment-api-abcd-1234"), k8s("payment", "checkout"), k8s("map", "map-go-api-abcd-1234")}
	exact := []cond{{path: []string{"k8s_namespace"}, vals: []string{"payment", "tarifficator"}}, {path: []string{"k8s_pod"}, re: sp("^payment-api.*")}}
	pref := []cond{{path: []string{"k8s_namespace"}, vals: []string{"payment"}}, {path: []string{"k8s_pod"}, vals: []string{"payment-api-"}}}
	orpref := []cond{{path: []string{"k8s_namespace"}, vals: []string{"payment", "tarifficator"}}, {path: []string{"k8s_pod"}, re: sp("-api-.*")}}
	for _, which := range []int{2, 3} {
		for _, inv := range []bool{false, true} {
			h.proc("readme", which, nil, "and", inv, exact, legacyEvents)
			h.proc("readme", which, nil, "or", inv, exact, legacyEvents)
			h.proc("readme", which, nil, "and_prefix", inv, pref, legacyEvents)
			h.proc("readme", which, nil, "or_prefix", inv, orpref, legacyEvents)
			h.proc("readme", which, nil, "and_prefix", inv, orpref, legacyEvents)
		}
		h.proc("readme", which, nil, "", false, exact, legacyEvents)
		h.proc("readme", which, nil, "xor", false, exact, legacyEvents)
		h.proc("readme", which, docRules[7], "or", true, exact, []hx.Sx{jObj(jKV("pod", jStr("test-pod-1")), jKV("service", jStr("test-service")), jKV("k8s_namespace", jStr("x")))})
	}

	// rules the constructors must reject
	ev := jObj(jKV("a", jStr("x")))
	okLeaf := f(0, "a", "x")
	bad := []*rnode{
		{kind: kField, op: 0, path: []string{"a"}, cs: true},
		{kind: kField, op: 2, path: []string{"a"}, cs: true, vals: []*string{sp("a"), sp("b")}},
		{kind: kField, op: 2, path: []string{"a"}, cs: true, vals: []*string{sp("")}},
		{kind: kField, op: 2, path: []string{"a"}, cs: true, vals: []*string{nil}},
		{kind: kField, op: 5, path: []string{"a"}, cs: true, vals: []*string{sp("("), sp("x")}},
		{kind: kField, op: 5, path: []string{"a"}, cs: true, vals: []*string{nil}},
		{kind: kLen, op: 0, path: []string{"a"}, cmp: 4, value: -1},
		{kind: kType, path: []string{"a"}},
		{kind: kType, path: []string{"a"}, types: []string{"str", "boolean"}},
		{kind: kType, path: []string{"a"}, types: []string{"STR"}},
		{kind: kAnd}, {kind: kOr}, {kind: kNot},
		{kind: kNot, ops: []*rnode{okLeaf, okLeaf}},
		{kind: kAnd, ops: []*rnode{okLeaf, {kind: kOr}}},
		{kind: kOr, ops: []*rnode{{kind: kNot, ops: []*rnode{{kind: kField, op: 1, path: []string{"a"}, cs: false}}}, okLeaf}},
	}
	for _, b := range bad {
		for via := 0; via < 2; via++ {
			h.check("malformed", via, b, ev)
		}
	}
	// odd events and paths: array steps, signs and leading zeros, root scalars, empty selector, duplicate keys
	arr := jObj(jKV("a", jArr(jStr("x"), jStr("y"), jObj(jKV("b", jStr("z"))))), jKV("1", jStr("one")), jKV("a", jStr("second")))
	for _, p := range [][]string{{"a", "0"}, {"a", "1"}, {"a", "+1"}, {"a", "-0"}, {"a", "01"}, {"a", "3"}, {"a", "-1"}, {"a", "x"}, {"a", "2", "b"}, {"a", "2", "0"}, {"1"}, {"a"}, {}} {
		for _, v := range []string{"x", "y", "z", "one", "second", ""} {
			h.check("malformed", 0, &rnode{kind: kField, op: 0, path: p, cs: true, vals: []*string{sp(v), nil}}, arr)
		}
		h.check("malformed", 1, &rnode{kind: kType, path: p, types: []string{"arr", "nil", "str"}}, arr)
		h.check("malformed", 1, &rnode{kind: kLen, op: 1, path: p, cmp: 3, value: 2}, arr)
	}
	for _, root := range []hx.Sx{jStr("y"), jNum("12"), jNull(), jArr(jStr("y")), jBool(true)} {
		for _, p := range [][]string{{}, {"0"}, {"a"}} {
			h.check("malformed", 0, &rnode{kind: kField, op: 0, path: p, cs: true, vals: []*string{sp("y"), sp("12"), sp("true"), nil}}, root)
			h.check("malformed", 0, &rnode{kind: kLen, op: 2, path: p, cmp: 4, value: 12}, root)
			h.check("malformed", 0, &rnode{kind: kLen, op: 0, path: p, cmp: 4, value: 5}, root)
		}
	}
	// strings with escape sequences and invalid UTF-8, case-sensitively
	for _, s := range []string{"a\"b", "a\\b", "a\nb", "\x00", "\xff", "a\xffb", "\xc3", "tab\there"} {
		e := jObj(jKV("a", jStr(s)))
		for op := 0; op < 5; op++ {
			if op != 2 {
				h.check("malformed", 0, &rnode{kind: kField, op: op, path: []string{"a"}, cs: true, vals: []*string{sp(s), sp(s[:1])}}, e)
			}
		}
		h.check("malformed", 0, &rnode{kind: kLen, op: 0, path: []string{"a"}, cmp: 4, value: int64(len(s))}, e)
	}

	// --- known divergences, each confirmed on the real code (see known_findings) -----------------
	ci := func(op int, v string) *rnode {
		return &rnode{kind: kField, op: op, path: []string{"a"}, cs: false, vals: []*string{sp(v)}}
	}
	a := func(s string) hx.Sx { return jObj(jKV("a", jStr(s))) }
	h.check("unicode-fold", 0, ci(0, "K"), a("k"))       // KELVIN SIGN value vs "k"
	h.check("unicode-fold", 0, ci(0, "k"), a("K"))       // "k" value vs KELVIN SIGN field
	h.check("unicode-fold", 0, ci(4, "İ"), a("xi̇"))     // suffix İ vs "xi̇"
	h.check("unicode-fold", 0, ci(3, "kab"), a("Kab"))   // prefix
	h.check("unicode-fold", 0, ci(1, "KK"), a("k"))      // contains
	h.check("unicode-fold", 0, ci(0, "\xff"), a("\xff")) // invalid UTF-8 grows to U+FFFD
	h.check("unicode-fold", 1, &rnode{kind: kNot, ops: []*rnode{ci(0, "K")}}, a("K"))
	for i := 0; i < 40*h.c.Scale; i++ {
		g := h.g
		w := hx.Pick(g.r, []string{"K", "İ", "ẞ", "\xff", "Ⱥ"}) // runes whose lower case has another byte length
		s := g.word() + w + g.word()
		h.check("unicode-fold", g.r.Intn(2), ci(hx.Pick(g.r, []int{0, 1, 3, 4}), g.derived(s)), a(g.derived(s)))
	}
	for _, ct := range []hx.Sx{jObj(), jArr(), jObj(jKV("x", jNum("1"))), jArr(jNum("1"), jNum("2"))} {
		e := jObj(jKV("a", ct))
		h.check("container-placeholder", 0, &rnode{kind: kField, op: 1, path: []string{"a"}, cs: true, vals: []*string{sp("")}}, e)
		h.check("container-placeholder", 0, &rnode{kind: kField, op: 3, path: []string{"a"}, cs: false, vals: []*string{sp("zz"), sp("")}}, e)
		h.check("container-placeholder", 0, &rnode{kind: kField, op: 4, path: []string{"a"}, cs: true, vals: []*string{nil}}, e)
		h.check("container-placeholder", 0, &rnode{kind: kField, op: 5, path: []string{"a"}, cs: true, vals: []*string{sp("^.$")}}, e)
		h.check("container-placeholder", 0, &rnode{kind: kField, op: 0, path: []string{"a"}, cs: true, vals: []*string{sp("\x00")}}, e)
		h.check("container-placeholder", 1, &rnode{kind: kField, op: 2, path: []string{"a"}, cs: true, vals: []*string{sp("a\x00")}}, e)
		// the documented behaviour on ordinary values
		h.check("container", 0, &rnode{kind: kField, op: 1, path: []string{"a"}, cs: true, vals: []*string{sp("1"), sp("x"), sp("{")}}, e)
		h.check("container", 0, &rnode{kind: kField, op: 5, path: []string{"a"}, cs: true, vals: []*string{sp("x"), sp("[0-9]")}}, e)
	}
	// byte_len_cmp of a container whose nested string holds an escape sequence: the measured length
	// depends on whether an earlier check already read (and thereby unescaped) that string
	escEv := func(p string) hx.Sx { return jObj(jKV("p", jStr(p)), jKV("a", jObj(jKV("b", jStr("x\ny"))))) }
	reader := &rnode{kind: kField, op: 0, path: []string{"a", "b"}, cs: true, vals: []*string{sp("q")}}
	sizer := &rnode{kind: kLen, op: 0, path: []string{"a"}, cmp: 4, value: 12}
	// the same checker asked twice about the same event, another checker in between
	h.seq("escaped-nested-string", 0, []*rnode{sizer, reader, sizer}, []hx.Sx{escEv("1")}, true)
	// one tree, two events that differ only in a field the size does not depend on: whether the
	// short-circuit skips the reader decides the size
	h.seq("escaped-nested-string", 0, []*rnode{{kind: kOr, ops: []*rnode{{kind: kAnd, ops: []*rnode{
		{kind: kField, op: 0, path: []string{"p"}, cs: true, vals: []*string{sp("1")}}, reader}}, sizer}}}, []hx.Sx{escEv("1"), escEv("0")}, true)
}

// ---- 3. random -------------------------------------------------------------------------------------
func genRandom(h *harn) {
	g, r, sc := h.g, h.c.R, h.c.Scale
	for i := 0; i < 26000*sc; i++ {
		ev := g.event()
		h.check("random", r.Intn(2), g.tree(ev, r.Range(1, 6)), ev)
	}
	for i := 0; i < 500*sc; i++ {
		var evs []hx.Sx
		for j := r.Range(2, 6); j > 0; j-- {
			evs = append(evs, g.event())
		}
		var ts []*rnode
		for j := r.Range(2, 4); j > 0; j-- {
			ts = append(ts, g.tree(hx.Pick(r, evs), r.Range(1, 4)))
		}
		h.seq("sequence", r.Intn(2), ts, evs, false)
	}
	// the same checkers over events of ONE layout whose timestamps (same length, same offset) fall on both sides of the
	// constant: a decision must depend on the current event only, whatever the previous event at the same place was
	for i := 0; i < 150*sc; i++ {
		format, render := "2006-01-02T15:04:05Z07:00", func(t int64) string { return time.Unix(t, 0).UTC().Format(time.RFC3339) }
		if r.Chance(1, 3) {
			format, render = "unixtime", func(t int64) string { return strconv.FormatInt(t, 10) }
		}
		cv := int64(1600000000)
		var ts []*rnode
		for c := 0; c < 6; c++ {
			if r.Chance(2, 3) {
				ts = append(ts, &rnode{kind: kTs, path: []string{"ts"}, format: format, cmp: c, mode: 0, a: cv * 1e9})
			}
		}
		if len(ts) == 0 {
			ts = append(ts, &rnode{kind: kTs, path: []string{"ts"}, format: format, cmp: r.Intn(6), mode: 0, a: cv * 1e9})
		}
		var evs []hx.Sx
		for j := r.Range(3, 8); j > 0; j-- {
			t := cv + hx.Pick(r, []int64{-86400 * 400, -3600, -1, 0, 0, 1, 3600, 86400 * 400})
			evs = append(evs, jObj(jKV("ts", jStr(render(t))), jKV("n", jStr("x"))))
		}
		h.seq("sequence-ts", r.Intn(2), ts, evs, false)
	}
	modes := []string{"and", "or", "and_prefix", "or_prefix", "", "and", "or", "nand"}
	for i := 0; i < 3000*sc; i++ {
		var evs []hx.Sx
		for j := r.Range(1, 4); j > 0; j-- {
			evs = append(evs, g.event())
		}
		var t *rnode
		if r.Chance(1, 8) {
			t = g.tree(evs[0], r.Range(1, 3))
		}
		h.proc("legacy", 2, t, hx.Pick(r, modes), r.Chance(1, 3), g.conds(evs[0]), evs)
	}
	pg := &gen{r: r, ascii: true}
	hp := &harn{c: h.c, g: pg}
	for i := 0; i < 40*sc; i++ {
		var evs []hx.Sx
		for j := r.Range(1, 6); j > 0; j-- {
			evs = append(evs, pg.event())
		}
		var t *rnode
		if r.Chance(1, 3) {
			t = pg.tree(evs[0], r.Range(1, 3))
		}
		hp.proc("pipeline", 3, t, hx.Pick(r, modes[:6]), r.Chance(1, 3), pg.conds(evs[0]), evs)
	}
}
