package main

// which = 4 — the match_fields map of an action AS WRITTEN in a configuration: every value is a JSON tree (scalar string,
// list of 0 / 1 / 2 / 3 strings, nested list, number / bool / null / object), read by the real fd.extractConditions
// (route 0, through go:linkname; the conditions it builds are then handed to processor.isMatch) or by fd.SetupActions inside a
// real pipeline with a discard action (route 1). Sub-model: extract_value / extract_conds / cfg_spec of
// coq/Model/MatchFields.v (theorems c14_config_*).
//
//	case = (route #mode invert ((path json-value) ...) (event ...) tables)
//	obs  = (2) configuration refused
//	     | ((kind ...) (bit ...))   route 0: kind = (0 #value ...) exact values | (1 #inner) regexp, one per entry of the case
//	     | (7 (bit ...))            route 1
//	     | (5 n) the reader returned conditions that are not one per entry, (6 ...) a condition with values AND a regexp
//
// Would expose: a reader that "normalises" the written value — a one-element list collapsed to its bare value (and then read
// as a /regexp/ or refused), list elements between slashes compiled, blanks trimmed, an empty list refused or dropped, a
// number accepted as its text, a nested list flattened, an unterminated /pattern taken literally or compiled anyway.

import (
	"encoding/json"
	"reflect"
	"regexp"
	"strconv"
	"strings"
	"unicode/utf8"

	"github.com/bitly/go-simplejson"
	"github.com/ozontech/file.d/pipeline"
	insaneJSON "github.com/ozontech/insane-json"

	"verif/harness/hx"
)

type cfgEntry struct {
	path []string
	val  hx.Sx // JSON tree (exchange encoding of coq/Base/Json.v)
}

func (e cfgEntry) sx() hx.Sx { return hx.L(pathSx(e.path), e.val) }

// "/inner/": what cfg.CompileRegex takes for a delimited pattern (harness-side reading, used for the oracle tables only)
func delimitedInner(s string) (string, bool) {
	if len(s) >= 2 && s[0] == '/' && s[len(s)-1] == '/' {
		return s[1 : len(s)-1], true
	}
	return "", false
}

// ---- execution --------------------------------------------------------------------------------------------------------

func matchFieldsText(ents []hx.Sx) (string, [][]string) {
	var sb strings.Builder
	paths := make([][]string, len(ents))
	sb.WriteByte('{')
	for i, e := range ents {
		kv := hx.Items(e)
		paths[i] = strsOf(kv[0])
		key, _ := json.Marshal(selector(paths[i]))
		if i > 0 {
			sb.WriteByte(',')
		}
		sb.Write(key)
		sb.WriteByte(':')
		sb.WriteString(hx.JSONText(kv[1]))
	}
	sb.WriteByte('}')
	return sb.String(), paths
}

func condKindSx(c pipeline.MatchCondition) hx.Sx {
	switch {
	case c.Regexp != nil && len(c.Values) == 0:
		return hx.L(hx.I(1), hx.S(c.Regexp.String()))
	case c.Regexp == nil:
		return hx.L(append([]hx.Sx{hx.I(0)}, hx.Items(hx.Ss(c.Values))...)...)
	}
	return hx.L(hx.I(6), hx.Ss(c.Values), hx.S(c.Regexp.String()))
}

func execMatchCfg(it []hx.Sx) hx.Sx {
	route := int(hx.Int(it[0]))
	invert := hx.Truth(it[2])
	ents, evs := hx.Items(it[3]), hx.Items(it[4])
	mf, paths := matchFieldsText(ents)
	spelling := modeSpelling(hx.Str(it[1]), len(ents))

	if route == 1 {
		ms, _ := json.Marshal(spelling)
		text := `[{"type":"discard","match_fields":` + mf + `,"match_mode":` + string(ms) + `,"match_invert":` + strconv.FormatBool(invert) + `}]`
		actions, err := simplejson.NewJson([]byte(text))
		if err != nil {
			return obsBadEvt
		}
		out := runDiscardPipeline(actions, evs)
		if hx.String(out) == hx.String(obsReject) || (len(hx.Items(out)) > 0 && hx.Int(hx.Items(out)[0]) == 3 && len(hx.Items(out)) == 2 && hx.IsBytes(hx.Items(out)[1])) {
			return out
		}
		return hx.L(hx.I(7), out)
	}

	js, err := simplejson.NewJson([]byte(mf))
	if err != nil {
		return obsBadEvt
	}
	var conds pipeline.MatchConditions
	var cerr error
	if p := hx.Catch(func() { conds, cerr = fdExtractConditions(js) }); p != "" {
		return hx.L(hx.I(3), hx.S(p))
	}
	if cerr != nil {
		return obsReject
	}
	mode := pipeline.MatchModeFromString(spelling)
	if mode == pipeline.MatchModeUnknown {
		return obsReject
	}
	if len(conds) != len(paths) {
		return hx.L(hx.I(5), hx.I(len(conds)))
	}
	used := make([]bool, len(conds))
	trans := make([]hx.Sx, len(paths))
	for i, p := range paths {
		found := false
		for j, c := range conds {
			if !used[j] && (reflect.DeepEqual(c.Field, p) || (len(c.Field) == 0 && len(p) == 0)) {
				used[j], found = true, true
				trans[i] = condKindSx(c)
				break
			}
		}
		if !found {
			return hx.L(hx.I(5), hx.I(-1-i))
		}
	}
	bits := make([]hx.Sx, 0, len(evs))
	snap := ruleSnap(conds) // rule immutability (shared.go): the conditions the reader returned, before any evaluation
	for _, ev := range evs {
		root := decode(ev)
		if root == nil {
			return obsBadEvt
		}
		var res bool
		p := hx.Catch(func() { res = pipeline.VerifIsMatchC14(conds, mode, invert, nil, root) })
		insaneJSON.Release(root)
		if p != "" {
			return hx.L(hx.I(3), hx.S(p))
		}
		bits = append(bits, hx.Bool(res))
	}
	if now := ruleSnap(conds); now != snap {
		return obsMutated("match conditions changed by evaluating them: read "+snap+" now "+now, bits)
	}
	return hx.L(hx.L(trans...), hx.L(bits...))
}

// ---- one case ---------------------------------------------------------------------------------------------------------

func cfgStringsOf(v hx.Sx, out *[]string) {
	switch jKind(v) {
	case 3:
		*out = append(*out, hx.Str(hx.Items(v)[1]))
	case 4:
		for _, x := range hx.Items(v)[1:] {
			cfgStringsOf(x, out)
		}
	case 5:
		for _, f := range hx.Items(v)[1:] {
			cfgStringsOf(hx.Items(f)[1], out)
		}
	}
}

func shapeOf(v hx.Sx) string {
	switch jKind(v) {
	case 0:
		return "null"
	case 1:
		return "bool"
	case 2:
		return "number"
	case 3:
		return "scalar_string"
	case 5:
		return "object"
	}
	el := hx.Items(v)[1:]
	for _, x := range el {
		if jKind(x) == 4 {
			return "nested_list"
		}
		if jKind(x) != 3 {
			return "list_with_non_string"
		}
	}
	if len(el) > 3 {
		return "list_of_4+"
	}
	return "list_of_" + strconv.Itoa(len(el))
}

func stringClass(s string) string {
	inner, delim := delimitedInner(s)
	switch {
	case s == "":
		return "empty"
	case s == "/":
		return "lone_slash"
	case s == "//":
		return "two_slashes"
	case delim:
		if _, err := regexp.Compile(inner); err != nil {
			return "delimited_not_compiling"
		}
		if strings.Contains(inner, "/") {
			return "delimited_with_inner_slash"
		}
		return "delimited_regexp"
	case s[0] == '/':
		return "leading_slash_only"
	case s[len(s)-1] == '/':
		return "trailing_slash_only"
	case s[0] == ' ' || s[len(s)-1] == ' ':
		return "blank_at_an_end"
	case regexp.QuoteMeta(s) != s:
		return "regexp_metacharacters"
	case !isASCII([]byte(s)):
		return "unicode"
	}
	return "plain"
}

func (h *harn) matchCfg(stream string, route int, mode string, invert bool, ents []cfgEntry, evs []hx.Sx) {
	w := h.c.W
	var cs []cond
	seen := map[string]bool{}
	for _, e := range ents {
		if len(e.path) == 0 || seen[selector(e.path)] {
			w.Count("cfg_skipped_empty_or_duplicate_selector")
			return
		}
		seen[selector(e.path)] = true
		cs = append(cs, cond{path: e.path})
		var strs []string
		cfgStringsOf(e.val, &strs)
		for _, s := range strs {
			if !utf8.ValidString(s) {
				w.Count("cfg_skipped_invalid_utf8_in_configuration")
				return
			}
		}
	}
	if !h.usable(nil, cs, evs) {
		return
	}
	tb := newTables()
	nontrivial := false
	var esx []hx.Sx
	for _, e := range ents {
		esx = append(esx, e.sx())
		w.Count("cfg_shape_" + shapeOf(e.val))
		var strs []string
		cfgStringsOf(e.val, &strs)
		for _, s := range strs {
			w.Count("cfg_" + shapeOf(e.val) + "_holding_" + stringClass(s))
		}
		for _, ev := range evs {
			if _, ok := jDig(ev, e.path); ok {
				nontrivial = true
			}
		}
		if jKind(e.val) != 3 {
			continue
		}
		if inner, ok := delimitedInner(hx.Str(hx.Items(e.val)[1])); ok {
			tb.compile(inner)
			for _, ev := range evs {
				if v, ok := jDig(ev, e.path); ok {
					tb.addRe(inner, []byte(jText(v)))
				}
			}
		}
	}
	w.Count("cfg_mode_" + mode)
	w.Count("cfg_invert_" + strconv.FormatBool(invert))
	w.Count("cfg_route_" + strconv.Itoa(route))
	w.Count("cfg_entries_" + strconv.Itoa(len(ents)))
	obs := h.c.Do(stream, 4, hx.L(hx.I(route), hx.S(mode), hx.Bool(invert), hx.L(esx...), hx.L(evs...), tb.sx()), nontrivial)
	if hx.String(obs) == hx.String(obsReject) {
		w.Count("cfg_configuration_refused")
		return
	}
	it := hx.Items(obs)
	if len(it) == 2 && !hx.IsInt(it[1]) {
		for _, b := range hx.Items(it[1]) {
			if hx.IsInt(b) {
				w.Count("cfg_decision_" + hx.String(b))
			}
		}
		if !hx.IsInt(it[0]) {
			for _, k := range hx.Items(it[0]) {
				if ki := hx.Items(k); len(ki) > 0 && hx.IsInt(ki[0]) {
					w.Count("cfg_condition_kind_" + []string{"exact_values", "regexp", "?", "?", "?", "?", "values_and_regexp"}[hx.Int(ki[0])%7])
				}
			}
		}
	}
}

// ---- generators -------------------------------------------------------------------------------------------------------

// one string of every class a written value can belong to
var cfgStrings = []string{
	"x", "ab", "", // plain, empty
	"/x/", "/a.c/", "/^a/", "/b$/", // delimited regexps
	"/var/log/", "/x/y/", // delimited, slashes inside (a directory written as a value)
	"/var/log/app.log", "/x", // leading slash only
	"/", "//", "///", // one / two / three slashes
	"/(/", "/a{2,1}/", // delimited, does not compile
	"a.c", ".*", "^a", "(", "[0-9]+", "a|x", // regexp metacharacters, no slashes
	"x/", "x/y", // a slash elsewhere
	" x", "x ", " /x/", "/x/ ", " ", // blanks at an end
	"é", "/é/", "日本", "/日./", // multi-byte
}

var cfgModes = []string{"and", "or", "and_prefix", "or_prefix", ""}

// values of a field that tell the readings of a written string apart: the string itself, with something after / before it,
// and — if it is written between slashes — its inner part, bare and inside other text
func cfgFieldTexts(strs []string) []string {
	out := []string{"", "x", "abc", "axb", "/x/", "a"}
	for _, s := range strs {
		out = append(out, s, s+"q", "q"+s)
		if inner, ok := delimitedInner(s); ok {
			out = append(out, inner, "z"+inner+"z")
		}
		if t := strings.TrimSpace(s); t != s {
			out = append(out, t)
			if inner, ok := delimitedInner(t); ok {
				out = append(out, inner)
			}
		}
	}
	seen := map[string]bool{}
	var uniq []string
	for _, s := range out {
		if !seen[s] {
			seen[s] = true
			uniq = append(uniq, s)
		}
	}
	return uniq
}

func cfgEventsFor(field string, val hx.Sx) []hx.Sx {
	var strs []string
	cfgStringsOf(val, &strs)
	evs := []hx.Sx{jObj(), jObj(jKV(field, jNull())), jObj(jKV(field, jNum("12"))), jObj(jKV(field, jObj())), jObj(jKV("other", jStr("x")))}
	for _, s := range cfgFieldTexts(strs) {
		evs = append(evs, jObj(jKV(field, jStr(s))))
	}
	return evs
}

func jStrs(ss ...string) hx.Sx {
	xs := make([]hx.Sx, len(ss))
	for i, s := range ss {
		xs[i] = jStr(s)
	}
	return jArr(xs...)
}

func genMatchCfg(h *harn) {
	r, sc := h.c.R, h.c.Scale
	one := func(stream string, k int, val hx.Sx, all bool) {
		// every mode x invert for the small shapes; two of the ten combinations (rotating with k) for the numerous ones
		for m := 0; m < 10; m++ {
			if all || m == k%10 || m == (k*7+3)%10 {
				h.matchCfg(stream, 0, cfgModes[m%5], m >= 5, []cfgEntry{{path: []string{"a"}, val: val}}, cfgEventsFor("a", val))
			}
		}
	}

	// ---- exhaustive-match-config: ONE field; every value shape x every string class x every mode x invert ----------------
	k := 0
	one("exhaustive-match-config", k, jArr(), true) // a list of no value: never holds
	for _, s := range cfgStrings {
		one("exhaustive-match-config", k, jStr(s), true)
		one("exhaustive-match-config", k, jStrs(s), true)
		k++
	}
	for _, s1 := range cfgStrings {
		for _, s2 := range cfgStrings {
			one("exhaustive-match-config", k, jStrs(s1, s2), false)
			k++
		}
	}
	for i := 0; i < 40*sc; i++ {
		one("exhaustive-match-config", k, jStrs(hx.Pick(r, cfgStrings), hx.Pick(r, cfgStrings), hx.Pick(r, cfgStrings)), false)
		k++
	}
	// the shapes that are not a pattern at all: refused whatever surrounds them
	refused := []hx.Sx{jNum("500"), jNum("1.5"), jNum("0"), jBool(true), jBool(false), jNull(), jObj(), jObj(jKV("x", jStr("y"))),
		jArr(jArr()), jArr(jStrs("x")), jArr(jStrs("/x/")), jArr(jStr("x"), jStrs("y")), jArr(jNum("5")), jArr(jNull()), jArr(jBool(true)),
		jArr(jObj()), jArr(jStr("x"), jNum("5")), jArr(jNum("5"), jStr("x")), jArr(jStr("x"), jStr("y"), jNull()), jArr(jStr("/x/"), jNum("1"))}
	for _, v := range refused {
		one("exhaustive-match-config", k, v, false)
		k++
	}

	// ---- match-config: TWO fields, so that and / or differ: a written value of every class (scalar and list of one) beside
	// a second entry of every shape -------------------------------------------------------------------------------------------
	seconds := []hx.Sx{jStr("k"), jStrs("/k/"), jStr("/k/"), jArr(), jStrs("k", "/k/")}
	bTexts := []string{"k", "/k/", "zkz"}
	for _, s := range cfgStrings {
		for si, first := range []hx.Sx{jStr(s), jStrs(s)} {
			for bi, second := range seconds {
				var evs []hx.Sx
				for _, ea := range cfgEventsFor("a", first)[1:] {
					if len(hx.Items(ea)) < 2 {
						continue
					}
					evs = append(evs, ea)
					fa := hx.Items(ea)[1]
					if hx.Str(hx.Items(fa)[0]) != "a" || jKind(hx.Items(fa)[1]) != 3 {
						continue
					}
					for _, bt := range bTexts {
						evs = append(evs, jObj(fa, jKV("b", jStr(bt))))
					}
				}
				evs = append(evs, jObj(), jObj(jKV("b", jStr("k"))), jObj(jKV("b", jStr("/k/"))))
				for m := 0; m < 10; m++ {
					if m == k%10 || m == (k*7+3)%10 {
						ents := []cfgEntry{{path: []string{"a"}, val: first}, {path: []string{"b"}, val: second}}
						if (si+bi)%2 == 1 {
							ents[0], ents[1] = ents[1], ents[0]
						}
						h.matchCfg("match-config", 0, cfgModes[m%5], m >= 5, ents, evs)
					}
				}
				k++
			}
		}
	}

	// ---- match-config, random: 1-3 entries over paths of a random event, values of random shapes whose strings derive
	// from the field's own text (itself, a part, between slashes, with a leading slash only, quoted as a pattern) ------------
	pg := &gen{r: r, ascii: true}
	cfgString := func(g *gen, data string) string {
		d := g.derived(data)
		switch r.Intn(9) {
		case 0:
			return "/" + regexp.QuoteMeta(d) + "/"
		case 1:
			return "/" + d + "/"
		case 2:
			return "/" + d
		case 3:
			return d + "/"
		case 4:
			return hx.Pick(r, cfgStrings)
		case 5:
			return "/^" + regexp.QuoteMeta(d) + "/"
		}
		return d
	}
	cfgValue := func(g *gen, data string) hx.Sx {
		list := func(n int) hx.Sx {
			xs := make([]hx.Sx, n)
			for i := range xs {
				xs[i] = jStr(cfgString(g, data))
			}
			return jArr(xs...)
		}
		switch x := r.Intn(100); {
		case x < 28:
			return jStr(cfgString(g, data))
		case x < 56:
			return list(1)
		case x < 72:
			return list(2)
		case x < 78:
			return list(3)
		case x < 82:
			return list(0)
		case x < 85:
			return list(r.Range(4, 6))
		case x < 88:
			return jNum(hx.Pick(r, numbers))
		case x < 90:
			return jBool(r.Bool())
		case x < 92:
			return jNull()
		case x < 94:
			return jObj(jKV("k", jStr(cfgString(g, data))))
		case x < 97:
			return jArr(list(1))
		default:
			return jArr(jStr(cfgString(g, data)), hx.Pick(r, []hx.Sx{jNum("5"), jNull(), jBool(false), jObj()}))
		}
	}
	random := func(stream string, g *gen, route int, maxEvents int) {
		var evs []hx.Sx
		for j := r.Range(1, maxEvents); j > 0; j-- {
			evs = append(evs, g.event())
		}
		var ents []cfgEntry
		used := map[string]bool{}
		for j := r.Range(1, 3); j > 0; j-- {
			p := g.path(hx.Pick(r, evs))
			if len(p) == 0 || used[selector(p)] {
				continue
			}
			used[selector(p)] = true
			data := ""
			if v, ok := jDig(evs[0], p); ok {
				data = jText(v)
			}
			if !utf8.ValidString(data) {
				data = g.word()
			}
			ents = append(ents, cfgEntry{path: p, val: cfgValue(g, data)})
		}
		mode := hx.Pick(r, cfgModes)
		if r.Chance(1, 40) {
			mode = hx.Pick(r, []string{"xor", "nand", "prefix"})
		}
		h.matchCfg(stream, route, mode, r.Chance(1, 3), ents, evs)
	}
	for i := 0; i < 1500*sc; i++ {
		g := h.g
		if i%2 == 0 {
			g = pg
		}
		random("match-config", g, 0, 4)
	}

	// ---- match-config-pipeline: the same through fd.SetupActions and a real pipeline (one discard action): the written
	// value reaches the reader inside a whole action object, the decision is whether the event was discarded ---------------
	pipeEvents := func(val hx.Sx) []hx.Sx {
		evs := cfgEventsFor("a", val)
		if len(evs) > 12 {
			evs = evs[:12]
		}
		return evs
	}
	for i, s := range []string{"/x/", "/var/log/", "/x", ".*", " x", "", "/(/", "//"} {
		for j, v := range []hx.Sx{jStrs(s), jStr(s)} {
			m := (i*2 + j) % 10
			h.matchCfg("match-config-pipeline", 1, cfgModes[m%5], m >= 5, []cfgEntry{{path: []string{"a"}, val: v}}, pipeEvents(v))
		}
	}
	for _, v := range []hx.Sx{jArr(), jStrs("/x/", "x"), jNum("500"), jArr(jStrs("x")), jNull()} {
		h.matchCfg("match-config-pipeline", 1, "or", false, []cfgEntry{{path: []string{"a"}, val: v}}, pipeEvents(v))
	}
	for i := 0; i < 16*sc; i++ {
		random("match-config-pipeline", pg, 1, 5)
	}
	h.c.W.Count("match_config_round_done_" + strconv.Itoa(sc))
}
