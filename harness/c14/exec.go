package main

// Exec: runs the REAL code on exactly what the case says.
//  which=0  (via tree event now tables)                      -> 0 | 1 | (2) constructor error | (3 #panic)
//  which=1  (via (tree...) (event...) now tables)            -> ((bit...)...) per event | (2)
//           (via (10 action...) (event...) now tables)       -> action chain, see chain.go
//  which=0  with (9 #event #source ((#k #v)...)) as the event: one antispam rule over antispam data, see config.go
//  which=2  (tree|0 #mode invert (cond...) (event...) now tables)  processor.isMatch    -> (bit...) | (2)
//  which=3  same case, through fd.SetupActions + a real pipeline with a discard action -> (bit...) | (2)
//  which=4  (route #mode invert ((path json-value)...) (event...) tables)  the match_fields map as written, see matchcfg.go
//  which=5  (K n which-2-case)  one rule shared by K goroutines, see shared.go

import (
	"encoding/json"
	"strings"
	"sync"
	"time"

	"github.com/bitly/go-simplejson"
	"github.com/ozontech/file.d/cfg"
	"github.com/ozontech/file.d/fd"
	"github.com/ozontech/file.d/pipeline"
	"github.com/ozontech/file.d/pipeline/doif"
	_ "github.com/ozontech/file.d/plugin/action/discard"
	"github.com/ozontech/file.d/test"
	insaneJSON "github.com/ozontech/insane-json"

	"verif/harness/hx"
)

const pipelineFillers = 320

var (
	obsReject = hx.L(hx.I(2))
	obsBadEvt = hx.L(hx.I(4))
)

func decode(ev hx.Sx) *insaneJSON.Root {
	root := insaneJSON.Spawn()
	if err := root.DecodeString(hx.JSONText(ev)); err != nil {
		insaneJSON.Release(root)
		return nil
	}
	return root
}

func c14Exec(which int, cs hx.Sx) hx.Sx {
	it := hx.Items(cs)
	switch which {
	case 0:
		if isAsData(it[2]) {
			return execAntispam(int(hx.Int(it[0])), nodeFromSx(it[1]), asDataFromSx(it[2]))
		}
		fn, _, err := constructVia(nodeFromSx(it[1]), int(hx.Int(it[0]))&^2)
		if err != nil {
			return obsReject
		}
		root := decode(it[2])
		if root == nil {
			return obsBadEvt
		}
		defer insaneJSON.Release(root)
		var res bool
		if p := hx.Catch(func() { res = fn(root) }); p != "" {
			return hx.L(hx.I(3), hx.S(p))
		}
		return hx.Bool(res)

	case 1:
		via := int(hx.Int(it[0])) &^ 2
		if isChain(it[1]) {
			return execChain(via, hx.Items(it[1])[1:], hx.Items(it[2]))
		}
		var fns []checkFn
		var pause time.Duration
		for _, t := range hx.Items(it[1]) {
			n := nodeFromSx(t)
			fn, _, err := constructVia(n, via)
			if err != nil {
				return obsReject
			}
			fns = append(fns, fn)
			// a ts_cmp "now" node with a sub-second update interval: wait three intervals after every event, so that its
			// updater goroutine (ts_cmp_op.go startUpdater) has ticked at least twice before the next event is judged
			n.walk(func(x *rnode) {
				if x.kind == kTs && x.mode == 1 && x.a < int64(time.Second) {
					if d := 3 * time.Duration(x.a); d > pause {
						pause = d
					}
				}
			})
		}
		if pause > 50*time.Millisecond {
			pause = 50 * time.Millisecond
		}
		var rows []hx.Sx
		// ONE Root for the whole sequence, re-decoded for every event: this is what the pipeline's pooled events do, so the
		// strings a checker got from the previous event are overwritten by the next one (nothing may be remembered by alias)
		root := insaneJSON.Spawn()
		root.ReleasePoolMem() // a decoder born with the production node pool of 16 (Spawn may hand out a recycled, grown one)
		defer insaneJSON.Release(root)
		for _, ev := range hx.Items(it[2]) {
			if root.PoolSize() > 16*4 { // eventPool.resetEvent (pipeline/event.go:414) between two events of a pooled Root
				root.ReleasePoolMem()
			}
			if err := root.DecodeString(hx.JSONText(ev)); err != nil {
				return obsBadEvt
			}
			var row []hx.Sx
			for _, fn := range fns { // every checker in turn on the SAME decoded root, as a pipeline's actions do
				var res bool
				if p := hx.Catch(func() { res = fn(root) }); p != "" {
					return hx.L(hx.I(3), hx.S(p))
				}
				row = append(row, hx.Bool(res))
			}
			rows = append(rows, hx.L(row...))
			if pause > 0 {
				time.Sleep(pause)
			}
		}
		return hx.L(rows...)

	case 2:
		return execIsMatch(it)
	case 3:
		return execPipeline(it)
	case 4:
		return execMatchCfg(it)
	case 5:
		return execShared(it)
	}
	panic("c14: unknown which")
}

// the spelling handed to MatchModeFromString (which trims and lower-cases): derived from the case
func modeSpelling(name string, nconds int) string {
	if nconds%2 == 1 {
		return " " + strings.ToUpper(name) + " "
	}
	return name
}

// the selector of a which = 2 / 5 case, built the way fd/util.go hands it to the pipeline
type rule struct {
	checker *doif.Checker
	tree    *rnode
	conds   pipeline.MatchConditions
	mode    pipeline.MatchMode
	invert  bool
	snap    string // the match conditions as configured (ruleSnap), taken before any evaluation
}

func buildRule(it []hx.Sx) (*rule, hx.Sx) {
	r := &rule{}
	if !hx.IsInt(it[0]) {
		r.tree = nodeFromSx(it[0])
		_, c, err := construct(r.tree, 0)
		if err != nil {
			return nil, obsReject
		}
		r.checker = c
	}
	for _, c := range hx.Items(it[3]) {
		cd := condFromSx(c)
		if len(cd.nums) > 0 {
			panic("c14: a non-string list element exists only in the configuration form (which = 3)")
		}
		mc := pipeline.MatchCondition{Field: cd.path, Values: cd.vals}
		if cd.re != nil {
			re, err := cfg.CompileRegex("/" + *cd.re + "/")
			if err != nil {
				return nil, obsReject
			}
			mc.Regexp = re
		}
		r.conds = append(r.conds, mc)
	}
	r.mode = pipeline.MatchModeFromString(modeSpelling(hx.Str(it[1]), len(r.conds)))
	if r.mode == pipeline.MatchModeUnknown {
		return nil, obsReject
	}
	r.invert = hx.Truth(it[2])
	r.snap = ruleSnap(r.conds)
	return r, nil
}

// rule immutability: evaluating a selector must not write the rule, which all processors of a pipeline share
// (Pipeline.newProc). "" when the conditions read back are the configured ones (fields, values IN ORDER, regexp text)
// and the do_if tree equals a fresh construction from the same description.
func (r *rule) mutated() string {
	if now := ruleSnap(r.conds); now != r.snap {
		return "match conditions changed by evaluating them: configured " + r.snap + " now " + now
	}
	if r.checker != nil {
		if _, fresh, err := construct(r.tree, 0); err == nil && fresh != nil {
			if e := r.checker.IsEqualTo(fresh); e != nil {
				return "do_if tree changed by evaluating it: " + e.Error()
			}
		}
	}
	return ""
}

// observation of a rule that was written by its own evaluation: no sub-model produces it, so the verdict is Violates
func obsMutated(detail string, bits []hx.Sx) hx.Sx {
	return hx.L(hx.I(8), hx.L(bits...), hx.S(detail))
}

func execIsMatch(it []hx.Sx) hx.Sx {
	r, rej := buildRule(it)
	if rej != nil {
		return rej
	}
	var bits []hx.Sx
	for _, ev := range hx.Items(it[4]) {
		root := decode(ev)
		if root == nil {
			return obsBadEvt
		}
		var res bool
		p := hx.Catch(func() { res = pipeline.VerifIsMatchC14(r.conds, r.mode, r.invert, r.checker, root) })
		insaneJSON.Release(root)
		if p != "" {
			return hx.L(hx.I(3), hx.S(p))
		}
		bits = append(bits, hx.Bool(res))
	}
	if d := r.mutated(); d != "" {
		return obsMutated(d, bits)
	}
	return hx.L(bits...)
}

// a real pipeline (fake input, devnull output) whose only action is `discard` with the selector of the
// case, configured through fd.SetupActions exactly as a config file is; bit = the event was discarded
func execPipeline(it []hx.Sx) hx.Sx {
	action := map[string]any{"type": "discard"}
	if !hx.IsInt(it[0]) {
		m := nodeFromSx(it[0]).toMap()
		if _, err := doif.NewFromMap(m); err != nil {
			return obsReject // setupAction would logger.Fatalf here and take the process down
		}
		action["do_if"] = m
	}
	conds := hx.Items(it[3])
	mf := map[string]any{}
	for i, c := range conds {
		cd := condFromSx(c)
		switch {
		case cd.re != nil:
			mf[selector(cd.path)] = "/" + *cd.re + "/"
		case i%2 == 1 && len(cd.nums) == 1 && len(cd.vals) == 0:
			mf[selector(cd.path)] = cd.nums[0] // a lone number written as a scalar (yaml `code: 500`): refused since /repo fix 4c267b0
		case len(cd.nums) > 0:
			l := []any{}
			for _, v := range cd.vals {
				l = append(l, v)
			}
			for _, n := range cd.nums {
				l = append(l, n)
			}
			mf[selector(cd.path)] = l
		case i%2 == 1 && len(cd.vals) == 1 && (cd.vals[0] == "" || cd.vals[0][0] != '/'):
			mf[selector(cd.path)] = cd.vals[0] // a single value written as a scalar (fd/util.go extractConditions: not a /regexp/)
		default:
			mf[selector(cd.path)] = cd.vals
		}
	}
	action["match_fields"] = mf
	action["match_mode"] = modeSpelling(hx.Str(it[1]), len(conds))
	action["match_invert"] = hx.Truth(it[2])
	raw, err := json.Marshal([]any{action})
	if err != nil {
		return obsBadEvt
	}
	actions, err := simplejson.NewJson(raw)
	if err != nil {
		return obsBadEvt
	}
	return runDiscardPipeline(actions, hx.Items(it[4]))
}

// the pipeline part of which = 3 / which = 4 route 1: `actions` is the actions array of a pipeline configuration
func runDiscardPipeline(actions *simplejson.Json, evs []hx.Sx) hx.Sx {
	var out hx.Sx
	pmsg := hx.Catch(func() {
		p, input, output := test.NewPipelineMock(nil, "passive", "name")
		if err := fd.SetupActions(p, fd.DefaultPluginRegistry, actions, map[string]int{"capacity": 64, "gomaxprocs": 1}); err != nil {
			out = obsReject
			return
		}
		var mu sync.Mutex
		passed := map[int64]bool{}
		output.SetOutFn(func(e *pipeline.Event) {
			mu.Lock()
			passed[e.Offset] = true
			mu.Unlock()
		})
		p.Start()
		for i, ev := range evs {
			input.In(0, "c14", test.NewOffset(int64(i+1)), []byte(hx.JSONText(ev)))
		}
		// A discarded event is not reported to the input. The pipeline has one processor and one
		// stream (FIFO) and an event pool of 256: once 320 further events were accepted, the pool
		// has taken back the first len(evs) events, i.e. they went through the action (and output).
		for i := 0; i < pipelineFillers; i++ {
			input.In(0, "c14", test.NewOffset(int64(len(evs)+i+1)), []byte(`{"c14_filler":1}`))
		}
		p.Stop()
		bits := make([]hx.Sx, len(evs))
		mu.Lock()
		for i := range evs {
			bits[i] = hx.Bool(!passed[int64(i+1)])
		}
		mu.Unlock()
		out = hx.L(bits...)
	})
	if pmsg != "" {
		return hx.L(hx.I(3), hx.S(pmsg))
	}
	return out
}
