package main

// Streams that cross scale / history thresholds hard-coded in the code under test (threshold audit, item 40).
// Each stream states which regression it would expose. All cases are judged by the existing sub-models
// (which = 0, 1, 2): the model reads fields by the first match in document order, which is what insane-json
// answers for an object without duplicate keys whatever its width.

import (
	"strconv"
	"time"

	"verif/harness/hx"
)

// widen gives the object `total` fields: the original fields keep their relative order and are interleaved with
// filler fields p0, p1, ... (distinct from every key the generators use, so no key occurs twice). A non-object is returned as is.
func (g *gen) widen(ev hx.Sx, total int, prefix string) hx.Sx {
	if jKind(ev) != 5 {
		return ev
	}
	orig := hx.Items(ev)[1:]
	nf := total - len(orig)
	if nf <= 0 {
		return ev
	}
	var kvs []hx.Sx
	oi, fi := 0, 0
	for oi < len(orig) || fi < nf {
		takeOrig := oi < len(orig) && (fi >= nf || g.r.Intn(len(orig)-oi+nf-fi) < len(orig)-oi)
		if takeOrig {
			kvs = append(kvs, orig[oi])
			oi++
		} else {
			kvs = append(kvs, jKV(prefix+strconv.Itoa(fi), g.scalar()))
			fi++
		}
	}
	return jObj(kvs...)
}

// widths around insane-json's MapUseThreshold = 16 (Dig builds and uses the per-object map index from 17 fields on)
var wideWidths = []int{15, 16, 17, 17, 18, 21, 24, 33}

func (g *gen) wideEvent() hx.Sx {
	ev := g.object(g.r.Range(1, 6), 2)
	if g.r.Chance(1, 3) { // a nested wide object too: two map-indexed steps in one Dig
		inner := g.widen(g.object(g.r.Range(0, 3), 1), hx.Pick(g.r, wideWidths), "q")
		var kvs []hx.Sx
		for _, f := range hx.Items(ev)[1:] {
			if hx.Str(hx.Items(f)[0]) != "d" {
				kvs = append(kvs, f)
			}
		}
		ev = jObj(append(kvs, jKV("d", inner))...)
	}
	if _, has := jDig(ev, []string{"ts"}); !has && g.r.Chance(1, 3) {
		ev = jObj(append(append([]hx.Sx(nil), hx.Items(ev)[1:]...), jKV("ts", jStr(hx.Pick(g.r, stamps))))...)
	}
	return g.widen(ev, hx.Pick(g.r, wideWidths), "p")
}

func countFields(h *harn, evs []hx.Sx) {
	for _, ev := range evs {
		if jKind(ev) != 5 {
			continue
		}
		switch n := len(hx.Items(ev)) - 1; {
		case n > 16:
			h.c.W.Count("event_with_17+_fields(map-indexed)")
		case n == 16:
			h.c.W.Count("event_with_16_fields")
		default:
			h.c.W.Count("event_with_<16_fields")
		}
	}
}

func genThresholds(h *harn) {
	g, r, sc := h.g, h.c.R, h.c.Scale

	// ---- wide-events: objects of 15..33 fields, so that doif's root.Dig goes through the map index insane-json builds for
	// objects of more than 16 fields (insane.go Dig, MapUseThreshold); wide / narrow / wide events alternate on ONE Root
	// (which = 1 re-decodes into the same Root), which takes the map-reuse branch (the map of the previous wide event is
	// emptied and refilled). Would expose: a checker that remembers a dug node / index / field position from an earlier
	// event, a stale map index surviving the re-decode (a field of the previous wide event still "found", or a field of
	// the present one missed), a Dig that misses fields at position >= 16.
	for i := 0; i < 350*sc; i++ {
		var evs []hx.Sx
		for j := r.Range(3, 6); j > 0; j-- {
			switch r.Intn(4) {
			case 0:
				evs = append(evs, g.event()) // narrow
			default:
				evs = append(evs, g.wideEvent())
			}
		}
		var ts []*rnode
		for j := r.Range(2, 4); j > 0; j-- {
			ts = append(ts, g.tree(hx.Pick(r, evs), r.Range(1, 4)))
		}
		countFields(h, evs)
		h.seq("wide-events", r.Intn(2), ts, evs, false)
	}
	for i := 0; i < 1500*sc; i++ {
		ev := g.wideEvent()
		countFields(h, []hx.Sx{ev})
		h.check("wide-events", r.Intn(2), g.tree(ev, r.Range(1, 5)), ev)
	}
	// ---- legacy-wide: the same events through processor.isMatch (isMatchOr / isMatchAnd dig every condition's field).
	// Would expose: the legacy selector reading a condition's field by position, or only among the first 16 fields.
	modes := []string{"and", "or", "and_prefix", "or_prefix"}
	for i := 0; i < 500*sc; i++ {
		var evs []hx.Sx
		for j := r.Range(1, 4); j > 0; j-- {
			evs = append(evs, g.wideEvent())
		}
		countFields(h, evs)
		cs := g.conds(evs[0])
		if len(evs) > 1 && r.Bool() {
			cs = append(cs, g.conds(evs[1])...)
			seen := map[string]bool{}
			var uniq []cond
			for _, c := range cs {
				if !seen[selector(c.path)] {
					seen[selector(c.path)] = true
					uniq = append(uniq, c)
				}
			}
			cs = uniq
		}
		h.proc("legacy-wide", 2, nil, hx.Pick(r, modes), r.Chance(1, 3), cs, evs)
	}

	// ---- int-boundary: int_val_cmp on integers of 17..20 digits and around +-2^63. insane-json's decodeInt64 accumulates
	// the first 18 digits itself and hands anything longer to strconv.ParseInt (insane.go `o <= 18`); ParseInt's range
	// error gives 0, which lenCmpOpNode.Check treats as "not a number" unless the text is "0" (len_cmp_op.go:220-225).
	// The oracle as_int is taken from a separately decoded copy of the value, the check runs on the node inside the
	// event. Would expose: an int_val_cmp that truncates to 32 bits, compares as float64 (2^63-1 = 2^63), reads a stale
	// number of an earlier event, or panics / mis-handles the 18-digit switch-over.
	bigInts := []string{"99999999999999999", "100000000000000000", "999999999999999999", "1000000000000000000", "1000000000000000001",
		"9223372036854775806", "9223372036854775807", "9223372036854775808", "9999999999999999999", "18446744073709551615", "18446744073709551616",
		"-999999999999999999", "-1000000000000000000", "-9223372036854775807", "-9223372036854775808", "-9223372036854775809",
		"4294967295", "4294967296", "2147483648", "-2147483649", "9007199254740993", "0", "-0", "7"}
	oddInts := []string{"0000000000000000000", "00000000000000000001", "000000000000000000012", "+9223372036854775807", "9223372036854775807.0",
		"9.223372036854775807e18", "1e19", "-1e19", "922337203685477580a", " 9223372036854775807", "९"}
	cmpVals := []int64{0, 1, 7, 2147483647, 2147483648, 4294967296, 9007199254740992, 9007199254740993, 99999999999999999, 999999999999999999,
		1000000000000000000, 9223372036854775806, 9223372036854775807}
	for _, s := range bigInts {
		for _, asStr := range []bool{false, true} {
			v := jNum(s)
			if asStr {
				v = jStr(s)
			}
			ev := jObj(jKV("n", v))
			vals := append([]int64(nil), cmpVals...)
			if x, err := strconv.ParseInt(s, 10, 64); err == nil && x > 0 {
				vals = append(vals, x-1, x)
				if x < 1<<63-1 {
					vals = append(vals, x+1)
				}
			}
			for _, cv := range vals {
				h.c.W.Count("int_boundary_number_of_" + strconv.Itoa(len(s)) + "_bytes")
				h.check("int-boundary", r.Intn(2), &rnode{kind: kLen, op: 2, path: []string{"n"}, cmp: r.Intn(6), value: cv}, ev)
			}
		}
	}
	for _, s := range oddInts {
		ev := jObj(jKV("n", jStr(s)))
		for _, cv := range []int64{0, 1, 12, 9223372036854775807} {
			h.check("int-boundary", r.Intn(2), &rnode{kind: kLen, op: 2, path: []string{"n"}, cmp: r.Intn(6), value: cv}, ev)
		}
	}
	// long and short numbers alternating at the same place of one Root, all six comparisons in turn
	for i := 0; i < 60*sc; i++ {
		var evs []hx.Sx
		for j := r.Range(3, 7); j > 0; j-- {
			s := hx.Pick(r, bigInts)
			if r.Chance(1, 4) {
				s = hx.Pick(r, numbers)
			}
			if r.Bool() {
				evs = append(evs, jObj(jKV("n", jNum(s))))
			} else {
				evs = append(evs, jObj(jKV("n", jStr(s))))
			}
		}
		var ts []*rnode
		for c := 0; c < 6; c++ {
			ts = append(ts, &rnode{kind: kLen, op: 2, path: []string{"n"}, cmp: c, value: hx.Pick(r, cmpVals)})
		}
		h.seq("int-boundary", r.Intn(2), ts, evs, false)
	}

	// ---- ts-range-edge: timestamps at the two ends of the int64-nanosecond range (1677-09-21T00:12:43.145224192Z ..
	// 2262-04-11T23:47:16.854775807Z), still representable, against constants on both sides and far away. The oracle is
	// the exact nanosecond count (Unix()*1e9 + Nanosecond() in unbounded integers). Would expose: a conversion to a
	// narrower unit or type (milliseconds, float64, int32 seconds), a sign slip in lhs/rhs for negative (pre-1970) instants.
	edge := []string{"1677-09-21T00:12:43.145224192Z", "1677-09-21T00:12:44Z", "1677-09-22T00:00:00Z", "1700-01-01T00:00:00Z", "1969-12-31T23:59:59.999999999Z",
		"1970-01-01T00:00:00Z", "2262-04-11T23:47:16.854775807Z", "2262-04-11T23:47:16Z", "2262-04-10T00:00:00Z", "2200-01-01T00:00:00Z"}
	consts := []int64{-9223372036854775808, -9223372036854775807, -8520336000e9, -1, 0, 1, 1600000000e9, 7258118400e9, 9223372036854775806, 9223372036854775807}
	for _, s := range edge {
		ev := jObj(jKV("ts", jStr(s)))
		for _, cv := range consts {
			for c := 0; c < 6; c++ {
				h.check("ts-range-edge", r.Intn(2), &rnode{kind: kTs, path: []string{"ts"}, format: "rfc3339nano", cmp: c, mode: 0, a: cv}, ev)
			}
		}
	}

	// ---- ts-out-of-range: timestamps that xtime.ParseTime accepts but whose nanosecond count does not fit an int64 (year
	// 0001, 1500, 2263, 3000, 9999), judged against the exact instant. Finding C14-ts-unixnano-overflow (notes/), repaired
	// by 1c054cc: tsCmpOpNode.Check took time.Time.UnixNano(), which wraps ("9999-12-31T23:59:59Z lt 2000-01-01" was
	// true), and now saturates. Would expose: the wrap-around coming back, a saturation to the wrong end.
	{
		far := []string{"0001-01-01T00:00:00Z", "1500-06-01T00:00:00Z", "1677-09-21T00:12:43Z", "2262-04-11T23:47:17Z", "2263-01-01T00:00:00Z",
			"2500-01-01T00:00:00Z", "3000-01-01T00:00:00Z", "9999-12-31T23:59:59Z"}
		for _, s := range far {
			ev := jObj(jKV("ts", jStr(s)))
			for _, cv := range []int64{946684800e9, 1600000000e9, 4102444800e9} {
				for c := 0; c < 6; c++ {
					h.check("ts-out-of-range", r.Intn(2), &rnode{kind: kTs, path: []string{"ts"}, format: "rfc3339nano", cmp: c, mode: 0, a: cv}, ev)
				}
			}
			h.check("ts-out-of-range", 0, &rnode{kind: kTs, path: []string{"ts"}, format: "rfc3339", cmp: r.Intn(6), mode: 1, a: 3600e9}, ev)
		}
	}

	// ---- sequence-now: ts_cmp with value "now" and an update interval of 2 ms; Exec waits three intervals after every
	// event, so the updater goroutine (ts_cmp_op.go:125-135) has ticked at least twice between two judged events and at
	// least 2*len(events) times in a case; every comparison stays decades away from the clock, so the documented answer
	// is the same for every tick. Would expose: an updater that stores something else than the current time in
	// nanoseconds after its first tick (seconds, the interval, an accumulated drift, a zero after a failed read),
	// or a Check that adds the interval / shift once per call instead of once.
	// Kept last: every such node leaves a goroutine that wakes up every 2 ms until the process ends.
	nowStamps := []string{"1990-01-02T03:04:05Z", "2000-06-01T00:00:00Z", "2010-01-01T00:00:00.5Z", "2050-12-31T23:59:59.999999999Z",
		"2080-01-01T00:00:00Z", "2100-01-01T00:00:00Z", "qwe"}
	for i := 0; i < 25*sc; i++ {
		var evs []hx.Sx
		for j := r.Range(3, 5); j > 0; j-- {
			evs = append(evs, jObj(jKV("ts", jStr(hx.Pick(r, nowStamps))), jKV("n", jStr("x"))))
		}
		var ts []*rnode
		for j := r.Range(1, 2); j > 0; j-- {
			ts = append(ts, &rnode{kind: kTs, path: []string{"ts"}, format: "rfc3339nano", cmp: r.Intn(6), mode: 1, a: int64(2 * time.Millisecond),
				shift: hx.Pick(r, []int64{0, 1e9, -1e9, year, -year})})
		}
		h.c.W.Count("sequence_now_updater_ticks>=" + strconv.Itoa(2*len(evs)))
		h.seq("sequence-now", r.Intn(2), ts, evs, false)
	}
}
