package main

// Random events and rule trees. Every random choice comes from the single seeded PRNG.

import (
	"regexp"
	"strconv"
	"strings"

	"verif/harness/hx"
)

type gen struct {
	r     *hx.Rng
	ascii bool // only valid ASCII strings (the real-pipeline stream: the rule travels through encoding/json)
}

var keys = []string{"a", "b", "c", "d", "pod", "ts", "n", "x.y"}

var words = []string{"", "a", "b", "ab", "abc", "abcd", "abd", "ABC", "Ab", "aB", "test-pod-1", "test-pod-2", "Test-Pod-1",
	"pod", "my-pod", " ", "0", "12", "true", "null", "a b", "x/y",
	"é", "éa", "aé", "日本", "日本語", "дом", "ДОМ", "Дом", "😀x", "ÀB", "àb", "straße"}

var numbers = []string{"0", "1", "12", "-5", "1.5", "1e2", "100", "7", "-0", "123456789012"}
var numStrings = []string{"0", "12", "00", "+5", "-5", "x", "1.5", "1e2", "", "99"}
var stamps = []string{"1990-01-02T03:04:05Z", "2000-06-01T00:00:00Z", "2010-01-01T00:00:00.5Z", "2020-02-29T12:00:00+03:00",
	"2030-01-01T00:00:00Z", "2050-12-31T23:59:59.999999999Z", "2080-01-01T00:00:00Z", "2100-01-01T00:00:00Z",
	"qwe", "2020-13-01T00:00:00Z", "1600000000", "1600000000.25", "1600000000123", "2020-01-02"}
var formats = []string{"rfc3339nano", "rfc3339", "RFC3339", "2006-01-02", "unixtime", "unixtimemilli", "2006-01-02T15:04:05.999999999Z07:00", "nope"}
var typeNames = []string{"obj", "object", "arr", "array", "num", "number", "str", "string", "null", "nil"}
var patterns = []string{"^a", "b$", "a.c", `^test-pod-\d$`, "(?i)abc", ".*", "^$", "[0-9]+", "日本", "pod", "^.$", "é|д", `\x00`, "a{2,}"}

func (g *gen) word() string {
	for {
		w := hx.Pick(g.r, words)
		if !g.ascii || isASCII([]byte(w)) {
			return w
		}
	}
}

func (g *gen) scalar() hx.Sx {
	switch g.r.Intn(12) {
	case 0:
		return jNull()
	case 1:
		return jBool(g.r.Bool())
	case 2:
		return jNum(hx.Pick(g.r, numbers))
	case 3:
		return jStr(hx.Pick(g.r, numStrings))
	case 4:
		return jStr(hx.Pick(g.r, stamps))
	case 5:
		return jStr(g.word() + g.word())
	default:
		return jStr(g.word())
	}
}

func (g *gen) value(depth int) hx.Sx {
	if depth > 0 && g.r.Chance(1, 4) {
		n := g.r.Intn(4)
		if g.r.Bool() {
			xs := make([]hx.Sx, n)
			for i := range xs {
				xs[i] = g.value(depth - 1)
			}
			return jArr(xs...)
		}
		return g.object(n, depth-1)
	}
	return g.scalar()
}

func (g *gen) object(n, depth int) hx.Sx {
	used := map[string]bool{}
	var kvs []hx.Sx
	for i := 0; i < n; i++ {
		k := hx.Pick(g.r, keys)
		if used[k] {
			continue
		}
		used[k] = true
		kvs = append(kvs, jKV(k, g.value(depth)))
	}
	return jObj(kvs...)
}

func (g *gen) event() hx.Sx {
	if g.r.Chance(1, 40) && !g.ascii {
		return g.value(2) // a root that is not an object
	}
	ev := g.object(g.r.Range(0, 6), 3)
	if _, has := jDig(ev, []string{"ts"}); !has && g.r.Chance(1, 3) {
		ev = hx.L(append(append([]hx.Sx(nil), hx.Items(ev)...), jKV("ts", jStr(hx.Pick(g.r, stamps))))...)
	}
	return ev
}

// every path of the event (containers and scalars), as lists of keys / indices
func allPaths(v hx.Sx, prefix []string, out *[][]string) {
	*out = append(*out, append([]string(nil), prefix...))
	switch jKind(v) {
	case 4:
		for i, x := range hx.Items(v)[1:] {
			allPaths(x, append(prefix, strconv.Itoa(i)), out)
		}
	case 5:
		for _, f := range hx.Items(v)[1:] {
			kv := hx.Items(f)
			allPaths(kv[1], append(prefix, hx.Str(kv[0])), out)
		}
	}
}

func (g *gen) path(ev hx.Sx) []string {
	if g.r.Chance(4, 5) {
		var ps [][]string
		allPaths(ev, nil, &ps)
		p := hx.Pick(g.r, ps)
		if g.r.Chance(1, 12) {
			p = append(append([]string(nil), p...), hx.Pick(g.r, []string{"a", "0", "zz"}))
		}
		return p
	}
	n := g.r.Range(0, 2)
	p := []string{}
	for i := 0; i < n; i++ {
		p = append(p, hx.Pick(g.r, append(keys, "0", "1", "+1", "-1", "01")))
	}
	return p
}

func flipCase(s string) string {
	b := []byte(s)
	for i, c := range b {
		switch {
		case 'a' <= c && c <= 'z' && i%2 == 0:
			b[i] = c - 32
		case 'A' <= c && c <= 'Z':
			b[i] = c + 32
		}
	}
	return string(b)
}

// a value related to the field's data: itself, a prefix/suffix/infix, a same-length variant, other case
func (g *gen) derived(data string) string {
	if len(data) == 0 {
		return g.word()
	}
	i := g.r.Intn(len(data) + 1)
	j := i + g.r.Intn(len(data)-i+1)
	switch g.r.Intn(10) {
	case 0, 1:
		return data
	case 2:
		return data[:j]
	case 3:
		return data[i:]
	case 4:
		return data[i:j]
	case 5:
		b := []byte(data)
		b[g.r.Intn(len(b))] ^= 1
		if g.ascii && !isASCII(b) {
			return data
		}
		return string(b)
	case 6:
		return flipCase(data)
	case 7:
		if g.ascii {
			return strings.ToUpper(data[:j])
		}
		return strings.ToUpper(data[:j]) // Unicode upper-casing: may change the byte length
	case 8:
		return data + g.word()
	default:
		return g.word()
	}
}

// mostly avoid field ops that accept the placeholder byte of an array/object field (a known
// divergence that has its own stream); one in 250 is let through
func (g *gen) leaf(ev hx.Sx) *rnode {
	for try := 0; ; try++ {
		n := g.leaf1(ev)
		if n.kind == kField && try < 8 && !g.r.Chance(1, 250) {
			if _, _, container := jData(ev, n.path); container && placeholderAccepted(n) {
				continue
			}
		}
		return n
	}
}

// a path whose value satisfies want (a timestamp-like string, a number, an array), if the event has one
func (g *gen) pathWhere(ev hx.Sx, want func(v hx.Sx) bool) ([]string, bool) {
	var ps, hit [][]string
	allPaths(ev, nil, &ps)
	for _, p := range ps {
		if v, ok := jDig(ev, p); ok && want(v) {
			hit = append(hit, p)
		}
	}
	if len(hit) == 0 {
		return nil, false
	}
	return hx.Pick(g.r, hit), true
}

func isStamp(v hx.Sx) bool {
	if jKind(v) != 3 {
		return false
	}
	for _, s := range stamps {
		if jText(v) == s {
			return true
		}
	}
	return false
}

func (g *gen) leaf1(ev hx.Sx) *rnode {
	p := g.path(ev)
	k := g.r.Intn(20)
	if g.r.Chance(3, 4) { // aim the typed leaves at fields of their type
		switch {
		case k >= 15 && k < 17:
			if q, ok := g.pathWhere(ev, isStamp); ok {
				p = q
			}
		case k >= 12 && k < 15:
			if q, ok := g.pathWhere(ev, func(v hx.Sx) bool { return jKind(v) == 2 || jKind(v) >= 4 }); ok && g.r.Bool() {
				p = q
			}
		}
	}
	data, _, _ := jData(ev, p)
	switch {
	case k < 12:
		n := &rnode{kind: kField, op: g.r.Intn(6), path: p, cs: !g.r.Chance(3, 10)}
		nv := g.r.Range(1, 4)
		if g.r.Chance(1, 10) {
			nv = g.r.Range(5, 9)
		}
		switch n.op {
		case 2:
			chars := g.derived(string(data))
			if chars == "" {
				chars = "!$#a"
			}
			n.vals = []*string{sp(chars)}
		case 5:
			for i := 0; i < nv; i++ {
				if g.r.Bool() && (!g.ascii || isASCII(data)) {
					n.vals = append(n.vals, sp(regexp.QuoteMeta(g.derived(string(data)))))
				} else {
					for {
						pt := hx.Pick(g.r, patterns)
						if !g.ascii || isASCII([]byte(pt)) {
							n.vals = append(n.vals, sp(pt))
							break
						}
					}
				}
			}
		default:
			for i := 0; i < nv; i++ {
				switch {
				case g.r.Chance(1, 20):
					n.vals = append(n.vals, nil)
				case g.r.Chance(2, 3):
					n.vals = append(n.vals, sp(g.derived(string(data))))
				default:
					n.vals = append(n.vals, sp(g.word()))
				}
			}
		}
		return n
	case k < 15:
		n := &rnode{kind: kLen, op: g.r.Intn(3), path: p, cmp: g.r.Intn(6)}
		hint := int64(g.r.Intn(20))
		if v, ok := jDig(ev, p); ok && g.r.Chance(3, 4) {
			switch n.op {
			case 0:
				if jKind(v) >= 4 {
					hint = int64(len(hx.JSONText(v)))
				} else {
					hint = int64(len(jText(v)))
				}
			case 1:
				if jKind(v) == 4 {
					hint = int64(len(hx.Items(v)) - 1)
				}
			case 2:
				if jKind(v) == 2 || jKind(v) == 3 {
					hint = realAsInt(v)
				}
			}
			hint += int64(g.r.Intn(3) - 1)
			if hint < 0 {
				hint = 0
			}
		}
		n.value = hint
		return n
	case k < 17:
		n := &rnode{kind: kTs, path: p, format: hx.Pick(g.r, formats), cmp: g.r.Intn(6)}
		const year = int64(365 * 24 * 3600 * 1e9)
		n.shift = hx.Pick(g.r, []int64{0, 0, 1e9, -1e9, year, -year, 10 * year, -10 * year, 50 * year})
		if g.r.Chance(1, 3) {
			n.mode = 1
			n.a = hx.Pick(g.r, []int64{3600 * 1e9, year, 10 * year})
		} else {
			n.a = hx.Pick(g.r, []int64{946684800e9, 1262304000e9, 1262304000500000000, 1582966800e9, 1600000000e9, 1600000000250000000, 1893456000e9, 4102444800e9})
		}
		return n
	default:
		n := &rnode{kind: kType, path: p}
		for i := g.r.Range(1, 3); i > 0; i-- {
			n.types = append(n.types, hx.Pick(g.r, typeNames))
		}
		return n
	}
}

func (g *gen) tree(ev hx.Sx, depth int) *rnode {
	if depth <= 1 || g.r.Chance(1, 3) {
		return g.leaf(ev)
	}
	k := hx.Pick(g.r, []int{kAnd, kAnd, kOr, kOr, kNot})
	n := &rnode{kind: k}
	w := 1
	if k != kNot {
		w = g.r.Range(1, 4)
	}
	for i := 0; i < w; i++ {
		n.ops = append(n.ops, g.tree(ev, depth-1))
	}
	return n
}

func (g *gen) conds(ev hx.Sx) []cond {
	var cs []cond
	used := map[string]bool{}
	for i := g.r.Range(0, 3); i > 0; i-- {
		p := g.path(ev)
		if len(p) == 0 || used[selector(p)] {
			continue
		}
		used[selector(p)] = true
		data := ""
		if v, ok := jDig(ev, p); ok {
			data = jText(v)
		}
		c := cond{path: p}
		if g.r.Chance(1, 3) {
			pt := regexp.QuoteMeta(g.derived(data))
			if g.r.Bool() {
				pt = "^" + pt
			}
			if g.r.Chance(1, 6) {
				pt = hx.Pick(g.r, []string{"^a", "[0-9]+", ".*", "(", "a$", "^payment-api.*"})
			}
			c.re = sp(pt)
		} else {
			for j := g.r.Range(1, 3); j > 0; j-- {
				c.vals = append(c.vals, g.derived(data))
			}
		}
		cs = append(cs, c)
	}
	return cs
}
