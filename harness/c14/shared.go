package main

// which = 5: ONE rule shared by K goroutines. Pipeline.newProc hands every processor of a pipeline the same
// *ActionPluginStaticInfo, so the match conditions (value lists, regexps) and the do_if tree of an action exist once and
// are read by all processor goroutines at once. Here K goroutines, each a processor of its own (VerifIsMatchC14 builds
// one per call) over the SAME conditions and checker, evaluate the events of the case n times in all; afterwards one
// goroutine sweeps every event once more. Every decision, during and after, must be the documented one for
// (rule as configured, event) (theorems c14_shared_history_independent / c14_shared_rule_unchanged), and the rule read
// back must be the configured one.
//  case = (K n which-2-case)
//  obs  = (mutated (d...) (a...)) | (2) | (3 #panic)    d: 0 | 1 = every concurrent evaluation said so, 2 = they disagreed

import (
	"fmt"
	"strconv"
	"strings"
	"sync"

	"github.com/ozontech/file.d/pipeline"
	insaneJSON "github.com/ozontech/insane-json"

	"verif/harness/hx"
)

func ruleSnap(conds pipeline.MatchConditions) string {
	var b strings.Builder
	for _, c := range conds {
		fmt.Fprintf(&b, "{%q %q", c.Field, c.Values)
		if c.Regexp != nil {
			fmt.Fprintf(&b, " /%s/", c.Regexp.String())
		}
		b.WriteString("}")
	}
	return b.String()
}

func execShared(it []hx.Sx) hx.Sx {
	k, n := int(hx.Int(it[0])), int(hx.Int(it[1]))
	in := hx.Items(it[2])
	r, rej := buildRule(in)
	if rej != nil {
		return rej
	}
	evs := hx.Items(in[4])
	if k < 1 || n < 1 || len(evs) == 0 {
		return obsBadEvt
	}
	texts := make([]string, len(evs))
	for i, ev := range evs {
		texts[i] = hx.JSONText(ev)
		root := decode(ev)
		if root == nil {
			return obsBadEvt
		}
		insaneJSON.Release(root)
	}
	type tally struct{ yes, no []bool }
	tallies := make([]tally, k)
	panics := make([]string, k)
	var start, wg sync.WaitGroup
	start.Add(1)
	for g := 0; g < k; g++ {
		wg.Add(1)
		go func(g int) {
			defer wg.Done()
			t := tally{yes: make([]bool, len(evs)), no: make([]bool, len(evs))}
			roots := make([]*insaneJSON.Root, len(evs)) // every goroutine has its own events, as every processor has
			for i := range roots {
				roots[i] = insaneJSON.Spawn()
				_ = roots[i].DecodeString(texts[i])
			}
			start.Wait()
			panics[g] = hx.Catch(func() {
				for i := 0; i < n/k+1; i++ {
					j := (g + i) % len(evs)
					if pipeline.VerifIsMatchC14(r.conds, r.mode, r.invert, r.checker, roots[j]) {
						t.yes[j] = true
					} else {
						t.no[j] = true
					}
				}
			})
			for _, root := range roots {
				insaneJSON.Release(root)
			}
			tallies[g] = t
		}(g)
	}
	start.Done()
	wg.Wait()
	for _, p := range panics {
		if p != "" {
			return hx.L(hx.I(3), hx.S(p))
		}
	}
	during := make([]hx.Sx, len(evs))
	for j := range evs {
		yes, no := false, false
		for _, t := range tallies {
			yes, no = yes || t.yes[j], no || t.no[j]
		}
		switch {
		case yes && no:
			during[j] = hx.I(2)
		case yes:
			during[j] = hx.I(1)
		case no:
			during[j] = hx.I(0)
		default: // not evaluated in the concurrent phase (n < number of events): the sweep's decision stands for it
			during[j] = hx.I(3)
		}
	}
	// the sequential sweep: nothing else is running now
	after := make([]hx.Sx, len(evs))
	for j, ev := range evs {
		root := decode(ev)
		var res bool
		p := hx.Catch(func() { res = pipeline.VerifIsMatchC14(r.conds, r.mode, r.invert, r.checker, root) })
		insaneJSON.Release(root)
		if p != "" {
			return hx.L(hx.I(3), hx.S(p))
		}
		after[j] = hx.Bool(res)
		if hx.Int(during[j]) == 3 {
			during[j] = after[j]
		}
	}
	mut := 0
	if r.mutated() != "" {
		mut = 1
	}
	return hx.L(hx.I(mut), hx.L(during...), hx.L(after...))
}

// ---- one case ---------------------------------------------------------------------------------------------------------

func (h *harn) shared(base string, k, n int, t *rnode, mode string, invert bool, cs []cond, evs []hx.Sx) {
	inner, f, ok := h.procCase(t, mode, invert, cs, evs)
	if !ok {
		return
	}
	if f.hypFail || f.contHit || f.tsRange { // the known divergences have their own single-goroutine streams
		h.c.W.Count("shared_skipped_known_divergence")
		return
	}
	h.c.W.Count("shared_goroutines_" + strconv.Itoa(k))
	h.c.W.Count("shared_mode_" + mode)
	obs := h.c.Do(base, 5, hx.L(hx.I(k), hx.I(n), inner), f.resolves)
	if it := hx.Items(obs); len(it) == 3 && !hx.IsInt(it[1]) {
		for _, d := range hx.Items(it[1]) {
			h.c.W.Count("shared_concurrent_decision_" + hx.String(d))
		}
	}
}

// ---- generator: value lists of 2-12 values of one length, every event matching a DIFFERENT value (non-first ones
// included), a non-matching and a field-less event; all modes x invert; optionally a second condition (regexp or list)
// and, one case in four, a do_if tree over the same events instead of nothing
func genShared(h *harn) {
	r, g := h.c.R, h.g
	modes := []string{"and", "or", "and_prefix", "or_prefix", ""}
	cases, evals := 20, 200000
	if h.c.Scale > 1 {
		cases, evals = 20*h.c.Scale, 400000
	}
	for i := 0; i < cases; i++ {
		k := 2 + i%7 // 2..8
		nv := r.Range(2, 12)
		stem := g.word()
		mode := modes[i%len(modes)]
		prefix := strings.HasSuffix(mode, "prefix")
		var vals []string
		for v := 0; v < nv; v++ {
			vals = append(vals, fmt.Sprintf("%s-%02d", stem, v))
		}
		field := hx.Pick(r, []string{"ns", "k8s_namespace", "level"})
		rvals := append([]string(nil), vals...) // the list as configured: in no particular order (an in-place sort is a write too)
		for v := len(rvals) - 1; v > 0; v-- {
			w := r.Intn(v + 1)
			rvals[v], rvals[w] = rvals[w], rvals[v]
		}
		cs := []cond{{path: []string{field}, vals: rvals}}
		second := r.Chance(1, 3)
		if second {
			if r.Bool() {
				cs = append(cs, cond{path: []string{"pod"}, re: sp("^" + stem)})
			} else {
				cs = append(cs, cond{path: []string{"pod"}, vals: []string{stem + "-a0", stem + "-b1", stem + "-c2"}})
			}
		}
		if r.Bool() { // the order of the conditions is that of a Go map
			cs[0], cs[len(cs)-1] = cs[len(cs)-1], cs[0]
		}
		var evs []hx.Sx
		for v, val := range vals {
			text := val
			if prefix && v%2 == 0 {
				text = val + "-" + g.word()
			}
			kvs := []hx.Sx{jKV(field, jStr(text)), jKV("msg", jStr(g.word()))}
			if second {
				kvs = append(kvs, jKV("pod", jStr(hx.Pick(r, []string{stem + "-a0", stem + "-c2", stem + "-zz", "x"}))))
			}
			evs = append(evs, jObj(kvs...))
		}
		evs = append(evs, jObj(jKV(field, jStr(stem+"-zz")), jKV("pod", jStr(stem+"-b1"))), jObj(jKV("msg", jStr("x"))))
		var t *rnode
		if i%4 == 3 {
			t = g.tree(evs[r.Intn(len(evs))], r.Range(1, 3))
		}
		h.shared("shared-rule", k, evals, t, mode, r.Chance(1, 4), cs, evs)
	}
	// small scope, every run: 2 goroutines x every list length 2..4 x {and, or} - the shortest schedules that can lose a value
	for nv := 2; nv <= 4; nv++ {
		for _, mode := range []string{"and", "or"} {
			var vals []string
			var evs []hx.Sx
			for v := 0; v < nv; v++ {
				vals = append(vals, "ns-"+strconv.Itoa(v))
				evs = append(evs, jObj(jKV("ns", jStr("ns-"+strconv.Itoa(v)))))
			}
			h.shared("shared-rule", 2, evals/4, nil, mode, false, []cond{{path: []string{"ns"}, vals: vals}}, evs)
		}
	}
}
