package main

// Streams added by the coverage round (notes/coverage/C14-triage.md): behaviour of the anchored code no earlier
// generator reached — the configuration readers (ctor.go defaults and refusals, fd/util.go extractDoIfChecker /
// extractAntispamRules / extractPipelineParams / extractConditions), the second caller of a checker (antispam rules over
// antispam data: the type assertions of the length / timestamp / type leaves fail there), action chains (processor.doActions:
// pass / break / discard / collapse results, a busy action that is entered without consulting its selector).

import (
	"strconv"
	"time"

	"github.com/ozontech/file.d/pipeline/doif"

	"verif/harness/hx"
)

func (n *rnode) floatSafe() bool {
	ok := true
	n.walk(func(x *rnode) {
		if x.kind == kLen && (x.value > 1<<53 || x.value < -(1<<53)) {
			ok = false
		}
	})
	return ok
}

// a route on which this rule can be written down
func (g *gen) routeFor(t *rnode, routes []int) int {
	for try := 0; try < 8; try++ {
		r := hx.Pick(g.r, routes)
		switch {
		case r == rtFloat && !t.floatSafe():
		case r >= rtJSON && r != rtFloat && !t.jsonSafe():
		default:
			return r
		}
	}
	return rtTerse
}

// now and then a constant-mode timestamp leaf becomes `value: file_d_start`
func (g *gen) sprinkleStart(t *rnode) {
	t.walk(func(x *rnode) {
		if x.kind == kTs && x.mode == 0 && g.r.Chance(1, 4) {
			x.mode, x.a = 2, 0
		}
	})
}

// the terse spelling and the float spelling build trees equal (Checker.IsEqualTo) to the tree of the full spelling
func (h *harn) spellingOracle(t *rnode) {
	stable := true // a file_d_start / now node holds the clock of its construction
	t.walk(func(x *rnode) {
		if x.kind == kTs && x.mode != 0 {
			stable = false
		}
	})
	if !stable || t.hasBusyLoop() {
		return
	}
	full, err := doif.NewFromMap(t.toMap())
	if err != nil {
		return
	}
	terse, err := doif.NewFromMap(t.spell(true, false))
	ok := err == nil && full.IsEqualTo(terse) == nil && terse.IsEqualTo(full) == nil
	if ok && t.jsonSafe() {
		js, e1 := toSimpleJSON(t.spell(true, false))
		if e1 == nil {
			c, e2 := fdExtractDoIfChecker(js)
			ok = e2 == nil && c != nil && full.IsEqualTo(c) == nil
		}
	}
	h.c.W.Oracle("the terse spelling of a rule (documented defaults left out, single value as a scalar), read by doif.NewFromMap and by fd.extractDoIfChecker from JSON, builds a tree equal (Checker.IsEqualTo) to that of the full spelling", ok, hx.String(t.sx()))
}

// ---- antispam data ------------------------------------------------------------------------------------------------------------

var asSources = []string{"test.log", "/var/log/pods/ns_pod-1_uid/app/0.log", "", "kafka:topic:3", "Test.LOG", "abc", "日本"}
var asMetaKeys = []string{"service", "pod", "topic", "k.v", "event"}

func (g *gen) asData() asData {
	var d asData
	switch g.r.Intn(4) {
	case 0:
		d.event = g.word() + g.word()
	case 1:
		d.event = `{"level":"debug","msg":"` + g.word() + `"}`
	default:
		d.event = hx.JSONText(g.event())
	}
	if d.event == "" {
		d.event = "x"
	}
	if g.r.Chance(1, 3) {
		d.event += "\n"
	}
	d.source = hx.Pick(g.r, asSources)
	if g.r.Chance(1, 4) {
		d.source = g.word()
	}
	used := map[string]bool{}
	for i := g.r.Range(0, 3); i > 0; i-- {
		k := hx.Pick(g.r, asMetaKeys)
		if !used[k] {
			used[k] = true
			d.meta = append(d.meta, [2]string{k, g.word()})
		}
	}
	return d
}

func (g *gen) asPath(d asData) []string {
	switch g.r.Intn(20) {
	case 0, 1, 2, 3, 4:
		return []string{"event"}
	case 5, 6, 7, 8, 9:
		return []string{"source_name"}
	case 10, 11, 12, 13, 14:
		if len(d.meta) > 0 {
			return []string{"meta", hx.Pick(g.r, d.meta)[0]}
		}
		return []string{"meta", "service"}
	case 15:
		return []string{"meta", "absent"}
	case 16:
		return hx.Pick(g.r, [][]string{{"meta"}, {}, {"other"}, {"Event"}})
	case 17:
		return hx.Pick(g.r, [][]string{{"event", "level"}, {"source_name", "0"}, {"meta", "service", "x"}})
	default:
		return []string{hx.Pick(g.r, []string{"event", "source_name"})}
	}
}

func (g *gen) asLeaf(d asData) *rnode {
	p := g.asPath(d)
	if g.r.Chance(1, 10) { // a leaf that does not apply to antispam data
		switch g.r.Intn(3) {
		case 0:
			return &rnode{kind: kLen, op: g.r.Intn(3), path: p, cmp: g.r.Intn(6), value: int64(g.r.Intn(30))}
		case 1:
			return &rnode{kind: kTs, path: p, format: "rfc3339nano", cmp: g.r.Intn(6), mode: 0, a: 1600000000e9}
		default:
			return &rnode{kind: kType, path: p, types: []string{hx.Pick(g.r, typeNames)}}
		}
	}
	data, _ := d.get(p)
	n := &rnode{kind: kField, op: g.r.Intn(6), path: p, cs: !g.r.Chance(3, 10)}
	nv := g.r.Range(1, 3)
	switch n.op {
	case 2:
		chars := g.derived(string(data))
		if chars == "" {
			chars = "!$#a"
		}
		n.vals = []*string{sp(chars)}
	case 5:
		for i := 0; i < nv; i++ {
			n.vals = append(n.vals, sp(hx.Pick(g.r, patterns)))
		}
	default:
		for i := 0; i < nv; i++ {
			switch {
			case g.r.Chance(1, 15):
				n.vals = append(n.vals, nil)
			case g.r.Chance(3, 4):
				n.vals = append(n.vals, sp(g.derived(string(data))))
			default:
				n.vals = append(n.vals, sp(g.word()))
			}
		}
	}
	return n
}

func (g *gen) asTree(d asData, depth int) *rnode {
	if depth <= 1 || g.r.Chance(1, 3) {
		return g.asLeaf(d)
	}
	k := hx.Pick(g.r, []int{kAnd, kAnd, kOr, kOr, kNot})
	n := &rnode{kind: k}
	w := 1
	if k != kNot {
		w = g.r.Range(1, 3)
	}
	for i := 0; i < w; i++ {
		n.ops = append(n.ops, g.asTree(d, depth-1))
	}
	return n
}

func genCoverage(h *harn) {
	g, r, sc := h.g, h.c.R, h.c.Scale

	// ---- config-spelling: the same rules x events as `random`, the rule written tersely / as JSON / with float numbers /
	// inside an antispam section, read by the real readers. Would expose: a default that is not the documented one
	// (case_sensitive, format, value_shift, update_interval), a scalar `values` read as a list of characters or refused,
	// json.Number / float64 comparison values mis-converted, a reader that drops or reorders operands.
	routes := []int{rtTerse, rtTerse, rtJSON, rtTerseJSON, rtTerseJSON, rtFloat, rtRules, rtSettings}
	for i := 0; i < 2500*sc; i++ {
		ev := g.event()
		t := g.tree(ev, r.Range(1, 5))
		g.sprinkleStart(t)
		if i%4 == 0 {
			h.spellingOracle(t)
		}
		h.check("config-spelling", viaOf(0, g.routeFor(t, routes)), t, ev)
	}
	for i := 0; i < 80*sc; i++ {
		var evs []hx.Sx
		for j := r.Range(2, 5); j > 0; j-- {
			evs = append(evs, g.event())
		}
		var ts []*rnode
		for j := r.Range(2, 3); j > 0; j-- {
			ts = append(ts, g.tree(hx.Pick(r, evs), r.Range(1, 4)))
		}
		route := rtTerseJSON
		for _, t := range ts {
			if !t.jsonSafe() {
				route = rtTerse
			}
		}
		h.seq("config-spelling", viaOf(0, route), ts, evs, false)
	}
	// the documented examples of the defaults, one by one
	{
		ev := jObj(jKV("a", jStr("Ab")), jKV("ts", jStr("2020-02-29T12:00:00.5+03:00")), jKV("n", jNum("12")))
		leaves := []*rnode{
			{kind: kField, op: 0, path: []string{"a"}, cs: true, vals: []*string{sp("ab")}},
			{kind: kField, op: 0, path: []string{"a"}, cs: true, vals: []*string{sp("Ab")}},
			{kind: kField, op: 0, path: []string{"zz"}, cs: true, vals: []*string{nil}},
			{kind: kField, op: 3, path: []string{"a"}, cs: false, vals: []*string{sp("AB")}},
			{kind: kTs, path: []string{"ts"}, format: "rfc3339nano", cmp: 0, mode: 0, a: 1582966800e9 + 5e8},
			{kind: kTs, path: []string{"ts"}, format: "rfc3339nano", cmp: 4, mode: 0, a: 1582966800e9 + 5e8},
			{kind: kTs, path: []string{"ts"}, format: "rfc3339nano", cmp: 0, mode: 1, a: int64(10 * time.Second)},
			{kind: kTs, path: []string{"ts"}, format: "rfc3339nano", cmp: 2, mode: 2},
			{kind: kTs, path: []string{"ts"}, format: "rfc3339nano", cmp: 0, mode: 2, shift: -int64(50 * year)},
			{kind: kType, path: []string{"n"}, types: []string{"number"}},
			{kind: kLen, op: 2, path: []string{"n"}, cmp: 4, value: 12},
		}
		for _, l := range leaves {
			for _, route := range []int{rtPlain, rtTerse, rtJSON, rtTerseJSON, rtFloat, rtRules, rtSettings} {
				h.check("config-spelling", viaOf(0, route), l, ev)
			}
			h.check("config-spelling", viaOf(1, rtPlain), l, ev)
			h.spellingOracle(l)
		}
	}

	// ---- malformed-config: every way ctor.go refuses a node map (missing / mistyped key, unknown op or cmp_op, unparsable
	// time / duration, non-string value, operand that is not a map), alone and below and / or / not, from a Go map and from
	// JSON; the New*Node constructors called with an unknown name. Would expose: a refusal turned into a silent default.
	ev := jObj(jKV("a", jStr("x")))
	okLeaf := &rnode{kind: kField, op: 0, path: []string{"a"}, cs: true, vals: []*string{sp("x")}}
	for code := range badMaps {
		b := &rnode{kind: kBad, op: code}
		for _, route := range []int{rtPlain, rtJSON, rtRules} {
			h.check("malformed-config", viaOf(0, route), b, ev)
		}
		h.check("malformed-config", viaOf(0, rtPlain), &rnode{kind: kAnd, ops: []*rnode{okLeaf, b}}, ev)
		h.check("malformed-config", viaOf(0, rtJSON), &rnode{kind: kOr, ops: []*rnode{okLeaf, {kind: kNot, ops: []*rnode{b}}}}, ev)
	}
	for code := 100; code < 100+nBadCtor; code++ {
		b := &rnode{kind: kBad, op: code}
		h.check("malformed-config", viaOf(1, rtPlain), b, ev)
		h.check("malformed-config", viaOf(1, rtPlain), &rnode{kind: kOr, ops: []*rnode{okLeaf, b}}, ev)
	}
	for _, code := range []int{200, 201} { // an antispam rule without do_if / without a name
		h.check("malformed-config", viaOf(0, rtRules), &rnode{kind: kBad, op: code}, ev)
	}
	h.seq("malformed-config", viaOf(0, rtTerse), []*rnode{okLeaf, {kind: kBad, op: 6}}, []hx.Sx{ev}, false)

	// ---- antispam-rule: a rule tree as the do_if of ONE antispam rule with threshold 0 under a common threshold nobody
	// reaches; data = (record bytes, source name, meta map); decision = Antispammer.IsSpam, for a few cases Pipeline.In of a
	// pipeline built from the extracted settings. Sub-model check_as / eval_as (theorem c14_antispam_check_eq_eval).
	// Would expose: a path other than event / source_name / meta.<key> that selects something, a length / timestamp /
	// type leaf that holds, the short-cuts of fieldOpNode.Check on raw record bytes, a rule reader that loses the tree.
	asRoutes := []int{rtPlain, rtTerse, rtTerseJSON, rtRules, rtRules, rtSettings}
	for i := 0; i < 2200*sc; i++ {
		d := g.asData()
		t := g.asTree(d, r.Range(1, 4))
		h.checkAs("antispam-rule", viaOf(0, g.routeFor(t, asRoutes)), t, d)
	}
	pg := &gen{r: r, ascii: true}
	for i := 0; i < 24*sc; i++ {
		d := pg.asData()
		t := pg.asTree(d, r.Range(1, 3))
		if t.jsonSafe() {
			h.checkAs("antispam-rule", viaOf(0, rtPipeline), t, d)
		}
	}
	// the README example of pipeline/README.md (rules ban_all / custom_threshold)
	{
		banAll := &rnode{kind: kField, op: 0, path: []string{"source_name"}, cs: true, vals: []*string{sp("test.log")}}
		custom := &rnode{kind: kAnd, ops: []*rnode{
			{kind: kField, op: 1, path: []string{"meta", "service"}, cs: true, vals: []*string{sp("test_service")}},
			{kind: kField, op: 3, path: []string{"event"}, cs: true, vals: []*string{sp(`{"level":"debug"`)}}}}
		datas := []asData{
			{event: `{"level":"debug","m":1}`, source: "test.log", meta: [][2]string{{"service", "my_test_service"}}},
			{event: `{"level":"info","m":1}`, source: "test.log2", meta: [][2]string{{"service", "test_service"}}},
			{event: `{"level":"debug"}`, source: "other", meta: nil},
			{event: ` {"level":"debug"}`, source: "TEST.LOG", meta: [][2]string{{"service", "test_service"}, {"pod", "p"}}},
		}
		for _, d := range datas {
			for _, route := range []int{rtPlain, rtTerseJSON, rtRules, rtSettings, rtPipeline} {
				h.checkAs("readme", viaOf(0, route), banAll, d)
				h.checkAs("readme", viaOf(0, route), custom, d)
			}
			for _, l := range []*rnode{
				{kind: kLen, op: 0, path: []string{"event"}, cmp: 2, value: 0},
				{kind: kNot, ops: []*rnode{{kind: kType, path: []string{"event"}, types: []string{"str"}}}},
				{kind: kTs, path: []string{"event"}, format: "rfc3339", cmp: 0, mode: 1, a: int64(time.Hour)},
				{kind: kField, op: 0, path: []string{"meta"}, cs: true, vals: []*string{nil}},
				{kind: kField, op: 1, path: []string{"event", "level"}, cs: false, vals: []*string{sp("DEBUG")}},
				{kind: kField, op: 0, path: []string{}, cs: true, vals: []*string{nil, sp("")}},
			} {
				h.checkAs("antispam-rule", viaOf(0, rtPlain), l, d)
			}
		}
	}
	genChains(h)
	h.c.W.Count("coverage_round_done_" + strconv.Itoa(sc))
}

// ---- action-chain: processor.doActions over several actions, each with its own selector; pass / break / discard /
// collapse results; a busy action (after collapse) is entered by the next event of the stream whatever its selector says.
// Sub-model chain_step / chain_run (theorems c14_chain_check_eq_eval, c14_chain_entered_exact, c14_chain_busy_entered).
// Would expose: a selector consulted for the wrong action or the wrong event, an action entered after an earlier one
// discarded / broke, a pass that skips the next action, busy state leaking to another action or surviving a pass.
func genChains(h *harn) {
	r, sc := h.c.R, h.c.Scale
	pg := &gen{r: r, ascii: true}
	// exhaustive small scope: two actions, selector true / false, four scripts each, three identical events
	ev := jObj(jKV("a", jStr("1")))
	T := &rnode{kind: kField, op: 0, path: []string{"a"}, cs: true, vals: []*string{sp("1")}}
	F := &rnode{kind: kField, op: 0, path: []string{"a"}, cs: true, vals: []*string{sp("0")}}
	small := [][]int{{0}, {1}, {2}, {3, 0}}
	for _, s0 := range []*rnode{T, F} {
		for _, sc0 := range small {
			for _, s1 := range []*rnode{T, F} {
				for _, sc1 := range small {
					h.chain("exhaustive-chain", viaOf(0, rtJSON), []chainAct{{tree: s0, script: sc0}, {tree: s1, script: sc1}}, []hx.Sx{ev, ev, ev})
				}
			}
		}
	}
	// a join-like action: selected by the first line only, collapses it and the continuation lines it is handed while busy
	line := func(level, msg string) hx.Sx { return jObj(jKV("level", jStr(level)), jKV("msg", jStr(msg))) }
	first := &rnode{kind: kField, op: 0, path: []string{"level"}, cs: true, vals: []*string{sp("error")}}
	isInfo := &rnode{kind: kField, op: 0, path: []string{"level"}, cs: true, vals: []*string{sp("info")}}
	lines := []hx.Sx{line("info", "a"), line("error", "panic:"), line("", " at f()"), line("", " at g()"), line("info", "b"), line("info", "c"), line("error", "x"), line("info", "d")}
	h.chain("readme", viaOf(0, rtTerseJSON), []chainAct{{tree: isInfo, script: []int{0}}, {tree: first, script: []int{3, 3, 3, 0}}, {script: []int{0}}}, lines)
	h.chain("readme", viaOf(0, rtJSON), []chainAct{{tree: first, script: []int{3, 3, 2}}, {tree: isInfo, script: []int{2}}}, lines)

	// match_fields as a config file gives it, read by fd.extractConditions inside fd.SetupActions: a pattern that does not
	// compile is refused (both through processor.isMatch's own compile and through the real reader)
	{
		evs := []hx.Sx{jObj(jKV("a", jStr("x"))), jObj(jKV("b", jStr("(")))}
		for _, which := range []int{2, 3} {
			h.proc("malformed-config", which, nil, "and", false, []cond{{path: []string{"a"}, re: sp("(")}}, evs)
			h.proc("malformed-config", which, nil, "or", true, []cond{{path: []string{"a"}, vals: []string{"x"}}, {path: []string{"b"}, re: sp("a{2,1}")}}, evs)
		}
		// a list element that is not a string: refused by extractConditions
		h.proc("malformed-config", 3, nil, "or", false, []cond{{path: []string{"a"}, vals: []string{"x"}, nums: []int64{5}}}, evs)
		h.proc("malformed-config", 3, nil, "and", true, []cond{{path: []string{"a"}, vals: []string{"x"}}, {path: []string{"b"}, nums: []int64{0}}}, evs)
		// (the lone number of the second condition above is written as a scalar, exec.go; here as a list of one number)
		h.proc("malformed-config", 3, nil, "and", false, []cond{{path: []string{"b"}, nums: []int64{0}}, {path: []string{"a"}, vals: []string{"x"}}}, evs)
		h.proc("malformed-config", 3, nil, "or", false, []cond{{path: []string{"a"}, vals: []string{"x"}}, {path: []string{"b"}, nums: []int64{500}}}, evs)
		for _, which := range []int{2, 3} {
			// a single value: written as a scalar for the second condition (exec.go), as a list for the first
			h.proc("config-spelling", which, nil, "and", false, []cond{{path: []string{"a"}, vals: []string{"x"}}, {path: []string{"b"}, vals: []string{"("}}}, evs)
			h.proc("config-spelling", which, nil, "or_prefix", false, []cond{{path: []string{"a"}, vals: []string{"zz"}}, {path: []string{"b"}, vals: []string{""}}}, evs)
		}
	}
	// a match_fields value that is neither a string nor a list of strings (YAML `code: 500`, `flag: true`, `pod:`): the
	// documented forms are a string, a /regexp/ and a list of strings, so the configuration must be refused — as it is for
	// a number INSIDE a list (the unrepaired reader dropped the condition instead and the action applied to every event:
	// repaired defect C14-match-fields-non-string, /repo fix 4c267b0).
	{
		evs := []hx.Sx{jObj(jKV("code", jNum("500"))), jObj(jKV("code", jNum("200"))), jObj(jKV("level", jStr("error")))}
		for _, v := range []string{"500", "true", "null", `{"a":"b"}`, "1.5"} {
			for _, script := range [][]int{{0}, {2}} {
				h.chain("match-fields-non-string", viaOf(0, rtJSON), []chainAct{{badKey: []string{"code"}, badVal: v, script: script}}, evs)
			}
		}
	}

	scripts := [][]int{{0}, {0}, {0}, {0}, {1}, {2}, {2}, {3, 0}, {3, 3, 0}, {0, 2}, {3, 2}, {0, 1, 0}, {3, 1}, {0, 0, 3, 0}}
	for i := 0; i < 110*sc; i++ {
		var evs []hx.Sx
		for j := r.Range(3, 8); j > 0; j-- {
			if len(evs) > 0 && r.Chance(1, 3) {
				evs = append(evs, hx.Pick(r, evs)) // the same event again: another position of the scripts
			} else {
				evs = append(evs, pg.event())
			}
		}
		var acts []chainAct
		for j := r.Range(1, 4); j > 0; j-- {
			a := chainAct{script: hx.Pick(r, scripts)}
			if !r.Chance(1, 8) {
				a.tree = pg.tree(hx.Pick(r, evs), r.Range(1, 3))
			}
			acts = append(acts, a)
		}
		h.chain("action-chain", viaOf(0, hx.Pick(r, []int{rtJSON, rtTerseJSON})), acts, evs)
	}
}
