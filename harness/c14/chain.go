package main

// Action chains: which = 1 with (10 action ...) in the place of the trees. A real pipeline (fake input, devnull output,
// one stream, one processor) whose actions are instances of the harness' own action plugin `c14_probe`, configured through
// fd.SetupActions exactly as a config file is: every action has its own selector (do_if, none, or a malformed match_fields
// value) and, when processor.doActions enters it, records (event, action) and answers with the next result of its script:
// 0 pass, 1 break, 2 discard, 3 collapse (after which the action is busy and gets the next event of the stream).
//
//	action = (selector (result ...)),  selector = tree | 0 | (8 (#key ...) #json-text)
//	obs    = (((entered ...) reached-output) ...) one row per event | (2) configuration refused | (5) stuck

import (
	"encoding/json"
	"sync"
	"sync/atomic"
	"time"

	"github.com/bitly/go-simplejson"
	"github.com/ozontech/file.d/fd"
	"github.com/ozontech/file.d/pipeline"
	"github.com/ozontech/file.d/pipeline/doif"
	"github.com/ozontech/file.d/test"

	"verif/harness/hx"
)

const chainTag = 10

type probeConfig struct {
	Run    int   `json:"run"`
	ID     int   `json:"id"`
	Script []int `json:"script"`
}

type probeRun struct {
	mu      sync.Mutex
	n       int              // judged events: offsets 1..n
	entered map[int64][]bool // offset -> action -> entered
	out     map[int64]bool
	done    int
	busy    []bool
	nact    int
}

var (
	probeRuns   sync.Map // run id -> *probeRun
	probeRunSeq atomic.Int64
)

type probePlugin struct {
	cfg *probeConfig
	run *probeRun
	pos int
}

func init() {
	fd.DefaultPluginRegistry.RegisterAction(&pipeline.PluginStaticInfo{
		Type:    "c14_probe",
		Factory: func() (pipeline.AnyPlugin, pipeline.AnyConfig) { return &probePlugin{}, &probeConfig{} },
	})
}

func (p *probePlugin) Start(config pipeline.AnyConfig, _ *pipeline.ActionPluginParams) {
	p.cfg = config.(*probeConfig)
	if r, ok := probeRuns.Load(p.cfg.Run); ok {
		p.run = r.(*probeRun)
	}
}

func (p *probePlugin) Stop() {}

func (p *probePlugin) Do(e *pipeline.Event) pipeline.ActionResult {
	if e.IsTimeoutKind() || p.run == nil {
		return pipeline.ActionDiscard
	}
	r := 0
	if len(p.cfg.Script) > 0 {
		r = p.cfg.Script[p.pos%len(p.cfg.Script)]
	}
	p.pos++
	run := p.run
	run.mu.Lock()
	if e.Offset >= 1 && e.Offset <= int64(run.n) {
		row := run.entered[e.Offset]
		if row == nil {
			row = make([]bool, run.nact)
			run.entered[e.Offset] = row
		}
		row[p.cfg.ID] = true
		if r == 2 || r == 3 {
			run.done++
		}
	}
	run.busy[p.cfg.ID] = r == 3
	run.mu.Unlock()
	switch r {
	case 1:
		return pipeline.ActionBreak
	case 2:
		return pipeline.ActionDiscard
	case 3:
		return pipeline.ActionCollapse
	}
	return pipeline.ActionPass
}

func isChain(s hx.Sx) bool {
	if hx.IsInt(s) {
		return false
	}
	it := hx.Items(s)
	return len(it) > 0 && hx.IsInt(it[0]) && hx.Int(it[0]) == chainTag
}

type chainAct struct {
	tree   *rnode // do_if
	badKey []string
	badVal string // malformed match_fields value (JSON text); "" = none
	script []int
}

func (a chainAct) sx() hx.Sx {
	sel := hx.Sx(hx.I(0))
	switch {
	case a.tree != nil:
		sel = a.tree.sx()
	case a.badVal != "":
		sel = hx.L(hx.I(8), pathSx(a.badKey), hx.S(a.badVal))
	}
	rs := make([]hx.Sx, len(a.script))
	for i, r := range a.script {
		rs[i] = hx.I(r)
	}
	return hx.L(sel, hx.L(rs...))
}

func chainActFromSx(s hx.Sx) chainAct {
	it := hx.Items(s)
	var a chainAct
	if !hx.IsInt(it[0]) {
		sel := hx.Items(it[0])
		if hx.IsInt(sel[0]) && hx.Int(sel[0]) == 8 {
			a.badKey, a.badVal = strsOf(sel[1]), hx.Str(sel[2])
		} else {
			a.tree = nodeFromSx(it[0])
		}
	}
	for _, r := range hx.Items(it[1]) {
		a.script = append(a.script, int(hx.Int(r)))
	}
	return a
}

func chainSx(acts []chainAct) hx.Sx {
	items := []hx.Sx{hx.I(chainTag)}
	for _, a := range acts {
		items = append(items, a.sx())
	}
	return hx.L(items...)
}

var obsStuck = hx.L(hx.I(5))

// repaired defect C14-match-fields-non-string (notes/finding-C14-match-fields-non-string.md, /repo fix 4c267b0):
// fd/util.go extractConditions silently dropped a match_fields entry whose value is a number, bool, null or object; with
// match_mode and (the default) the action then applied to EVERY event. The reader now refuses such a configuration, like
// a non-string inside a list; the family match-fields-non-string (streams_cov.go) pins it.

func execChain(via int, actsSx []hx.Sx, evs []hx.Sx) hx.Sx {
	terse := routeOf(via) == rtTerseJSON
	runID := int(probeRunSeq.Add(1))
	var actions []any
	for i, s := range actsSx {
		a := chainActFromSx(s)
		m := map[string]any{"type": "c14_probe", "run": runID, "id": i, "script": a.script}
		switch {
		case a.tree != nil:
			if a.tree.hasBusyLoop() || !a.tree.jsonSafe() {
				return obsReject
			}
			spelled := a.tree.spell(terse, false)
			if _, err := doif.NewFromMap(spelled); err != nil {
				return obsReject // setupAction would logger.Fatalf here and take the process down
			}
			m["do_if"] = spelled
		case a.badVal != "":
			m["match_fields"] = map[string]any{selector(a.badKey): json.RawMessage(a.badVal)}
		}
		hasBreak := false
		for _, r := range a.script {
			hasBreak = hasBreak || r == 1
		}
		// (an action that answers `break` is left without a metric: processor.countEvent has no counter for the status
		// "broke" — allEventStatuses() omits it —, panics, recovers and logs an error per event; metrics are not C14's subject)
		if i%2 == 1 && !hasBreak {
			m["metric_name"] = "c14_probe_" + string(rune('a'+i%26))
			m["metric_labels"] = []any{"c14_no_such_field"}
		}
		actions = append(actions, m)
	}
	raw, err := json.Marshal(actions)
	if err != nil {
		return obsBadEvt
	}
	js, err := simplejson.NewJson(raw)
	if err != nil {
		return obsBadEvt
	}
	run := &probeRun{n: len(evs), entered: map[int64][]bool{}, out: map[int64]bool{}, busy: make([]bool, len(actsSx)), nact: len(actsSx)}
	probeRuns.Store(runID, run)
	defer probeRuns.Delete(runID)
	var out hx.Sx
	pmsg := hx.Catch(func() {
		p, input, output := test.NewPipelineMock(nil, "passive", "name")
		if err := fd.SetupActions(p, fd.DefaultPluginRegistry, js, map[string]int{"capacity": 64, "gomaxprocs": 1}); err != nil {
			out = obsReject
			return
		}
		output.SetOutFn(func(e *pipeline.Event) {
			run.mu.Lock()
			if e.Offset >= 1 && e.Offset <= int64(run.n) {
				run.out[e.Offset] = true
				run.done++
			}
			run.mu.Unlock()
		})
		p.Start()
		defer p.Stop()
		for i, ev := range evs {
			input.In(0, "c14", test.NewOffset(int64(i+1)), []byte(hx.JSONText(ev)))
		}
		deadline := time.Now().Add(10 * time.Second)
		for {
			run.mu.Lock()
			done := run.done
			run.mu.Unlock()
			if done >= len(evs) {
				break
			}
			if time.Now().After(deadline) {
				out = obsStuck
				return
			}
			time.Sleep(200 * time.Microsecond)
		}
		// let no processor stay parked behind a busy action: trailer events until every script has left `collapse`
		for k := 0; k < 24; k++ {
			run.mu.Lock()
			busy := false
			for _, b := range run.busy {
				busy = busy || b
			}
			run.mu.Unlock()
			if !busy {
				break
			}
			input.In(0, "c14", test.NewOffset(int64(len(evs)+k+1)), []byte(`{"c14_trailer":1}`))
			time.Sleep(300 * time.Microsecond)
		}
		run.mu.Lock()
		rows := make([]hx.Sx, len(evs))
		for i := range evs {
			bits := make([]hx.Sx, run.nact)
			row := run.entered[int64(i+1)]
			for j := range bits {
				bits[j] = hx.Bool(row != nil && row[j])
			}
			rows[i] = hx.L(hx.L(bits...), hx.Bool(run.out[int64(i+1)]))
		}
		run.mu.Unlock()
		out = hx.L(rows...)
	})
	if pmsg != "" {
		return hx.L(hx.I(3), hx.S(pmsg))
	}
	return out
}
