package main

// Streams that reach behaviour of the anchored output plugins no older stream executed (coverage round,
// notes/coverage/C19-triage.md):
//
//	resp-*          2xx answers whose BODY the sink's response reader accepts or rejects (ES reportESErrors with
//	                and without process_response, splunk parseSplunkError, http: no reader) — a rejected 2xx
//	                answer makes out() return an error, the batch is offered again
//	exhaustive-via-*, random-via-*, timeout-via-*
//	                the plugins driven through Factory / Start / Out with their own batcher (via.go): Out(),
//	                the retrying batcher and the onError closure (dead queue), a batch sealed by the flush
//	                timeout instead of its size, gelf's reconnect in the batcher's maintenance call
//	gelf-cfg        gelf with other field options (host / short / full message field, blank default, no level
//	                field, an unknown timestamp format)
//	restart-file    the file sink stopped and started again on the same directory between batches
//
// ES with an empty index_values list (Start() makes it ["@time"]) and with process_response off joins the
// exhaustive and random streams in main.go.

import (
	"bytes"
	"fmt"
	"strings"

	"verif/harness/hx"
)

// the answer kinds the table answer_ok (coq/Model/Payload.v) has for a sink configuration:
// acc = 2xx bodies its response reader accepts, rej = 2xx bodies it rejects
func answerKinds(sc sinkCfg) (acc, rej []int) {
	switch baseSink(sc.which) {
	case 0:
		if esProcessResponse(hx.Items(sc.cfg)) {
			return []int{1, 5, 7}, []int{2}
		}
		return []int{1, 3, 5, 7}, nil
	case 2:
		return []int{1, 3, 5, 7}, nil
	case 4:
		return []int{1}, []int{2, 4, 6}
	}
	return nil, nil
}

// kindify: some of the plain 200..202 answers of a script get another body
func (g *gen) kindify(sc sinkCfg, s []int, num, den int) []int {
	r := g.c.R
	acc, rej := answerKinds(sc)
	if len(acc) == 0 {
		return s
	}
	for i, st := range s {
		if st < 200 || st > 202 || !r.Chance(num, den) {
			continue
		}
		k := hx.Pick(r, acc)
		if len(rej) > 0 && r.Chance(1, 3) {
			k = hx.Pick(r, rej)
		}
		s[i] = 1000*k + st
		g.c.W.Count(fmt.Sprintf("answer_kind_%d_%s", k, []string{"es", "file", "http", "kafka", "splunk"}[baseSink(sc.which)]))
	}
	return s
}

// REPAIRED DEFECT C19-gelf-maintenance-nil-client (notes/finding-C19-gelf-maintenance-nil-client.md, /repo fix
// 3aa505c): gelf's maintenance closed data.gelf without looking whether there is a connection; a second maintenance
// call without an out() in between (a batch without deliverable events, or an out() that could not connect / write)
// dereferenced nil in the batcher's worker goroutine: the process died. Through the batcher with reconnect_interval
// 1 ms every batch without a deliverable event that follows a sent one reaches that code: the streams below send
// such batches to gelf like to every other sink, and the family idle-reconnect-via-gelf (child processes) pins the
// minimal witness.

var gelfAltCfgs = []hx.Sx{
	// host_field, short_message_field, default_short_message_value, full_message_field, timestamp_field_format, level_field
	hx.L(hx.S("h"), hx.S("msg"), hx.S("  "), hx.S("full"), hx.S("rfc3339nano"), hx.S("")),
	hx.L(hx.S("host"), hx.S("message"), hx.S("n/a"), hx.S("message"), hx.S("no-such-format"), hx.S("lvl")),
}

func (g *gen) coverageStreams(allSinks []sinkCfg, names []string) {
	c, r, w := g.c, g.c.R, g.c.W
	es1 := esCfg{"index", "idx-%", []string{"svc"}, "tt", false, false}
	es1n := esCfg{"index", "idx-%", []string{"svc"}, "tt", false, true} // process_response off
	es3 := esCfg{"index", "plain", []string{"@time"}, "tt", true, false}
	es3n := esCfg{"create", "plain", []string{"@time"}, "tt", true, true}
	es4 := esCfg{"index", "t-%-x", nil, "qq-ww", false, false} // index_values empty: Start() makes it ["@time"]
	mkSink := func(e esCfg) sinkCfg { return sinkCfg{0, e.sx(), e.vals, false} }
	httpJ, httpRaw, httpJS, splunk, fileS := allSinks[4], allSinks[5], allSinks[6], allSinks[10], allSinks[3]

	plainEvs := func(sc sinkCfg, n, parentAt int) hx.Sx {
		var evs []hx.Sx
		for i := 0; i < n; i++ {
			k := 0
			if i == parentAt {
				k = 2
			}
			enc, _ := canon(fmt.Sprintf(`{"i":%d,"svc":"s%d","message":"m%d"}`, i, i%2, i))
			evs = append(evs, g.mkEv(k, enc, sc.fields, sc.which, sc.raw))
		}
		return hx.L(evs...)
	}

	// ---- R. answers with other bodies. Every script of length <= 2 over {200, 500, one code per kind the sink
	//         has (status 200, sometimes 201 / 202)} (+ 413 with split_batch) on a batch of three events (one a
	//         parent) followed by a batch of one: a rejected 2xx answer must be treated like a failed request
	//         (the batch is offered again, sendSplit stops), an accepted one like 200. Exposes: a reader that
	//         fails on errors:true (the batch would be sent again and again: duplicates), a reader whose error
	//         is dropped (a rejected batch counted as delivered), the process_response switch ignored.
	for _, sc := range []sinkCfg{mkSink(es1), mkSink(es1n), mkSink(es3), mkSink(es3n), httpJ, httpJS, splunk} {
		acc, rej := answerKinds(sc)
		alpha := []int{200, 500}
		for _, k := range append(append([]int(nil), acc...), rej...) {
			alpha = append(alpha, 1000*k+200+r.Intn(5)/3*r.Range(1, 2)) // mostly 200, sometimes 201 / 202
		}
		split := false
		switch baseSink(sc.which) {
		case 0:
			split = hx.Truth(hx.Items(sc.cfg)[4])
		case 2:
			split = hx.Truth(hx.Items(sc.cfg)[1])
		}
		if split {
			alpha = append(alpha, 413)
		}
		b1, b2 := plainEvs(sc, 3, 1), plainEvs(sc, 1, -1)
		for _, s := range scripts(alpha, 2) {
			c.Do("resp-"+names[sc.which], sc.which, hx.L(sc.cfg, hx.L(b1, b2), ints(s)), len(s) >= 1)
		}
		// longer exchanges: a split walk with bodies of every kind among the answers
		for i := 0; i < 25*c.Scale && split; i++ {
			var s []int
			for j := r.Range(2, 8); j > 0; j-- {
				s = append(s, hx.Pick(r, []int{200, 200, 413, 413, 413, 500}))
			}
			s = g.kindify(sc, s, 1, 2)
			c.Do("resp-"+names[sc.which], sc.which, hx.L(sc.cfg, hx.L(plainEvs(sc, r.Range(2, 7), -1)), ints(s)), true)
		}
	}
	glap("resp")

	// ---- V. the plugins driven through Factory / Start / Out (via.go).
	viaSinks := []sinkCfg{mkSink(es1), mkSink(esCfg{"create", "%-x-%%", []string{"svc", "@time", "lvl"}, "qq-ww", false, false}), mkSink(es4), mkSink(es1n),
		httpJ, httpRaw, splunk, fileS, allSinks[11]}
	for i := range viaSinks {
		viaSinks[i].which += 10
	}
	viaName := func(sc sinkCfg) string { return names[baseSink(sc.which)] }
	//   V1. exhaustive small scope: every batch of <= 2 events over 2 shapes x {regular, parent}, answered 200 —
	//       the batches without a deliverable event (only parents) never reach out(): no request at all.
	var shapes [][]byte
	for _, s := range []string{shapeSrc[0], shapeSrc[1]} {
		enc, _ := canon(s)
		shapes = append(shapes, enc)
	}
	type opt struct{ kind, shape int }
	opts := []opt{{0, 0}, {2, 0}, {0, 1}, {2, 1}}
	for _, sc := range viaSinks {
		var recb func(cur []opt)
		recb = func(cur []opt) {
			if len(cur) > 0 {
				var evs []hx.Sx
				nd := 0
				for _, o := range cur {
					evs = append(evs, g.mkEv(o.kind, shapes[o.shape], sc.fields, sc.which, sc.raw))
					if o.kind != 2 {
						nd++
					}
				}
				c.Do("exhaustive-via-"+viaName(sc), sc.which, hx.L(sc.cfg, hx.L(hx.L(evs...)), hx.L()), len(cur) >= 2 && nd >= 1)
			}
			if len(cur) < 2 {
				for _, o := range opts {
					recb(append(cur[:len(cur):len(cur)], o))
				}
			}
		}
		recb(nil)
	}
	glap("via-exh")
	//   V2. random: 1-3 successive batches of 0-6 random events through one persistent instance (also on the
	//       small-buffer rows), parents and all-parent batches, answers that make the RetriableBatcher offer the
	//       batch again (5xx, rejected bodies), give up after three calls (the events reach the dead queue
	//       through the plugin's onError closure; the next batch must be unaffected) or drop it (400).
	//       Exposes: Out() not handing the event to the batcher, an onError that loses or duplicates events, a
	//       worker buffer that a retry or a give-up leaves dirty.
	viaScripts := [][]int{nil, nil, {500}, {503, 500}, {500, 500, 500}, {500, 502, 503, 500}, {400}, {404, 200}, {199}, {203, 201}, {500, 500, 500, 500, 500, 500, 200}}
	for i := 0; i < 110*c.Scale; i++ {
		sc := hx.Pick(r, viaSinks)
		base := baseSink(sc.which)
		if base != 1 && base != 5 {
			sc = sc.variant(hx.Pick(r, []int{0, 0, 1, 3}), false, r.Chance(1, 4))
		}
		var bs []hx.Sx
		total := 0
		for j := r.Range(1, 3); j > 0; j-- {
			n := r.Intn(7)
			allParents := r.Chance(1, 8)
			var evs []hx.Sx
			for k := 0; k < n; k++ {
				kind := 0
				if allParents || r.Chance(1, 5) {
					kind = 2
				}
				evs = append(evs, g.mkEv(kind, g.randEvent(), sc.fields, sc.which, sc.raw))
			}
			total += n
			bs = append(bs, hx.L(evs...))
		}
		var s []int
		if base != 1 && base != 5 { // file never fails; a failed gelf write is the finding C19-gelf-retry-reformat
			s = g.kindify(sc, append([]int(nil), hx.Pick(r, viaScripts)...), 1, 2)
			if r.Chance(1, 4) {
				acc, rej := answerKinds(sc)
				s = nil
				for _, k := range append(append([]int(nil), rej...), acc...)[:2] {
					s = append(s, 1000*k+200)
				}
			}
		}
		w.Count("via_cases_" + viaName(sc))
		c.Do("random-via-"+viaName(sc), sc.which, hx.L(sc.cfg, hx.L(bs...), ints(s)), total >= 2)
	}
	glap("via-random")
	//   V3. a batch sealed by batch_flush_timeout (the batcher's heartbeat) instead of its size: one fresh instance
	//       per case in a child process, several at a time. Exposes a timeout flush that drops or repeats the
	//       events gathered so far.
	var tcases []struct {
		sc sinkCfg
		cs hx.Sx
	}
	for _, sc := range []sinkCfg{viaSinks[0], viaSinks[2], viaSinks[4], viaSinks[6], viaSinks[7], viaSinks[8]} {
		sc.which = mkWhich(sc.which%16, 0, true, false) + 16*(vChild|vTimeout)
		var evs []hx.Sx
		for k := r.Range(2, 4); k > 0; k-- {
			kind := 0
			if r.Chance(1, 5) {
				kind = 2
			}
			evs = append(evs, g.mkEv(kind, g.randEvent(), sc.fields, sc.which, sc.raw))
		}
		evs = append(evs, g.mkEv(0, g.randEvent(), sc.fields, sc.which, sc.raw))
		tcases = append(tcases, struct {
			sc sinkCfg
			cs hx.Sx
		}{sc, hx.L(sc.cfg, hx.L(hx.L(evs...)), hx.L())})
	}
	{
		byWhich := map[int][]hx.Sx{}
		for _, t := range tcases {
			byWhich[t.sc.which] = append(byWhich[t.sc.which], t.cs)
		}
		childPrefetchAll(byWhich)
		for _, t := range tcases {
			c.Do("timeout-via-"+viaName(t.sc), t.sc.which, t.cs, true)
		}
	}
	glap("via")

	// ---- G. gelf with other field options: the host / short / full message fields renamed, a blank default
	//         short message (trimmed to nothing: an event without the field keeps none), no level field, a
	//         timestamp format the plugin does not know (Start() logs and goes on: string times become the clock).
	//         formatEvent is an oracle for the model (taken at generation time from an instance with the same
	//         options); judged: framing, order, parents, one JSON document per chunk, no dependence on the
	//         buffer history. Direct drive and through the batcher.
	gelfEvent := func() []byte {
		for {
			var fs []string
			for _, name := range []string{"h", "host", "msg", "message", "full", "lvl", "level", "time"} {
				if !r.Chance(1, 2) {
					continue
				}
				v := g.randVal()
				switch {
				case name == "time" && r.Bool():
					v = hx.Pick(r, gelfTimes)
				case (name == "lvl" || name == "level") && r.Bool():
					v = hx.Pick(r, []string{`"error"`, `"info"`, `3`, `"7"`, `"x"`})
				case (name == "msg" || name == "message") && r.Chance(1, 4):
					v = hx.Pick(r, []string{`""`, `"  "`, `" \t"`})
				}
				fs = append(fs, jstr(name)+":"+v)
			}
			if r.Bool() {
				fs = append(fs, jstr(g.randStr())+":"+g.randVal())
			}
			for i := len(fs) - 1; i > 0; i-- {
				j := r.Intn(i + 1)
				fs[i], fs[j] = fs[j], fs[i]
			}
			if enc, ok := canon("{" + strings.Join(fs, ",") + "}"); ok {
				return enc
			}
			w.Count("event_not_canonical_skipped")
		}
	}
	for i := 0; i < 40*c.Scale; i++ {
		cfg := hx.Pick(r, gelfAltCfgs)
		which := 5
		if r.Chance(1, 3) {
			which = 15
		}
		var bs []hx.Sx
		for j := r.Range(1, 3); j > 0; j-- {
			var evs []hx.Sx
			for k := r.Intn(5); k > 0; k-- {
				kind := 0
				if r.Chance(1, 6) {
					kind = 2
				}
				evs = append(evs, g.mkEvCfg(kind, gelfEvent(), nil, which, false, cfg))
			}
			bs = append(bs, hx.L(evs...))
		}
		c.Do("gelf-cfg", which, hx.L(cfg, hx.L(bs...), hx.L()), true)
	}
	glap("gelf-cfg")

	// ---- G2. the repaired defect C19-gelf-maintenance-nil-client: a sent batch, then a batch of parents only
	//          (no out()), with reconnect_interval elapsed both times; in child processes
	{
		gl := allSinks[11]
		which := mkWhich(15, 0, true, false) + 16*vChild
		simple := true
		mk := func(kinds ...int) hx.Sx {
			var evs []hx.Sx
			for i, k := range kinds {
				enc := g.randEvent()
				if simple {
					enc, _ = canon(fmt.Sprintf(`{"message":"m%d"}`, i))
				}
				evs = append(evs, g.mkEv(k, enc, nil, which, false))
			}
			return hx.L(evs...)
		}
		cases := []hx.Sx{hx.L(gl.cfg, hx.L(mk(0), mk(2)), hx.L())} // the minimal witness
		simple = false
		cases = append(cases,
			hx.L(gl.cfg, hx.L(mk(0, 0), mk(2, 2), mk(0)), hx.L()),
			hx.L(gl.cfg, hx.L(mk(2), mk(0, 2), mk(2)), hx.L()))
		childPrefetchAll(map[int][]hx.Sx{which: cases})
		for _, cs := range cases {
			c.Do("idle-reconnect-via-gelf", which, cs, true)
		}
	}

	// ---- F. the file sink restarted between batches (variant row 2 of file: rotate + restart). Exposes: a
	//         Start() that truncates or does not find the current file, a seal-up index that starts again at 0.
	nrst := 4 * c.Scale
	if nrst > 30 {
		nrst = 30
	}
	before := fileRestarts
	for i := 0; i < nrst; i++ {
		sc := fileS.variant(2, true, false)
		var bs []hx.Sx
		for j := r.Range(4, 7); j > 0; j-- {
			var evs []hx.Sx
			for k := r.Range(1, 3); k > 0; k-- {
				evs = append(evs, g.mkEv(0, g.randEvent(), nil, sc.which, false))
			}
			bs = append(bs, hx.L(evs...))
		}
		c.Do("restart-file", sc.which, hx.L(sc.cfg, hx.L(bs...), hx.L()), true)
	}
	for i := fileRestarts - before; i > 0; i-- {
		w.Count("restart_file_restarts")
	}
	glap("restart-file")

	// what the options that only change the URL / the headers did (not part of the property: counted)
	rec.mu.Lock()
	for uri, n := range srvPaths {
		key := "request_uri_" + uri
		if len(uri) > 40 {
			key = "request_uri_" + uri[:40]
		}
		for i := 0; i < n; i += 1000 {
			w.Count(key + "_x1000")
		}
	}
	for scheme, n := range srvAuth {
		for i := 0; i < n; i += 1000 {
			w.Count("authorization_" + scheme + "_x1000")
		}
	}
	rec.mu.Unlock()
	_ = bytes.Equal
}

// children of several variants at once, eight at a time
func childPrefetchAll(byWhich map[int][]hx.Sx) {
	type job struct {
		which int
		cs    hx.Sx
	}
	var jobs []job
	for which, cases := range byWhich {
		for _, cs := range cases {
			jobs = append(jobs, job{which, cs})
		}
	}
	sem := make(chan struct{}, 8)
	done := make(chan struct{})
	for _, j := range jobs {
		j := j
		go func() {
			sem <- struct{}{}
			defer func() { <-sem; done <- struct{}{} }()
			obs := lokiRunChild(j.which, j.cs)
			lokiChildMu.Lock()
			lokiChildCache[fmt.Sprintf("%d\t%s", j.which, hx.String(j.cs))] = obs
			lokiChildMu.Unlock()
		}()
	}
	for range jobs {
		<-done
	}
}
