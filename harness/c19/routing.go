package main

// Round 5 (seed C19-r5-kafka-stale-topic): routing values. A sink may derive from an event WHERE its
// document goes — kafka the record's topic, elasticsearch the index name of the action line — and the
// per-worker objects that carry those values are reused: kafka's kgo.Record slots (data.messages[i]) from
// batch to batch, the output buffers of every sink. The predicate's routing clause (route_pred in
// coq/Model/Payload.v) demands per record / per action line the value of THAT event; these streams put
// heterogeneous histories through ONE worker instance so that every slot first holds an event that
// carries the routing field and then one that does not (and the other way round). Every case runs on a
// plugin instance of its own (variant bit vFresh), so the whole history of the worker's slots is in the
// case text and --replay re-executes it exactly.
//
//	route-kafka         exhaustive: every history of two batches of <= 2 events over 6 event options
//	                    (topic "t0", topic with quote + newline, no topic field, empty string, an object
//	                    in the field, a parent with a topic) x use_topic_field on / off, + every history of
//	                    three one-event batches
//	route-kafka-random  2..5 batches of 0..batch_size events, the topic field present with probability
//	                    1/2 (a small pool, so that equal and different topics follow one another; nasty
//	                    strings; other JSON types), parents, failed produce calls (the batch is offered again)
//	route-es            exhaustive: every history of two batches of <= 2 events over 5 options differing in
//	                    the index value (present, with quote, absent, empty, parent) x two index formats
//	                    (quick tier: on the persistent instance; thorough: an instance of its own per case)
//	route-es-random     2..4 batches with index fields present with probability 1/2, answers incl.
//	                    retries and (with split_batch) 413

import (
	"fmt"
	"strings"

	"verif/harness/hx"
)

func (g *gen) routingStreams(allSinks []sinkCfg) {
	c, r := g.c, g.c.R
	must := func(s string) []byte {
		enc, ok := canon(s)
		if !ok {
			panic("c19: routing shape is not canonical: " + s)
		}
		return enc
	}

	// ---- kafka, exhaustive small scope ----------------------------------------------------------
	type opt struct {
		kind int
		enc  []byte
	}
	kopts := []opt{
		{0, must(`{"i":0,"topic":"t0"}`)},
		{0, must(`{"i":1,"topic":"t\"1\nx"}`)},
		{0, must(`{"i":2}`)},
		{0, must(`{"i":3,"topic":""}`)},
		{0, must(`{"i":4,"topic":{"k":"t0"}}`)},
		{2, must(`{"i":5,"topic":"tp"}`)},
	}
	var kbatches [][]opt
	kbatches = append(kbatches, nil)
	for _, a := range kopts {
		kbatches = append(kbatches, []opt{a})
	}
	for _, a := range kopts {
		for _, b := range kopts {
			kbatches = append(kbatches, []opt{a, b})
		}
	}
	for _, use := range []int{1, 0} {
		sc := sinkCfg{3, hx.L(hx.S("dflt"), hx.I(use), hx.I(4)), nil, false}.variant(0, true, false)
		mk := func(b []opt) hx.Sx {
			var evs []hx.Sx
			for _, o := range b {
				evs = append(evs, g.mkEv(o.kind, o.enc, nil, sc.which, false))
			}
			return hx.L(evs...)
		}
		var bsx []hx.Sx
		for _, b := range kbatches {
			bsx = append(bsx, mk(b))
		}
		for i := range kbatches {
			for j := range kbatches {
				if use == 0 && (i+j)%4 != 0 {
					continue // without use_topic_field every record goes to the default topic: a quarter
				}
				c.Do("route-kafka", sc.which, hx.L(sc.cfg, hx.L(bsx[i], bsx[j]), hx.L()), len(kbatches[i])+len(kbatches[j]) >= 2)
			}
		}
		if use == 1 {
			for _, a := range kopts {
				for _, b := range kopts {
					for _, d := range kopts {
						c.Do("route-kafka", sc.which, hx.L(sc.cfg, hx.L(mk([]opt{a}), mk([]opt{b}), mk([]opt{d})), hx.L()), true)
					}
				}
			}
		}
	}

	glap("route-kafka")
	// ---- kafka, random histories ------------------------------------------------------------------
	topicPool := []string{`"t0"`, `"t1"`, `"t0"`, `""`, `"dflt"`, `7`, `null`, `true`, `{"a":"t0"}`, `["t1"]`}
	for i := 0; i < 400*c.Scale; i++ {
		bs := hx.Pick(r, []int{4, 4, 8})
		use := r.Chance(7, 8)
		sc := sinkCfg{3, hx.L(hx.S(hx.Pick(r, []string{"dflt", "d\"q", "t0"})), hx.Bool(use), hx.I(bs)), nil, false}.variant(0, true, false)
		nb := r.Range(2, 5)
		var batches []hx.Sx
		total := 0
		for j := 0; j < nb; j++ {
			n := r.Intn(bs + 1)
			var evs []hx.Sx
			for k := 0; k < n; k++ {
				fs := []string{fmt.Sprintf(`"i":%d`, 10*j+k)}
				if r.Bool() {
					v := hx.Pick(r, topicPool)
					if r.Chance(1, 5) {
						v = jstr(g.randStr())
					}
					fs = append(fs, jstr(topicField)+":"+v)
				}
				if r.Bool() {
					fs[0], fs[len(fs)-1] = fs[len(fs)-1], fs[0]
				}
				enc, ok := canon("{" + strings.Join(fs, ",") + "}")
				if !ok {
					c.W.Count("event_not_canonical_skipped")
					enc = must(fmt.Sprintf(`{"i":%d}`, 10*j+k))
				}
				kind := 0
				if r.Chance(1, 8) {
					kind = 2
				}
				evs = append(evs, g.mkEv(kind, enc, nil, sc.which, false))
			}
			total += n
			batches = append(batches, hx.L(evs...))
		}
		var s []int
		for k := r.Intn(4); k > 0; k-- {
			s = append(s, hx.Pick(r, []int{200, 500, 503, 200}))
		}
		c.Do("route-kafka-random", sc.which, hx.L(sc.cfg, hx.L(batches...), ints(s)), total >= 2)
	}
	c.W.Count("routing_kafka_fresh_instance_histories")
	glap("route-kafka-rnd")

	// ---- elasticsearch, exhaustive small scope ----------------------------------------------------
	eopts := []opt{
		{0, must(`{"i":0,"svc":"a","lvl":"x"}`)},
		{0, must(`{"i":1,"svc":"a\"b\nc","lvl":""}`)},
		{0, must(`{"i":2}`)},
		{0, must(`{"i":3,"svc":"","lvl":"y"}`)},
		{2, must(`{"i":4,"svc":"p","lvl":"p"}`)},
	}
	var ebatches [][]opt
	ebatches = append(ebatches, nil)
	for _, a := range eopts {
		ebatches = append(ebatches, []opt{a})
	}
	for _, a := range eopts {
		for _, b := range eopts {
			ebatches = append(ebatches, []opt{a, b})
		}
	}
	for _, base := range []sinkCfg{allSinks[0], allSinks[1]} {
		// ES keeps no per-slot objects, only the buffer: the quick tier runs these histories on the persistent
		// instance (0.1 ms a case instead of 0.7; a replay starts from a new instance anyway), the thorough
		// tier on an instance of its own per case like the kafka and the random families
		sc := base.variant(0, c.Tier == "thorough", false)
		var bsx []hx.Sx
		for _, b := range ebatches {
			var evs []hx.Sx
			for _, o := range b {
				evs = append(evs, g.mkEv(o.kind, o.enc, sc.fields, sc.which, false))
			}
			bsx = append(bsx, hx.L(evs...))
		}
		for i := range ebatches {
			for j := range ebatches {
				c.Do("route-es", sc.which, hx.L(sc.cfg, hx.L(bsx[i], bsx[j]), hx.L()), len(ebatches[i])+len(ebatches[j]) >= 2)
			}
		}
	}

	glap("route-es")
	// ---- elasticsearch, random histories ----------------------------------------------------------
	es1s := esCfg{"index", "idx-%", []string{"svc"}, "tt", true, false}
	for i := 0; i < 120*c.Scale; i++ {
		base := hx.Pick(r, []sinkCfg{allSinks[0], allSinks[1], {0, es1s.sx(), es1s.vals, false}})
		sc := base.variant(0, true, false)
		nb := r.Range(2, 4)
		var batches []hx.Sx
		for j := 0; j < nb; j++ {
			n := r.Intn(5)
			var evs []hx.Sx
			for k := 0; k < n; k++ {
				fs := []string{fmt.Sprintf(`"i":%d`, 10*j+k)}
				for _, name := range []string{"svc", "lvl"} {
					if r.Bool() {
						v := hx.Pick(r, []string{`"a"`, `"b"`, `""`, `5`, `null`, `{"k":"a"}`})
						if r.Chance(1, 4) {
							v = jstr(g.randStr())
						}
						fs = append(fs, jstr(name)+":"+v)
					}
				}
				enc, ok := canon("{" + strings.Join(fs, ",") + "}")
				if !ok {
					c.W.Count("event_not_canonical_skipped")
					enc = must(fmt.Sprintf(`{"i":%d}`, 10*j+k))
				}
				kind := 0
				if r.Chance(1, 8) {
					kind = 2
				}
				evs = append(evs, g.mkEv(kind, enc, sc.fields, sc.which, false))
			}
			batches = append(batches, hx.L(evs...))
		}
		var s []int
		for k := r.Intn(4); k > 0; k-- {
			s = append(s, hx.Pick(r, []int{200, 500, 413, 200}))
		}
		c.Do("route-es-random", sc.which, hx.L(sc.cfg, hx.L(batches...), ints(s)), true)
	}
}
