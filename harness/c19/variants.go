package main

// Variants of a sink that the value-level model does not distinguish (which = sink + 16*variant):
// buffer-size rows that put the `cap(outBuf) > BatchSize*avgEventSize` threshold of every out()
// within reach of ordinary batches, gzip transport, two endpoints, a fresh plugin instance per
// case (so that a multi-batch history replays exactly from the case text), Dig before out(),
// and the rotating file sink.

import (
	"bytes"
	"fmt"
	"math"
	"os"
	"path/filepath"
	"regexp"
	"sort"
	"strconv"
	"strings"
	"sync"
	"time"

	fdcfg "github.com/ozontech/file.d/cfg"
	"github.com/ozontech/file.d/pipeline"
	fileout "github.com/ozontech/file.d/plugin/output/file"
	"github.com/ozontech/file.d/test"
	insaneJSON "github.com/ozontech/insane-json"

	"verif/harness/hx"
)

type row struct {
	avg, batch int  // AvgEventSize of the pipeline, batch_size of the plugin: threshold = avg*batch bytes
	gzip, two  bool // use_gzip, two endpoints (es / http; splunk has one endpoint)
	rotate     bool // file only: retention_interval of a few ms, the file is sealed up between batches
	restart    bool // file only: rotate (30 ms), and the plugin is stopped and started again on the same directory before every second batch
}

// row 0 is the configuration every older stream uses (threshold 65536 bytes)
var rows = [8]row{
	{avg: 4096, batch: 16},
	{avg: 8, batch: 2},   // 16 bytes: practically every batch outgrows the buffer, begin table cap 3
	{avg: 16, batch: 4},  // 64 bytes
	{avg: 64, batch: 16}, // 1024 bytes: batches fall on both sides
	{avg: 4096, batch: 16, gzip: true},
	{avg: 16, batch: 4, gzip: true, two: true},
	{avg: 4096, batch: 16, two: true},
	{avg: 256, batch: 8}, // 2048 bytes
}

const (
	vFresh = 8  // variant bit: plugin instance of its own, stopped when the case ends
	vDig   = 16 // variant bit: Dig on every event root before it is handed to the sink
)

func mkWhich(kind, rowIdx int, fresh, dig bool) int {
	v := rowIdx
	if fresh {
		v |= vFresh
	}
	if dig {
		v |= vDig
	}
	return kind + 16*v
}

func splitWhich(which int) (kind int, rw row, fresh, dig bool) {
	kind, v := which%16, which/16
	rw = rows[v&7]
	fresh, dig = v&vFresh != 0, v&vDig != 0
	if kind == 1 {
		// file never assigns avgEventSize (its threshold is 0 whatever the settings are): the rows mean
		// nothing to it, row 1 selects the rotating sink instead, which always is a fresh instance
		rw = row{avg: rows[0].avg, batch: rows[0].batch, rotate: v&7 == 1 || v&7 == 2, restart: v&7 == 2}
		fresh = fresh || rw.rotate
	}
	if kind == 11 {
		rw = rows[0] // the via drive of file: no rows either
	}
	return
}

func (r row) threshold() int { return r.avg * r.batch }

// ---------------------------------------------------------------------------------------------
// canonicalisation of wall-clock values (the only non-deterministic bytes of a payload)
// ---------------------------------------------------------------------------------------------
var (
	lokiTsRe = regexp.MustCompile(`\["([0-9]{19})",`)
	gelfTsRe = regexp.MustCompile(`"timestamp":([0-9]+(?:\.[0-9]+)?)`)
)

// loki stamps time.Now().UnixNano() on an event without timestamp: a values entry that starts with
// a 19-digit string within an hour of the clock becomes ["@now", (generated timestamps are years away)
func canonNow(body []byte) []byte {
	now := time.Now().UnixNano()
	return lokiTsRe.ReplaceAllFunc(body, func(m []byte) []byte {
		v, err := strconv.ParseInt(string(m[2:21]), 10, 64)
		if err != nil || v-now > int64(time.Hour) || now-v > int64(time.Hour) {
			return m
		}
		return []byte(`["@now",`)
	})
}

// gelf writes "timestamp":<now as float seconds> when the event has no usable time: a value within
// an hour of the clock becomes 0 (a quote inside a string value is escaped, so the pattern only
// matches the top-level field formatEvent adds)
func canonGelfNow(b []byte) []byte {
	if !bytes.Contains(b, []byte(`"timestamp":`)) {
		return b
	}
	now := float64(time.Now().UnixNano()) / 1e9
	return gelfTsRe.ReplaceAllFunc(b, func(m []byte) []byte {
		v, err := strconv.ParseFloat(string(m[len(`"timestamp":`):]), 64)
		if err != nil || v-now > 3600 || now-v > 3600 {
			return m
		}
		return []byte(`"timestamp":0`)
	})
}

// ---------------------------------------------------------------------------------------------
// file output with a retention interval of a few milliseconds: fileSealUpTicker renames the
// target file and opens a new one while batches keep arriving. What one out() wrote is the growth
// of the concatenation sealed files (by index) ++ current file.
// ---------------------------------------------------------------------------------------------
var (
	sealMu  sync.Mutex
	sealUps int // files sealed over the whole run (SealUpCallback)
)

const rotateEvery = 6 * time.Millisecond

// restart: before the 3rd, 5th, ... batch the plugin is stopped and a new instance is started on the same
// directory, as file.d does when it is restarted: Start() finds the sealed files (getStartIdx goes on after
// the highest index) and the current file (createNew opens the one file that matches the pattern and appends
// to it). What the batches wrote must still be the growth of sealed files ++ current file. The retention
// interval is 30 ms here: an instance seals its first write at once (its first seal-up time is derived from
// the SECOND in the file name, so it lies in the past) and keeps the second one in the current file, which
// therefore is NOT empty when the next instance opens it (a Start() that truncates it loses that batch).
var fileRestarts int

func rotatingFileSink(name, dir string, restart bool) *sink {
	var p *fileout.Plugin
	retention := "4ms"
	if restart {
		retention = "30ms"
	}
	start := func() {
		c := &fileout.Config{TargetFile: filepath.Join(dir, "out.log"), RetentionInterval: fdcfg.Duration(retention), BatchSize: "16", WorkersCount: "1"}
		test.NewConfig(c, map[string]int{"gomaxprocs": 1, "capacity": 64})
		p = &fileout.Plugin{}
		p.SealUpCallback = func(string) {
			sealMu.Lock()
			sealUps++
			sealMu.Unlock()
		}
		p.Start(c, params(name, rows[0].avg))
	}
	start()
	wd := pipeline.WorkerData(nil)
	var seen []byte
	calls := 0
	return &sink{
		wait: rotateEvery,
		stop: func() { p.Stop(); time.Sleep(time.Millisecond); _ = os.RemoveAll(dir) },
		out: func(b *pipeline.Batch) error {
			if calls++; restart && calls > 1 && calls%2 == 1 {
				p.Stop()
				time.Sleep(2 * time.Millisecond) // the stopped instance's seal-up ticker has returned
				start()
				wd = pipeline.WorkerData(nil)
				fileRestarts++
			}
			p.VerifOut(&wd, b)
			total := readRotated(dir)
			if bytes.HasPrefix(total, seen) {
				rec.add(total[len(seen):], 0)
			} else { // something already written has changed or vanished
				rec.add(append([]byte("!rewritten!"), total...), 0)
			}
			seen = total
			return nil
		}}
}

// sealed: out_<idx>_<time>.log, current: <unix>_out.log; read until two listings agree
func readRotated(dir string) []byte {
	type ent struct {
		name string
		idx  int
		size int64
	}
	list := func() []ent {
		des, _ := os.ReadDir(dir)
		var out []ent
		for _, d := range des {
			n := d.Name()
			e := ent{name: n, idx: 1 << 30}
			if strings.HasPrefix(n, "out_") {
				parts := strings.SplitN(n, "_", 3)
				if len(parts) == 3 {
					e.idx, _ = strconv.Atoi(parts[1])
				}
			}
			if fi, err := d.Info(); err == nil {
				e.size = fi.Size()
			}
			out = append(out, e)
		}
		sort.Slice(out, func(i, j int) bool {
			if out[i].idx != out[j].idx {
				return out[i].idx < out[j].idx
			}
			return out[i].name < out[j].name
		})
		return out
	}
	for try := 0; ; try++ {
		l1 := list()
		var total []byte
		ok := true
		for _, e := range l1 {
			b, err := os.ReadFile(filepath.Join(dir, e.name))
			if err != nil {
				ok = false
				break
			}
			total = append(total, b...)
		}
		if ok && fmt.Sprint(l1) == fmt.Sprint(list()) || try > 200 {
			return total
		}
		time.Sleep(100 * time.Microsecond)
	}
}

var _ = hx.I

// ---------------------------------------------------------------------------------------------
// second implementation of gelf's makeTimestampField for NUMBER values (formatEvent is an oracle
// value for the model, so this is what judges the 1e9 / 1e12 thresholds): the event as decoded,
// the rewritten event after canonGelfNow (a clock value reads 0 there)
// ---------------------------------------------------------------------------------------------
var gelfTsOut = regexp.MustCompile(`"timestamp":(-?[0-9.eE+-]+|\+Inf|-Inf|NaN)`)

func gelfTimestampRule(root *insaneJSON.Root, rewritten []byte) (bool, string) {
	node := root.Dig("time")
	m := gelfTsOut.FindSubmatch(rewritten)
	if node == nil {
		return m == nil, "no time field, but a timestamp: " + string(rewritten)
	}
	if m == nil {
		return false, "time field, but no timestamp: " + string(rewritten)
	}
	got, err := strconv.ParseFloat(string(m[1]), 64)
	if err != nil {
		return false, "timestamp is not a number: " + string(rewritten)
	}
	if !node.IsNumber() {
		return true, "" // dates are parsed by xtime; not judged here
	}
	lit := node.AsString()
	v, _ := strconv.ParseFloat(lit, 64) // +-Inf on overflow, like insane-json's AsFloat
	for i := 0; i < 2 && v > 1e12; i++ {
		v /= 1000
	}
	want := v
	if v < 1e9 || math.IsInf(v, 0) {
		want = 0 // the clock, canonicalised (a value beyond the float64 range: repaired in /repo 25ddee1)
	}
	d := got - want
	if d < 0 {
		d = -d
	}
	tol := 1e-9 * want
	if tol < 0 {
		tol = -tol
	}
	return d <= tol, fmt.Sprintf("time %s: timestamp %s, expected %v", lit, m[1], want)
}
