package main

// The sinks driven through their PUBLIC API only, as loki.go does for loki (which = 10 + sink):
// Factory() makes the plugin and its configuration, Start() gets a recording controller and a recording
// dead-queue plugin, every event of a batch goes through Out(event). The plugin's OWN batcher forms the
// batch and calls out(); the RetriableBatcher (retry = 1: three calls of out(), retention 1 ms) offers a
// failed batch again and hands it to the plugin's onError closure (router.Fail -> dead queue) when it
// gives up. A batch is over when every event has been committed or has reached the dead queue.
//
// Two ways of sealing a batch:
//   - size: batch_size_bytes is reached by the Size of the LAST event (all others have Size 0), so the
//     batch is sealed by the Add of its last event (Batch.updateStatus: max size exceeded);
//   - time (variant bit vTimeout): no event has a Size, batch_flush_timeout is 250 ms and the batcher's
//     heartbeat seals the batch (updateStatus: timeout exceeded). These cases run in child processes,
//     several at a time (the heartbeat ticks every 100 ms).
//
// gelf's reconnect_interval is 1 ms here, so the batcher's maintenance call (Batcher.work:
// MaintenanceFn after a commit) closes the connection between batches and the next out() dials again.
//
//	attempt = one request (es, http, splunk) / the bytes one batch added to the file / to the TCP
//	          stream (gelf): (0 ((#body status)) ret), ret = 1 iff the batcher went on with the same batch
//	          afterwards (another request, or the dead queue); (0 () 0) when the batch was committed
//	          without any request (no deliverable event: Batcher.work does not call out())
//
// Requests are observed one per call of out(), so configurations with split_batch stay with the direct
// drive. Kafka is not driven this way: its Start() dials and pings the brokers (logger.Fatal without one).

import (
	"bytes"
	"io"
	"os"
	"path/filepath"
	"strconv"
	"time"

	fdcfg "github.com/ozontech/file.d/cfg"
	"github.com/ozontech/file.d/pipeline"
	esout "github.com/ozontech/file.d/plugin/output/elasticsearch"
	fileout "github.com/ozontech/file.d/plugin/output/file"
	gelfout "github.com/ozontech/file.d/plugin/output/gelf"
	httpout "github.com/ozontech/file.d/plugin/output/http"
	splunkout "github.com/ozontech/file.d/plugin/output/splunk"
	"github.com/ozontech/file.d/test"

	"verif/harness/hx"
)

const (
	vTimeout        = 64 // variant bit: the batch is sealed by batch_flush_timeout, not by its size
	viaFlushTimeout = "250ms"
	viaBatchSize    = "64" // more than any generated batch
)

func viaTimeout(which int) bool { return (which/16)&vTimeout != 0 }

type viaPlugin interface {
	Start(pipeline.AnyConfig, *pipeline.OutputPluginParams)
	Out(*pipeline.Event)
	Stop()
}

func viaSink(base int, name string, rw row, cfg hx.Sx, timeout bool) *sink {
	flush := "100h"
	if timeout {
		flush = viaFlushTimeout
	}
	bytesLimit := fdcfg.Expression(strconv.Itoa(lokiFlush))
	gzLevel := "default"
	np := map[string]int{"gomaxprocs": 1, "capacity": 64}
	log := &lokiLog{}
	pr := params(name, rw.avg)
	pr.Controller = log
	pr.Router.SetDeadQueueOutput(&pipeline.OutputPluginInfo{
		PluginStaticInfo:  &pipeline.PluginStaticInfo{Type: "verif-dead"},
		PluginRuntimeInfo: &pipeline.PluginRuntimeInfo{Plugin: &lokiDead{log: log}, ID: "verif-dead"},
	})

	var p viaPlugin
	var stop func()
	// collect: what the batch that has just been committed (or given up) put on the wire, as requests
	var collect func(deliverable int) []hx.Sx
	httpCollect := func(int) []hx.Sx {
		rec.mu.Lock()
		defer rec.mu.Unlock()
		reqs := rec.reqs
		rec.reqs = nil
		return reqs
	}
	pre := func() {}

	switch base {
	case 0:
		ap, ac := esout.Factory()
		c := ac.(*esout.Config)
		*c = *esConfig(hx.Items(cfg), rw, gzLevel)
		c.BatchSize, c.BatchSizeBytes, c.BatchFlushTimeout, c.WorkersCount = viaBatchSize, bytesLimit, fdcfg.Duration(flush), "1"
		c.Retry, c.Retention = 1, "1ms"
		test.NewConfig(c, np)
		esConfigFix(c, hx.Items(cfg))
		p = ap.(*esout.Plugin)
		p.Start(c, pr) // p.time = time.Now().Format(time_format): the generator only uses formats that print themselves
		collect = httpCollect
	case 1:
		dir, err := os.MkdirTemp("", "verif-c19-viafile")
		if err != nil {
			panic(err)
		}
		tmpDirs = append(tmpDirs, dir)
		ap, ac := fileout.Factory()
		c := ac.(*fileout.Config)
		c.TargetFile, c.RetentionInterval = filepath.Join(dir, "out.log"), "100h"
		c.BatchSize, c.BatchSizeBytes, c.BatchFlushTimeout, c.WorkersCount = viaBatchSize, bytesLimit, fdcfg.Duration(flush), "1"
		test.NewConfig(c, np)
		fp := ap.(*fileout.Plugin)
		fp.Start(c, pr)
		p = fp
		var off int64
		collect = func(int) []hx.Sx {
			f, err := os.Open(fp.VerifFile().Name())
			if err != nil {
				panic(err)
			}
			defer f.Close()
			_, _ = f.Seek(off, io.SeekStart)
			data, _ := io.ReadAll(f)
			off += int64(len(data))
			if len(data) == 0 {
				return nil
			}
			return []hx.Sx{hx.L(hx.B(data), hx.I(0))}
		}
		stop = func() { fp.Stop(); _ = os.RemoveAll(dir) }
	case 2:
		ap, ac := httpout.Factory()
		c := ac.(*httpout.Config)
		*c = *httpConfig(hx.Items(cfg), rw, gzLevel)
		c.BatchSize, c.BatchSizeBytes, c.BatchFlushTimeout, c.WorkersCount = viaBatchSize, bytesLimit, fdcfg.Duration(flush), "1"
		c.Retry, c.Retention = 1, "1ms"
		test.NewConfig(c, np)
		p = ap.(*httpout.Plugin)
		p.Start(c, pr)
		collect = httpCollect
	case 4:
		ap, ac := splunkout.Factory()
		c := ac.(*splunkout.Config)
		c.Endpoint, c.Token, c.CopyFields = server(), "tok", splunkCopyFields(cfg)
		c.UseGzip, c.GzipCompressionLevel = rw.gzip, gzLevel
		c.BatchSize, c.BatchSizeBytes, c.BatchFlushTimeout, c.WorkersCount = viaBatchSize, bytesLimit, fdcfg.Duration(flush), "1"
		c.Retry, c.Retention = 1, "1ms"
		test.NewConfig(c, np)
		p = ap.(*splunkout.Plugin)
		p.Start(c, pr)
		collect = httpCollect
	case 5:
		ln := gelfListener()
		ap, ac := gelfout.Factory()
		c := ac.(*gelfout.Config)
		*c = *gelfConfig(cfg)
		c.Endpoint, c.ReconnectInterval = ln.Addr().String(), "1ms"
		c.BatchSize, c.BatchSizeBytes, c.BatchFlushTimeout, c.WorkersCount = viaBatchSize, bytesLimit, fdcfg.Duration(flush), "1"
		c.Retry, c.Retention = 1, "1ms"
		test.NewConfig(c, np)
		gelfConfigFix(c, cfg)
		gp := ap.(*gelfout.Plugin)
		gp.Start(c, pr)
		p = gp
		if gelfPlugins[hx.String(cfg)] == nil {
			gelfPlugins[hx.String(cfg)] = gp
		}
		pre = func() {
			time.Sleep(1500 * time.Microsecond) // longer than reconnect_interval: the maintenance call after this batch reconnects
			gelfMu.Lock()
			gelfData = gelfData[:0]
			gelfMu.Unlock()
		}
		collect = func(want int) []hx.Sx {
			// the events are committed: the write has returned; wait until the listener has seen one NUL per
			// deliverable event (or 2 s)
			deadline := time.Now().Add(2 * time.Second)
			gelfMu.Lock()
			for bytes.Count(gelfData, []byte{0}) < want && time.Now().Before(deadline) {
				gelfMu.Unlock()
				time.Sleep(100 * time.Microsecond)
				gelfMu.Lock()
			}
			data := canonGelfNow(append([]byte(nil), gelfData...))
			gelfMu.Unlock()
			if want == 0 && len(data) == 0 {
				return nil
			}
			rec.mu.Lock()
			st := rec.next()
			rec.mu.Unlock()
			return []hx.Sx{hx.L(hx.B(data), hx.I(st))}
		}
		stop = func() { gp.Stop(); _ = ln.Close() }
	default:
		panic("c19: this sink is not driven through its public API")
	}
	if stop == nil {
		stop = p.Stop
	}

	return &sink{stop: stop, run: func(evs []*pipeline.Event) []hx.Sx {
		if len(evs) == 0 {
			return []hx.Sx{hx.L(hx.I(0), hx.L(), hx.I(0))}
		}
		pre()
		rec.mu.Lock()
		rec.reqs = nil
		rec.mu.Unlock()
		log.mu.Lock()
		log.commits, log.fails = 0, 0
		log.mu.Unlock()
		want := 0
		for i, e := range evs {
			e.Size = 0
			if i == len(evs)-1 && !timeout {
				e.Size = lokiFlush
			}
			if !e.IsChildParentKind() {
				want++
			}
			p.Out(e)
		}
		deadline := time.Now().Add(20 * time.Second)
		fails := 0
		for {
			log.mu.Lock()
			done := log.commits+log.fails >= len(evs)
			fails = log.fails
			log.mu.Unlock()
			if done {
				break
			}
			if time.Now().After(deadline) {
				return []hx.Sx{hx.L(hx.I(1), hx.I(77))} // the batch never came back
			}
			time.Sleep(50 * time.Microsecond)
		}
		reqs := collect(want)
		if len(reqs) == 0 {
			ret := 0
			if fails > 0 {
				ret = 1
			}
			return []hx.Sx{hx.L(hx.I(0), hx.L(), hx.I(ret))}
		}
		var atts []hx.Sx
		for i, rq := range reqs {
			ret := 0
			if i < len(reqs)-1 || fails > 0 {
				ret = 1
			}
			atts = append(atts, hx.L(hx.I(0), hx.L(rq), hx.I(ret)))
		}
		return atts
	}}
}
