package main

// Streams that cross the scale / history thresholds hard-coded in the output plugins
// (notes/threshold-audit.txt items 38 and 39). Every case carries its whole history (successive
// batches through one plugin instance), the variant is part of `which`, so --replay re-executes it.

import (
	"bytes"
	"encoding/json"
	"fmt"
	"os"
	"strings"
	"time"

	"verif/harness/hx"
)

// an event whose encoding is about n bytes long
func padEvent(n, i int) []byte {
	pad := n - 48
	if pad < 0 {
		pad = 0
	}
	enc, ok := canon(fmt.Sprintf(`{"svc":"s%d","message":"%s","topic":"t%d","i":%d}`, i%3, strings.Repeat("x", pad), i%2, i))
	if !ok {
		panic("c19: pad event is not canonical")
	}
	return enc
}

// an event with nf fields (unique, partly long names), the fields gelf looks at among them
func (g *gen) wideEvent(nf int, special bool) []byte {
	r := g.c.R
	for {
		var fs []string
		for i := 0; i < nf; i++ {
			name := fmt.Sprintf("f%d", i)
			switch r.Intn(6) {
			case 0:
				name = fmt.Sprintf("long field %d %s", i, strings.Repeat("n", r.Range(20, 90)))
			case 1:
				name = fmt.Sprintf("k\"%d\n%s", i, hx.Pick(r, nasty))
			}
			fs = append(fs, jstr(name)+":"+g.randVal())
		}
		if special {
			for _, name := range []string{"host", rawField, "level", "time", "svc", topicField} {
				if r.Chance(2, 3) {
					v := g.randVal()
					switch {
					case name == "time" && r.Bool():
						v = hx.Pick(r, gelfTimes)
					case name == "level" && r.Bool():
						v = hx.Pick(r, []string{`"error"`, `"info"`, `3`, `"7"`, `"x"`, `1e3`})
					}
					fs = append(fs, jstr(name)+":"+v)
				}
			}
		}
		for i := len(fs) - 1; i > 0; i-- {
			j := r.Intn(i + 1)
			fs[i], fs[j] = fs[j], fs[i]
		}
		if enc, ok := canon("{" + strings.Join(fs, ",") + "}"); ok {
			return enc
		}
		g.c.W.Count("event_not_canonical_skipped")
	}
}

// values of the gelf timestamp field around makeTimestampField's thresholds: `ts > 1e12` (twice:
// milli- and microseconds are scaled down), `ts < 1e9` (taken for "no time": now). Finite only;
// the overflowing spellings are in gelfInfTimes.
var gelfTimes = []string{
	`999999999`, `1000000000`, `1000000001`, `999999999.999`, `1000000000.5`,
	`999999999999`, `1000000000000`, `1000000000001`, `1000000000000.5`,
	`999999999999999`, `1000000000000000`, `1000000000000001`, `1000000000001000`,
	`1000000000000000000`, `1000000000001000000`, `999999999999999999`, `1600000000123456789`,
	`1600000000`, `1600000000.123`, `1600000000123`, `1600000000123456`, `1.6e9`, `1.6e12`, `16e8`, `1e9`, `1e12`, `1e15`, `1e18`, `1e300`,
	`0`, `-1`, `-1600000000`, `1`, `0.5`, `-0.0`, `1e-9`, `-1e999`,
	`"2021-01-02T03:04:05.123456789Z"`, `"2001-09-09T01:46:39Z"`, `"2001-09-09T01:46:40Z"`, `"2001-09-09T01:46:41Z"`,
	`"1969-12-31T23:59:59Z"`, `"2262-04-11T23:47:16Z"`, `"2021-01-02 03:04:05"`, `"1600000000"`, `""`, `"x"`,
	`true`, `null`, `{}`, `[1600000000]`, `{"a":1600000000}`,
}

// number spellings that ParseFloat answers with +-Inf (range error)
var gelfInfTimes = []string{`1e999`, `1e309`, `1.8e308`, `17976931348623157` + strings.Repeat("0", 293)}

func (g *gen) thresholdStreams(allSinks []sinkCfg, names []string, es3cfg hx.Sx, es3vals []string) {
	c, r, w := g.c, g.c.R, g.c.W
	t0 := time.Now()
	lap := func(what string) {
		if os.Getenv("C19_TIMING") != "" {
			fmt.Fprintf(os.Stderr, "C19_TIMING %-12s %v\n", what, time.Since(t0))
		}
		t0 = time.Now()
	}
	names = append(append([]string(nil), names...), "loki")
	es1, es1s := allSinks[0], allSinks[2]
	es3 := sinkCfg{0, es3cfg, es3vals, false}
	fileS, httpJ, httpRaw, httpJS, httpRawS := allSinks[3], allSinks[4], allSinks[5], allSinks[6], allSinks[7]
	kafka16 := sinkCfg{3, hx.L(hx.S("dflt"), hx.I(1), hx.I(16)), nil, false}
	kafka40 := sinkCfg{3, hx.L(hx.S("d"), hx.I(1), hx.I(40)), nil, false}
	splunk, gelf := allSinks[10], allSinks[11]

	evs := func(sc sinkCfg, encs [][]byte, parentEvery int) hx.Sx {
		var out []hx.Sx
		for i, e := range encs {
			kind := 0
			if parentEvery > 0 && i%parentEvery == parentEvery-1 {
				kind = 2
			}
			out = append(out, g.mkEv(kind, e, sc.fields, sc.which, sc.raw))
		}
		return hx.L(out...)
	}
	randEvents := func(n int) [][]byte {
		var out [][]byte
		for i := 0; i < n; i++ {
			out = append(out, g.randEvent())
		}
		return out
	}
	okOnly := func(s []int) []int {
		for k := range s {
			s[k] = 200 + s[k]%3
		}
		return s
	}
	someScript := func(n int) []int {
		var s []int
		for i := 0; i < n; i++ {
			switch r.Intn(8) {
			case 0, 1:
				s = append(s, 413)
			case 2:
				s = append(s, hx.Pick(r, []int{500, 400, 199, 203, 204, 201, 202}))
			default:
				s = append(s, 200)
			}
		}
		return s
	}

	// ---- A. small AvgEventSize / batch_size rows (item 38), persistent instances: the worker data goes
	//         through grow (append beyond cap) and shrink (`cap > batch_size*avg` -> fresh buffer) all the
	//         time, the begin table (cap batch_size+1) is outgrown, gzip and two endpoints are in the rows.
	//         Exposes: a shrink that keeps len or loses data appended so far, begin offsets computed
	//         against the old buffer, kafka records aliasing a buffer that is reused too early, a
	//         compressed body built from the wrong slice.
	rowSinks := []struct {
		sc   sinkCfg
		rows []int
	}{
		{es1, []int{1, 2, 3, 4, 5, 6, 7}}, {es1s, []int{1, 2, 3, 5, 7}}, {es3, []int{1, 3, 5}},
		{httpJ, []int{1, 2, 3, 4, 5, 6, 7}}, {httpRaw, []int{1, 3, 5}}, {httpJS, []int{1, 2, 3, 5, 7}}, {httpRawS, []int{2, 3, 5}},
		{kafka16, []int{1, 2, 3, 7}}, {allSinks[8], []int{1, 3}},
		{splunk, []int{1, 2, 3, 4, 7}},
		{gelf, []int{1, 2, 3, 7}},
	}
	for i := 0; i < 320*c.Scale; i++ {
		rs := hx.Pick(r, rowSinks)
		rowIdx := hx.Pick(r, rs.rows)
		sc := rs.sc.variant(rowIdx, false, false)
		kind := sc.which % 16
		nb := r.Range(1, 4)
		var bs []hx.Sx
		total := 0
		for j := 0; j < nb; j++ {
			n := r.Intn(7)
			if kind == 3 {
				n = r.Intn(int(hx.Int(hx.Items(sc.cfg)[2])) + 1) // within kafka's batch_size
			}
			total += n
			pe := 0
			if r.Chance(1, 4) {
				pe = r.Range(2, 4)
			}
			bs = append(bs, evs(sc, randEvents(n), pe))
		}
		s := someScript(r.Intn(8))
		if kind == 5 {
			s = okOnly(s)
		}
		w.Count(fmt.Sprintf("rows_row%d_%s", rowIdx, names[kind]))
		c.Do("rows-"+names[kind], sc.which, hx.L(sc.cfg, hx.L(bs...), ints(s)), total >= 2)
	}

	lap("rows")

	// ---- B. big-then-small on ONE fresh instance (item 38): batches whose payload is above / below the
	//         row's threshold alternate, so the same worker data takes the keep side, grows, and takes the
	//         shrink side several times. Row 0 (65536 bytes) needs 16 events of 4.2 KB.
	//         Exposes the same regressions as A, deterministically and for the production-size row.
	bigSmall := func(sc sinkCfg, rowIdx int) {
		sc = sc.variant(rowIdx, true, false)
		kind := sc.which % 16
		th := rows[rowIdx].threshold()
		if kind == 1 {
			th = 0
		}
		pattern := []bool{false, true, false, false, true, true, false}
		if th > 20000 {
			pattern = []bool{false, true, false, true}
		}
		for k := r.Intn(3); k > 0 && th <= 20000; k-- {
			pattern = append(pattern, r.Bool())
		}
		var bs []hx.Sx
		for _, big := range pattern {
			var encs [][]byte
			if big {
				k, slack := r.Range(5, 9), 4
				if th > 20000 {
					k, slack = 16, 16
				}
				for i := 0; i < k; i++ {
					encs = append(encs, padEvent(th/k+th/(slack*k)+60, i))
				}
			} else {
				for i := r.Range(0, 2); i > 0; i-- {
					encs = append(encs, padEvent(th/16, i))
				}
			}
			size := 0
			for _, e := range encs {
				size += len(e) + 1
			}
			if size > th {
				w.Count("bigsmall_batches_above_threshold")
			} else {
				w.Count("bigsmall_batches_within_threshold")
			}
			bs = append(bs, evs(sc, encs, 0))
		}
		s := someScript(r.Intn(6))
		if kind == 5 {
			s = okOnly(s)
		}
		w.Count(fmt.Sprintf("bigsmall_row%d_%s", rowIdx, names[kind]))
		c.Do("bigsmall-"+names[kind], sc.which, hx.L(sc.cfg, hx.L(bs...), ints(s)), true)
	}
	bsSinks := []sinkCfg{es1, es1s, httpJ, httpRawS, kafka16, splunk, gelf, fileS}
	for rep := 0; rep < c.Scale; rep++ {
		for _, sc := range bsSinks {
			if sc.which == 1 {
				bigSmall(sc, 0)
				continue
			}
			bigSmall(sc, 3)
			bigSmall(sc, 7)
			if r.Chance(1, 3) {
				bigSmall(sc, hx.Pick(r, []int{1, 2}))
			}
		}
		// the production-size row: a few sinks per run in the quick tier, all of them in the thorough one
		for i, sc := range bsSinks {
			if sc.which != 1 && ((c.Tier == "thorough" && rep < 3) || (i+int(c.Seed)+rep)%3 == 0) {
				bigSmall(sc, 0)
			}
		}
	}

	lap("bigsmall")

	// ---- C. more events than the begin table holds (cap batch_size+1 = 17, row 1: 3): 17..40 events,
	//         413-heavy scripts so that sendSplit walks the regrown table (es, http), kafka with a
	//         batch_size of 40. Exposes a begin table that is indexed after a reallocation lost entries.
	for i := 0; i < 40*c.Scale; i++ {
		sc := hx.Pick(r, []sinkCfg{es3, es1s, httpJS, httpRawS, es1, httpJ, kafka40}).variant(hx.Pick(r, []int{0, 0, 1, 3}), r.Bool(), false)
		n := r.Range(17, 40)
		var encs [][]byte
		for k := 0; k < n; k++ {
			enc, _ := canon(fmt.Sprintf(`{"i":%d,"svc":"s%d","message":"m%d","topic":"t"}`, k, r.Intn(3), k))
			encs = append(encs, enc)
		}
		var s []int
		for j := r.Intn(n); j > 0; j-- {
			if r.Chance(3, 5) {
				s = append(s, 413)
			} else if r.Chance(1, 10) {
				s = append(s, 500)
			} else {
				s = append(s, 200)
			}
		}
		pe := 0
		if r.Chance(1, 3) {
			pe = r.Range(3, 9)
		}
		w.Count("bigbatch_events_17_to_40")
		c.Do("bigbatch-"+names[sc.which%16], sc.which, hx.L(sc.cfg, hx.L(evs(sc, encs, pe), evs(sc, encs[:2], 0)), ints(s)), true)
	}

	lap("bigbatch")

	// ---- D. the edges of the success window 200..202 (xhttp/client.go): 199, 203, 204 and neighbours as
	//         the first answer, then success. Exposes a widened / narrowed window (a dropped or a
	//         doubly sent batch).
	for _, sc := range []sinkCfg{es1, es3, httpJ, httpJS, splunk} {
		for _, st := range []int{199, 200, 201, 202, 203, 204, 299, 300} {
			encs := [][]byte{padEvent(60, 0), padEvent(70, 1)}
			c.Do("status-edge-"+names[sc.which], sc.which, hx.L(sc.cfg, hx.L(evs(sc, encs, 0), evs(sc, encs[:1], 0)), ints([]int{st})), true)
			c.Do("status-edge-"+names[sc.which], sc.which, hx.L(sc.cfg, hx.L(evs(sc, encs, 0)), ints([]int{500, st, st})), true)
		}
	}

	lap("status-edge")

	// ---- E. gelf (item 39): the timestamp thresholds, wide (map-indexed) roots with Dig before out(),
	//         encodeBuf growing in the middle of a batch.
	//   E1. every value of gelfTimes alone and in a batch of three. Exposes a changed scaling threshold
	//       (the rewritten event differs from the oracle taken at generation time only if the rewrite
	//       depends on anything but the event) and, with the model's "every chunk is a JSON document",
	//       a timestamp that is not a JSON number.
	timeEvent := func(v string) []byte {
		enc, ok := canon(`{"message":"m","time":` + v + `,"svc":"a"}`)
		if !ok {
			panic("c19: time event is not canonical: " + v)
		}
		return enc
	}
	for i, v := range gelfTimes {
		encs := [][]byte{timeEvent(v)}
		c.Do("gelf-time", gelf.which, hx.L(gelf.cfg, hx.L(evs(gelf, encs, 0)), hx.L()), true)
		if i%3 == int(c.Seed%3) || c.Tier == "thorough" {
			three := [][]byte{timeEvent(hx.Pick(r, gelfTimes)), timeEvent(v), g.randEvent()}
			c.Do("gelf-time", gelf.which, hx.L(gelf.cfg, hx.L(evs(gelf, three, 0), evs(gelf, three[1:], 0)), hx.L()), true)
		}
	}
	w.Count("gelf_time_values_around_1e9_1e12")
	//   E1b. a number that overflows float64 (AsFloat answers +Inf). REPAIRED defect C19-gelf-timestamp-inf
	//        (/repo 25ddee1): it used to be written as "timestamp":+Inf, which is not JSON; now the clock
	//        is substituted like for a value below 1e9 (canonicalised to 0 on both sides, and the second
	//        implementation gelfTimestampRule expects the clock). Exposes the return of the non-finite
	//        timestamp: the generation-time oracle "one JSON document", the rule, and the model's
	//        "every chunk is a JSON document" all fail on it.
	for _, v := range gelfInfTimes {
		c.Do("gelf-time-inf", gelf.which, hx.L(gelf.cfg, hx.L(evs(gelf, [][]byte{timeEvent(v)}, 0)), hx.L()), true)
		c.Do("gelf-time-inf", gelf.which, hx.L(gelf.cfg, hx.L(evs(gelf, [][]byte{g.randEvent(), timeEvent(v), g.randEvent()}, 0)), hx.L()), true)
	}
	lap("gelf-time")
	//   E2. wide events: 17..40 fields (insane-json indexes an object of more than 16 fields by a map once
	//       it is looked up), Dig before out() in half of the cases, so that the rename loop
	//       (MutateToField) and makeBaseField / makeTimestampField / makeLevelField (DigField, Suicide)
	//       work on a map-indexed root; long field names and nested values make encodeBuf (initial
	//       capacity 0, kept between batches) reallocate in the middle of a batch while earlier field
	//       names still point into the old array; a first small batch, then wide ones, then small again.
	//       Exposes a stale map index after a rename / removal, a field name clobbered by the reuse of
	//       encodeBuf.
	for i := 0; i < 30*c.Scale; i++ {
		fresh := r.Bool() && i < 400 // every fresh gelf instance keeps a TCP connection until it is collected
		sc := gelf.variant(hx.Pick(r, []int{0, 0, 3, 7}), fresh, r.Bool())
		var bs []hx.Sx
		for j := r.Range(2, 4); j > 0; j-- {
			var encs [][]byte
			for k := r.Range(1, 5); k > 0; k-- {
				switch r.Intn(4) {
				case 0:
					encs = append(encs, g.randEvent())
				default:
					encs = append(encs, g.wideEvent(r.Range(15, 40), r.Chance(4, 5)))
				}
			}
			pe := 0
			if r.Chance(1, 5) {
				pe = 2
			}
			bs = append(bs, evs(sc, encs, pe))
		}
		w.Count(fmt.Sprintf("gelf_wide_dig%v_fresh%v", sc.which/16&vDig != 0, fresh))
		c.Do("gelf-wide", sc.which, hx.L(sc.cfg, hx.L(bs...), hx.L()), true)
	}
	lap("gelf-wide")
	//   the other sinks on wide, map-indexed roots (ES / kafka Dig their routing fields)
	for i := 0; i < 30*c.Scale; i++ {
		sc := hx.Pick(r, []sinkCfg{es1, httpRaw, kafka16, splunk, fileS}).variant(hx.Pick(r, []int{0, 3}), false, true)
		if sc.which%16 == 1 {
			sc = fileS.variant(0, false, true)
		}
		var encs [][]byte
		for k := r.Range(1, 4); k > 0; k-- {
			encs = append(encs, g.wideEvent(r.Range(15, 30), true))
		}
		c.Do("wide-"+names[sc.which%16], sc.which, hx.L(sc.cfg, hx.L(evs(sc, encs, 0), evs(sc, encs[:1], 0)), hx.L()), true)
	}

	lap("wide")

	// ---- F. file seal-up / rotation (item 39): retention_interval of 4 ms, the harness pauses 6 ms after
	//         every second batch, so the ticker renames the file and opens a new one between (and
	//         during) the writes. The observable of a batch is the growth of sealed files ++ current
	//         file. Exposes bytes lost or written twice around createNew / rename, a write into a
	//         closed file.
	nrot := 5 * c.Scale
	if nrot > 40 {
		nrot = 40
	}
	before := sealUps
	for i := 0; i < nrot; i++ {
		sc := fileS.variant(1, true, false)
		var bs []hx.Sx
		for j := r.Range(3, 6); j > 0; j-- {
			bs = append(bs, evs(sc, randEvents(r.Intn(4)), 0))
		}
		c.Do("rotate-file", sc.which, hx.L(sc.cfg, hx.L(bs...), hx.L()), true)
	}
	sealMu.Lock()
	for i := sealUps - before; i > 0; i-- {
		w.Count("rotate_file_seal_ups_seen")
	}
	sealMu.Unlock()

	lap("rotate")

	// ---- G. loki (item 39), through Start / Out and the plugin's own batcher (loki.go)
	g.lokiStreams()
	lap("loki")

	rec.mu.Lock()
	for i := 0; i < gzReqs; i += 50 {
		w.Count("gzip_requests_seen_x50")
	}
	for id, n := range srvHits {
		for i := 0; i < n; i += 1000 {
			w.Count(fmt.Sprintf("endpoint_%d_requests_x1000", id))
		}
	}
	rec.mu.Unlock()
}

// ---------------------------------------------------------------------------------------------
// loki streams
// ---------------------------------------------------------------------------------------------
// accepted by isUnixNanoFormat: a decimal int64 after the epoch and before now
var lokiTimesOK = []string{`"1600000000000000000"`, `1600000000000000001`, `"1"`, `"946684800000000000"`, `"1600000000"`}

// rejected (the batch is dropped), or empty (the plugin stamps the clock)
var lokiTimesOther = []string{
	`"0"`, `"-5"`, `"9000000000000000000"`, `"9223372036854775808"`, `"abc"`, `"1.6e18"`, `1.5`, `true`, `{"a":1}`, `" 1600000000000000000"`, `"2021-01-02T03:04:05Z"`,
	`""`, `null`, `""`,
}

func lokiLabels(r *hx.Rng) hx.Sx {
	m := map[string]string{}
	for k := r.Intn(3); k > 0; k-- {
		v := hx.Pick(r, nasty)
		if v == "" {
			v = "-" // the configuration parser insists on a non-empty label value
		}
		m[hx.Pick(r, []string{"app", "env", "a\"b", "x\ny", "<k>", "é", "\xff"})] = v
	}
	// the text the harness decodes and the plugin writes again: a fixpoint of Unmarshal / Marshal
	// (invalid UTF-8 becomes U+FFFD on the first pass)
	b, err := json.Marshal(m)
	if err != nil {
		panic(err)
	}
	var m2 map[string]string
	if err := json.Unmarshal(b, &m2); err != nil {
		panic(err)
	}
	b, _ = json.Marshal(m2)
	return hx.L(hx.B(b))
}

func (g *gen) lokiEvent() []byte {
	r := g.c.R
	for {
		var fs []string
		if r.Chance(4, 5) {
			v := hx.Pick(r, lokiTimesOK) // mostly accepted, otherwise nearly every batch is dropped
			if r.Chance(1, 6) {
				v = hx.Pick(r, lokiTimesOther)
			}
			fs = append(fs, jstr(lokiTsField)+":"+v)
		}
		for _, name := range []string{lokiMsgField, "svc", "lvl", "host"} {
			if r.Chance(3, 5) {
				fs = append(fs, jstr(name)+":"+g.randVal())
			}
		}
		for k := r.Intn(3); k > 0; k-- {
			fs = append(fs, jstr(g.randStr())+":"+g.randVal())
		}
		for i := len(fs) - 1; i > 0; i-- {
			j := r.Intn(i + 1)
			fs[i], fs[j] = fs[j], fs[i]
		}
		enc, ok := canon("{" + strings.Join(fs, ",") + "}")
		if !ok {
			g.c.W.Count("event_not_canonical_skipped")
			continue
		}
		if _, _, _, _, ok := lokiOracle(enc); ok {
			return enc
		}
	}
}

func (g *gen) lokiStreams() {
	c, r, w := g.c, g.c.R, g.c.W
	const L = 6
	plain := hx.L(hx.S(`{"app":"a\"b","env":"x\ny"}`))
	{ // the labels text must be what encoding/json writes for the map it decodes to
		var m map[string]string
		_ = json.Unmarshal(hx.Bytes(hx.Items(plain)[0]), &m)
		b, _ := json.Marshal(m)
		w.Oracle("loki: the labels of the exhaustive stream are in encoding/json's own spelling", bytes.Equal(b, hx.Bytes(hx.Items(plain)[0])), string(b))
	}
	mk := func(kind int, enc []byte) hx.Sx { return g.mkEv(kind, enc, nil, L, false) }

	// G1. exhaustive small scope: every batch of <= 2 events over 7 shapes x {regular, parent} (+ a child)
	var shapes [][]byte
	for _, s := range []string{
		`{"ts":"1600000000000000000","message":"m0","svc":"a"}`,
		`{"message":"x\ny \"q\" <&>","ts":1600000000000000001}`,
		`{"svc":"no ts, no message"}`,
		`{"ts":"","message":""}`,
		"{\"message\":\"\xff\",\"k\":{\"n\":[1,\"<\"]},\"ts\":\"1\"}",
		`{"ts":"2021-01-02T03:04:05Z","message":"rejected timestamp"}`,
		`{"ts":"1600000000000000000","message":{"nested":"line"},"ts2":1}`,
	} {
		enc, ok := canon(s)
		if !ok {
			panic("c19: loki shape is not canonical: " + s)
		}
		shapes = append(shapes, enc)
	}
	type opt struct{ kind, shape int }
	var opts []opt
	for s := range shapes {
		opts = append(opts, opt{0, s}, opt{2, s})
	}
	opts = append(opts, opt{1, 0})
	var recb func(cur []opt)
	recb = func(cur []opt) {
		if len(cur) > 0 {
			var es []hx.Sx
			nd := 0
			for _, o := range cur {
				es = append(es, mk(o.kind, shapes[o.shape]))
				if o.kind != 2 {
					nd++
				}
			}
			c.Do("exhaustive-loki", L, hx.L(plain, hx.L(hx.L(es...)), hx.L()), len(cur) >= 2 && nd >= 1)
		}
		if len(cur) < 2 {
			for _, o := range opts {
				recb(append(cur[:len(cur):len(cur)], o))
			}
		}
	}
	recb(nil)

	// G2. random: 1..3 successive batches of 1..8 events, adversarial labels / lines, timestamps that are
	//     accepted, rejected (the whole batch is dropped without a request) or absent; answers 204 and,
	//     rarely, 400 (dropped). Answers that make the batcher call out() again are in G3.
	for i := 0; i < 150*c.Scale; i++ {
		cfg := lokiLabels(r)
		var bs []hx.Sx
		total := 0
		for j := r.Range(1, 3); j > 0; j-- {
			n := r.Range(1, 8)
			if r.Chance(1, 12) {
				n = r.Range(9, 24)
			}
			var es []hx.Sx
			for k := 0; k < n; k++ {
				kind := 0
				if r.Chance(1, 6) {
					kind = hx.Pick(r, []int{1, 2, 2})
				}
				es = append(es, mk(kind, g.lokiEvent()))
			}
			total += n
			bs = append(bs, hx.L(es...))
		}
		var s []int
		for k := r.Intn(3); k > 0; k-- {
			s = append(s, hx.Pick(r, []int{204, 204, 204, 400}))
		}
		c.Do("random-loki", L, hx.L(cfg, hx.L(bs...), ints(s)), total >= 2)
	}

	// G2b. the success window `!= 204`: answers next to it first, then 204, on events that have neither a
	//      timestamp nor a message field (send() removes nothing from them, so the repeated out() is not
	//      the finding below). Exposes a widened window (200 taken for success: the batch is not sent
	//      again) and a retry that stops early.
	for _, st := range []int{200, 201, 203, 205, 299, 304, 429, 500} {
		var es []hx.Sx
		for _, src := range []string{`{"svc":"a","lvl":"x\ny"}`, `{"k":{"n":1}}`} {
			enc, _ := canon(src)
			es = append(es, mk(0, enc))
		}
		c.Do("status-edge-loki", L, hx.L(plain, hx.L(hx.L(es...), hx.L(es[:1]...)), ints([]int{st})), true)
		c.Do("status-edge-loki", L, hx.L(plain, hx.L(hx.L(es...)), ints([]int{st, 500, st})), true)
	}

	// G3. a batch that is offered again (any answer but 204 / 400; the window is `!= 204`, so 200 too), on
	//     events that DO have a timestamp / message field. REPAIRED defect C19-loki-retry-strips-fields
	//     (/repo eaffc21): out() used to share the event's nodes with its request tree, send() removed
	//     the two fields from them, and the second out() never returned or dereferenced nil in the
	//     worker goroutine. Every attempt must carry the entries of the original events. The cases still
	//     run in child processes (eight at a time, ~25 ms each): a return of the defect must not take
	//     the harness down, it shows as the observation ((2)).
	n := 20 * c.Scale
	var cases []hx.Sx
	// directed: message and timestamp last (always worked), timestamp first (used to hang), in the middle
	for _, src := range []string{
		`{"svc":"a","ts":"1600000000000000000","message":"m"}`,
		`{"ts":"1600000000000000000","a":1,"message":"m"}`,
		`{"a":1,"ts":"1600000000000000000","b":2,"message":"m","c":3}`,
	} {
		enc, _ := canon(src)
		cases = append(cases, hx.L(plain, hx.L(hx.L(mk(0, enc))), ints([]int{500})))
		cases = append(cases, hx.L(plain, hx.L(hx.L(mk(0, enc), mk(2, enc), mk(0, enc)), hx.L(mk(0, enc))), ints([]int{429, 503, 204, 500})))
	}
	for i := 0; i < n; i++ {
		var es []hx.Sx
		for k := r.Range(1, 4); k > 0; k-- {
			es = append(es, mk(0, g.lokiEvent()))
		}
		s := []int{hx.Pick(r, []int{500, 200, 203, 429})}
		if r.Chance(1, 3) {
			s = append(s, 503)
		}
		if r.Chance(1, 6) {
			s = append(s, 500) // three failures: the batcher gives up, the events go to the dead queue
		}
		cases = append(cases, hx.L(lokiLabels(r), hx.L(hx.L(es...)), ints(s)))
	}
	lokiPrefetch(L, cases)
	for _, cs := range cases {
		c.Do("retry-loki", L, cs, true)
	}
}
