package main

// C19 — output payloads carry every deliverable event of a batch exactly once, well-formed.
// Drives the REAL plugins' out() (Start via the public API where it does not dial anything, the
// unexported out() through the add-only verif_export_c19.go files) against an in-process HTTP
// server that answers with scripted status codes, a temp file, a recording kafka producer and a
// loopback TCP listener (gelf), and records every request body.
//
//	which 0 es | 1 file | 2 http | 3 kafka | 4 splunk | 5 gelf | 6 loki      (+ 16 * variant, see variants.go:
//	      the variant selects AvgEventSize / batch_size / use_gzip / two endpoints / a fresh plugin instance for
//	      this case / Dig before out() / run in a child process (splunk-copy-alias); the model is value-level and
//	      reduces which modulo 16)
//	  case = (cfg (batch ...) (status ...))      batch = (ev ...)
//	  ev   = (kind #enc (#raw ...) (#esc ...) #topic alt)     alt = 0 | #bytes
//	         the event is re-built from #enc alone; raw/esc/topic/alt are the oracle values the
//	         model uses (filled in by the generator from insane-json, hypotheses checked every run)
//	  cfg  es: (#op #index_format (#value ...) #time split)  file: ()  http: (raw split)
//	       kafka: (#default_topic use_topic_field batch_size)  gelf: ()
//	       splunk: (entry ...) the copy_fields option, entry = (#from #to (#from_segment ...) ((#to_segment #literal) ...));
//	       a splunk ev has a seventh element (copy ...), copy = 0 | oval: the values of its source fields (splunkcopy.go)
//	       loki: (#labels_json)   ev for loki: raw = (#ts_json #msg_json), topic = #626164 when the timestamp is
//	       rejected, alt = the rest of the event as encoding/json writes it (see loki.go)
//	  obs  = (attempt ...)   attempt = (0 ((#body status) ...) ret) | (2)   [panic ends the case]
//	         a batch is offered again (at most 3 times) while out() returns an error
//	which 10 es | 11 file | 12 http | 14 splunk | 15 gelf  (+ 16 * variant): the same sinks driven through their
//	      PUBLIC API (Factory / Start / Out / Stop) with the plugin's own batcher, see via.go; obs as for loki
//	  status: an answer of the script is 1000 * kind + status; kind 0 = the plain body, kinds 1..7 other
//	      response bodies (odd: the sink's response reader accepts it, even: it rejects it; see answerBody)
//	which 7  Batch.ForEach: case = (kind ...)   obs = (position visited ...)
//	which 8  case = #s   obs = json.Valid("\"" + s + "\"")
//	which 9  case = #s   obs = json.Valid(s)

import (
	"bytes"
	"compress/gzip"
	"context"
	"encoding/json"
	"errors"
	"fmt"
	"io"
	"net"
	"net/http"
	"net/http/httptest"
	"os"
	"path/filepath"
	"strconv"
	"strings"
	"sync"
	"time"

	fdcfg "github.com/ozontech/file.d/cfg"
	"github.com/ozontech/file.d/metric"
	"github.com/ozontech/file.d/pipeline"
	esout "github.com/ozontech/file.d/plugin/output/elasticsearch"
	fileout "github.com/ozontech/file.d/plugin/output/file"
	gelfout "github.com/ozontech/file.d/plugin/output/gelf"
	httpout "github.com/ozontech/file.d/plugin/output/http"
	kafkaout "github.com/ozontech/file.d/plugin/output/kafka"
	splunkout "github.com/ozontech/file.d/plugin/output/splunk"
	"github.com/ozontech/file.d/test"
	insaneJSON "github.com/ozontech/insane-json"
	"github.com/prometheus/client_golang/prometheus"
	"github.com/twmb/franz-go/pkg/kgo"
	"go.uber.org/zap"

	"verif/harness/hmain"
	"verif/harness/hx"
)

const (
	topicField = "topic"
	rawField   = "message"
	avgSize    = 4096
)

// ---------------------------------------------------------------------------------------------
// recorder shared by all sinks
// ---------------------------------------------------------------------------------------------
type recorder struct {
	mu     sync.Mutex
	script []int
	dflt   int // the answer once the script is used up (200; loki: 204)
	loki   bool
	reqs   []hx.Sx
}

func (r *recorder) next() int {
	if len(r.script) == 0 {
		return r.dflt
	}
	s := r.script[0]
	r.script = r.script[1:]
	return s
}

func (r *recorder) add(body []byte, st int) { r.reqs = append(r.reqs, hx.L(hx.B(body), hx.I(st))) }

var rec = &recorder{dflt: 200}

var (
	srvOnce sync.Once
	srvURLs [2]string
	srvHits [2]int // requests seen per endpoint (under rec.mu)
	gzReqs  int    // requests that arrived gzip-encoded
)

// two endpoints share the recorder; a gzip body is recorded decompressed (what the sink handed to
// the client); status 199 cannot be written through net/http (1xx is informational there), so the
// connection is hijacked and the status line written by hand
func servers() [2]string {
	srvOnce.Do(func() {
		for id := 0; id < 2; id++ {
			id := id
			s := httptest.NewServer(http.HandlerFunc(func(w http.ResponseWriter, req *http.Request) {
				body, _ := io.ReadAll(req.Body)
				gz := req.Header.Get("Content-Encoding") == "gzip"
				if gz {
					plain := []byte("!gzip-undecodable!")
					if zr, err := gzip.NewReader(bytes.NewReader(body)); err == nil {
						if b, err := io.ReadAll(zr); err == nil {
							plain = b
						}
					}
					body = plain
				}
				rec.mu.Lock()
				if rec.loki {
					body = canonNow(body)
				}
				ans := rec.next()
				rec.add(body, ans)
				st, reply := ans, answerBody(0)
				if ans >= 1000 {
					st, reply = ans%1000, answerBody(ans/1000)
				}
				srvHits[id]++
				if gz {
					gzReqs++
				}
				srvPaths[req.URL.RequestURI()]++
				if a := req.Header.Get("Authorization"); a != "" {
					srvAuth[strings.SplitN(a, " ", 2)[0]]++
				}
				if req.Header.Get("X-Scope-OrgID") != "" {
					srvAuth["tenant-header"]++
				}
				rec.mu.Unlock()
				if st == 199 {
					if hj, ok := w.(http.Hijacker); ok {
						if conn, _, err := hj.Hijack(); err == nil {
							_, _ = conn.Write([]byte("HTTP/1.1 199 Verif\r\nContent-Length: 0\r\nConnection: close\r\n\r\n"))
							_ = conn.Close()
							return
						}
					}
				}
				w.WriteHeader(st)
				if st != 204 && st != 304 {
					_, _ = w.Write(reply)
				}
			}))
			srvURLs[id] = s.URL
		}
	})
	return srvURLs
}

func server() string { return servers()[0] }

// the second endpoint is configured with a trailing slash (prepareEndpoints cuts it off)
func endpoints(two bool) []string {
	u := servers()
	if two {
		return []string{u[0], u[1] + "/"}
	}
	return []string{u[0]}
}

var (
	srvPaths = map[string]int{} // request URIs seen (under rec.mu)
	srvAuth  = map[string]int{} // Authorization schemes seen (under rec.mu)
)

// answerBody: the response body of an answer kind (the table answer_ok of coq/Model/Payload.v says which
// sink's response reader accepts which):
//
//	0     {"errors":false,"code":0}                     accepted by every reader
//	1     errors:true with items of every form          accepted (reportESErrors only logs; splunk: code 0)
//	2, 3  not JSON                                      rejected by es with process_response and by splunk (2),
//	                                                    accepted by es without process_response and by http (3)
//	4, 5  {"errors":true,"code":7,"items":[]}           rejected by splunk (4), accepted by es / http (5)
//	6, 7  {"errors":true}                               rejected by splunk: no code (6), accepted by es / http (7)
func answerBody(kind int) []byte {
	switch kind {
	case 1:
		return []byte(`{"took":5,"errors":true,"code":0,"items":[{"index":{"_index":"logs","status":400,"error":{"type":"mapper_parsing_exception","reason":"failed"}}},{"index":{"_index":"logs","status":201}},{"create":{"status":201}},{"index":{"status":500}}]}`)
	case 2, 3:
		return []byte("<html>502 bad gateway</html>")
	case 4, 5:
		return []byte(`{"errors":true,"code":7,"text":"Incorrect data format","items":[]}`)
	case 6, 7:
		return []byte(`{"errors":true}`)
	}
	return []byte(`{"errors":false,"code":0}`)
}

func params(name string, avg int) *pipeline.OutputPluginParams {
	return &pipeline.OutputPluginParams{
		PluginDefaultParams: pipeline.PluginDefaultParams{
			PipelineName:     "verif_" + name,
			PipelineSettings: &pipeline.Settings{AvgEventSize: avg},
			MetricCtl:        metric.NewCtl("verif_"+name, prometheus.NewRegistry(), time.Minute, 0),
		},
		Logger: zap.NewNop().Sugar(),
		Router: pipeline.NewRouter(),
	}
}

// ---------------------------------------------------------------------------------------------
// sinks
// ---------------------------------------------------------------------------------------------
type sink struct {
	out  func(b *pipeline.Batch) error       // one call of the plugin's out(); requests land in rec
	run  func(evs []*pipeline.Event) []hx.Sx // loki: a whole batch through the plugin's own batcher
	stop func()                              // fresh instances are stopped when their case ends
	wait time.Duration                       // rotating file sink: pause after every second batch
}

var (
	sinks   = map[string]*sink{}
	sinkSeq int
)

func cfgInts(cfg hx.Sx) []hx.Sx { return hx.Items(cfg) }

func getSink(which int, cfg hx.Sx) *sink {
	kind, rw, fresh, _ := splitWhich(which)
	key := fmt.Sprintf("%d|%s", which, hx.String(cfg))
	if !fresh {
		if s, ok := sinks[key]; ok {
			return s
		}
	}
	sinkSeq++
	name := fmt.Sprintf("s%d", sinkSeq)
	bs := fdcfg.Expression(strconv.Itoa(rw.batch))
	gzLevel := "default"
	if rw.batch < 16 {
		gzLevel = "best-speed"
	}
	var s *sink
	if kind >= 10 {
		s = viaSink(kind-10, name, rw, cfg, viaTimeout(which))
		if !fresh {
			sinks[key] = s
		}
		return s
	}
	switch kind {
	case 0:
		it := hx.Items(cfg)
		c := esConfig(it, rw, gzLevel)
		c.BatchSize, c.WorkersCount = bs, "1"
		test.NewConfig(c, map[string]int{"gomaxprocs": 1, "capacity": 64})
		esConfigFix(c, it)
		p := &esout.Plugin{}
		p.Start(c, params(name, rw.avg))
		p.VerifSetTime(hx.Str(it[3]))
		wd := pipeline.WorkerData(nil)
		tm := hx.Str(it[3])
		s = &sink{out: func(b *pipeline.Batch) error { p.VerifSetTime(tm); return p.VerifOut(&wd, b) }, stop: p.Stop}
	case 1:
		dir, err := os.MkdirTemp("", "verif-c19-file")
		if err != nil {
			panic(err)
		}
		if rw.rotate {
			s = rotatingFileSink(name, dir, rw.restart)
			break
		}
		tmpDirs = append(tmpDirs, dir)
		c := &fileout.Config{TargetFile: filepath.Join(dir, "out.log"), RetentionInterval: "100h", BatchSize: bs, WorkersCount: "1"}
		test.NewConfig(c, map[string]int{"gomaxprocs": 1, "capacity": 64})
		p := &fileout.Plugin{}
		p.Start(c, params(name, rw.avg))
		wd := pipeline.WorkerData(nil)
		var off int64
		s = &sink{out: func(b *pipeline.Batch) error {
			p.VerifOut(&wd, b)
			f, err := os.Open(p.VerifFile().Name())
			if err != nil {
				panic(err)
			}
			defer f.Close()
			_, _ = f.Seek(off, io.SeekStart)
			data, _ := io.ReadAll(f)
			off += int64(len(data))
			rec.add(data, 0)
			if off > 1<<24 { // keep the temp file small
				_ = p.VerifFile().Truncate(0)
				off = 0
			}
			return nil
		}, stop: func() { p.Stop(); _ = os.RemoveAll(dir) }}
	case 2:
		it := hx.Items(cfg)
		c := httpConfig(it, rw, gzLevel)
		c.BatchSize, c.WorkersCount = bs, "1"
		test.NewConfig(c, map[string]int{"gomaxprocs": 1, "capacity": 64})
		p := &httpout.Plugin{}
		p.Start(c, params(name, rw.avg))
		wd := pipeline.WorkerData(nil)
		s = &sink{out: func(b *pipeline.Batch) error { return p.VerifOut(&wd, b) }, stop: p.Stop}
	case 3:
		it := hx.Items(cfg)
		c := &kafkaout.Config{
			DefaultTopic:  hx.Str(it[0]),
			UseTopicField: hx.Truth(it[1]),
			TopicField:    topicField,
			BatchSize_:    int(hx.Int(it[2])),
			Timeout_:      time.Second,
		}
		p := kafkaout.VerifNew(c, &recProducer{}, rw.avg, metric.NewCtl("verif_"+name, prometheus.NewRegistry(), time.Minute, 0))
		wd := pipeline.WorkerData(nil)
		s = &sink{out: func(b *pipeline.Batch) error { return p.VerifOut(&wd, b) }, stop: func() {}}
	case 4:
		c := &splunkout.Config{Endpoint: server(), Token: "tok", UseGzip: rw.gzip, GzipCompressionLevel: gzLevel, BatchSize: bs, WorkersCount: "1",
			CopyFields: splunkCopyFields(cfg)}
		test.NewConfig(c, map[string]int{"gomaxprocs": 1, "capacity": 64})
		p := &splunkout.Plugin{}
		p.Start(c, params(name, rw.avg))
		wd := pipeline.WorkerData(nil)
		s = &sink{out: func(b *pipeline.Batch) error { return p.VerifOut(&wd, b) }, stop: p.Stop}
	case 5:
		s = gelfSink(name, rw, cfg)
	case 6:
		s = lokiSink(name, cfg)
	default:
		panic("c19: unknown sink")
	}
	if !fresh {
		sinks[key] = s
	}
	return s
}

// es cfg = (#op #index_format (#value ...) #time split [process_response]); the rows with gzip / two endpoints
// also carry the options that only change the URL or the headers of a request (ingest_pipeline, api_key,
// username + password): the bodies must not depend on them
func esConfig(it []hx.Sx, rw row, gzLevel string) *esout.Config {
	var vals []string
	for _, v := range hx.Items(it[2]) {
		vals = append(vals, hx.Str(v))
	}
	c := &esout.Config{
		Endpoints:   endpoints(rw.two),
		IndexFormat: hx.Str(it[1]),
		IndexValues: vals, // empty: Start() makes it ["@time"]
		BatchOpType: hx.Str(it[0]),
		TimeFormat:  hx.Str(it[3]),
		SplitBatch:  hx.Truth(it[4]),
		UseGzip:     rw.gzip, GzipCompressionLevel: gzLevel,
	}
	if rw.gzip {
		c.IngestPipeline, c.APIKey = "verif-pipeline", "verif-key"
	}
	if rw.two && !rw.gzip {
		c.Username, c.Password = "verif", "secret"
	}
	return c
}

func esProcessResponse(it []hx.Sx) bool { return len(it) < 6 || hx.Truth(it[5]) }

// after NewConfig (cfg.SetDefaultValues): the default of process_response (true) replaces a false, and the
// default of index_values replaces an empty list — by the ONE value "[@time]" (strings.Fields of the tag
// `default:"[@time]"`, brackets included: a configuration file without index_values gets the index name
// "not_set"; see notes/coverage/C19-triage.md). The case's empty list is what `index_values: []` in a
// configuration file gives: Start() makes it ["@time"].
func esConfigFix(c *esout.Config, it []hx.Sx) {
	c.ProcessResponse = esProcessResponse(it)
	if len(hx.Items(it[2])) == 0 {
		c.IndexValues = nil
	}
}

func httpConfig(it []hx.Sx, rw row, gzLevel string) *httpout.Config {
	c := &httpout.Config{
		Endpoints:  endpoints(rw.two),
		SplitBatch: hx.Truth(it[1]),
		UseGzip:    rw.gzip, GzipCompressionLevel: gzLevel,
	}
	if hx.Truth(it[0]) {
		c.Encoding = httpout.EncodingConfig{Type: "raw", Params: json.RawMessage(`{"field":"` + rawField + `"}`)}
	}
	if rw.gzip {
		c.APIKey = "verif-key"
	}
	if rw.two && !rw.gzip {
		c.Username, c.Password = "verif", "secret"
	}
	return c
}

// recording kafka producer
type recProducer struct{}

func (m *recProducer) ProduceSync(_ context.Context, rs ...*kgo.Record) kgo.ProduceResults {
	rec.mu.Lock()
	defer rec.mu.Unlock()
	st := rec.next()
	for _, r := range rs {
		topic := []byte(r.Topic)
		if r.Key != nil || len(r.Headers) > 0 || r.Partition != 0 {
			// out() never sets these on its reused records; one that shows up routes the record somewhere
			// else (partitioning by key) or adds data no event carries: reported as a topic no model has
			topic = append([]byte("!record-has-key-headers-or-partition!"), topic...)
		}
		rec.add(topic, -1)
		rec.add(r.Value, st)
	}
	if st >= 200 && st <= 202 {
		return nil
	}
	return kgo.ProduceResults{{Err: errors.New("scripted produce error")}}
}
func (m *recProducer) Close() {}

// gelf: a loopback TCP listener; every connection's bytes are collected; a scripted failure closes
// the listener-side connection before the write so that the plugin sees an error
var (
	gelfMu   sync.Mutex
	gelfData []byte
	gelfCond = sync.NewCond(&gelfMu)
)

// gelf cfg = () the defaults | (#host_field #short_message_field #default_short_message_value #full_message_field
// #timestamp_field_format #level_field): the options formatEvent reads (an oracle for the model)
func gelfConfig(cfg hx.Sx) *gelfout.Config {
	c := &gelfout.Config{}
	if it := hx.Items(cfg); len(it) == 6 {
		c.HostField, c.ShortMessageField, c.DefaultShortMessageValue = hx.Str(it[0]), hx.Str(it[1]), hx.Str(it[2])
		c.FullMessageField, c.TimestampFieldFormat, c.LevelField = hx.Str(it[3]), hx.Str(it[4]), hx.Str(it[5])
	}
	return c
}

// after NewConfig: an empty level_field would be replaced by the default
func gelfConfigFix(c *gelfout.Config, cfg hx.Sx) {
	if it := hx.Items(cfg); len(it) == 6 {
		c.HostField, c.ShortMessageField, c.DefaultShortMessageValue = hx.Str(it[0]), hx.Str(it[1]), hx.Str(it[2])
		c.FullMessageField, c.TimestampFieldFormat, c.LevelField = hx.Str(it[3]), hx.Str(it[4]), hx.Str(it[5])
	}
}

func gelfListener() net.Listener {
	ln, err := net.Listen("tcp", "127.0.0.1:0")
	if err != nil {
		panic(err)
	}
	go func() {
		for {
			c, err := ln.Accept()
			if err != nil {
				return
			}
			go func() {
				buf := make([]byte, 1<<16)
				for {
					n, err := c.Read(buf)
					gelfMu.Lock()
					gelfData = append(gelfData, buf[:n]...)
					gelfCond.Broadcast()
					gelfMu.Unlock()
					if err != nil {
						return
					}
				}
			}()
		}
	}()
	return ln
}

func gelfSink(name string, rw row, cfg hx.Sx) *sink {
	ln := gelfListener()
	c := gelfConfig(cfg)
	c.Endpoint, c.BatchSize, c.WorkersCount, c.ReconnectInterval = ln.Addr().String(), fdcfg.Expression(strconv.Itoa(rw.batch)), "1", "100h"
	test.NewConfig(c, map[string]int{"gomaxprocs": 1, "capacity": 64})
	gelfConfigFix(c, cfg)
	p := &gelfout.Plugin{}
	p.Start(c, params(name, rw.avg))
	if gelfPlugins[hx.String(cfg)] == nil {
		gelfPlugins[hx.String(cfg)] = p
	}
	wd := pipeline.WorkerData(nil)
	return &sink{stop: func() { p.Stop(); _ = ln.Close() }, out: func(b *pipeline.Batch) error {
		want := 0
		b.ForEach(func(*pipeline.Event) { want++ })
		gelfMu.Lock()
		gelfData = gelfData[:0]
		gelfMu.Unlock()
		err := p.VerifOut(&wd, b)
		// wait until the listener has seen one NUL per deliverable event (or 2 s)
		deadline := time.Now().Add(2 * time.Second)
		gelfMu.Lock()
		for bytes.Count(gelfData, []byte{0}) < want && time.Now().Before(deadline) {
			gelfMu.Unlock()
			time.Sleep(200 * time.Microsecond)
			gelfMu.Lock()
		}
		data := canonGelfNow(append([]byte(nil), gelfData...))
		gelfMu.Unlock()
		// fault injection: a scripted status other than 2xx stands for a TCP write that failed after
		// the payload was built; out() is then called again with the same batch, as the batcher does
		rec.mu.Lock()
		st := rec.next()
		rec.add(data, st)
		rec.mu.Unlock()
		if err == nil && (st < 200 || st > 202) {
			err = errors.New("injected write failure")
		}
		return err
	}}
}

var gelfPlugins = map[string]*gelfout.Plugin{} // per gelf cfg: the instance whose formatEvent is the oracle

func gelfOracle(enc []byte, cfg hx.Sx) []byte {
	if gelfPlugins[hx.String(cfg)] == nil {
		getSink(5, cfg)
	}
	gelfPlugin := gelfPlugins[hx.String(cfg)]
	root, err := insaneJSON.DecodeBytes(enc)
	if err != nil {
		return nil
	}
	defer insaneJSON.Release(root)
	e := &pipeline.Event{Root: root, Buf: make([]byte, 0, 64)}
	gelfPlugin.VerifFormatEvent(e)
	out, _ := e.Encode(nil)
	return canonGelfNow(out)
}

// ---------------------------------------------------------------------------------------------
// Exec
// ---------------------------------------------------------------------------------------------
func c19Exec(which int, cs hx.Sx) hx.Sx {
	switch which {
	case 7:
		var evs []*pipeline.Event
		for _, k := range hx.Items(cs) {
			e := &pipeline.Event{}
			e.VerifSetKind(int(hx.Int(k)))
			evs = append(evs, e)
		}
		pos := map[*pipeline.Event]int{}
		for i, e := range evs {
			pos[e] = i
		}
		var out []hx.Sx
		pipeline.NewPreparedBatch(evs).ForEach(func(e *pipeline.Event) { out = append(out, hx.I(pos[e])) })
		return hx.L(out...)
	case 8:
		s := hx.Bytes(cs)
		return hx.Bool(json.Valid(append(append([]byte{'"'}, s...), '"')))
	case 9:
		return hx.Bool(json.Valid(hx.Bytes(cs)))
	}
	it := hx.Items(cs)
	kind, _, fresh, dig := splitWhich(which)
	if kind == 6 && lokiMayRetry(it[2]) && !lokiNothingToStrip(it[1]) && os.Getenv(lokiChildEnv) == "" {
		return lokiInChild(which, cs)
	}
	if inChildVariant(which) && os.Getenv(lokiChildEnv) == "" {
		return lokiInChild(which, cs) // splunk-copy-alias: out() may never return (splunkcopy.go)
	}
	snk := getSink(which, it[0])
	if fresh {
		defer snk.stop()
	}
	rec.mu.Lock()
	rec.script = rec.script[:0]
	for _, s := range hx.Items(it[2]) {
		rec.script = append(rec.script, int(hx.Int(s)))
	}
	rec.dflt, rec.loki = 200, kind == 6
	if kind == 6 {
		rec.dflt = 204
	}
	rec.mu.Unlock()
	var atts []hx.Sx
	var roots []*insaneJSON.Root
	defer func() {
		for _, r := range roots {
			insaneJSON.Release(r)
		}
	}()
batches:
	for bi, b := range hx.Items(it[1]) {
		var evs []*pipeline.Event
		for _, e := range hx.Items(b) {
			f := hx.Items(e)
			root, err := insaneJSON.DecodeBytes(hx.Bytes(f[1]))
			if err != nil {
				panic("c19: event does not decode: " + err.Error())
			}
			roots = append(roots, root)
			if dig {
				// what an action plugin in front of the output does: look fields up, which builds the
				// map index of a root with more than 16 fields before the sink renames / removes fields
				_ = root.Dig("no-such-field")
				if fs := root.AsFields(); len(fs) > 0 {
					_ = root.Dig(fs[len(fs)/2].AsString())
				}
			}
			ev := &pipeline.Event{Root: root, Buf: make([]byte, 0, 256)}
			ev.VerifSetKind(int(hx.Int(f[0])))
			evs = append(evs, ev)
		}
		if snk.run != nil { // the plugin's own batcher makes the attempts
			var got []hx.Sx
			if p := hx.Catch(func() { got = snk.run(evs) }); p != "" {
				atts = append(atts, hx.L(hx.I(2)))
				break batches
			}
			atts = append(atts, got...)
			continue
		}
		batch := pipeline.NewPreparedBatch(evs)
		for try := 0; try < 3; try++ {
			rec.mu.Lock()
			rec.reqs = nil
			rec.mu.Unlock()
			var err error
			if p := hx.Catch(func() { err = snk.out(batch) }); p != "" {
				atts = append(atts, hx.L(hx.I(2)))
				break batches
			}
			rec.mu.Lock()
			reqs := rec.reqs
			rec.mu.Unlock()
			ret := 0
			if err != nil {
				ret = 1
			}
			atts = append(atts, hx.L(hx.I(0), hx.L(reqs...), hx.I(ret)))
			if err == nil {
				break
			}
		}
		if snk.wait > 0 && bi%2 == 1 {
			time.Sleep(snk.wait)
		}
	}
	return hx.L(atts...)
}

// ---------------------------------------------------------------------------------------------
// generation
// ---------------------------------------------------------------------------------------------
const hexd = "0123456789abcdef"

// a plain JSON string literal; bytes >= 0x80 pass through so that invalid UTF-8 can be produced
func jstr(s string) string {
	out := []byte{'"'}
	for i := 0; i < len(s); i++ {
		c := s[i]
		switch {
		case c == '"' || c == '\\':
			out = append(out, '\\', c)
		case c == '\n':
			out = append(out, '\\', 'n')
		case c == '\r':
			out = append(out, '\\', 'r')
		case c == '\t':
			out = append(out, '\\', 't')
		case c < 0x20:
			out = append(out, '\\', 'u', '0', '0', hexd[c>>4], hexd[c&15])
		default:
			out = append(out, c)
		}
	}
	return string(append(out, '"'))
}

func touch(n *insaneJSON.Node) {
	switch {
	case n == nil:
	case n.IsString():
		_ = n.AsString()
	case n.IsObject():
		for _, f := range n.AsFields() {
			touch(f.AsFieldValue())
		}
	case n.IsArray():
		for _, x := range n.AsArray() {
			touch(x)
		}
	}
}

// canon brings an event text to the fixpoint of decode / unescape-every-string / encode, so that
// the encoding does not depend on which fields a sink has looked at before encoding
func canon(src string) ([]byte, bool) {
	cur := []byte(src)
	for i := 0; i < 4; i++ {
		root, err := insaneJSON.DecodeBytes(cur)
		if err != nil {
			return nil, false
		}
		touch(root.Node)
		out := root.Encode(nil)
		insaneJSON.Release(root)
		if bytes.Equal(out, cur) {
			return cur, true
		}
		cur = out
	}
	return nil, false
}

// escape oracle: insane-json's own string escaper applied to v, without the quotes
func escOracle(v string) []byte {
	root := insaneJSON.Spawn()
	defer insaneJSON.Release(root)
	n := root.AddFieldNoAlloc(root, "x").MutateToString(v)
	out := n.AppendEscapedString(nil)
	if len(out) >= 2 {
		return append([]byte(nil), out[1:len(out)-1]...)
	}
	return nil
}

const (
	strAlphabet = "ab\"\\\n\r\t\x00\x1f<>&/%\xff\xc3\xa9 {}:,"
	mutAlphabet = "{}[]\",:\\ \n\x00\x1fau09-+.eEtfn\xff"
	insAlphabet = "{}[]\",:\\ \nu0"
)

type gen struct {
	c *hmain.Ctx
}

// mkEv builds the case form of an event for a sink; fields = the ES index values (nil otherwise)
func (g *gen) mkEv(kind int, enc []byte, fields []string, which int, rawHTTP bool) hx.Sx {
	return g.mkEvCfg(kind, enc, fields, which, rawHTTP, hx.L())
}

// baseSink: 0..6 for the sink behind a which (the variants and the via drive stripped)
func baseSink(which int) int {
	k := which % 16
	if k >= 10 {
		k -= 10
	}
	return k
}

// mkEvCfg: gelfCfg is the gelf configuration whose formatEvent is the oracle (only read for gelf)
func (g *gen) mkEvCfg(kind int, enc []byte, fields []string, which int, rawHTTP bool, gelfCfg hx.Sx) hx.Sx {
	w := g.c.W
	which = baseSink(which)
	root, err := insaneJSON.DecodeBytes(enc)
	if err != nil {
		panic("c19 gen: " + err.Error())
	}
	defer insaneJSON.Release(root)
	w.Oracle("enc_valid: Event.Encode output is one JSON document (encoding/json.Valid)", json.Valid(enc), string(enc))
	w.Oracle("enc_line_safe: Event.Encode output has no raw newline", bytes.IndexByte(enc, '\n') < 0, string(enc))
	var raws, escs []hx.Sx
	for _, f := range fields {
		if f == "@time" {
			raws = append(raws, hx.B(nil))
			escs = append(escs, hx.B(nil))
			continue
		}
		v := root.Dig(f).AsString()
		e := escOracle(v)
		w.Oracle("esc_safe: escaped index value is a JSON-string-safe fragment (encoding/json.Valid of it between quotes)",
			json.Valid(append(append([]byte{'"'}, e...), '"')) && bytes.IndexByte(e, '\n') < 0, fmt.Sprintf("%q -> %q", v, e))
		raws = append(raws, hx.S(v))
		escs = append(escs, hx.B(e))
	}
	topic := ""
	if which%16 == 3 {
		topic = root.Dig(topicField).AsString()
	}
	which %= 16 // the oracle values do not depend on the variant of the sink
	var alt hx.Sx = hx.I(0)
	switch {
	case which == 6:
		ts, msg, rest, bad, ok := lokiOracle(enc)
		if !ok {
			panic("c19 gen: loki oracle rejects " + string(enc))
		}
		w.Oracle("loki: the marshalled timestamp, line and rest of the event are JSON documents (encoding/json.Valid)",
			(len(ts) == 0 || json.Valid(ts)) && json.Valid(msg) && json.Valid(rest), string(enc))
		if bad {
			topic = "bad"
		}
		raws = []hx.Sx{hx.B(ts), hx.B(msg)}
		alt = hx.B(rest)
	case which == 2 && rawHTTP:
		if n := root.Dig(rawField); n != nil {
			alt = hx.B(n.Encode(nil))
		}
	case which == 5:
		a := gelfOracle(enc, gelfCfg)
		w.Oracle("gelf: the rewritten event is one JSON document without NUL", json.Valid(a) && bytes.IndexByte(a, 0) < 0, string(a))
		ok, detail := gelfTimestampRule(root, a)
		w.Oracle("gelf: a numeric time is divided by 1000 while above 1e12 (at most twice); below 1e9, beyond the float64 range, or not a number / date, it becomes the clock (second implementation of makeTimestampField)", ok, detail)
		alt = hx.B(a)
	}
	return hx.L(hx.I(kind), hx.B(enc), hx.L(raws...), hx.L(escs...), hx.S(topic), alt)
}

var nasty = []string{
	"a", "", "a\"b", "a\nb", "a\\b", "\\", "\"", "x\xffy", "\xc3", "<&>", "a\u2028b", "\x00", "\x1f", "a\",\"x\":\"b",
	"\r\n", "tab\there", "é", "日本", "%", "a\\u0041", "\\\"", "{\"k\":1}", "a/b", " ", "\x7f", "not_set",
}

func (g *gen) randStr() string {
	r := g.c.R
	switch r.Intn(5) {
	case 0:
		return hx.Pick(r, nasty)
	case 1:
		return hx.Pick(r, nasty) + hx.Pick(r, nasty)
	case 2:
		n := r.Intn(6)
		b := make([]byte, n)
		for i := range b {
			b[i] = strAlphabet[r.Intn(len(strAlphabet))]
		}
		return string(b)
	case 3:
		n := r.Intn(40)
		b := make([]byte, n)
		for i := range b {
			b[i] = byte('a' + r.Intn(26))
		}
		return string(b)
	}
	return "svc-" + string(rune('a'+r.Intn(4)))
}

func (g *gen) randVal() string {
	r := g.c.R
	switch r.Intn(12) {
	case 0:
		return hx.Pick(r, []string{"0", "-1", "12.5", "1e9", "-0.0"})
	case 1:
		return hx.Pick(r, []string{"true", "false", "null"})
	case 2:
		return hx.Pick(r, []string{"{}", "[]", `{"a":"b\"c"}`, `[1,"x\ny"]`})
	}
	return jstr(g.randStr())
}

// a random event text (canonical), mostly with the fields the sinks look at
func (g *gen) randEvent() []byte {
	r := g.c.R
	for {
		var fs []string
		for _, name := range []string{"svc", "lvl", topicField, rawField, "ts", "level", "host"} {
			if r.Chance(3, 5) {
				fs = append(fs, jstr(name)+":"+g.randVal())
			}
		}
		for k := r.Intn(3); k > 0; k-- {
			fs = append(fs, jstr(g.randStr())+":"+g.randVal())
		}
		for i := len(fs) - 1; i > 0; i-- {
			j := r.Intn(i + 1)
			fs[i], fs[j] = fs[j], fs[i]
		}
		if enc, ok := canon("{" + strings.Join(fs, ",") + "}"); ok {
			return enc
		}
		g.c.W.Count("event_not_canonical_skipped")
	}
}

var shapeSrc = []string{
	`{"svc":"a","message":"m0","topic":"t0"}`,
	`{"svc":"a\"b","message":"x\ny","topic":"t\"1"}`,
	`{"message":"no svc"}`,
	`{"svc":"","n":1}`,
	"{\"svc\":\"\xff<\",\"topic\":\"a\\nb\",\"message\":{\"k\":\"v\"}}",
}

type esCfg struct {
	op, format string
	vals       []string // empty: Start() makes it ["@time"]
	time       string
	split      bool
	noPR       bool // process_response off (the sixth element of the cfg; absent = on)
}

func (e esCfg) sx() hx.Sx {
	if e.noPR {
		return hx.L(hx.S(e.op), hx.S(e.format), hx.Ss(e.vals), hx.S(e.time), hx.Bool(e.split), hx.I(0))
	}
	return hx.L(hx.S(e.op), hx.S(e.format), hx.Ss(e.vals), hx.S(e.time), hx.Bool(e.split))
}

func scripts(alpha []int, maxLen int) [][]int {
	out := [][]int{nil}
	var rec func(cur []int)
	rec = func(cur []int) {
		if len(cur) == maxLen {
			return
		}
		for _, a := range alpha {
			n := append(cur[:len(cur):len(cur)], a)
			out = append(out, n)
			rec(n)
		}
	}
	rec(nil)
	return out
}

type sinkCfg struct {
	which  int
	cfg    hx.Sx
	fields []string
	raw    bool
}

func (sc sinkCfg) variant(rowIdx int, fresh, dig bool) sinkCfg {
	sc.which = mkWhich(sc.which%16, rowIdx, fresh, dig)
	return sc
}

func ints(xs []int) hx.Sx { return hx.List(xs, func(i int) hx.Sx { return hx.I(i) }) }

func c19Gen(c *hmain.Ctx) {
	g := &gen{c: c}
	r := c.R
	w := c.W

	var shapes [][]byte
	for _, s := range shapeSrc {
		enc, ok := canon(s)
		if !ok {
			panic("c19: shape is not canonical: " + s)
		}
		shapes = append(shapes, enc)
	}
	// the @time value is configured as time_format too: it must format to itself
	for _, t := range []string{"tt", "qq-ww"} {
		w.Oracle("time.Format of the chosen time_format is the string itself", time.Now().Format(t) == t, t)
	}

	es1 := esCfg{"index", "idx-%", []string{"svc"}, "tt", false, false}
	es2 := esCfg{"create", "%-x-%%", []string{"svc", "@time", "lvl"}, "qq-ww", false, false}
	es1s := esCfg{"index", "idx-%", []string{"svc"}, "tt", true, false}
	es3 := esCfg{"index", "plain", []string{"@time"}, "tt", true, false}
	es4 := esCfg{"index", "t-%", nil, "tt", false, true} // no index_values (Start(): ["@time"]), process_response off
	allSinks := []sinkCfg{
		{0, es1.sx(), es1.vals, false},
		{0, es2.sx(), es2.vals, false},
		{0, es1s.sx(), es1s.vals, false},
		{1, hx.L(), nil, false},
		{2, hx.L(hx.I(0), hx.I(0)), nil, false},
		{2, hx.L(hx.I(1), hx.I(0)), nil, true},
		{2, hx.L(hx.I(0), hx.I(1)), nil, false},
		{2, hx.L(hx.I(1), hx.I(1)), nil, true},
		{3, hx.L(hx.S("dflt"), hx.I(1), hx.I(4)), nil, false},
		{3, hx.L(hx.S("dflt"), hx.I(0), hx.I(4)), nil, false},
		{4, hx.L(), nil, false},
		{5, hx.L(), nil, false},
		{0, es4.sx(), nil, false},
	}
	names := []string{"es", "file", "http", "kafka", "splunk", "gelf"}

	// ---- 1. exhaustive small scope: every batch of <= 3 events over shapes x {regular, parent}
	//         (+ child for the first shape), for every sink configuration, all requests answered 200
	type opt struct {
		kind  int
		shape int
	}
	var opts []opt
	for s := range shapes {
		opts = append(opts, opt{0, s}, opt{2, s})
	}
	opts = append(opts, opt{1, 0})
	maxN := 3
	for _, sc := range allSinks {
		if sc.which == 5 && c.Tier != "thorough" {
			continue // gelf goes through a real TCP connection: sampled below
		}
		var recb func(cur []opt)
		recb = func(cur []opt) {
			var evs []hx.Sx
			nd := 0
			for _, o := range cur {
				evs = append(evs, g.mkEv(o.kind, shapes[o.shape], sc.fields, sc.which, sc.raw))
				if o.kind != 2 {
					nd++
				}
			}
			c.Do("exhaustive-"+names[sc.which], sc.which, hx.L(sc.cfg, hx.L(hx.L(evs...)), hx.L()), len(cur) >= 2 && nd >= 1)
			if len(cur) < maxN {
				for _, o := range opts {
					recb(append(cur[:len(cur):len(cur)], o))
				}
			}
		}
		recb(nil)
	}
	w.Count("exhaustive_batches_le_3_over_11_event_options_x_sink_configs")

	glap("exhaustive")
	// ---- 2. exhaustive split scripts: batches of <= 4 plain events x every script over {200,413,500}
	//         of length <= 4 (ES and http with split_batch)
	for _, sc := range []sinkCfg{{0, es3.sx(), es3.vals, false}, {2, hx.L(hx.I(0), hx.I(1)), nil, false}} {
		for n := 0; n <= 4; n++ {
			for _, parentAt := range []int{-1, 0, 1} {
				if parentAt >= n {
					continue
				}
				var evs []hx.Sx
				for i := 0; i < n; i++ {
					k := 0
					if i == parentAt {
						k = 2
					}
					enc, _ := canon(fmt.Sprintf(`{"i":%d}`, i))
					evs = append(evs, g.mkEv(k, enc, sc.fields, sc.which, false))
				}
				for _, s := range scripts([]int{200, 413, 500}, 4) {
					c.Do("exhaustive-split-"+names[sc.which], sc.which, hx.L(sc.cfg, hx.L(hx.L(evs...)), ints(s)), n >= 2 && len(s) >= 1)
				}
			}
		}
	}

	glap("exh-split")
	// ---- 3. random: several successive batches through the same worker data, random events with
	//         adversarial values, random scripts (413 / 5xx / 400), retries
	randCfg := func() sinkCfg {
		switch r.Intn(8) {
		case 0, 1, 2:
			e := esCfg{op: hx.Pick(r, []string{"index", "create"}), time: hx.Pick(r, []string{"tt", "qq-ww"}), split: r.Bool()}
			e.format, e.vals = hx.Pick(r, []string{"idx-%", "%", "a-%-%", "%%", "static"}), nil
			pool := []string{"svc", "lvl", "@time", topicField, rawField}
			for i := 0; i < strings.Count(e.format, "%")+r.Intn(2); i++ {
				e.vals = append(e.vals, hx.Pick(r, pool))
			}
			if len(e.vals) == 0 && r.Bool() {
				e.vals = []string{"@time"}
			}
			if len(e.vals) == 1 && strings.Count(e.format, "%") <= 1 && r.Chance(1, 6) {
				e.vals = nil // Start() makes it ["@time"]
			}
			e.noPR = r.Chance(1, 4)
			return sinkCfg{0, e.sx(), e.vals, false}
		case 3:
			return allSinks[3]
		case 4:
			raw := r.Bool()
			return sinkCfg{2, hx.L(hx.Bool(raw), hx.Bool(r.Bool())), nil, raw}
		case 5:
			return sinkCfg{3, hx.L(hx.S(hx.Pick(r, []string{"dflt", "d\"q"})), hx.Bool(r.Chance(3, 4)), hx.I(hx.Pick(r, []int{4, 8, 16}))), nil, false}
		case 6:
			return allSinks[10]
		}
		if r.Chance(1, 3) {
			return allSinks[11] // gelf (real TCP); its scripts are cut down to successes below
		}
		return allSinks[0]
	}
	randScript := func(n int) []int {
		var s []int
		for i := 0; i < n; i++ {
			switch r.Intn(10) {
			case 0, 1, 2, 3:
				s = append(s, 413)
			case 4:
				s = append(s, 500)
			case 5:
				if r.Chance(1, 4) {
					s = append(s, hx.Pick(r, []int{400, 503, 201, 202, 404, 199, 203, 204}))
				} else {
					s = append(s, 200)
				}
			default:
				s = append(s, 200)
			}
		}
		return s
	}
	for i := 0; i < 1500*c.Scale; i++ {
		sc := randCfg()
		nb := r.Range(1, 4)
		var bs []hx.Sx
		total := 0
		for j := 0; j < nb; j++ {
			n := r.Intn(9)
			if r.Chance(1, 10) {
				n = r.Range(9, 16)
			}
			var evs []hx.Sx
			for k := 0; k < n; k++ {
				kind := 0
				if r.Chance(1, 5) {
					kind = hx.Pick(r, []int{1, 2, 2})
				}
				evs = append(evs, g.mkEv(kind, g.randEvent(), sc.fields, sc.which, sc.raw))
			}
			total += n
			bs = append(bs, hx.L(evs...))
		}
		var s []int
		if r.Chance(2, 3) {
			s = randScript(r.Intn(12))
		}
		if sc.which == 5 {
			// a failed gelf write is the known finding C19-gelf-retry-reformat (stream retry-gelf)
			for k := range s {
				s[k] = 200 + s[k]%3
			}
		}
		s = g.kindify(sc, s, 1, 3) // 2xx answers with other bodies (coverage.go)
		c.Do("random-"+names[sc.which], sc.which, hx.L(sc.cfg, hx.L(bs...), ints(s)), total >= 2)
	}

	glap("random")
	// ---- 4. adversarial index / topic values one at a time (ES header, kafka topic)
	for _, v := range nasty {
		for _, v2 := range []string{"", "z", "\"", "\n"} {
			enc, ok := canon(`{"svc":` + jstr(v) + `,"lvl":` + jstr(v2) + `,"topic":` + jstr(v) + `,"message":` + jstr(v2+v) + `}`)
			if !ok {
				w.Count("adversarial_not_canonical_skipped")
				continue
			}
			for _, sc := range []sinkCfg{allSinks[0], allSinks[1], allSinks[2], allSinks[3], allSinks[5], allSinks[8], allSinks[10]} {
				e := g.mkEv(0, enc, sc.fields, sc.which, sc.raw)
				c.Do("adversarial-"+names[sc.which], sc.which, hx.L(sc.cfg, hx.L(hx.L(e, e), hx.L(e)), hx.L()), true)
			}
		}
	}

	glap("adversarial")
	// ---- 5. retry: the first attempt (and sometimes the second) fails, the payload of the next one
	//         must equal the model's
	for i := 0; i < 150*c.Scale; i++ {
		sc := hx.Pick(r, []sinkCfg{allSinks[0], allSinks[1], allSinks[4], allSinks[5], allSinks[8], allSinks[10], allSinks[10]})
		n := r.Range(1, 5)
		var evs []hx.Sx
		for k := 0; k < n; k++ {
			kind := 0
			if r.Chance(1, 6) {
				kind = 2
			}
			evs = append(evs, g.mkEv(kind, g.randEvent(), sc.fields, sc.which, sc.raw))
		}
		s := []int{hx.Pick(r, []int{500, 503, 404})}
		if _, rej := answerKinds(sc); len(rej) > 0 && r.Chance(1, 3) {
			s[0] = 1000*hx.Pick(r, rej) + 200 // a 2xx answer whose body the sink's reader rejects
		}
		if r.Chance(1, 3) {
			s = append(s, 500)
		}
		c.Do("retry-"+names[sc.which], sc.which, hx.L(sc.cfg, hx.L(hx.L(evs...), hx.L(evs...)), ints(s)), true)
	}

	glap("retry")
	// ---- 6. big split: up to 16 simple events, 413-heavy scripts (ES and http)
	for i := 0; i < 300*c.Scale; i++ {
		sc := hx.Pick(r, []sinkCfg{{0, es3.sx(), es3.vals, false}, {0, es1s.sx(), es1s.vals, false}, {2, hx.L(hx.I(0), hx.I(1)), nil, false}})
		n := r.Range(2, 16)
		var evs []hx.Sx
		for k := 0; k < n; k++ {
			kind := 0
			if r.Chance(1, 8) {
				kind = 2
			}
			enc, _ := canon(fmt.Sprintf(`{"i":%d,"svc":"s%d"}`, k, r.Intn(3)))
			evs = append(evs, g.mkEv(kind, enc, sc.fields, sc.which, false))
		}
		var s []int
		for j := r.Intn(2 * n); j > 0; j-- {
			if r.Chance(7, 10) {
				s = append(s, 413)
			} else if r.Chance(1, 8) {
				s = append(s, 500)
			} else {
				s = append(s, 200)
			}
		}
		c.Do("split-"+names[sc.which], sc.which, hx.L(sc.cfg, hx.L(hx.L(evs...)), ints(s)), true)
	}

	glap("split")
	// ---- 7. gelf sample (real TCP): a few batches, one scripted reconnect-free run
	gl := allSinks[11]
	for i := 0; i < 60*c.Scale; i++ {
		n := r.Range(0, 5)
		var evs []hx.Sx
		for k := 0; k < n; k++ {
			kind := 0
			if r.Chance(1, 5) {
				kind = 2
			}
			evs = append(evs, g.mkEv(kind, g.randEvent(), nil, 5, false))
		}
		c.Do("random-gelf", 5, hx.L(gl.cfg, hx.L(hx.L(evs...), hx.L(evs[:n/2]...)), hx.L()), n >= 2)
	}

	// ---- 7b. gelf retry: KNOWN FINDING (a batch offered again is formatted again). The stream is
	//          generated only once known_findings.json lists it, so that the check stays green until
	//          the coordinator has recorded the finding; the witness is kept in corpus/C19 as a comment
	if kf, err := os.ReadFile(filepath.Join(filepath.Dir(filepath.Dir(os.Args[0])), "known_findings.json")); err == nil &&
		bytes.Contains(kf, []byte("C19-gelf-retry-reformat")) {
		for i := 0; i < 20*c.Scale; i++ {
			n := r.Range(1, 3)
			var evs []hx.Sx
			for k := 0; k < n; k++ {
				evs = append(evs, g.mkEv(0, g.randEvent(), nil, 5, false))
			}
			c.Do("retry-gelf", 5, hx.L(gl.cfg, hx.L(hx.L(evs...)), ints([]int{500})), true)
		}
	}

	glap("gelf")
	// ---- 7b'. splunk copy_fields (envelope per event) and heterogeneous batches for every sink (splunkcopy.go)
	g.splunkCopyStreams()
	g.heteroStreams(allSinks, names)
	glap("splunk+hetero")
	// ---- 7b''. routing values (kafka topic, ES index) over histories on one fresh worker instance (routing.go)
	g.routingStreams(allSinks)
	glap("routing")

	// ---- 7c..: streams that cross the buffer / table / status thresholds (thresholds.go)
	g.thresholdStreams(allSinks, names, es3.sx(), es3.vals)

	glap("thresholds")
	// ---- 7d. behaviour no older stream reached: response bodies, the plugins through their public API,
	//          gelf options, the file sink restarted (coverage.go)
	g.coverageStreams(allSinks, names)
	// ---- 8. Batch.ForEach alone: every kind vector of length <= 5 over {0,1,2,3}
	var reck func(cur []int)
	reck = func(cur []int) {
		c.Do("exhaustive-foreach", 7, ints(cur), len(cur) >= 2)
		if len(cur) < 5 {
			for k := 0; k < 4; k++ {
				reck(append(cur[:len(cur):len(cur)], k))
			}
		}
	}
	reck(nil)

	// ---- 9. the Coq JSON recogniser against encoding/json.Valid
	alpha := []byte("{}[]\",:\\ au1-.e0t")
	maxLen := 4
	if c.Tier == "thorough" {
		maxLen = 5
	}
	var recj func(cur []byte)
	recj = func(cur []byte) {
		c.Do("exhaustive-jsonvalid", 9, hx.B(cur), len(cur) >= 2)
		if len(cur) < maxLen {
			for _, a := range alpha {
				recj(append(cur[:len(cur):len(cur)], a))
			}
		}
	}
	recj(nil)
	mutate := func(b []byte) []byte {
		b = append([]byte(nil), b...)
		for k := r.Intn(3); k > 0 && len(b) > 0; k-- {
			i := r.Intn(len(b))
			switch r.Intn(3) {
			case 0:
				b[i] = mutAlphabet[r.Intn(len(mutAlphabet))]
			case 1:
				b = append(b[:i], b[i+1:]...)
			default:
				b = append(b[:i], append([]byte{insAlphabet[r.Intn(len(insAlphabet))]}, b[i:]...)...)
			}
		}
		return b
	}
	docs := []string{`{"a":[1,2.5e-3,true,false,null,"x\u00e9\n"],"b":{}}`, `[]`, `"s"`, `-0.1E+2`, ` {"k" : "v"} `, `[[[]]]`, `{"a":{"b":{"c":[{}]}}}`, `0`, `tru`, `"\ud800"`}
	for i := 0; i < 2000*c.Scale; i++ {
		var b []byte
		if r.Bool() {
			b = mutate(g.randEvent())
		} else {
			b = mutate([]byte(hx.Pick(r, docs)))
		}
		c.Do("random-jsonvalid", 9, hx.B(b), true)
	}
	for i := 0; i < 2000*c.Scale; i++ {
		var s []byte
		if r.Bool() {
			s = []byte(g.randStr())
		} else {
			s = escOracle(g.randStr())
			if r.Chance(1, 3) {
				s = mutate(s)
			}
		}
		c.Do("random-strbody", 8, hx.B(s), true)
	}
	glap("foreach+json")
	strAlpha := []byte("a\"\\u0n\x1f")
	var recs func(cur []byte)
	recs = func(cur []byte) {
		c.Do("exhaustive-strbody", 8, hx.B(cur), len(cur) >= 2)
		if len(cur) < maxLen+1 {
			for _, a := range strAlpha {
				recs(append(cur[:len(cur):len(cur)], a))
			}
		}
	}
	recs(nil)
}

var tmpDirs []string

var glapT = time.Now()

// development aid: C19_TIMING=1 prints the wall time of every generator section
func glap(what string) {
	if os.Getenv("C19_TIMING") != "" {
		fmt.Fprintf(os.Stderr, "C19_TIMING main %-12s %v\n", what, time.Since(glapT))
	}
	glapT = time.Now()
}

func main() {
	defer func() {
		for _, d := range tmpDirs {
			_ = os.RemoveAll(d)
		}
	}()
	// the persistent plugin instances are stopped when the run is over (Stop() of every plugin: the batcher's
	// workers return)
	defer func() {
		if os.Getenv(lokiChildEnv) != "" {
			return
		}
		for _, k := range hx.SortedKeys(sinks) {
			if s := sinks[k]; s.stop != nil {
				_ = hx.Catch(s.stop)
			}
		}
	}()
	hmain.Run(&hmain.Prop{ID: "C19",
		Rule: "exhaustive: every batch of <= 3 events over 5 event shapes x {regular, parent} (+child) for 11 sink configurations; every 200/413/500 script of length <= 4 on batches of <= 4 events for ES/http split; every kind vector <= 5 for ForEach; every string <= 5 (6) over a JSON alphabet for the recogniser. Random: 1-4 successive batches of 0-16 random events (adversarial strings, non-string values) with random scripts, retries, 413-heavy splits. Threshold streams (thresholds.go): rows-* small AvgEventSize x batch_size rows incl. gzip / two endpoints on persistent instances, bigsmall-* payloads above and below the row's outBuf threshold alternating on one fresh instance (also the 65536-byte production row), bigbatch-* 17-40 events, status-edge-* 199..300, gelf-time values around 1e9 / 1e12, gelf-wide / wide-* 15-40 field roots with Dig before out(), rotate-file seal-up between writes, exhaustive-/random-/status-edge-loki through the plugin's own batcher. Splunk copy_fields (splunkcopy.go): exhaustive-splunk-copy every batch of <= 3 events over 6 shapes differing in which source fields they carry (+2 parents) x 8 configurations (nested / colliding / dropped targets, whole event), random-splunk-copy 18 configurations per run x 1-3 batches of 0-8 events with source fields present with probability 1/2 and of every JSON type x answers incl. retries, leak-splunk-copy carrier / bare alternation; hetero-<sink> full / bare / partial events alternating for every sink. Coverage round (coverage.go, via.go): resp-<sink> every script of length <= 2 over {200, 500, one answer per response-body kind the sink's reader accepts / rejects (+413 with split_batch)} on a batch of three (one parent) + a batch of one for ES with / without process_response and split_batch, http, splunk, and kinds mixed into the random / retry scripts; ES without index_values as 13th exhaustive configuration; exhaustive-via-<sink> every batch of <= 2 events over 2 shapes x {regular, parent} and random-via-<sink> 1-3 batches of 0-6 events (all-parent batches, retries, give-up into the dead queue, 400) through Factory / Start / Out of es, http (json, raw), splunk, file, gelf (reconnect every batch); timeout-via-<sink> one batch sealed by batch_flush_timeout per sink (child processes); gelf-cfg two other sets of gelf field options; restart-file the file sink stopped and started again between batches. Routing (routing.go, round 5): route-kafka every history of two batches of <= 2 events over 6 event options (topic, topic with quote / newline, no topic field, empty string, an object in the field, a parent) x use_topic_field on / off and every history of three one-event batches, route-kafka-random 2-5 batches of 0..batch_size events with the topic field present with probability 1/2 (small pool, nasty strings, other JSON types) and failed produce calls, route-es every history of two batches of <= 2 events over 5 options differing in the index value x two index formats, route-es-random 2-4 batches with retries / 413 — every case (route-es in the quick tier excepted) on a plugin instance of its own, so the worker's record slots and buffers hold exactly the history in the case. Non-trivial = at least 2 events and one deliverable (sinks), >= 2 symbols (recogniser); distinct = distinct (sub-model, case) text.",
		Gen:  c19Gen, Exec: c19Exec})
}
