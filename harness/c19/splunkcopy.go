package main

// Splunk copy_fields and heterogeneous batches (round 4).
//
// The splunk sink builds ONE envelope object per event: {"event":<event>} plus the fields the
// copy_fields option takes from THAT event. The model (coq/Model/Payload.v, envelope) is a function of
// the event's encoding, the values of its own source fields (oracle trees, objects exploded) and the
// configuration; the harness compares the request body of the real out() with the concatenation of
// the envelopes byte for byte. A per-batch envelope that is not reset between events (fields of an
// earlier event leaking into a later one that lacks the source field) cannot agree.
//
//	splunk cfg = (entry ...)     entry = (#from #to (#from_segment ...) ((#to_segment #literal) ...))
//	ev         = (kind #enc () () # 0 (copy ...))     copy = 0 | oval     oval = #raw | ((#key #literal oval) ...)
//
// The other sinks of this harness get batches that are heterogeneous on purpose (hetero-*): an event
// that carries every optional field a sink looks at is followed by one that has none of them.

import (
	"bytes"
	"encoding/json"
	"fmt"
	"strings"
	"sync"

	fdcfg "github.com/ozontech/file.d/cfg"
	splunkout "github.com/ozontech/file.d/plugin/output/splunk"
	insaneJSON "github.com/ozontech/insane-json"

	"verif/harness/hx"
)

// finding: MutateToNode shares the copied value's nodes with the event (see notes/finding-C19-splunk-copy-fields-alias.md)
const splunkAliasFinding = "C19-splunk-copy-fields-alias"

type cpEntry struct{ from, to string }

var oracleW *hx.Writer // set by splunkCopyStreams: configurations are built on the generator side only

func keyLiteral(k string) []byte {
	return append(append([]byte{'"'}, escOracle(k)...), '"')
}

// the case form of a copy_fields configuration; the parsed paths are cfg.ParseFieldSelector's
func splunkCfgSx(es []cpEntry) hx.Sx {
	var out []hx.Sx
	for _, e := range es {
		var to []hx.Sx
		for _, seg := range fdcfg.ParseFieldSelector(e.to) {
			lit := keyLiteral(seg)
			if oracleW != nil {
				oracleW.Oracle("esc_safe: the literal of a copy_fields target key is a JSON string (encoding/json.Valid) — hypothesis cp_lits_ok", json.Valid(lit), string(lit))
			}
			to = append(to, hx.L(hx.S(seg), hx.B(lit)))
		}
		out = append(out, hx.L(hx.S(e.from), hx.S(e.to), hx.Ss(fdcfg.ParseFieldSelector(e.from)), hx.L(to...)))
	}
	return hx.L(out...)
}

func splunkEntries(cfg hx.Sx) []cpEntry {
	var out []cpEntry
	for _, e := range hx.Items(cfg) {
		f := hx.Items(e)
		out = append(out, cpEntry{hx.Str(f[0]), hx.Str(f[1])})
	}
	return out
}

// what the sink is configured with (Exec side: from the case text alone)
func splunkCopyFields(cfg hx.Sx) []splunkout.CopyField {
	var out []splunkout.CopyField
	for _, e := range splunkEntries(cfg) {
		out = append(out, splunkout.CopyField{From: e.from, To: e.to})
	}
	return out
}

// Start()'s filter, on the text
func splunkKept(to string) bool {
	return !(to == "" || to == "event" || strings.HasPrefix(to, "event."))
}

// a configuration the model covers: every kept entry has a non-empty parsed target that does not
// start at the "event" key
func splunkCfgInModel(es []cpEntry) bool {
	for _, e := range es {
		if !splunkKept(e.to) {
			continue
		}
		p := fdcfg.ParseFieldSelector(e.to)
		if len(p) == 0 || p[0] == "event" {
			return false
		}
	}
	return true
}

// explode: objects become their fields, everything else its encoding
func explode(n *insaneJSON.Node) hx.Sx {
	if !n.IsObject() {
		return hx.B(n.Encode(nil))
	}
	var fs []hx.Sx
	for _, f := range n.AsFields() {
		v := explode(f.AsFieldValue()) // before AsString, which may rewrite an escaped key in place
		k := f.AsString()
		fs = append(fs, hx.L(hx.S(k), hx.B(keyLiteral(k)), v))
	}
	return hx.L(fs...)
}

// second implementation of the model's oenc, used to check the oracle trees against Node.Encode
func goOenc(v hx.Sx, out []byte) []byte {
	if hx.IsBytes(v) {
		return append(out, hx.Bytes(v)...)
	}
	out = append(out, '{')
	for i, f := range hx.Items(v) {
		if i > 0 {
			out = append(out, ',')
		}
		it := hx.Items(f)
		out = append(out, hx.Bytes(it[1])...)
		out = append(out, ':')
		out = goOenc(it[2], out)
	}
	return append(out, '}')
}

func treeValid(v hx.Sx) bool {
	if hx.IsBytes(v) {
		return json.Valid(hx.Bytes(v))
	}
	for _, f := range hx.Items(v) {
		it := hx.Items(f)
		if !json.Valid(hx.Bytes(it[1])) || !treeValid(it[2]) {
			return false
		}
	}
	return true
}

func nonEmptyContainer(n *insaneJSON.Node) bool {
	return (n.IsObject() && len(n.AsFields()) > 0) || (n.IsArray() && len(n.AsArray()) > 0)
}

// the copied value has a non-empty container as a direct child: MutateToNode re-parents that child to
// the envelope node, and Encode leaves the child into the wrong object (finding, clause 1)
func aliasDeep(n *insaneJSON.Node) bool {
	switch {
	case n.IsObject():
		for _, f := range n.AsFields() {
			if nonEmptyContainer(f.AsFieldValue()) {
				return true
			}
		}
	case n.IsArray():
		for _, x := range n.AsArray() {
			if nonEmptyContainer(x) {
				return true
			}
		}
	}
	return false
}

// mkSplunkEv builds the case form of an event for a splunk configuration. ok = the oracle trees are
// faithful (their encoding is Node.Encode's); alias = the event / configuration pair reaches the
// node-sharing finding (a copied value with a non-empty container child, or a later entry whose
// target path runs through an object copied by an earlier entry)
func (g *gen) mkSplunkEv(kind int, enc []byte, es []cpEntry) (ev hx.Sx, ok, alias bool) {
	w := g.c.W
	root, err := insaneJSON.DecodeBytes(enc)
	if err != nil {
		panic("c19 gen: " + err.Error())
	}
	defer insaneJSON.Release(root)
	w.Oracle("enc_valid: Event.Encode output is one JSON document (encoding/json.Valid)", json.Valid(enc), string(enc))
	ok = true
	var copies []hx.Sx
	holdsObj := map[string]bool{} // target path -> an object copied from the event sits there
	for _, e := range es {
		n := root.Dig(fdcfg.ParseFieldSelector(e.from)...)
		if n == nil {
			copies = append(copies, hx.I(0))
			continue
		}
		raw := n.Encode(nil)
		isObj := n.IsObject()
		deep := aliasDeep(n)
		t := explode(n)
		if !bytes.Equal(goOenc(t, nil), raw) {
			ok = false
		}
		w.Oracle("copy_wf: the leaves of a copied value are JSON documents and its key literals JSON strings (encoding/json.Valid) — hypothesis opt_wf of c19_splunk_envelope_valid",
			treeValid(t), string(raw))
		copies = append(copies, t)
		if !splunkKept(e.to) {
			continue
		}
		if deep {
			alias = true
		}
		p := fdcfg.ParseFieldSelector(e.to)
		for i := 1; i < len(p); i++ {
			pre := strings.Join(p[:i], "\x00")
			if holdsObj[pre] {
				alias = true
			}
			holdsObj[pre] = false // CreateNestedField keeps an object, resets anything else: a fresh node either way
		}
		full := strings.Join(p, "\x00")
		for k := range holdsObj {
			if strings.HasPrefix(k, full+"\x00") {
				delete(holdsObj, k)
			}
		}
		holdsObj[full] = isObj
	}
	return hx.L(hx.I(kind), hx.B(enc), hx.L(), hx.L(), hx.S(""), hx.I(0), hx.L(copies...)), ok, alias
}

// ---------------------------------------------------------------------------------------------
// generators
// ---------------------------------------------------------------------------------------------
var splunkFixedCfgs = [][]cpEntry{
	{{"ts", "time"}, {"service", "fields.service_name"}},                                                                      // the documented one
	{{"ts", "time"}, {"lvl", "time"}, {"service", "fields.a"}, {"lvl", "fields.b"}, {"k8s.pod", "fields.c.d"}},                // same target twice, shared parents
	{{"service", "x"}, {"ts", "x.y"}, {"lvl", "x.y.z"}},                                                                       // a later target below an earlier one
	{{"ts", "x.y"}, {"service", "x"}, {"lvl", "x.q"}},                                                                         // ... and above it
	{{"ts", "event"}, {"service", "event.z"}, {"lvl", ""}, {"ts", "."}, {"service", `q\.r`}, {"lvl", "ev\"t"}, {"ts", "é\n"}}, // dropped entries, odd keys
	{{"", "whole"}, {"ts", "time"}},                                                                                           // the whole event
	{{"k8s", "meta.k8s"}, {"k8s.pod", "pod"}, {"obj.in", "in"}, {"arr", "list"}, {"a\\.b", "ab"}, {"no.such", "never"}},
	{{"obj", "o"}, {"obj", "p"}, {"ts", "o2.t"}, {"arr", "o2.a"}, {"service", "time"}},
}

var (
	cpFroms = []string{"ts", "service", "lvl", "k8s.pod", "k8s", "obj", "obj.in", "arr", "", "no.such", `a\.b`, "ts", "service"}
	cpTos   = []string{"time", "fields.service_name", "fields.a", "fields.b", "x", "x.y", "x.y.z", "host", "source", "meta.k8s", "ev\"t", `q\.r`, ".", "event", "event.z", "", "é", "fields"}
)

func (g *gen) randSplunkCfg() []cpEntry {
	r := g.c.R
	for {
		var es []cpEntry
		for k := r.Range(1, 5); k > 0; k-- {
			es = append(es, cpEntry{hx.Pick(r, cpFroms), hx.Pick(r, cpTos)})
		}
		if splunkCfgInModel(es) {
			return es
		}
	}
}

// a value of a source field: strings (nasty), numbers, literals, empty and flat containers; deep =
// containers with a non-empty container inside (these reach the finding)
func (g *gen) copyVal(deep bool) string {
	r := g.c.R
	if deep {
		return hx.Pick(r, []string{`{"c":{"d":1}}`, `[1,[2,3]]`, `[{"k":"v"}]`, `{"a":[0],"b":2}`})
	}
	switch r.Intn(10) {
	case 0:
		return hx.Pick(r, []string{"0", "-1", "12.5", "1e9", "1723651045"})
	case 1:
		return hx.Pick(r, []string{"true", "false", "null"})
	case 2:
		return hx.Pick(r, []string{"{}", "[]", `{"a":"b\"c"}`, `[1,"x\ny"]`, `{"k":1,"e":{},"l":[]}`, `[[],{}]`})
	}
	return jstr(g.randStr())
}

// an event for the copy_fields streams; each source field is there with probability 1/2; flat = no
// non-empty container at the top level (the whole-event entry then stays clear of the finding)
func (g *gen) copyEvent(flat bool, deepNum, deepDen int) []byte {
	r := g.c.R
	for {
		var fs []string
		val := func() string {
			for {
				v := g.copyVal(r.Chance(deepNum, deepDen))
				if !flat || !(strings.HasPrefix(v, "{") || strings.HasPrefix(v, "[")) || v == "{}" || v == "[]" {
					return v
				}
			}
		}
		for _, name := range []string{"ts", "service", "lvl", "a.b", "msg"} {
			if r.Bool() {
				fs = append(fs, jstr(name)+":"+val())
			}
		}
		if !flat {
			if r.Bool() {
				k := []string{`"pod":` + val()}
				if r.Bool() {
					k = append(k, `"ns":`+jstr(g.randStr()))
				}
				fs = append(fs, `"k8s":{`+strings.Join(k, ",")+`}`)
			}
			if r.Bool() {
				fs = append(fs, `"obj":`+hx.Pick(r, []string{`{}`, `{"in":1}`, `{"in":"v","o":null}`, `{"in":` + val() + `}`}))
			}
			if r.Bool() {
				fs = append(fs, `"arr":`+hx.Pick(r, []string{`[]`, `[1,2]`, `["a\"b",null,{}]`, `[` + val() + `]`}))
			}
		}
		if r.Chance(1, 4) {
			fs = append(fs, jstr(g.randStr())+":"+val())
		}
		for i := len(fs) - 1; i > 0; i-- {
			j := r.Intn(i + 1)
			fs[i], fs[j] = fs[j], fs[i]
		}
		if enc, ok := canon("{" + strings.Join(fs, ",") + "}"); ok {
			return enc
		}
		g.c.W.Count("event_not_canonical_skipped")
	}
}

func cfgHasWhole(es []cpEntry) bool {
	for _, e := range es {
		if e.from == "" && splunkKept(e.to) {
			return true
		}
	}
	return false
}

// a case that reaches the node-sharing finding may never return from out() (the shared next-chain
// becomes a cycle), so it runs in a child process of this binary (variant bit vChild; a child that does
// not answer in time is the observation ((2)))
const vChild = 32

func splunkChildWhich() int { return mkWhich(4, 0, true, false) + 16*vChild }

func inChildVariant(which int) bool { return (which/16)&vChild != 0 }

// emitSplunk routes a case: clear of the finding -> stream; reaching it -> counted and left to the
// directed family splunk-copy-alias (S4), which exists once the finding is listed
func (g *gen) emitSplunk(stream string, which int, es []cpEntry, batches [][]hx.Sx, alias, ok bool, script []int, nontrivial bool) {
	c, w := g.c, g.c.W
	if !ok {
		w.Count("splunk_copy_oracle_tree_not_faithful_skipped")
		return
	}
	if alias {
		// the node-sharing defect (notes/finding-C19-splunk-copy-fields-alias.md) is repaired (fix 7e77f05): these
		// cases run like every other one
		w.Count("splunk_copy_cases_with_container_values_or_nested_targets")
	}
	c.Do(stream, which, splunkCase(es, batches, script), nontrivial)
}

func splunkCase(es []cpEntry, batches [][]hx.Sx, script []int) hx.Sx {
	var bs []hx.Sx
	for _, b := range batches {
		bs = append(bs, hx.L(b...))
	}
	return hx.L(splunkCfgSx(es), hx.L(bs...), ints(script))
}

// children eight at a time; their observations are kept for c19Exec (lokiInChild)
func childPrefetch(which int, cases []hx.Sx) {
	sem := make(chan struct{}, 8)
	var wg sync.WaitGroup
	for _, cs := range cases {
		cs := cs
		wg.Add(1)
		sem <- struct{}{}
		go func() {
			defer func() { <-sem; wg.Done() }()
			obs := lokiRunChild(which, cs)
			lokiChildMu.Lock()
			lokiChildCache[fmt.Sprintf("%d\t%s", which, hx.String(cs))] = obs
			lokiChildMu.Unlock()
		}()
	}
	wg.Wait()
}

func (g *gen) splunkCopyStreams() {
	c, r, w := g.c, g.c.R, g.c.W
	const S = 4
	oracleW = w
	for _, es := range splunkFixedCfgs {
		if !splunkCfgInModel(es) {
			panic(fmt.Sprintf("c19: fixed splunk configuration outside the model: %v", es))
		}
	}

	// ---- S1. exhaustive small scope: every batch of <= 3 events over 6 shapes that differ in WHICH source
	//          fields they carry (all / none / some, other types, nested sources) x {regular} + 2 parents,
	//          for every fixed configuration. A carrier followed by a bare event is in here for every
	//          configuration; the seed C19-r4-splunk-envelope-reused differs on every such batch.
	var shapes [][]byte
	for _, s := range []string{
		`{"msg":"first","ts":"1723651045","service":"svc-a","lvl":"info","k8s":{"pod":"p-1","ns":"n"},"obj":{"in":"v"},"arr":[1,"x"],"a.b":7}`,
		`{"msg":"second"}`,
		`{"msg":"third","service":"svc\"c\n","lvl":3}`,
		`{"ts":17,"service":{},"lvl":null,"k8s":{"pod":[]},"obj":{"in":{}},"arr":[]}`,
		`{"service":{"k":"v","n":1},"ts":"","obj":{},"k8s":{"ns":"only"}}`,
		"{\"lvl\":\"\xff<\",\"ts\":true,\"arr\":[null,false],\"a.b\":\"dot\"}",
	} {
		enc, ok := canon(s)
		if !ok {
			panic("c19: splunk shape is not canonical: " + s)
		}
		shapes = append(shapes, enc)
	}
	type opt struct{ kind, shape int }
	var opts []opt
	for s := range shapes {
		opts = append(opts, opt{0, s})
	}
	opts = append(opts, opt{2, 0}, opt{2, 1})
	for _, es := range splunkFixedCfgs {
		var recb func(cur []opt)
		recb = func(cur []opt) {
			var evs []hx.Sx
			nd := 0
			alias, ok := false, true
			for _, o := range cur {
				e, k, a := g.mkSplunkEv(o.kind, shapes[o.shape], es)
				evs = append(evs, e)
				ok = ok && k
				if o.kind != 2 {
					nd++
					alias = alias || a
				}
			}
			g.emitSplunk("exhaustive-splunk-copy", S, es, [][]hx.Sx{evs}, alias, ok, nil, len(cur) >= 2 && nd >= 1)
			if len(cur) < 3 {
				for _, o := range opts {
					recb(append(cur[:len(cur):len(cur)], o))
				}
			}
		}
		recb(nil)
	}
	glap("splunk-exh")

	// ---- S2. random: fixed and random configurations (a pool per run, persistent instances on the
	//          buffer-size rows incl. gzip), 1-3 successive batches of 0-8 events whose source fields are
	//          present with probability 1/2 and of every JSON type, random answers (400 dropped, 5xx
	//          offered again: the retried body must be the same envelopes)
	type pooled struct {
		es    []cpEntry
		which int
	}
	var pool []pooled
	splunkRows := []int{0, 0, 1, 2, 3, 4, 7}
	for _, es := range splunkFixedCfgs {
		pool = append(pool, pooled{es, mkWhich(S, hx.Pick(r, splunkRows), false, false)})
	}
	for i := 0; i < 10; i++ {
		pool = append(pool, pooled{g.randSplunkCfg(), mkWhich(S, hx.Pick(r, splunkRows), false, r.Chance(1, 4))})
	}
	randScript := func() []int {
		var s []int
		for k := r.Intn(4); k > 0; k-- {
			s = append(s, hx.Pick(r, []int{200, 200, 201, 500, 503, 400, 404, 202}))
		}
		return s
	}
	batchOf := func(es []cpEntry, n int, deepNum, deepDen int) (evs []hx.Sx, ok, alias bool) {
		ok = true
		flat := cfgHasWhole(es) && r.Chance(3, 4)
		for k := 0; k < n; k++ {
			kind := 0
			if r.Chance(1, 6) {
				kind = hx.Pick(r, []int{1, 2, 2})
			}
			e, k2, a := g.mkSplunkEv(kind, g.copyEvent(flat, deepNum, deepDen), es)
			evs = append(evs, e)
			ok = ok && k2
			if kind != 2 {
				alias = alias || a
			}
		}
		return
	}
	for i := 0; i < 900*c.Scale; i++ {
		p := hx.Pick(r, pool)
		var bs [][]hx.Sx
		total := 0
		alias, ok := false, true
		for j := r.Range(1, 3); j > 0; j-- {
			n := r.Intn(9)
			evs, k, a := batchOf(p.es, n, 0, 1)
			bs = append(bs, evs)
			total += n
			alias, ok = alias || a, ok && k
		}
		g.emitSplunk("random-splunk-copy", p.which, p.es, bs, alias, ok, randScript(), total >= 2)
	}
	glap("splunk-rand")

	// ---- S3. leak pattern, directed: carrier, bare, carrier', bare' (and its mirror), one batch, then the
	//          bare events alone; first answer fails in half of the cases (the batch is offered again)
	bare := func() []byte {
		enc, _ := canon(`{"msg":` + jstr(g.randStr()) + `}`)
		return enc
	}
	for i := 0; i < 300*c.Scale; i++ {
		p := hx.Pick(r, pool)
		flat := cfgHasWhole(p.es)
		encs := [][]byte{g.copyEvent(flat, 0, 1), bare(), g.copyEvent(flat, 0, 1), bare()}
		if r.Bool() {
			encs = [][]byte{encs[1], encs[0], encs[3], encs[2], bare()}
		}
		alias, ok := false, true
		var b1, b2 []hx.Sx
		for k, enc := range encs {
			e, k2, a := g.mkSplunkEv(0, enc, p.es)
			b1 = append(b1, e)
			if k%2 == 1 {
				b2 = append(b2, e)
			}
			alias, ok = alias || a, ok && k2
		}
		var s []int
		if r.Bool() {
			s = []int{hx.Pick(r, []int{500, 503, 404})}
		}
		g.emitSplunk("leak-splunk-copy", p.which, p.es, [][]hx.Sx{b1, b2}, alias, ok, s, true)
	}
	glap("splunk-leak")

	// ---- S4. the node-sharing finding (only once it is listed): copied values with a non-empty container
	//          inside, the whole event with nested objects, a target below a copied object, retries
	{ // always on since fix 7e77f05 (was: only once the finding is listed)
		var cases []hx.Sx
		for _, d := range []struct {
			es   []cpEntry
			evs  []string
			retr bool
		}{
			{[]cpEntry{{"a", "x"}}, []string{`{"a":{"c":{"d":1}},"b":1}`, `{"b":2}`}, false},
			{[]cpEntry{{"", "whole"}}, []string{`{"a":{"c":1},"b":1}`, `{"b":2}`}, true},
			{[]cpEntry{{"a", "x"}}, []string{`{"a":[1,[2,3],{"k":"v"}],"b":2}`}, false},
			{[]cpEntry{{"a", "x"}, {"b", "x.y"}}, []string{`{"a":1,"b":2}`, `{"a":{"k":1},"b":3}`}, true},
			{[]cpEntry{{"ts", "x.y"}, {"service", "x"}, {"lvl", "x.q"}}, []string{`{"ts":"t","service":{"k":1,"e":{},"l":[]},"lvl":"v"}`}, false},
			{[]cpEntry{{"service", "x"}, {"lvl", "x.q"}}, []string{`{"service":{"l":[]},"lvl":"v"}`}, false},
		} {
			alias, ok := false, true
			var evs []hx.Sx
			for _, src := range d.evs {
				enc, cok := canon(src)
				if !cok {
					panic("c19: alias witness is not canonical: " + src)
				}
				e, k2, a := g.mkSplunkEv(0, enc, d.es)
				evs = append(evs, e)
				alias, ok = alias || a, ok && k2
			}
			if !alias || !ok {
				panic("c19: alias witness does not reach the finding")
			}
			var s []int
			if d.retr {
				s = []int{500}
			}
			cases = append(cases, splunkCase(d.es, [][]hx.Sx{evs}, s))
		}
		for i := 0; i < 12*c.Scale; i++ {
			p := hx.Pick(r, pool)
			evs, ok, alias := batchOf(p.es, r.Range(1, 4), 1, 3)
			if !alias || !ok {
				w.Count("splunk_copy_alias_attempt_clear")
				continue
			}
			cases = append(cases, splunkCase(p.es, [][]hx.Sx{evs}, randScript()))
		}
		childPrefetch(splunkChildWhich(), cases)
		for _, cs := range cases {
			c.Do("splunk-copy-alias", splunkChildWhich(), cs, true)
		}
	}
	glap("splunk-alias")
}

// ---------------------------------------------------------------------------------------------
// heterogeneous batches for every sink: an event with every optional field a sink looks at (index
// values, topic, raw field, gelf's host / level / time / short_message, loki's timestamp and line)
// next to events that have none or some of them, in both orders, over two successive batches and with
// a failed first answer. A per-batch object or buffer that is reused without a reset between events
// (a stale index name, topic, label set, extra field) shows as a body that is not the model's.
// ---------------------------------------------------------------------------------------------
func (g *gen) heteroStreams(allSinks []sinkCfg, names []string) {
	c, r := g.c, g.c.R
	opt := []string{"svc", "lvl", topicField, rawField, "ts", "level", "host", "short_message", "time", "timestamp", "full_message", "extra"}
	mkEnc := func(mode int) []byte { // 0 full, 1 bare, 2 partial
		for {
			var fs []string
			for _, name := range opt {
				take := mode == 0 || (mode == 2 && r.Bool())
				if !take {
					continue
				}
				v := g.randVal()
				if name == "time" || name == "timestamp" {
					v = hx.Pick(r, []string{"1723651045", `"2024-08-14T15:57:25Z"`, "1723651045123", `"x"`, "12.5"})
				}
				fs = append(fs, jstr(name)+":"+v)
			}
			if mode == 1 || r.Bool() {
				fs = append(fs, `"k":`+jstr(g.randStr()))
			}
			for i := len(fs) - 1; i > 0; i-- {
				j := r.Intn(i + 1)
				fs[i], fs[j] = fs[j], fs[i]
			}
			if enc, ok := canon("{" + strings.Join(fs, ",") + "}"); ok {
				return enc
			}
			g.c.W.Count("event_not_canonical_skipped")
		}
	}
	sinksH := []sinkCfg{allSinks[0], allSinks[1], allSinks[2], allSinks[3], allSinks[4], allSinks[5], allSinks[7], allSinks[8], allSinks[9], allSinks[11]}
	for i := 0; i < 240*c.Scale; i++ {
		sc := hx.Pick(r, sinksH)
		kind := sc.which % 16
		modes := []int{0, 1, 0, 1, 2}
		if r.Bool() {
			modes = []int{1, 0, 2, 1, 0, 1}
		}
		if kind == 3 && len(modes) > 4 {
			modes = modes[:4] // kafka's batch_size
		}
		var b1, b2 []hx.Sx
		for k, m := range modes {
			evKind := 0
			if r.Chance(1, 8) {
				evKind = 2
			}
			e := g.mkEv(evKind, mkEnc(m), sc.fields, sc.which, sc.raw)
			b1 = append(b1, e)
			if k%2 == 1 {
				b2 = append(b2, e)
			}
		}
		var s []int
		if r.Bool() && kind != 5 { // a failed gelf write is the known finding C19-gelf-retry-reformat
			s = []int{hx.Pick(r, []int{500, 503})}
		}
		c.Do("hetero-"+names[kind], sc.which, hx.L(sc.cfg, hx.L(hx.L(b1...), hx.L(b2...)), ints(s)), true)
	}

	// loki: through the plugin's own batcher; answers 204 only (a repeated out() is the stream retry-loki)
	const L = 6
	plain := hx.L(hx.S(`{"app":"a\"b","env":"x\ny"}`))
	lokiEnc := func(mode int) []byte {
		for {
			var fs []string
			if mode == 0 || (mode == 2 && r.Bool()) {
				fs = append(fs, jstr(lokiTsField)+":"+hx.Pick(r, lokiTimesOK))
			}
			if mode == 0 || (mode == 2 && r.Bool()) {
				fs = append(fs, jstr(lokiMsgField)+":"+g.randVal())
			}
			if mode == 0 || r.Bool() {
				fs = append(fs, `"svc":`+g.randVal())
			}
			fs = append(fs, `"k":`+jstr(g.randStr()))
			for i := len(fs) - 1; i > 0; i-- {
				j := r.Intn(i + 1)
				fs[i], fs[j] = fs[j], fs[i]
			}
			enc, ok := canon("{" + strings.Join(fs, ",") + "}")
			if !ok {
				continue
			}
			if _, _, _, _, ok := lokiOracle(enc); ok {
				return enc
			}
		}
	}
	for i := 0; i < 30*c.Scale; i++ {
		modes := []int{0, 1, 0, 1, 2}
		if r.Bool() {
			modes = []int{1, 0, 2, 1, 0}
		}
		var b1, b2 []hx.Sx
		for k, m := range modes {
			e := g.mkEv(0, lokiEnc(m), nil, L, false)
			b1 = append(b1, e)
			if k%2 == 1 {
				b2 = append(b2, e)
			}
		}
		c.Do("hetero-loki", L, hx.L(plain, hx.L(hx.L(b1...), hx.L(b2...)), hx.L()), true)
	}
	glap("hetero")
}
