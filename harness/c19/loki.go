package main

// Loki output, driven through its PUBLIC API only (there is no verif_export file for it): Start with
// an httptest server as address, a recording controller and a recording dead-queue plugin, then
// Out(event) for every event of a batch. The plugin's own batcher forms the batch: batch_size is
// larger than any generated batch and batch_size_bytes is reached by the Size of the LAST event of
// the batch, so a batch is flushed exactly when its last event has been added. The retrying batcher
// (retry = 1: three calls of out()) makes the attempts; a batch is over when every event has been
// committed or handed to the dead queue.
//
//	attempt = one request seen by the server: (0 ((#body status)) ret), ret = 1 iff the batcher went on
//	          with the same batch afterwards (another request, or the dead queue);
//	          (0 () 0) when the batch was committed without any request (no deliverable event: the
//	          batcher does not call out(); a rejected timestamp: out() drops the batch)

import (
	"context"
	"encoding/json"
	"fmt"
	"os"
	"os/exec"
	"strconv"
	"strings"
	"sync"
	"time"

	fdcfg "github.com/ozontech/file.d/cfg"
	"github.com/ozontech/file.d/pipeline"
	lokiout "github.com/ozontech/file.d/plugin/output/loki"
	"github.com/ozontech/file.d/test"
	insaneJSON "github.com/ozontech/insane-json"

	"verif/harness/hx"
)

const (
	lokiTsField  = "ts"
	lokiMsgField = rawField
	lokiFlush    = 1000000 // batch_size_bytes; the Size given to the last event of a batch
)

type lokiLog struct {
	mu      sync.Mutex
	commits int
	fails   int
}

func (l *lokiLog) Commit(*pipeline.Event) { l.mu.Lock(); l.commits++; l.mu.Unlock() }
func (l *lokiLog) Error(string)           {}

// the dead queue: an output plugin that only counts
type lokiDead struct{ log *lokiLog }

func (d *lokiDead) Start(pipeline.AnyConfig, *pipeline.OutputPluginParams) {}
func (d *lokiDead) Stop()                                                  {}
func (d *lokiDead) Out(*pipeline.Event)                                    { d.log.mu.Lock(); d.log.fails++; d.log.mu.Unlock() }

// cfg = (#labels_json): the labels as a JSON object of strings (it is what json.Marshal writes for
// them, key-sorted: the generator builds it that way and the model splices it into the envelope)
func lokiSink(name string, cfg hx.Sx) *sink {
	var labels map[string]string
	if err := json.Unmarshal(hx.Bytes(hx.Items(cfg)[0]), &labels); err != nil {
		panic("c19: loki labels: " + err.Error())
	}
	ap, ac := lokiout.Factory()
	c := ac.(*lokiout.Config)
	*c = lokiout.Config{
		Address:        server(),
		MessageField:   lokiMsgField,
		TimestampField: lokiTsField,
		WorkersCount:   "1",
		BatchSize:      "1024", BatchSizeBytes: fdcfg.Expression(strconv.Itoa(lokiFlush)), BatchFlushTimeout: "100h",
		Retention: "1ms", Retry: 1,
	}
	// the authorisation options only add request headers (the body must not depend on them): spread over
	// the configurations by the length of the labels text
	switch len(hx.Bytes(hx.Items(cfg)[0])) % 4 {
	case 1:
		c.Auth = lokiout.AuthConfig{Strategy: "tenant", TenantID: "verif-tenant"}
	case 2:
		c.Auth = lokiout.AuthConfig{Strategy: "basic", Username: "verif", Password: "secret"}
	case 3:
		c.Auth = lokiout.AuthConfig{Strategy: "bearer", BearerToken: "verif-token"}
	}
	for _, k := range hx.SortedKeys(labels) {
		c.Labels = append(c.Labels, lokiout.Label{Label: k, Value: labels[k]})
	}
	test.NewConfig(c, map[string]int{"gomaxprocs": 1, "capacity": 64})
	log := &lokiLog{}
	pr := params(name, rows[0].avg)
	pr.Controller = log
	pr.Router.SetDeadQueueOutput(&pipeline.OutputPluginInfo{
		PluginStaticInfo:  &pipeline.PluginStaticInfo{Type: "verif-dead"},
		PluginRuntimeInfo: &pipeline.PluginRuntimeInfo{Plugin: &lokiDead{log: log}, ID: "verif-dead"},
	})
	p := ap.(*lokiout.Plugin)
	p.Start(c, pr)
	return &sink{stop: p.Stop, run: func(evs []*pipeline.Event) []hx.Sx {
		if len(evs) == 0 {
			return []hx.Sx{hx.L(hx.I(0), hx.L(), hx.I(0))}
		}
		rec.mu.Lock()
		rec.reqs = nil
		rec.mu.Unlock()
		log.mu.Lock()
		log.commits, log.fails = 0, 0
		log.mu.Unlock()
		for i, e := range evs {
			e.Size = 0
			if i == len(evs)-1 {
				e.Size = lokiFlush
			}
			p.Out(e)
		}
		deadline := time.Now().Add(20 * time.Second)
		fails := 0
		for {
			log.mu.Lock()
			done := log.commits+log.fails >= len(evs)
			fails = log.fails
			log.mu.Unlock()
			if done {
				break
			}
			if time.Now().After(deadline) {
				return []hx.Sx{hx.L(hx.I(1), hx.I(77))} // the batch never came back
			}
			time.Sleep(50 * time.Microsecond)
		}
		rec.mu.Lock()
		reqs := rec.reqs
		rec.reqs = nil
		rec.mu.Unlock()
		if len(reqs) == 0 {
			ret := 0
			if fails > 0 {
				ret = 1
			}
			return []hx.Sx{hx.L(hx.I(0), hx.L(), hx.I(ret))}
		}
		var atts []hx.Sx
		for i, rq := range reqs {
			ret := 0
			if i < len(reqs)-1 || fails > 0 {
				ret = 1
			}
			atts = append(atts, hx.L(hx.I(0), hx.L(rq), hx.I(ret)))
		}
		return atts
	}}
}

// ---- oracle values of an event for the loki model ------------------------------------------------
// ts / line: Dig(field).AsString() as json.Marshal writes a Go string; rest: the event after both
// fields were removed (Suicide), as json.Marshal writes a json.RawMessage (compacted, <>& escaped)
func lokiOracle(enc []byte) (ts, msg, rest []byte, bad bool, ok bool) {
	root, err := insaneJSON.DecodeBytes(enc)
	if err != nil {
		return nil, nil, nil, false, false
	}
	defer insaneJSON.Release(root)
	tsNode := root.Dig(lokiTsField)
	tsv := tsNode.AsString()
	tsNode.Suicide()
	msgNode := root.Dig(lokiMsgField)
	msgv := msgNode.AsString()
	msgNode.Suicide()
	rest, err = json.Marshal(json.RawMessage(root.EncodeToString()))
	if err != nil {
		return nil, nil, nil, false, false
	}
	msg, _ = json.Marshal(msgv)
	if tsv != "" {
		ts, _ = json.Marshal(tsv)
		// isUnixNanoFormat: a decimal int64 strictly after the epoch and before now
		nano, err := strconv.ParseInt(tsv, 10, 64)
		bad = err != nil || nano <= 0 || nano >= time.Now().UnixNano()
		if err == nil && nano > 0 {
			// keep clear of the clock so that a replay judges the value the same way
			d := time.Now().UnixNano() - nano
			if d > -int64(48*time.Hour) && d < int64(48*time.Hour) {
				return nil, nil, nil, false, false
			}
		}
	}
	return ts, msg, rest, bad, true
}

// ---- a batch that loki's batcher offers again -----------------------------------------------------
// FINDING C19-loki-retry-strips-fields: the second out() works on event trees the first one has
// damaged and either dereferences nil or never returns, in the batcher's worker goroutine, where no
// recover of the harness reaches it. Such a case therefore runs in a child process (the same binary
// with -replay) that is killed after lokiChildTimeout; a child that does not deliver an observation
// is reported as ((2)), the panic marker.
const (
	lokiChildEnv     = "C19_LOKI_CHILD"
	lokiChildTimeout = 1500 * time.Millisecond
)

// any answer but 204 (success) and 400 (dropped) makes out() return an error
func lokiMayRetry(script hx.Sx) bool {
	for _, s := range hx.Items(script) {
		if st := hx.Int(s); st != 204 && st != 400 {
			return true
		}
	}
	return false
}

// a batch whose events have neither the timestamp nor the message field is left alone by send()
// (nothing to remove), so offering it again is harmless and can run in this process
func lokiNothingToStrip(batches hx.Sx) bool {
	for _, b := range hx.Items(batches) {
		for _, e := range hx.Items(b) {
			root, err := insaneJSON.DecodeBytes(hx.Bytes(hx.Items(e)[1]))
			if err != nil {
				return false
			}
			has := root.Dig(lokiTsField) != nil || root.Dig(lokiMsgField) != nil
			insaneJSON.Release(root)
			if has {
				return false
			}
		}
	}
	return true
}

var (
	lokiChildMu    sync.Mutex
	lokiChildCache = map[string]hx.Sx{}
)

// runs the children of the given cases eight at a time and keeps their observations for lokiInChild
func lokiPrefetch(which int, cases []hx.Sx) {
	sem := make(chan struct{}, 8)
	var wg sync.WaitGroup
	for _, cs := range cases {
		cs := cs
		if !lokiMayRetry(hx.Items(cs)[2]) {
			continue
		}
		wg.Add(1)
		sem <- struct{}{}
		go func() {
			defer func() { <-sem; wg.Done() }()
			obs := lokiRunChild(which, cs)
			lokiChildMu.Lock()
			lokiChildCache[fmt.Sprintf("%d\t%s", which, hx.String(cs))] = obs
			lokiChildMu.Unlock()
		}()
	}
	wg.Wait()
}

func lokiInChild(which int, cs hx.Sx) hx.Sx {
	key := fmt.Sprintf("%d\t%s", which, hx.String(cs))
	lokiChildMu.Lock()
	obs, ok := lokiChildCache[key]
	delete(lokiChildCache, key)
	lokiChildMu.Unlock()
	if ok {
		return obs
	}
	return lokiRunChild(which, cs)
}

func lokiRunChild(which int, cs hx.Sx) hx.Sx {
	exe, err := os.Executable()
	if err != nil {
		panic(err)
	}
	ctx, cancel := context.WithTimeout(context.Background(), lokiChildTimeout)
	defer cancel()
	cmd := exec.CommandContext(ctx, exe, "-replay", fmt.Sprintf("child\t%d\t%s", which, hx.String(cs)))
	cmd.Env = append(os.Environ(), lokiChildEnv+"=1")
	out, err := cmd.Output()
	if err == nil {
		lines := strings.Split(strings.TrimRight(string(out), "\n"), "\n")
		if parts := strings.Split(lines[len(lines)-1], "\t"); len(parts) == 4 && parts[0] == "child" {
			if obs, perr := hx.Parse(parts[3]); perr == nil {
				return obs
			}
		}
	}
	return hx.L(hx.L(hx.I(2)))
}
