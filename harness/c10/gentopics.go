package main

// Generators about the TOPICS LIST itself (which = 2 and 4; the consumer-group harness has its own family in
// gengroup.go, streams group-topics-directed / group-topics).
//
// Start fills idByTopic from the positions of config.Topics (the LAST position of a name that is listed more than
// once), the consumer packs that index into the source id, Commit reads config.Topics[index]: the index <-> name
// resolution is a function of the list. The other streams use lists of one to four mostly different names; here the
// list is the subject:
//
//	stream            which  what
//	commit-topics       2    EXHAUSTIVE small scope: every list of 1..4 positions (thorough: 1..5) over the three names
//	                         a / ab / b — all repeats, all orders, a name that is a prefix of another —, one record per
//	                         partition 0 and 1 of every listed name, every record consumed through the real pconsumer.consume
//	                         and acknowledged through the real Commit, in two different orders. The model judges, per
//	                         Commit call, that every head kgo shows sits under the topic NAME and partition of a record
//	                         acknowledged by then (acks_pred), besides comparing the whole trace of marks
//	commit-topics-random 2   random lists of 2..8 positions over seven names (prefixes, near misses), partitions up to
//	                         65535, partial acknowledgement: a mark may only exist for what WAS acknowledged
//	session-topics      4    the same kind of lists through the real splitConsume.Assigned / pconsumer goroutines
//	                         (the map of consumers is keyed by name, the consumer's topicID comes from idByTopic)

import (
	"verif/harness/hmain"
	"verif/harness/hx"
)

var c10TopicPool = []string{"a", "ab", "a.b", "a-b", "b", "logs", "log"}

// the lists over `names` with exactly n positions
func c10Lists(names []string, n int) [][]string {
	if n == 0 {
		return [][]string{nil}
	}
	var out [][]string
	for _, l := range c10Lists(names, n-1) {
		for _, t := range names {
			out = append(out, append(append([]string(nil), l...), t))
		}
	}
	return out
}

// the index of the first position of every distinct name, in list order
func c10FirstPositions(topics []string) []int {
	var out []int
	for i, t := range topics {
		first := true
		for _, u := range topics[:i] {
			first = first && u != t
		}
		if first {
			out = append(out, i)
		}
	}
	return out
}

func c10GenTopicLists(c *hmain.Ctx) {
	r := c.R

	// ---- commit-topics: exhaustive over small lists ------------------------------------------------
	maxLen := 4
	if c.Scale > 1 {
		maxLen = 5
	}
	small := []string{"a", "ab", "b"}
	nlist := 0
	for n := 1; n <= maxLen; n++ {
		for _, topics := range c10Lists(small, n) {
			firsts := c10FirstPositions(topics)
			var recs []hx.Sx
			for k, ti := range firsts {
				for p := 0; p < 2; p++ {
					// offsets and epochs differ from log to log: a head under another name cannot pass for a record of that name
					recs = append(recs, hx.L(hx.I(ti), hx.I(p), hx.Z(int64(100*(2*k+p)+nlist%7)), hx.I(k+1)))
				}
			}
			// half of the cases name a LATER position of a repeated name in the record (the case format resolves it
			// to the same name): nothing may depend on which position the case names
			if nlist%2 == 1 {
				for i, rec := range recs {
					it := hx.Items(rec)
					name := topics[int(hx.Int(it[0]))]
					for j := len(topics) - 1; j >= 0; j-- {
						if topics[j] == name {
							recs[i] = hx.L(hx.I(j), it[1], it[2], it[3])
							break
						}
					}
				}
			}
			m := len(recs)
			var order []hx.Sx
			for k := 0; k < m; k++ {
				order = append(order, hx.I((k*5+nlist)%m)) // m is 2, 4 or 6: 5 is coprime, a permutation
			}
			if nlist%3 == 0 {
				order = order[:m/2] // only half is acknowledged: the other half must stay without a mark
			}
			nlist++
			c.W.Count("topics_lists_exhaustive_over_a_ab_b")
			c.Do("commit-topics", 2, hx.L(hx.Ss(topics), hx.L(recs...), hx.L(order...)), len(topics) > 1)
		}
	}

	// ---- commit-topics-random ------------------------------------------------------------------------
	for i := 0; i < 300*c.Scale; i++ {
		topics := c10RandomTopicList(r, 2, 8)
		firsts := c10FirstPositions(topics)
		var recs []hx.Sx
		for k, ti := range firsts {
			for j := r.Range(1, 2); j > 0; j-- {
				part := int64(r.Intn(3))
				if r.Chance(1, 3) {
					part = int64(r.U64() >> uint(64-1-r.Intn(16)))
				}
				off := int64(1000*(k+1)) + int64(r.Intn(500))
				for n := r.Range(1, 3); n > 0; n-- {
					recs = append(recs, hx.L(hx.I(ti), hx.Z(part), hx.Z(off), hx.I(k)))
					off += int64(1 + r.Intn(3))
				}
			}
		}
		var order []hx.Sx
		for k := range recs {
			if r.Chance(2, 3) {
				order = append(order, hx.I(k))
			}
		}
		for k := len(order) - 1; k > 0; k-- {
			j := r.Intn(k + 1)
			order[k], order[j] = order[j], order[k]
		}
		if len(firsts) < len(topics) {
			c.W.Count("topics_random_list_with_repeat")
		}
		c.Do("commit-topics-random", 2, hx.L(hx.Ss(topics), hx.L(recs...), hx.L(order...)), len(order) >= 2)
	}

	// ---- session-topics ---------------------------------------------------------------------------------
	lists := [][]string{{"a", "a", "logs"}, {"a", "logs", "a", "b"}, {"logs", "a", "a"}, {"a", "ab", "a.b"}, {"ab", "a", "a", "a-b", "a"},
		{"b", "a", "logs"}, {"logs", "b", "a"}}
	for i := 0; i < 25*c.Scale; i++ {
		lists = append(lists, c10RandomTopicList(r, 2, 6))
	}
	for li, topics := range lists {
		if c10Stuck >= 3 {
			c.W.Count("session_generation_stopped_after_3_stuck_sessions")
			break
		}
		s := newC10Script(c, topics)
		var logs []*c10Log
		for k, ti := range c10FirstPositions(topics) {
			for p := 0; p < 1+(li+k)%2; p++ {
				logs = append(logs, &c10Log{ti: ti, part: int64(p), off: int64(1000*(k+1) + 100*p), e: int64(k)})
			}
		}
		s.assign(logs...)
		n := 0
		for round := 0; round < 2; round++ {
			for _, l := range logs {
				k := 1 + (li+round)%3
				s.fetch(l, k)
				n += k
			}
		}
		// a partition is lost and assigned again: its consumer is built anew from idByTopic
		s.lost(logs[0])
		s.assign(logs[0])
		s.fetch(logs[0], 2)
		n += 2
		ks := make([]int, 0, n)
		for k := 0; k < n; k++ {
			if (k+li)%4 != 0 { // some events stay unacknowledged
				ks = append(ks, (k*7+li)%n)
			}
		}
		s.run("session-topics", ks)
	}
}

// 2..max positions over the pool: every chosen name at least once, repeats likely, shuffled
func c10RandomTopicList(r *hx.Rng, min, max int) []string {
	k := r.Range(2, 4) // distinct names
	var ns []string
	for len(ns) < k {
		n := c10TopicPool[r.Intn(len(c10TopicPool))]
		dup := false
		for _, t := range ns {
			dup = dup || t == n
		}
		if !dup {
			ns = append(ns, n)
		}
	}
	l := append([]string(nil), ns...)
	for len(l) < min {
		l = append(l, ns[r.Intn(len(ns))])
	}
	for j := r.Intn(max - len(l) + 1); j > 0; j-- {
		l = append(l, ns[r.Intn(len(ns))])
	}
	for i := len(l) - 1; i > 0; i-- {
		j := r.Intn(i + 1)
		l[i], l[j] = l[j], l[i]
	}
	return l
}
