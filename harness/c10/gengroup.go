package main

// Generators for which=5 (group.go): the real plugin in a consumer group on the in-process broker.
//
//	stream           what it reaches that no other stream does
//	group-directed   hand-made lifetimes: every balancer and both offset settings of NewClient (client.go:31-48), Start with
//	                 and without meta templates (kafka.go:277-283), Stop with a successful and with a refused commit
//	                 (kafka.go:319-324), the poll loop and its routing closure (consumer.go:77-106) with PollRecords
//	                 limits 1 / 2 / 256, restart after a commit of a LATER offset (the frontier hazard seen from Kafka),
//	                 restart after a crash, an eager rebalance that discards marks, a cooperative one that keeps them,
//	                 the real pipeline in front of Commit (mode 1) with records Pipeline.In refuses
//	group            random lifetimes over all of the above
//	group-meta-strict  (only when the finding C10-kafka-meta-cache-key is listed) the meta data handed to In must name
//	                 the record's own partition and offset
//	group-topics-directed / group-topics   the topics LIST itself: a name listed twice or three times with OTHER names
//	                 behind the repeat ([a a logs], [a logs a b] — idByTopic keeps the last position of a name, Commit
//	                 reads config.Topics at that position: both must see the list as it was configured), every
//	                 permutation of a three-name list, names that are prefixes of one another (a / ab / a.b / a-b);
//	                 every record of every topic is acknowledged one by one so that each Commit shows in kgo's marks and,
//	                 after the tick / Stop, in the broker's committed offsets WHICH topic and partition it landed on

import (
	"bytes"
	"os"
	"path/filepath"
	"strconv"

	"verif/harness/hmain"
	"verif/harness/hx"
)

const c10MetaFinding = "C10-kafka-meta-cache-key"

// a family that shows a genuine, not yet recorded defect is emitted only once the coordinator has listed the
// proposed finding id in /verif/known_findings.json
func c10KnownListed(id string) bool {
	if os.Getenv("C10_ASSUME_LISTED") != "" { // development aid
		return true
	}
	exe, _ := os.Executable()
	kf, err := os.ReadFile(filepath.Join(filepath.Dir(filepath.Dir(exe)), "known_findings.json"))
	return err == nil && bytes.Contains(kf, []byte(id))
}

type c10GBuild struct {
	topics []string
	nps    []int
	cfg    [11]int // offset balancer meta bufferSize maxConc kip320 maxPerFetch mode maxEventSize fetchErrEvery antispam
	init   []hx.Sx
	phases []hx.Sx
	ops    []hx.Sx
}

func c10Rec3(off, epoch int64, kind int) hx.Sx { return hx.L(hx.Z(off), hx.Z(epoch), hx.I(kind)) }
func c10GrFetch(ti, part int, recs ...hx.Sx) hx.Sx {
	return hx.L(append([]hx.Sx{hx.I(ti), hx.I(part)}, recs...)...)
}
func (b *c10GBuild) produce(fs ...hx.Sx) {
	b.ops = append(b.ops, hx.L(append([]hx.Sx{hx.I(0)}, fs...)...))
}
func (b *c10GBuild) commit(ks ...int) {
	v := []hx.Sx{hx.I(1)}
	for _, k := range ks {
		v = append(v, hx.I(k))
	}
	b.ops = append(b.ops, hx.L(v...))
}
func (b *c10GBuild) tick()      { b.ops = append(b.ops, hx.L(hx.I(2))) }
func (b *c10GBuild) rebalance() { b.ops = append(b.ops, hx.L(hx.I(3))) }
func (b *c10GBuild) end(e int) {
	b.phases = append(b.phases, hx.L(hx.L(b.ops...), hx.I(e)))
	b.ops = nil
}
func (b *c10GBuild) sx() hx.Sx {
	var nps, cf []hx.Sx
	for _, n := range b.nps {
		nps = append(nps, hx.I(n))
	}
	for _, v := range b.cfg {
		cf = append(cf, hx.I(v))
	}
	return hx.L(hx.Ss(b.topics), hx.L(nps...), hx.L(cf...), hx.L(b.init...), hx.L(b.phases...))
}

func c10GenGroup(c *hmain.Ctx) {
	r := c.R
	var lastObs hx.Sx
	// a case that gets stuck costs up to 20 s of waiting; a regression that makes every session hang must not turn the
	// check into hours: after 3 stuck cases (the check is red by then) the rest of the group streams is left out
	stuck := 0
	do := func(stream string, b *c10GBuild, nontrivial bool) {
		if stuck >= 3 {
			c.W.Count("group_cases_left_out_after_3_stuck")
			return
		}
		defer func() {
			if st := hx.Items(lastObs); len(st) > 0 && hx.Int(st[0]) == 3 {
				stuck++
			}
		}()
		c.W.Count("group_mode=" + strconv.Itoa(b.cfg[7]))
		c.W.Count("group_balancer=" + c10Balancers[b.cfg[1]])
		c.W.Count("group_offset_oldest=" + strconv.Itoa(b.cfg[0]))
		lastObs = c.Do(stream, 5, b.sx(), nontrivial)
	}

	// ---- directed ---------------------------------------------------------------------------
	base := func(cfg [11]int) *c10GBuild {
		b := &c10GBuild{topics: []string{"a", "logs"}, nps: []int{2, 1}, cfg: cfg}
		b.init = []hx.Sx{
			c10GrFetch(0, 0, c10Rec3(0, 0, 0), c10Rec3(1, 0, 0), c10Rec3(3, 1, 0), c10Rec3(4, 1, 0)),
			c10GrFetch(0, 1, c10Rec3(5, 2, 0)),
			c10GrFetch(1, 0, c10Rec3(7, 0, 0), c10Rec3(8, 0, 0), c10Rec3(9, 0, 0)),
		}
		return b
	}
	for bal := 0; bal < 5; bal++ {
		for oldest := 0; oldest < 2; oldest++ {
			for _, buf := range []int{1, 256} {
				if oldest == 0 && buf == 1 && bal%2 == 1 {
					continue // a member that starts at the end needs ~40 ms per lifetime: fewer of those
				}
				// a later offset is committed before an earlier one; Stop commits it; the restart starts behind it
				b := base([11]int{oldest, bal, bal % 2, buf, 1 + bal, bal % 2, buf % 2, 0, 0, []int{0, 2, 3}[(bal+oldest)%3], 0})
				b.produce(c10GrFetch(0, 0, c10Rec3(6, 1, 0), c10Rec3(7, 2, 0)), c10GrFetch(1, 0, c10Rec3(12, 0, 0)))
				b.commit(3, 1)
				b.tick()
				b.commit(0)
				b.end(0)
				b.commit(0, 1)
				b.end(1) // the second lifetime crashes: its marks never reach Kafka
				b.produce(c10GrFetch(0, 1, c10Rec3(6, 2, 0)))
				b.commit(-1)
				b.end(0)
				b.end(0)
				do("group-directed", b, true)
			}
		}
	}
	for bal := 0; bal < 5; bal++ {
		// a rebalance between marking and committing: an eager member loses its marks and is handed the records again
		b := base([11]int{1, bal, 0, 2, 5, 1, 0, 0, 0, 0, 0})
		b.commit(1, 6)
		b.rebalance()
		b.commit(0)
		b.tick()
		b.rebalance()
		b.commit(2)
		b.end(0)
		b.end(0)
		do("group-directed", b, true)
	}
	for _, buf := range []int{1, 3, 256} {
		for kip := 0; kip < 2; kip++ {
			// the real pipeline between In and Commit; records In refuses (empty, not JSON, too long) are never committed
			b := base([11]int{1, kip, 1, buf, 5, kip, kip, 1, 64, 2 * kip, kip})
			b.init = append(b.init, c10GrFetch(0, 0, c10Rec3(5, 1, 1), c10Rec3(6, 1, 2), c10Rec3(8, 1, 3), c10Rec3(9, 1, 0), c10Rec3(10, 1, 2)),
				c10GrFetch(1, 0, c10Rec3(10, 0, 1)))
			b.tick()
			b.produce(c10GrFetch(0, 1, c10Rec3(6, 2, 3), c10Rec3(7, 3, 0), c10Rec3(8, 3, 1)))
			b.end(kip)
			b.produce(c10GrFetch(0, 0, c10Rec3(11, 1, 0)))
			b.rebalance()
			b.end(0)
			b.end(0)
			do("group-directed", b, true)
		}
	}

	// ---- the topics list: repeats, permutations, prefixes (directed) -----------------------------
	// every partition gets records of its own (distinct offsets and epochs per topic, so that a mark that lands under
	// another name cannot coincide with a record of that name); lifetime 1 acknowledges every delivered record one by
	// one, ticks, acknowledges again, Stop commits; lifetime 2 starts from what Kafka holds
	topicLists := [][]string{
		{"a", "a", "logs"}, {"a", "logs", "a", "b"}, {"logs", "a", "a"}, {"a", "a", "a", "b", "b", "logs"},
		{"a", "b", "logs"}, {"a", "logs", "b"}, {"b", "a", "logs"}, {"b", "logs", "a"}, {"logs", "a", "b"}, {"logs", "b", "a"},
		{"a", "ab", "a.b"}, {"a.b", "a", "ab"}, {"ab", "a", "a", "a-b", "a"},
	}
	for li, tl := range topicLists {
		for mode := 0; mode < 2; mode++ {
			if mode == 1 && li%3 != 0 {
				continue // the real pipeline in front of Commit: every third list
			}
			bal := li % 5
			b := &c10GBuild{topics: tl, cfg: [11]int{1, bal, (li + mode) % 2, []int{1, 2, 256}[li%3], 1 + li%5, li % 2, li % 3, mode, 0, 0, 0}}
			npOf := map[string]int{}
			for _, t := range tl {
				if npOf[t] == 0 {
					npOf[t] = 1 + len(npOf)%2 + (li+len(npOf))%2
				}
			}
			first := map[string]bool{}
			n := 0
			for ti, t := range tl {
				b.nps = append(b.nps, npOf[t])
				if first[t] {
					continue
				}
				first[t] = true
				for p := 0; p < npOf[t]; p++ {
					// offsets of different (topic, partition) logs never meet: base 100 * (index of the log)
					base := int64(100 * (len(first)*3 + p))
					b.init = append(b.init, c10GrFetch(ti, p, c10Rec3(base, int64(ti), 0), c10Rec3(base+1, int64(ti), 0), c10Rec3(base+3, int64(ti)+1, 0)))
					n += 3
				}
			}
			ks := make([]int, n)
			for k := range ks {
				ks[k] = (k*7 + li) % n // a permutation of 0..n-1 when 7 does not divide n; repeats otherwise
			}
			b.commit(ks...)
			b.tick()
			b.produce(c10GrFetch(len(tl)-1, 0, c10Rec3(9000, 7, 0)), c10GrFetch(0, 0, c10Rec3(9100, 8, 0)))
			b.commit(ks[:n/2]...)
			b.commit(n, n+1, 0)
			b.end(0)
			b.commit(0, 1)
			b.end(0)
			c.W.Count("group_topics_list_directed")
			do("group-topics-directed", b, true)
		}
	}

	// ---- random ------------------------------------------------------------------------------
	names := []string{"a", "b", "logs", "a.b-c_d", "topic-with-a-long-name-0123456789"}
	// topic lists for the stream group-topics: 2..5 positions over a small pool of names that are prefixes / near
	// misses of one another, so that repeats (with other names behind them) are the rule
	pool := []string{"a", "ab", "a.b", "a-b", "b", "logs", "log"}
	listWithRepeats := func(b *c10GBuild) {
		k := r.Range(2, 3) // distinct names
		var ns []string
		for len(ns) < k {
			n := pool[r.Intn(len(pool))]
			dup := false
			for _, t := range ns {
				dup = dup || t == n
			}
			if !dup {
				ns = append(ns, n)
			}
		}
		np := map[string]int{}
		for _, n := range ns {
			np[n] = r.Range(1, 3)
		}
		// every name at least once, then up to three more positions, shuffled
		l := append([]string(nil), ns...)
		for j := r.Range(0, 3); j > 0; j-- {
			l = append(l, ns[r.Intn(len(ns))])
		}
		for i := len(l) - 1; i > 0; i-- {
			j := r.Intn(i + 1)
			l[i], l[j] = l[j], l[i]
		}
		// would the list still resolve when somebody compacted it in place (dropped repeats, kept the slice)? the last
		// position of a name must then still hold that name — the lists where it does not are the ones that tell
		shifted := false
		var compact []string
		for _, t := range l {
			dup := false
			for _, u := range compact {
				dup = dup || u == t
			}
			if !dup {
				compact = append(compact, t)
			}
		}
		for j, t := range l {
			last := true
			for _, u := range l[j+1:] {
				last = last && u != t
			}
			if last && j < len(compact) && compact[j] != t {
				shifted = true
			}
		}
		if shifted {
			c.W.Count("group_topics_repeat_with_other_name_behind")
		}
		if len(l) == len(ns) {
			c.W.Count("group_topics_permutation_without_repeat")
		}
		for _, t := range l {
			b.topics = append(b.topics, t)
			b.nps = append(b.nps, np[t])
		}
	}
	gen := func(stream string, meta int) {
		b := &c10GBuild{}
		if stream == "group-topics" {
			listWithRepeats(b)
		} else {
			nt := r.Range(1, 3)
			for len(b.topics) < nt {
				n := names[r.Intn(len(names))] + strconv.Itoa(r.Intn(2))
				dup := false
				for _, t := range b.topics {
					dup = dup || t == n
				}
				if !dup {
					b.topics = append(b.topics, n)
					b.nps = append(b.nps, r.Range(1, 3))
				}
			}
			if r.Chance(1, 10) { // a name listed twice: idByTopic keeps the last index
				b.topics = append(b.topics, b.topics[0])
				b.nps = append(b.nps, b.nps[0])
				c.W.Count("group_duplicate_topic_name")
			}
		}
		mode := 0
		if r.Chance(1, 3) {
			mode = 1
		}
		maxSize := 0
		if mode == 1 && r.Chance(1, 2) {
			maxSize = 32 + r.Intn(64)
		}
		oldest := 1
		if r.Chance(1, 4) {
			oldest = 0
		}
		b.cfg = [11]int{oldest, r.Intn(5), meta, []int{1, 2, 3, 256}[r.Intn(4)], []int{1, 2, 5}[r.Intn(3)], r.Intn(2), []int{0, 0, 1, 2}[r.Intn(4)], mode, maxSize, []int{0, 0, 0, 2, 3, 5}[r.Intn(6)], mode * []int{0, 1, 2, 50}[r.Intn(4)]}
		// the logs
		type plog struct {
			ti, part int
			off, e   int64
		}
		var logs []*plog
		for ti := range b.topics {
			first := ti
			for j := 0; j < ti; j++ {
				if b.topics[j] == b.topics[ti] {
					first = j
				}
			}
			if first != ti {
				continue
			}
			for p := 0; p < b.nps[ti]; p++ {
				l := &plog{ti: ti, part: p, off: int64(r.Intn(5)), e: int64(r.Intn(3))}
				if r.Chance(1, 4) {
					l.off = int64(r.U64() >> uint(64-1-r.Intn(46)))
				}
				if r.Chance(1, 8) {
					l.e = 65535 - int64(r.Intn(3))
				}
				logs = append(logs, l)
			}
		}
		total := 0
		fetch := func() hx.Sx {
			l := logs[r.Intn(len(logs))]
			var recs []hx.Sx
			for k := r.Range(1, 4); k > 0; k-- {
				kind := 0
				if r.Chance(1, 4) {
					kind = r.Range(1, 3)
					if kind == 3 && maxSize == 0 {
						kind = 1
					}
				}
				recs = append(recs, c10Rec3(l.off, l.e, kind))
				total++
				l.off += int64(1 + r.Intn(3))
				if r.Chance(1, 5) && l.e < 65535 {
					l.e++
				}
			}
			return c10GrFetch(l.ti, l.part, recs...)
		}
		for k := r.Intn(4); k > 0; k-- {
			b.init = append(b.init, fetch())
		}
		acts := 0
		for ph := r.Range(1, 3); ph > 0; ph-- {
			for k := r.Intn(6); k > 0 && total < 40; k-- {
				switch x := r.Intn(16); {
				case x < 5:
					var fs []hx.Sx
					for j := r.Range(1, 2); j > 0; j-- {
						fs = append(fs, fetch())
					}
					b.produce(fs...)
				case x < 11:
					var ks []int
					for j := r.Range(1, 4); j > 0; j-- {
						ks = append(ks, r.Intn(64))
					}
					b.commit(ks...)
					acts++
				case x < 14:
					b.tick()
					acts++
				default:
					b.rebalance()
					c.W.Count("group_rebalance")
				}
			}
			e := 0
			if r.Chance(1, 4) {
				e = 1
			}
			b.end(e)
		}
		do(stream, b, acts > 0 && len(b.phases) > 1)
	}
	for i := 0; i < 120*c.Scale; i++ {
		gen("group", r.Intn(2))
	}
	for i := 0; i < 30*c.Scale; i++ {
		gen("group-topics", r.Intn(2))
	}
	if c10KnownListed(c10MetaFinding) {
		for i := 0; i < 20*c.Scale; i++ {
			gen("group-meta-strict", 2)
		}
	}

	// ---- mode 2: a discarding action in front of an output that acknowledges late ------------------------------
	// fetches of 2..6 records of one partition, about every second record is discarded by the action (kind 4), often the
	// last ones of the fetch (a tail of discarded records behind records that still wait for the output); commit ticks
	// between the fetches, restarts after Stop and after a refused final commit: kgo's marks and the offsets the broker
	// stores must belong to records the output acknowledged (no head of a record that was only discarded)
	genDiscard := func() {
		b := &c10GBuild{topics: []string{"a", "logs"}, nps: []int{r.Range(1, 3), r.Range(1, 2)}}
		if r.Chance(1, 3) {
			b.topics, b.nps = b.topics[:1], b.nps[:1]
		}
		b.cfg = [11]int{1, r.Intn(5), 0, []int{1, 2, 3, 256}[r.Intn(4)], []int{1, 2, 5}[r.Intn(3)], r.Intn(2), []int{0, 0, 1, 2}[r.Intn(4)], 2, 0, 0, 0}
		type plog struct {
			ti, part int
			off, e   int64
		}
		var logs []*plog
		for ti := range b.topics {
			for p := 0; p < b.nps[ti]; p++ {
				logs = append(logs, &plog{ti: ti, part: p, off: int64(r.Intn(5)), e: int64(r.Intn(3))})
			}
		}
		total, discards := 0, 0
		fetch := func() hx.Sx {
			l := logs[r.Intn(len(logs))]
			var recs []hx.Sx
			n := r.Range(2, 6)
			tail := r.Intn(3) // so many records at the end of the fetch are discarded
			for k := 0; k < n; k++ {
				kind := 0
				if k >= n-tail || r.Chance(1, 3) {
					kind = 4
					discards++
				}
				recs = append(recs, c10Rec3(l.off, l.e, kind))
				total++
				l.off += int64(1 + r.Intn(2))
				if r.Chance(1, 6) && l.e < 65535 {
					l.e++
				}
			}
			return c10GrFetch(l.ti, l.part, recs...)
		}
		for k := r.Intn(3); k > 0; k-- {
			b.init = append(b.init, fetch())
		}
		ticks := 0
		for ph := r.Range(1, 3); ph > 0; ph-- {
			for k := r.Range(1, 5); k > 0 && total < 40; k-- {
				if r.Chance(3, 5) {
					b.produce(fetch())
				} else {
					b.tick()
					ticks++
				}
			}
			e := 0
			if r.Chance(1, 4) {
				e = 1
			}
			b.end(e)
		}
		c.W.Count("group_discard_records=" + strconv.Itoa(min(discards, 8)/4*4) + "+")
		do("group-discard", b, discards > 0 && total > discards)
	}
	for i := 0; i < 40*c.Scale; i++ {
		genDiscard()
	}
}
