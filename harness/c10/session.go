package main

// C10, which=4 — a consumer-group SESSION on the real splitConsume / pconsumer of
// /repo/plugin/input/kafka/consumer.go (threshold audit item 37):
//
//   - the real splitConsume.Assigned creates the per-partition consumers (channel capacity
//     maxConcurrentConsumers = 5, consumer.go:45) and starts the real pconsumer.consume goroutines;
//   - SEVERAL fetches go to ONE pconsumer instance (VerifC10Consume, which=2, builds a new pconsumer with a
//     one-slot channel for every fetch), more of them than the channel holds, and fetches of more records than
//     bufferSize = 256;
//   - the real splitConsume.Lost stops consumers while fetches are still buffered in their channel
//     (consumer.go:57-75 and the select of consumer.go:126-131), and the partition is assigned again afterwards;
//   - the events that reached In are committed through the real Plugin.Commit on the real kgo client.
//
// How the unexported types are reached without a new export file in /repo (which is read-only for this
// generator): the exported interface kafka.Consumer is implemented by *splitConsume; its type is read off the
// field Plugin.s with reflect, a value is built with reflect.New and its fields are filled the way Plugin.Start
// fills them (kafka.go:289-298; idByTopic is the map the export VerifC10NewPlugin built with Start's loop).
// Assigned and Lost are then called through the PUBLIC interface. What stays IMITATED here is the six-line
// closure of splitConsume.consume (consumer.go:95-103) that routes a polled fetch to `consumer.fetches` or drops
// it with "consumer not ready yet": consume itself calls PollRecords on a concrete *kgo.Client and cannot be fed
// scripted fetches without a Kafka broker. c10Sess.dispatch is that closure; it is part of the trusted harness.
//
//	case = ((topic ...) (op ...) (k ...))
//	  op (0 (ti part) ...)                     Assigned({topic: [part ...]})
//	     (1 ti part (off epoch) ...)           one polled fetch for (topic, part), routed like consumer.go:95-103
//	     (2 (ti part) ...)                     wait until everything routed so far reached In, then Lost(...)
//	     (3 ((ti part) ...) ((ti part (off epoch) ...) ...))
//	                                           Lost with buffered fetches: wait for quiescence, make In block, route the
//	                                           fetches (first record of every partition's first fetch is now inside In,
//	                                           the other fetches sit in the channels), call Lost concurrently, wait until
//	                                           it has closed the quit channels, let In return, wait for Lost to return
//	  at the end: quiescence, Lost(everything still assigned); then Commit of the k-th delivered event (k mod n)
//	obs  = ((c ...) ((sid (packed ...)) ...) status (marks-after-each-commit ...))
//	  c: per op 3 and per partition it lost, the number of its gated fetches that were delivered in full
//	     (Go's select picks between the closed quit and the non-empty channel at random, so any c in 1..k is
//	     legal; -1 = the delivery stopped inside a fetch); groups sorted by sid; status as for which=2,
//	     3 = the session got stuck (a wait of 5 s expired)

import (
	"context"
	"reflect"
	"runtime"
	"sort"
	"sync"
	"time"
	"unsafe"

	"github.com/ozontech/file.d/decoder"
	"github.com/ozontech/file.d/pipeline"
	"github.com/ozontech/file.d/pipeline/metadata"
	kafka "github.com/ozontech/file.d/plugin/input/kafka"
	"github.com/twmb/franz-go/pkg/kgo"
	"go.uber.org/zap"

	"verif/harness/hx"
)

// ---- controller whose In can be made to block ------------------------------------------------
type c10Gate struct {
	mu    sync.Mutex
	evs   map[pipeline.SourceID][]int64
	total int
	gate  chan struct{} // non-nil: In blocks after recording
}

func (c *c10Gate) In(id pipeline.SourceID, _ string, o pipeline.Offsets, _ []byte, _ bool, _ metadata.MetaData) uint64 {
	c.mu.Lock()
	c.evs[id] = append(c.evs[id], o.VerifC10Current())
	c.total++
	g := c.gate
	c.mu.Unlock()
	if g != nil {
		<-g
	}
	return 1
}
func (c *c10Gate) UseSpread()                        {}
func (c *c10Gate) DisableStreams()                   {}
func (c *c10Gate) SuggestDecoder(decoder.Type)       {}
func (c *c10Gate) IncReadOps()                       {}
func (c *c10Gate) IncMaxEventSizeExceeded(...string) {}

func (c *c10Gate) count() int {
	c.mu.Lock()
	defer c.mu.Unlock()
	return c.total
}
func (c *c10Gate) countOf(id pipeline.SourceID) int {
	c.mu.Lock()
	defer c.mu.Unlock()
	return len(c.evs[id])
}
func (c *c10Gate) shut() {
	c.mu.Lock()
	c.gate = make(chan struct{})
	c.mu.Unlock()
}
func (c *c10Gate) open() {
	c.mu.Lock()
	if c.gate != nil {
		close(c.gate)
		c.gate = nil
	}
	c.mu.Unlock()
}

// ---- reflection helpers ----------------------------------------------------------------------
// a settable view of the (unexported) field `name` of the addressable struct v
func c10Field(v reflect.Value, name string) reflect.Value {
	f := v.FieldByName(name)
	if !f.IsValid() {
		panic("c10 session: " + v.Type().String() + " has no field " + name + " (consumer.go changed: adapt harness/c10/session.go)")
	}
	return reflect.NewAt(f.Type(), unsafe.Pointer(f.UnsafeAddr())).Elem()
}

type c10TP struct {
	topic string
	part  int32
}

type c10Sess struct {
	sc       reflect.Value // *splitConsume
	cons     kafka.Consumer
	ctl      *c10Gate
	idBy     map[string]int
	live     map[c10TP]bool
	want     int // records routed to a live consumer and not given up by a gated Lost
	stuck    bool
	panicked string // Assigned / Lost panicked (e.g. Lost of a partition that has no consumer: nil dereference)
	maxBuf   int
}

const c10Wait = 5 * time.Second

func c10NewSess(pl *kafka.VerifC10Plugin) *c10Sess {
	s := &c10Sess{ctl: &c10Gate{evs: map[pipeline.SourceID][]int64{}}, live: map[c10TP]bool{}}
	plug := reflect.ValueOf(pl.P).Elem()
	s.idBy = c10Field(plug, "idByTopic").Interface().(map[string]int)
	sf, ok := plug.Type().FieldByName("s")
	if !ok || sf.Type.Kind() != reflect.Ptr {
		panic("c10 session: Plugin.s is not a pointer field any more")
	}
	s.sc = reflect.New(sf.Type.Elem())
	e := s.sc.Elem()
	// as in Plugin.Start (kafka.go:289-298) with the defaults of the config (channel_buffer_size 256, max_concurrent_consumers 5)
	c10Field(e, "consumers").Set(reflect.MakeMap(c10Field(e, "consumers").Type()))
	c10Field(e, "bufferSize").SetInt(256)
	c10Field(e, "maxConcurrentConsumers").SetInt(5)
	c10Field(e, "idByTopic").Set(reflect.ValueOf(s.idBy))
	c10Field(e, "controller").Set(reflect.ValueOf(s.ctl))
	c10Field(e, "logger").Set(reflect.ValueOf(zap.NewNop()))
	s.cons = s.sc.Interface().(kafka.Consumer)
	return s
}

func (s *c10Sess) pc(tp c10TP) reflect.Value { // *pconsumer or the invalid Value
	m := c10Field(s.sc.Elem(), "consumers")
	k := reflect.New(m.Type().Key()).Elem()
	c10Field(k, "t").SetString(tp.topic)
	c10Field(k, "p").SetInt(int64(tp.part))
	return m.MapIndex(k)
}

// the closure of splitConsume.consume (consumer.go:95-103): route the fetch to the partition's consumer, or drop it
func (s *c10Sess) dispatch(tp c10TP, recs []*kgo.Record) bool {
	pc := s.pc(tp)
	if !pc.IsValid() || pc.IsNil() {
		return false // "consumer not ready yet"
	}
	ch := c10Field(pc.Elem(), "fetches")
	if n := ch.Len(); n > s.maxBuf {
		s.maxBuf = n
	}
	f := kgo.FetchTopicPartition{Topic: tp.topic, FetchPartition: kgo.FetchPartition{Partition: tp.part, Records: recs}}
	tm := time.NewTimer(c10Wait)
	defer tm.Stop()
	chosen, _, _ := reflect.Select([]reflect.SelectCase{
		{Dir: reflect.SelectSend, Chan: ch, Send: reflect.ValueOf(f)},
		{Dir: reflect.SelectRecv, Chan: reflect.ValueOf(tm.C)},
	})
	if chosen != 0 {
		s.stuck = true
		return false
	}
	return true
}

func (s *c10Sess) waitFor(cond func() bool) bool {
	if s.stuck {
		return false
	}
	deadline := time.Now().Add(c10Wait)
	for i := 0; !cond(); i++ {
		if i < 2000 {
			runtime.Gosched()
			continue
		}
		if time.Now().After(deadline) {
			s.stuck = true
			return false
		}
		time.Sleep(20 * time.Microsecond)
	}
	return true
}

func (s *c10Sess) quiesce() bool { return s.waitFor(func() bool { return s.ctl.count() >= s.want }) }

func c10TPMap(tps []c10TP) map[string][]int32 {
	m := map[string][]int32{}
	for _, tp := range tps {
		m[tp.topic] = append(m[tp.topic], tp.part)
	}
	return m
}

func (s *c10Sess) assign(tps []c10TP) {
	if p := hx.Catch(func() { s.cons.Assigned(context.Background(), nil, c10TPMap(tps)) }); p != "" {
		s.panicked, s.stuck = p, true
	}
	for _, tp := range tps {
		s.live[tp] = true
	}
}

// Lost, run to completion or given up after c10Wait (then the session is stuck)
func (s *c10Sess) lost(tps []c10TP, between func()) {
	done := make(chan string, 1)
	go func() { done <- hx.Catch(func() { s.cons.Lost(context.Background(), nil, c10TPMap(tps)) }) }()
	if between != nil {
		between()
	}
	select {
	case p := <-done:
		if p != "" {
			s.panicked = p
			s.stuck = true
		}
	case <-time.After(c10Wait):
		s.stuck = true
	}
	for _, tp := range tps {
		delete(s.live, tp)
	}
}

func c10ClosedChan(ch reflect.Value) bool {
	chosen, _, ok := reflect.Select([]reflect.SelectCase{{Dir: reflect.SelectRecv, Chan: ch}, {Dir: reflect.SelectDefault}})
	return chosen == 0 && !ok
}

type c10Fetch struct {
	tp   c10TP
	recs []*kgo.Record
}

func c10DecTPs(topics []string, v hx.Sx) []c10TP {
	var out []c10TP
	for _, t := range hx.Items(v) {
		f := hx.Items(t)
		out = append(out, c10TP{topics[int(hx.Int(f[0]))], int32(hx.Int(f[1]))})
	}
	return out
}

// (ti part (off epoch) ...)
func c10DecFetch(topics []string, f []hx.Sx) c10Fetch {
	tp := c10TP{topics[int(hx.Int(f[0]))], int32(hx.Int(f[1]))}
	var recs []*kgo.Record
	for _, r := range f[2:] {
		g := hx.Items(r)
		recs = append(recs, &kgo.Record{Topic: tp.topic, Partition: tp.part, Offset: hx.Int(g[0]), LeaderEpoch: int32(hx.Int(g[1])), Value: []byte("{}")})
	}
	return c10Fetch{tp, recs}
}

func (s *c10Sess) sid(tp c10TP) pipeline.SourceID {
	return kafka.VerifC10AssembleSourceID(s.idBy[tp.topic], tp.part)
}

// op 3; returns the c values of the lost partitions
func (s *c10Sess) gatedLost(tps []c10TP, fetches []c10Fetch) []int {
	s.quiesce()
	isLost := map[c10TP]bool{}
	for _, tp := range tps {
		isLost[tp] = true
	}
	before := map[c10TP]int{}
	for _, tp := range tps {
		before[tp] = s.ctl.countOf(s.sid(tp))
	}
	var pcs []reflect.Value
	for _, tp := range tps {
		if pc := s.pc(tp); pc.IsValid() && !pc.IsNil() {
			pcs = append(pcs, pc)
		}
	}
	s.ctl.shut()
	n0 := s.ctl.count()
	sizes := map[c10TP][]int{} // sizes of the gated fetches that were routed, per partition
	for _, f := range fetches {
		if s.dispatch(f.tp, f.recs) {
			sizes[f.tp] = append(sizes[f.tp], len(f.recs))
		}
	}
	// every partition that got a fetch is now inside In with the first record of its first fetch
	s.waitFor(func() bool { return s.ctl.count() >= n0+len(sizes) })
	s.lost(tps, func() {
		s.waitFor(func() bool {
			for _, pc := range pcs {
				if !c10ClosedChan(c10Field(pc.Elem(), "quit")) {
					return false
				}
			}
			return true
		})
		s.ctl.open()
	})
	s.ctl.open()
	var cs []int
	for _, tp := range tps {
		got := s.ctl.countOf(s.sid(tp)) - before[tp]
		c := 0
		for _, sz := range sizes[tp] {
			if got < sz {
				break
			}
			got -= sz
			c++
		}
		if got != 0 {
			c = -1
		}
		cs = append(cs, c)
	}
	// what the surviving consumers were sent must still arrive; what the lost ones delivered is final
	// (Lost returned, so their goroutines are gone)
	s.want = n0
	for tp, szs := range sizes {
		if isLost[tp] {
			s.want += s.ctl.countOf(s.sid(tp)) - before[tp]
			continue
		}
		for _, sz := range szs {
			s.want += sz
		}
	}
	return cs
}

func c10ExecSession(cs hx.Sx) hx.Sx {
	it := hx.Items(cs)
	topics := c10Topics(it[0])
	pl, err := kafka.VerifC10NewPlugin(topics)
	if err != nil {
		panic(err)
	}
	defer pl.Close()
	s := c10NewSess(pl)
	var cvals []hx.Sx
	for _, opv := range hx.Items(it[1]) {
		op := hx.Items(opv)
		switch hx.Int(op[0]) {
		case 0:
			s.assign(c10DecTPs(topics, hx.L(op[1:]...)))
		case 1:
			f := c10DecFetch(topics, op[1:])
			if s.dispatch(f.tp, f.recs) {
				s.want += len(f.recs)
			}
		case 2:
			s.quiesce()
			s.lost(c10DecTPs(topics, hx.L(op[1:]...)), nil)
		case 3:
			var fs []c10Fetch
			for _, f := range hx.Items(op[2]) {
				fs = append(fs, c10DecFetch(topics, hx.Items(f)))
			}
			for _, c := range s.gatedLost(c10DecTPs(topics, op[1]), fs) {
				cvals = append(cvals, hx.I(c))
			}
		default:
			panic("c10 session: unknown op")
		}
		if s.stuck {
			break
		}
	}
	s.quiesce()
	s.ctl.open()
	var rest []c10TP
	for tp := range s.live {
		rest = append(rest, tp)
	}
	if len(rest) > 0 {
		s.lost(rest, nil)
	}
	if c10W != nil {
		c10W.Dist["session_max_buffered_fetches="+hx.String(hx.I(s.maxBuf))]++
	}

	// delivered events, grouped by source id
	s.ctl.mu.Lock()
	var sids []pipeline.SourceID
	for id := range s.ctl.evs {
		sids = append(sids, id)
	}
	sort.Slice(sids, func(i, j int) bool { return sids[i] < sids[j] })
	var groups []hx.Sx
	var flat []c10Event
	for _, id := range sids {
		var offs []hx.Sx
		for _, o := range s.ctl.evs[id] {
			offs = append(offs, hx.Z(o))
			flat = append(flat, c10Event{id, o})
		}
		groups = append(groups, hx.L(hx.U(uint64(id)), hx.L(offs...)))
	}
	s.ctl.mu.Unlock()
	if s.stuck {
		st := 3
		if s.panicked != "" {
			st = 1
		}
		return hx.L(hx.L(cvals...), hx.L(groups...), hx.I(st), hx.L())
	}
	var calls []c10Event
	if len(flat) > 0 {
		for _, k := range hx.Items(it[2]) {
			i := int(hx.Int(k) % int64(len(flat)))
			if i < 0 {
				i += len(flat)
			}
			calls = append(calls, flat[i])
		}
	}
	st, steps := c10CommitAll(pl, calls)
	return hx.L(hx.L(cvals...), hx.L(groups...), hx.I(st), hx.L(steps...))
}
