package main

// Generators that cross the scale / history thresholds of plugin/input/kafka/consumer.go
// (threshold audit, item 37: "the consumer is driven one fetch at a time").
//
//	stream              which  crosses
//	fetch-over-buffer     2    one fetch of 255 / 256 / 257 / 511..513 / up to 700 records: more than bufferSize = 256
//	                           (channel_buffer_size, PollRecords' limit, consumer.go:79) in one pass of the record loop of
//	                           pconsumer.consume (consumer.go:132-150)
//	fetch-many            2    6..40 fetches of ONE partition (more than maxConcurrentConsumers = 5) on one plugin / kgo
//	                           client, each through VerifC10Consume
//	commit-history        2    150..300 records of 8..12 partitions of 2..3 topics, every one committed, in completion
//	                           order: hundreds of Commit calls on one Plugin / one kgo client (the other streams stop at ~11)
//	session-directed      4    hand-made sessions on the real Assigned / Lost / pconsumer goroutines (session.go)
//	session               4    random sessions
//
// Which regression each stream would expose (reasoned from the code, the streams were not run on broken code):
//   - fetch-over-buffer: a record loop bounded by bufferSize / a fixed scratch array of 256 (`for i := range
//     fetches.Records[:min(len, bufferSize)]`) loses records 257..: the delivered events differ from the model's.
//   - fetch-many, session*: a pconsumer that returns after its first fetch (`return` instead of falling back into the
//     `for`), per-consumer state carried from one fetch to the next, a topicID taken from the wrong map entry on
//     re-assignment: delivered events differ. A Lost that waits for `done` before closing `quit`, or a consume loop
//     that no longer watches `quit`, makes Lost hang: status 3.
//   - session, op 3 (Lost with buffered fetches): a consume loop that stops INSIDE a fetch on quit (c = -1), or
//     that keeps delivering from the channel of the old consumer after Lost returned (records would arrive after the
//     re-assignment: the group of that sid differs); a channel made with capacity 0 makes the routing of the gated
//     fetches block (status 3).
//   - commit-history: marks kept per Plugin in a structure that degrades with the number of partitions or calls
//     (e.g. a fixed-size cache of heads in front of MarkCommitOffsets): a head differs from the model's.

import (
	"strconv"

	"verif/harness/hmain"
	"verif/harness/hx"
)

// one partition's log position
type c10Log struct {
	ti           int
	part, off, e int64
}

// the next record of the log. The gaps (compacted / transactional offsets) and the leader changes are a fixed
// function of the offset, so a partition that is read again from a saved position yields the SAME records
// (what a rebalance redelivers).
func (l *c10Log) next(_ *hx.Rng) hx.Sx {
	rec := hx.L(hx.Z(l.off), hx.Z(l.e))
	h := uint64(l.off) * 0x9E3779B97F4A7C15
	l.off += int64(1 + (h>>61)%3)
	if (h>>40)%7 == 0 && l.e >= 0 && l.e < 65535 {
		l.e++
	}
	return rec
}

func c10GenThresholds(c *hmain.Ctx) {
	r := c.R
	rnd := func(bits uint) int64 { return int64(r.U64() >> (64 - bits)) }

	// ---- fetch-over-buffer ------------------------------------------------------------------
	sizes := []int{255, 256, 257, 511, 512, 513}
	for i := 0; i < 8*c.Scale; i++ {
		sizes = append(sizes, r.Range(258, 700))
	}
	for _, n := range sizes {
		topics := []string{"a", "logs"}
		big := c10Log{ti: r.Intn(2), part: rnd(uint(1 + r.Intn(16))), off: rnd(uint(1 + r.Intn(40))), e: int64(r.Intn(4))}
		small := c10Log{ti: r.Intn(2), part: big.part + 1, off: int64(r.Intn(1000)), e: 0}
		if small.part > 65535 {
			small.part = 0
		}
		var recs []hx.Sx
		emit := func(l *c10Log, k int) {
			for ; k > 0; k-- {
				o := hx.Items(l.next(r))
				recs = append(recs, hx.L(hx.I(l.ti), hx.Z(l.part), o[0], o[1]))
			}
		}
		emit(&small, r.Range(0, 3))
		emit(&big, n)
		emit(&small, r.Range(1, 3))
		total := len(recs)
		// Commit: the records around the 256 boundary, the last one, and a random sample, in random order
		var ks []int
		for _, k := range []int{0, 254, 255, 256, 257, 258, total - 1} {
			if k < total {
				ks = append(ks, k)
			}
		}
		for k := r.Range(8, 24); k > 0; k-- {
			ks = append(ks, r.Intn(total))
		}
		for k := len(ks) - 1; k > 0; k-- {
			j := r.Intn(k + 1)
			ks[k], ks[j] = ks[j], ks[k]
		}
		switch {
		case n < 256:
			c.W.Count("fetch_records<256")
		case n == 256:
			c.W.Count("fetch_records=256")
		default:
			c.W.Count("fetch_records>256")
		}
		c.Do("fetch-over-buffer", 2, hx.L(hx.Ss(topics), hx.L(recs...), hx.List(ks, hx.I)), true)
	}

	// ---- fetch-many -------------------------------------------------------------------------
	for i := 0; i < 20*c.Scale; i++ {
		topics := []string{"a", "b", "a"} // a duplicate name: idByTopic["a"] = 2
		mainL := c10Log{ti: r.Intn(3), part: rnd(uint(1 + r.Intn(16))), off: rnd(uint(1 + r.Intn(40))), e: int64(r.Intn(4))}
		other := c10Log{ti: 1, part: (mainL.part + 7) % 65536, off: 0, e: 1}
		nf := r.Range(6, 40)
		var recs []hx.Sx
		for f := 0; f < nf; f++ {
			for k := r.Range(1, 4); k > 0; k-- {
				o := hx.Items(mainL.next(r))
				recs = append(recs, hx.L(hx.I(mainL.ti), hx.Z(mainL.part), o[0], o[1]))
			}
			o := hx.Items(other.next(r)) // a record of another partition ends the fetch
			recs = append(recs, hx.L(hx.I(other.ti), hx.Z(other.part), o[0], o[1]))
		}
		var ks []hx.Sx
		for k := r.Range(5, 30); k > 0; k-- {
			ks = append(ks, hx.I(r.Intn(len(recs))))
		}
		c.W.Count("fetches_of_one_partition>5")
		c.Do("fetch-many", 2, hx.L(hx.Ss(topics), hx.L(recs...), hx.L(ks...)), true)
	}

	// ---- commit-history ---------------------------------------------------------------------
	for i := 0; i < 8*c.Scale; i++ {
		nt := r.Range(2, 3)
		var topics []string
		for k := 0; k < nt; k++ {
			topics = append(topics, "t"+strconv.Itoa(k))
		}
		var logs []c10Log
		seen := map[[2]int64]bool{}
		for len(logs) < r.Range(8, 12) {
			l := c10Log{ti: r.Intn(nt), part: rnd(uint(1 + r.Intn(16))), off: rnd(uint(1 + r.Intn(44))), e: int64(r.Intn(3))}
			if seen[[2]int64{int64(l.ti), l.part}] {
				continue
			}
			seen[[2]int64{int64(l.ti), l.part}] = true
			logs = append(logs, l)
		}
		var recs []hx.Sx
		nrec := r.Range(150, 300)
		for k := 0; k < nrec; k++ {
			l := &logs[r.Intn(len(logs))]
			for b := r.Range(1, 5); b > 0 && k < nrec; b-- { // short runs: fetches of 1..5 records
				o := hx.Items(l.next(r))
				recs = append(recs, hx.L(hx.I(l.ti), hx.Z(l.part), o[0], o[1]))
				k++
			}
			k--
		}
		// completion order: a window shuffle (each record completes at most ~32 places away from its turn)
		perm := make([]int, len(recs))
		for k := range perm {
			perm[k] = k
		}
		for k := range perm {
			j := k + r.Intn(32)
			if j < len(perm) {
				perm[k], perm[j] = perm[j], perm[k]
			}
		}
		c.W.Count("commit_history>=150_commits_on_one_plugin")
		c.Do("commit-history", 2, hx.L(hx.Ss(topics), hx.L(recs...), hx.List(perm, hx.I)), true)
	}

	// ---- sessions ---------------------------------------------------------------------------
	c10GenSessions(c)
}

// ---- session scripts ---------------------------------------------------------------------------
type c10Script struct {
	c      *hmain.Ctx
	topics []string
	ops    []hx.Sx
	live   map[[2]string]bool // (topic NAME, partition) that has a consumer
	routed int                // records routed to a live consumer
	gated  int
	ok     bool // every record inside the stated ranges
}

func newC10Script(c *hmain.Ctx, topics []string) *c10Script {
	return &c10Script{c: c, topics: topics, live: map[[2]string]bool{}, ok: true}
}
func (s *c10Script) key(ti int, part int64) [2]string {
	return [2]string{s.topics[ti], strconv.FormatInt(part, 10)}
}
func c10TPSx(ti int, part int64) hx.Sx { return hx.L(hx.I(ti), hx.Z(part)) }
func (s *c10Script) assign(tps ...*c10Log) {
	var l []hx.Sx
	for _, t := range tps {
		l = append(l, c10TPSx(t.ti, t.part))
		s.live[s.key(t.ti, t.part)] = true
	}
	s.ops = append(s.ops, hx.L(append([]hx.Sx{hx.I(0)}, l...)...))
	s.c.W.Count("session_op_assigned")
}
func (s *c10Script) fetchSx(l *c10Log, n int) hx.Sx {
	f := []hx.Sx{hx.I(l.ti), hx.Z(l.part)}
	for ; n > 0; n-- {
		s.ok = s.ok && c10InRange(0, l.part, l.off, l.e)
		f = append(f, l.next(s.c.R))
	}
	return hx.L(f...)
}
func (s *c10Script) fetch(l *c10Log, n int) {
	if s.live[s.key(l.ti, l.part)] {
		s.routed += n
		s.c.W.Count("session_op_fetch")
		if n > 256 {
			s.c.W.Count("session_fetch_records>256")
		}
	} else {
		s.c.W.Count("session_op_fetch_dropped(consumer not ready yet)")
	}
	s.ops = append(s.ops, hx.L(append([]hx.Sx{hx.I(1)}, hx.Items(s.fetchSx(l, n))...)...))
}
func (s *c10Script) lost(tps ...*c10Log) {
	var l []hx.Sx
	for _, t := range tps {
		l = append(l, c10TPSx(t.ti, t.part))
		delete(s.live, s.key(t.ti, t.part))
	}
	s.ops = append(s.ops, hx.L(append([]hx.Sx{hx.I(2)}, l...)...))
	s.c.W.Count("session_op_lost")
}

// fs: (log, records) in routing order
type c10GF struct {
	l *c10Log
	n int
}

func (s *c10Script) gatedLost(tps []*c10Log, fs []c10GF) {
	var l, f []hx.Sx
	per := map[[2]string]int{}
	for _, g := range fs {
		k := s.key(g.l.ti, g.l.part)
		if s.live[k] {
			per[k]++
			s.routed += g.n
		}
		f = append(f, s.fetchSx(g.l, g.n))
	}
	for _, t := range tps {
		l = append(l, c10TPSx(t.ti, t.part))
		k := s.key(t.ti, t.part)
		s.c.W.Count("session_gated_lost_buffered_fetches=" + strconv.Itoa(per[k]))
		delete(s.live, k)
	}
	s.gated++
	s.ops = append(s.ops, hx.L(hx.I(3), hx.L(l...), hx.L(f...)))
}
func (s *c10Script) run(stream string, ks []int) {
	obs := s.c.Do(stream, 4, hx.L(hx.Ss(s.topics), hx.L(s.ops...), hx.List(ks, hx.I)), s.ok && s.routed > 0 && len(s.ops) >= 3)
	it := hx.Items(obs)
	for _, cv := range hx.Items(it[0]) {
		s.c.W.Count("session_gated_lost_delivered_fetches=" + hx.String(cv))
	}
	if hx.Int(it[2]) == 3 {
		s.c.W.Count("session_STUCK")
		c10Stuck++
	}
}

// a stuck session costs up to three waits of c10Wait; every one is a failure of the check already, so the
// generator stops making sessions after the third (keeps a broken consumer from running into the harness timeout)
var c10Stuck int

func c10GenSessions(c *hmain.Ctx) {
	r := c.R
	rnd := func(bits uint) int64 { return int64(r.U64() >> (64 - bits)) }
	seq := func(n int) []int {
		ks := make([]int, n)
		for i := range ks {
			ks[i] = i
		}
		return ks
	}

	// -- directed
	// (a) 12 fetches back to back on ONE consumer (more than the channel holds), nothing lost; every event committed
	{
		s := newC10Script(c, []string{"a", "b"})
		l := &c10Log{ti: 1, part: 3, off: 100, e: 2}
		s.assign(l)
		for i := 0; i < 12; i++ {
			s.fetch(l, 1+i%3)
		}
		s.run("session-directed", seq(24))
	}
	// (b) Lost with a FULL channel: 1 fetch in delivery + 5 buffered (capacity maxConcurrentConsumers = 5), then the
	// partition is assigned again and read from the start of the buffered part (what a rebalance redelivers)
	for rep := 0; rep < 4; rep++ {
		s := newC10Script(c, []string{"a", "b"})
		l := &c10Log{ti: 0, part: 65535, off: 7 + int64(rep)*1000, e: int64(rep)}
		s.assign(l)
		s.fetch(l, 2)
		back := *l
		var fs []c10GF
		for i := 0; i < 6; i++ {
			fs = append(fs, c10GF{l, 1 + i%2})
		}
		s.gatedLost([]*c10Log{l}, fs)
		*l = back
		s.assign(l)
		for i := 0; i < 6; i++ {
			s.fetch(l, 1+i%2)
		}
		s.run("session-directed", []int{0, 1, 2, 3, 4, 5, 6, 7, 8, 9, 10, 11, 12, 13, 14, 15, 16, 17, 18, 19})
	}
	// (c) fetches of more records than bufferSize inside a session, two partitions running concurrently
	{
		s := newC10Script(c, []string{"logs"})
		l1, l2 := &c10Log{ti: 0, part: 0, off: 0, e: 0}, &c10Log{ti: 0, part: 1, off: 1 << 40, e: 65534}
		s.assign(l1, l2)
		s.fetch(l1, 257)
		s.fetch(l2, 300)
		s.fetch(l1, 256)
		s.fetch(l2, 1)
		s.run("session-directed", []int{0, 256, 257, 512, 513, 812, 813, 5})
	}
	// (d) a fetch for a partition that has no consumer yet is dropped (consumer.go:98-102); the partition is then
	// assigned, later offsets are delivered and committed: the mark passes the dropped records (noted: the frontier
	// clause is not claimed by this check; the routing is the harness' copy of the closure in splitConsume.consume)
	{
		s := newC10Script(c, []string{"a"})
		l := &c10Log{ti: 0, part: 9, off: 10, e: 1}
		s.fetch(l, 10)
		s.assign(l)
		s.fetch(l, 10)
		s.run("session-directed", []int{9, 0})
	}
	// (e) Lost without anything buffered, re-assignment, redelivery of the same records, commits of old and new events
	{
		s := newC10Script(c, []string{"a", "b", "a"})
		l := &c10Log{ti: 0, part: 1, off: 50, e: 3} // topic "a": index 2 wins
		m := &c10Log{ti: 1, part: 1, off: 50, e: 3}
		s.assign(l, m)
		back := *l
		s.fetch(l, 4)
		s.fetch(m, 2)
		s.lost(l)
		s.fetch(l, 3) // dropped: lost
		*l = back
		s.assign(l)
		s.fetch(l, 6)
		s.fetch(m, 2)
		s.run("session-directed", []int{9, 3, 0, 11, 13, 12, 4})
	}

	// -- random
	names := []string{"a", "b", "logs", "a.b-c_d"}
	for i := 0; i < 250*c.Scale; i++ {
		if c10Stuck >= 3 {
			c.W.Count("session_generation_stopped_after_3_stuck_sessions")
			break
		}
		nt := r.Range(1, 3)
		var topics []string
		for len(topics) < nt {
			topics = append(topics, names[r.Intn(len(names))])
		}
		s := newC10Script(c, topics)
		adversarial := r.Chance(1, 8)
		var logs []*c10Log
		for len(logs) < r.Range(1, 4) {
			l := &c10Log{ti: r.Intn(nt), part: rnd(uint(1 + r.Intn(16))), off: rnd(uint(1 + r.Intn(46))), e: int64(r.Intn(5))}
			if r.Chance(1, 3) {
				l.part = int64(r.Intn(3))
			}
			if r.Chance(1, 10) {
				l.part = 65535
			}
			if adversarial {
				switch r.Intn(3) {
				case 0:
					l.e = -1
				case 1:
					l.off = 1<<47 - int64(r.Intn(3))
				case 2:
					l.e = 65535 + int64(r.Intn(2))
				}
			}
			dup := false
			for _, o := range logs {
				dup = dup || s.key(o.ti, o.part) == s.key(l.ti, l.part)
			}
			if !dup {
				logs = append(logs, l)
			}
		}
		isLive := func(l *c10Log) bool { return s.live[s.key(l.ti, l.part)] }
		saved := map[*c10Log]c10Log{} // where a rebalance would restart the partition
		size := func() int {
			switch r.Intn(30) {
			case 0:
				return r.Range(257, 400)
			case 1, 2:
				return 0
			}
			return r.Range(1, 6)
		}
		for nops := r.Range(5, 22); nops > 0; nops-- {
			var liveL, deadL []*c10Log
			for _, l := range logs {
				if isLive(l) {
					liveL = append(liveL, l)
				} else {
					deadL = append(deadL, l)
				}
			}
			k := r.Intn(12)
			switch {
			case len(liveL) == 0 || (k == 0 && len(deadL) > 0): // assign one or all of the unassigned
				if r.Bool() {
					deadL = deadL[:1]
				}
				for _, l := range deadL {
					if sv, ok := saved[l]; ok && r.Bool() {
						*l = sv // redelivery from where the lost consumer stood
						c.W.Count("session_reassigned_with_redelivery")
					}
					delete(saved, l)
				}
				s.assign(deadL...)
			case k == 1: // Lost, nothing buffered
				l := hx.Pick(r, liveL)
				s.lost(l)
			case k == 2 || k == 3: // Lost with buffered fetches
				nl := r.Range(1, len(liveL))
				lostL := append([]*c10Log(nil), liveL...)
				for a := len(lostL) - 1; a > 0; a-- {
					b := r.Intn(a + 1)
					lostL[a], lostL[b] = lostL[b], lostL[a]
				}
				lostL = lostL[:nl]
				cnt := map[*c10Log]int{}
				var fs []c10GF
				for _, l := range lostL {
					saved[l] = *l
				}
				for n := r.Range(0, 9); n > 0; n-- {
					l := hx.Pick(r, logs) // lost, surviving or unassigned
					if cnt[l] >= 6 {
						continue // one in delivery + the five the channel holds
					}
					cnt[l]++
					fs = append(fs, c10GF{l, r.Range(1, 3)})
				}
				if r.Chance(1, 3) { // fill one lost partition's channel
					l := lostL[0]
					for cnt[l] < 6 {
						cnt[l]++
						fs = append(fs, c10GF{l, r.Range(1, 2)})
					}
				}
				s.gatedLost(lostL, fs)
			case k == 4 && len(deadL) > 0: // a fetch for a partition without a consumer
				s.fetch(hx.Pick(r, deadL), r.Range(1, 4))
			case k == 5: // a burst on one consumer: more fetches than the channel holds
				l := hx.Pick(r, liveL)
				for n := r.Range(6, 12); n > 0; n-- {
					s.fetch(l, r.Range(1, 3))
				}
				c.W.Count("session_burst_of_6..12_fetches_on_one_consumer")
			default:
				s.fetch(hx.Pick(r, liveL), size())
			}
		}
		var ks []int
		for n := r.Range(0, 14); n > 0; n-- {
			ks = append(ks, r.Intn(1000))
		}
		s.run("session", ks)
	}
}
