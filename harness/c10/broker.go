package main

// C10, which=5 — an in-process Kafka broker for the REAL kgo client that plugin/input/kafka creates.
//
// Why: NewClient (client.go), Plugin.Start, Plugin.Stop and the poll loop splitConsume.consume talk to a
// concrete *kgo.Client; NewClient pings the brokers and calls Fatal when there are none. Without a broker
// none of them can run (coverage of client.go was 0/21 statements). This file is a one-node broker and group
// coordinator that speaks the Kafka wire protocol through franz-go's own message definitions (pkg/kmsg: the
// same encoders the client uses), so the unmodified plugin joins a consumer group, is handed its partitions
// through kgo's OnPartitionsAssigned, polls record batches, has its marked offsets committed by kgo
// (OffsetCommit) and leaves the group — everything inside one process and without a network beyond loopback.
//
// Implemented (the requests kgo issues for a classic consumer group): ApiVersions, Metadata, FindCoordinator,
// JoinGroup / SyncGroup / Heartbeat / LeaveGroup for ONE member at a time (the member that joins is leader and
// sole member; a heartbeat can be answered REBALANCE_IN_PROGRESS on request to make kgo revoke and rejoin),
// OffsetFetch, OffsetCommit (can be switched to refuse), ListOffsets, OffsetForLeaderEpoch (optional: without
// it kgo forgets the leader epoch of a fetched commit), Fetch v4..v6 (record batches v2 with CRC-32C; one batch
// per run of records with the same leader epoch; offsets may have gaps as in a compacted log; long poll).
// The broker is part of the trusted harness: what it stores is what the check observes as "committed to Kafka".

import (
	"encoding/binary"
	"errors"
	"hash/crc32"
	"io"
	"net"
	"os"
	"sort"
	"strconv"
	"sync"
	"time"

	"github.com/twmb/franz-go/pkg/kmsg"
)

type c10BRec struct {
	off   int64
	epoch int32
	val   []byte
	kind  int // the case's record kind (group.go); the broker does not look at it
}

type c10BCommit struct {
	tp    c10TP
	off   int64
	epoch int32
}

type c10Broker struct {
	ln   net.Listener
	host string
	port int32

	mu       sync.Mutex
	closed   bool
	conns    map[net.Conn]struct{}
	produced chan struct{} // closed and replaced whenever records are appended (wakes long polls)

	names []string               // topic names in creation order
	parts map[string][][]c10BRec // topic -> partition -> records, ascending offsets

	kip320        bool // advertise OffsetForLeaderEpoch
	maxPerFetch   int  // at most so many records of one partition per Fetch response (0 = all)
	refuseCommits bool // OffsetCommit answers ILLEGAL_GENERATION
	fetchErrEvery int  // every so-many-th Fetch response that would carry records carries, for its first such partition, the
	// error TOPIC_AUTHORIZATION_FAILED instead (kgo hands errors it does not retry to the poller: consumer.go:89-94); 0 = never
	fetchData int // Fetch responses with records so far
	fetchErrs int // errors injected

	// group
	gen           int32
	member        string
	memberSeq     int
	assignment    []byte
	rebalance     bool // the next heartbeat is answered REBALANCE_IN_PROGRESS
	joins         int
	leaves        int
	heartbeats    int // heartbeats answered OK since the latest JoinGroup
	lives         int
	curClient     string // client id of the plugin instance that is running
	offsetFetched bool   // the current generation has fetched its offsets

	committed map[c10TP]c10BCommit
	commitLog []c10BCommit    // every accepted OffsetCommit entry, in arrival order
	refused   int             // OffsetCommit entries refused
	fetchAt   map[c10TP]int64 // fetch offset of the latest Fetch request per partition
	fetchGen  map[c10TP]int   // number of Fetch requests seen per partition
	badReq    string          // first protocol problem (reported as status 4)
	reqLog    []string        // C10_DEBUG: the requests of the current generation
	debug     bool
}

func c10NewBroker() (*c10Broker, error) {
	ln, err := net.Listen("tcp", "127.0.0.1:0")
	if err != nil {
		return nil, err
	}
	a := ln.Addr().(*net.TCPAddr)
	b := &c10Broker{ln: ln, host: "127.0.0.1", port: int32(a.Port), conns: map[net.Conn]struct{}{}, produced: make(chan struct{}),
		parts: map[string][][]c10BRec{}, committed: map[c10TP]c10BCommit{}, fetchAt: map[c10TP]int64{}, fetchGen: map[c10TP]int{}}
	b.debug = os.Getenv("C10_DEBUG") != ""
	go b.accept()
	return b, nil
}

func (b *c10Broker) addr() string { return b.host + ":" + strconv.Itoa(int(b.port)) }

func (b *c10Broker) close() {
	b.mu.Lock()
	b.closed = true
	for c := range b.conns {
		c.Close()
	}
	close(b.produced)
	b.produced = make(chan struct{})
	b.mu.Unlock()
	b.ln.Close()
}

func (b *c10Broker) createTopic(name string, nparts int) {
	b.mu.Lock()
	defer b.mu.Unlock()
	if _, ok := b.parts[name]; !ok {
		b.names = append(b.names, name)
	}
	for len(b.parts[name]) < nparts {
		b.parts[name] = append(b.parts[name], nil)
	}
}

// append records (ascending offsets above the current end are the caller's business: the log keeps them sorted)
func (b *c10Broker) produce(tp c10TP, recs []c10BRec) {
	b.mu.Lock()
	p := b.parts[tp.topic]
	if int(tp.part) < len(p) && tp.part >= 0 {
		l := append(p[tp.part], recs...)
		sort.SliceStable(l, func(i, j int) bool { return l[i].off < l[j].off })
		p[tp.part] = l
	}
	close(b.produced)
	b.produced = make(chan struct{})
	b.mu.Unlock()
}

func (b *c10Broker) endOffset(tp c10TP) int64 { // b.mu held
	p := b.parts[tp.topic]
	if tp.part < 0 || int(tp.part) >= len(p) || len(p[tp.part]) == 0 {
		return 0
	}
	l := p[tp.part]
	return l[len(l)-1].off + 1
}

func (b *c10Broker) curEpoch(tp c10TP) int32 { // b.mu held
	p := b.parts[tp.topic]
	if tp.part < 0 || int(tp.part) >= len(p) || len(p[tp.part]) == 0 {
		return 0
	}
	l := p[tp.part]
	e := l[len(l)-1].epoch
	if e < 0 {
		e = 0
	}
	return e
}

func (b *c10Broker) snapshotCommitted() []c10BCommit {
	b.mu.Lock()
	defer b.mu.Unlock()
	var out []c10BCommit
	for _, c := range b.committed {
		out = append(out, c)
	}
	sort.Slice(out, func(i, j int) bool {
		if out[i].tp.topic != out[j].tp.topic {
			return out[i].tp.topic < out[j].tp.topic
		}
		return out[i].tp.part < out[j].tp.part
	})
	return out
}

func (b *c10Broker) bad(s string) {
	if b.badReq == "" {
		b.badReq = s
	}
}

// ---- the wire ---------------------------------------------------------------------------------
func (b *c10Broker) accept() {
	for {
		c, err := b.ln.Accept()
		if err != nil {
			return
		}
		b.mu.Lock()
		if b.closed {
			b.mu.Unlock()
			c.Close()
			return
		}
		b.conns[c] = struct{}{}
		b.mu.Unlock()
		go b.serve(c)
	}
}

var c10Caps = map[int16]int16{ // api key -> highest version this broker speaks
	0:  -1, // Produce: not offered
	1:  6,  // Fetch (no fetch sessions, no topic ids)
	2:  5,  // ListOffsets
	3:  8,  // Metadata
	8:  7,  // OffsetCommit
	9:  7,  // OffsetFetch
	10: 2,  // FindCoordinator
	11: 5,  // JoinGroup
	12: 3,  // Heartbeat
	13: 3,  // LeaveGroup
	14: 3,  // SyncGroup
	18: 3,  // ApiVersions
	23: 3,  // OffsetForLeaderEpoch (only when kip320)
}

func (b *c10Broker) serve(c net.Conn) {
	defer func() {
		c.Close()
		b.mu.Lock()
		delete(b.conns, c)
		b.mu.Unlock()
	}()
	var szb [4]byte
	for {
		if _, err := io.ReadFull(c, szb[:]); err != nil {
			return
		}
		n := int(binary.BigEndian.Uint32(szb[:]))
		if n < 8 || n > 64<<20 {
			return
		}
		buf := make([]byte, n)
		if _, err := io.ReadFull(c, buf); err != nil {
			return
		}
		key := int16(binary.BigEndian.Uint16(buf[0:]))
		ver := int16(binary.BigEndian.Uint16(buf[2:]))
		corr := buf[4:8]
		rest := buf[8:]
		// client id: nullable string
		if len(rest) < 2 {
			return
		}
		clientID := ""
		if l := int16(binary.BigEndian.Uint16(rest)); l >= 0 {
			if len(rest) < 2+int(l) {
				return
			}
			clientID = string(rest[2 : 2+int(l)])
			rest = rest[2+int(l):]
		} else {
			rest = rest[2:]
		}
		req := kmsg.RequestForKey(key)
		if req == nil {
			return
		}
		maxv, ok := c10Caps[key]
		if !ok || maxv < 0 || (key == 23 && !b.kip320) {
			b.mu.Lock()
			b.bad("request for api key " + strconv.Itoa(int(key)) + " that was not offered")
			b.mu.Unlock()
			return
		}
		if key == 18 && ver > maxv { // ApiVersions newer than ours: answer v0 with UNSUPPORTED_VERSION and our list
			resp := kmsg.NewPtrApiVersionsResponse()
			resp.Version = 0
			resp.ErrorCode = 35
			resp.ApiKeys = b.apiKeys()
			if !c10WriteResp(c, corr, false, resp) {
				return
			}
			continue
		}
		if ver > maxv {
			return
		}
		req.SetVersion(ver)
		if req.IsFlexible() { // request header v2: tagged fields
			cnt, w := binary.Uvarint(rest)
			if w <= 0 || cnt != 0 {
				return
			}
			rest = rest[w:]
		}
		if err := req.ReadFrom(rest); err != nil {
			b.mu.Lock()
			b.bad("unreadable request, key " + strconv.Itoa(int(key)) + ": " + err.Error())
			b.mu.Unlock()
			return
		}
		if b.debug {
			b.mu.Lock()
			d := strconv.Itoa(int(key)) + "v" + strconv.Itoa(int(ver))
			switch q := req.(type) {
			case *kmsg.FetchRequest:
				for _, t := range q.Topics {
					for _, p := range t.Partitions {
						d += " " + t.Topic[:1] + strconv.Itoa(int(p.Partition)) + "@" + strconv.FormatInt(p.FetchOffset, 10)
					}
				}
			case *kmsg.ListOffsetsRequest:
				for _, t := range q.Topics {
					for _, p := range t.Partitions {
						d += " " + t.Topic[:1] + strconv.Itoa(int(p.Partition)) + "ts" + strconv.FormatInt(p.Timestamp, 10)
					}
				}
			}
			b.reqLog = append(b.reqLog, d)
			b.mu.Unlock()
		}
		resp, err := b.handle(req, clientID)
		if err != nil {
			return
		}
		if !c10WriteResp(c, corr, req.IsFlexible() && key != 18, resp) {
			return
		}
	}
}

func c10WriteResp(c net.Conn, corr []byte, flexHeader bool, resp kmsg.Response) bool {
	out := make([]byte, 4, 256)
	out = append(out, corr...)
	if flexHeader {
		out = append(out, 0)
	}
	out = resp.AppendTo(out)
	binary.BigEndian.PutUint32(out[0:], uint32(len(out)-4))
	_, err := c.Write(out)
	return err == nil
}

func (b *c10Broker) apiKeys() []kmsg.ApiVersionsResponseApiKey {
	var ks []kmsg.ApiVersionsResponseApiKey
	for k, v := range c10Caps {
		if v < 0 || (k == 23 && !b.kip320) {
			continue
		}
		a := kmsg.NewApiVersionsResponseApiKey()
		a.ApiKey, a.MinVersion, a.MaxVersion = k, 0, v
		if k == 1 {
			a.MinVersion = 4
		}
		ks = append(ks, a)
	}
	sort.Slice(ks, func(i, j int) bool { return ks[i].ApiKey < ks[j].ApiKey })
	return ks
}

var errC10Closed = errors.New("closed")

func (b *c10Broker) handle(r kmsg.Request, clientID string) (kmsg.Response, error) {
	switch req := r.(type) {
	case *kmsg.ApiVersionsRequest:
		resp := req.ResponseKind().(*kmsg.ApiVersionsResponse)
		resp.ApiKeys = b.apiKeys()
		return resp, nil

	case *kmsg.MetadataRequest:
		resp := req.ResponseKind().(*kmsg.MetadataResponse)
		b.mu.Lock()
		defer b.mu.Unlock()
		br := kmsg.NewMetadataResponseBroker()
		br.NodeID, br.Host, br.Port = 1, b.host, b.port
		resp.Brokers = append(resp.Brokers, br)
		resp.ControllerID = 1
		resp.ClusterID = kmsg.StringPtr("verif-c10")
		var want []string
		if req.Topics == nil {
			want = b.names
		} else {
			for _, t := range req.Topics {
				if t.Topic != nil {
					want = append(want, *t.Topic)
				}
			}
		}
		for _, name := range want {
			t := kmsg.NewMetadataResponseTopic()
			t.Topic = kmsg.StringPtr(name)
			ps, ok := b.parts[name]
			if !ok {
				t.ErrorCode = 3 // UNKNOWN_TOPIC_OR_PARTITION
			}
			for i := range ps {
				p := kmsg.NewMetadataResponseTopicPartition()
				p.Partition, p.Leader, p.LeaderEpoch = int32(i), 1, b.curEpoch(c10TP{name, int32(i)})
				p.Replicas, p.ISR = []int32{1}, []int32{1}
				t.Partitions = append(t.Partitions, p)
			}
			resp.Topics = append(resp.Topics, t)
		}
		return resp, nil

	case *kmsg.FindCoordinatorRequest:
		resp := req.ResponseKind().(*kmsg.FindCoordinatorResponse)
		resp.NodeID, resp.Host, resp.Port = 1, b.host, b.port
		return resp, nil

	case *kmsg.JoinGroupRequest:
		resp := req.ResponseKind().(*kmsg.JoinGroupResponse)
		b.mu.Lock()
		defer b.mu.Unlock()
		if len(req.Protocols) == 0 {
			resp.ErrorCode = 23 // INCONSISTENT_GROUP_PROTOCOL
			return resp, nil
		}
		id := req.MemberID
		if id == "" || id != b.member {
			b.memberSeq++
			id = "verif-member-" + strconv.Itoa(b.memberSeq)
		}
		b.member = id
		b.gen++
		b.joins++
		b.rebalance = false
		b.assignment = nil
		b.heartbeats = 0
		b.fetchGen = map[c10TP]int{} // "has fetched from" counts requests of the new generation only
		b.offsetFetched = false
		resp.Generation = b.gen
		resp.ProtocolType = kmsg.StringPtr(req.ProtocolType)
		resp.Protocol = kmsg.StringPtr(req.Protocols[0].Name)
		resp.LeaderID, resp.MemberID = id, id
		m := kmsg.NewJoinGroupResponseMember()
		m.MemberID, m.ProtocolMetadata = id, req.Protocols[0].Metadata
		resp.Members = append(resp.Members, m)
		return resp, nil

	case *kmsg.SyncGroupRequest:
		resp := req.ResponseKind().(*kmsg.SyncGroupResponse)
		b.mu.Lock()
		defer b.mu.Unlock()
		if req.MemberID != b.member {
			resp.ErrorCode = 25 // UNKNOWN_MEMBER_ID
			return resp, nil
		}
		if req.Generation != b.gen {
			resp.ErrorCode = 22 // ILLEGAL_GENERATION
			return resp, nil
		}
		for _, a := range req.GroupAssignment {
			if a.MemberID == b.member {
				b.assignment = a.MemberAssignment
			}
		}
		resp.MemberAssignment = b.assignment
		return resp, nil

	case *kmsg.HeartbeatRequest:
		resp := req.ResponseKind().(*kmsg.HeartbeatResponse)
		b.mu.Lock()
		defer b.mu.Unlock()
		switch {
		case req.MemberID != b.member:
			resp.ErrorCode = 25
		case req.Generation != b.gen:
			resp.ErrorCode = 22
		case b.rebalance:
			resp.ErrorCode = 27 // REBALANCE_IN_PROGRESS
		default:
			b.heartbeats++
		}
		return resp, nil

	case *kmsg.LeaveGroupRequest:
		resp := req.ResponseKind().(*kmsg.LeaveGroupResponse)
		b.mu.Lock()
		defer b.mu.Unlock()
		left := req.MemberID == b.member && b.member != ""
		for _, m := range req.Members {
			rm := kmsg.NewLeaveGroupResponseMember()
			rm.MemberID, rm.InstanceID = m.MemberID, m.InstanceID
			if m.MemberID == b.member && b.member != "" {
				left = true
			} else {
				rm.ErrorCode = 25
			}
			resp.Members = append(resp.Members, rm)
		}
		if left {
			b.member = ""
			b.leaves++
		}
		return resp, nil

	case *kmsg.OffsetCommitRequest:
		resp := req.ResponseKind().(*kmsg.OffsetCommitResponse)
		b.mu.Lock()
		defer b.mu.Unlock()
		var code int16
		switch {
		case b.refuseCommits:
			code = 22
		case req.MemberID != b.member:
			code = 25
		case req.Generation != b.gen:
			code = 22
		}
		for _, t := range req.Topics {
			rt := kmsg.NewOffsetCommitResponseTopic()
			rt.Topic = t.Topic
			for _, p := range t.Partitions {
				rp := kmsg.NewOffsetCommitResponseTopicPartition()
				rp.Partition, rp.ErrorCode = p.Partition, code
				if code == 0 {
					ep := int32(-1)
					if req.Version >= 6 {
						ep = p.LeaderEpoch
					}
					e := c10BCommit{c10TP{t.Topic, p.Partition}, p.Offset, ep}
					b.committed[e.tp] = e
					b.commitLog = append(b.commitLog, e)
				} else {
					b.refused++
				}
				rt.Partitions = append(rt.Partitions, rp)
			}
			resp.Topics = append(resp.Topics, rt)
		}
		return resp, nil

	case *kmsg.OffsetFetchRequest:
		resp := req.ResponseKind().(*kmsg.OffsetFetchResponse)
		b.mu.Lock()
		defer b.mu.Unlock()
		if clientID == b.curClient {
			b.offsetFetched = true
		}
		one := func(topic string, part int32) kmsg.OffsetFetchResponseTopicPartition {
			rp := kmsg.NewOffsetFetchResponseTopicPartition()
			rp.Partition, rp.Offset, rp.LeaderEpoch = part, -1, -1
			if c, ok := b.committed[c10TP{topic, part}]; ok {
				rp.Offset, rp.LeaderEpoch = c.off, c.epoch
			}
			return rp
		}
		if req.Topics == nil {
			byTopic := map[string][]int32{}
			for tp := range b.committed {
				byTopic[tp.topic] = append(byTopic[tp.topic], tp.part)
			}
			for t, ps := range byTopic {
				rt := kmsg.NewOffsetFetchResponseTopic()
				rt.Topic = t
				for _, p := range ps {
					rt.Partitions = append(rt.Partitions, one(t, p))
				}
				resp.Topics = append(resp.Topics, rt)
			}
		}
		for _, t := range req.Topics {
			rt := kmsg.NewOffsetFetchResponseTopic()
			rt.Topic = t.Topic
			for _, p := range t.Partitions {
				rt.Partitions = append(rt.Partitions, one(t.Topic, p))
			}
			resp.Topics = append(resp.Topics, rt)
		}
		return resp, nil

	case *kmsg.ListOffsetsRequest:
		resp := req.ResponseKind().(*kmsg.ListOffsetsResponse)
		b.mu.Lock()
		defer b.mu.Unlock()
		for _, t := range req.Topics {
			rt := kmsg.NewListOffsetsResponseTopic()
			rt.Topic = t.Topic
			for _, p := range t.Partitions {
				rp := kmsg.NewListOffsetsResponseTopicPartition()
				rp.Partition = p.Partition
				tp := c10TP{t.Topic, p.Partition}
				rp.Timestamp, rp.LeaderEpoch = -1, b.curEpoch(tp)
				switch p.Timestamp {
				case -2:
					rp.Offset = 0
				default: // -1 (latest) and timestamps: the end
					rp.Offset = b.endOffset(tp)
				}
				rt.Partitions = append(rt.Partitions, rp)
			}
			resp.Topics = append(resp.Topics, rt)
		}
		return resp, nil

	case *kmsg.OffsetForLeaderEpochRequest:
		resp := req.ResponseKind().(*kmsg.OffsetForLeaderEpochResponse)
		b.mu.Lock()
		defer b.mu.Unlock()
		for _, t := range req.Topics {
			rt := kmsg.NewOffsetForLeaderEpochResponseTopic()
			rt.Topic = t.Topic
			for _, p := range t.Partitions {
				rp := kmsg.NewOffsetForLeaderEpochResponseTopicPartition()
				rp.Partition = p.Partition
				tp := c10TP{t.Topic, p.Partition}
				// the largest epoch <= the requested one, and the offset where the next larger epoch starts (or the end)
				rp.LeaderEpoch, rp.EndOffset = -1, -1
				var l []c10BRec
				if ps := b.parts[t.Topic]; p.Partition >= 0 && int(p.Partition) < len(ps) {
					l = ps[p.Partition]
				}
				best := int32(-1)
				for _, r := range l {
					if r.epoch <= p.LeaderEpoch && r.epoch > best {
						best = r.epoch
					}
				}
				if best >= 0 || len(l) == 0 {
					end := b.endOffset(tp)
					for _, r := range l {
						if r.epoch > p.LeaderEpoch {
							end = r.off
							break
						}
					}
					if best < 0 {
						best = p.LeaderEpoch
					}
					rp.LeaderEpoch, rp.EndOffset = best, end
				} else { // every record is of a later epoch than the requested one: nothing is known of it, the end of the log keeps the consumer where it is
					rp.LeaderEpoch, rp.EndOffset = p.LeaderEpoch, b.endOffset(tp)
				}
				rt.Partitions = append(rt.Partitions, rp)
			}
			resp.Topics = append(resp.Topics, rt)
		}
		return resp, nil

	case *kmsg.FetchRequest:
		resp := req.ResponseKind().(*kmsg.FetchResponse)
		deadline := time.Now().Add(time.Duration(req.MaxWaitMillis) * time.Millisecond)
		b.mu.Lock()
		// the member's position on these partitions is settled: it asks for records. Only a request of the current
		// plugin instance that comes after the OffsetFetch of the current generation says so (a request of a client
		// that was closed, or of the generation before a rebalance, can be read from its socket late)
		if clientID == b.curClient && b.offsetFetched {
			for _, t := range req.Topics {
				for _, p := range t.Partitions {
					b.fetchGen[c10TP{t.Topic, p.Partition}]++
				}
			}
		}
		b.mu.Unlock()
		for {
			b.mu.Lock()
			if b.closed {
				b.mu.Unlock()
				return nil, errC10Closed
			}
			resp.Topics = resp.Topics[:0]
			any := false
			for _, t := range req.Topics {
				rt := kmsg.NewFetchResponseTopic()
				rt.Topic = t.Topic
				for _, p := range t.Partitions {
					tp := c10TP{t.Topic, p.Partition}
					b.fetchAt[tp] = p.FetchOffset
					rp := kmsg.NewFetchResponseTopicPartition()
					rp.Partition = p.Partition
					ps, ok := b.parts[t.Topic]
					if !ok || p.Partition < 0 || int(p.Partition) >= len(ps) {
						rp.ErrorCode = 3
						rt.Partitions = append(rt.Partitions, rp)
						any = true
						continue
					}
					end := b.endOffset(tp)
					rp.HighWatermark, rp.LastStableOffset, rp.LogStartOffset = end, end, 0
					var sel []c10BRec
					for _, r := range ps[p.Partition] {
						if r.off >= p.FetchOffset && (b.maxPerFetch <= 0 || len(sel) < b.maxPerFetch) {
							sel = append(sel, r)
						}
					}
					if len(sel) > 0 {
						any = true
						rp.RecordBatches = c10Batches(sel)
					}
					rt.Partitions = append(rt.Partitions, rp)
				}
				resp.Topics = append(resp.Topics, rt)
			}
			wake := b.produced
			if any && b.fetchErrEvery > 0 {
				b.fetchData++
				if b.fetchData%b.fetchErrEvery == 0 {
				inject:
					for i := range resp.Topics {
						for j := range resp.Topics[i].Partitions {
							if rp := &resp.Topics[i].Partitions[j]; len(rp.RecordBatches) > 0 {
								rp.RecordBatches, rp.ErrorCode = nil, 29
								b.fetchErrs++
								break inject
							}
						}
					}
				}
			}
			if any || !time.Now().Before(deadline) {
				b.mu.Unlock()
				return resp, nil
			}
			b.mu.Unlock()
			tm := time.NewTimer(time.Until(deadline))
			select {
			case <-wake:
			case <-tm.C:
			}
			tm.Stop()
		}
	}
	return nil, errors.New("unhandled request")
}

var c10Castagnoli = crc32.MakeTable(crc32.Castagnoli)

// record batches (magic 2): one batch per run of records with the same leader epoch
func c10Batches(recs []c10BRec) []byte {
	var out []byte
	for i := 0; i < len(recs); {
		j := i
		for j < len(recs) && recs[j].epoch == recs[i].epoch && recs[j].off-recs[i].off < 1<<30 {
			j++
		}
		base := recs[i].off
		var body []byte
		for _, r := range recs[i:j] {
			kr := kmsg.Record{OffsetDelta: int32(r.off - base), Value: r.val}
			enc := kr.AppendTo(nil) // Length 0 is one byte
			kr.Length = int32(len(enc) - 1)
			body = kr.AppendTo(body)
		}
		rb := kmsg.RecordBatch{FirstOffset: base, PartitionLeaderEpoch: recs[i].epoch, Magic: 2, LastOffsetDelta: int32(recs[j-1].off - base),
			FirstTimestamp: 1, MaxTimestamp: 1, ProducerID: -1, ProducerEpoch: -1, FirstSequence: -1, NumRecords: int32(j - i), Records: body}
		enc := rb.AppendTo(nil)
		binary.BigEndian.PutUint32(enc[8:], uint32(len(enc)-12))
		binary.BigEndian.PutUint32(enc[17:], crc32.Checksum(enc[21:], c10Castagnoli))
		out = append(out, enc...)
		i = j
	}
	return out
}
