package main

// C10 — Kafka input, packing and marks. Runs the REAL assemble*/disassemble* functions, the real
// per-partition consumer loop (pconsumer.consume) and the real Plugin.Commit against a real,
// never-connected kgo client (so kgo's own MarkCommitOffsets / MarkedOffsets hold the marks).
//
//  which=0  pack     case = (index partition offset epoch)       obs = (sid index' partition' packed markOffset markEpoch)
//  which=1  unpack   case = (sid packed)                         obs = (index' partition' markOffset markEpoch)
//  which=2  consume+commit
//                    case = ((topic ...) ((topicIdx partition offset epoch) ...) (k ...))
//                    obs  = (((sid packed) ...) status (marks ...))   marks = ((topic partition offset epoch) ...) sorted
//  which=3  raw commit
//                    case = ((topic ...) ((sid packed) ...))     obs = (status (marks ...))
//  which=4  consumer-group session on the real splitConsume.Assigned / Lost / pconsumer goroutines: see session.go
//  which=5  the real plugin (Start / NewClient / poll loop / Stop) against an in-process Kafka broker, restarts: see group.go, broker.go
//  status 0 = every Commit returned; 2 = a Commit panicked with index out of range (run stops); 1 = other panic

import (
	"bytes"
	"fmt"
	"math"
	"os"
	"sort"
	"strconv"
	"strings"

	"github.com/ozontech/file.d/decoder"
	"github.com/ozontech/file.d/pipeline"
	"github.com/ozontech/file.d/pipeline/metadata"
	kafka "github.com/ozontech/file.d/plugin/input/kafka"
	"github.com/twmb/franz-go/pkg/kgo"

	"verif/harness/hmain"
	"verif/harness/hx"
	"verif/harness/pipedrv"
)

// ---- recording controller -------------------------------------------------------------------
type c10Event struct {
	sid pipeline.SourceID
	off int64
}
type c10Ctl struct{ evs []c10Event }

func (c *c10Ctl) In(id pipeline.SourceID, _ string, o pipeline.Offsets, _ []byte, _ bool, _ metadata.MetaData) uint64 {
	c.evs = append(c.evs, c10Event{id, o.VerifC10Current()})
	return 1
}
func (c *c10Ctl) UseSpread()                        {}
func (c *c10Ctl) DisableStreams()                   {}
func (c *c10Ctl) SuggestDecoder(decoder.Type)       {}
func (c *c10Ctl) IncReadOps()                       {}
func (c *c10Ctl) IncMaxEventSizeExceeded(...string) {}

// ---- observables ----------------------------------------------------------------------------
type c10Mark struct {
	topic     string
	partition int32
	eo        kgo.EpochOffset
}

func c10Marks(m map[string]map[int32]kgo.EpochOffset) []c10Mark {
	var out []c10Mark
	for t, ps := range m {
		for p, eo := range ps {
			out = append(out, c10Mark{t, p, eo})
		}
	}
	sort.Slice(out, func(i, j int) bool {
		if c := bytes.Compare([]byte(out[i].topic), []byte(out[j].topic)); c != 0 {
			return c < 0
		}
		return out[i].partition < out[j].partition
	})
	return out
}

func c10MarksSx(ms []c10Mark) hx.Sx {
	return hx.List(ms, func(m c10Mark) hx.Sx {
		return hx.L(hx.S(m.topic), hx.Z(int64(m.partition)), hx.Z(m.eo.Offset), hx.Z(int64(m.eo.Epoch)))
	})
}

func c10Status(p string) int {
	switch {
	case p == "":
		return 0
	case strings.HasSuffix(p, "index-range"):
		return 2
	}
	return 1
}

var c10W *hx.Writer // for the oracle bookkeeping (nil during --replay)

// commits the events in order on a fresh plugin; returns status and the marks after every commit
func c10CommitAll(pl *kafka.VerifC10Plugin, calls []c10Event) (int, []hx.Sx) {
	var steps []hx.Sx
	// shadow of kgo's rule, evaluated with kgo's own EpochOffset.Less on what MarkedOffsets showed
	for _, ev := range calls {
		before := pl.Marked()
		p := hx.Catch(func() { pl.Commit(ev.sid, ev.off) })
		if p != "" {
			return c10Status(p), steps
		}
		after := pl.Marked()
		steps = append(steps, c10MarksSx(c10Marks(after)))
		if c10W != nil {
			// oracle: exactly one head may differ, and it moved forward in kgo's order; every other head is unchanged
			changed, ok := 0, true
			for t, ps := range after {
				for pt, h := range ps {
					old, had := before[t][pt]
					if !had {
						changed++
					} else if old != h {
						changed++
						if !old.Less(h) {
							ok = false
						}
					}
				}
			}
			for t, ps := range before {
				for pt := range ps {
					if _, still := after[t][pt]; !still {
						// a head can only disappear from MarkedOffsets by becoming the zero EpochOffset
						ok = ok && before[t][pt].Less(kgo.EpochOffset{})
						changed++
					}
				}
			}
			c10W.Oracle("kgo MarkCommitOffsets: at most one head changes per Commit and only forward in EpochOffset.Less order", ok && changed <= 1,
				fmt.Sprintf("before=%v after=%v", before, after))
		}
	}
	return 0, steps
}

func c10Topics(s hx.Sx) []string {
	var ts []string
	for _, t := range hx.Items(s) {
		ts = append(ts, hx.Str(t))
	}
	return ts
}

func c10Exec(which int, cs hx.Sx) hx.Sx {
	it := hx.Items(cs)
	switch which {
	case 0:
		index, partition, offset, epoch := int(hx.Int(it[0])), int32(hx.Int(it[1])), hx.Int(it[2]), int32(hx.Int(it[3]))
		sid := kafka.VerifC10AssembleSourceID(index, partition)
		i2, p2 := kafka.VerifC10DisassembleSourceID(sid)
		po := kafka.VerifC10AssembleOffset(offset, epoch)
		mo, me := kafka.VerifC10DisassembleOffset(po)
		return hx.L(hx.U(uint64(sid)), hx.Z(int64(i2)), hx.Z(int64(p2)), hx.Z(po), hx.Z(mo), hx.Z(int64(me)))
	case 1:
		i2, p2 := kafka.VerifC10DisassembleSourceID(pipeline.SourceID(hx.Uint(it[0])))
		mo, me := kafka.VerifC10DisassembleOffset(hx.Int(it[1]))
		return hx.L(hx.Z(int64(i2)), hx.Z(int64(p2)), hx.Z(mo), hx.Z(int64(me)))
	case 2:
		topics := c10Topics(it[0])
		pl, err := kafka.VerifC10NewPlugin(topics)
		if err != nil {
			panic(err)
		}
		defer pl.Close()
		// consume: consecutive records of one (topic, partition) form one fetch of that partition's consumer
		ctl := &c10Ctl{}
		recs := hx.Items(it[1])
		for i := 0; i < len(recs); {
			f := hx.Items(recs[i])
			topic, part := topics[int(hx.Int(f[0]))], int32(hx.Int(f[1]))
			var batch []*kgo.Record
			j := i
			for ; j < len(recs); j++ {
				g := hx.Items(recs[j])
				if topics[int(hx.Int(g[0]))] != topic || int32(hx.Int(g[1])) != part {
					break
				}
				batch = append(batch, &kgo.Record{Topic: topic, Partition: part, Offset: hx.Int(g[2]), LeaderEpoch: int32(hx.Int(g[3])), Value: []byte("{}")})
			}
			pl.VerifC10Consume(ctl, topic, part, batch)
			i = j
		}
		evs := hx.List(ctl.evs, func(e c10Event) hx.Sx { return hx.L(hx.U(uint64(e.sid)), hx.Z(e.off)) })
		var calls []c10Event
		for _, k := range hx.Items(it[2]) {
			if i := int(hx.Int(k)); i >= 0 && i < len(ctl.evs) {
				calls = append(calls, ctl.evs[i])
			} // else: the consumer delivered fewer events than records (the event list already differs from the model's)
		}
		st, steps := c10CommitAll(pl, calls)
		return hx.L(evs, hx.I(st), hx.L(steps...))
	case 3:
		topics := c10Topics(it[0])
		pl, err := kafka.VerifC10NewPlugin(topics)
		if err != nil {
			panic(err)
		}
		defer pl.Close()
		var calls []c10Event
		for _, e := range hx.Items(it[1]) {
			f := hx.Items(e)
			calls = append(calls, c10Event{pipeline.SourceID(hx.Uint(f[0])), hx.Int(f[1])})
		}
		st, steps := c10CommitAll(pl, calls)
		return hx.L(hx.I(st), hx.L(steps...))
	case 4:
		return c10ExecSession(cs)
	case 5:
		return c10ExecGroup(cs)
	}
	panic("c10: unknown which")
}

// ---- generators -----------------------------------------------------------------------------
func c10Uniq(xs []int64) []int64 {
	sort.Slice(xs, func(i, j int) bool { return xs[i] < xs[j] })
	out := xs[:0]
	for i, x := range xs {
		if i == 0 || x != xs[i-1] {
			out = append(out, x)
		}
	}
	return out
}

// every power of two and its neighbours that the type [lo,hi] can hold, plus the ends of the type
func c10Boundaries(lo, hi int64, maxBit uint) []int64 {
	xs := []int64{0, 1, 2, -1, -2, lo, lo + 1, hi, hi - 1}
	for k := uint(1); k <= maxBit; k++ {
		p := int64(1) << k
		for _, v := range []int64{p - 1, p, p + 1, -p - 1, -p, -p + 1} {
			xs = append(xs, v)
		}
	}
	var out []int64
	for _, x := range xs {
		if x >= lo && x <= hi {
			out = append(out, x)
		}
	}
	return c10Uniq(out)
}

func c10InRange(index, partition, offset, epoch int64) bool {
	return index >= 0 && index < 1<<48 && partition >= 0 && partition < 1<<16 && offset >= 0 && offset < 1<<47 && epoch >= 0 && epoch < 1<<16
}

func c10Pack(c *hmain.Ctx, stream string, index, partition, offset, epoch int64) {
	in := c10InRange(index, partition, offset, epoch)
	if in {
		c.W.Count("pack_in_range")
	} else {
		c.W.Count("pack_out_of_range")
	}
	if epoch == -1 {
		c.W.Count("pack_epoch_unknown(-1)")
	}
	c.Do(stream, 0, hx.L(hx.Z(index), hx.Z(partition), hx.Z(offset), hx.Z(epoch)), in && index > 0 && partition > 0 && offset > 0 && epoch > 0)
}

func c10Gen(c *hmain.Ctx) {
	c10W = c.W
	r := c.R
	c.W.Oracle("Go int is 64 bits wide (strconv.IntSize)", strconv.IntSize == 64, "IntSize="+strconv.Itoa(strconv.IntSize))
	if os.Getenv("C10_ONLY") == "topics" { // development aid: only the streams about the topics list
		c10GenTopicLists(c)
		c10GenGroup(c)
		return
	}

	// 1. boundary sweep: every power of two, +-1, inside and just outside the stated ranges and up to
	// the ends of the Go types; all (index, partition) pairs and all (offset, epoch) pairs
	bIndex := c10Boundaries(math.MinInt64, math.MaxInt64, 62)
	bPart := c10Boundaries(math.MinInt32, math.MaxInt32, 30)
	bOff := bIndex
	bEpoch := bPart
	type pr struct{ a, b int64 }
	var sidPairs, offPairs []pr
	for _, a := range bIndex {
		for _, b := range bPart {
			sidPairs = append(sidPairs, pr{a, b})
		}
	}
	for _, a := range bOff {
		for _, b := range bEpoch {
			offPairs = append(offPairs, pr{a, b})
		}
	}
	n := len(sidPairs)
	if len(offPairs) > n {
		n = len(offPairs)
	}
	for i := 0; i < n; i++ {
		s, o := sidPairs[i%len(sidPairs)], offPairs[(i*7919)%len(offPairs)]
		c10Pack(c, "boundary", s.a, s.b, o.a, o.b)
	}
	// the corners of the stated ranges, all 16 combinations, with a valid partner
	for m := 0; m < 16; m++ {
		v := func(bit int, hi int64) int64 {
			if m&(1<<bit) != 0 {
				return hi
			}
			return 0
		}
		c10Pack(c, "boundary", v(0, 1<<48-1), v(1, 1<<16-1), v(2, 1<<47-1), v(3, 1<<16-1))
		c10Pack(c, "boundary", v(0, 1<<48), v(1, 1<<16), v(2, 1<<47), v(3, 1<<16)) // first value outside
	}

	// 2. exhaustive small scope, and every partition x every epoch value once
	for index := int64(0); index < 4; index++ {
		for part := int64(0); part < 16; part++ {
			for off := int64(0); off < 16; off++ {
				for ep := int64(0); ep < 4; ep++ {
					c10Pack(c, "exhaustive", index, part, off, ep)
				}
			}
		}
	}
	for v := int64(0); v < 1<<16; v++ {
		c10Pack(c, "exhaustive-16bit", v%5, v, (v*2654435761)%(1<<47), (v*40503+12345)%(1<<16))
	}
	c.W.Count("exhaustive_index<4_partition<16_offset<16_epoch<4")
	c.W.Count("exhaustive_all_65536_partitions_and_epochs")

	// 3. random tuples
	rnd := func(bits uint) int64 { return int64(r.U64() >> (64 - bits)) }
	for i := 0; i < 100000*c.Scale; i++ {
		var index, part, off, ep int64
		switch r.Intn(10) {
		case 0: // anything the Go types can hold
			index, part, off, ep = int64(r.U64()), int64(int32(r.U64())), int64(r.U64()), int64(int32(r.U64()))
		case 1: // one component just outside
			index, part, off, ep = rnd(48), rnd(16), rnd(47), rnd(16)
			switch r.Intn(5) {
			case 0:
				index += 1 << 48
			case 1:
				part += 1 << 16
			case 2:
				off += 1 << 47
			case 3:
				ep += 1 << 16
			case 4:
				ep = -1 // LeaderEpoch unknown
			}
		case 2: // small values
			index, part, off, ep = int64(r.Intn(8)), int64(r.Intn(64)), int64(r.Intn(100000)), int64(r.Intn(8))
		default: // anywhere in the stated ranges, magnitudes spread over all bit lengths
			index, part, off, ep = rnd(uint(1+r.Intn(48))), rnd(uint(1+r.Intn(16))), rnd(uint(1+r.Intn(47))), rnd(uint(1+r.Intn(16)))
		}
		c10Pack(c, "random", index, part, off, ep)
	}

	// 4. unpacking of arbitrary bit patterns
	for _, a := range bIndex {
		for _, b := range []int64{0, -1, 1 << 16, -(1 << 16), 65535, math.MaxInt64, math.MinInt64} {
			c.Do("unpack", 1, hx.L(hx.U(uint64(a)), hx.Z(b)), true)
			c.Do("unpack", 1, hx.L(hx.U(uint64(b)), hx.Z(a)), true)
		}
	}
	for i := 0; i < 10000*c.Scale; i++ {
		c.Do("unpack", 1, hx.L(hx.U(r.U64()>>uint(r.Intn(64))), hx.Z(int64(r.U64())>>uint(r.Intn(64)))), true)
	}

	// 5. consume + commit sequences over a few partitions
	names := []string{"a", "b", "logs", "a.b-c_d", "topic-with-a-long-name-0123456789"}
	for i := 0; i < 6000*c.Scale; i++ {
		nt := r.Range(1, 4)
		var topics []string
		for len(topics) < nt {
			topics = append(topics, names[r.Intn(len(names))]+strconv.Itoa(r.Intn(3)))
		}
		dup := false
		for a := range topics {
			for b := a + 1; b < len(topics); b++ {
				dup = dup || topics[a] == topics[b]
			}
		}
		if dup {
			c.W.Count("commit_duplicate_topic_names")
		}
		adversarial := r.Chance(1, 6)
		// a few (topic, partition) logs, each with ascending offsets and non-decreasing epochs
		type plog struct {
			ti           int
			part, off, e int64
		}
		var logs []plog
		for k := r.Range(1, 3); k > 0; k-- {
			l := plog{ti: r.Intn(nt), part: rnd(uint(1 + r.Intn(16))), off: rnd(uint(1 + r.Intn(46))), e: int64(r.Intn(5))}
			if r.Chance(1, 3) {
				l.part = int64(r.Intn(3))
			}
			if r.Chance(1, 8) {
				l.e = 65535 - int64(r.Intn(2))
			}
			if adversarial {
				switch r.Intn(6) {
				case 0:
					l.e = -1
				case 1:
					l.part = 1<<16 + int64(r.Intn(4))
				case 2:
					l.off = 1<<47 - int64(r.Intn(3))
				case 3:
					l.off = -int64(r.Intn(3))
				case 4:
					l.e = 1<<16 + int64(r.Intn(3))
				case 5:
					l.part = -1
				}
			}
			logs = append(logs, l)
		}
		var recs []hx.Sx
		nrec := r.Range(1, 10)
		inRange := true
		for k := 0; k < nrec; k++ {
			l := &logs[r.Intn(len(logs))]
			recs = append(recs, hx.L(hx.I(l.ti), hx.Z(l.part), hx.Z(l.off), hx.Z(l.e)))
			inRange = inRange && c10InRange(0, l.part, l.off, l.e)
			l.off += int64(1 + r.Intn(3))
			if r.Chance(1, 5) && l.e >= 0 && l.e < 65535 {
				l.e++ // leader change
			}
			if adversarial && r.Chance(1, 4) && l.e > 0 {
				l.e-- // an epoch going backwards: impossible in a Kafka log, kgo then orders by epoch first
				c.W.Count("commit_epoch_going_backwards")
			}
		}
		// Commit calls: a permutation (completion order != offset order), sometimes with repeats and omissions
		var order []hx.Sx
		perm := make([]int, nrec)
		for k := range perm {
			perm[k] = k
		}
		for k := nrec - 1; k > 0; k-- {
			j := r.Intn(k + 1)
			perm[k], perm[j] = perm[j], perm[k]
		}
		if r.Chance(1, 4) {
			sort.Ints(perm) // in order
		}
		for _, k := range perm {
			if r.Chance(1, 8) {
				continue
			}
			order = append(order, hx.I(k))
			if r.Chance(1, 10) {
				order = append(order, hx.I(r.Intn(nrec)))
			}
		}
		if inRange {
			c.W.Count("commit_cases_in_range")
		} else {
			c.W.Count("commit_cases_out_of_range")
		}
		c.Do("commit", 2, hx.L(hx.Ss(topics), hx.L(recs...), hx.L(order...)), inRange && len(order) >= 3)
	}

	// 6. Commit of raw events: any bit pattern, topic index possibly outside the list
	for i := 0; i < 2000*c.Scale; i++ {
		nt := r.Range(1, 3)
		var topics []string
		for k := 0; k < nt; k++ {
			topics = append(topics, names[k])
		}
		var evs []hx.Sx
		for k := r.Range(1, 6); k > 0; k-- {
			var sid uint64
			switch r.Intn(4) {
			case 0:
				sid = r.U64() >> uint(r.Intn(64))
			default:
				sid = uint64(r.Intn(nt+1))<<16 | uint64(r.Intn(4))
				if r.Chance(1, 20) {
					sid |= 1 << 63
				}
			}
			off := int64(r.U64()) >> uint(r.Intn(64))
			if r.Chance(1, 2) {
				off = int64(r.Intn(50))<<16 | int64(r.Intn(3))
			}
			if r.Chance(1, 10) {
				off = -1 - int64(r.Intn(70000)) // offset -1 / epoch 0 gives the zero head that MarkedOffsets hides
			}
			evs = append(evs, hx.L(hx.U(sid), hx.Z(off)))
		}
		c.Do("raw-commit", 3, hx.L(hx.Ss(topics), hx.L(evs...)), true)
	}

	// 6b. the topics list itself: repeats, permutations, prefixes (gentopics.go)
	c10GenTopicLists(c)

	// 7. scale / history thresholds of consumer.go (gen37.go): big fetches, many fetches, long commit histories, sessions
	c10GenThresholds(c)

	// 8. the real plugin (Start / NewClient / poll loop / Stop) in a consumer group on an in-process broker; restarts (gengroup.go)
	c10GenGroup(c)
}

var (
	c10FamDiscardSpread = pipedrv.Opts{Procs: []int{2, 3, 4}, Actions: [2]int{1, 3}, Ops: "ppdd", HoldCol: true, DiscardCol: true, OutKinds: []int{1, 1, 2},
		Spread: true, Sources: [2]int{1, 3}, Streams: [2]int{1, 1}, Events: [2]int{8, 30}, Flush: [2]int{30, 120}}
	c10FamDiscardOne = pipedrv.Opts{Procs: []int{1}, Actions: [2]int{1, 3}, Ops: "ppdd", HoldCol: true, DiscardCol: true, OutKinds: []int{1, 1, 2},
		Spread: true, Sources: [2]int{1, 3}, Streams: [2]int{1, 1}, Events: [2]int{8, 30}, Flush: [2]int{30, 120}}
)

func main() {
	hmain.Run(&hmain.Prop{ID: "C10",
		Rule: "boundary: all powers of two and their neighbours up to the ends of the Go types, all (index,partition) and (offset,epoch) pairs, and the 16 corners of the stated ranges inside/just outside; exhaustive: index<4 x partition<16 x offset<16 x epoch<4 and every one of the 65536 partition and epoch values; random tuples (70% inside the stated ranges over all bit lengths); unpacking of arbitrary bit patterns; random consume+Commit sequences (permuted completion order, repeats, omissions, duplicate topic names, epoch -1 / out-of-range components) on the real Commit + real kgo marks; raw events incl. topic index outside the list; consumer.go thresholds (gen37.go): one fetch of 255..700 records (bufferSize 256), 6..40 fetches of one partition, 150..300 Commit calls on one plugin, directed and random consumer-group sessions on the real Assigned / Lost / pconsumer goroutines (bursts of 6..12 fetches on one consumer, Lost with 0..6 buffered fetches incl. the full channel of 5, fetches for partitions without a consumer, re-assignment with redelivery); which=5 (group.go, broker.go, gengroup.go): the real plugin through Factory / Start / NewClient / the poll loop / Stop in a consumer group on an in-process Kafka broker, several plugin lifetimes on one group (restart after Stop, after a refused final commit, rebalances), all balancers, both offset settings, meta templates, PollRecords limits 1..256, optionally the real pipeline between In and Commit; the topics list itself (gentopics.go, gengroup.go): every list of 1..4 positions over a / ab / b through the real consumer loop and Commit (commit-topics), random lists of 2..8 positions over seven prefix / near-miss names with partial acknowledgement (commit-topics-random), such lists through Assigned / Lost sessions (session-topics) and through the whole plugin in a consumer group (group-topics-directed: repeats with other names behind them, all orders of three names, prefix names; group-topics: random lists), each acknowledgement judged per Commit call against the records acknowledged by then. Non-trivial = all four components positive and inside the ranges (pack), an in-range sequence with >= 3 Commit calls (commit), every unpack / raw case, an in-range session that routed at least one record; distinct = distinct (sub-model, case) text.",
		Gen: func(c *hmain.Ctx) {
			c10Gen(c)
			if os.Getenv("C10_ONLY") != "" {
				return
			}
			// frontier clause at pipeline level: a kafka-like input (UseSpread + DisableStreams) on the
			// real pipeline; monitor = per-source (partition) commit frontier
			pipedrv.GenFamilies(c, pipedrv.PipeWhich, []pipedrv.Fam{{Stream: "spread-frontier", Opts: pipedrv.FamSpread, N: 40}, {Stream: "spread-split", Opts: pipedrv.FamSpreadSplit, N: 20},
				// records an action discards / holds / collapses in front of a batching output that acknowledges late (flush
				// time-out 30..120 ms, batches of 1..4, retriable output too), several records per partition, 2..4 processors:
				// monitor 18 (a commit notification for a record that never reached the output is no evidence for earlier
				// records of its partition) next to monitor 8
				{Stream: "spread-frontier", Opts: c10FamDiscardSpread, N: 24},
				// the same with ONE processor: spread routing puts everything on one stream, the batcher commits in order, so
				// the full per-source frontier (monitor 8) holds and is claimed
				{Stream: "discard-frontier-1p", Opts: c10FamDiscardOne, N: 16}})
		},
		Exec: pipedrv.WrapExec(c10Exec)})
}
