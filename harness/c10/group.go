package main

// C10, which=5 — the REAL kafka input plugin end to end against the in-process broker of broker.go:
// Factory -> Plugin.Start (metrics, meta templater, idByTopic, the real NewClient with every option of client.go,
// UseSpread / DisableStreams, the real poll loop splitConsume.consume with the real routing closure) -> kgo joins the
// group and calls the real Assigned -> real pconsumer goroutines -> In -> Commit -> kgo marks -> OffsetCommit at the
// broker (kgo's CommitMarkedOffsets: Plugin.Stop calls it, and the harness calls it on the plugin's own client as the
// "auto-commit tick" — kgo's auto-commit loop does exactly this every auto_commit_interval, which is set to an hour
// here so that the moment of a commit is the case's, not the clock's) -> Plugin.Stop -> a NEW plugin on the same
// group: what the property's last sentence is about ("a restart of the consumer group from the committed offsets
// redelivers everything unfinished").
//
//	case = ((topic ...) (np ...) cfg (fetch ...) (phase ...))
//	  np      partitions of the i-th topic (a name listed twice gets the larger number)
//	  cfg     (offset balancer meta bufferSize maxConc kip320 maxPerFetch mode maxEventSize fetchErrEvery antispam)
//	            offset 0 newest / 1 oldest (kafka.OffsetType); balancer 0 round-robin 1 range 2 sticky 3 cooperative-sticky
//	            4 "" (kgo's default); meta 0 none / 1 templates topic, partition, offset (the check looks at the topic) /
//	            2 the same templates, the check looks at all three (stream group-meta-strict); bufferSize = channel_buffer_size
//	            (PollRecords' limit); maxConc = max_concurrent_consumers (capacity of a consumer's channel); kip320: the
//	            broker offers OffsetForLeaderEpoch (otherwise kgo drops the leader epoch of a fetched commit); maxPerFetch:
//	            records of one partition per Fetch response (0 = all); mode 0 = a recording controller, Commit called on
//	            the plugin; mode 1 = the real pipeline (pipeline.New, the plugin as its input, an output that acknowledges
//	            at once): In decodes / drops, the events travel through the spread processors, the output's
//	            controller.Commit reaches Plugin.Commit through Pipeline.finalize — every delivered event is committed,
//	            in the processors' completion order, the ops (1 ..) are ignored; maxEventSize = settings.MaxEventSize;
//	            fetchErrEvery n > 0: every n-th Fetch response with records carries an error kgo does not retry instead of
//	            the records of one partition (the poll loop counts and logs it, consumer.go:89-94; the records come with the next fetch);
//	            antispam n > 0 (mode 1): settings.Antispam.Threshold = n — no kafka record is banned, the consumer says
//	            isNewSource with every record
//	  fetch   (ti part (off epoch kind) ...)   records appended to the partition's log; kind 0 {"o":..} 1 empty value
//	            2 not JSON 3 longer than maxEventSize (kinds 1..3 never leave Pipeline.In in mode 1)
//	            4 {"o":..,"x":"1"} (mode 2 only: mode 1 + an action that discards these records + an output that
//	            acknowledges 2..8 ms late; a discarded record is never handed to the output and never committed)
//	  the 4th element: records in the log before the first Start
//	  phase   ((op ...) end): one plugin lifetime. Start, wait until every partition has been fetched from and everything
//	          to be expected has been delivered; then the ops:
//	            (0 fetch ...)   append records, wait for their delivery
//	            (1 k ...)       Commit of the (k mod n)-th of the n events delivered so far in this lifetime (group order)
//	            (2)             commit tick: CommitMarkedOffsets on the plugin's kgo client
//	            (3)             rebalance: the broker answers the next heartbeat REBALANCE_IN_PROGRESS; an eager member
//	                            (balancer 0..2) is called Lost(all), rejoins, is called Assigned(all) and refetches from the
//	                            committed offsets; a cooperative member keeps its partitions
//	          end 0 = Stop; 1 = Stop while the broker refuses OffsetCommit (a crash as far as Kafka can tell: the marks
//	          are lost, Stop's error branch runs)
//	obs  = (status (phase-obs ...))   phase-obs = ((step ...) (group ...) committed)
//	  step: per Commit call kgo's MarkedOffsets, per tick the broker's committed offsets; group = (sid (packed ...)) in
//	  delivery order (mode 1: ascending, the processors reorder); committed = the broker's offsets after Stop;
//	  marks / committed = ((topic partition offset epoch) ...) sorted
//	  status 0 ok, 1 panic, 3 stuck (a wait of 5 s expired), 4 the broker met a request it does not speak,
//	  5 the meta data handed to In does not describe the record

import (
	"context"
	"fmt"
	"os"
	"reflect"
	"runtime"
	"sort"
	"strconv"
	"strings"
	"sync"
	"time"

	"github.com/ozontech/file.d/cfg"
	"github.com/ozontech/file.d/decoder"
	"github.com/ozontech/file.d/metric"
	"github.com/ozontech/file.d/pipeline"
	"github.com/ozontech/file.d/pipeline/metadata"
	kafka "github.com/ozontech/file.d/plugin/input/kafka"
	"github.com/prometheus/client_golang/prometheus"
	"github.com/twmb/franz-go/pkg/kgo"
	"go.uber.org/zap"

	"verif/harness/hx"
)

type c10GCfg struct {
	oldest      bool
	balancer    int
	meta        int
	bufSize     int
	maxConc     int
	kip320      bool
	maxPerFetch int
	mode        int
	maxSize     int
	fetchErr    int
	antispam    int
}

var c10Balancers = []string{"round-robin", "range", "sticky", "cooperative-sticky", ""}

func (g c10GCfg) cooperative() bool { return g.balancer >= 3 }

// ---- what the plugin delivers to --------------------------------------------------------------
type c10GEvent struct {
	sid       pipeline.SourceID
	off       int64
	committed bool
}

type c10Sink struct {
	mu       sync.Mutex
	evs      []*c10GEvent
	metaBad  bool
	discards int // mode 2: events the discarding action answered ActionDiscard for
	late     bool
	idBy     map[string]int
	meta     int // 0 no templates; 1 templates, the topic is checked; 2 templates, topic, partition and offset are checked
}

func (s *c10Sink) add(e *c10GEvent) {
	s.mu.Lock()
	s.evs = append(s.evs, e)
	s.mu.Unlock()
}
func (s *c10Sink) count() int {
	s.mu.Lock()
	defer s.mu.Unlock()
	return len(s.evs)
}

// mode 0: the controller handed to Plugin.Start
type c10GCtl struct{ s *c10Sink }

func (c *c10GCtl) In(id pipeline.SourceID, name string, o pipeline.Offsets, _ []byte, _ bool, md metadata.MetaData) uint64 {
	off := o.VerifC10Current()
	if c.s.meta > 0 {
		// the templates are {{ .topic }}, {{ .partition }}, "o{{ .offset }}": they must describe this very record
		idx, part := kafka.VerifC10DisassembleSourceID(id)
		mo, _ := kafka.VerifC10DisassembleOffset(off)
		ok := c.s.idBy[md["topic"]] == idx && md["partition"] != "" && md["offset"] != ""
		if c.s.meta == 2 {
			ok = ok && md["partition"] == strconv.Itoa(int(part)) && md["offset"] == "o"+strconv.FormatInt(mo-1, 10)
		}
		if !ok || name != "kafka" {
			c.s.mu.Lock()
			c.s.metaBad = true
			c.s.mu.Unlock()
		}
	} else if len(md) != 0 {
		c.s.mu.Lock()
		c.s.metaBad = true
		c.s.mu.Unlock()
	}
	c.s.add(&c10GEvent{sid: id, off: off})
	return 1
}
func (c *c10GCtl) UseSpread()                        {}
func (c *c10GCtl) DisableStreams()                   {}
func (c *c10GCtl) SuggestDecoder(decoder.Type)       {}
func (c *c10GCtl) IncReadOps()                       {}
func (c *c10GCtl) IncMaxEventSizeExceeded(...string) {}

// mode 1: the output of the real pipeline. It acknowledges every event at once (like output/devnull): an output that
// held events back would stall the pipeline itself, a stream hands out its next events only after the last one taken
// from it was committed (stream.tryDetach). So in mode 1 every delivered event is committed, in the order the
// processors finish; the ops (1 k ...) do nothing.
type c10GOut struct {
	s   *c10Sink
	ctl pipeline.OutputPluginController
}

func (o *c10GOut) Start(_ pipeline.AnyConfig, p *pipeline.OutputPluginParams) { o.ctl = p.Controller }
func (o *c10GOut) Stop()                                                      {}
func (o *c10GOut) Out(e *pipeline.Event) {
	if o.s.meta > 0 {
		idx, part := kafka.VerifC10DisassembleSourceID(e.SourceID)
		mo, _ := kafka.VerifC10DisassembleOffset(e.Offset)
		t := e.Root.Dig("topic")
		p := e.Root.Dig("partition")
		f := e.Root.Dig("offset")
		ok := t != nil && p != nil && f != nil && o.s.idBy[t.AsString()] == idx
		if ok && o.s.meta == 2 {
			ok = p.AsString() == strconv.Itoa(int(part)) && f.AsString() == "o"+strconv.FormatInt(mo-1, 10)
		}
		if !ok {
			o.s.mu.Lock()
			o.s.metaBad = true
			o.s.mu.Unlock()
		}
	}
	ge := &c10GEvent{sid: e.SourceID, off: e.Offset, committed: true}
	if o.s.late {
		// mode 2: the acknowledgement comes 2..8 ms later from another goroutine; the event counts as delivered then
		go func(d time.Duration) {
			time.Sleep(d)
			o.ctl.Commit(e)
			o.s.add(ge)
		}(time.Duration(2+3*(uint64(e.Offset>>16)%3)) * time.Millisecond)
		return
	}
	o.ctl.Commit(e) // Pipeline.Commit -> finalize -> the real Plugin.Commit; the event object is recycled after this
	o.s.add(ge)
}

// ---- one plugin lifetime -----------------------------------------------------------------------
type c10Life struct {
	g        c10GCfg
	b        *c10Broker
	topics   []string
	all      []c10TP // every partition of every topic
	plug     *kafka.Plugin
	vp       *kafka.VerifC10Plugin
	pipe     *pipeline.Pipeline
	out      *c10GOut
	sink     *c10Sink
	want     int
	wantDisc int
	stuck    bool
	panic_   string
	clientID string
}

func c10Deliverable(g c10GCfg, kind int) bool { return g.mode == 0 || kind == 0 }

// mode 2 = mode 1 with a discarding action in front of an output that acknowledges LATE: a record of kind 4
// ({"o":..,"x":"1"}) is discarded by the action (ActionDiscard; never handed to the output, never acknowledged), the
// output acknowledges every other record 2..8 ms after Out from a goroutine of its own.  While a record waits there, later
// records of its partition are discarded in the other processors (spread routing): what the member marks and what the
// broker stores must belong to records the output acknowledged, never to a record that was only discarded.
func c10Discarded(g c10GCfg, kind int) bool { return g.mode == 2 && kind == 4 }

type c10GDiscard struct{ s *c10Sink }

func (a *c10GDiscard) Start(pipeline.AnyConfig, *pipeline.ActionPluginParams) {}
func (a *c10GDiscard) Stop()                                                  {}
func (a *c10GDiscard) Do(*pipeline.Event) pipeline.ActionResult {
	a.s.mu.Lock()
	a.s.discards++
	a.s.mu.Unlock()
	return pipeline.ActionDiscard
}

func c10Value(off int64, kind int, maxSize int) []byte {
	switch kind {
	case 1:
		return []byte{}
	case 2:
		return []byte("not json " + strconv.FormatInt(off, 10))
	case 3:
		return []byte(`{"o":` + strconv.FormatInt(off, 10) + `,"pad":"` + strings.Repeat("x", maxSize) + `"}`)
	case 4:
		return []byte(`{"o":` + strconv.FormatInt(off, 10) + `,"x":"1"}`)
	}
	return []byte(`{"o":` + strconv.FormatInt(off, 10) + `}`)
}

func (l *c10Life) waitFor(cond func() bool) bool {
	if l.stuck {
		return false
	}
	deadline := time.Now().Add(c10Wait)
	for i := 0; !cond(); i++ {
		if i < 200 {
			runtime.Gosched()
			continue
		}
		if time.Now().After(deadline) {
			l.stuck = true
			if os.Getenv("C10_DEBUG") != "" {
				l.b.mu.Lock()
				fmt.Fprintf(os.Stderr, "c10 group stuck: want=%d have=%d fetchAt=%v fetchGen=%v joins=%d leaves=%d member=%q committed=%v bad=%q log=%v\n",
					l.want, l.sink.count(), l.b.fetchAt, l.b.fetchGen, l.b.joins, l.b.leaves, l.b.member, l.b.committed, l.b.badReq, l.b.reqLog)
				l.b.mu.Unlock()
			}
			return false
		}
		time.Sleep(50 * time.Microsecond)
	}
	return true
}

func (l *c10Life) config() *kafka.Config {
	_, pc := kafka.Factory()
	c := pc.(*kafka.Config)
	c.Brokers = []string{l.b.addr()}
	// the plugin gets a list of its own: code that rewrites config.Topics must not rewrite the harness' reading of the case
	c.Topics = append([]string(nil), l.topics...)
	c.ConsumerGroup = "verif-c10-group"
	c.ClientID = l.clientID
	c.ChannelBufferSize = l.g.bufSize
	c.MaxConcurrentConsumers = l.g.maxConc
	c.MaxConcurrentFetches = 0
	c.FetchMaxBytes_ = 52428800
	c.FetchMinBytes_ = 1
	c.Offset_ = kafka.OffsetTypeNewest
	if l.g.oldest {
		c.Offset_ = kafka.OffsetTypeOldest
	}
	c.Balancer = c10Balancers[l.g.balancer]
	c.ConsumerMaxWaitTime_ = 50 * time.Millisecond
	c.AutoCommitInterval_ = time.Hour // the case decides when kgo commits (op 2 / Stop), not the clock
	c.SessionTimeout_ = 10 * time.Second
	c.HeartbeatInterval_ = 15 * time.Millisecond
	if l.g.meta >= 1 {
		c.Meta = cfg.MetaTemplates{"topic": "{{ .topic }}", "partition": "{{ .partition }}", "offset": "o{{ .offset }}"}
	}
	return c
}

func (l *c10Life) start() {
	pi, _ := kafka.Factory()
	l.plug = pi.(*kafka.Plugin)
	l.vp = &kafka.VerifC10Plugin{P: l.plug}
	l.sink = &c10Sink{idBy: map[string]int{}, meta: l.g.meta}
	for i, t := range l.topics {
		l.sink.idBy[t] = i
	}
	l.b.mu.Lock()
	l.b.kip320, l.b.maxPerFetch, l.b.fetchErrEvery = l.g.kip320, l.g.maxPerFetch, l.g.fetchErr
	l.b.lives++
	l.clientID = "file-d-" + strconv.Itoa(l.b.lives)
	l.b.curClient, l.b.offsetFetched = l.clientID, false
	l.b.fetchGen = map[c10TP]int{}
	l.b.mu.Unlock()
	c := l.config()
	p := hx.Catch(func() {
		if l.g.mode == 0 {
			l.plug.Start(c, &pipeline.InputPluginParams{
				PluginDefaultParams: pipeline.PluginDefaultParams{PipelineName: "verif", PipelineSettings: &pipeline.Settings{MetaCacheSize: 8},
					MetricCtl: metric.NewCtl("verif", prometheus.NewRegistry(), time.Minute, 100)},
				Controller: &c10GCtl{l.sink}, Logger: zap.NewNop().Sugar()})
			return
		}
		settings := &pipeline.Settings{
			Capacity: 1024, MaintenanceInterval: time.Second * 5, EventTimeout: 30 * time.Second,
			// decoder "auto": the kafka input suggests none, Pipeline.Start falls back to JSON (pipeline.go:348-351)
			Antispam: pipeline.AntispamSettings{Threshold: -1}, AvgEventSize: 256, MetaCacheSize: 8, StreamField: "stream", Decoder: "auto",
			MaxEventSize: l.g.maxSize,
			Metric:       &pipeline.MetricSettings{HoldDuration: time.Minute, MaxLabelValueLength: 100},
		}
		if l.g.antispam > 0 {
			// the kafka consumer passes isNewSource = true with every record, which resets the source's counter: no
			// record is ever banned, whatever the threshold (antispammer.go:168-171)
			settings.Antispam.Threshold = l.g.antispam
		}
		l.pipe = pipeline.New(fmt.Sprintf("verifc10g%p", l), settings, prometheus.NewRegistry(), zap.NewNop())
		l.pipe.SetInput(&pipeline.InputPluginInfo{
			PluginStaticInfo:  &pipeline.PluginStaticInfo{Type: "kafka", Config: c},
			PluginRuntimeInfo: &pipeline.PluginRuntimeInfo{Plugin: l.plug},
		})
		if l.g.mode == 2 {
			l.sink.late = true
			sink := l.sink
			l.pipe.AddAction(&pipeline.ActionPluginStaticInfo{
				PluginStaticInfo: &pipeline.PluginStaticInfo{Type: "verifdiscard", Factory: func() (pipeline.AnyPlugin, pipeline.AnyConfig) { return &c10GDiscard{s: sink}, nil }},
				MetricName:       "discard", MatchMode: pipeline.MatchModeAnd,
				MatchConditions: pipeline.MatchConditions{{Field: []string{"x"}, Values: []string{"1"}}},
			})
		}
		l.out = &c10GOut{s: l.sink}
		l.pipe.SetOutput(&pipeline.OutputPluginInfo{
			PluginStaticInfo:  &pipeline.PluginStaticInfo{Type: "verifhold"},
			PluginRuntimeInfo: &pipeline.PluginRuntimeInfo{Plugin: l.out},
		})
		l.pipe.Start()
	})
	if p != "" {
		l.panic_, l.stuck = p, true
		return
	}
	l.establish()
}

// a (sub-)session began (Start, or Lost + Assigned of an eager rebalance): wait until the member has fetched from
// every partition, then until everything from the positions the group starts at has been delivered
func (l *c10Life) establish() {
	b := l.b
	// the positions: the committed offset, else the start (oldest) or the end (newest) of the log
	b.mu.Lock()
	exp := 0
	for _, tp := range l.all {
		pos := int64(0)
		if c, ok := b.committed[tp]; ok {
			pos = c.off
		} else if !l.g.oldest {
			pos = b.endOffset(tp)
		}
		for _, r := range b.parts[tp.topic][tp.part] {
			if r.off >= pos && c10Deliverable(l.g, r.kind) {
				exp++
			}
			if r.off >= pos && c10Discarded(l.g, r.kind) {
				l.wantDisc++
			}
		}
	}
	b.mu.Unlock()
	l.want += exp
	l.waitFor(func() bool {
		b.mu.Lock()
		defer b.mu.Unlock()
		for _, tp := range l.all {
			if b.fetchGen[tp] == 0 {
				return false
			}
		}
		return true
	})
	l.quiesce()
}

func (l *c10Life) quiesce() {
	l.waitFor(func() bool { return l.sink.count() >= l.want })
	if l.g.mode == 2 {
		l.waitFor(func() bool {
			l.sink.mu.Lock()
			defer l.sink.mu.Unlock()
			return l.sink.discards >= l.wantDisc
		})
		time.Sleep(3 * time.Millisecond) // what a discard does after the action's answer (finalize) has happened by then
	}
}

func (l *c10Life) produce(fs []c10GFetch) {
	for _, f := range fs {
		l.b.produce(f.tp, f.recs)
		for _, r := range f.recs {
			if c10Deliverable(l.g, r.kind) {
				l.want++
			}
			if c10Discarded(l.g, r.kind) {
				l.wantDisc++
			}
		}
	}
	l.quiesce()
}

// the delivered events in group order: by source id, inside a group in delivery order (mode 1: ascending)
func (l *c10Life) flat() []*c10GEvent {
	l.sink.mu.Lock()
	evs := append([]*c10GEvent(nil), l.sink.evs...)
	l.sink.mu.Unlock()
	sort.SliceStable(evs, func(i, j int) bool {
		if evs[i].sid != evs[j].sid {
			return evs[i].sid < evs[j].sid
		}
		return l.g.mode >= 1 && evs[i].off < evs[j].off
	})
	return evs
}

func c10CommittedSx(cs []c10BCommit) hx.Sx {
	return hx.List(cs, func(c c10BCommit) hx.Sx {
		return hx.L(hx.S(c.tp.topic), hx.Z(int64(c.tp.part)), hx.Z(c.off), hx.Z(int64(c.epoch)))
	})
}

func (l *c10Life) commit(ks []int64) []hx.Sx {
	l.quiesce()
	var steps []hx.Sx
	flat := l.flat()
	if len(flat) == 0 || l.stuck || l.g.mode >= 1 {
		return nil
	}
	for _, k := range ks {
		i := int(k % int64(len(flat)))
		if i < 0 {
			i += len(flat)
		}
		e := flat[i]
		p := hx.Catch(func() { l.vp.Commit(e.sid, e.off) })
		if p != "" {
			l.panic_, l.stuck = p, true
			return steps
		}
		steps = append(steps, c10MarksSx(c10Marks(l.vp.Marked())))
	}
	return steps
}

func (l *c10Life) client() *kgo.Client {
	return c10Field(reflect.ValueOf(l.plug).Elem(), "client").Interface().(*kgo.Client)
}

func (l *c10Life) tick() hx.Sx {
	ctx, cancel := context.WithTimeout(context.Background(), c10Wait)
	defer cancel()
	_ = l.client().CommitMarkedOffsets(ctx)
	return c10CommittedSx(l.b.snapshotCommitted())
}

func (l *c10Life) rebalance() {
	b := l.b
	b.mu.Lock()
	j := b.joins
	b.rebalance = true
	b.mu.Unlock()
	if !l.waitFor(func() bool {
		b.mu.Lock()
		defer b.mu.Unlock()
		return b.joins > j && b.assignment != nil
	}) {
		return
	}
	if !l.g.cooperative() {
		l.establish()
		return
	}
	// a cooperative member keeps fetching; let one more heartbeat pass so that the session is settled
	l.waitFor(func() bool {
		b.mu.Lock()
		defer b.mu.Unlock()
		return b.heartbeats > 0
	})
}

func (l *c10Life) stop(refuse bool) {
	if l.plug == nil || l.panic_ != "" {
		return
	}
	l.b.mu.Lock()
	l.b.refuseCommits = refuse
	l.b.mu.Unlock()
	done := make(chan string, 1)
	go func() {
		done <- hx.Catch(func() {
			if l.g.mode == 0 {
				l.plug.Stop()
			} else {
				l.pipe.Stop()
			}
		})
	}()
	select {
	case p := <-done:
		if p != "" {
			l.panic_, l.stuck = p, true
		}
	case <-time.After(3 * c10Wait):
		l.stuck = true
	}
	l.b.mu.Lock()
	l.b.refuseCommits = false
	l.b.mu.Unlock()
}

type c10GFetch struct {
	tp   c10TP
	recs []c10BRec
}

func c10DecGFetch(topics []string, maxSize int, v hx.Sx) c10GFetch {
	f := hx.Items(v)
	tp := c10TP{topics[int(hx.Int(f[0]))], int32(hx.Int(f[1]))}
	var recs []c10BRec
	for _, r := range f[2:] {
		g := hx.Items(r)
		off, kind := hx.Int(g[0]), int(hx.Int(g[2]))
		recs = append(recs, c10BRec{off: off, epoch: int32(hx.Int(g[1])), val: c10Value(off, kind, maxSize), kind: kind})
	}
	return c10GFetch{tp, recs}
}

func c10ExecGroup(cs hx.Sx) hx.Sx {
	it := hx.Items(cs)
	topics := c10Topics(it[0])
	nps := hx.Items(it[1])
	ci := hx.Items(it[2])
	gi := func(i int) int { return int(hx.Int(ci[i])) }
	g := c10GCfg{oldest: gi(0) == 1, balancer: gi(1), meta: gi(2), bufSize: gi(3), maxConc: gi(4), kip320: gi(5) == 1, maxPerFetch: gi(6), mode: gi(7), maxSize: gi(8), fetchErr: gi(9), antispam: gi(10)}
	b, err := c10NewBroker()
	if err != nil {
		panic(err)
	}
	defer b.close()
	var all []c10TP
	seen := map[c10TP]bool{}
	for i, t := range topics {
		n := int(hx.Int(nps[i]))
		b.createTopic(t, n)
		for p := 0; p < n; p++ {
			if tp := (c10TP{t, int32(p)}); !seen[tp] {
				seen[tp] = true
				all = append(all, tp)
			}
		}
	}
	for _, f := range hx.Items(it[3]) {
		fe := c10DecGFetch(topics, g.maxSize, f)
		b.produce(fe.tp, fe.recs)
	}
	status := 0
	var phases []hx.Sx
	for _, phv := range hx.Items(it[4]) {
		ph := hx.Items(phv)
		l := &c10Life{g: g, b: b, topics: topics, all: all}
		l.start()
		var steps []hx.Sx
		for _, opv := range hx.Items(ph[0]) {
			if l.stuck {
				break
			}
			op := hx.Items(opv)
			switch hx.Int(op[0]) {
			case 0:
				var fs []c10GFetch
				for _, f := range op[1:] {
					fs = append(fs, c10DecGFetch(topics, g.maxSize, f))
				}
				l.produce(fs)
			case 1:
				var ks []int64
				for _, k := range op[1:] {
					ks = append(ks, hx.Int(k))
				}
				steps = append(steps, l.commit(ks)...)
			case 2:
				steps = append(steps, l.tick())
			case 3:
				l.rebalance()
			default:
				panic("c10 group: unknown op")
			}
		}
		l.quiesce()
		l.stop(hx.Int(ph[1]) == 1)
		// the delivered events of this lifetime
		var groups []hx.Sx
		flat := l.flat()
		for i := 0; i < len(flat); {
			j := i
			var offs []hx.Sx
			for ; j < len(flat) && flat[j].sid == flat[i].sid; j++ {
				offs = append(offs, hx.Z(flat[j].off))
			}
			groups = append(groups, hx.L(hx.U(uint64(flat[i].sid)), hx.L(offs...)))
			i = j
		}
		phases = append(phases, hx.L(hx.L(steps...), hx.L(groups...), c10CommittedSx(b.snapshotCommitted())))
		l.sink.mu.Lock()
		metaBad := l.sink.metaBad
		l.sink.mu.Unlock()
		b.mu.Lock()
		badReq := b.badReq
		b.mu.Unlock()
		switch {
		case l.panic_ != "":
			status = 1
		case l.stuck:
			status = 3
		case badReq != "":
			status = 4
		case metaBad:
			status = 5
		}
		if status != 0 {
			if l.stuck && l.panic_ == "" { // do not leave a half-started client behind
				go l.stop(false)
			}
			break
		}
	}
	return hx.L(hx.I(status), hx.L(phases...))
}
