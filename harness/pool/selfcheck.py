#!/usr/bin/env python3
"""Self-test of the event-pool component ("POOL" is not a property, so ./check cannot run it: there is
no Properties/POOL.v).  Same steps as lib/runner.py with `make Proofs/PoolTheorems.vo` in place of the
Properties build:   python3 harness/pool/selfcheck.py [--seed N] [--tier quick|thorough]
Prints VIOLATION lines and exits 1 when a monitor fails / the model rejects a trace / a proof breaks."""
import sys, os, json, time, argparse
sys.path.insert(0, os.path.join(os.path.dirname(os.path.abspath(__file__)), "..", "..", "lib"))
import runner

def main():
    ap = argparse.ArgumentParser()
    ap.add_argument("--seed", type=int, default=1)
    ap.add_argument("--tier", default="quick")
    ap.add_argument("--noproofs", action="store_true")
    a = ap.parse_args()
    t0 = time.time()
    prop = runner.load_prop("POOL")
    log = []
    bad = []
    with runner.Lock("build"):
        ok_h, out_h = runner.build_harness(log, "POOL")
        gen_ok, gen_msg = runner.run_gen(prop, log)
        runner.ensure_makefile()
        if a.noproofs:
            rc, out = 0, ""
        else:
            rc, out, dt = runner.sh("make -k -j%d Proofs/PoolTheorems.vo" % runner.NCPU, cwd=runner.COQ, timeout=3000)
            log.append("make Proofs/PoolTheorems.vo rc=%d %.1fs" % (rc, dt))
        aud = [i for i in runner.audit() if "Pool" in i]
        ok_m, msg_m = runner.build_modelrun(prop, log)
    if not ok_h: bad.append("harness-build: " + out_h[-2000:])
    if not gen_ok: bad.append("translator: " + gen_msg)
    if rc != 0: bad.append("proof: " + out[-3000:])
    if aud: bad.append("audit: " + "\n".join(aud))
    if not ok_m: bad.append("model-build: " + msg_m)
    non = []
    summary = {}
    if ok_h and ok_m:
        rundir = os.path.join(runner.BUILD, "run", "POOL-" + a.tier)
        os.makedirs(rundir, exist_ok=True)
        rc, out, cases, statsf = runner.run_harness(prop, a.tier, a.seed, rundir, log)
        if rc != 0:
            bad.append("harness run rc=%d: %s" % (rc, out[-2000:]))
        else:
            summary, non, errs = runner.run_model(prop, cases, rundir, log)
            bad += errs
            stats = json.load(open(statsf))
            print("streams:", stats["streams"], "distribution:", stats["distribution"])
    for l in log:
        print("  ", l)
    for x in non[:12]:
        parts = x["raw"].split("\t")
        print("VIOLATION" if x["kind"] == "V" else "DIFFER" if x["kind"] == "D" else "BADCASE",
              "stream=%s which=%s model=%s\n    case=%s\n    obs=%s" % (parts[0], parts[1], x["model"], parts[2], parts[3][:1500]))
    for b in bad:
        print("VIOLATION (obligation)", b)
    print("POOL seed=%d: %s, %d non-agreeing, %.1fs" % (a.seed, summary, len(non), time.time() - t0))
    return 1 if (bad or non) else 0

if __name__ == "__main__":
    sys.exit(main())
