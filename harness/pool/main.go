package main

// POOL — test binary of the event-pool component (harness/pooldrv). "POOL" is not a property: the
// pools are wired into C05 / C04. Case / observable formats: see harness/pooldrv.

import (
	"verif/harness/hmain"
	"verif/harness/hx"
	"verif/harness/pooldrv"
)

func main() {
	hmain.Run(&hmain.Prop{ID: "POOL",
		Rule: pooldrv.Rule,
		Gen:  pooldrv.Gen, Exec: func(which int, cs hx.Sx) hx.Sx { return pooldrv.RunCase(cs) }})
}
