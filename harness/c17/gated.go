package main

// C17 — the options of the mask action no older stream reaches (notes/coverage/C17-triage.md): per-mask do_if
// (mask.go Do: use = DoIfChecker.Check(event); processMask: mask.use && checkMatchRules), metric labels
// (applied_metric_labels read from the event AFTER masking; metric_labels of a mask; a mask whose metric name is the
// plugin's gets no counter), the configuration decoded from JSON text through the plugin registry's factory +
// pipeline.GetConfig (cfg.DecodeConfig, cfg.Parse, matchrule Mode/Cond.UnmarshalJSON) as fd does, Plugin.Stop, and the
// configurations Start refuses.
//
//	which=2  case = (global masks events table ext)            global masks events table as which=1
//	           ext   = (route (#plugin_label ...) (mext ...) ((use ...) ...))
//	           route = 0 literal mask.Config through test.NewConfig | 1 JSON text through fd.DefaultPluginRegistry
//	           mext  = ((#metric_label ...) clash do_if)        one per mask; clash: metric_name = applied_metric_name
//	           do_if = () none | (op #field (#value ...) negate case_sensitive)   op 0 equal 1 contains 2 prefix 3 suffix
//	           use   = DoIfChecker.Check's answer for that event and mask (1 for a mask without do_if), computed by the
//	                   generator with the real pipeline/doif package (C14's subject: an oracle here)
//	obs = (0 (event ...) ((counter ...) ...)) | (1 1) | (2)     per event: the plugin counter then the masks';
//	           counter = () untouched | (delta #label_value ...) | (-1) more than one series of it moved

import (
	"encoding/json"
	"fmt"
	"runtime"
	"sort"
	"strings"
	"time"
	"unicode/utf8"

	"github.com/ozontech/file.d/fd"
	"github.com/ozontech/file.d/metric"
	"github.com/ozontech/file.d/pipeline"
	"github.com/ozontech/file.d/pipeline/doif"
	"github.com/ozontech/file.d/plugin/action/mask"
	"github.com/ozontech/file.d/test"
	insaneJSON "github.com/ozontech/insane-json"
	"github.com/prometheus/client_golang/prometheus"
	"go.uber.org/zap"
	"go.uber.org/zap/zapcore"

	"verif/harness/hmain"
	"verif/harness/hx"
)

var doifOps = []string{"equal", "contains", "prefix", "suffix"}

func doifMap(d hx.Sx) map[string]any {
	it := hx.Items(d)
	if len(it) == 0 {
		return nil
	}
	vals := []any{}
	for _, v := range hx.Items(it[2]) {
		vals = append(vals, hx.Str(v))
	}
	m := map[string]any{"op": doifOps[hx.Int(it[0])], "field": hx.Str(it[1]), "values": vals, "case_sensitive": hx.Truth(it[4])}
	if hx.Truth(it[3]) {
		return map[string]any{"op": "not", "operands": []any{m}}
	}
	return m
}

type extCfg struct {
	route   int
	plabels []string
	mlabels [][]string
	clash   []bool
	doif    []hx.Sx
}

func parseExt(e hx.Sx) *extCfg {
	it := hx.Items(e)
	x := &extCfg{route: int(hx.Int(it[0]))}
	for _, l := range hx.Items(it[1]) {
		x.plabels = append(x.plabels, hx.Str(l))
	}
	for _, m := range hx.Items(it[2]) {
		f := hx.Items(m)
		var ls []string
		for _, l := range hx.Items(f[0]) {
			ls = append(ls, hx.Str(l))
		}
		x.mlabels = append(x.mlabels, ls)
		x.clash = append(x.clash, hx.Truth(f[1]))
		x.doif = append(x.doif, f[2])
	}
	return x
}

func extConfig(global hx.Sx, masks []hx.Sx, x *extCfg) *mask.Config {
	g := hx.Items(global)
	conf := &mask.Config{
		MaskAppliedField:    hx.Str(g[0]),
		MaskAppliedValue:    hx.Str(g[1]),
		IgnoreFields:        fieldList(g[3]),
		ProcessFields:       fieldList(g[4]),
		AppliedMetricLabels: x.plabels,
	}
	for i, m := range masks {
		mk := maskOf(i, m)
		if i < len(x.clash) {
			mk.MetricLabels = x.mlabels[i]
			if x.clash[i] {
				mk.MetricName = pluginMetric
			}
			mk.DoIfCheckerMap = doifMap(x.doif[i])
		}
		conf.Masks = append(conf.Masks, mk)
	}
	return conf
}

var ruleModes = []string{"prefix", "contains", "suffix"}

func strsOrEmpty(l []string) []string {
	if l == nil {
		return []string{}
	}
	return l
}

// the configuration as the JSON text a pipeline configuration would carry for this action; ok = false when a string of
// it is not valid UTF-8 (encoding/json would replace it)
func configJSON(conf *mask.Config) ([]byte, bool) {
	ok := true
	str := func(s string) string {
		if !utf8.ValidString(s) {
			ok = false
		}
		return s
	}
	strs := func(l []string) []string {
		out := []string{}
		for _, s := range l {
			out = append(out, str(s))
		}
		return out
	}
	var ms []any
	for _, m := range conf.Masks {
		jm := map[string]any{
			"groups": append([]int{}, m.Groups...), "max_count": m.MaxCount, "replace_word": str(m.ReplaceWord), "cut_values": m.CutValues,
			"applied_field": str(m.AppliedField), "applied_value": str(m.AppliedValue), "metric_name": m.MetricName,
			"metric_labels": strs(m.MetricLabels), "ignore_fields": strs(m.IgnoreFields), "process_fields": strs(m.ProcessFields),
		}
		if m.Re != "" {
			jm["re"] = str(m.Re)
		}
		if len(m.MatchRules) > 0 {
			var sets []any
			for _, rs := range m.MatchRules {
				var rules []any
				for _, r := range rs.Rules {
					rules = append(rules, map[string]any{"values": strs(r.Values), "mode": ruleModes[r.Mode],
						"case_insensitive": r.CaseInsensitive, "invert": r.Invert})
				}
				cond := "and"
				if rs.Cond == 1 {
					cond = "or"
				}
				sets = append(sets, map[string]any{"cond": cond, "rules": rules})
			}
			jm["match_rules"] = sets
		}
		if m.DoIfCheckerMap != nil {
			jm["do_if"] = m.DoIfCheckerMap
			ok = ok && validAny(m.DoIfCheckerMap)
		}
		ms = append(ms, jm)
	}
	top := map[string]any{
		"masks": ms, "mask_applied_field": str(conf.MaskAppliedField), "mask_applied_value": str(conf.MaskAppliedValue),
		"ignore_fields": strs(conf.IgnoreFields), "process_fields": strs(conf.ProcessFields),
		"applied_metric_labels": strs(conf.AppliedMetricLabels),
	}
	b, err := json.Marshal(top)
	return b, ok && err == nil
}

func validAny(v any) bool {
	switch t := v.(type) {
	case string:
		return utf8.ValidString(t)
	case []any:
		for _, e := range t {
			if !validAny(e) {
				return false
			}
		}
	case map[string]any:
		for _, e := range t {
			if !validAny(e) {
				return false
			}
		}
	}
	return true
}

func doifStringsValid(d hx.Sx) bool {
	it := hx.Items(d)
	if len(it) == 0 {
		return true
	}
	if !utf8.ValidString(hx.Str(it[1])) {
		return false
	}
	for _, v := range hx.Items(it[2]) {
		if !utf8.ValidString(hx.Str(v)) {
			return false
		}
	}
	return true
}

type c17Ext struct {
	p       mask.Plugin
	started bool
	reg     *prometheus.Registry
	names   []string   // metric name per counter: the plugin's, then the masks' ("" = none)
	labels  [][]string // label names per counter
}

func startPluginExt(global hx.Sx, masks []hx.Sx, x *extCfg) (pl *c17Ext, fatal bool, crash string) {
	conf := extConfig(global, masks, x)
	pl = &c17Ext{reg: prometheus.NewRegistry()}
	pl.names = append(pl.names, pluginMetric)
	pl.labels = append(pl.labels, x.plabels)
	for i, m := range conf.Masks {
		if m.MetricName == "" || m.MetricName == pluginMetric {
			pl.names = append(pl.names, "")
		} else {
			pl.names = append(pl.names, m.MetricName)
		}
		pl.labels = append(pl.labels, x.mlabels[i])
	}
	lg := zap.NewNop().WithOptions(zap.WithFatalHook(zapcore.WriteThenPanic)).Sugar()
	params := &pipeline.ActionPluginParams{
		PluginDefaultParams: pipeline.PluginDefaultParams{
			PipelineName:     "verif",
			PipelineSettings: &pipeline.Settings{AvgEventSize: 16},
			MetricCtl:        metric.NewCtl("verif", pl.reg, time.Minute, 0),
		},
		Logger: lg,
	}
	func() {
		defer func() {
			if r := recover(); r != nil {
				if _, isRT := r.(runtime.Error); isRT {
					crash = "PANIC " + fmt.Sprint(r)
				} else {
					fatal = true
				}
			}
		}()
		var anyConf pipeline.AnyConfig
		if x.route == 1 {
			text, ok := configJSON(conf)
			if !ok {
				crash = "route 1 with a string that is not valid UTF-8"
				return
			}
			info, err := fd.DefaultPluginRegistry.Get(pipeline.PluginKindAction, "mask")
			if err != nil {
				crash = "registry: " + err.Error()
				return
			}
			anyConf, err = pipeline.GetConfig(info, text, map[string]int{})
			if err != nil {
				crash = "GetConfig: " + err.Error()
				return
			}
		} else {
			anyConf = test.NewConfig(conf, nil)
		}
		pl.p.Start(anyConf, params)
		pl.started = true
	}()
	return pl, fatal, crash
}

// every series of the registry: "name\x00v1\x00v2..." (label values in the configured order) -> value
func (pl *c17Ext) snapshot() map[string]float64 {
	out := map[string]float64{}
	fams, err := pl.reg.Gather()
	if err != nil {
		out["gather error: "+err.Error()] = 1
		return out
	}
	for _, f := range fams {
		for k, name := range pl.names {
			if name == "" || !strings.HasSuffix(f.GetName(), "_verif_"+name) {
				continue
			}
			for _, m := range f.GetMetric() {
				byName := map[string]string{}
				for _, lp := range m.GetLabel() {
					byName[lp.GetName()] = lp.GetValue()
				}
				key := fmt.Sprintf("%d", k)
				for _, l := range pl.labels[k] {
					key += "\x00" + byName[l]
				}
				out[key] = m.GetCounter().GetValue()
			}
		}
	}
	return out
}

func (pl *c17Ext) run(events []hx.Sx) hx.Sx {
	var outs, mets []hx.Sx
	prev := pl.snapshot()
	for _, e := range events {
		root, err := insaneJSON.DecodeString(hx.JSONText(e))
		if err != nil {
			return hx.L(hx.I(7), hx.S("undecodable event: "+err.Error()))
		}
		ev := &pipeline.Event{Root: root}
		msg := hx.Catch(func() { pl.p.Do(ev) })
		if msg != "" {
			insaneJSON.Release(root)
			return hx.L(hx.I(2))
		}
		outs = append(outs, hx.JSON(root.Node))
		insaneJSON.Release(root)
		cur := pl.snapshot()
		per := make([]hx.Sx, len(pl.names))
		moved := make([]int, len(pl.names))
		for i := range per {
			per[i] = hx.L()
		}
		keys := make([]string, 0, len(cur))
		for k := range cur {
			keys = append(keys, k)
		}
		sort.Strings(keys)
		for _, key := range keys {
			d := cur[key] - prev[key]
			if d == 0 {
				continue
			}
			parts := strings.Split(key, "\x00")
			var k int
			fmt.Sscanf(parts[0], "%d", &k)
			moved[k]++
			items := []hx.Sx{hx.I(int(d))}
			for _, v := range parts[1:] {
				items = append(items, hx.S(v))
			}
			per[k] = hx.L(items...)
			if moved[k] > 1 {
				per[k] = hx.L(hx.I(-1))
			}
		}
		mets = append(mets, hx.L(per...))
		prev = cur
	}
	hx.Catch(func() { pl.p.Stop() })
	return hx.L(hx.I(0), hx.L(outs...), hx.L(mets...))
}

func c17ExecExt(cs hx.Sx) hx.Sx {
	it := hx.Items(cs)
	x := parseExt(it[4])
	pl, fatal, crash := startPluginExt(it[0], hx.Items(it[1]), x)
	switch {
	case crash != "":
		return hx.L(hx.I(2))
	case fatal:
		return hx.L(hx.I(1), hx.I(1))
	}
	return pl.run(hx.Items(it[2]))
}

// ---- generator side -------------------------------------------------------------------------------------

type extGen struct {
	route   int
	plabels []string
	mlabels [][]string
	clash   []bool
	doif    []hx.Sx
}

func (x *extGen) sx(bits [][]bool) hx.Sx {
	ms := make([]hx.Sx, len(x.doif))
	for i := range ms {
		ms[i] = hx.L(hx.Ss(x.mlabels[i]), hx.Bool(x.clash[i]), x.doif[i])
	}
	return hx.L(hx.I(x.route), hx.Ss(x.plabels), hx.L(ms...),
		hx.List(bits, func(b []bool) hx.Sx { return hx.List(b, hx.Bool) }))
}

func newExtGen(n int) *extGen {
	x := &extGen{mlabels: make([][]string, n), clash: make([]bool, n), doif: make([]hx.Sx, n)}
	for i := range x.doif {
		x.doif[i] = hx.L()
	}
	return x
}

// the label names are event keys AND prometheus label names
var labelKeys = []string{"a", "b", "c", "m", "lv"}

func randLabels(r *hx.Rng) []string {
	var out []string
	seen := map[string]bool{}
	for n := r.Intn(3); n > 0; n-- {
		l := hx.Pick(r, labelKeys)
		if !seen[l] {
			seen[l] = true
			out = append(out, l)
		}
	}
	return out
}

var doifFields = []string{"a", "b", "c", "m", "lv", "a.b", "0", "zz"}

func rootStrings(e hx.Sx) []string {
	var out []string
	if hx.IsInt(e) {
		return nil
	}
	it := hx.Items(e)
	if hx.Int(it[0]) != 5 {
		return nil
	}
	for _, f := range it[1:] {
		v := hx.Items(f)[1]
		if !hx.IsInt(v) && (hx.Int(hx.Items(v)[0]) == 3 || hx.Int(hx.Items(v)[0]) == 2) {
			out = append(out, hx.Str(hx.Items(v)[1]))
		}
	}
	return out
}

func randDoIf(r *hx.Rng, events []hx.Sx) hx.Sx {
	var vals []hx.Sx
	pool := rootStrings(events[r.Intn(len(events))])
	for n := r.Range(1, 3); n > 0; n-- {
		switch {
		case len(pool) > 0 && r.Chance(1, 2):
			s := hx.Pick(r, pool)
			if r.Chance(1, 3) && len(s) > 1 {
				s = s[:len(s)/2]
			}
			vals = append(vals, hx.S(s))
		case r.Chance(1, 6):
			vals = append(vals, hx.S(""))
		default:
			vals = append(vals, hx.S(randText(r, 2)))
		}
	}
	return hx.L(hx.I(r.Intn(4)), hx.S(hx.Pick(r, doifFields)), hx.L(vals...), hx.Bool(r.Chance(1, 3)), hx.Bool(r.Chance(3, 4)))
}

// Check's answers for every event, by the real doif package on the event as it enters Do
func doifBits(c *hmain.Ctx, x *extGen, events []hx.Sx) ([][]bool, bool) {
	chk := make([]*doif.Checker, len(x.doif))
	for i, d := range x.doif {
		if m := doifMap(d); m != nil {
			ch, err := doif.NewFromMap(m)
			if err != nil {
				return nil, false
			}
			chk[i] = ch
		}
	}
	bits := make([][]bool, len(events))
	for k, e := range events {
		root, err := insaneJSON.DecodeString(hx.JSONText(e))
		if err != nil {
			return nil, false
		}
		bits[k] = make([]bool, len(chk))
		for i, ch := range chk {
			bits[k][i] = true
			if ch == nil {
				continue
			}
			bits[k][i] = ch.Check(doif.NewEventData(root))
			// the hypothesis on the oracle, where it is plain: equal, case-sensitive, not negated, a root key holding a string
			d := hx.Items(x.doif[i])
			if hx.Int(d[0]) == 0 && !hx.Truth(d[3]) && hx.Truth(d[4]) && !strings.Contains(hx.Str(d[1]), ".") &&
				!hx.IsInt(e) && hx.Int(hx.Items(e)[0]) == 5 {
				for _, f := range hx.Items(e)[1:] {
					kv := hx.Items(f)
					if hx.Str(kv[0]) != hx.Str(d[1]) {
						continue
					}
					if !hx.IsInt(kv[1]) && hx.Int(hx.Items(kv[1])[0]) == 3 {
						want := false
						for _, v := range hx.Items(d[2]) {
							want = want || hx.Str(v) == hx.Str(hx.Items(kv[1])[1])
						}
						c.W.Oracle("doif: equal on a root string field = the field's text is one of the values", want == bits[k][i], hx.String(x.doif[i])+" on "+hx.String(e))
					}
					break
				}
			}
			if bits[k][i] {
				c.W.Count("doif_use_true")
			} else {
				c.W.Count("doif_use_false")
			}
		}
		insaneJSON.Release(root)
	}
	return bits, true
}

func allValid(masks []*maskGen, gaf, gav string, events []hx.Sx) bool {
	set := map[string]bool{gaf: true, gav: true}
	for _, e := range events {
		leaves(e, set)
	}
	for _, m := range masks {
		set[m.afield], set[m.avalue], set[m.word] = true, true, true
	}
	for s := range set {
		if !utf8.ValidString(s) {
			return false
		}
	}
	return true
}

func routeEligible(masks []*maskGen, gaf, gav string, lists [][][]string, x *extGen) bool {
	ok := utf8.ValidString(gaf) && utf8.ValidString(gav)
	for _, m := range masks {
		ok = ok && utf8.ValidString(m.re) && utf8.ValidString(m.word) && utf8.ValidString(m.afield) && utf8.ValidString(m.avalue)
		if m.rules != nil {
			for _, rs := range hx.Items(m.rules) {
				for _, ru := range hx.Items(hx.Items(rs)[1]) {
					for _, v := range hx.Items(hx.Items(ru)[0]) {
						ok = ok && utf8.ValidString(hx.Str(v))
					}
				}
			}
		}
	}
	for _, l := range lists {
		for _, p := range l {
			for _, k := range p {
				ok = ok && utf8.ValidString(k)
			}
		}
	}
	for _, d := range x.doif {
		ok = ok && doifStringsValid(d)
	}
	return ok
}

// ---- finding C17-metric-label-concat (notes/finding-C17-metric-label-concat.md; repaired in /repo: b1f7398) -----
// metric/metric.go hashed the label values of a series by plain concatenation and trusts a one-element hash bucket
// without comparing the values: two label tuples of one counter whose values concatenate to the same text (("", "x") and
// ("x", "")) were one series.  A case reaches it iff some counter with two or more labels sees two such tuples on ONE
// instance.  Such cases are filed under the stream <stream>~label-concat (the recorded finding's signature); the directed
// family label-concat produces them on purpose.  Always emitted: a regression stream since the repair.

// Root.Dig(key) + Node.AsString on an event of an observation (the model's label_val, for routing only)
func goLabelVal(root hx.Sx, key string) string {
	if hx.IsInt(root) || hx.Int(hx.Items(root)[0]) != 5 {
		return "not_set" // the label keys are never array positions
	}
	for _, f := range hx.Items(root)[1:] {
		kv := hx.Items(f)
		if hx.Str(kv[0]) != key {
			continue
		}
		if hx.IsInt(kv[1]) {
			return "null"
		}
		v := hx.Items(kv[1])
		switch hx.Int(v[0]) {
		case 1:
			if hx.Truth(v[1]) {
				return "true"
			}
			return "false"
		case 2, 3:
			return hx.Str(v[1])
		}
		return ""
	}
	return "not_set"
}

// would two events of this run give some counter different label tuples with the same concatenation?
func labelConcatCollision(obs hx.Sx, x *extGen) bool {
	it := hx.Items(obs)
	if len(it) != 3 || hx.Int(it[0]) != 0 {
		return false
	}
	sets := append([][]string{x.plabels}, x.mlabels...)
	for _, labels := range sets {
		if len(labels) < 2 {
			continue
		}
		seen := map[string]string{}
		for _, ev := range hx.Items(it[1]) {
			cat, tup := "", ""
			for _, l := range labels {
				v := goLabelVal(ev, l)
				cat += v
				tup += v + "\x00"
			}
			if old, ok := seen[cat]; ok && old != tup {
				return true
			}
			seen[cat] = tup
		}
	}
	return false
}

func c17Ext2(c *hmain.Ctx, stream string, masks []*maskGen, gaf, gav string, gign, gproc [][]string, events []hx.Sx, x *extGen) hx.Sx {
	bits, ok := doifBits(c, x, events)
	if !ok {
		c.W.Count(stream + "_doif_rejected")
		return nil
	}
	cs := c17Case(c, masks, gaf, gav, gign, gproc, events)
	cs = hx.L(append(append([]hx.Sx(nil), hx.Items(cs)...), x.sx(bits))...)
	if labelConcatCollision(c17ExecExt(cs), x) && !strings.HasSuffix(stream, "label-concat") {
		stream += "~label-concat"
	}
	obs := c.Do(stream, 2, cs, true)
	c.W.Count(fmt.Sprintf("%s_route_%d", stream, x.route))
	return obs
}

func extFired(obs hx.Sx) (events, withCounter int) {
	it := hx.Items(obs)
	if len(it) != 3 || hx.Int(it[0]) != 0 {
		return 0, 0
	}
	for _, ev := range hx.Items(it[2]) {
		events++
		if cs := hx.Items(ev); len(cs) > 0 && len(hx.Items(cs[0])) > 0 {
			withCounter++
		}
	}
	return
}

// some plugin label value differs from the text the event had at that root key when it entered Do
func labelMasked(obs hx.Sx, events []hx.Sx, plabels []string) bool {
	it := hx.Items(obs)
	if len(it) != 3 || hx.Int(it[0]) != 0 {
		return false
	}
	for k, ev := range hx.Items(it[2]) {
		cs := hx.Items(ev)
		if len(cs) == 0 || k >= len(events) || hx.IsInt(events[k]) || hx.Int(hx.Items(events[k])[0]) != 5 {
			continue
		}
		vals := hx.Items(cs[0])
		for i, l := range plabels {
			if i+1 >= len(vals) {
				break
			}
			for _, f := range hx.Items(events[k])[1:] {
				kv := hx.Items(f)
				if hx.Str(kv[0]) != l {
					continue
				}
				if !hx.IsInt(kv[1]) && (hx.Int(hx.Items(kv[1])[0]) == 3 || hx.Int(hx.Items(kv[1])[0]) == 2) &&
					hx.Str(hx.Items(kv[1])[1]) != hx.Str(vals[i+1]) {
					return true
				}
				break
			}
		}
	}
	return false
}

func genEvents(c *hmain.Ctx, r *hx.Rng, minEv, maxEv int, seedKeys []string) []hx.Sx {
	var events []hx.Sx
	for k := r.Range(minEv, maxEv); k > 0; k-- {
		e := randObj(r, 2, r.Range(1, 5))
		if len(seedKeys) > 0 && r.Chance(3, 4) {
			// the label / do_if keys hold values the masks can work on
			items := []hx.Sx{hx.I(5)}
			seen := map[string]bool{}
			for _, k := range seedKeys {
				if seen[k] || !r.Chance(2, 3) {
					continue
				}
				seen[k] = true
				items = append(items, hx.L(hx.S(k), randJSON(r, 0)))
			}
			for _, f := range hx.Items(e)[1:] {
				if !seen[hx.Str(hx.Items(f)[0])] {
					items = append(items, f)
				}
			}
			e = hx.L(items...)
		}
		if r.Chance(1, 25) {
			e = randJSON(r, 1) // a root that is not an object
		}
		if checkDecode(c, e) {
			events = append(events, e)
		}
	}
	return events
}

func c17Gated(c *hmain.Ctx) {
	r := c.R

	gen := func(stream string, n int, withDoIf, withLabels, jsonRoute bool, minEv, maxEv int) {
		for i := 0; i < n; i++ {
			var masks []*maskGen
			withLists := r.Chance(1, 3)
			for k := r.Range(1, 3); k > 0; k-- {
				masks = append(masks, randMask(c, r, withLists))
			}
			var gign, gproc [][]string
			if withLists && r.Chance(1, 2) {
				if r.Bool() {
					gign = randPaths(c, r)
				} else {
					gproc = randPaths(c, r)
				}
			}
			lists := [][][]string{gign, gproc}
			for _, m := range masks {
				lists = append(lists, m.ign, m.proc)
			}
			if !prefixFree(lists) {
				i--
				continue
			}
			gaf, gav := "", ""
			if r.Chance(1, 3) {
				gaf, gav = hx.Pick(r, keyAlpha), randText(r, 3)
			}
			x := newExtGen(len(masks))
			var seedKeys []string
			if withLabels {
				x.plabels = randLabels(r)
				seedKeys = append(seedKeys, x.plabels...)
				for k, m := range masks {
					if m.metric && r.Chance(2, 3) {
						x.mlabels[k] = randLabels(r)
						seedKeys = append(seedKeys, x.mlabels[k]...)
					}
					if m.metric && r.Chance(1, 8) {
						x.clash[k] = true
					}
				}
			}
			events := genEvents(c, r, minEv, maxEv, seedKeys)
			if len(events) == 0 {
				i--
				continue
			}
			if withLabels && !allValid(masks, gaf, gav, events) {
				// a label value must be valid UTF-8 for prometheus
				c.W.Count(stream + "_invalid_utf8_regenerated")
				i--
				continue
			}
			if withDoIf {
				some := false
				for k := range masks {
					if r.Chance(2, 3) {
						x.doif[k] = randDoIf(r, events)
						some = true
					}
				}
				if !some {
					x.doif[0] = randDoIf(r, events)
				}
			}
			if jsonRoute && routeEligible(masks, gaf, gav, lists, x) {
				x.route = 1
			}
			obs := c17Ext2(c, stream, masks, gaf, gav, gign, gproc, events, x)
			if obs == nil {
				continue
			}
			if withLabels && labelMasked(obs, events, x.plabels) {
				c.W.Count(stream + "_plugin_label_value_rewritten_by_a_mask")
			}
			ev, cnt := extFired(obs)
			if cnt > 0 {
				c.W.Count(stream + "_some_event_counted")
			}
			if cnt < ev && cnt > 0 {
				c.W.Count(stream + "_counted_and_uncounted_events_on_one_instance")
			}
			if hx.String(obs) == "(1 1)" {
				c.W.Count(stream + "_start_refused")
			}
		}
	}
	// per-mask do_if: 2-5 events on one instance, so that use flips between events
	gen("doif-gate", 700*c.Scale, true, false, true, 2, 5)
	// labels of the plugin counter and of the masks' counters, read after masking
	gen("metric-labels", 600*c.Scale, false, true, true, 1, 3)
	// both, literal configuration only
	gen("doif-labels", 300*c.Scale, true, true, false, 1, 4)
	// the plain events family with the configuration decoded from JSON text
	gen("json-config", 500*c.Scale, false, false, true, 1, 2)

	c17Refused(c)

	// the finding's own family: two labels, events whose label tuples concatenate alike
	{
		for i := 0; i < 40*c.Scale; i++ {
			m := poolMask(r, []string{`(a)`, `(a)(b)?`, `([ab])`})
			m.metric = true
			x := newExtGen(1)
			keys := []string{"lv", "m"}
			if r.Bool() {
				x.plabels = keys
			} else {
				x.mlabels[0] = keys
			}
			u, v := hx.Pick(r, []string{"x", "yz", "", "1"}), hx.Pick(r, []string{"x", "q", "", "not_set"})
			ev := func(a, b string) hx.Sx {
				return hx.L(hx.I(5), hx.L(hx.S("lv"), strLeaf(a)), hx.L(hx.S("m"), strLeaf(b)), hx.L(hx.S("c"), strLeaf("a"+randText(r, 2))))
			}
			events := []hx.Sx{ev(u+v, ""), ev(u, v), ev("", u+v)}
			if r.Bool() {
				events = append(events, ev(u+v, ""))
			}
			c17Ext2(c, "label-concat", []*maskGen{m}, "", "", nil, nil, events, x)
		}
	}
}

// configurations Start refuses (logger.Fatal): directed, every cause alone on an otherwise valid configuration
func c17Refused(c *hmain.Ctx) {
	r := c.R
	ev := []hx.Sx{hx.MustParse("(5 (#61 (3 #6162)))")}
	base := func() *maskGen {
		m := poolMask(r, []string{`(a)`, `(a)(b)?`})
		m.metric = true
		return m
	}
	emit := func(name string, which int, masks []*maskGen, gign, gproc [][]string, x *extGen) {
		cs := c17Case(c, masks, "", "", gign, gproc, ev)
		if which == 2 {
			bits, _ := doifBits(c, x, ev)
			cs = hx.L(append(append([]hx.Sx(nil), hx.Items(cs)...), x.sx(bits))...)
		}
		obs := c.Do("start-refused", which, cs, true)
		if hx.String(obs) == "(1 1)" {
			c.W.Count("start-refused_" + name)
		} else {
			c.W.Count("start-accepted_" + name)
		}
	}
	for k := 0; k < 3*c.Scale; k++ {
		// neither a regexp nor match rules
		m := base()
		m.re, m.rx, m.groups = "", nil, nil
		emit("no_re_no_rules", 1, []*maskGen{base(), m}, nil, nil, nil)
		// a ruleset without rules, a rule without values
		m = base()
		m.rules = hx.L(hx.L(hx.I(0), hx.L()))
		emit("empty_ruleset", 1, []*maskGen{m}, nil, nil, nil)
		m = base()
		m.rules = hx.L(hx.L(hx.I(1), hx.L(hx.L(hx.L(hx.S("a")), hx.I(1), hx.I(0), hx.I(0)), hx.L(hx.L(), hx.I(0), hx.I(0), hx.I(0)))))
		emit("rule_without_values", 1, []*maskGen{m, base()}, nil, nil, nil)
		// both lists: of a mask, of the plugin
		m = base()
		m.ign, m.proc = [][]string{{"a"}}, [][]string{{"b"}}
		emit("mask_both_lists", 1, []*maskGen{base(), m}, nil, nil, nil)
		emit("global_both_lists", 1, []*maskGen{base()}, [][]string{{"a"}}, [][]string{{"b"}}, nil)
		// a list entry that parses to the empty path (cfg.ParseNestedFields refuses it): of a mask, of the plugin
		m = base()
		m.ign = [][]string{{"a"}, {}}
		emit("mask_ignore_empty_path", 1, []*maskGen{base(), m}, nil, nil, nil)
		m = base()
		m.proc = [][]string{{}}
		emit("mask_process_empty_path", 1, []*maskGen{m}, nil, nil, nil)
		emit("global_empty_path", 1, []*maskGen{base()}, nil, [][]string{{}, {"a"}}, nil)
		// labels: empty, repeated (plugin, mask); the same on a mask without counter is accepted
		x := newExtGen(1)
		x.plabels = []string{"a", ""}
		emit("plugin_empty_label", 2, []*maskGen{base()}, nil, nil, x)
		x = newExtGen(1)
		x.plabels = []string{"a", "b", "a"}
		emit("plugin_repeated_label", 2, []*maskGen{base()}, nil, nil, x)
		x = newExtGen(2)
		x.mlabels[1] = []string{"b", "b"}
		emit("mask_repeated_label", 2, []*maskGen{base(), base()}, nil, nil, x)
		x = newExtGen(1)
		x.mlabels[0] = []string{""}
		emit("mask_empty_label", 2, []*maskGen{base()}, nil, nil, x)
		x = newExtGen(1)
		x.mlabels[0], x.clash[0] = []string{"b", "b"}, true
		emit("clash_mask_labels_unchecked", 2, []*maskGen{base()}, nil, nil, x)
		m = base()
		m.metric = false
		x = newExtGen(1)
		x.mlabels[0] = []string{"b", "b"}
		emit("no_metric_mask_labels_unchecked", 2, []*maskGen{m}, nil, nil, x)
	}
}
