package main

// Generators that cross the size / history thresholds of the mask action (notes/threshold-audit.txt item 31).  They run
// AFTER the older generators of c17Gen (same c.R), so the older streams keep their cases for a given seed.  Every case
// is which=1 (a whole plugin instance with its list of events) or which=0 and carries everything a replay needs.

import (
	"fmt"
	"regexp"
	"strings"

	"github.com/ozontech/file.d/cfg"

	"verif/harness/hmain"
	"verif/harness/hx"
)

var fillerAtoms = []string{"x", " ", "A", "B", "-", "_", "yy", "Zq "}
var secretAtoms = []string{"a", "b", "ab", "1", "12", "1234", "é", "éé", "€", "c", "abc", "2", "𝄞", "\xff"}

// about n bytes, secrets every few dozen bytes (sparse matches: the regexp table stays small)
func longText(r *hx.Rng, n int) string {
	var b strings.Builder
	for b.Len() < n {
		if r.Chance(1, 8) {
			b.WriteString(hx.Pick(r, secretAtoms))
		} else {
			f := hx.Pick(r, fillerAtoms)
			for k := r.Range(1, 6); k > 0 && b.Len() < n; k-- {
				b.WriteString(f)
			}
		}
	}
	return b.String()
}

// exactly n bytes over a small ASCII alphabet (for the boundaries of the 16-byte buffers)
func exactText(r *hx.Rng, n int) string {
	b := make([]byte, n)
	for i := range b {
		b[i] = "ab1xc2 A"[r.Intn(8)]
	}
	return string(b)
}

func strLeaf(s string) hx.Sx { return hx.L(hx.I(3), hx.S(s)) }

// regexps whose matches are sparse on longText
var longRegexps = []string{
	`(\d\d\d\d)`, `(a)(b)?`, `(é+)`, `c(.)`, `(a+)b`, `([ab])c`, `(1)(2)?(3)?`, `(€|𝄞)`, `(ab)+`, `^(.)`, `(.)$`,
	`(a(b(c)?)?)`, `(\xff)`, `x(a)|y(b)`, `(12)(34)`,
}

func poolMask(r *hx.Rng, pool []string) *maskGen {
	m := &maskGen{metric: r.Bool()}
	m.re = hx.Pick(r, pool)
	m.rx = regexp.MustCompile(m.re)
	m.groups = randGroups(r, m.rx.NumSubexp())
	randMode(r, m)
	if r.Chance(1, 5) {
		m.afield, m.avalue = hx.Pick(r, []string{"a", "m", "mark"}), hx.Pick(r, []string{"ab", "yes", ""})
	}
	return m
}

func sizeClass(n int) string {
	switch {
	case n == 0:
		return "0"
	case n < 14:
		return "1-13"
	case n <= 18:
		return "14-18"
	case n < 1024:
		return "19-1023"
	case n < 16<<10:
		return ">=1KiB"
	}
	return ">=16KiB"
}

// ---- values longer than the buffers, then shorter ones, on ONE instance -------------------------------------------------
// mask.go:210-211: maskBuf / sourceBuf = make([]byte, 0, AvgEventSize) (16 in this harness), owned by the instance, grown
// by append and reused for every value of every event (processMask: sourceBuf = append(sourceBuf[:0], value...);
// maskValue: buf = buf[:0]; node.MutateToString(string(sourceBuf))).  The older streams never exceed 32 bytes per value
// and at most 2 events per multi-mask instance.
// Regressions this stream exposes: a missing [:0] (the tail of a LONG earlier value shows up behind a shorter one), a
// re-slice by capacity, the copy in MutateToString(string(buf)) replaced by an alias of the buffer (the next leaf of the
// same event overwrites the text of the previous one), a buffer "shrink" that keeps stale length, counters / marks of
// one event leaking into the next (3-8 events per instance).
func genLongShort(c *hmain.Ctx, r *hx.Rng) {
	profiles := [][]int{ // value size classes per event: 0 short, 1 around the 16-byte buffer, 2 hundreds, 3 KiB, 4 16-64 KiB
		{3, 0}, {0, 3, 0}, {2, 1, 0}, {1, 1, 1, 1}, {3, 2, 1, 0, 0}, {0, 1, 2, 3, 0}, {3, 3, 0, 1}, {2, 0, 2, 0, 2, 0}, {0, 0, 3, 0, 0, 1, 1, 0},
	}
	// ~40 KB of case text each and a model that is quadratic in the value length: the thorough tier gets 2x the cases,
	// 20 of them with one value of 16-24 KiB (above event.go's 4096-byte and the 16 KiB read-buffer sizes)
	n := 260 * min(c.Scale, 2)
	huge := [][]int{{4, 0}, {0, 4, 1, 0}, {4, 3, 0}}
	for i := 0; i < n; i++ {
		var masks []*maskGen
		for k := r.Range(1, 3); k > 0; k-- {
			masks = append(masks, poolMask(r, longRegexps))
		}
		prof := hx.Pick(r, profiles)
		if c.Tier == "thorough" && i < 20 {
			prof = huge[i%len(huge)]
		}
		var events []hx.Sx
		maxLen, longThenShort, prevMax := 0, false, 0
		for _, cl := range prof {
			items := []hx.Sx{hx.I(5)}
			evMax := 0
			nLeaves := r.Range(1, 3)
			for k := 0; k < nLeaves; k++ {
				var s string
				kcl := cl
				if k > 0 && r.Bool() {
					kcl = 0 // a short leaf after a long one inside the same event
				}
				switch kcl {
				case 0:
					s = randText(r, 6)
				case 1:
					s = exactText(r, r.Range(13, 19))
				case 2:
					s = longText(r, r.Range(100, 600))
				case 3:
					s = longText(r, r.Range(1024, 5000))
				default: // thorough only
					s = longText(r, r.Range(16<<10, 24<<10))
				}
				if len(s) > evMax {
					evMax = len(s)
				}
				c.W.Count("long-short:value-bytes=" + sizeClass(len(s)))
				var v hx.Sx = strLeaf(s)
				if r.Chance(1, 5) {
					v = hx.L(hx.I(4), strLeaf(s), hx.L(hx.I(5), hx.L(hx.S("in"), strLeaf(randText(r, 4)))))
				}
				items = append(items, hx.L(hx.S(fmt.Sprintf("f%d", k)), v))
			}
			if prevMax >= 64 && evMax < prevMax/4 {
				longThenShort = true
			}
			prevMax = evMax
			if evMax > maxLen {
				maxLen = evMax
			}
			e := hx.L(items...)
			if checkDecode(c, e) {
				events = append(events, e)
			}
		}
		gaf := hx.Pick(r, []string{"", "", "m"})
		obs := c.Do("long-short", 1, c17Case(c, masks, gaf, "ab", nil, nil, events), true)
		if obsFired(obs) {
			c.W.Count("long-short_some_mask_fired")
		}
		c.W.Count(fmt.Sprintf("long-short:events=%d", len(events)))
		if longThenShort {
			c.W.Count("long-short:long-then-short-on-one-instance")
		}
	}
	// one mask, one value (which=0; the harness keeps the instance while the mask stays the same): every length around
	// the buffer capacity 16 and around 1 KiB, matches at the very end / start
	for _, src := range []string{`(a)`, `(a)(b)?`, `(.)$`, `^(..)`, `(é)`, `(ab)+`} {
		rx := regexp.MustCompile(src)
		for _, md := range [][3]any{{0, 0, ""}, {0, 1, ""}, {1, 0, "SECRET"}, {2, 0, ""}} {
			m := &maskGen{re: src, rx: rx, groups: []int{1}, modeK: md[0].(int), maxCnt: md[1].(int), word: md[2].(string), metric: true}
			m.mode = modeSx(m.modeK, m.maxCnt, m.word)
			msx := m.sx()
			lens := []int{12, 13, 14, 15, 16, 17, 18, 19, 20, 31, 32, 33, 1023, 1024, 1025, 3, 16, 2000, 1}
			for _, n := range lens {
				v := exactText(r, n)
				if n > 100 {
					v = longText(r, n)
				}
				idxs := rx.FindAllSubmatchIndex([]byte(v), -1)
				why := reWF(len(v), rx.NumSubexp(), idxs)
				c.W.Oracle("re_wf: matches ascending and disjoint, groups inside their match or -1, nested or disjoint", why == "", fmt.Sprintf("%q on %q: %s", src, v, why))
				c.Do("boundary-value", 0, hx.L(msx, hx.S(v), idxSx(idxs)), len(idxs) > 0)
				c.W.Count("boundary-value:bytes=" + sizeClass(n))
			}
		}
	}
}

// ---- more than 12 selected groups ------------------------------------------------------------------------------------------
// mask_struct.go maskValue: sections = the selected groups that took part in the match, slices.SortFunc(start asc, end
// desc) — an insertion sort up to 12 elements, pdqsort above; nested groups with identical bounds tie.  The older streams
// have at most 4 groups.
// Regression this stream exposes: a comparator that is no longer a total preorder with equal ties only (e.g. the
// "enclosing group first" tie-break dropped, or start/end compared on different keys): harmless-looking under the stable
// insertion sort when the configuration lists the enclosing group first, wrong under pdqsort, where a nested section can
// come first and the enclosing one is then skipped (its remaining bytes — the secret — survive).
func genManyGroups(c *hmain.Ctx, r *hx.Rng) {
	pieces := []struct {
		re, ex string
	}{{"(a)", "a"}, {"(b)", "b"}, {"(a)?", ""}, {"(b)?", "b"}, {"(a*)", "aa"}, {"()", ""}, {"((a)(b))", "ab"}, {"((a))", "a"}, {"(a|(b))", "b"}, {"((a)|b)", "b"}, {"(é)", "é"}}
	for i := 0; i < 500*c.Scale; i++ {
		var src, example string
		if r.Chance(1, 4) {
			// the same bounds for every group: k nested parentheses
			k := r.Range(13, 18)
			src = strings.Repeat("(", k) + hx.Pick(r, []string{"a+", "ab", "[ab]+", "a|b"}) + strings.Repeat(")", k)
			example = "aab"
		} else {
			for {
				p := hx.Pick(r, pieces)
				src += p.re
				example += p.ex
				if regexp.MustCompile(src).NumSubexp() >= 13 && r.Chance(1, 3) || regexp.MustCompile(src).NumSubexp() >= 20 {
					break
				}
			}
		}
		rx := regexp.MustCompile(src)
		nsub := rx.NumSubexp()
		perm := make([]int, nsub)
		for k := range perm {
			perm[k] = k + 1
		}
		for k := nsub - 1; k > 0; k-- {
			j := r.Intn(k + 1)
			perm[k], perm[j] = perm[j], perm[k]
		}
		m := &maskGen{re: src, rx: rx, groups: perm[:r.Range(13, nsub)], metric: true}
		randMode(r, m)
		msx := m.sx()
		for k := 0; k < 3; k++ {
			v := example
			switch k {
			case 1:
				v = " " + example + "x" + example + example
			case 2:
				v = ""
				for n := r.Range(0, 24); n > 0; n-- {
					v += hx.Pick(r, []string{"a", "b", "a", "b", "é", " "})
				}
			}
			idxs := rx.FindAllSubmatchIndex([]byte(v), -1)
			why := reWF(len(v), nsub, idxs)
			c.W.Oracle("re_wf: matches ascending and disjoint, groups inside their match or -1, nested or disjoint", why == "", fmt.Sprintf("%q on %q: %s", src, v, why))
			c.Do("many-groups", 0, hx.L(msx, hx.S(v), idxSx(idxs)), len(idxs) > 0)
			most := 0
			for _, ix := range idxs {
				n := 0
				for _, g := range m.groups {
					if ix[2*g] >= 0 {
						n++
					}
				}
				if n > most {
					most = n
				}
			}
			if most > 12 {
				c.W.Count("many-groups:match-with-over-12-sections")
			} else {
				c.W.Count("many-groups:at-most-12-sections-in-every-match")
			}
		}
		c.W.Count(fmt.Sprintf("many-groups:selected=%d", len(m.groups)))
	}
}

// ---- array positions beyond one digit, odd spellings of a position ----------------------------------------------------
// mask.go:381 traverseTree looks the element up in the field tree by strconv.Itoa(i); the fast path (global process_fields
// only) goes through insane-json Dig, i.e. strconv.Atoi: "01", "+1", "-0" are positions for Dig and plain names for the
// tree.  The older streams have arrays of at most 3 elements and the keys "0" and "1".
// Regression this stream exposes: Itoa replaced by one-digit arithmetic (positions >= 10), the tree lookup switched to a
// numeric comparison ("01" starts to cover element 1), or the fast path no longer agreeing with Dig.
var indexKeys = []string{"0", "1", "2", "9", "10", "11", "12", "19", "20", "01", "+1", "-0", "00", "1e0", " 1", "a"}

func genArrayIndex(c *hmain.Ctx, r *hx.Rng) {
	tableRounds = 3
	defer func() { tableRounds = 1 }()
	for i := 0; i < 600*c.Scale; i++ {
		mkArr := func() hx.Sx {
			items := []hx.Sx{hx.I(4)}
			n := hx.Pick(r, []int{0, 1, 2, 3, 10, 11, 12, 13, 20, 21, 25})
			for k := 0; k < n; k++ {
				switch r.Intn(6) {
				case 0:
					items = append(items, hx.L(hx.I(5), hx.L(hx.S("a"), strLeaf(randText(r, 4))), hx.L(hx.S("1"), strLeaf(randText(r, 4)))))
				case 1:
					items = append(items, hx.L(hx.I(4), strLeaf(randText(r, 3)), strLeaf(randText(r, 3))))
				default:
					items = append(items, strLeaf(randText(r, 5)))
				}
			}
			c.W.Count(fmt.Sprintf("array-index:array-len>=10=%v", n >= 10))
			return hx.L(items...)
		}
		top := []string{"a", "b", "c"}
		path := func() []string {
			p := []string{hx.Pick(r, top), hx.Pick(r, indexKeys)}
			if r.Chance(1, 3) {
				p = append(p, hx.Pick(r, []string{"a", "0", "1", "10"}))
			}
			if r.Chance(1, 8) {
				p = p[:1]
			}
			return p
		}
		paths := func() [][]string {
			var ps [][]string
			for n := r.Range(1, 4); n > 0; n-- {
				ps = append(ps, path())
			}
			return normPaths(c, ps)
		}
		var masks []*maskGen
		for k := r.Range(1, 2); k > 0; k-- {
			masks = append(masks, poolMask(r, []string{`(a)`, `(b)`, `([ab])`, `(.)`, `(1)`}))
		}
		var gign, gproc [][]string
		kind := r.Intn(4)
		switch kind {
		case 0: // the fast path: global process_fields only
			gproc = paths()
		case 1:
			gign = paths()
		case 2:
			masks[0].proc = paths()
		default:
			masks[0].ign = paths()
			if len(masks) > 1 && r.Bool() {
				masks[1].proc = paths()
			}
		}
		lists := [][][]string{gign, gproc}
		for _, m := range masks {
			lists = append(lists, m.ign, m.proc)
		}
		if !prefixFree(lists) {
			c.W.Count("array-index:overlapping_lists_skipped")
			continue
		}
		var events []hx.Sx
		for k := r.Range(1, 2); k > 0; k-- {
			e := hx.L(hx.I(5), hx.L(hx.S("a"), mkArr()), hx.L(hx.S("b"), mkArr()),
				hx.L(hx.S("c"), hx.L(hx.I(5), hx.L(hx.S("01"), strLeaf(randText(r, 4))), hx.L(hx.S("1"), strLeaf(randText(r, 4))), hx.L(hx.S("10"), mkArr()))))
			if checkDecode(c, e) {
				events = append(events, e)
			}
		}
		obs := c.Do("array-index", 1, c17Case(c, masks, "", "", gign, gproc, events), true)
		if obsFired(obs) {
			c.W.Count("array-index_some_mask_fired")
		}
		c.W.Count("array-index:lists=" + []string{"global-process(fast path)", "global-ignore", "mask-process", "mask-ignore"}[kind])
	}
}

// ---- roots around insane-json's 16-field map threshold ----------------------------------------------------------------------
// mask.go:294,473: the marks are written with event.Root.AddFieldNoAlloc(root, name).MutateToString(value) while
// traverseTree is still ranging over the root's fields; mask.go:280: the process_fields fast path Digs into the root.
// insane-json answers Dig from a name->index map once an object has more than 16 fields (MapUseThreshold).  The older
// streams have at most 6 root fields.  Keys are unique here (with duplicates the map answers the LAST one: not modelled).
// Regression this stream exposes: a mark that takes the root from 16 to 17 fields (or lands in a root that is already
// map-indexed) and is then not found / written twice, the fast path missing a listed field of a wide root, the range over
// the root's fields disturbed by the append.
// Lists of 13-30 paths as well (audit item 29, C17 side: cfg/config.go:601 sort.Slice is stable only up to 12 paths; the
// dedupe of nested entries at :607-629 relies on the sorted order).  The case carries what cfg.ParseNestedFields
// returned; a nested entry that survives there (f1 and f1.a both listed) makes f1 stop covering f1.b in the field tree
// — the secret under f1.b is not masked, which the README reading of the model (inh = true) reports as a violation.
func genWideRoot(c *hmain.Ctx, r *hx.Rng) {
	for i := 0; i < 500*c.Scale; i++ {
		n := hx.Pick(r, []int{13, 14, 15, 16, 16, 16, 17, 17, 18, 20, 24})
		names := []string{}
		for k := 0; k < n; k++ {
			names = append(names, fmt.Sprintf("f%d", k))
		}
		// a few familiar names among them (marks may hit an existing field)
		for _, k := range []string{"a", "m", "k.d"} {
			if r.Bool() {
				names[r.Intn(n)] = k
			}
		}
		seen := map[string]bool{}
		items := []hx.Sx{hx.I(5)}
		for _, k := range names {
			if seen[k] {
				continue
			}
			seen[k] = true
			var v hx.Sx
			switch r.Intn(8) {
			case 0:
				v = hx.L(hx.I(5), hx.L(hx.S("a"), strLeaf(randText(r, 5))), hx.L(hx.S("b"), strLeaf(randText(r, 5))))
			case 1:
				v = hx.L(hx.I(4), strLeaf(randText(r, 4)), strLeaf(randText(r, 4)))
			case 2:
				v = hx.L(hx.I(2), hx.S(hx.Pick(r, []string{"12", "1", "-1", "112211"})))
			default:
				v = strLeaf(randText(r, 6))
			}
			items = append(items, hx.L(hx.S(k), v))
		}
		nf := len(items) - 1
		e := hx.L(items...)
		if !checkDecode(c, e) {
			continue
		}
		var masks []*maskGen
		for k := r.Range(1, 3); k > 0; k-- {
			m := poolMask(r, []string{`(a)`, `(b)`, `([ab])`, `(.)`, `(1)`, `(a)(b)?`})
			if r.Chance(1, 2) {
				m.afield, m.avalue = hx.Pick(r, []string{"mark", "a", "m", "f3", fmt.Sprintf("f%d", n-1), "new"}), hx.Pick(r, []string{"ab", "yes", ""})
			}
			masks = append(masks, m)
		}
		manyPaths := r.Chance(1, 3)
		pick := func() [][]string {
			var ps [][]string
			k := r.Range(1, 4)
			if manyPaths {
				k = r.Range(13, 30)
			}
			for ; k > 0; k-- {
				p := []string{hx.Pick(r, names)}
				if r.Chance(1, 4) || (manyPaths && r.Bool()) {
					p = append(p, hx.Pick(r, []string{"a", "b", "0", "1"}))
				}
				ps = append(ps, p)
			}
			if manyPaths {
				return normPathsMany(c, ps)
			}
			return normPaths(c, ps)
		}
		var gign, gproc [][]string
		kind := r.Intn(4)
		switch kind {
		case 0:
			gproc = pick()
		case 1:
			gign = pick()
		case 2:
			masks[0].proc = pick()
		}
		lists := [][][]string{gign, gproc}
		for _, m := range masks {
			lists = append(lists, m.ign, m.proc)
		}
		if !prefixFree(lists) {
			c.W.Count("wide-root:overlapping_lists_skipped")
			continue
		}
		gaf, gav := "", ""
		if r.Chance(2, 3) {
			gaf, gav = hx.Pick(r, []string{"masked", "a", "f0", "new"}), randText(r, 3)
		}
		events := []hx.Sx{e}
		if r.Bool() {
			events = append(events, e) // the same wide event again on the same instance
		}
		obs := c.Do("wide-root", 1, c17Case(c, masks, gaf, gav, gign, gproc, events), true)
		if obsFired(obs) {
			c.W.Count("wide-root_some_mask_fired")
			marks := gaf != "" && !seen[gaf]
			for _, m := range masks {
				marks = marks || (m.afield != "" && !seen[m.afield])
			}
			if marks && nf <= 16 && nf >= 14 {
				c.W.Count("wide-root:new-mark-on-a-root-of-14-16-fields")
			}
		}
		most := 0
		for _, l := range lists {
			most = max(most, len(l))
		}
		c.W.Count(fmt.Sprintf("wide-root:longest-list>12-paths=%v", most > 12))
		c.W.Count(fmt.Sprintf("wide-root:fields>16=%v", nf > 16))
		c.W.Count("wide-root:lists=" + []string{"global-process(fast path)", "global-ignore", "mask-process", "none"}[kind])
	}
}

func c17Thresholds(c *hmain.Ctx) {
	r := c.R
	genLongShort(c, r)
	genManyGroups(c, r)
	genArrayIndex(c, r)
	genWideRoot(c, r)
}

// normPaths for more than 12 paths: above 12 elements sort.Slice is not stable, so a second pass of
// cfg.ParseNestedFields over its own output may permute equally long paths — the oracle compares the two as sets of the
// same size, both ordered by length.  (The mask plugin stores the paths in a tree of maps: their order is irrelevant.)
func normPathsMany(c *hmain.Ctx, ps [][]string) [][]string {
	var sel []string
	for _, p := range ps {
		sel = append(sel, joinPath(hx.Ss(p)))
	}
	got, err := cfg.ParseNestedFields(sel)
	if err != nil {
		return nil
	}
	var sel2 []string
	for _, p := range got {
		sel2 = append(sel2, joinPath(hx.Ss(p)))
	}
	again, err := cfg.ParseNestedFields(sel2)
	same := err == nil && len(again) == len(got)
	if same {
		set := map[string]int{}
		for i, p := range got {
			set[strings.Join(p, "\x00")]++
			same = same && (i == 0 || len(got[i-1]) <= len(p)) && (i == 0 || len(again[i-1]) <= len(again[i]))
		}
		for _, p := range again {
			set[strings.Join(p, "\x00")]--
		}
		for _, n := range set {
			same = same && n == 0
		}
	}
	c.W.Oracle("cfg.ParseNestedFields maps its own output to the same set of paths, ordered by length (lists of more than 12 paths)", same, fmt.Sprint(sel2))
	if !same {
		return nil
	}
	return got
}
