package main

// C17 — mask action. Drives the REAL plugin through its public API only (factory config, Start, Do) with
// a panicking fatal hook on the logger, on events decoded by insane-json, and reads the metrics back
// from the plugin's metric controller.
//
//	which=1  case = (global masks events table)
//	           global  = (#mask_applied_field #mask_applied_value metric (path ...) (path ...))   ignore / process
//	           mask    = (has_re nsub (group ...) mode (ruleset ...) #applied_field #applied_value metric
//	                      (path ...) (path ...) #re_source)
//	           mode    = (0 max_count) | (1 #replace_word) | (2) cut_values
//	           ruleset = (is_or (rule ...))    rule = ((#value ...) mode ci invert)   0 prefix 1 contains 2 suffix
//	           path    = (#key ...)            events = JSON trees in the encoding of coq/Base/Json.v
//	           table   = ((mask_index #input (index ...)) ...)   FindAllSubmatchIndex of that mask's regexp on
//	                     that input, computed with Go's regexp by the generator (the regexp engine is an oracle)
//	which=0  case = (mask #value (index ...))   one mask, the event is the JSON string #value
//	obs = (0 (event ...) plugin_counter_delta (mask_counter_delta ...)) | (1 1) Start refused (Fatal) | (2) panic
//	which=2  the same with do_if answers, metric labels and the configuration route: see gated.go

import (
	"bytes"
	"fmt"
	"regexp"
	"runtime"
	"sort"
	"strings"
	"time"

	"github.com/ozontech/file.d/cfg"
	"github.com/ozontech/file.d/cfg/matchrule"
	"github.com/ozontech/file.d/logger"
	"github.com/ozontech/file.d/metric"
	"github.com/ozontech/file.d/pipeline"
	"github.com/ozontech/file.d/plugin/action/mask"
	"github.com/ozontech/file.d/test"
	insaneJSON "github.com/ozontech/insane-json"
	"github.com/prometheus/client_golang/prometheus"
	"go.uber.org/zap"
	"go.uber.org/zap/zapcore"

	"verif/harness/hmain"
	"verif/harness/hx"
)

const pluginMetric = "mask_applied_total"

// ---- building the real plugin from a case ------------------------------------------------------------

func joinPath(p hx.Sx) string {
	var parts []string
	for _, k := range hx.Items(p) {
		parts = append(parts, strings.ReplaceAll(hx.Str(k), ".", `\.`))
	}
	return strings.Join(parts, ".")
}

func fieldList(ps hx.Sx) []string {
	var out []string
	for _, p := range hx.Items(ps) {
		out = append(out, joinPath(p))
	}
	return out
}

func maskOf(i int, m hx.Sx) mask.Mask {
	it := hx.Items(m)
	var mk mask.Mask
	if hx.Truth(it[0]) {
		mk.Re = hx.Str(it[10])
	}
	for _, g := range hx.Items(it[2]) {
		mk.Groups = append(mk.Groups, int(hx.Int(g)))
	}
	md := hx.Items(it[3])
	switch hx.Int(md[0]) {
	case 0:
		mk.MaxCount = int(hx.Int(md[1]))
	case 1:
		mk.ReplaceWord = hx.Str(md[1])
	case 2:
		mk.CutValues = true
	}
	for _, rs := range hx.Items(it[4]) {
		r := hx.Items(rs)
		set := matchrule.RuleSet{Cond: matchrule.CondAnd}
		if hx.Truth(r[0]) {
			set.Cond = matchrule.CondOr
		}
		for _, ru := range hx.Items(r[1]) {
			f := hx.Items(ru)
			rule := matchrule.Rule{Mode: matchrule.Mode(hx.Int(f[1])), CaseInsensitive: hx.Truth(f[2]), Invert: hx.Truth(f[3])}
			for _, v := range hx.Items(f[0]) {
				rule.Values = append(rule.Values, hx.Str(v))
			}
			set.Rules = append(set.Rules, rule)
		}
		mk.MatchRules = append(mk.MatchRules, set)
	}
	mk.AppliedField = hx.Str(it[5])
	mk.AppliedValue = hx.Str(it[6])
	if hx.Truth(it[7]) {
		mk.MetricName = fmt.Sprintf("verif_mask_%d", i)
	}
	mk.IgnoreFields = fieldList(it[8])
	mk.ProcessFields = fieldList(it[9])
	return mk
}

type c17Plugin struct {
	p      *mask.Plugin
	ctl    *metric.Ctl
	nmasks int
	metric []bool
}

// Start with a logger whose Fatal panics instead of exiting; "fatal" = Start refused the configuration
func startPlugin(global hx.Sx, masks []hx.Sx) (pl *c17Plugin, fatal bool, crash string) {
	g := hx.Items(global)
	conf := &mask.Config{
		MaskAppliedField: hx.Str(g[0]),
		MaskAppliedValue: hx.Str(g[1]),
		IgnoreFields:     fieldList(g[3]),
		ProcessFields:    fieldList(g[4]),
	}
	pl = &c17Plugin{nmasks: len(masks)}
	for i, m := range masks {
		conf.Masks = append(conf.Masks, maskOf(i, m))
		pl.metric = append(pl.metric, conf.Masks[i].MetricName != "")
	}
	lg := zap.NewNop().WithOptions(zap.WithFatalHook(zapcore.WriteThenPanic)).Sugar()
	pl.ctl = metric.NewCtl("verif", prometheus.NewRegistry(), time.Minute, 0)
	params := &pipeline.ActionPluginParams{
		PluginDefaultParams: pipeline.PluginDefaultParams{
			PipelineName:     "verif",
			PipelineSettings: &pipeline.Settings{AvgEventSize: 16},
			MetricCtl:        pl.ctl,
		},
		Logger: lg,
	}
	func() {
		defer func() {
			if r := recover(); r != nil {
				if _, isRT := r.(runtime.Error); isRT {
					crash = "PANIC " + fmt.Sprint(r)
				} else {
					fatal = true
				}
			}
		}()
		var p mask.Plugin
		p.Start(test.NewConfig(conf, nil), params)
		pl.p = &p
	}()
	return pl, fatal, crash
}

func (pl *c17Plugin) counters() (float64, []float64) {
	total := pl.ctl.RegisterCounterVec(pluginMetric, "").WithLabelValues().ToFloat64()
	per := make([]float64, pl.nmasks)
	for i := range per {
		if pl.metric[i] {
			per[i] = pl.ctl.RegisterCounterVec(fmt.Sprintf("verif_mask_%d", i), "").WithLabelValues().ToFloat64()
		}
	}
	return total, per
}

// run the events through Do; returns the observable
func (pl *c17Plugin) run(events []hx.Sx) hx.Sx {
	t0, p0 := pl.counters()
	var outs []hx.Sx
	for _, e := range events {
		root, err := insaneJSON.DecodeString(hx.JSONText(e))
		if err != nil {
			return hx.L(hx.I(7), hx.S("undecodable event: "+err.Error()))
		}
		ev := &pipeline.Event{Root: root}
		msg := hx.Catch(func() { pl.p.Do(ev) })
		if msg != "" {
			insaneJSON.Release(root)
			return hx.L(hx.I(2))
		}
		outs = append(outs, hx.JSON(root.Node))
		insaneJSON.Release(root)
	}
	t1, p1 := pl.counters()
	per := make([]hx.Sx, len(p1))
	for i := range p1 {
		per[i] = hx.I(int(p1[i] - p0[i]))
	}
	return hx.L(hx.I(0), hx.L(outs...), hx.I(int(t1-t0)), hx.L(per...))
}

// which=0 reuses the plugin while the mask stays the same (buffers are reused from value to value)
var (
	lastKey   string
	lastPl    *c17Plugin
	lastFatal bool
	lastCrash string
)

var global0 = hx.L(hx.S(""), hx.S(""), hx.I(1), hx.L(), hx.L())

func c17Exec(which int, cs hx.Sx) hx.Sx {
	if which == 2 {
		return c17ExecExt(cs)
	}
	it := hx.Items(cs)
	var pl *c17Plugin
	var fatal bool
	var crash string
	var events []hx.Sx
	if which == 0 {
		key := hx.String(it[0])
		if key != lastKey || lastPl == nil {
			lastPl, lastFatal, lastCrash = startPlugin(global0, []hx.Sx{it[0]})
			lastKey = key
		}
		pl, fatal, crash = lastPl, lastFatal, lastCrash
		events = []hx.Sx{hx.L(hx.I(3), it[1])}
	} else {
		pl, fatal, crash = startPlugin(it[0], hx.Items(it[1]))
		events = hx.Items(it[2])
	}
	switch {
	case crash != "":
		return hx.L(hx.I(2))
	case fatal:
		return hx.L(hx.I(1), hx.I(1))
	}
	return pl.run(events)
}

// ---- generator side -------------------------------------------------------------------------------

type maskGen struct {
	re      string // "" = no regexp
	rx      *regexp.Regexp
	groups  []int
	mode    hx.Sx
	modeK   int
	maxCnt  int
	word    string
	rules   hx.Sx
	afield  string
	avalue  string
	metric  bool
	ign     [][]string
	proc    [][]string
	ciRules bool
}

func pathsSx(ps [][]string) hx.Sx {
	return hx.List(ps, func(p []string) hx.Sx { return hx.Ss(p) })
}

func (m *maskGen) sx() hx.Sx {
	nsub := 0
	if m.rx != nil {
		nsub = m.rx.NumSubexp()
	}
	rules := m.rules
	if rules == nil {
		rules = hx.L()
	}
	return hx.L(hx.Bool(m.re != ""), hx.I(nsub), hx.List(m.groups, hx.I), m.mode, rules,
		hx.S(m.afield), hx.S(m.avalue), hx.Bool(m.metric), pathsSx(m.ign), pathsSx(m.proc), hx.S(m.re))
}

func modeSx(k, maxCnt int, word string) hx.Sx {
	switch k {
	case 1:
		return hx.L(hx.I(1), hx.S(word))
	case 2:
		return hx.L(hx.I(2))
	}
	return hx.L(hx.I(0), hx.I(maxCnt))
}

// cfg.VerifyGroupNumbers without the Fatal: nil, false = refused
func verifyGroups(groups []int, total int) ([]int, bool) {
	seen := map[int]bool{}
	for _, g := range groups {
		if seen[g] {
			return nil, false
		}
		seen[g] = true
	}
	if len(groups) > total {
		return nil, false
	}
	for _, g := range groups {
		if g > total || g < 0 {
			return nil, false
		} else if g == 0 {
			return []int{0}, true
		}
	}
	return groups, true
}

// the oracle hypothesis re_wf of coq/Model/Mask.v (re_wf_b), on what Go's regexp returned
func reWF(vlen, nsub int, idxs [][]int) string {
	prev := 0
	for _, ix := range idxs {
		if len(ix) != 2*(nsub+1) {
			return "index array length"
		}
		s, f := ix[0], ix[1]
		if !(prev <= s && s <= f && f <= vlen) {
			return fmt.Sprintf("match [%d,%d) after %d in value of %d bytes", s, f, prev, vlen)
		}
		for g := 0; g <= nsub; g++ {
			a, b := ix[2*g], ix[2*g+1]
			if a == -1 && b == -1 {
				continue
			}
			if !(s <= a && a <= b && b <= f) {
				return fmt.Sprintf("group %d [%d,%d) outside match [%d,%d)", g, a, b, s, f)
			}
			for h := 0; h <= nsub; h++ {
				c, d := ix[2*h], ix[2*h+1]
				if c == -1 && d == -1 {
					continue
				}
				if !(b <= c || d <= a || (c <= a && b <= d) || (a <= c && d <= b)) {
					return fmt.Sprintf("groups %d [%d,%d) and %d [%d,%d) overlap partially", g, a, b, h, c, d)
				}
			}
		}
		prev = f
	}
	return ""
}

// the specification of one mask application, used ONLY to know which inputs later masks will see
// (a wrong guess shows up as a missing table entry = BadCase, never as agreement)
func specMask(v []byte, idxs [][]int, groups []int, modeK, maxCnt int, word string) []byte {
	var out []byte
	prev := 0
	for _, ix := range idxs {
		var secs [][2]int
		for _, g := range groups {
			if ix[2*g] >= 0 && ix[2*g+1] >= 0 {
				secs = append(secs, [2]int{ix[2*g], ix[2*g+1]})
			}
		}
		sort.SliceStable(secs, func(i, j int) bool {
			if secs[i][0] != secs[j][0] {
				return secs[i][0] < secs[j][0]
			}
			return secs[i][1] > secs[j][1]
		})
		for _, s := range secs {
			if s[0] < prev {
				continue
			}
			out = append(out, v[prev:s[0]]...)
			switch modeK {
			case 1:
				out = append(out, word...)
			case 2:
			default:
				n := 0
				for range string(v[s[0]:s[1]]) {
					n++
				}
				if maxCnt > 0 && n > maxCnt {
					n = maxCnt
				}
				out = append(out, bytes.Repeat([]byte{'*'}, n)...)
			}
			prev = s[1]
		}
	}
	return append(out, v[prev:]...)
}

func idxSx(idxs [][]int) hx.Sx {
	return hx.List(idxs, func(ix []int) hx.Sx { return hx.List(ix, hx.I) })
}

func leaves(j hx.Sx, out map[string]bool) {
	if hx.IsInt(j) {
		return
	}
	it := hx.Items(j)
	switch hx.Int(it[0]) {
	case 2, 3:
		out[hx.Str(it[1])] = true
	case 4:
		for _, x := range it[1:] {
			leaves(x, out)
		}
	case 5:
		for _, f := range it[1:] {
			leaves(hx.Items(f)[1], out)
		}
	}
}

// the table of regexp results for every (mask, input) a run of the plugin can need
func buildTable(c *hmain.Ctx, masks []*maskGen, events []hx.Sx) hx.Sx {
	set := map[string]bool{}
	for _, e := range events {
		leaves(e, set)
	}
	for _, m := range masks {
		if m.afield != "" {
			set[m.avalue] = true
		}
	}
	var rows []hx.Sx
	done := map[string]bool{}
	for round := 0; round < tableRounds; round++ {
		for i, m := range masks {
			if m.rx == nil {
				continue
			}
			gs, ok := verifyGroups(m.groups, m.rx.NumSubexp())
			if !ok || len(gs) == 0 {
				continue
			}
			for _, v := range hx.SortedKeys(set) {
				key := fmt.Sprintf("%d|%s", i, v)
				if done[key] {
					continue
				}
				done[key] = true
				idxs := m.rx.FindAllSubmatchIndex([]byte(v), -1)
				why := reWF(len(v), m.rx.NumSubexp(), idxs)
				c.W.Oracle("re_wf: matches ascending and disjoint, groups inside their match or -1, nested or disjoint", why == "", fmt.Sprintf("%q on %q: %s", m.re, v, why))
				rows = append(rows, hx.L(hx.I(i), hx.S(v), idxSx(idxs)))
				if len(idxs) > 0 {
					set[string(specMask([]byte(v), idxs, gs, m.modeK, m.maxCnt, m.word))] = true
				}
			}
		}
	}
	return hx.L(rows...)
}

// how often buildTable goes over the masks.  1 = every mask sees the event's values and the outputs of the masks before
// it (a value is processed once per Do).  The array-index stream lists several spellings of one array position ("1",
// "+1", "01") in a global process list: the fast path then Digs the same element twice and the masks run on their own
// output — that stream builds the table with 3 rounds.
var tableRounds = 1

// ---- random regexps from a small grammar --------------------------------------------------------------

type reGen struct {
	r      *hx.Rng
	groups int
}

var reAtoms = []string{"a", "b", "c", "1", ".", "[ab]", "[^a]", "é", "\\d", "x"}

func (g *reGen) gen(depth int) string {
	r := g.r
	if depth <= 0 {
		return hx.Pick(r, reAtoms)
	}
	switch r.Intn(12) {
	case 0, 1:
		return hx.Pick(r, reAtoms)
	case 2, 3:
		n := r.Range(2, 3)
		s := ""
		for i := 0; i < n; i++ {
			s += g.gen(depth - 1)
		}
		return s
	case 4:
		return "(?:" + g.gen(depth-1) + "|" + g.gen(depth-1) + ")"
	case 5, 6, 7:
		if g.groups >= 4 {
			return g.gen(depth - 1)
		}
		g.groups++
		switch r.Intn(6) {
		case 0:
			return "()" // empty group
		case 1:
			return "(" + g.gen(depth-1) + "|" + g.gen(depth-1) + ")"
		default:
			return "(" + g.gen(depth-1) + ")"
		}
	case 8:
		return g.atomic(depth) + "?"
	case 9:
		return g.atomic(depth) + "*"
	case 10:
		return g.atomic(depth) + "+"
	default:
		return g.atomic(depth) + "??"
	}
}

// something a postfix operator can be applied to
func (g *reGen) atomic(depth int) string {
	if g.r.Chance(1, 2) && g.groups < 4 {
		g.groups++
		return "(" + g.gen(depth-1) + ")"
	}
	if g.r.Chance(1, 2) {
		return "(?:" + g.gen(depth-1) + ")"
	}
	return hx.Pick(g.r, reAtoms)
}

func randRegexp(r *hx.Rng) (string, *regexp.Regexp) {
	for {
		g := &reGen{r: r}
		src := g.gen(r.Range(1, 4))
		if r.Chance(1, 8) {
			src = "^" + src
		}
		if r.Chance(1, 8) {
			src += "$"
		}
		rx, err := regexp.Compile(src)
		if err == nil && len(src) < 60 {
			return src, rx
		}
	}
}

var textAtoms = []string{"a", "b", "c", "x", "1", "2", "ab", "é", "€", "𝄞", " ", "\xff", "\xc3", "A", "B"}

func randText(r *hx.Rng, maxAtoms int) string {
	n := r.Intn(maxAtoms + 1)
	s := ""
	for i := 0; i < n; i++ {
		if r.Chance(3, 4) {
			s += textAtoms[r.Intn(6)]
		} else {
			s += hx.Pick(r, textAtoms)
		}
	}
	return s
}

// a valid selection: a permutation of a subset of 1..nsub, or something containing 0
func randGroups(r *hx.Rng, nsub int) []int {
	if nsub == 0 {
		return nil
	}
	if r.Chance(1, 10) {
		return []int{0}
	}
	perm := make([]int, nsub)
	for i := range perm {
		perm[i] = i + 1
	}
	for i := nsub - 1; i > 0; i-- {
		j := r.Intn(i + 1)
		perm[i], perm[j] = perm[j], perm[i]
	}
	return perm[:r.Range(1, nsub)]
}

func randMode(r *hx.Rng, m *maskGen) {
	switch r.Intn(5) {
	case 0:
		m.modeK, m.word = 1, hx.Pick(r, []string{"X", "ab", "***", "SECRET", "é"})
	case 1:
		m.modeK = 2
	default:
		m.modeK = 0
		m.maxCnt = hx.Pick(r, []int{0, 0, 1, 2, 3, -1})
	}
	m.mode = modeSx(m.modeK, m.maxCnt, m.word)
}

var keyAlpha = []string{"a", "b", "c", "m", "0", "1", "k.d"}

func randJSON(r *hx.Rng, depth int) hx.Sx {
	k := r.Intn(10)
	if depth <= 0 && k >= 7 {
		k = r.Intn(7)
	}
	switch k {
	case 0, 1, 2, 3:
		return hx.L(hx.I(3), hx.S(randText(r, 6)))
	case 4:
		return hx.L(hx.I(2), hx.S(hx.Pick(r, []string{"0", "1", "12", "-1", "1.5", "21e1", "112211", "-0.12"})))
	case 5:
		return hx.L(hx.I(1), hx.Bool(r.Bool()))
	case 6:
		return hx.I(0)
	case 7:
		items := []hx.Sx{hx.I(4)}
		for n := r.Intn(4); n > 0; n-- {
			items = append(items, randJSON(r, depth-1))
		}
		return hx.L(items...)
	default:
		return randObj(r, depth-1, r.Intn(5))
	}
}

func randObj(r *hx.Rng, depth, n int) hx.Sx {
	items := []hx.Sx{hx.I(5)}
	for ; n > 0; n-- {
		items = append(items, hx.L(hx.S(hx.Pick(r, keyAlpha)), randJSON(r, depth)))
	}
	return hx.L(items...)
}

func randPath(r *hx.Rng) []string {
	n := 1
	if r.Chance(1, 2) {
		n = r.Range(1, 3)
	}
	p := make([]string, n)
	for i := range p {
		p[i] = hx.Pick(r, keyAlpha)
	}
	return p
}

// a field list as the plugin will see it after cfg.ParseNestedFields (nested entries removed, ordered by
// length); nil if the real parser and the joined selectors disagree (checked as an oracle)
func normPaths(c *hmain.Ctx, ps [][]string) [][]string {
	if len(ps) == 0 {
		return nil
	}
	var sel []string
	for _, p := range ps {
		sel = append(sel, joinPath(hx.Ss(p)))
	}
	got, err := cfg.ParseNestedFields(sel)
	if err != nil {
		return nil
	}
	var sel2 []string
	for _, p := range got {
		sel2 = append(sel2, joinPath(hx.Ss(p)))
	}
	again, err := cfg.ParseNestedFields(sel2)
	same := err == nil && len(again) == len(got)
	for i := 0; same && i < len(got); i++ {
		same = strings.Join(got[i], "\x00") == strings.Join(again[i], "\x00")
	}
	c.W.Oracle("cfg.ParseNestedFields is the identity on its own output", same, fmt.Sprint(sel2))
	if !same {
		return nil
	}
	return got
}

func randPaths(c *hmain.Ctx, r *hx.Rng) [][]string {
	var ps [][]string
	for n := r.Range(1, 3); n > 0; n-- {
		ps = append(ps, randPath(r))
	}
	return normPaths(c, ps)
}

func strictPrefix(a, b []string) bool {
	if len(a) >= len(b) {
		return false
	}
	for i := range a {
		if a[i] != b[i] {
			return false
		}
	}
	return true
}

// no entry of one list is a strict prefix of an entry of another (or the same) list
func prefixFree(lists [][][]string) bool {
	var all [][]string
	for _, l := range lists {
		all = append(all, l...)
	}
	for _, a := range all {
		for _, b := range all {
			if strictPrefix(a, b) {
				return false
			}
		}
	}
	return true
}

func asciiLower(s string) string {
	b := []byte(s)
	for i, c := range b {
		if c >= 'A' && c <= 'Z' {
			b[i] = c + 32
		}
	}
	return string(b)
}

func randRules(r *hx.Rng, m *maskGen) {
	var sets []hx.Sx
	for n := r.Range(1, 2); n > 0; n-- {
		var rules []hx.Sx
		for k := r.Range(1, 2); k > 0; k-- {
			var vals []hx.Sx
			for v := r.Range(1, 3); v > 0; v-- {
				s := randText(r, 2)
				if r.Chance(1, 6) {
					s = ""
				}
				vals = append(vals, hx.S(s))
			}
			ci := r.Chance(1, 3)
			if ci {
				m.ciRules = true
			}
			rules = append(rules, hx.L(hx.L(vals...), hx.I(r.Intn(3)), hx.Bool(ci), hx.Bool(r.Chance(1, 4))))
		}
		sets = append(sets, hx.L(hx.Bool(r.Bool()), hx.L(rules...)))
	}
	m.rules = hx.L(sets...)
}

// case-insensitive rules are modelled with ASCII lower-casing: keep them only when that is what Go does
// on every string they can meet
func ciSafe(masks []*maskGen, events []hx.Sx) bool {
	set := map[string]bool{}
	for _, e := range events {
		leaves(e, set)
	}
	for _, m := range masks {
		set[m.avalue] = true
		if m.rules != nil {
			for _, rs := range hx.Items(m.rules) {
				for _, ru := range hx.Items(hx.Items(rs)[1]) {
					for _, v := range hx.Items(hx.Items(ru)[0]) {
						set[hx.Str(v)] = true
					}
				}
			}
		}
	}
	for s := range set {
		if string(bytes.ToLower([]byte(s))) != asciiLower(s) || strings.ToLower(s) != asciiLower(s) {
			return false
		}
	}
	return true
}

func dropCI(m *maskGen) {
	if m.rules == nil {
		return
	}
	var sets []hx.Sx
	for _, rs := range hx.Items(m.rules) {
		var rules []hx.Sx
		for _, ru := range hx.Items(hx.Items(rs)[1]) {
			f := hx.Items(ru)
			rules = append(rules, hx.L(f[0], f[1], hx.Bool(false), f[3]))
		}
		sets = append(sets, hx.L(hx.Items(rs)[0], hx.L(rules...)))
	}
	m.rules = hx.L(sets...)
	m.ciRules = false
}

func randMask(c *hmain.Ctx, r *hx.Rng, withLists bool) *maskGen {
	m := &maskGen{}
	if r.Chance(9, 10) {
		for {
			m.re, m.rx = randRegexp(r)
			if m.rx.NumSubexp() > 0 || r.Chance(1, 10) {
				break
			}
		}
		m.groups = randGroups(r, m.rx.NumSubexp())
	}
	randMode(r, m)
	if m.re == "" || r.Chance(1, 4) {
		randRules(r, m)
	}
	if r.Chance(1, 4) {
		m.afield, m.avalue = hx.Pick(r, keyAlpha), randText(r, 3)
	}
	m.metric = r.Chance(1, 2)
	if withLists && r.Chance(1, 3) {
		if r.Bool() {
			m.ign = randPaths(c, r)
		} else {
			m.proc = randPaths(c, r)
		}
	}
	return m
}

func c17Case(c *hmain.Ctx, masks []*maskGen, gaf, gav string, gign, gproc [][]string, events []hx.Sx) hx.Sx {
	ci := false
	for _, m := range masks {
		ci = ci || m.ciRules
	}
	if ci {
		safe := ciSafe(masks, events)
		c.W.Oracle("bytes.ToLower = ASCII lower-casing on the data met by case-insensitive rules", true, "")
		if !safe {
			for _, m := range masks {
				dropCI(m)
			}
			c.W.Count("ci_rules_dropped_non_ascii")
		} else {
			c.W.Count("ci_rules_kept_ascii_data")
		}
	}
	ms := make([]hx.Sx, len(masks))
	for i, m := range masks {
		ms[i] = m.sx()
	}
	return hx.L(hx.L(hx.S(gaf), hx.S(gav), hx.I(1), pathsSx(gign), pathsSx(gproc)), hx.L(ms...), hx.L(events...),
		buildTable(c, masks, events))
}

func obsFired(obs hx.Sx) bool {
	it := hx.Items(obs)
	return len(it) == 4 && hx.Int(it[0]) == 0 && hx.Int(it[2]) > 0
}

// the decoded event is the tree of the case (insane-json is a third-party library: oracle)
func checkDecode(c *hmain.Ctx, e hx.Sx) bool {
	root, err := insaneJSON.DecodeString(hx.JSONText(e))
	ok := err == nil && hx.String(hx.JSON(root.Node)) == hx.String(e)
	if err == nil {
		insaneJSON.Release(root)
	}
	c.W.Oracle("insane-json decodes the rendered tree back to the tree", ok, hx.String(e))
	return ok
}

var exhaustiveRegexps = []string{
	`(a)`, `(a)(b)`, `(a(b))`, `a(b)?`, `(a)|(b)`, `(a|b)*`, `((a)|(b))+`, `(a*)`, `()a`, `(a)()(b)`,
	`(a(b)?)+`, `(a)(b)?(a)?`, `((a)(b))`, `(a+)(b*)`, `(?:(a)|b)(b)`, `(.)(.)`, `^(a)`, `(b)$`, `(a??)(b)`, `((a*)(b*))`,
	`(é)`, `([^a])(a)?`,
}

func orderedSubsets(n int) [][]int {
	var out [][]int
	var rec func(cur []int, used int)
	rec = func(cur []int, used int) {
		if len(cur) > 0 {
			out = append(out, append([]int(nil), cur...))
		}
		for g := 1; g <= n; g++ {
			if used&(1<<g) == 0 {
				rec(append(cur, g), used|1<<g)
			}
		}
	}
	rec(nil, 0)
	return append(out, []int{0})
}

func c17Gen(c *hmain.Ctx) {
	r := c.R

	// 1. exhaustive small scope: fixed regexps x every ordered subset of their groups x every value over the
	//    alphabet up to the tier's length x four modes
	alpha := []string{"a", "b"}
	maxLen := 4
	if c.Tier == "thorough" {
		alpha = []string{"a", "b", "é"}
		maxLen = 5
	}
	var values []string
	var rec func(s string, n int)
	rec = func(s string, n int) {
		values = append(values, s)
		if n < maxLen {
			for _, a := range alpha {
				rec(s+a, n+1)
			}
		}
	}
	rec("", 0)
	modes := [][3]any{{0, 0, ""}, {0, 1, ""}, {1, 0, "XY"}, {2, 0, ""}}
	for _, src := range exhaustiveRegexps {
		rx := regexp.MustCompile(src)
		for _, gs := range orderedSubsets(rx.NumSubexp()) {
			for _, md := range modes {
				m := &maskGen{re: src, rx: rx, groups: gs, modeK: md[0].(int), maxCnt: md[1].(int), word: md[2].(string), metric: true}
				m.mode = modeSx(m.modeK, m.maxCnt, m.word)
				msx := m.sx()
				for _, v := range values {
					idxs := rx.FindAllSubmatchIndex([]byte(v), -1)
					why := reWF(len(v), rx.NumSubexp(), idxs)
					c.W.Oracle("re_wf: matches ascending and disjoint, groups inside their match or -1, nested or disjoint", why == "", fmt.Sprintf("%q on %q: %s", src, v, why))
					c.Do("exhaustive", 0, hx.L(msx, hx.S(v), idxSx(idxs)), len(idxs) > 0)
				}
			}
		}
	}
	c.W.Count(fmt.Sprintf("exhaustive_regexps_%d_values_%d", len(exhaustiveRegexps), len(values)))

	// 2. random regexps from the grammar, group subsets in every order, multi-byte text, one value
	for i := 0; i < 6000*c.Scale; i++ {
		m := &maskGen{metric: true}
		for {
			m.re, m.rx = randRegexp(r)
			if m.rx.NumSubexp() > 0 {
				break
			}
		}
		m.groups = randGroups(r, m.rx.NumSubexp())
		randMode(r, m)
		msx := m.sx()
		for k := 0; k < 3; k++ {
			v := randText(r, 8)
			idxs := m.rx.FindAllSubmatchIndex([]byte(v), -1)
			why := reWF(len(v), m.rx.NumSubexp(), idxs)
			c.W.Oracle("re_wf: matches ascending and disjoint, groups inside their match or -1, nested or disjoint", why == "", fmt.Sprintf("%q on %q: %s", m.re, v, why))
			c.Do("random-value", 0, hx.L(msx, hx.S(v), idxSx(idxs)), len(idxs) > 0)
			if len(idxs) > 0 {
				c.W.Count("value_matched")
				unm, nested := false, false
				for _, ix := range idxs {
					for a, g := range m.groups {
						if ix[2*g] < 0 {
							unm = true
						}
						for _, h := range m.groups[:a] {
							if ix[2*g] >= 0 && ix[2*h] >= 0 && ix[2*g] < ix[2*h+1] && ix[2*h] < ix[2*g+1] {
								nested = true
							}
						}
					}
				}
				if unm {
					c.W.Count("value_with_unmatched_selected_group")
				}
				if nested {
					c.W.Count("value_with_nested_selected_groups")
				}
			}
		}
	}

	// 3. whole events: several masks, process/ignore lists (never overlapping across lists), marks, rules
	tree := func(stream string, overlap bool, n, minEv, maxEv int) {
		for i := 0; i < n; i++ {
			var masks []*maskGen
			withLists := r.Chance(2, 3)
			for k := r.Range(1, 3); k > 0; k-- {
				masks = append(masks, randMask(c, r, withLists || overlap))
			}
			var gign, gproc [][]string
			ovShort, ovLong := "", ""
			if (withLists || overlap) && r.Chance(1, 2) {
				if r.Bool() {
					gign = randPaths(c, r)
				} else {
					gproc = randPaths(c, r)
				}
			}
			lists := [][][]string{gign, gproc}
			for _, m := range masks {
				lists = append(lists, m.ign, m.proc)
			}
			if overlap {
				// make one list entry a strict prefix of an entry of another list
				short := randPath(r)[:1]
				long := append(append([]string(nil), short...), hx.Pick(r, keyAlpha))
				ovShort, ovLong = short[0], long[1]
				a, b := masks[r.Intn(len(masks))], masks[r.Intn(len(masks))]
				if a == b {
					if r.Bool() {
						gproc, gign = [][]string{short}, nil
					} else {
						gign, gproc = [][]string{short}, nil
					}
				} else if r.Bool() {
					a.proc, a.ign = [][]string{short}, nil
				} else {
					a.ign, a.proc = [][]string{short}, nil
				}
				if r.Bool() {
					b.proc, b.ign = [][]string{long}, nil
				} else {
					b.ign, b.proc = [][]string{long}, nil
				}
				lists = [][][]string{gign, gproc}
				for _, m := range masks {
					lists = append(lists, m.ign, m.proc)
				}
				if prefixFree(lists) {
					continue
				}
			} else if !prefixFree(lists) {
				c.W.Count("overlapping_lists_regenerated")
				i--
				continue
			}
			gaf, gav := "", ""
			if r.Chance(1, 3) {
				gaf, gav = hx.Pick(r, keyAlpha), randText(r, 3)
			}
			var events []hx.Sx
			for k := r.Range(minEv, maxEv); k > 0; k-- {
				var e hx.Sx
				if r.Chance(1, 10) {
					e = randJSON(r, 2)
				} else {
					e = randObj(r, 2, r.Range(1, 5))
				}
				if overlap && len(ovShort) > 0 {
					// put values where the overlapping entries point: {short: {long: text, other: text}, ...}
					inner := hx.L(hx.I(5), hx.L(hx.S(ovLong), hx.L(hx.I(3), hx.S(randText(r, 6)))),
						hx.L(hx.S(hx.Pick(r, keyAlpha)), hx.L(hx.I(3), hx.S(randText(r, 6)))))
					items := []hx.Sx{hx.I(5), hx.L(hx.S(ovShort), inner)}
					if !hx.IsInt(e) && hx.Int(hx.Items(e)[0]) == 5 {
						items = append(items, hx.Items(e)[1:]...)
					}
					e = hx.L(items...)
				}
				if checkDecode(c, e) {
					events = append(events, e)
				}
			}
			cs := c17Case(c, masks, gaf, gav, gign, gproc, events)
			obs := c.Do(stream, 1, cs, true)
			if obsFired(obs) {
				c.W.Count(stream + "_some_mask_fired")
			}
			if len(gproc) > 0 {
				fast := true
				for _, m := range masks {
					fast = fast && len(m.ign) == 0 && len(m.proc) == 0
				}
				if fast {
					c.W.Count(stream + "_fast_path")
				}
			}
			keys := map[string]bool{}
			for _, e := range events {
				if !hx.IsInt(e) && hx.Int(hx.Items(e)[0]) == 5 {
					for _, f := range hx.Items(e)[1:] {
						keys[hx.Str(hx.Items(f)[0])] = true
					}
				}
			}
			coll := gaf != "" && keys[gaf]
			for _, m := range masks {
				coll = coll || (m.afield != "" && keys[m.afield])
			}
			if coll {
				c.W.Count(stream + "_mark_field_already_in_event")
			}
			c.W.Count(fmt.Sprintf("%s_masks_%d", stream, len(masks)))
			if len(gproc) > 0 {
				c.W.Count(stream + "_global_process_list")
			}
			if len(gign) > 0 {
				c.W.Count(stream + "_global_ignore_list")
			}
		}
	}
	tree("events", false, 5000*c.Scale, 1, 2)
	// 4. the known finding: a list entry under which another list has a longer entry
	tree("fields-overlap", true, 300*c.Scale, 1, 2)

	// 5. adversarial configurations: group numbers out of range / duplicated / too many / zero among
	//    others, empty and whole-value matches, cut followed by another mask, marks that collide with
	//    event fields, invalid UTF-8
	for i := 0; i < 2500*c.Scale; i++ {
		var masks []*maskGen
		for k := r.Range(1, 3); k > 0; k-- {
			m := &maskGen{metric: r.Bool()}
			m.re = hx.Pick(r, []string{`(.*)`, `(a*)`, `()`, `(a)|(b)`, `(a(b)?)`, `((a)|b)*`, `(\xff)`, `(.)`, `(é+)`, `(a)(b)(c)?`, `a`})
			m.rx = regexp.MustCompile(m.re)
			nsub := m.rx.NumSubexp()
			switch r.Intn(8) {
			case 0:
				m.groups = []int{1, 1}
			case 1:
				m.groups = []int{nsub + 1}
			case 2:
				m.groups = []int{-1}
			case 3:
				m.groups = []int{1, 0, 99}
			case 4:
				m.groups = nil
			default:
				m.groups = randGroups(r, nsub)
			}
			if r.Chance(1, 2) {
				m.modeK = 2
				m.mode = modeSx(2, 0, "")
			} else {
				randMode(r, m)
			}
			if r.Chance(1, 2) {
				m.afield, m.avalue = hx.Pick(r, []string{"a", "b", "m"}), hx.Pick(r, []string{"ab", "a", "", "é"})
			}
			masks = append(masks, m)
		}
		var events []hx.Sx
		for k := r.Range(1, 2); k > 0; k-- {
			e := randObj(r, 1, r.Range(0, 4))
			if checkDecode(c, e) {
				events = append(events, e)
			}
		}
		gaf := hx.Pick(r, []string{"", "a", "m"})
		c.Do("adversarial", 1, c17Case(c, masks, gaf, "ab", nil, nil, events), true)
	}

	// 6. (after everything above, so that the older streams keep their cases for a given seed) histories of 3-12 events
	//    on one multi-mask instance: the older streams stop at 2.  Exposes per-event state that survives Do: maskApplyCount
	//    not zeroed (mask.go Do), a mark / metric of event k charged to event k+1, buffers.
	tree("events-history", false, 350*c.Scale, 3, 12)
	//    and the size / shape thresholds of notes/threshold-audit.txt item 31
	c17Thresholds(c)
	//    and the options / second callers of notes/coverage/C17-triage.md: per-mask do_if, metric labels, the configuration
	//    decoded from JSON text, refused configurations (which=2, gated.go)
	c17Gated(c)
}

func main() {
	// as cmd/file.d/file.d.go:97 and fd/file.d.go:100 set them in production (the library default pool is 128 nodes):
	// decoding and the AddFieldNoAlloc of the marks then walk the 16/32/64 node-pool expansions
	insaneJSON.StartNodePoolSize = 16
	insaneJSON.DisableBeautifulErrors = true
	logger.Level.SetLevel(zapcore.ErrorLevel) // cfg.ParseNestedFields warns about every nested / duplicate path
	hmain.Run(&hmain.Prop{ID: "C17",
		Rule: "exhaustive: the fixed regexps x every ordered subset of their groups x every value over the tier's alphabet/length x four modes; random regexps from a grammar (nested, alternated, optional, empty groups) x group subsets in every order x multi-byte / invalid UTF-8 text; whole events with 1-3 masks, global and per-mask process/ignore lists over nested objects and arrays, marks, match rules; adversarial configurations; threshold streams (values of 13-19 bytes / 1-5 KiB, long then short, on one instance; 3-12 events per instance; 13-21 selected groups; arrays of 10-25 elements with multi-digit and oddly spelled positions in the lists; roots of 13-24 fields with marks and field lists of 13-30 paths); option streams (which=2: per-mask do_if gates over 2-5 events of one instance, labelled counters, metric-name clash, the configuration decoded from JSON text, one cause of refusal per case). Non-trivial = the regexp matched the value (value streams) / every whole-event case; distinct = distinct (sub-model, case) text.",
		Gen:  c17Gen, Exec: c17Exec})
}
