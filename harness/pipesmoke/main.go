package main

import (
	"fmt"
	"os"
	"strings"

	"verif/harness/hx"
	"verif/harness/pipedrv"
)

func main() {
	cs := pipedrv.StaleUnblock(0, 2)
	if len(os.Args) > 1 && os.Args[1] == "1" {
		cs = pipedrv.StaleUnblock(1, 2)
	} else if len(os.Args) > 1 {
		cs = hx.MustParse(os.Args[1])
	}
	obs := hx.String(pipedrv.RunCase(cs))
	fmt.Println(hx.String(cs))
	fmt.Println(strings.ReplaceAll(obs, ") (", ")\n("))
}
