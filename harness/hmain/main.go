// Correspondence harness: runs the REAL file.d code (module replaced by /repo) on generated,
// enumerated and corpus cases and writes, per case, the input and the canonicalised observable.
//
//	harness-<ID> -out cases.txt -stats stats.json [-seed N] [-tier quick|thorough] [-corpus dir]
//	harness-<ID> -replay "<stream>\t<which>\t<case-sx>"      re-executes one case, prints its line
package hmain

import (
	"bufio"
	"flag"
	"fmt"
	"os"
	"path/filepath"
	"sort"
	"strconv"
	"strings"

	"verif/harness/hx"
)

type Ctx struct {
	W     *hx.Writer
	Cur   *os.File // the case being executed (so a crash of the real code can be attributed)
	R     *hx.Rng
	Tier  string
	Seed  uint64
	Scale int // 1 quick, 20 thorough (generators multiply their counts)
	Prop  *Prop
}

// Do executes the implementation on one case and records the line.
func (c *Ctx) Do(stream string, which int, cs hx.Sx, nontrivial bool) hx.Sx {
	if c.Cur != nil {
		line := fmt.Sprintf("%s\t%d\t%s\n", stream, which, hx.String(cs))
		if len(line) < 1<<16 {
			c.Cur.Truncate(0)
			c.Cur.WriteAt([]byte(line), 0)
		}
	}
	obs := c.Prop.Exec(which, cs)
	c.W.Case(stream, which, cs, obs, nontrivial)
	return obs
}

type Prop struct {
	ID   string
	Rule string
	Gen  func(c *Ctx)
	Exec func(which int, cs hx.Sx) hx.Sx
}

// Run is the main() of one property's harness binary (harness/<id>/main.go calls it).
func Run(p *Prop) {
	fs := flag.NewFlagSet("harness", flag.ExitOnError)
	out := fs.String("out", "cases.txt", "case file")
	stats := fs.String("stats", "stats.json", "statistics file")
	seed := fs.Uint64("seed", 1, "PRNG seed")
	tier := fs.String("tier", "quick", "quick|thorough")
	corpus := fs.String("corpus", "", "directory of corpus case files that run first")
	replay := fs.String("replay", "", "one case line to re-execute")
	curPath := fs.String("cur", "", "file that always holds the case in progress")
	_ = fs.Parse(os.Args[1:])

	if *replay != "" {
		parts := strings.Split(*replay, "\t")
		if len(parts) < 3 {
			fmt.Fprintln(os.Stderr, "replay: need stream<TAB>which<TAB>case")
			os.Exit(2)
		}
		which, _ := strconv.Atoi(parts[1])
		cs := hx.MustParse(parts[2])
		obs := p.Exec(which, cs)
		fmt.Printf("%s\t%d\t%s\t%s\n", parts[0], which, hx.String(cs), hx.String(obs))
		return
	}

	w := hx.NewWriter(*out)
	w.Rule = p.Rule
	ctx := &Ctx{W: w, R: hx.NewRng(*seed), Tier: *tier, Seed: *seed, Scale: 1, Prop: p}
	if *tier == "thorough" {
		ctx.Scale = 20
	}
	if *curPath != "" {
		ctx.Cur, _ = os.Create(*curPath)
	}
	if *corpus != "" {
		files, _ := filepath.Glob(filepath.Join(*corpus, "*.case"))
		sort.Strings(files)
		for _, f := range files {
			fh, err := os.Open(f)
			if err != nil {
				continue
			}
			sc := bufio.NewScanner(fh)
			sc.Buffer(make([]byte, 1<<20), 1<<26)
			for sc.Scan() {
				line := sc.Text()
				if line == "" || line[0] == '%' {
					continue
				}
				parts := strings.Split(line, "\t")
				if len(parts) < 3 {
					continue
				}
				which, _ := strconv.Atoi(parts[1])
				ctx.Do("corpus:"+parts[0], which, hx.MustParse(parts[2]), true)
			}
			fh.Close()
		}
	}
	p.Gen(ctx)
	w.Close(*stats)
	if ctx.Cur != nil {
		ctx.Cur.Truncate(0)
		ctx.Cur.Close()
	}
}
