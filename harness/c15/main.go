package main

// C15 — multi-line reassembly (action level). Drives the REAL plugins' Do directly:
//   plugin/action/join (which=0), plugin/action/join_template (which=1) with a recording
//   ActionPluginController, and plugin/input/k8s MultilineAction (which=2).
//
// which=0/1  case = ((max (neg ...) extra) (ev ...))
//              extra = (#start_re #continue_re)           which=0  (patterns WITHOUT the slashes)
//                    = (tpl ...)  0 go_panic 1 cs_exception 2 go_data_race     which=1
//              ev    = 0 (stream time-out event) | (1) (event without the field)
//                    | (2 isString #json-text-of-the-field #AsString (start-bit ...) (continue-bit ...))
//              the bits are the ORACLE part: what Start_/Continue_ (or the template checks) answer on
//              AsString, one bit per template (plain join = one template), before negation.
//            obs  = ((step ...) (late ...) panic)
//              step = (ActionResult ((id #field) ...))   the Propagate calls made inside this Do
//              late = (present #field intact) per non-time-out event, read after the whole sequence
//              panic = 0 | 1 "timeout without joining" | 2 "first event is nil" | 3 other
// which=2/3  (3 = same run, judged by the flush-on-time-out clause: byte conservation)
//            case = ((max split cutoff cutfield onlynode) (chunk ...))
//              chunk = 0 (time-out) | (style #raw size #escaped)
//                style 0: log = raw bytes as the CRI decoder stores them; 1: log decoded from JSON text
//                `{"log":<escaped>}`; 2: no log field; 3: log = JSON literal <raw> (number/true/null)
//                escaped = what AppendEscapedString yields for that node (oracle, re-checked in Exec)
//            obs  = ((step ...) (late ...) panic)
//              step = (ActionResult incMaxEventSizeExceeded #log cutflag)   #log only for ActionPass
//              late = (#log ...) of the passed events, re-read at the end
//              panic = 0 | 1 slice bounds | 2 index | 3 Fatal/explicit | 9 escaped-oracle mismatch
//                      | 8 the action changed bytes of event.Buf it did not append, or the label fields are not the allowed ones
//            style bits 2-3 (style>>2) = the event's Buf when Do is called (the model ignores them; a pooled pipeline event
//              keeps its Buf array from its previous life): 0 nil, 1 37 bytes in use with capacity 37, 2 empty with capacity
//              4096, 3 1000 bytes in use with capacity 1024
// which=4/5  = which 2 with allowed_pod_labels / allowed_node_labels set: 4 [app absent] / [zone], 5 [nope] / [nope]
// which=7/8  = which 2 with the pipeline setting source_name_meta_field = k8s_pod (7) / a field no event has (8): every label
//              of IncMaxEventSizeExceeded must be the pod name / the source name (panic code 8 otherwise)
//            style bits 4-6 (style>>4 & 7): 1..4 = the event lacks k8s_namespace / k8s_pod / k8s_container_id / k8s_container
//              (Fatalf = panic 3 on that event unless only_node)
// which=1    template code t: t%3 = the template, (first code)/3 = how the config is written: 0 `templates`, 1 the deprecated
//              single `template` field, 2 both (the list wins)
// which=9    = which 2, judged by k_spec_t: after a time-out the action starts afresh (Model/K8sMultiline.v)
// which=6    the real join / join_template plugin inside a real pipeline: pipejoin.go
// which=50   pipeline families with scripted actions (pipedrv); 51 = the same with a split action left of a holding action

import (
	"fmt"
	"os"
	"regexp"
	"strings"

	"github.com/ozontech/file.d/cfg"
	"github.com/ozontech/file.d/metric"
	"github.com/ozontech/file.d/pipeline"
	"github.com/ozontech/file.d/plugin/action/join"
	"github.com/ozontech/file.d/plugin/action/join_template"
	"github.com/ozontech/file.d/plugin/action/join_template/template"
	"github.com/ozontech/file.d/plugin/input/k8s"
	"github.com/ozontech/file.d/plugin/input/k8s/meta"
	"github.com/ozontech/file.d/test"
	insaneJSON "github.com/ozontech/insane-json"
	"github.com/prometheus/client_golang/prometheus"
	"go.uber.org/zap"
	"go.uber.org/zap/zapcore"
	corev1 "k8s.io/api/core/v1"

	"time"
	"verif/harness/hmain"
	"verif/harness/hx"
	"verif/harness/pipedrv"
)

// ---------------------------------------------------------------------------------------------
// recording controller
type c15Ctl struct {
	field []string
	emits []hx.Sx
	incs  int
	lvs   []string // label values of the IncMaxEventSizeExceeded calls
}

func (c *c15Ctl) Propagate(e *pipeline.Event) {
	id := int64(-1)
	if n := e.Root.Dig("id"); n != nil {
		id = int64(n.AsInt())
	}
	c.emits = append(c.emits, hx.L(hx.Z(id), hx.S(e.Root.Dig(c.field...).AsString())))
}
func (c *c15Ctl) Spawn(*pipeline.Event, []*insaneJSON.Node) {
	c.emits = append(c.emits, hx.L(hx.I(-2), hx.S("SPAWN")))
}
func (c *c15Ctl) IncMaxEventSizeExceeded(lvs ...string) {
	c.incs++
	c.lvs = append(c.lvs, strings.Join(lvs, "|"))
}

func c15Params(ctl pipeline.ActionPluginController, st *pipeline.Settings) *pipeline.ActionPluginParams {
	// Panicf panics even with a no-op core; Fatalf would exit the process: turn it into a panic
	lg := zap.NewNop().WithOptions(zap.WithFatalHook(zapcore.WriteThenPanic)).Sugar()
	return &pipeline.ActionPluginParams{
		PluginDefaultParams: pipeline.PluginDefaultParams{
			PipelineName:     "verif",
			PipelineSettings: st,
			MetricCtl:        metric.NewCtl("verif", prometheus.NewRegistry(), time.Minute, 0),
		},
		Controller: ctl,
		Logger:     lg,
	}
}

var c15TplNames = []string{"go_panic", "cs_exception", "go_data_race"}

type c15Doer interface {
	Do(*pipeline.Event) pipeline.ActionResult
	Stop()
}

func c15JoinPanic(msg string) int {
	switch {
	case msg == "":
		return 0
	case strings.Contains(msg, "timeout without joining"):
		return 1
	case strings.Contains(msg, "first event is nil"):
		return 2
	}
	return 3
}

func catchMsg(f func()) (msg string) {
	defer func() {
		if r := recover(); r != nil {
			msg = "PANIC " + fmt.Sprint(r)
		}
	}()
	f()
	return ""
}

func c15ExecJoin(which int, cs hx.Sx) hx.Sx {
	it := hx.Items(cs)
	cf := hx.Items(it[0])
	max := int(hx.Int(cf[0]))
	extra := hx.Items(cf[2])
	ctl := &c15Ctl{field: []string{"f"}}
	var pl c15Doer
	if which == 0 {
		negs := hx.Items(cf[1])
		config := &join.Config{
			Field:        "f",
			Start:        cfg.Regexp("/" + hx.Str(extra[0]) + "/"),
			Continue:     cfg.Regexp("/" + hx.Str(extra[1]) + "/"),
			MaxEventSize: max,
			Negate:       len(negs) > 0 && hx.Truth(negs[0]),
		}
		test.NewConfig(config, nil)
		p := &join.Plugin{}
		p.Start(config, c15Params(ctl, &pipeline.Settings{AvgEventSize: 16}))
		pl = p
	} else {
		// template code t: t%3 names the template; the FIRST code's t/3 says how the configuration is written:
		// 0 `templates` list, 1 the deprecated single `template` field (one template only), 2 both fields set (the list wins)
		var names []string
		for _, t := range extra {
			names = append(names, c15TplNames[int(hx.Int(t))%len(c15TplNames)])
		}
		config := &join_template.Config{Field: "f", MaxEventSize: max, Templates: names}
		if len(extra) > 0 {
			switch int(hx.Int(extra[0])) / len(c15TplNames) {
			case 1:
				config.Template, config.Templates = names[0], nil
			case 2:
				config.Template = c15TplNames[(int(hx.Int(extra[0]))+1)%len(c15TplNames)] // another one: it must be ignored
			}
		}
		test.NewConfig(config, nil)
		p := &join_template.Plugin{}
		p.Start(config, c15Params(ctl, &pipeline.Settings{AvgEventSize: 16}))
		pl = p
	}

	type kept struct {
		root *insaneJSON.Root
		orig string
		n    int
	}
	var keep []kept
	defer func() {
		for _, k := range keep {
			insaneJSON.Release(k.root)
		}
	}()
	var steps []hx.Sx
	pcode := 0
	defer func() { _ = catchMsg(pl.Stop) }()
	for i, ev := range hx.Items(it[1]) {
		var e *pipeline.Event
		if hx.IsInt(ev) {
			e = &pipeline.Event{SourceName: "timeout"}
			e.SetTimeoutKind()
		} else {
			f := hx.Items(ev)
			var js string
			if hx.Int(f[0]) == 1 {
				js = fmt.Sprintf(`{"id":%d}`, i)
			} else {
				js = fmt.Sprintf(`{"f":%s,"id":%d}`, hx.Str(f[2]), i)
			}
			root := insaneJSON.Spawn()
			if err := root.DecodeString(js); err != nil {
				panic("c15: bad event json " + js)
			}
			e = &pipeline.Event{Root: root, Size: len(js), SeqID: uint64(i + 1)}
			keep = append(keep, kept{root, root.EncodeToString(), len(root.AsFields())})
		}
		ctl.emits = nil
		var res pipeline.ActionResult
		msg := catchMsg(func() { res = pl.Do(e) })
		if msg != "" {
			pcode = c15JoinPanic(msg)
			break
		}
		steps = append(steps, hx.L(hx.I(int(res)), hx.L(ctl.emits...)))
	}
	var late []hx.Sx
	for _, k := range keep {
		n := k.root.Dig("f")
		present := n != nil
		intact := k.root.EncodeToString() == k.orig
		if !intact {
			// a flushed event: everything but the field's content must be as it was
			intact = len(k.root.AsFields()) == k.n && k.root.Dig("id") != nil && present
		}
		late = append(late, hx.L(hx.Bool(present), hx.S(n.AsString()), hx.Bool(intact)))
	}
	return hx.L(hx.L(steps...), hx.L(late...), hx.I(pcode))
}

// ---------------------------------------------------------------------------------------------
// k8s
var c15Item = &meta.MetaItem{Namespace: "ns", PodName: "pod-1", ContainerName: "c", ContainerID: "4e0301b633eaa2bfdcafdeba59ba0c72a3815911a6a820bf273534b0f32d98e0"}
var c15MetaDone bool

func c15Meta() {
	if c15MetaDone {
		return
	}
	c15MetaDone = true
	// the gatherer only creates the deleted-pods cache GetPodMeta dereferences; no cluster access
	meta.DisableMetaUpdates = true
	meta.MaintenanceInterval = time.Hour
	meta.MetaExpireDuration = 24 * time.Hour
	meta.EnableGatherer(zap.NewNop().Sugar())
	pod := &corev1.Pod{}
	pod.Namespace = string(c15Item.Namespace)
	pod.Name = string(c15Item.PodName)
	pod.Status.ContainerStatuses = []corev1.ContainerStatus{{Name: string(c15Item.ContainerName), ContainerID: "containerd://" + string(c15Item.ContainerID)}}
	pod.Labels = map[string]string{"app": "x", "tier": "db", "pod-template-hash": "5f6d8c"}
	meta.PutMeta(pod)
	meta.SelfNodeName = "node_1"
	meta.MetaData.NodeLabels = map[string]string{"zone": "a", "kubernetes.io/hostname": "n1"}
}

// the escaped form AppendEscapedString gives for a chunk of the given style
func c15Escaped(style int, raw []byte) []byte {
	root := insaneJSON.Spawn()
	defer insaneJSON.Release(root)
	_ = root.DecodeString(`{}`)
	switch style {
	case 0:
		root.AddFieldNoAlloc(root, "log").MutateToBytesCopy(root, raw)
	case 3:
		_ = root.DecodeString(`{"log":` + string(raw) + `}`)
	default:
		return nil
	}
	return root.Dig("log").AppendEscapedString(nil)
}

func c15K8sPanic(msg string) int {
	switch {
	case msg == "":
		return 0
	case strings.Contains(msg, "slice bounds out of range"):
		return 1
	case strings.Contains(msg, "index out of range"):
		return 2
	}
	return 3
}

// the k8s_*_label_* fields a passed event must carry, by label filter (which 2/3: no filter, 4, 5)
func c15WantLabels(which int) map[string]string {
	switch which {
	case 4:
		return map[string]string{"k8s_pod_label_app": "x", "k8s_node_label_zone": "a"}
	case 5:
		return map[string]string{}
	}
	return map[string]string{"k8s_pod_label_app": "x", "k8s_pod_label_tier": "db", "k8s_pod_label_pod-template-hash": "5f6d8c",
		"k8s_node_label_zone": "a", "k8s_node_label_kubernetes.io/hostname": "n1"}
}

func c15LabelsOK(root *insaneJSON.Root, want map[string]string) bool {
	n := 0
	for _, f := range root.AsFields() {
		name := f.AsString()
		if !strings.HasPrefix(name, "k8s_pod_label_") && !strings.HasPrefix(name, "k8s_node_label_") {
			continue
		}
		n++
		v, ok := want[name]
		if !ok || f.AsFieldValue().AsString() != v {
			return false
		}
	}
	return n == len(want)
}

func c15Buf(mode int) []byte {
	fill := func(n, c int) []byte {
		b := make([]byte, n, c)
		for i := range b {
			b[i] = byte('A' + i%23)
		}
		return b
	}
	switch mode {
	case 1:
		return fill(37, 37)
	case 2:
		return make([]byte, 0, 4096)
	case 3:
		return fill(1000, 1024)
	}
	return nil
}

func c15ExecK8s(which int, cs hx.Sx) hx.Sx {
	c15Meta()
	it := hx.Items(cs)
	cf := hx.Items(it[0])
	st := &pipeline.Settings{MaxEventSize: int(hx.Int(cf[0])), CutOffEventByLimit: hx.Truth(cf[2])}
	if hx.Truth(cf[3]) {
		st.CutOffEventByLimitField = "cutoff"
	}
	ctl := &c15Ctl{}
	p := &k8s.MultilineAction{}
	kc := &k8s.Config{SplitEventSize: int(hx.Int(cf[1])), OnlyNode: hx.Truth(cf[4])}
	switch which {
	case 4:
		kc.AllowedPodLabels, kc.AllowedNodeLabels = []string{"app", "absent"}, []string{"zone"}
	case 5:
		kc.AllowedPodLabels, kc.AllowedNodeLabels = []string{"nope"}, []string{"nope"}
	}
	// which 7 / 8: source_name_meta_field names a field the event has (k8s_pod) / does not have: the label of the
	// max-event-size metric is that field's value / falls back to the source name
	wantSource := "k8s/x.log"
	switch which {
	case 7:
		st.SourceNameMetaField, wantSource = "k8s_pod", string(c15Item.PodName)
	case 8:
		st.SourceNameMetaField = "k8s_absent"
	}
	wantLabels := c15WantLabels(which)
	p.Start(kc, c15Params(ctl, st))
	defer func() { _ = catchMsg(p.Stop) }()

	var roots []*insaneJSON.Root
	var passed []*insaneJSON.Root
	defer func() {
		for _, r := range roots {
			insaneJSON.Release(r)
		}
	}()
	var steps []hx.Sx
	pcode := 0
	for _, ch := range hx.Items(it[1]) {
		var e *pipeline.Event
		var root *insaneJSON.Root
		if hx.IsInt(ch) {
			e = &pipeline.Event{SourceName: "timeout"}
			e.SetTimeoutKind()
		} else {
			f := hx.Items(ch)
			style, raw, size, esc := int(hx.Int(f[0])), hx.Bytes(f[1]), int(hx.Int(f[2])), hx.Bytes(f[3])
			bufMode := style >> 2 & 3
			missing := style >> 4 & 7 // 1 k8s_namespace, 2 k8s_pod, 3 k8s_container_id, 4 k8s_container not set (Fatalf unless only_node)
			style &= 3
			root = insaneJSON.Spawn()
			roots = append(roots, root)
			switch style {
			case 0:
				_ = root.DecodeString(`{}`)
				root.AddFieldNoAlloc(root, "log").MutateToBytesCopy(root, raw)
			case 1:
				if err := root.DecodeString(`{"log":` + string(esc) + `}`); err != nil {
					panic("c15: bad k8s json")
				}
			case 2:
				_ = root.DecodeString(`{}`)
			default:
				if err := root.DecodeString(`{"log":` + string(raw) + `}`); err != nil {
					panic("c15: bad k8s literal")
				}
			}
			if got := root.Dig("log").AppendEscapedString(nil); string(got) != string(esc) {
				pcode = 9
				break
			}
			if missing != 2 {
				root.AddFieldNoAlloc(root, "k8s_pod").MutateToString(string(c15Item.PodName))
			}
			if missing != 1 {
				root.AddFieldNoAlloc(root, "k8s_namespace").MutateToString(string(c15Item.Namespace))
			}
			if missing != 4 {
				root.AddFieldNoAlloc(root, "k8s_container").MutateToString(string(c15Item.ContainerName))
			}
			if missing != 3 {
				root.AddFieldNoAlloc(root, "k8s_container_id").MutateToString(string(c15Item.ContainerID))
			}
			e = &pipeline.Event{Root: root, Size: size, SourceName: "k8s/x.log", Buf: c15Buf(bufMode)}
		}
		before := append([]byte(nil), e.Buf...)
		ctl.incs, ctl.lvs = 0, nil
		var res pipeline.ActionResult
		msg := catchMsg(func() { res = p.Do(e) })
		if msg != "" {
			if os.Getenv("C15DBG") != "" {
				fmt.Fprintln(os.Stderr, msg)
			}
			pcode = c15K8sPanic(msg)
			break
		}
		var log []byte
		cut := false
		if res == pipeline.ActionPass && root != nil {
			log = root.Dig("log").AppendEscapedString(nil)
			cut = root.Dig("cutoff") != nil
			passed = append(passed, root)
			if !kc.OnlyNode && !c15LabelsOK(root, wantLabels) {
				pcode = 8
				break
			}
		}
		if len(e.Buf) < len(before) || string(e.Buf[:len(before)]) != string(before) {
			pcode = 8 // the action may only append to event.Buf
			break
		}
		for _, lv := range ctl.lvs {
			if lv != wantSource {
				pcode = 8 // the metric is labelled with the source name, or with source_name_meta_field's value when it is set and present
			}
		}
		if pcode != 0 {
			break
		}
		steps = append(steps, hx.L(hx.I(int(res)), hx.I(ctl.incs), hx.B(log), hx.Bool(cut)))
	}
	var late []hx.Sx
	for _, r := range passed {
		late = append(late, hx.B(r.Dig("log").AppendEscapedString(nil)))
	}
	return hx.L(hx.L(steps...), hx.L(late...), hx.I(pcode))
}

func c15Exec(which int, cs hx.Sx) hx.Sx {
	switch {
	case which >= 2 && which <= 5, which >= 7 && which <= 9:
		return c15ExecK8s(which, cs)
	case which == pjWhich:
		return pjRun(cs)
	}
	return c15ExecJoin(which, cs)
}

// ---------------------------------------------------------------------------------------------
// generators

type jev struct {
	kind   int // 0 timeout, 1 no field, 2 field
	isStr  bool
	json   string
	value  string
	starts []bool
	conts  []bool
}

func (e jev) sx() hx.Sx {
	switch e.kind {
	case 0:
		return hx.I(0)
	case 1:
		return hx.L(hx.I(1))
	}
	return hx.L(hx.I(2), hx.Bool(e.isStr), hx.S(e.json), hx.S(e.value), hx.List(e.starts, hx.Bool), hx.List(e.conts, hx.Bool))
}

// busy-tracking from the oracle bits, used ONLY to place time-outs where the processor would
// deliver them (the model re-checks the placement itself: busy_ok)
type busyTrack struct {
	joining bool
	cur     int
	negs    []bool
}

func (b *busyTrack) step(e jev) {
	switch e.kind {
	case 0, 1:
		b.joining = false
		return
	}
	if e.isStr {
		for i, s := range e.starts {
			if s {
				b.joining, b.cur = true, i
				return
			}
		}
	}
	if b.joining && e.conts[b.cur] != b.negs[b.cur] {
		return
	}
	b.joining = false
}

// jsonStr: the JSON text of a string field and the value AsString() yields for it after decoding
// (invalid UTF-8 is replaced by U+FFFD when escaping, so the value is re-read, not assumed)
func jsonStr(s string) (js string, value string) {
	root := insaneJSON.Spawn()
	defer insaneJSON.Release(root)
	_ = root.DecodeString(`{}`)
	root.AddFieldNoAlloc(root, "x").MutateToString(s)
	js = string(root.Dig("x").AppendEscapedString(nil))
	if err := root.DecodeString(`{"x":` + js + `}`); err != nil {
		panic("c15: jsonStr")
	}
	return js, string(append([]byte(nil), root.Dig("x").AsString()...))
}

func c15Gen(c *hmain.Ctx) {
	r := c.R
	w := c.W

	// ---- 1. join, exhaustive: every sequence over {start, continue, other, no-field, time-out},
	//         time-outs only while the action is busy, x max_event_size in {0,4} x negate (values are 2 bytes long, so 4 is hit exactly)
	maxLen := 6
	if c.Tier == "thorough" {
		maxLen = 8
	}
	reS, reC := regexp.MustCompile(`^S`), regexp.MustCompile(`^C`)
	mkField := func(v string, isStr bool, js string, starts, conts []bool) jev {
		return jev{kind: 2, isStr: isStr, json: js, value: v, starts: starts, conts: conts}
	}
	letter := func(l byte, pos int) jev {
		v := fmt.Sprintf("%c%d", l, pos)
		return mkField(v, true, `"`+v+`"`, []bool{reS.MatchString(v)}, []bool{reC.MatchString(v)})
	}
	joinCfg := func(max int, neg bool, sre, cre string) hx.Sx {
		return hx.L(hx.I(max), hx.L(hx.Bool(neg)), hx.L(hx.S(sre), hx.S(cre)))
	}
	for _, neg := range []bool{false, true} {
		for _, max := range []int{0, 4} {
			cfgSx := joinCfg(max, neg, `^S`, `^C`)
			var rec func(seq []jev, bt busyTrack, runs int)
			rec = func(seq []jev, bt busyTrack, runs int) {
				if len(seq) > 0 {
					c.Do("join-exhaustive", 0, hx.L(cfgSx, hx.List(seq, jev.sx)), runs > 0 && len(seq) >= 3)
				}
				if len(seq) >= maxLen {
					return
				}
				pos := len(seq)
				opts := []jev{letter('S', pos), letter('C', pos), letter('O', pos), {kind: 1}}
				if bt.joining {
					opts = append(opts, jev{kind: 0})
				}
				for _, o := range opts {
					nb := bt
					nb.step(o)
					nr := runs
					if o.kind == 2 && o.starts[0] {
						nr++
					}
					rec(append(seq[:len(seq):len(seq)], o), nb, nr)
				}
			}
			rec(nil, busyTrack{negs: []bool{neg}}, 0)
		}
	}
	w.Count(fmt.Sprintf("join_exhaustive_max_len_%d", maxLen))

	// ---- 2. join, adversarial delivery: time-outs anywhere (the model predicts the Panicf)
	{
		advLen := 5
		cfgSx := joinCfg(4, false, `^S`, `^C`)
		var rec func(seq []jev)
		rec = func(seq []jev) {
			if len(seq) > 0 {
				c.Do("join-any-timeouts", 0, hx.L(cfgSx, hx.List(seq, jev.sx)), len(seq) >= 2)
			}
			if len(seq) >= advLen {
				return
			}
			pos := len(seq)
			for _, o := range []jev{letter('S', pos), letter('C', pos), letter('O', pos), {kind: 1}, {kind: 0}} {
				rec(append(seq[:len(seq):len(seq)], o))
			}
		}
		rec(nil)
	}

	// ---- 3. join, random long sequences with real regexps
	type rePair struct{ s, c string }
	pairs := []rePair{
		{`^(panic:)|(http: panic serving)`, `(^\s*$)|(goroutine [0-9]+ \[)|(\.go:[0-9]+ \+[0-9]x)|(\/.*\.go:[0-9]+)|(main\.main\(\))|(created by .*\/.*\.)|(^\[signal)|(panic:)`},
		{`^\d{4}-\d\d-\d\d`, `^\s`},
		{`^[A-Z]`, `^[a-z ]`},
		{`a`, `b`},
		{`^$`, `^.?$`},
		{`^\[`, `^\d{4}-\d\d-\d\d`},
	}
	pool := []string{"panic: runtime error", "http: panic serving 1.2.3.4", "goroutine 1 [running]:", "main.main()", "\t/app/main.go:12 +0x1d",
		"created by net/http.(*Server).Serve", "[signal SIGSEGV]", "", " ", "  at x", "2021-10-12 08:25:44 GMT LOG: x", "\tfrom pg_catalog.pg_class O",
		"Hello", "hello", "a", "b", "ab", "ba", "[x]", "x\"y\\z", "тест", "Z", "\n", "line\n", "0"}
	randVal := func() string {
		if r.Chance(3, 4) {
			return hx.Pick(r, pool)
		}
		n := r.Intn(12)
		b := make([]byte, n)
		for i := range b {
			b[i] = "abAB 01[\t.:\\\"\xff"[r.Intn(14)]
		}
		return string(b)
	}
	nonStr := []string{"5", "-12.5e3", "true", "false", "null", "{}", `{"a":1}`, "[]", "[1,2]"}
	nRandom := 6000 * c.Scale
	for i := 0; i < nRandom; i++ {
		pr := hx.Pick(r, pairs)
		sre, cre := regexp.MustCompile(pr.s), regexp.MustCompile(pr.c)
		neg := r.Chance(1, 3)
		max := 0
		if r.Chance(2, 3) {
			max = r.Range(1, 60)
		}
		n := r.Range(3, 40)
		if r.Chance(1, 10) {
			n = r.Range(40, 160)
		}
		bt := busyTrack{negs: []bool{neg}}
		var seq []jev
		runs, touts := 0, 0
		for j := 0; j < n; j++ {
			var e jev
			switch k := r.Intn(20); {
			case k == 0:
				e = jev{kind: 1}
			case k == 1 && bt.joining:
				e = jev{kind: 0}
				touts++
			case k == 2:
				js := hx.Pick(r, nonStr)
				v := js
				if js[0] == '{' || js[0] == '[' {
					v = ""
				}
				e = mkField(v, false, js, []bool{sre.MatchString(v)}, []bool{cre.MatchString(v)})
			default:
				js, v := jsonStr(randVal())
				e = mkField(v, true, js, []bool{sre.MatchString(v)}, []bool{cre.MatchString(v)})
			}
			if e.kind == 2 {
				// oracle hypothesis: the classification bits are a function of (pattern, value)
				w.Oracle("regexp.MatchString is a function of (pattern, AsString value)",
					e.starts[0] == regexp.MustCompile(pr.s).MatchString(e.value) && e.conts[0] == regexp.MustCompile(pr.c).MatchString(e.value), pr.s+" / "+e.value)
				if e.isStr && e.starts[0] {
					runs++
				}
			}
			bt.step(e)
			seq = append(seq, e)
		}
		c.Do("join-random", 0, hx.L(joinCfg(max, neg, pr.s, pr.c), hx.List(seq, jev.sx)), runs > 0)
		if touts > 0 {
			w.Count("join_random_with_timeout")
		}
		if runs > 1 {
			w.Count("join_random_multi_run")
		}
	}

	// ---- 4. join_template: template lists, realistic lines; bits from the template checks
	tpool := []string{"panic: runtime error: index out of range", "http: panic serving 10.0.0.1:1", "fatal error: all goroutines are asleep",
		"goroutine 1 [running]:", "main.main()", "\t/app/main.go:12 +0x1d", "created by net/http.(*Server).Serve", "[signal SIGSEGV: segmentation violation]",
		"", " ", "Unhandled exception. System.NullReferenceException: Object reference", "   at Foo.Bar() in /x.cs:line 3", "   --- End of inner exception stack trace ---",
		" ---> System.Exception: inner", "System.IO.IOException: boom", "WARNING: DATA RACE", "==================", "Write at 0x00c0000 by goroutine 7:",
		"Previous read at 0x00c0000 by main goroutine:", "  main.main.func1()", "      /app/race.go:9 +0x44", "hello world", "INFO starting", "exit status 66"}
	var tpls [3]template.Template
	for i, n := range c15TplNames {
		t, err := template.InitTemplate(n)
		if err != nil {
			panic(err)
		}
		tpls[i] = t
	}
	rCfg := hx.NewRng(c.Seed*7919 + 15) // its own generator: the draws of the older streams stay what they were
	for i := 0; i < 3000*c.Scale; i++ {
		k := r.Range(1, 3)
		perm := []int{0, 1, 2}
		for a := 2; a > 0; a-- {
			b := r.Intn(a + 1)
			perm[a], perm[b] = perm[b], perm[a]
		}
		codes := perm[:k]
		if r.Chance(1, 8) {
			codes = append(codes[:len(codes):len(codes)], codes[0]) // a duplicate template name
		}
		negs := make([]bool, len(codes))
		for a, cd := range codes {
			negs[a] = tpls[cd].Negate
		}
		max := 0
		if r.Chance(1, 2) {
			max = r.Range(1, 120)
		}
		bt := busyTrack{negs: negs}
		var seq []jev
		runs := 0
		for j, n := 0, r.Range(3, 40); j < n; j++ {
			var e jev
			switch kk := r.Intn(24); {
			case kk == 0:
				e = jev{kind: 1}
			case kk == 1 && bt.joining:
				e = jev{kind: 0}
			case kk == 2:
				e = jev{kind: 2, isStr: false, json: "17", value: "17"}
			default:
				v := hx.Pick(r, tpool)
				if r.Chance(1, 10) {
					v = randVal()
				}
				js, val := jsonStr(v)
				e = jev{kind: 2, isStr: true, json: js, value: val}
			}
			if e.kind == 2 {
				for _, cd := range codes {
					e.starts = append(e.starts, tpls[cd].StartCheck(e.value))
					e.conts = append(e.conts, tpls[cd].ContinueCheck(e.value))
				}
				if e.isStr {
					for _, s := range e.starts {
						if s {
							runs++
							break
						}
					}
				}
			}
			bt.step(e)
			seq = append(seq, e)
		}
		// how the configuration is written (see c15ExecJoin): the deprecated single `template` field, or both fields
		wire := append([]int(nil), codes...)
		switch {
		case len(codes) == 1 && rCfg.Chance(1, 3):
			wire[0] += 3
			w.Count("join_template_config_single_template_field")
		case rCfg.Chance(1, 8):
			wire[0] += 6
			w.Count("join_template_config_both_fields")
		}
		c.Do("join-template", 1, hx.L(hx.L(hx.I(max), hx.List(negs, hx.Bool), hx.List(wire, hx.I)), hx.List(seq, jev.sx)), runs > 0)
		w.Count(fmt.Sprintf("join_template_k%d", len(codes)))
	}

	// ---- 5. k8s exhaustive: chunk sequences over a small alphabet of raw fragments
	kSx := func(k kch) hx.Sx {
		if k.style < 0 {
			return hx.I(0)
		}
		return hx.L(hx.I(k.style|k.buf<<2|k.missing<<4), hx.S(k.raw), hx.I(k.size), hx.S(k.esc))
	}
	cri := func(raw string) kch {
		return kch{style: 0, raw: raw, size: len(raw) + 40, esc: string(c15Escaped(0, []byte(raw)))}
	}
	kCfg := func(max, split int, cut, field, only bool) hx.Sx {
		return hx.L(hx.I(max), hx.I(split), hx.Bool(cut), hx.Bool(field), hx.Bool(only))
	}
	const look = 128 * 1024
	kAlpha := []kch{cri(""), cri("a"), cri("bc\n"), cri("\n"), cri(`\n`), cri(`x\`), cri("de\"fg"), {style: -1}}
	kLen := 4
	if c.Tier == "thorough" {
		kLen = 5
	}
	for _, max := range []int{0, 9, 14} {
		for _, cut := range []bool{false, true} {
			if max == 0 && cut {
				continue
			}
			cfgSx := kCfg(max, 4*look, cut, cut, false)
			var rec func(seq []kch)
			rec = func(seq []kch) {
				if len(seq) > 0 {
					nt := 0
					for _, k := range seq {
						if k.style == 0 && !strings.HasSuffix(k.raw, "\n") {
							nt++
						}
					}
					c.Do("k8s-exhaustive", 2, hx.L(cfgSx, hx.List(seq, kSx)), nt > 0 && len(seq) >= 2)
				}
				if len(seq) >= kLen {
					return
				}
				for _, o := range kAlpha {
					rec(append(seq[:len(seq):len(seq)], o))
				}
			}
			rec(nil)
		}
	}

	// ---- 6. k8s random: sizes around max_event_size and split_event_size, escapes, empty fragments
	kpool := []string{"", "a", "hello ", "world", "\\", "\\\\", "n", "\\n", "tab\t", "q\"q", "\r", "é", "\xff", "<&>", "0123456789", " "}
	randRaw := func(final bool) string {
		var b strings.Builder
		for k := r.Intn(4); k > 0; k-- {
			b.WriteString(hx.Pick(r, kpool))
		}
		if r.Chance(1, 6) {
			b.WriteString(strings.Repeat("x", r.Intn(40)))
		}
		s := b.String()
		if final {
			return s + "\n"
		}
		s = strings.TrimRight(s, "\n")
		return s
	}
	for i := 0; i < 12000*c.Scale; i++ {
		max := 0
		if r.Chance(3, 4) {
			max = r.Range(3, 80)
		}
		split := 4 * look
		if r.Chance(1, 4) {
			split = look + r.Range(0, 300)
		}
		cut := r.Bool()
		field := cut && r.Bool()
		var seq []kch
		partials := 0
		for j, n := 0, r.Range(1, 12); j < n; j++ {
			if r.Chance(1, 25) {
				seq = append(seq, kch{style: -1})
				continue
			}
			final := r.Chance(1, 3)
			raw := randRaw(final)
			k := cri(raw)
			if r.Chance(1, 5) {
				k.style = 1 // the same escaped text, decoded from JSON as the docker json-file format would be
				if insaneJSON.Spawn().DecodeString(`{"log":`+k.esc+`}`) != nil {
					k.style = 0
				}
			}
			if r.Chance(1, 3) {
				k.size = r.Intn(200)
			}
			if !final {
				partials++
			}
			seq = append(seq, k)
		}
		c.Do("k8s-random", 2, hx.L(kCfg(max, split, cut, field, false), hx.List(seq, kSx)), partials > 0 && len(seq) >= 2)
		if split != 4*look {
			w.Count("k8s_random_small_split")
		}
		for _, k := range seq {
			if k.style >= 0 {
				raw, esc := k.raw, k.esc
				w.Oracle("AppendEscapedString of a string node is a quoted string whose body ends with an unescaped-backslash n exactly when the raw value ends with a newline byte",
					c15EscOracle(raw, esc), fmt.Sprintf("%q -> %q", raw, esc))
			}
		}
	}

	// ---- 6b. the flush-on-time-out clause (which=3: byte conservation). max_event_size 0, the
	//          sequence ends with a complete line; a time-out that finds chunks buffered loses them
	//          (recorded finding C15-k8s-timeout-drops-partial-line)
	for i := 0; i < 300*c.Scale; i++ {
		var seq []kch
		lost := false
		buffered := false
		for j, n := 0, r.Range(1, 6); j < n; j++ {
			switch {
			case r.Chance(1, 4):
				seq = append(seq, kch{style: -1})
				if buffered {
					lost = true
				}
				buffered = false
			default:
				final := r.Chance(1, 3)
				k := cri(randRaw(final))
				seq = append(seq, k)
				buffered = !final
			}
		}
		seq = append(seq, cri(randRaw(true)))
		c.Do("k8s-timeout-flush", 3, hx.L(kCfg(0, 4*look, false, false, false), hx.List(seq, kSx)), true)
		if lost {
			w.Count("k8s_timeout_with_buffered_chunks")
		}
	}

	// ---- 6c. k8s huge: one line whose buffered partial chunks exceed 128 KiB (docker cuts container log lines into 16 KiB
	//          chunks), then ordinary multi-chunk lines on the same action instance: state carried between lines
	for i := 0; i < 3*c.Scale; i++ {
		var seq []kch
		big := strings.Repeat("0123456789abcdef", 1024) // 16 KiB
		for j, n := 0, r.Range(8, 11); j < n; j++ {
			seq = append(seq, cri(big))
		}
		seq = append(seq, cri("tail of the long line\n"))
		for j, n := 0, r.Range(1, 3); j < n; j++ {
			seq = append(seq, cri("hello "), cri("wor"), cri("ld\n"))
			if r.Bool() {
				seq = append(seq, cri("single\n"))
			}
		}
		c.Do("k8s-huge", 2, hx.L(kCfg(0, 4*look, false, false, false), hx.List(seq, kSx)), true)
	}

	// ---- 7. k8s adversarial: missing / non-string log field, tiny max_event_size, only_node
	lits := []string{"5", "12", "123", "true", "null", "-1.5"}
	for i := 0; i < 1500*c.Scale; i++ {
		max := hx.Pick(r, []int{0, 1, 2, 3, 4, 5, 8})
		cut := r.Bool()
		only := r.Chance(1, 10)
		var seq []kch
		for j, n := 0, r.Range(1, 6); j < n; j++ {
			switch r.Intn(6) {
			case 0:
				seq = append(seq, kch{style: 2, size: 10})
			case 1:
				l := hx.Pick(r, lits)
				seq = append(seq, kch{style: 3, raw: l, size: 10, esc: string(c15Escaped(3, []byte(l)))})
			case 2:
				seq = append(seq, kch{style: -1})
			default:
				seq = append(seq, cri(randRaw(r.Chance(1, 3))))
			}
		}
		c.Do("k8s-adversarial", 2, hx.L(kCfg(max, 4*look, cut, false, only), hx.List(seq, kSx)), len(seq) >= 2)
	}
}

type kch struct {
	style int
	raw   string
	size  int
	esc   string
	buf   int // event.Buf mode (style bits 2-3)
	// style bits 4-6: 1..4 = the event lacks k8s_namespace / k8s_pod / k8s_container_id / k8s_container
	missing int
}

// the raw-level reading of the escaped fragment (checked oracle hypothesis, see trusted_base)
func c15EscOracle(raw, esc string) bool {
	if len(esc) < 2 || esc[0] != '"' || esc[len(esc)-1] != '"' {
		return false
	}
	body := esc[1 : len(esc)-1]
	// tokens: a backslash takes the next byte with it
	lastNL := false
	for i := 0; i < len(body); {
		if body[i] == '\\' {
			if i+1 >= len(body) {
				return false // dangling backslash: not a JSON string
			}
			lastNL = body[i+1] == 'n'
			i += 2
			continue
		}
		if body[i] == '"' {
			return false
		}
		lastNL = false
		i++
	}
	return lastNL == strings.HasSuffix(raw, "\n")
}

func main() {
	hmain.Run(&hmain.Prop{ID: "C15",
		Rule: "join-exhaustive: every sequence over {start, continue, other, no-field, time-out} (time-outs only while busy) up to the tier's length (6 quick / 8 thorough) x max_event_size {0,4} x negate; join-any-timeouts: the same alphabet with unconstrained time-outs (len<=5); join-random / join-template: long sequences, real regexps / templates, oracle bits computed by the real matchers; k8s-exhaustive: every chunk sequence over 7 raw fragments + time-out x 5 configs; k8s-random, k8s-adversarial; thresholds: join-template-edges (lines ending exactly at the markers of the template matchers), join-/k8s-exhaustive-sample (quick tier: random sequences of the thorough tier's extra lengths 7-8 / 5), k8s-pooled-buf (event.Buf in use or with spare capacity, label filters), k8s-default-split (split_event_size 1000000 hit exactly and by one), k8s-huge-max (16 KiB chunks against max_event_size of 20000-65536 with and without cut-off), k8s-cut-escape (max_event_size 4..64 x 14 escape pieces x every offset of the cut limit inside the escaped sequence x with/without a buffered chunk x cut on/off, field on/off, a chunk that would fit again after the cut; plus random escape-heavy lines; every passed log must be a valid escaped JSON string); coverage round: k8s-meta (events that lack a k8s_* meta field, source_name_meta_field present / absent: which 2, 7, 8), join-template also with the deprecated single `template` field / both fields, pipe-join (the REAL join / join_template plugin from its registered factory inside a real pipeline: 1-4 streams on 1-2 sources, 1-8 processors, match_mode and/or/and_prefix/or_prefix/none x match_invert x do_if on the action, feeder gaps longer than the event time-out; judged by Model/C15Pipe.v: delivery discipline, per-stream replay of the join state machine with idle-skip of rejected events, output and commits per stream), pipe-join-stop (Pipeline.Stop() while runs are held), pipe-split-hold (a split action left or right of a holding action: Spawn, its time-out tail, Break; which 51), pipe-stale-unblock / pipe-timeout-vs-put (directed schedules around stream.tryUnblock). Non-trivial = the sequence contains at least one run start (join) / one partial chunk (k8s) and has >= 2-3 events; distinct = distinct (sub-model, case) text.",
		Gen: func(c *hmain.Ctx) {
			c15Gen(c)
			c15GenThresholds(c)
			c15PipeFamilies(c)
			// streams added from the coverage report: their own generators, so that the older streams keep their cases
			c15GenCoverage(c, hx.NewRng(c.Seed*7919+16))
			c15GenPipeJoin(c, hx.NewRng(c.Seed*7919+17))
		},
		Exec: pipedrv.WrapExec(c15Exec)})
}

// processor-level clauses on the real pipeline: a busy action only sees events of the stream it holds (or a time-out),
// runs are flushed by the stream time-out, streams are never merged.  (pipedrv.GenFamilies with the directed schedules
// added to the same concurrent batch.)
// sub-model 51: pipeline cases in which children of a split reach a busy action (Model/C15Full.v: the single-stream
// monitor counts a child, which has no stream of its own, as an event of the stream its processor is serving)
const pipeKidsWhich = 51

func c15PipeFamilies(c *hmain.Ctx) {
	fams := []pipedrv.Fam{
		{Stream: "pipe-hold", Opts: pipedrv.FamHold, N: 50},
		{Stream: "pipe-two-holders", Opts: pipedrv.FamTwoHolders, N: 30},
		{Stream: "pipe-discard-before-hold", Opts: pipedrv.FamDiscardBeforeHold, N: 30},
	}
	var jobs []*pipedrv.Job
	for _, f := range fams {
		for i := 0; i < f.N*c.Scale; i++ {
			jobs = append(jobs, &pipedrv.Job{Stream: f.Stream, Case: pipedrv.GenCase(c.R, f.Opts)})
		}
	}
	// processor.Spawn: a split action (Spawn + Break) left or right of the holding action; children that meet a busy
	// action are held / collapsed and flushed by the time-out tail of Spawn (a second source of time-out events)
	rSplit := hx.NewRng(c.Seed*7919 + 18)
	for i := 0; i < 20*c.Scale; i++ {
		jobs = append(jobs, &pipedrv.Job{Stream: "pipe-split-hold", Case: pipedrv.GenCase(rSplit, pipedrv.FamSplitFan)})
	}
	// directed schedules around the stream time-out (stream.tryUnblock): the heartbeat works on a stale copy of the
	// blocked list (the stream was unblocked, and possibly blocked again, since), or races with a put: a time-out
	// must reach only an action that is busy NOW (monitor 9), with event time-outs below and above the 200 ms heartbeat
	for _, procs := range []int{1, 2} {
		jobs = append(jobs,
			&pipedrv.Job{Stream: "pipe-stale-unblock", Case: pipedrv.StaleUnblock(0, procs)},
			&pipedrv.Job{Stream: "pipe-stale-unblock", Case: pipedrv.StaleUnblock(1, procs)},
			&pipedrv.Job{Stream: "pipe-stale-unblock", Case: pipedrv.StaleUnblockT(procs-1, procs, 450)})
	}
	for i := 0; i < 4; i++ {
		jobs = append(jobs, &pipedrv.Job{Stream: "pipe-timeout-vs-put", Case: pipedrv.TimeoutVsPut(2+2*(i%2), i < 2, i%2 == 0)})
	}
	pipedrv.RunJobs(jobs, 70)
	for _, j := range jobs {
		pipedrv.Stats(c.W.Count, j)
		which := pipedrv.PipeWhich
		if j.Stream == "pipe-split-hold" {
			which = pipeKidsWhich
		}
		c.W.Case(j.Stream, which, j.Case, j.Obs, true)
	}
}
