package main

// which=6: the REAL join / join_template plugin inside a REAL pipeline.Pipeline (streamer, streams, processors, router),
// created through the factory the plugin registers, with the action's match settings (match_mode and / or / and_prefix /
// or_prefix, match_invert, do_if) set, several streams on several sources, several processors.
//
//	case = (jcfg mcfg pcfg (ev ...))
//	  jcfg = (max (neg ...) extra)   exactly as for which 0 (extra = (#start_re #continue_re)) / which 1 (extra = (tpl ...))
//	  mcfg = (mode invert doif)      mode 0 and | 1 or | 2 and_prefix | 3 or_prefix | 4 no conditions;  doif 1: a do_if checker
//	                                 (it takes precedence over the conditions)
//	  pcfg = (procs capacity evTimeoutMs stop)   procs 1 = DisableParallelism; stop 1 / 2 = Pipeline.Stop() is called while the
//	                                 runs still open are held by their actions (the event time-out is far away); 1: there are
//	                                 more processors than streams, every event has been delivered by then; 2: one processor,
//	                                 events of other streams are still waiting in their streams when Stop() is called
//	  ev   = (stream match gapMs jin #extra)  stream = index of the stream (source 1 + stream/2, stream name s<stream%2>);
//	         match = what processor.isMatch answers for this event (ORACLE, computed by the real isMatch at generation time and
//	         re-checked in Exec); gapMs = pause of the feeder BEFORE the event; jin = (1) | (2 isStr #json #value (s ...) (c ...))
//	         as for which 0/1; extra = the JSON text of the match fields (`,"m":"x","n":"1"` or empty)
//	         event i carries "id": i
//	obs  = ((do ...) (out ...) (commit ...) flag)
//	  do     = (inst stream kind id result)  one Do call of the action instance inst (one instance per processor), in the
//	           order the calls were made; kind 0 regular event, 1 time-out event (id -1); stream -1 = a stream never seen
//	  out    = (stream id present #f)        what reached the output plugin, in order (f = the field at that moment)
//	  commit = (stream id)                   InputPlugin.Commit calls
//	  flag   = 0 | 1 the action panicked | 2 not quiescent (an event neither delivered, skipped nor flushed) | 3 Stop() hung
//	           | 4 a panic elsewhere | 5 the match oracle of the case is not what isMatch answers now

import (
	"fmt"
	"regexp"
	"runtime"
	"sync"
	"time"

	"github.com/ozontech/file.d/cfg"
	"github.com/ozontech/file.d/fd"
	"github.com/ozontech/file.d/pipeline"
	"github.com/ozontech/file.d/pipeline/doif"
	"github.com/ozontech/file.d/plugin/action/join"
	"github.com/ozontech/file.d/plugin/action/join_template"
	"github.com/ozontech/file.d/plugin/action/join_template/template"
	"github.com/ozontech/file.d/test"
	insaneJSON "github.com/ozontech/insane-json"
	"github.com/prometheus/client_golang/prometheus"
	"go.uber.org/zap"

	"verif/harness/hmain"
	"verif/harness/hx"
)

const pjWhich = 6

// the minimal witness of the former finding C15-stop-busy-action-other-stream (repaired by /repo 5c4c757): stream 0 gets
// the start line S1 (held), 20 ms later stream 1 gets the continuation line C1 and the plain line O1; one processor;
// Stop().  Before the repair C1 was appended to stream 0's run, which O1 then flushed: "S1C1" reached the output
func pjStopWitness() hx.Sx {
	return hx.MustParse("((0 (0) (#5e53 #5e43)) (4 0 0) (1 8 60000 2) ((0 1 0 (2 1 #22533122 #5331 (1) (0)) #) (1 1 20 (2 1 #22433122 #4331 (0) (1)) #) (1 1 0 (2 1 #224f3122 #4f31 (0) (0)) #)))")
}

type pjLog struct {
	mu      sync.Mutex
	dos     []hx.Sx
	outs    []hx.Sx
	commits []hx.Sx
	state   map[int]int   // event id -> 1 held, 2 collapsed, 3 out / passed on
	streams map[int64]int // stream object id -> stream index
	flag    int
	nInst   int
	last    time.Time
	inDo    int // Do / Out calls that have not returned yet (a Do entry is appended when the call returns, a commit inside Out)
}

func (l *pjLog) touch() { l.last = time.Now() }

type pjInput struct{ log *pjLog }

func (f *pjInput) Start(pipeline.AnyConfig, *pipeline.InputPluginParams) {}
func (f *pjInput) Stop()                                                 {}
func (f *pjInput) PassEvent(*pipeline.Event) bool                        { return true }
func (f *pjInput) Commit(e *pipeline.Event) {
	if e.Root == nil {
		return
	}
	k, id := -1, -1
	if n := e.Root.Dig("k"); n != nil {
		k = n.AsInt()
	}
	if n := e.Root.Dig("id"); n != nil {
		id = n.AsInt()
	}
	f.log.mu.Lock()
	f.log.commits = append(f.log.commits, hx.L(hx.I(k), hx.I(id)))
	f.log.touch()
	f.log.mu.Unlock()
}

type pjOutput struct {
	log *pjLog
	ctl pipeline.OutputPluginController
}

func (o *pjOutput) Start(_ pipeline.AnyConfig, p *pipeline.OutputPluginParams) { o.ctl = p.Controller }
func (o *pjOutput) Stop()                                                      {}
func (o *pjOutput) Out(e *pipeline.Event) {
	k, id := -1, -1
	if n := e.Root.Dig("k"); n != nil {
		k = n.AsInt()
	}
	if n := e.Root.Dig("id"); n != nil {
		id = n.AsInt()
	}
	f := e.Root.Dig("f")
	o.log.mu.Lock()
	o.log.outs = append(o.log.outs, hx.L(hx.I(k), hx.I(id), hx.Bool(f != nil), hx.S(f.AsString())))
	o.log.state[id] = 3
	o.log.touch()
	o.log.inDo++ // until the commit has been recorded too
	o.log.mu.Unlock()
	o.ctl.Commit(e)
	o.log.mu.Lock()
	o.log.inDo--
	o.log.touch()
	o.log.mu.Unlock()
}

// pjTap is the action the pipeline sees: it records every Do call and hands it to the real plugin unchanged.
type pjTap struct {
	inner pipeline.ActionPlugin
	log   *pjLog
	inst  int
}

func (a *pjTap) Start(c pipeline.AnyConfig, p *pipeline.ActionPluginParams) { a.inner.Start(c, p) }
func (a *pjTap) Stop()                                                      { a.inner.Stop() }
func (a *pjTap) Do(e *pipeline.Event) (res pipeline.ActionResult) {
	kind, k, id := 0, -1, -1
	sid := e.VerifStreamID()
	a.log.mu.Lock()
	if e.IsTimeoutKind() {
		kind = 1
		if v, ok := a.log.streams[sid]; ok {
			k = v
		}
	} else {
		if n := e.Root.Dig("k"); n != nil {
			k = n.AsInt()
		}
		if n := e.Root.Dig("id"); n != nil {
			id = n.AsInt()
		}
		a.log.streams[sid] = k
	}
	a.log.inDo++
	a.log.mu.Unlock()
	defer func() {
		r := recover()
		a.log.mu.Lock()
		a.log.inDo--
		if r != nil {
			a.log.flag = 1
			res = pipeline.ActionDiscard
		}
		a.log.dos = append(a.log.dos, hx.L(hx.I(a.inst), hx.I(k), hx.I(kind), hx.I(id), hx.I(int(res))))
		if kind == 0 && a.log.state[id] != 3 {
			switch res {
			case pipeline.ActionHold:
				a.log.state[id] = 1
			case pipeline.ActionCollapse:
				a.log.state[id] = 2
			}
		}
		a.log.touch()
		a.log.mu.Unlock()
	}()
	return a.inner.Do(e)
}

var pjModes = []pipeline.MatchMode{pipeline.MatchModeAnd, pipeline.MatchModeOr, pipeline.MatchModeAndPrefix, pipeline.MatchModeOrPrefix, pipeline.MatchModeAnd}

// the action's selector: two conditions (a value list on "m", a regexp on "n") under the given mode, or a do_if tree
func pjMatch(mode int, invert, doIf bool) (pipeline.MatchConditions, pipeline.MatchMode, bool, *doif.Checker) {
	var conds pipeline.MatchConditions
	if mode != 4 {
		conds = pipeline.MatchConditions{
			{Field: []string{"m"}, Values: []string{"x", "yz"}},
			{Field: []string{"n"}, Regexp: regexp.MustCompile(`^1`)},
		}
	}
	var checker *doif.Checker
	if doIf {
		c, err := doif.NewFromMap(map[string]any{"op": "or", "operands": []any{
			map[string]any{"op": "equal", "field": "m", "values": []any{"x"}},
			map[string]any{"op": "prefix", "field": "n", "values": []any{"1"}},
		}})
		if err != nil {
			panic("c15: do_if " + err.Error())
		}
		checker = c
	}
	return conds, pjModes[mode%len(pjModes)], invert, checker
}

func pjEventJSON(id, stream int, jin hx.Sx, extra string) string {
	f := hx.Items(jin)
	if hx.Int(f[0]) == 1 {
		return fmt.Sprintf(`{"id":%d,"k":%d,"s":"s%d"%s}`, id, stream, stream%2, extra)
	}
	return fmt.Sprintf(`{"f":%s,"id":%d,"k":%d,"s":"s%d"%s}`, hx.Str(f[2]), id, stream, stream%2, extra)
}

func pjIsMatch(mode int, invert, doIf bool, js string) bool {
	root := insaneJSON.Spawn()
	defer insaneJSON.Release(root)
	if err := root.DecodeString(js); err != nil {
		panic("c15: bad pipe-join event " + js)
	}
	conds, mm, inv, checker := pjMatch(mode, invert, doIf)
	return pipeline.VerifIsMatchC14(conds, mm, inv, checker, root)
}

var pjStartMu sync.Mutex

func pjRun(cs hx.Sx) hx.Sx {
	it := hx.Items(cs)
	jc, mc, pc, evs := hx.Items(it[0]), hx.Items(it[1]), hx.Items(it[2]), hx.Items(it[3])
	max := int(hx.Int(jc[0]))
	extra := hx.Items(jc[2])
	mode, invert, doIf := int(hx.Int(mc[0])), hx.Truth(mc[1]), hx.Truth(mc[2])
	procs, capacity, evTimeout, stop := int(hx.Int(pc[0])), int(hx.Int(pc[1])), int(hx.Int(pc[2])), hx.Int(pc[3]) != 0
	stopPending := hx.Int(pc[3]) == 2

	log := &pjLog{state: map[int]int{}, streams: map[int64]int{}}
	log.touch()

	// the plugin and its config come from the factory the plugin registered (what fd does for a pipeline config)
	typ := "join"
	if len(extra) > 0 && hx.IsInt(extra[0]) {
		typ = "join_template"
	}
	info, err := fd.DefaultPluginRegistry.Get(pipeline.PluginKindAction, typ)
	if err != nil {
		panic("c15: " + err.Error())
	}
	_, config := info.Factory()
	switch c := config.(type) {
	case *join.Config:
		negs := hx.Items(jc[1])
		c.Field = "f"
		c.Start = cfg.Regexp("/" + hx.Str(extra[0]) + "/")
		c.Continue = cfg.Regexp("/" + hx.Str(extra[1]) + "/")
		c.MaxEventSize = max
		c.Negate = len(negs) > 0 && hx.Truth(negs[0])
	case *join_template.Config:
		c.Field = "f"
		c.MaxEventSize = max
		for _, t := range extra {
			c.Templates = append(c.Templates, c15TplNames[int(hx.Int(t))%len(c15TplNames)])
		}
	default:
		panic("c15: unexpected config type")
	}
	test.NewConfig(config, nil)

	settings := &pipeline.Settings{
		Capacity: capacity, MaintenanceInterval: time.Second * 5, EventTimeout: time.Duration(evTimeout) * time.Millisecond,
		Antispam: pipeline.AntispamSettings{Threshold: -1}, AvgEventSize: 256, MetaCacheSize: 8, StreamField: "s", Decoder: "json",
		Metric: &pipeline.MetricSettings{HoldDuration: time.Minute, MaxLabelValueLength: 100},
	}
	p := pipeline.New(fmt.Sprintf("verifjoin%p", log), settings, prometheus.NewRegistry(), zap.NewNop())
	if procs <= 1 {
		p.DisableParallelism()
	}
	p.SetInput(&pipeline.InputPluginInfo{
		PluginStaticInfo:  &pipeline.PluginStaticInfo{Type: "verifin"},
		PluginRuntimeInfo: &pipeline.PluginRuntimeInfo{Plugin: &pjInput{log}},
	})
	conds, mm, inv, checker := pjMatch(mode, invert, doIf)
	p.AddAction(&pipeline.ActionPluginStaticInfo{
		PluginStaticInfo: &pipeline.PluginStaticInfo{
			Type:   typ,
			Config: config,
			Factory: func() (pipeline.AnyPlugin, pipeline.AnyConfig) {
				pl, c := info.Factory()
				log.mu.Lock()
				inst := log.nInst
				log.nInst++
				log.mu.Unlock()
				return &pjTap{inner: pl.(pipeline.ActionPlugin), log: log, inst: inst}, c
			},
		},
		MetricName:      "join",
		MatchConditions: conds,
		MatchMode:       mm,
		MatchInvert:     inv,
		DoIfChecker:     checker,
	})
	p.SetOutput(&pipeline.OutputPluginInfo{
		PluginStaticInfo:  &pipeline.PluginStaticInfo{Type: "verifout"},
		PluginRuntimeInfo: &pipeline.PluginRuntimeInfo{Plugin: &pjOutput{log: log}},
	})

	pjStartMu.Lock()
	old := runtime.GOMAXPROCS(0)
	if procs > 1 {
		runtime.GOMAXPROCS(maxInt(1, procs/2))
	}
	p.Start()
	runtime.GOMAXPROCS(old)
	pjStartMu.Unlock()

	setFlag := func(f int) {
		log.mu.Lock()
		if log.flag == 0 {
			log.flag = f
		}
		log.mu.Unlock()
	}

	// one feeder: the order of the events of a stream is the order of the case
	accepted := map[int]bool{}
	fed := make(chan struct{})
	go func() {
		defer close(fed)
		defer func() {
			if r := recover(); r != nil {
				setFlag(4)
			}
		}()
		for i, ev := range evs {
			f := hx.Items(ev)
			stream, match, gap := int(hx.Int(f[0])), hx.Truth(f[1]), int(hx.Int(f[2]))
			js := pjEventJSON(i, stream, f[3], hx.Str(f[4]))
			if pjIsMatch(mode, invert, doIf, js) != match {
				setFlag(5)
			}
			if gap > 0 {
				time.Sleep(time.Duration(gap) * time.Millisecond)
			}
			if p.In(pipeline.SourceID(1+stream/2), "verif", pipeline.NewOffsets(int64(i+1), nil), []byte(js), false, nil) != pipeline.EventSeqIDError {
				accepted[i] = true
			}
		}
	}()
	select {
	case <-fed:
	case <-time.After(30 * time.Second):
		setFlag(2)
	}

	// quiescence: every accepted event was skipped / passed on (3), collapsed (2) or - stop mode only - is held (1);
	// progress based: the run counts as stuck only when nothing at all was recorded for a whole idle window
	idle := time.Duration(3000+8*evTimeout) * time.Millisecond
	if stop {
		idle = 3 * time.Second // the event time-out is out of reach in the stop modes
	}
	if stopPending {
		// events of a stream no processor is free for stay in their stream: Stop() is called with them pending
		idle = 300 * time.Millisecond
	}
	log.mu.Lock()
	log.touch() // the idle window starts when the last event has been fed, not at the last Do call
	log.mu.Unlock()
	hardCap := time.Now().Add(60 * time.Second)
	for {
		log.mu.Lock()
		pending := 0
		for id := range accepted {
			switch log.state[id] {
			case 0:
				pending++
			case 1:
				if !stop {
					pending++
				}
			}
		}
		since := time.Since(log.last)
		if log.inDo > 0 {
			pending++ // e.g. the Do of a time-out event whose flush has already reached the output
		}
		log.mu.Unlock()
		if pending == 0 {
			break
		}
		if since > idle || time.Now().After(hardCap) {
			if !stop {
				setFlag(2)
			}
			break
		}
		time.Sleep(2 * time.Millisecond)
	}
	// let the processors come to rest (a flush and the commit of the flushed event follow each other at once)
	for {
		log.mu.Lock()
		since := time.Since(log.last)
		inDo := log.inDo
		log.mu.Unlock()
		if (since > 15*time.Millisecond && inDo == 0) || time.Now().After(hardCap) {
			break
		}
		time.Sleep(3 * time.Millisecond)
	}

	stopped := make(chan struct{})
	go func() {
		defer close(stopped)
		defer func() {
			if r := recover(); r != nil {
				setFlag(4)
			}
		}()
		p.Stop()
	}()
	select {
	case <-stopped:
	case <-time.After(8 * time.Second):
		setFlag(3)
	}
	if stop {
		// the processors that were waiting for the next event of a held run get the unlock event of Stop
		time.Sleep(30 * time.Millisecond)
	}

	log.mu.Lock()
	defer log.mu.Unlock()
	return hx.L(hx.L(log.dos...), hx.L(log.outs...), hx.L(log.commits...), hx.I(log.flag))
}

func maxInt(a, b int) int {
	if a > b {
		return a
	}
	return b
}

// ---------------------------------------------------------------------------------------------
// generator

type pjJob struct {
	stream string
	cs     hx.Sx
	obs    hx.Sx
	stop   bool
	multi  bool
}

func c15GenPipeJoin(c *hmain.Ctx, r *hx.Rng) {
	w := c.W
	type rePair struct{ s, c string }
	pairs := []rePair{{`^S`, `^C`}, {`^\d{4}-\d\d-\d\d`, `^\s`}, {`^[A-Z]`, `^[a-z ]`}}
	pools := [][]string{
		{"S1", "S2", "C1", "C2", "C3", "O1", "O2", "Cx"},
		{"2021-10-12 08:25:44 GMT LOG: x", " at x", "\tfrom y", "plain", "2022-01-01 z", " more"},
		{"Hello", "hello", "world ", "Z", "0", " x", "[x]"},
	}
	tpool := []string{"panic: runtime error: index out of range", "goroutine 1 [running]:", "main.main()", "\t/app/main.go:12 +0x1d", "hello world",
		"Unhandled exception. System.NullReferenceException: Object reference", "   at Foo.Bar() in /x.cs:line 3", "INFO starting", "exit status 2", ""}
	var tpls [3]templateChecks
	for i, n := range c15TplNames {
		tpls[i] = c15Template(n)
	}
	mvals := []string{``, `,"m":"x"`, `,"m":"x"`, `,"m":"yz"`, `,"m":"xq"`, `,"m":"q"`, `,"m":"x","n":"1"`, `,"m":"x","n":"12"`, `,"n":"1"`, `,"n":"21"`, `,"m":"q","n":"2"`, `,"m":"yzz","n":"1"`}

	// stop: 0 the run ends quiescent; 1 Stop() while runs are held, more processors than streams; 2 Stop() with one
	// processor blocked behind a held run and events of other streams still waiting (former finding
	// C15-stop-busy-action-other-stream, repaired by /repo 5c4c757)
	gen := func(stream string, stopMode int) *pjJob {
		stop := stopMode != 0
		useTpl := r.Chance(1, 4)
		max := 0
		if r.Chance(1, 2) {
			max = r.Range(1, 40)
		}
		var jcfg hx.Sx
		var negs []bool
		var codes []int
		pi := r.Intn(len(pairs))
		var sre, cre *regexp.Regexp
		if useTpl {
			codes = []int{r.Intn(3)}
			if r.Bool() {
				codes = append(codes, (codes[0]+1+r.Intn(2))%3)
			}
			for _, cd := range codes {
				negs = append(negs, tpls[cd].negate)
			}
			jcfg = hx.L(hx.I(max), hx.List(negs, hx.Bool), hx.List(codes, hx.I))
		} else {
			neg := r.Chance(1, 4)
			negs = []bool{neg}
			sre, cre = regexp.MustCompile(pairs[pi].s), regexp.MustCompile(pairs[pi].c)
			jcfg = hx.L(hx.I(max), hx.L(hx.Bool(neg)), hx.L(hx.S(pairs[pi].s), hx.S(pairs[pi].c)))
		}
		mode := r.Intn(5)
		invert := r.Chance(1, 4)
		doIf := r.Chance(1, 5)
		procs := hx.Pick(r, []int{1, 2, 4, 8})
		nstreams := r.Range(1, 4)
		switch stopMode {
		case 1:
			procs, nstreams = hx.Pick(r, []int{4, 8}), r.Range(1, 3)
		case 2:
			procs, nstreams = 1, r.Range(2, 4)
		}
		evTimeout := r.Range(20, 60)
		if stop {
			evTimeout = 60000
		}
		n := r.Range(4, 40)
		capacity := r.Range(n+2, n+16) // the held and the waiting events must fit: a full pool blocks In, not the actions
		var evs []hx.Sx
		nMatch, nSkip, nStart, nGaps := 0, 0, 0, 0
		for i := 0; i < n; i++ {
			st := r.Intn(nstreams)
			var e jev
			switch kk := r.Intn(16); {
			case kk == 0:
				e = jev{kind: 1}
			case kk == 1:
				e = jev{kind: 2, isStr: false, json: "17", value: "17"}
			default:
				var v string
				if useTpl {
					v = hx.Pick(r, tpool)
				} else {
					v = hx.Pick(r, pools[pi])
				}
				js, val := jsonStr(v)
				e = jev{kind: 2, isStr: true, json: js, value: val}
			}
			if e.kind == 2 {
				if useTpl {
					for _, cd := range codes {
						e.starts = append(e.starts, tpls[cd].start(e.value))
						e.conts = append(e.conts, tpls[cd].cont(e.value))
					}
				} else {
					e.starts, e.conts = []bool{sre.MatchString(e.value)}, []bool{cre.MatchString(e.value)}
				}
				if e.isStr {
					for _, s := range e.starts {
						if s {
							nStart++
							break
						}
					}
				}
			}
			mextra := hx.Pick(r, mvals)
			match := pjIsMatch(mode, invert, doIf, pjEventJSON(i, st, e.sx(), mextra))
			if match {
				nMatch++
			} else {
				nSkip++
			}
			gap := 0
			if !stop && nGaps < 2 && r.Chance(1, 12) {
				nGaps++
				gap = evTimeout + r.Range(150, 260) // longer than the time-out and the 200 ms heartbeat: an open run is flushed
			} else if r.Chance(1, 6) {
				gap = r.Range(1, 4)
			}
			evs = append(evs, hx.L(hx.I(st), hx.Bool(match), hx.I(gap), e.sx(), hx.S(mextra)))
		}
		stopFlag := stopMode
		w.Count(fmt.Sprintf("pipe_join_match_mode_%d", mode))
		if invert {
			w.Count("pipe_join_match_invert")
		}
		if doIf {
			w.Count("pipe_join_do_if")
		}
		if nSkip > 0 && nMatch > 0 {
			w.Count("pipe_join_matching_and_non_matching_events")
		}
		cs := hx.L(jcfg, hx.L(hx.I(mode), hx.Bool(invert), hx.Bool(doIf)), hx.L(hx.I(procs), hx.I(capacity), hx.I(evTimeout), hx.I(stopFlag)), hx.L(evs...))
		return &pjJob{stream: stream, cs: cs, stop: stop, multi: nStart > 0 && nstreams > 1}
	}
	var jobs []*pjJob
	for i := 0; i < 80*c.Scale; i++ {
		jobs = append(jobs, gen("pipe-join", 0))
	}
	for i := 0; i < 30*c.Scale; i++ {
		jobs = append(jobs, gen("pipe-join-stop", 1))
	}
	// Stop() while the only processor waits for the next event of a held run and other streams have events waiting.  Before
	// /repo 5c4c757 the processor left the held stream on the unlock event with its action still busy, took the next
	// charged stream and handed that stream's events to the busy action: lines of two streams ended up in one event
	// (notes/finding-C15-stop-busy-action-other-stream.md).  Now the processor returns on the unlock event; the family is
	// always emitted and judged like every other pipe-join case (monitor 2: a busy instance sees only its stream).
	jobs = append(jobs, &pjJob{stream: "pipe-join-stop-pending", cs: pjStopWitness(), stop: true, multi: true})
	for i := 0; i < 12*c.Scale; i++ {
		jobs = append(jobs, gen("pipe-join-stop-pending", 2))
	}
	sem := make(chan struct{}, 120)
	var wg sync.WaitGroup
	for _, j := range jobs {
		j := j
		wg.Add(1)
		sem <- struct{}{}
		go func() {
			defer wg.Done()
			defer func() { <-sem }()
			j.obs = pjRun(j.cs)
		}()
	}
	wg.Wait()
	for _, j := range jobs {
		o := hx.Items(j.obs)
		touts, insts := 0, map[int64]bool{}
		for _, d := range hx.Items(o[0]) {
			f := hx.Items(d)
			insts[hx.Int(f[0])] = true
			if hx.Int(f[2]) == 1 {
				touts++
			}
		}
		if touts > 0 {
			w.Count("pipe_join_run_flushed_by_a_stream_time_out")
		}
		if len(insts) > 1 {
			w.Count("pipe_join_several_action_instances_used")
		}
		w.Case(j.stream, pjWhich, j.cs, j.obs, j.multi)
	}
}

type templateChecks struct {
	start, cont func(string) bool
	negate      bool
}

func c15Template(name string) templateChecks {
	t, err := template.InitTemplate(name)
	if err != nil {
		panic(err)
	}
	return templateChecks{t.StartCheck, t.ContinueCheck, t.Negate}
}
