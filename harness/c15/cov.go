package main

// Streams added from the statement-coverage report of the anchored files (notes/coverage/C15-triage.md): behaviour of the
// anchored code that no older stream executed.

import (
	"fmt"
	"strings"

	"github.com/ozontech/file.d/plugin/action/join_template/template"

	"verif/harness/hmain"
	"verif/harness/hx"
)

func c15GenCoverage(c *hmain.Ctx, r *hx.Rng) {
	w := c.W
	const look = 128 * 1024

	// template.InitTemplate: an unknown name is an error, not a zero template with nil checks (join_template.Start turns
	// the error into Fatal; a nil StartCheck would panic in the first Do instead)
	for _, name := range []string{"", "nope", "go_panic ", "GO_PANIC", "cs-exception"} {
		_, err := template.InitTemplate(name)
		w.Oracle("template.InitTemplate rejects a name that is not go_panic / cs_exception / go_data_race", err != nil, name)
	}
	for _, name := range c15TplNames {
		t, err := template.InitTemplate(name)
		w.Oracle("template.InitTemplate returns both checks of a known template", err == nil && t.StartCheck != nil && t.ContinueCheck != nil, name)
	}

	// ---- k8s-meta: (a) events that lack one of k8s_namespace / k8s_pod / k8s_container_id / k8s_container: Do ends the
	// process with Fatalf (here: a panic, code 3) on THAT event, whatever is buffered, unless only_node is set (then the
	// fields are not looked at); the model: such a chunk is a chunk without an admissible fragment.  (b) max_event_size
	// exceeded with pipeline setting source_name_meta_field set (which 7: the field exists, which 8: it does not): the
	// metric's label is checked by Exec (panic code 8 on a mismatch), the rest is the k8s sub-model.
	kpool := []string{"", "a", "hello ", "world", "\\", "n", "\\n", "tab\t", "q\"q", "0123456789", " "}
	randRaw := func(final bool) string {
		var b strings.Builder
		for k := r.Intn(4); k > 0; k-- {
			b.WriteString(hx.Pick(r, kpool))
		}
		if r.Chance(1, 5) {
			b.WriteString(strings.Repeat("x", r.Intn(40)))
		}
		s := strings.TrimRight(b.String(), "\n")
		if final {
			return s + "\n"
		}
		return s
	}
	for i := 0; i < 1200*c.Scale; i++ {
		max := 0
		if r.Chance(3, 4) {
			max = r.Range(3, 40)
		}
		cut := r.Bool()
		only := r.Chance(1, 8)
		which := hx.Pick(r, []int{2, 7, 7, 8})
		withMissing := r.Chance(1, 3)
		var seq []kch
		partials, missing := 0, 0
		for j, n := 0, r.Range(1, 9); j < n; j++ {
			if r.Chance(1, 30) {
				seq = append(seq, kch{style: -1})
				continue
			}
			final := r.Chance(1, 3)
			k := c15Cri(randRaw(final))
			if withMissing && r.Chance(1, 4) {
				k.missing = r.Range(1, 4)
				missing++
				w.Count(fmt.Sprintf("k8s_meta_missing_field_%d_only_node_%v", k.missing, only))
			}
			if !final {
				partials++
			}
			seq = append(seq, k)
		}
		w.Count(fmt.Sprintf("k8s_meta_which_%d", which))
		c.Do("k8s-meta", which, hx.L(c15KCfg(max, 4*look, cut, cut && r.Bool(), only), hx.List(seq, c15KSx)), partials > 0 && len(seq) >= 2)
	}

	// ---- k8s-timeout-fresh / k8s-timeout-keeps-skip (which 9): sequences WITH time-outs judged step by step against
	// k_spec_t - a time-out drops what is buffered (recorded finding C15-k8s-timeout-drops-partial-line) and leaves an
	// action that is as good as new: it is no longer busy, the processor may serve any other stream next (theorem
	// c15_k8s_timeout_fresh, every configuration).  k8s-timeout-fresh: no size limit; k8s-timeout-keeps-skip:
	// max_event_size 4..40 with oversize partial chunks before the time-outs - the code before /repo 2e55483 kept
	// skipNextEvent across the time-out and discarded the NEXT line (former finding C15-k8s-timeout-keeps-skip; its
	// witness runs first).  Both families are always emitted.
	freshSeq := func(max int) ([]kch, int) {
		var seq []kch
		touts := 0
		for j, n := 0, r.Range(2, 12); j < n; j++ {
			if j > 0 && r.Chance(1, 4) {
				seq = append(seq, kch{style: -1})
				touts++
				continue
			}
			raw := randRaw(r.Chance(1, 3))
			if max > 0 && r.Chance(1, 4) {
				raw = strings.Repeat("y", max+r.Intn(4)) + raw // does not fit: the rest of this line is skipped
			}
			seq = append(seq, c15Cri(raw))
		}
		seq = append(seq, c15Cri("tail\n"))
		return seq, touts
	}
	for i := 0; i < 1500*c.Scale; i++ {
		split := 4 * look
		if r.Chance(1, 6) {
			split = look + r.Range(0, 300)
		}
		seq, touts := freshSeq(0)
		c.Do("k8s-timeout-fresh", 9, hx.L(c15KCfg(0, split, r.Bool(), false, false), hx.List(seq, c15KSx)), touts > 0)
	}
	c.Do("k8s-timeout-keeps-skip", 9, k8sSkipWitness(), true)
	for i := 0; i < 600*c.Scale; i++ {
		max := r.Range(4, 40)
		cut := r.Bool()
		seq, touts := freshSeq(max)
		c.Do("k8s-timeout-keeps-skip", 9, hx.L(c15KCfg(max, 4*look, cut, cut && r.Bool(), false), hx.List(seq, c15KSx)), touts > 0)
	}
}

// max_event_size 9: "0123456789" does not fit (the rest of its line is to be skipped), time-out, then the complete lines
// "ok" and "next": both pass untouched (before /repo 2e55483 "ok" was discarded)
func k8sSkipWitness() hx.Sx {
	seq := []kch{c15Cri("0123456789"), {style: -1}, c15Cri("ok\n"), c15Cri("next\n")}
	return hx.L(c15KCfg(9, 4*128*1024, false, false, false), hx.List(seq, c15KSx))
}
