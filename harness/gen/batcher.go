package main

// Translator "batcher": reads pipeline/batch.go and emits Gen/BatcherGen.v
//   batcher_atomic_push : in trySendBatchAndUnlock, is the send into fullBatches issued before the
//                         mu.Unlock() of the sealing path?  And does Stop close fullBatches while holding mu?

import (
	"fmt"
	"go/ast"
	"go/parser"
	"go/token"
	"path/filepath"
)

func init() { gens["batcher"] = genBatcher }

func isSel(e ast.Expr, recv, field string) bool {
	s, ok := e.(*ast.SelectorExpr)
	if !ok {
		return false
	}
	id, ok := s.X.(*ast.Ident)
	return ok && id.Name == recv && s.Sel.Name == field
}

func isMuCall(st ast.Stmt, method string) bool {
	es, ok := st.(*ast.ExprStmt)
	if !ok {
		return false
	}
	call, ok := es.X.(*ast.CallExpr)
	if !ok {
		return false
	}
	sel, ok := call.Fun.(*ast.SelectorExpr)
	if !ok || sel.Sel.Name != method {
		return false
	}
	return isSel(sel.X, "b", "mu")
}

func genBatcher(repo string) (string, string, error) {
	fset := token.NewFileSet()
	f, err := parser.ParseFile(fset, filepath.Join(repo, "pipeline", "batch.go"), nil, 0)
	if err != nil {
		return "", "", err
	}
	var trySend, stop *ast.FuncDecl
	for _, d := range f.Decls {
		if fd, ok := d.(*ast.FuncDecl); ok && fd.Recv != nil {
			switch fd.Name.Name {
			case "trySendBatchAndUnlock":
				trySend = fd
			case "Stop":
				if len(fd.Recv.List) == 1 {
					if se, ok := fd.Recv.List[0].Type.(*ast.StarExpr); ok {
						if id, ok := se.X.(*ast.Ident); ok && id.Name == "Batcher" {
							stop = fd
						}
					}
				}
			}
		}
	}
	if trySend == nil || stop == nil {
		return "", "", fmt.Errorf("Batcher.trySendBatchAndUnlock / Batcher.Stop not found")
	}
	// top-level statements of trySendBatchAndUnlock: position of the send and of the top-level Unlock
	sendIdx, unlockIdx := -1, -1
	for i, st := range trySend.Body.List {
		if s, ok := st.(*ast.SendStmt); ok && isSel(s.Chan, "b", "fullBatches") {
			if sendIdx != -1 {
				return "", "", fmt.Errorf("two sends into fullBatches")
			}
			sendIdx = i
		}
		if isMuCall(st, "Unlock") {
			if unlockIdx != -1 {
				return "", "", fmt.Errorf("two top-level mu.Unlock calls")
			}
			unlockIdx = i
		}
	}
	if sendIdx == -1 || unlockIdx == -1 {
		return "", "", fmt.Errorf("trySendBatchAndUnlock: send or unlock not found at top level")
	}
	sendUnderMu := sendIdx < unlockIdx
	// Stop: close(b.fullBatches) must sit (possibly nested in an if) between mu.Lock and mu.Unlock
	lockIdx, unlockS, closeIdx := -1, -1, -1
	for i, st := range stop.Body.List {
		if isMuCall(st, "Lock") && lockIdx == -1 {
			lockIdx = i
		}
		if isMuCall(st, "Unlock") && unlockS == -1 {
			unlockS = i
		}
		found := false
		ast.Inspect(st, func(n ast.Node) bool {
			if c, ok := n.(*ast.CallExpr); ok {
				if id, ok := c.Fun.(*ast.Ident); ok && id.Name == "close" && len(c.Args) == 1 && isSel(c.Args[0], "b", "fullBatches") {
					found = true
				}
			}
			return true
		})
		if found && closeIdx == -1 {
			closeIdx = i
		}
	}
	if closeIdx == -1 {
		return "", "", fmt.Errorf("Stop: close(b.fullBatches) not found")
	}
	closeUnderMu := lockIdx != -1 && lockIdx < closeIdx && closeIdx < unlockS
	atomic := sendUnderMu && closeUnderMu
	content := fmt.Sprintf(`(* GENERATED from /repo/pipeline/batch.go by harness/gen (translator "batcher") — do not edit.
   send into fullBatches before the sealing path's mu.Unlock(): %v;  Stop closes fullBatches under mu: %v *)
Definition batcher_atomic_push : bool := %v.
`, sendUnderMu, closeUnderMu, atomic)
	return "BatcherGen.v", content, nil
}
