package main

// Translator "batcher": reads pipeline/batch.go and emits Gen/BatcherGen.v
//   batcher_atomic_push : in trySendBatchAndUnlock, is the send into fullBatches issued before the
//                         mu.Unlock() of the sealing path?  And does Stop close fullBatches while holding mu?

import (
	"fmt"
	"go/ast"
	"go/parser"
	"go/token"
	"path/filepath"
)

func init() { gens["batcher"] = genBatcher }

func isSel(e ast.Expr, recv, field string) bool {
	s, ok := e.(*ast.SelectorExpr)
	if !ok {
		return false
	}
	id, ok := s.X.(*ast.Ident)
	return ok && id.Name == recv && s.Sel.Name == field
}

func isMuCall(st ast.Stmt, method string) bool {
	es, ok := st.(*ast.ExprStmt)
	if !ok {
		return false
	}
	call, ok := es.X.(*ast.CallExpr)
	if !ok {
		return false
	}
	sel, ok := call.Fun.(*ast.SelectorExpr)
	if !ok || sel.Sel.Name != method {
		return false
	}
	return isSel(sel.X, "b", "mu")
}

// batcherMethods returns the methods of *Batcher with their receiver names
func batcherMethods(f *ast.File) map[*ast.FuncDecl]string {
	out := map[*ast.FuncDecl]string{}
	for _, d := range f.Decls {
		fd, ok := d.(*ast.FuncDecl)
		if !ok || fd.Recv == nil || len(fd.Recv.List) != 1 || fd.Body == nil {
			continue
		}
		se, ok := fd.Recv.List[0].Type.(*ast.StarExpr)
		if !ok {
			continue
		}
		if id, ok := se.X.(*ast.Ident); !ok || id.Name != "Batcher" {
			continue
		}
		if len(fd.Recv.List[0].Names) != 1 {
			continue
		}
		out[fd] = fd.Recv.List[0].Names[0].Name
	}
	return out
}

func isMuCallOf(st ast.Stmt, recv, method string) bool {
	es, ok := st.(*ast.ExprStmt)
	if !ok {
		return false
	}
	return isMuCallExpr(es.X, recv, method)
}

func isMuCallExpr(e ast.Expr, recv, method string) bool {
	call, ok := e.(*ast.CallExpr)
	if !ok {
		return false
	}
	sel, ok := call.Fun.(*ast.SelectorExpr)
	if !ok || sel.Sel.Name != method {
		return false
	}
	return isSel(sel.X, recv, "mu")
}

func blockEndsWithReturn(b *ast.BlockStmt) bool {
	if b == nil || len(b.List) == 0 {
		return false
	}
	_, ok := b.List[len(b.List)-1].(*ast.ReturnStmt)
	return ok
}

// unlockBefore reports whether a (non-deferred) mu.Unlock() that lies on a path falling through to pos
// precedes pos in the function: an Unlock inside a block that ends with return does not count.
func unlockBefore(body *ast.BlockStmt, recv string, pos token.Pos) bool {
	found := false
	var walk func(b *ast.BlockStmt, returns bool)
	walk = func(b *ast.BlockStmt, returns bool) {
		if b == nil {
			return
		}
		ret := returns || blockEndsWithReturn(b)
		for _, st := range b.List {
			if st.Pos() >= pos {
				break
			}
			if isMuCallOf(st, recv, "Unlock") && !ret {
				found = true
			}
			switch x := st.(type) {
			case *ast.IfStmt:
				walk(x.Body, returns)
				if eb, ok := x.Else.(*ast.BlockStmt); ok {
					walk(eb, returns)
				}
			case *ast.BlockStmt:
				walk(x, returns)
			case *ast.ForStmt:
				walk(x.Body, returns)
			case *ast.RangeStmt:
				walk(x.Body, returns)
			}
		}
	}
	walk(body, false)
	return found
}

// lockedAt: the function takes mu itself (top-level Lock before pos) and has not released it on the way to pos
func lockBefore(body *ast.BlockStmt, recv string, pos token.Pos) bool {
	for _, st := range body.List {
		if st.Pos() < pos && isMuCallOf(st, recv, "Lock") {
			return true
		}
	}
	return false
}

func genBatcher(repo string) (string, string, error) {
	fset := token.NewFileSet()
	f, err := parser.ParseFile(fset, filepath.Join(repo, "pipeline", "batch.go"), nil, 0)
	if err != nil {
		return "", "", err
	}
	methods := batcherMethods(f)
	// 1. the send into fullBatches: exactly one, in a method that is entered with mu held (trySendBatchAndUnlock) or
	//    takes it itself; it must come before any Unlock on its path
	var sendFn *ast.FuncDecl
	var sendPos token.Pos
	for fd, recv := range methods {
		ast.Inspect(fd.Body, func(n ast.Node) bool {
			if s, ok := n.(*ast.SendStmt); ok && isSel(s.Chan, recv, "fullBatches") {
				if sendFn != nil {
					err = fmt.Errorf("two sends into fullBatches")
				}
				sendFn, sendPos = fd, s.Pos()
			}
			return true
		})
	}
	if err != nil {
		return "", "", err
	}
	if sendFn == nil {
		return "", "", fmt.Errorf("no send into fullBatches found in the methods of Batcher")
	}
	if sendFn.Name.Name != "trySendBatchAndUnlock" && !lockBefore(sendFn.Body, methods[sendFn], sendPos) {
		return "", "", fmt.Errorf("%s: the send into fullBatches is in a method that neither is trySendBatchAndUnlock nor locks mu itself", sendFn.Name.Name)
	}
	sendUnderMu := !unlockBefore(sendFn.Body, methods[sendFn], sendPos)
	// 2. close(fullBatches): exactly one, in Stop or in a method Stop calls; between mu.Lock() and the Unlock
	//    (explicit later Unlock, or a deferred one)
	var closeFn *ast.FuncDecl
	var closePos token.Pos
	for fd, recv := range methods {
		ast.Inspect(fd.Body, func(n ast.Node) bool {
			if c, ok := n.(*ast.CallExpr); ok {
				if id, ok := c.Fun.(*ast.Ident); ok && id.Name == "close" && len(c.Args) == 1 && isSel(c.Args[0], recv, "fullBatches") {
					if closeFn != nil {
						err = fmt.Errorf("two close(fullBatches)")
					}
					closeFn, closePos = fd, c.Pos()
				}
			}
			return true
		})
	}
	if err != nil {
		return "", "", err
	}
	if closeFn == nil {
		return "", "", fmt.Errorf("Stop: close(b.fullBatches) not found")
	}
	if closeFn.Name.Name != "Stop" {
		// must be reachable from Stop by a direct call on the receiver
		var stop *ast.FuncDecl
		for fd := range methods {
			if fd.Name.Name == "Stop" {
				stop = fd
			}
		}
		called := false
		if stop != nil {
			ast.Inspect(stop.Body, func(n ast.Node) bool {
				if c, ok := n.(*ast.CallExpr); ok {
					if sel, ok := c.Fun.(*ast.SelectorExpr); ok && sel.Sel.Name == closeFn.Name.Name {
						if id, ok := sel.X.(*ast.Ident); ok && id.Name == methods[stop] {
							called = true
						}
					}
				}
				return true
			})
		}
		if !called {
			return "", "", fmt.Errorf("close(fullBatches) is in %s, which Batcher.Stop does not call directly", closeFn.Name.Name)
		}
	}
	recv := methods[closeFn]
	closeUnderMu := lockBefore(closeFn.Body, recv, closePos) && !unlockBefore(closeFn.Body, recv, closePos)
	atomic := sendUnderMu && closeUnderMu
	content := fmt.Sprintf(`(* GENERATED from /repo/pipeline/batch.go by harness/gen (translator "batcher") — do not edit.
   send into fullBatches before the sealing path's mu.Unlock(): %v;  Stop closes fullBatches under mu: %v *)
Definition batcher_atomic_push : bool := %v.
`, sendUnderMu, closeUnderMu, atomic)
	return "BatcherGen.v", content, nil
}
