package main

// Translator "kafka" (property C10): reads plugin/input/kafka/kafka.go (+ client.go, pipeline/*.go for
// the SourceID type) and emits Gen/KafkaGen.v:
//   gen_assembleSourceID / gen_disassembleSourceID / gen_assembleOffset / gen_disassembleOffset
//       the bodies of the four packing functions, translated statement by statement and expression
//       by expression into the fixed-width integer operators of coq/Model/KafkaInt.v (go_shl, go_shr,
//       go_and, go_add, go_mul, go_conv ...), with the operand types inferred from the Go
//       declarations; every shift width, mask, factor and the `+ 1` therefore comes from the source text;
//   gen_commit_target   the data flow of Plugin.Commit: the body is executed symbolically (helper
//       functions and methods of *Plugin are inlined) and the single-entry map handed to
//       p.client.MarkCommitOffsets is read off: (index of p.config.Topics, partition key, EpochOffset);
//   gen_autocommit_marks   NewClient passes kgo.AutoCommitMarks() (without it MarkCommitOffsets is a
//       no-op and kgo would auto-commit everything polled);
//   gen_use_spread      Start calls UseSpread() and DisableStreams() (input to the frontier clause).
//
// Supported Go fragment (straight-line code only — no if / for / switch / defer / go / closures):
//   statements   `x := e`, `x = e`, `a, b := e1, e2`, `a, b := f(..)`, `x op= e`, `x++`/`x--`,
//                `var x T`, `var x T = e`, `var x = e`, local `const`, `x.F = e` on a local
//                kgo.EpochOffset, `m[k] = v` on a local map, `return ...` (last statement, also bare with
//                named results), and in Commit the final `p.client.MarkCommitOffsets(m)`;
//   integers     literals, parameters, locals, package-level and local integer constants (untyped or of
//                an integer type; constant expressions over + - * << >> & | and parentheses; no iota),
//                + - * << >> & | (shift counts must be constants), unary + -, conversions to
//                int/uint/int8..int64/uint8..uint64/byte/pipeline.SourceID,
//                `message.Offset`/`message.LeaderEpoch` of a *kgo.Record parameter,
//                `event.SourceID`/`event.Offset` of a *pipeline.Event parameter, `x.Offset`/`x.Epoch`;
//                (no / and %: nothing in the fragment can panic except the one Topics[i] read of Commit);
//   other values kgo.EpochOffset (composite literal with field names, or a local built by field
//                assignments), p.config.Topics[i] (a topic, represented by its index i), the two map types
//                map[int32]kgo.EpochOffset and map[string]map[int32]kgo.EpochOffset (literal or make +
//                index assignment; maps are objects, aliasing is followed);
//   calls        the four packing functions (referenced as gen_*), any other function of kafka.go or
//                method of *Plugin whose body is in this fragment (inlined, no recursion).
// Every Go variable assignment gets a fresh Gallina name (SSA), so a Gallina `let` never shadows.
// Anything else makes the translator fail with file:line (the tie is then reported broken).

import (
	"fmt"
	"go/ast"
	"go/parser"
	"go/token"
	"math/big"
	"os"
	"path/filepath"
	"sort"
	"strings"
)

func init() { gens["kafka"] = genKafka }

// integer types of the fragment; "" = untyped constant
type kty string

const (
	kI8  kty = "I8"
	kI16 kty = "I16"
	kI32 kty = "I32"
	kI64 kty = "I64"
	kU8  kty = "U8"
	kU16 kty = "U16"
	kU32 kty = "U32"
	kU64 kty = "U64"
)

func kBits(t kty) (uint, bool) {
	switch t {
	case kI8:
		return 8, true
	case kI16:
		return 16, true
	case kI32:
		return 32, true
	case kI64:
		return 64, true
	case kU8:
		return 8, false
	case kU16:
		return 16, false
	case kU32:
		return 32, false
	}
	return 64, false
}

// Go type names of the integer types (int and uint are 64 bit: checked by the harness)
func kIntTypeNames() map[string]kty {
	return map[string]kty{
		"int": kI64, "int64": kI64, "int32": kI32, "int16": kI16, "int8": kI8,
		"uint": kU64, "uint64": kU64, "uint32": kU32, "uint16": kU16, "uint8": kU8, "byte": kU8,
	}
}

const (
	kTyEO     = "kgo.EpochOffset"
	kTyInner  = "map[int32]kgo.EpochOffset"
	kTyOuter  = "map[string]map[int32]kgo.EpochOffset"
	kTyEvent  = "*pipeline.Event"
	kTyRecord = "*kgo.Record"
	kTyString = "string"
)

type kval struct {
	term string   // Coq term
	ty   kty      // "" for an untyped constant
	c    *big.Int // value when the expression is a Go constant (typed or untyped)
}

type kkind int

const (
	vInt    kkind = iota
	vEO           // kgo.EpochOffset: Coq terms of the two fields
	vTopic        // p.config.Topics[idx]: Coq term of the index
	vMap          // a map object
	vEvent        // *pipeline.Event parameter (fields are Coq parameters prefix_SourceID / prefix_Offset)
	vRecord       // *kgo.Record parameter (prefix_Offset / prefix_LeaderEpoch)
	vRecv         // the *Plugin receiver
)

type kvalue struct {
	kind       kkind
	i          kval
	off, epoch string
	idx        string
	m          *kmap
	prefix     string
}

type kentry struct{ key, val kvalue }
type kmap struct {
	ty      string // kTyInner or kTyOuter
	entries []kentry
}

type kconst struct {
	spec  *ast.ValueSpec
	pos   int // index of the name in the spec
	state int // 0 = not evaluated, 1 = being evaluated, 2 = done
	v     kval
}

// kbuild: one Coq definition under construction
type kbuild struct {
	fset      *token.FileSet
	typeNames map[string]kty
	consts    map[string]*kconst
	funcs     map[string]*ast.FuncDecl // package-level functions of kafka.go
	methods   map[string]*ast.FuncDecl // methods of *Plugin
	gen       map[string]bool          // functions that have their own gen_ definition
	lets      []string
	used      map[string]bool
	stack     []string
	effect    *kvalue // argument of p.client.MarkCommitOffsets
	topics    int     // number of p.config.Topics[i] reads executed (each one can panic)
}

type kvar struct{ val kvalue }

// kframe: one function activation
type kframe struct {
	b       *kbuild
	vars    map[string]*kvar
	lconsts map[string]kval
	recv    string
	prefix  string
	top     bool // the body of Plugin.Commit itself: the effect is allowed here
}

var kReserved = []string{
	// Gallina keywords and the names the generated terms use
	"as", "at", "cofix", "else", "end", "exists", "exists2", "fix", "for", "forall", "fun", "if", "IF",
	"in", "let", "match", "mod", "Prop", "return", "Set", "then", "Type", "using", "where", "with", "SProp",
	"fst", "snd", "pair", "Z", "nat", "N", "bool", "true", "false", "Definition",
	"I8", "I16", "I32", "I64", "U8", "U16", "U32", "U64", "ity",
	"go_conv", "go_add", "go_sub", "go_mul", "go_shl", "go_shr", "go_and", "go_or", "go_wrap", "go_fits", "go_min", "go_max",
	"gen_assembleSourceID", "gen_disassembleSourceID", "gen_assembleOffset", "gen_disassembleOffset",
	"gen_commit_target", "gen_autocommit_marks", "gen_use_spread",
}

func (b *kbuild) pos(n ast.Node) string { return b.fset.Position(n.Pos()).String() }

func (b *kbuild) fresh(base string) string {
	name := base
	for k := 1; b.used[name]; k++ {
		name = fmt.Sprintf("%s_%d", base, k)
	}
	b.used[name] = true
	return name
}

func (b *kbuild) let(name, term string) {
	b.lets = append(b.lets, fmt.Sprintf("  let %s := %s in", name, term))
}

func kTypeString(x ast.Expr) string {
	switch t := x.(type) {
	case *ast.Ident:
		return t.Name
	case *ast.SelectorExpr:
		return kTypeString(t.X) + "." + t.Sel.Name
	case *ast.StarExpr:
		return "*" + kTypeString(t.X)
	case *ast.MapType:
		return "map[" + kTypeString(t.Key) + "]" + kTypeString(t.Value)
	case *ast.ParenExpr:
		return kTypeString(t.X)
	}
	return "?"
}

func kLit(c *big.Int) string {
	if c.Sign() < 0 {
		return "(" + c.String() + ")"
	}
	return c.String()
}

func kFits(c *big.Int, t kty) bool {
	bits, signed := kBits(t)
	lo, hi := new(big.Int), new(big.Int)
	one := big.NewInt(1)
	if signed {
		hi.Lsh(one, bits-1)
		lo.Neg(hi)
		hi.Sub(hi, one)
	} else {
		hi.Lsh(one, bits)
		hi.Sub(hi, one)
	}
	return c.Cmp(lo) >= 0 && c.Cmp(hi) <= 0
}

// asTyped gives an untyped constant the type t (Go: the constant must be representable in t)
func (b *kbuild) asTyped(v kval, t kty, at ast.Node) (kval, error) {
	if v.ty != "" {
		if v.ty != t {
			return v, fmt.Errorf("%s: operand of type %s where %s is required", b.pos(at), v.ty, t)
		}
		return v, nil
	}
	if v.c == nil {
		return v, fmt.Errorf("%s: internal: untyped value without a constant", b.pos(at))
	}
	if !kFits(v.c, t) {
		return v, fmt.Errorf("%s: constant %s overflows %s", b.pos(at), v.c, t)
	}
	return kval{term: kLit(v.c), ty: t, c: v.c}, nil
}

func kConstVal(c *big.Int, t kty) kval {
	if t == "" {
		return kval{c: c}
	}
	return kval{term: kLit(c), ty: t, c: c}
}

// constant folding; ok=false when the operator is not a constant operator of the fragment
func kFold(op token.Token, l, r *big.Int) (*big.Int, bool) {
	c := new(big.Int)
	switch op {
	case token.ADD:
		c.Add(l, r)
	case token.SUB:
		c.Sub(l, r)
	case token.MUL:
		c.Mul(l, r)
	case token.AND:
		c.And(l, r)
	case token.OR:
		c.Or(l, r)
	default:
		return nil, false
	}
	return c, true
}

// ---- constants -----------------------------------------------------------------------------

func (b *kbuild) constVal(name string, at ast.Node) (kval, error) {
	kc := b.consts[name]
	switch kc.state {
	case 2:
		return kc.v, nil
	case 1:
		return kval{}, fmt.Errorf("%s: constant %s is defined in terms of itself", b.pos(at), name)
	}
	kc.state = 1
	defer func() {
		if kc.state == 1 {
			kc.state = 0
		}
	}()
	v, err := b.constSpec(kc.spec, kc.pos, &kframe{b: b, vars: map[string]*kvar{}, lconsts: map[string]kval{}})
	if err != nil {
		return kval{}, err
	}
	kc.v, kc.state = v, 2
	return v, nil
}

// constSpec evaluates the pos-th constant of a const spec in frame f
func (b *kbuild) constSpec(spec *ast.ValueSpec, pos int, f *kframe) (kval, error) {
	name := spec.Names[pos].Name
	if len(spec.Values) != len(spec.Names) {
		return kval{}, fmt.Errorf("%s: constant %s has no value of its own (implicit repetition / iota): unsupported", b.pos(spec), name)
	}
	v, err := f.intExpr(spec.Values[pos])
	if err != nil {
		return kval{}, err
	}
	if v.c == nil {
		return kval{}, fmt.Errorf("%s: value of constant %s is not a constant of the fragment", b.pos(spec), name)
	}
	if spec.Type != nil {
		t, ok := b.typeNames[kTypeString(spec.Type)]
		if !ok {
			return kval{}, fmt.Errorf("%s: constant %s has unsupported type %s", b.pos(spec), name, kTypeString(spec.Type))
		}
		if v.ty == "" {
			if v, err = b.asTyped(v, t, spec); err != nil {
				return kval{}, err
			}
		} else if v.ty != t {
			return kval{}, fmt.Errorf("%s: constant %s: value of type %s declared as %s", b.pos(spec), name, v.ty, t)
		}
	}
	return v, nil
}

// ---- expressions ---------------------------------------------------------------------------

func (f *kframe) intExpr(x ast.Expr) (kval, error) {
	v, err := f.expr(x)
	if err != nil {
		return kval{}, err
	}
	if v.kind != vInt {
		return kval{}, fmt.Errorf("%s: an integer expression is required here", f.b.pos(x))
	}
	return v.i, nil
}

func kInt(v kval) kvalue { return kvalue{kind: vInt, i: v} }

// expr evaluates a single-valued expression
func (f *kframe) expr(x ast.Expr) (kvalue, error) {
	b := f.b
	switch n := x.(type) {
	case *ast.ParenExpr:
		return f.expr(n.X)
	case *ast.BasicLit:
		if n.Kind != token.INT {
			return kvalue{}, fmt.Errorf("%s: literal %s is not an integer", b.pos(n), n.Value)
		}
		c, ok := new(big.Int).SetString(strings.ReplaceAll(n.Value, "_", ""), 0)
		if !ok {
			return kvalue{}, fmt.Errorf("%s: cannot read integer literal %s", b.pos(n), n.Value)
		}
		return kInt(kval{c: c}), nil
	case *ast.Ident:
		if v, ok := f.lconsts[n.Name]; ok {
			return kInt(v), nil
		}
		if v, ok := f.vars[n.Name]; ok {
			return v.val, nil
		}
		if _, ok := b.consts[n.Name]; ok {
			v, err := b.constVal(n.Name, n)
			return kInt(v), err
		}
		return kvalue{}, fmt.Errorf("%s: unknown identifier %s", b.pos(n), n.Name)
	case *ast.SelectorExpr:
		if id, ok := n.X.(*ast.Ident); ok {
			if v, ok := f.vars[id.Name]; ok {
				switch v.val.kind {
				case vRecord:
					switch n.Sel.Name {
					case "Offset": // kgo.Record.Offset int64
						return kInt(kval{term: v.val.prefix + "_Offset", ty: kI64}), nil
					case "LeaderEpoch": // kgo.Record.LeaderEpoch int32
						return kInt(kval{term: v.val.prefix + "_LeaderEpoch", ty: kI32}), nil
					}
				case vEvent:
					switch n.Sel.Name {
					case "SourceID": // pipeline.Event.SourceID pipeline.SourceID
						return kInt(kval{term: v.val.prefix + "_SourceID", ty: kU64}), nil
					case "Offset": // pipeline.Event.Offset int64
						return kInt(kval{term: v.val.prefix + "_Offset", ty: kI64}), nil
					}
				case vEO:
					switch n.Sel.Name {
					case "Offset": // kgo.EpochOffset.Offset int64
						return kInt(kval{term: v.val.off, ty: kI64}), nil
					case "Epoch": // kgo.EpochOffset.Epoch int32
						return kInt(kval{term: v.val.epoch, ty: kI32}), nil
					}
				}
			}
		}
		return kvalue{}, fmt.Errorf("%s: unsupported selector %s", b.pos(n), kCallName(n))
	case *ast.IndexExpr:
		if f.recv != "" && kCallName(n.X) == f.recv+".config.Topics" && f.isRecv(f.recv) {
			iv, err := f.intExpr(n.Index)
			if err != nil {
				return kvalue{}, err
			}
			if iv, err = b.asTyped(iv, kI64, n.Index); err != nil { // a slice index of another integer type is legal Go but not in the fragment
				return kvalue{}, err
			}
			b.topics++
			return kvalue{kind: vTopic, idx: iv.term}, nil
		}
		return kvalue{}, fmt.Errorf("%s: unsupported index expression %s[...]", b.pos(n), kCallName(n.X))
	case *ast.CompositeLit:
		if n.Type == nil {
			return kvalue{}, fmt.Errorf("%s: composite literal without a type", b.pos(n))
		}
		return f.composite(n, kTypeString(n.Type))
	case *ast.UnaryExpr:
		v, err := f.intExpr(n.X)
		if err != nil {
			return kvalue{}, err
		}
		switch n.Op {
		case token.ADD:
			return kInt(v), nil
		case token.SUB:
			if v.c != nil {
				c := new(big.Int).Neg(v.c)
				if v.ty != "" && !kFits(c, v.ty) {
					return kvalue{}, fmt.Errorf("%s: constant %s overflows %s", b.pos(n), c, v.ty)
				}
				return kInt(kConstVal(c, v.ty)), nil
			}
			return kInt(kval{term: fmt.Sprintf("(go_sub %s 0 %s)", v.ty, v.term), ty: v.ty}), nil
		}
		return kvalue{}, fmt.Errorf("%s: unsupported unary operator %s", b.pos(n), n.Op)
	case *ast.CallExpr:
		vs, err := f.call(n)
		if err != nil {
			return kvalue{}, err
		}
		if len(vs) != 1 {
			return kvalue{}, fmt.Errorf("%s: call yields %d values where one is required", b.pos(n), len(vs))
		}
		return vs[0], nil
	case *ast.BinaryExpr:
		l, err := f.intExpr(n.X)
		if err != nil {
			return kvalue{}, err
		}
		r, err := f.intExpr(n.Y)
		if err != nil {
			return kvalue{}, err
		}
		v, err := f.binary(n, n.Op, l, r)
		return kInt(v), err
	}
	return kvalue{}, fmt.Errorf("%s: unsupported expression %T", b.pos(x), x)
}

func (f *kframe) isRecv(name string) bool {
	v, ok := f.vars[name]
	return ok && v.val.kind == vRecv
}

func (f *kframe) binary(at ast.Node, op token.Token, l, r kval) (kval, error) {
	b := f.b
	if op == token.SHL || op == token.SHR {
		if r.c == nil || r.c.Sign() < 0 || !r.c.IsInt64() || r.c.Int64() > 1024 {
			return kval{}, fmt.Errorf("%s: shift count must be a small non-negative constant", b.pos(at))
		}
		k := uint(r.c.Int64())
		if l.c != nil { // constant shift
			c := new(big.Int)
			if op == token.SHL {
				c.Lsh(l.c, k)
			} else {
				c.Rsh(l.c, k)
			}
			if l.ty != "" && !kFits(c, l.ty) {
				return kval{}, fmt.Errorf("%s: constant %s overflows %s", b.pos(at), c, l.ty)
			}
			return kConstVal(c, l.ty), nil
		}
		name := "go_shl"
		if op == token.SHR {
			name = "go_shr"
		}
		return kval{term: fmt.Sprintf("(%s %s %s %s)", name, l.ty, l.term, kLit(r.c)), ty: l.ty}, nil
	}
	var name string
	switch op {
	case token.ADD:
		name = "go_add"
	case token.SUB:
		name = "go_sub"
	case token.MUL:
		name = "go_mul"
	case token.AND:
		name = "go_and"
	case token.OR:
		name = "go_or"
	default:
		return kval{}, fmt.Errorf("%s: unsupported operator %s", b.pos(at), op)
	}
	t := l.ty
	if t == "" {
		t = r.ty
	}
	var err error
	if t != "" {
		if l, err = b.asTyped(l, t, at); err != nil {
			return l, err
		}
		if r, err = b.asTyped(r, t, at); err != nil {
			return r, err
		}
	}
	if l.c != nil && r.c != nil { // constant expression: exact value (Go rejects an overflowing typed constant)
		c, _ := kFold(op, l.c, r.c)
		if t != "" && !kFits(c, t) {
			return kval{}, fmt.Errorf("%s: constant %s overflows %s", b.pos(at), c, t)
		}
		return kConstVal(c, t), nil
	}
	return kval{term: fmt.Sprintf("(%s %s %s %s)", name, t, l.term, r.term), ty: t}, nil
}

// composite literals: kgo.EpochOffset{F: e, ...} and the two map types
func (f *kframe) composite(cl *ast.CompositeLit, ts string) (kvalue, error) {
	b := f.b
	switch ts {
	case kTyEO:
		fields := map[string]string{}
		for _, el := range cl.Elts {
			kv, ok := el.(*ast.KeyValueExpr)
			if !ok {
				return kvalue{}, fmt.Errorf("%s: EpochOffset literal must use field names", b.pos(el))
			}
			key, _ := kv.Key.(*ast.Ident)
			if key == nil {
				return kvalue{}, fmt.Errorf("%s: bad field key", b.pos(kv))
			}
			want := map[string]kty{"Offset": kI64, "Epoch": kI32}[key.Name]
			if want == "" {
				return kvalue{}, fmt.Errorf("%s: unknown EpochOffset field %s", b.pos(kv), key.Name)
			}
			if _, dup := fields[key.Name]; dup {
				return kvalue{}, fmt.Errorf("%s: duplicate field %s", b.pos(kv), key.Name)
			}
			v, err := f.intExpr(kv.Value)
			if err != nil {
				return kvalue{}, err
			}
			if v, err = b.asTyped(v, want, kv); err != nil {
				return kvalue{}, err
			}
			fields[key.Name] = v.term
		}
		for _, fl := range []string{"Offset", "Epoch"} { // omitted field = zero value
			if _, ok := fields[fl]; !ok {
				fields[fl] = "0"
			}
		}
		return kvalue{kind: vEO, off: fields["Offset"], epoch: fields["Epoch"]}, nil
	case kTyInner, kTyOuter:
		m := &kmap{ty: ts}
		kt, et := kMapTypes(ts)
		for _, el := range cl.Elts {
			kv, ok := el.(*ast.KeyValueExpr)
			if !ok {
				return kvalue{}, fmt.Errorf("%s: map literal entry without a key", b.pos(el))
			}
			k, err := f.expr(kv.Key)
			if err != nil {
				return kvalue{}, err
			}
			if k, err = f.conform(k, kt, kv.Key); err != nil {
				return kvalue{}, err
			}
			var v kvalue
			if inner, ok := kv.Value.(*ast.CompositeLit); ok && inner.Type == nil { // elided element type
				v, err = f.composite(inner, et)
			} else {
				v, err = f.expr(kv.Value)
			}
			if err != nil {
				return kvalue{}, err
			}
			if v, err = f.conform(v, et, kv.Value); err != nil {
				return kvalue{}, err
			}
			m.store(k, v)
		}
		return kvalue{kind: vMap, m: m}, nil
	}
	return kvalue{}, fmt.Errorf("%s: unsupported composite literal of type %s", b.pos(cl), ts)
}

func kMapTypes(ts string) (key, elem string) {
	if ts == kTyOuter {
		return kTyString, kTyInner
	}
	return "int32", kTyEO
}

func kSameKey(a, b kvalue) bool {
	if a.kind != b.kind {
		return false
	}
	if a.kind == vTopic {
		return a.idx == b.idx
	}
	return a.i.term == b.i.term
}

// store: m[k] = v. Keys are compared as terms (all names are SSA, so equal terms are equal values);
// keys with different terms are kept apart — whether they collide at run time is not decided here,
// the caller accepts only maps with exactly one entry.
func (m *kmap) store(k, v kvalue) {
	for i := range m.entries {
		if kSameKey(m.entries[i].key, k) {
			m.entries[i].val = v
			return
		}
	}
	m.entries = append(m.entries, kentry{k, v})
}

// conform checks v against the declared Go type ts (untyped constants get the type)
func (f *kframe) conform(v kvalue, ts string, at ast.Node) (kvalue, error) {
	b := f.b
	bad := func(what string) (kvalue, error) {
		return kvalue{}, fmt.Errorf("%s: %s required", b.pos(at), what)
	}
	if t, ok := b.typeNames[ts]; ok {
		if v.kind != vInt {
			return bad("a value of type " + ts)
		}
		iv, err := b.asTyped(v.i, t, at)
		return kInt(iv), err
	}
	switch ts {
	case kTyEO:
		if v.kind != vEO {
			return bad("a kgo.EpochOffset")
		}
	case kTyString:
		if v.kind != vTopic {
			return bad("a string of the form " + f.recv + ".config.Topics[i] (the only strings of the fragment)")
		}
	case kTyInner, kTyOuter:
		if v.kind != vMap || v.m.ty != ts {
			return bad("a " + ts)
		}
	case kTyEvent:
		if v.kind != vEvent {
			return bad("the *pipeline.Event")
		}
	case kTyRecord:
		if v.kind != vRecord {
			return bad("the *kgo.Record")
		}
	default:
		return kvalue{}, fmt.Errorf("%s: unsupported type %s", b.pos(at), ts)
	}
	return v, nil
}

// zero value of a declared type
func (f *kframe) zero(ts string, at ast.Node) (kvalue, error) {
	if t, ok := f.b.typeNames[ts]; ok {
		return kInt(kval{term: "0", ty: t}), nil
	}
	if ts == kTyEO {
		return kvalue{kind: vEO, off: "0", epoch: "0"}, nil
	}
	return kvalue{}, fmt.Errorf("%s: zero value of type %s is not in the fragment", f.b.pos(at), ts)
}

// bind gives the value of Go variable `name` (or field path) fresh Gallina names
func (f *kframe) bind(name string, v kvalue, at ast.Node) (kvalue, error) {
	b := f.b
	switch v.kind {
	case vInt:
		if v.i.ty == "" {
			return v, fmt.Errorf("%s: internal: untyped value bound to %s", b.pos(at), name)
		}
		n := b.fresh(f.prefix + name)
		b.let(n, v.i.term)
		return kInt(kval{term: n, ty: v.i.ty}), nil // a variable is not a constant
	case vEO:
		no, ne := b.fresh(f.prefix+name+"_Offset"), b.fresh(f.prefix+name+"_Epoch")
		b.let(no, v.off)
		b.let(ne, v.epoch)
		return kvalue{kind: vEO, off: no, epoch: ne}, nil
	case vTopic:
		n := b.fresh(f.prefix + name)
		b.let(n, v.idx)
		return kvalue{kind: vTopic, idx: n}, nil
	}
	return v, nil // maps, the event, the record, the receiver: references
}

// ---- calls ---------------------------------------------------------------------------------

func kCallName(x ast.Expr) string { // p.client.MarkCommitOffsets -> "p.client.MarkCommitOffsets"
	switch t := x.(type) {
	case *ast.Ident:
		return t.Name
	case *ast.SelectorExpr:
		return kCallName(t.X) + "." + t.Sel.Name
	}
	return "?"
}

func (f *kframe) shadowed(name string) bool {
	if _, ok := f.vars[name]; ok {
		return true
	}
	_, ok := f.lconsts[name]
	return ok
}

func (f *kframe) call(n *ast.CallExpr) ([]kvalue, error) {
	b := f.b
	if n.Ellipsis.IsValid() {
		return nil, fmt.Errorf("%s: variadic call", b.pos(n))
	}
	fn := kTypeString(n.Fun)
	// conversion T(x)
	if t, ok := b.typeNames[fn]; ok && !f.shadowed(fn) {
		if len(n.Args) != 1 {
			return nil, fmt.Errorf("%s: conversion to %s takes one operand", b.pos(n), fn)
		}
		v, err := f.intExpr(n.Args[0])
		if err != nil {
			return nil, err
		}
		if v.c != nil { // constant conversion: the constant must be representable (Go)
			if !kFits(v.c, t) {
				return nil, fmt.Errorf("%s: constant %s overflows %s", b.pos(n), v.c, t)
			}
			return []kvalue{kInt(kConstVal(v.c, t))}, nil
		}
		return []kvalue{kInt(kval{term: fmt.Sprintf("(go_conv %s %s)", t, v.term), ty: t})}, nil
	}
	if id, ok := n.Fun.(*ast.Ident); ok && !f.shadowed(id.Name) {
		switch {
		case id.Name == "make":
			if len(n.Args) < 1 || len(n.Args) > 2 {
				return nil, fmt.Errorf("%s: unsupported make", b.pos(n))
			}
			ts := kTypeString(n.Args[0])
			if ts != kTyInner && ts != kTyOuter {
				return nil, fmt.Errorf("%s: make of unsupported type %s", b.pos(n), ts)
			}
			if len(n.Args) == 2 { // size hint: any integer expression of the fragment, no effect on the contents
				if _, err := f.intExpr(n.Args[1]); err != nil {
					return nil, err
				}
			}
			return []kvalue{{kind: vMap, m: &kmap{ty: ts}}}, nil
		case b.gen[id.Name]:
			return f.callGen(b.funcs[id.Name], n)
		case b.funcs[id.Name] != nil:
			return f.inline(b.funcs[id.Name], "", n)
		}
	}
	if sel, ok := n.Fun.(*ast.SelectorExpr); ok {
		if id, ok := sel.X.(*ast.Ident); ok && f.isRecv(id.Name) && b.methods[sel.Sel.Name] != nil {
			if sel.Sel.Name == "Commit" {
				return nil, fmt.Errorf("%s: call of Commit", b.pos(n))
			}
			return f.inline(b.methods[sel.Sel.Name], id.Name, n)
		}
	}
	return nil, fmt.Errorf("%s: unsupported call of %s", b.pos(n), kCallName(n.Fun))
}

type kparam struct {
	name string
	ts   string
}

func kParams(fl *ast.FieldList) (ps []kparam, named bool) {
	if fl == nil {
		return nil, false
	}
	for _, fld := range fl.List {
		ts := kTypeString(fld.Type)
		if len(fld.Names) == 0 {
			ps = append(ps, kparam{"", ts})
		}
		for _, nm := range fld.Names {
			ps = append(ps, kparam{nm.Name, ts})
			named = true
		}
	}
	return ps, named
}

func (f *kframe) args(n *ast.CallExpr, params []kparam, callee string) ([]kvalue, error) {
	b := f.b
	if len(n.Args) != len(params) {
		return nil, fmt.Errorf("%s: %s takes %d arguments", b.pos(n), callee, len(params))
	}
	var out []kvalue
	for i, a := range n.Args {
		v, err := f.expr(a)
		if err != nil {
			return nil, err
		}
		if v, err = f.conform(v, params[i].ts, a); err != nil {
			return nil, err
		}
		out = append(out, v)
	}
	return out, nil
}

// callGen: a call of one of the four packing functions becomes a reference to its gen_ definition
func (f *kframe) callGen(fd *ast.FuncDecl, n *ast.CallExpr) ([]kvalue, error) {
	b := f.b
	params, _ := kParams(fd.Type.Params)
	args, err := f.args(n, params, fd.Name.Name)
	if err != nil {
		return nil, err
	}
	term := "(gen_" + fd.Name.Name
	for _, a := range args {
		switch a.kind {
		case vInt:
			term += " " + a.i.term
		case vRecord:
			term += " " + a.prefix + "_Offset " + a.prefix + "_LeaderEpoch"
		default:
			return nil, fmt.Errorf("%s: unsupported argument kind for %s", b.pos(n), fd.Name.Name)
		}
	}
	term += ")"
	r := b.fresh(f.prefix + fd.Name.Name + "_res")
	b.let(r, term)
	results, _ := kParams(fd.Type.Results)
	comps := 0
	for _, rp := range results {
		if rp.ts == kTyEO {
			comps += 2
		} else if _, ok := b.typeNames[rp.ts]; ok {
			comps++
		} else {
			return nil, fmt.Errorf("%s: unsupported result type %s of %s", b.pos(n), rp.ts, fd.Name.Name)
		}
	}
	var cterms []string
	switch comps {
	case 1:
		cterms = []string{r}
	case 2:
		cterms = []string{"(fst " + r + ")", "(snd " + r + ")"}
	default:
		return nil, fmt.Errorf("%s: %s has %d result components", b.pos(n), fd.Name.Name, comps)
	}
	var out []kvalue
	k := 0
	for _, rp := range results {
		if rp.ts == kTyEO {
			out = append(out, kvalue{kind: vEO, off: cterms[k], epoch: cterms[k+1]})
			k += 2
		} else {
			out = append(out, kInt(kval{term: cterms[k], ty: b.typeNames[rp.ts]}))
			k++
		}
	}
	return out, nil
}

// inline executes the body of a helper function / method of *Plugin in a new frame
func (f *kframe) inline(fd *ast.FuncDecl, recvArg string, n *ast.CallExpr) ([]kvalue, error) {
	b := f.b
	name := fd.Name.Name
	for _, s := range b.stack {
		if s == name {
			return nil, fmt.Errorf("%s: recursive call of %s", b.pos(n), name)
		}
	}
	if len(b.stack) > 8 {
		return nil, fmt.Errorf("%s: helper calls nested too deeply", b.pos(n))
	}
	if fd.Type.TypeParams != nil {
		return nil, fmt.Errorf("%s: generic function %s", b.pos(n), name)
	}
	params, _ := kParams(fd.Type.Params)
	args, err := f.args(n, params, name)
	if err != nil {
		return nil, err
	}
	b.stack = append(b.stack, name)
	defer func() { b.stack = b.stack[:len(b.stack)-1] }()
	g := &kframe{b: b, vars: map[string]*kvar{}, lconsts: map[string]kval{}, prefix: name + "_"}
	if fd.Recv != nil {
		if recvArg == "" || len(fd.Recv.List) != 1 || len(fd.Recv.List[0].Names) != 1 {
			return nil, fmt.Errorf("%s: unsupported receiver of %s", b.pos(n), name)
		}
		g.recv = fd.Recv.List[0].Names[0].Name
		g.vars[g.recv] = &kvar{val: kvalue{kind: vRecv}}
	}
	for i, p := range params {
		if p.name == "" || p.name == "_" {
			continue
		}
		v, err := g.bind(p.name, args[i], n)
		if err != nil {
			return nil, err
		}
		g.vars[p.name] = &kvar{val: v}
	}
	return g.run(fd)
}

// ---- statements ----------------------------------------------------------------------------

// run executes the body of fd in frame f (parameters are already bound) and returns the results
func (f *kframe) run(fd *ast.FuncDecl) ([]kvalue, error) {
	b := f.b
	results, named := kParams(fd.Type.Results)
	if named {
		for _, r := range results {
			if r.name == "" || r.name == "_" {
				return nil, fmt.Errorf("%s: unnamed result among named ones", b.pos(fd))
			}
			z, err := f.zero(r.ts, fd)
			if err != nil {
				return nil, err
			}
			if z, err = f.bind(r.name, z, fd); err != nil {
				return nil, err
			}
			f.vars[r.name] = &kvar{val: z}
		}
	}
	if fd.Body == nil {
		return nil, fmt.Errorf("%s: %s has no body", b.pos(fd), fd.Name.Name)
	}
	last := len(fd.Body.List) - 1
	for i, st := range fd.Body.List {
		switch s := st.(type) {
		case *ast.EmptyStmt:
		case *ast.AssignStmt:
			if err := f.assign(s); err != nil {
				return nil, err
			}
		case *ast.IncDecStmt:
			op := token.ADD
			if s.Tok == token.DEC {
				op = token.SUB
			}
			if err := f.opAssign(s, s.X, op, &ast.BasicLit{ValuePos: s.Pos(), Kind: token.INT, Value: "1"}); err != nil {
				return nil, err
			}
		case *ast.DeclStmt:
			if err := f.decl(s); err != nil {
				return nil, err
			}
		case *ast.ExprStmt:
			call, ok := s.X.(*ast.CallExpr)
			if !ok || !f.top || f.recv == "" || !f.isRecv(f.recv) || kCallName(call.Fun) != f.recv+".client.MarkCommitOffsets" {
				return nil, fmt.Errorf("%s: unsupported expression statement (only the final %s.client.MarkCommitOffsets(...) of Commit)", b.pos(s), f.recv)
			}
			if i != last {
				return nil, fmt.Errorf("%s: MarkCommitOffsets is not the last statement of Commit", b.pos(s))
			}
			if len(call.Args) != 1 || call.Ellipsis.IsValid() {
				return nil, fmt.Errorf("%s: MarkCommitOffsets takes one argument", b.pos(s))
			}
			v, err := f.expr(call.Args[0])
			if err != nil {
				return nil, err
			}
			if v, err = f.conform(v, kTyOuter, call.Args[0]); err != nil {
				return nil, err
			}
			b.effect = &v
			if len(results) != 0 {
				return nil, fmt.Errorf("%s: Commit has results", b.pos(fd))
			}
			return nil, nil
		case *ast.ReturnStmt:
			if i != last {
				return nil, fmt.Errorf("%s: return is not the last statement", b.pos(s))
			}
			if len(s.Results) == 0 {
				if len(results) != 0 && !named {
					return nil, fmt.Errorf("%s: bare return without named results", b.pos(s))
				}
				var out []kvalue
				for _, r := range results {
					out = append(out, f.vars[r.name].val)
				}
				return out, nil
			}
			var vals []kvalue
			if call, ok := s.Results[0].(*ast.CallExpr); ok && len(s.Results) == 1 && len(results) != 1 {
				vs, err := f.call(call) // return f(..) passing several values through
				if err != nil {
					return nil, err
				}
				vals = vs
			} else {
				for _, rx := range s.Results {
					v, err := f.expr(rx)
					if err != nil {
						return nil, err
					}
					vals = append(vals, v)
				}
			}
			if len(vals) != len(results) {
				return nil, fmt.Errorf("%s: wrong number of results", b.pos(s))
			}
			for k := range vals {
				v, err := f.conform(vals[k], results[k].ts, s)
				if err != nil {
					return nil, err
				}
				vals[k] = v
			}
			return vals, nil
		default:
			return nil, fmt.Errorf("%s: unsupported statement %T", b.pos(st), st)
		}
	}
	if len(results) != 0 {
		return nil, fmt.Errorf("%s: %s: no return statement", b.pos(fd), fd.Name.Name)
	}
	return nil, nil
}

var kOpAssign = map[token.Token]token.Token{
	token.ADD_ASSIGN: token.ADD, token.SUB_ASSIGN: token.SUB, token.MUL_ASSIGN: token.MUL,
	token.SHL_ASSIGN: token.SHL, token.SHR_ASSIGN: token.SHR, token.AND_ASSIGN: token.AND, token.OR_ASSIGN: token.OR,
}

func (f *kframe) opAssign(at ast.Node, lhs ast.Expr, op token.Token, rhs ast.Expr) error {
	l, err := f.intExpr(lhs)
	if err != nil {
		return err
	}
	r, err := f.intExpr(rhs)
	if err != nil {
		return err
	}
	v, err := f.binary(at, op, l, r)
	if err != nil {
		return err
	}
	return f.store(lhs, kInt(v), false, at)
}

func (f *kframe) assign(s *ast.AssignStmt) error {
	b := f.b
	if op, ok := kOpAssign[s.Tok]; ok {
		if len(s.Lhs) != 1 || len(s.Rhs) != 1 {
			return fmt.Errorf("%s: unsupported assignment", b.pos(s))
		}
		return f.opAssign(s, s.Lhs[0], op, s.Rhs[0])
	}
	if s.Tok != token.DEFINE && s.Tok != token.ASSIGN {
		return fmt.Errorf("%s: unsupported assignment operator %s", b.pos(s), s.Tok)
	}
	var vals []kvalue
	if call, ok := s.Rhs[0].(*ast.CallExpr); ok && len(s.Rhs) == 1 && len(s.Lhs) > 1 {
		vs, err := f.call(call)
		if err != nil {
			return err
		}
		vals = vs
	} else {
		for _, rx := range s.Rhs { // all right-hand sides first (parallel assignment)
			v, err := f.expr(rx)
			if err != nil {
				return err
			}
			vals = append(vals, v)
		}
	}
	if len(vals) != len(s.Lhs) {
		return fmt.Errorf("%s: %d values assigned to %d targets", b.pos(s), len(vals), len(s.Lhs))
	}
	if s.Tok == token.DEFINE {
		fresh := false
		for _, lx := range s.Lhs {
			id, ok := lx.(*ast.Ident)
			if !ok {
				return fmt.Errorf("%s: target of := is not an identifier", b.pos(s))
			}
			if _, ok := f.vars[id.Name]; !ok && id.Name != "_" {
				fresh = true
			}
		}
		if !fresh {
			return fmt.Errorf("%s: no new variable on the left of :=", b.pos(s))
		}
	}
	for k, lx := range s.Lhs {
		if err := f.store(lx, vals[k], s.Tok == token.DEFINE, s); err != nil {
			return err
		}
	}
	return nil
}

// store assigns v to the target lhs: identifier, field of a local EpochOffset, element of a local map
func (f *kframe) store(lhs ast.Expr, v kvalue, define bool, at ast.Node) error {
	b := f.b
	switch t := lhs.(type) {
	case *ast.ParenExpr:
		return f.store(t.X, v, define, at)
	case *ast.Ident:
		if t.Name == "_" {
			return nil
		}
		if _, ok := f.lconsts[t.Name]; ok {
			return fmt.Errorf("%s: assignment to constant %s", b.pos(at), t.Name)
		}
		cur, exists := f.vars[t.Name]
		if !exists {
			if !define {
				return fmt.Errorf("%s: assignment to undeclared %s", b.pos(at), t.Name)
			}
			if v.kind == vInt && v.i.ty == "" { // x := const has type int
				iv, err := b.asTyped(v.i, kI64, at)
				if err != nil {
					return err
				}
				v = kInt(iv)
			}
			if v.kind == vRecv {
				return fmt.Errorf("%s: copy of the receiver", b.pos(at))
			}
			nv, err := f.bind(t.Name, v, at)
			if err != nil {
				return err
			}
			f.vars[t.Name] = &kvar{val: nv}
			return nil
		}
		if cur.val.kind != v.kind {
			return fmt.Errorf("%s: assignment changes the kind of %s", b.pos(at), t.Name)
		}
		switch v.kind {
		case vInt:
			iv, err := b.asTyped(v.i, cur.val.i.ty, at)
			if err != nil {
				return err
			}
			v = kInt(iv)
		case vMap:
			if cur.val.m.ty != v.m.ty {
				return fmt.Errorf("%s: assignment changes the map type of %s", b.pos(at), t.Name)
			}
		case vRecv, vEvent, vRecord:
			return fmt.Errorf("%s: assignment to %s", b.pos(at), t.Name)
		}
		nv, err := f.bind(t.Name, v, at)
		if err != nil {
			return err
		}
		cur.val = nv
		return nil
	case *ast.SelectorExpr:
		id, ok := t.X.(*ast.Ident)
		if !ok || define {
			return fmt.Errorf("%s: unsupported assignment target", b.pos(at))
		}
		cur, exists := f.vars[id.Name]
		if !exists || cur.val.kind != vEO {
			return fmt.Errorf("%s: field assignment to %s, which is not a local kgo.EpochOffset", b.pos(at), kCallName(t))
		}
		want := map[string]kty{"Offset": kI64, "Epoch": kI32}[t.Sel.Name]
		if want == "" || v.kind != vInt {
			return fmt.Errorf("%s: unsupported field assignment %s", b.pos(at), kCallName(t))
		}
		iv, err := b.asTyped(v.i, want, at)
		if err != nil {
			return err
		}
		n := b.fresh(f.prefix + id.Name + "_" + t.Sel.Name)
		b.let(n, iv.term)
		if t.Sel.Name == "Offset" {
			cur.val.off = n
		} else {
			cur.val.epoch = n
		}
		return nil
	case *ast.IndexExpr:
		id, ok := t.X.(*ast.Ident)
		if !ok || define {
			return fmt.Errorf("%s: unsupported assignment target", b.pos(at))
		}
		cur, exists := f.vars[id.Name]
		if !exists || cur.val.kind != vMap {
			return fmt.Errorf("%s: index assignment to %s, which is not a local map", b.pos(at), id.Name)
		}
		kt, et := kMapTypes(cur.val.m.ty)
		k, err := f.expr(t.Index)
		if err != nil {
			return err
		}
		if k, err = f.conform(k, kt, t.Index); err != nil {
			return err
		}
		if v, err = f.conform(v, et, at); err != nil {
			return err
		}
		// the stored terms are SSA names or closed terms over them: they keep their meaning
		cur.val.m.store(k, v)
		return nil
	}
	return fmt.Errorf("%s: unsupported assignment target %T", b.pos(at), lhs)
}

func (f *kframe) decl(s *ast.DeclStmt) error {
	b := f.b
	gd, ok := s.Decl.(*ast.GenDecl)
	if !ok {
		return fmt.Errorf("%s: unsupported declaration", b.pos(s))
	}
	for _, sp := range gd.Specs {
		vs, ok := sp.(*ast.ValueSpec)
		if !ok {
			return fmt.Errorf("%s: unsupported declaration", b.pos(s))
		}
		switch gd.Tok {
		case token.CONST:
			for i, nm := range vs.Names {
				v, err := b.constSpec(vs, i, f)
				if err != nil {
					return err
				}
				if nm.Name == "_" {
					continue
				}
				if _, ok := f.vars[nm.Name]; ok {
					return fmt.Errorf("%s: %s redeclared", b.pos(vs), nm.Name)
				}
				f.lconsts[nm.Name] = v
			}
		case token.VAR:
			if len(vs.Values) != 0 && len(vs.Values) != len(vs.Names) {
				return fmt.Errorf("%s: unsupported var declaration", b.pos(vs))
			}
			var vals []kvalue
			for i := range vs.Names {
				var v kvalue
				var err error
				if len(vs.Values) == 0 {
					if vs.Type == nil {
						return fmt.Errorf("%s: var without type and value", b.pos(vs))
					}
					v, err = f.zero(kTypeString(vs.Type), vs)
				} else {
					if v, err = f.expr(vs.Values[i]); err == nil && vs.Type != nil {
						v, err = f.conform(v, kTypeString(vs.Type), vs.Values[i])
					}
				}
				if err != nil {
					return err
				}
				vals = append(vals, v)
			}
			for i, nm := range vs.Names {
				if _, ok := f.vars[nm.Name]; ok {
					return fmt.Errorf("%s: %s redeclared", b.pos(vs), nm.Name)
				}
				if _, ok := f.lconsts[nm.Name]; ok {
					return fmt.Errorf("%s: %s redeclared", b.pos(vs), nm.Name)
				}
				if err := f.store(nm, vals[i], true, vs); err != nil {
					return err
				}
			}
		default:
			return fmt.Errorf("%s: unsupported declaration", b.pos(s))
		}
	}
	return nil
}

// ---- definitions ---------------------------------------------------------------------------

func (b *kbuild) reset() {
	b.lets, b.stack, b.effect, b.topics = nil, nil, nil, 0
	b.used = map[string]bool{}
	for _, r := range kReserved {
		b.used[r] = true
	}
}

func (b *kbuild) body() string {
	s := strings.Join(b.lets, "\n")
	if s != "" {
		s += "\n"
	}
	return s
}

// kFunc translates one packing function. Returns the Coq definition text.
func (b *kbuild) kFunc(fd *ast.FuncDecl) (string, error) {
	b.reset()
	b.stack = []string{fd.Name.Name}
	f := &kframe{b: b, vars: map[string]*kvar{}, lconsts: map[string]kval{}}
	var coqParams []string
	params, _ := kParams(fd.Type.Params)
	if fd.Type.TypeParams != nil {
		return "", fmt.Errorf("%s: generic function %s", b.pos(fd), fd.Name.Name)
	}
	for _, p := range params {
		if p.name == "" || p.name == "_" {
			return "", fmt.Errorf("%s: %s: unnamed parameter", b.pos(fd), fd.Name.Name)
		}
		if b.used[p.name] || b.used[p.name+"_Offset"] || b.used[p.name+"_LeaderEpoch"] {
			return "", fmt.Errorf("%s: %s: parameter name %s is not usable in the generated definition", b.pos(fd), fd.Name.Name, p.name)
		}
		if p.ts == kTyRecord {
			f.vars[p.name] = &kvar{val: kvalue{kind: vRecord, prefix: p.name}}
			b.used[p.name+"_Offset"], b.used[p.name+"_LeaderEpoch"] = true, true
			coqParams = append(coqParams, p.name+"_Offset", p.name+"_LeaderEpoch")
			continue
		}
		t, ok := b.typeNames[p.ts]
		if !ok {
			return "", fmt.Errorf("%s: %s: parameter %s has unsupported type %s", b.pos(fd), fd.Name.Name, p.name, p.ts)
		}
		b.used[p.name] = true
		f.vars[p.name] = &kvar{val: kInt(kval{term: p.name, ty: t})}
		coqParams = append(coqParams, p.name)
	}
	if fd.Type.Results == nil {
		return "", fmt.Errorf("%s: %s: no result", b.pos(fd), fd.Name.Name)
	}
	vals, err := f.run(fd)
	if err != nil {
		return "", err
	}
	var comps []string
	for _, v := range vals {
		switch v.kind {
		case vInt:
			comps = append(comps, v.i.term)
		case vEO:
			comps = append(comps, v.off, v.epoch)
		default:
			return "", fmt.Errorf("%s: %s: unsupported result kind", b.pos(fd), fd.Name.Name)
		}
	}
	retTy, res := "Z", ""
	switch len(comps) {
	case 1:
		res = comps[0]
	case 2:
		retTy, res = "Z * Z", "("+comps[0]+", "+comps[1]+")"
	default:
		return "", fmt.Errorf("%s: %s: %d result components", b.pos(fd), fd.Name.Name, len(comps))
	}
	return fmt.Sprintf("Definition gen_%s (%s : Z) : %s :=\n%s  %s.\n", fd.Name.Name, strings.Join(coqParams, " "), retTy, b.body(), res), nil
}

// kCommit executes Plugin.Commit symbolically and reads the marked position off the argument of
// p.client.MarkCommitOffsets, which must be the map { p.config.Topics[i]: { partition: EpochOffset } }.
func (b *kbuild) kCommit(fd *ast.FuncDecl) (string, error) {
	b.reset()
	b.stack = []string{"Commit"}
	params, _ := kParams(fd.Type.Params)
	if len(params) != 1 || params[0].ts != kTyEvent || params[0].name == "" || params[0].name == "_" {
		return "", fmt.Errorf("%s: Commit: one named parameter of type *pipeline.Event expected", b.pos(fd))
	}
	if fd.Type.Results != nil && len(fd.Type.Results.List) != 0 {
		return "", fmt.Errorf("%s: Commit has results", b.pos(fd))
	}
	const evp = "event" // Coq parameters event_SourceID event_Offset, whatever the Go parameter is called
	b.used[evp+"_SourceID"], b.used[evp+"_Offset"] = true, true
	f := &kframe{b: b, vars: map[string]*kvar{}, lconsts: map[string]kval{}, top: true}
	f.recv = fd.Recv.List[0].Names[0].Name
	f.vars[f.recv] = &kvar{val: kvalue{kind: vRecv}}
	f.vars[params[0].name] = &kvar{val: kvalue{kind: vEvent, prefix: evp}}
	if _, err := f.run(fd); err != nil {
		return "", err
	}
	if b.effect == nil {
		return "", fmt.Errorf("%s: Commit does not end with %s.client.MarkCommitOffsets(...)", b.pos(fd), f.recv)
	}
	if b.topics != 1 { // the model has exactly one index-out-of-range site
		return "", fmt.Errorf("%s: Commit reads %s.config.Topics[...] %d times (every read can panic; exactly one expected)", b.pos(fd), f.recv, b.topics)
	}
	outer := b.effect.m
	if len(outer.entries) != 1 {
		return "", fmt.Errorf("%s: Commit: the map passed to MarkCommitOffsets has %d topic entries that may be distinct (exactly one expected)", b.pos(fd), len(outer.entries))
	}
	topic, inner := outer.entries[0].key, outer.entries[0].val.m
	if len(inner.entries) != 1 {
		return "", fmt.Errorf("%s: Commit: the partition map passed to MarkCommitOffsets has %d entries that may be distinct (exactly one expected)", b.pos(fd), len(inner.entries))
	}
	part, eo := inner.entries[0].key, inner.entries[0].val
	return fmt.Sprintf(`(* Plugin.Commit, executed symbolically (helpers inlined): MarkCommitOffsets({ Topics[i]: { partition: EpochOffset } }).
   Result: (topic index i, partition key, (Offset, Epoch) to mark) *)
Definition gen_commit_target (event_SourceID event_Offset : Z) : Z * Z * (Z * Z) :=
%s  (%s, %s, (%s, %s)).
`, b.body(), topic.idx, part.i.term, eo.off, eo.epoch), nil
}

func kHasCall(root ast.Node, name string) bool {
	found := false
	ast.Inspect(root, func(n ast.Node) bool {
		if c, ok := n.(*ast.CallExpr); ok && kCallName(c.Fun) == name {
			found = true
		}
		return true
	})
	return found
}

func genKafka(repo string) (string, string, error) {
	fset := token.NewFileSet()
	dir := filepath.Join(repo, "plugin", "input", "kafka")
	f, err := parser.ParseFile(fset, filepath.Join(dir, "kafka.go"), nil, 0)
	if err != nil {
		return "", "", err
	}
	// pipeline.SourceID must be an unsigned 64-bit integer
	typeNames := kIntTypeNames()
	srcIDFound := false
	pfiles, _ := filepath.Glob(filepath.Join(repo, "pipeline", "*.go"))
	sort.Strings(pfiles)
	for _, pf := range pfiles {
		if strings.HasSuffix(pf, "_test.go") {
			continue
		}
		src, err := os.ReadFile(pf)
		if err != nil || !strings.Contains(string(src), "SourceID") {
			continue
		}
		af, err := parser.ParseFile(fset, pf, src, 0)
		if err != nil {
			continue
		}
		for _, d := range af.Decls {
			gd, ok := d.(*ast.GenDecl)
			if !ok || gd.Tok != token.TYPE {
				continue
			}
			for _, sp := range gd.Specs {
				ts := sp.(*ast.TypeSpec)
				if ts.Name.Name == "SourceID" {
					under := kTypeString(ts.Type)
					if under != "uint64" {
						return "", "", fmt.Errorf("pipeline.SourceID is %s, the translator knows only uint64", under)
					}
					srcIDFound = true
				}
			}
		}
	}
	if !srcIDFound {
		return "", "", fmt.Errorf("type pipeline.SourceID not found")
	}
	typeNames["pipeline.SourceID"] = kU64

	want := []string{"assembleSourceID", "disassembleSourceID", "assembleOffset", "disassembleOffset"}
	b := &kbuild{fset: fset, typeNames: typeNames, consts: map[string]*kconst{},
		funcs: map[string]*ast.FuncDecl{}, methods: map[string]*ast.FuncDecl{}, gen: map[string]bool{}}
	var commit, start *ast.FuncDecl
	for _, d := range f.Decls {
		switch dd := d.(type) {
		case *ast.GenDecl:
			switch dd.Tok {
			case token.CONST:
				for _, sp := range dd.Specs {
					vs := sp.(*ast.ValueSpec)
					for i, nm := range vs.Names {
						b.consts[nm.Name] = &kconst{spec: vs, pos: i}
					}
				}
			case token.TYPE: // a package-level type that redefines a name of the fragment would change its meaning
				for _, sp := range dd.Specs {
					ts := sp.(*ast.TypeSpec)
					if _, ok := typeNames[ts.Name.Name]; ok {
						return "", "", fmt.Errorf("%s: kafka.go redefines the type name %s", fset.Position(ts.Pos()), ts.Name.Name)
					}
				}
			}
		case *ast.FuncDecl:
			if dd.Body == nil {
				continue
			}
			if dd.Recv == nil {
				b.funcs[dd.Name.Name] = dd
				continue
			}
			if len(dd.Recv.List) == 1 && kTypeString(dd.Recv.List[0].Type) == "*Plugin" && len(dd.Recv.List[0].Names) == 1 {
				b.methods[dd.Name.Name] = dd
				switch dd.Name.Name {
				case "Commit":
					commit = dd
				case "Start":
					start = dd
				}
			}
		}
	}
	var out strings.Builder
	out.WriteString(`(* GENERATED from /repo/plugin/input/kafka/{kafka.go,client.go} by harness/gen (translator "kafka") — do not edit.
   Bodies of the packing functions in the integer operators of Model/KafkaInt.v; Go int = I64.
   Every assignment of a Go variable has its own name (x, x_1, x_2 ...). *)
From Coq Require Import ZArith.
From Verif Require Import Model.KafkaInt.
Open Scope Z_scope.

`)
	for _, name := range want {
		if b.funcs[name] == nil {
			return "", "", fmt.Errorf("function %s not found in kafka.go", name)
		}
		b.gen[name] = true
	}
	for _, name := range want {
		def, err := b.kFunc(b.funcs[name])
		if err != nil {
			return "", "", err
		}
		out.WriteString(def + "\n")
	}
	if commit == nil || start == nil {
		return "", "", fmt.Errorf("Plugin.Commit / Plugin.Start not found")
	}
	cdef, err := b.kCommit(commit)
	if err != nil {
		return "", "", err
	}
	out.WriteString(cdef + "\n")

	// client.go: NewClient passes kgo.AutoCommitMarks()
	cf, err := parser.ParseFile(fset, filepath.Join(dir, "client.go"), nil, 0)
	if err != nil {
		return "", "", err
	}
	var newClient *ast.FuncDecl
	for _, d := range cf.Decls {
		if fd, ok := d.(*ast.FuncDecl); ok && fd.Recv == nil && fd.Name.Name == "NewClient" {
			newClient = fd
		}
	}
	if newClient == nil {
		return "", "", fmt.Errorf("NewClient not found in client.go")
	}
	marks := kHasCall(newClient, "kgo.AutoCommitMarks") && !kHasCall(newClient, "kgo.DisableAutoCommit")
	recvName := start.Recv.List[0].Names[0].Name
	spread := kHasCall(start, recvName+".controller.UseSpread") && kHasCall(start, recvName+".controller.DisableStreams")
	fmt.Fprintf(&out, "(* NewClient passes kgo.AutoCommitMarks() (and not kgo.DisableAutoCommit()) *)\nDefinition gen_autocommit_marks : bool := %v.\n\n", marks)
	fmt.Fprintf(&out, "(* Start calls controller.UseSpread() and controller.DisableStreams() *)\nDefinition gen_use_spread : bool := %v.\n", spread)
	return "KafkaGen.v", out.String(), nil
}
