package main

// Translator "kafka" (property C10): reads plugin/input/kafka/kafka.go (+ client.go, pipeline/*.go for
// the SourceID type) and emits Gen/KafkaGen.v:
//   gen_assembleSourceID / gen_disassembleSourceID / gen_assembleOffset / gen_disassembleOffset
//       the bodies of the four packing functions, translated expression by expression into the
//       fixed-width integer operators of coq/Model/KafkaInt.v (go_shl, go_shr, go_and, go_add,
//       go_conv ...), with the operand types inferred from the Go declarations; every shift width,
//       mask and the `+ 1` therefore comes from the source text;
//   gen_commit_target   the data flow of Plugin.Commit (which unpacked value becomes the topic
//       index, the partition key and the marked EpochOffset) — recognised by shape, refused otherwise;
//   gen_autocommit_marks   NewClient passes kgo.AutoCommitMarks() (without it MarkCommitOffsets is a
//       no-op and kgo would auto-commit everything polled);
//   gen_use_spread      Start calls UseSpread() and DisableStreams() (input to the frontier clause).
// Supported Go fragment: straight-line `x := e` / `x = e` / `return`, integer expressions over
// + - << >> & |, conversions to int/int32/int64/uint64/pipeline.SourceID, integer literals,
// parameters, `message.Offset` / `message.LeaderEpoch`, the composite literal kgo.EpochOffset{...}.
// Anything else makes the translator fail (the tie is then reported broken).

import (
	"fmt"
	"go/ast"
	"go/parser"
	"go/token"
	"math/big"
	"os"
	"path/filepath"
	"sort"
	"strings"
)

func init() { gens["kafka"] = genKafka }

// integer types of the fragment; "" = untyped constant
type kty string

const (
	kI32 kty = "I32"
	kI64 kty = "I64"
	kU64 kty = "U64"
)

type kval struct {
	term string   // Coq term
	ty   kty      // "" for an untyped constant
	c    *big.Int // value of an untyped constant
}

type kenv struct {
	vars      map[string]kty    // local variables / parameters
	recParams map[string]bool   // parameters of type *kgo.Record
	typeNames map[string]kty    // conversions: rendered type expression -> ity
	fset      *token.FileSet
}

func (e *kenv) pos(n ast.Node) string { return e.fset.Position(n.Pos()).String() }

func kTypeString(x ast.Expr) string {
	switch t := x.(type) {
	case *ast.Ident:
		return t.Name
	case *ast.SelectorExpr:
		return kTypeString(t.X) + "." + t.Sel.Name
	case *ast.StarExpr:
		return "*" + kTypeString(t.X)
	}
	return "?"
}

func kLit(c *big.Int) string {
	if c.Sign() < 0 {
		return "(" + c.String() + ")"
	}
	return c.String()
}

func kFits(c *big.Int, t kty) bool {
	lo, hi := new(big.Int), new(big.Int)
	switch t {
	case kI32:
		lo.SetInt64(-1 << 31)
		hi.SetInt64(1<<31 - 1)
	case kI64:
		lo.SetInt64(-1 << 63)
		hi.SetInt64(1<<63 - 1)
	case kU64:
		lo.SetInt64(0)
		hi.SetUint64(^uint64(0))
	}
	return c.Cmp(lo) >= 0 && c.Cmp(hi) <= 0
}

// asTyped gives an untyped constant the type t (Go: the constant must be representable in t)
func (e *kenv) asTyped(v kval, t kty, at ast.Node) (kval, error) {
	if v.ty != "" {
		if v.ty != t {
			return v, fmt.Errorf("%s: operand of type %s where %s is required", e.pos(at), v.ty, t)
		}
		return v, nil
	}
	if !kFits(v.c, t) {
		return v, fmt.Errorf("%s: constant %s overflows %s", e.pos(at), v.c, t)
	}
	return kval{term: kLit(v.c), ty: t}, nil
}

func (e *kenv) expr(x ast.Expr) (kval, error) {
	switch n := x.(type) {
	case *ast.ParenExpr:
		return e.expr(n.X)
	case *ast.BasicLit:
		if n.Kind != token.INT {
			return kval{}, fmt.Errorf("%s: literal %s is not an integer", e.pos(n), n.Value)
		}
		c, ok := new(big.Int).SetString(strings.ReplaceAll(n.Value, "_", ""), 0)
		if !ok {
			return kval{}, fmt.Errorf("%s: cannot read integer literal %s", e.pos(n), n.Value)
		}
		return kval{c: c}, nil
	case *ast.Ident:
		t, ok := e.vars[n.Name]
		if !ok {
			return kval{}, fmt.Errorf("%s: unknown identifier %s", e.pos(n), n.Name)
		}
		return kval{term: n.Name, ty: t}, nil
	case *ast.SelectorExpr:
		if id, ok := n.X.(*ast.Ident); ok && e.recParams[id.Name] {
			switch n.Sel.Name {
			case "Offset": // kgo.Record.Offset int64
				return kval{term: id.Name + "_Offset", ty: kI64}, nil
			case "LeaderEpoch": // kgo.Record.LeaderEpoch int32
				return kval{term: id.Name + "_" + n.Sel.Name, ty: kI32}, nil
			}
		}
		return kval{}, fmt.Errorf("%s: unsupported selector %s", e.pos(n), kTypeString(n))
	case *ast.UnaryExpr:
		v, err := e.expr(n.X)
		if err != nil {
			return v, err
		}
		if n.Op == token.SUB && v.ty == "" {
			return kval{c: new(big.Int).Neg(v.c)}, nil
		}
		if n.Op == token.ADD {
			return v, nil
		}
		return kval{}, fmt.Errorf("%s: unsupported unary operator %s", e.pos(n), n.Op)
	case *ast.CallExpr:
		t, ok := e.typeNames[kTypeString(n.Fun)]
		if !ok || len(n.Args) != 1 {
			return kval{}, fmt.Errorf("%s: only integer conversions are supported, got call of %s", e.pos(n), kTypeString(n.Fun))
		}
		v, err := e.expr(n.Args[0])
		if err != nil {
			return v, err
		}
		if v.ty == "" {
			return e.asTyped(v, t, n)
		}
		return kval{term: fmt.Sprintf("(go_conv %s %s)", t, v.term), ty: t}, nil
	case *ast.BinaryExpr:
		l, err := e.expr(n.X)
		if err != nil {
			return l, err
		}
		r, err := e.expr(n.Y)
		if err != nil {
			return r, err
		}
		if n.Op == token.SHL || n.Op == token.SHR {
			if r.ty != "" || r.c.Sign() < 0 || !r.c.IsInt64() || r.c.Int64() > 1024 {
				return kval{}, fmt.Errorf("%s: shift count must be a small non-negative constant", e.pos(n))
			}
			if l.ty == "" { // constant shift
				c := new(big.Int)
				if n.Op == token.SHL {
					c.Lsh(l.c, uint(r.c.Int64()))
				} else {
					c.Rsh(l.c, uint(r.c.Int64()))
				}
				return kval{c: c}, nil
			}
			op := "go_shl"
			if n.Op == token.SHR {
				op = "go_shr"
			}
			return kval{term: fmt.Sprintf("(%s %s %s %s)", op, l.ty, l.term, kLit(r.c)), ty: l.ty}, nil
		}
		var op string
		switch n.Op {
		case token.ADD:
			op = "go_add"
		case token.SUB:
			op = "go_sub"
		case token.AND:
			op = "go_and"
		case token.OR:
			op = "go_or"
		default:
			return kval{}, fmt.Errorf("%s: unsupported operator %s", e.pos(n), n.Op)
		}
		if l.ty == "" && r.ty == "" {
			c := new(big.Int)
			switch n.Op {
			case token.ADD:
				c.Add(l.c, r.c)
			case token.SUB:
				c.Sub(l.c, r.c)
			case token.AND:
				c.And(l.c, r.c)
			case token.OR:
				c.Or(l.c, r.c)
			}
			return kval{c: c}, nil
		}
		t := l.ty
		if t == "" {
			t = r.ty
		}
		if l, err = e.asTyped(l, t, n); err != nil {
			return l, err
		}
		if r, err = e.asTyped(r, t, n); err != nil {
			return r, err
		}
		return kval{term: fmt.Sprintf("(%s %s %s %s)", op, t, l.term, r.term), ty: t}, nil
	}
	return kval{}, fmt.Errorf("%s: unsupported expression %T", e.pos(x), x)
}

type kparam struct {
	name string
	ty   kty
}

// kFunc translates one packing function. Returns the Coq definition text.
func kFunc(fset *token.FileSet, fd *ast.FuncDecl, typeNames map[string]kty) (string, error) {
	env := &kenv{vars: map[string]kty{}, recParams: map[string]bool{}, typeNames: typeNames, fset: fset}
	var coqParams []string
	for _, f := range fd.Type.Params.List {
		ts := kTypeString(f.Type)
		for _, nm := range f.Names {
			if ts == "*kgo.Record" {
				env.recParams[nm.Name] = true
				coqParams = append(coqParams, nm.Name+"_Offset", nm.Name+"_LeaderEpoch")
				continue
			}
			t, ok := typeNames[ts]
			if !ok {
				return "", fmt.Errorf("%s: parameter %s has unsupported type %s", fd.Name.Name, nm.Name, ts)
			}
			env.vars[nm.Name] = t
			coqParams = append(coqParams, nm.Name)
		}
	}
	// results: either unnamed (types only) or named (zero-initialised variables)
	var resTypes []string // rendered Go types
	var named []kparam
	if fd.Type.Results == nil {
		return "", fmt.Errorf("%s: no result", fd.Name.Name)
	}
	for _, f := range fd.Type.Results.List {
		ts := kTypeString(f.Type)
		if len(f.Names) == 0 {
			resTypes = append(resTypes, ts)
		}
		for _, nm := range f.Names {
			t, ok := typeNames[ts]
			if !ok {
				return "", fmt.Errorf("%s: named result %s has unsupported type %s", fd.Name.Name, nm.Name, ts)
			}
			resTypes = append(resTypes, ts)
			named = append(named, kparam{nm.Name, t})
		}
	}
	var lets []string
	for _, r := range named {
		env.vars[r.name] = r.ty
		lets = append(lets, fmt.Sprintf("  let %s := 0 in", r.name))
	}
	var result []string
	returned := false
	for i, st := range fd.Body.List {
		if returned {
			return "", fmt.Errorf("%s: statement after return", env.pos(st))
		}
		switch s := st.(type) {
		case *ast.AssignStmt:
			if len(s.Lhs) != 1 || len(s.Rhs) != 1 || (s.Tok != token.DEFINE && s.Tok != token.ASSIGN) {
				return "", fmt.Errorf("%s: unsupported assignment", env.pos(s))
			}
			id, ok := s.Lhs[0].(*ast.Ident)
			if !ok {
				return "", fmt.Errorf("%s: assignment target is not an identifier", env.pos(s))
			}
			v, err := env.expr(s.Rhs[0])
			if err != nil {
				return "", err
			}
			if s.Tok == token.ASSIGN {
				t, ok := env.vars[id.Name]
				if !ok {
					return "", fmt.Errorf("%s: assignment to undeclared %s", env.pos(s), id.Name)
				}
				if v, err = env.asTyped(v, t, s); err != nil {
					return "", err
				}
			} else {
				if v.ty == "" { // x := const has type int
					if v, err = env.asTyped(v, kI64, s); err != nil {
						return "", err
					}
				}
				env.vars[id.Name] = v.ty
			}
			lets = append(lets, fmt.Sprintf("  let %s := %s in", id.Name, v.term))
		case *ast.ReturnStmt:
			returned = true
			if i != len(fd.Body.List)-1 {
				return "", fmt.Errorf("%s: return is not the last statement", env.pos(s))
			}
			if len(s.Results) == 0 {
				if len(named) == 0 {
					return "", fmt.Errorf("%s: bare return without named results", env.pos(s))
				}
				for _, r := range named {
					result = append(result, r.name)
				}
				break
			}
			if len(s.Results) != len(resTypes) {
				return "", fmt.Errorf("%s: wrong number of results", env.pos(s))
			}
			for k, rx := range s.Results {
				if resTypes[k] == "kgo.EpochOffset" {
					cl, ok := rx.(*ast.CompositeLit)
					if !ok || kTypeString(cl.Type) != "kgo.EpochOffset" {
						return "", fmt.Errorf("%s: expected a kgo.EpochOffset{...} literal", env.pos(rx))
					}
					fields := map[string]string{}
					for _, el := range cl.Elts {
						kv, ok := el.(*ast.KeyValueExpr)
						if !ok {
							return "", fmt.Errorf("%s: EpochOffset literal must use field names", env.pos(el))
						}
						key, _ := kv.Key.(*ast.Ident)
						if key == nil {
							return "", fmt.Errorf("%s: bad field key", env.pos(kv))
						}
						want := map[string]kty{"Offset": kI64, "Epoch": kI32}[key.Name]
						if want == "" {
							return "", fmt.Errorf("%s: unknown EpochOffset field %s", env.pos(kv), key.Name)
						}
						v, err := env.expr(kv.Value)
						if err != nil {
							return "", err
						}
						if v, err = env.asTyped(v, want, kv); err != nil {
							return "", err
						}
						fields[key.Name] = v.term
					}
					for _, f := range []string{"Offset", "Epoch"} { // omitted field = zero value
						if _, ok := fields[f]; !ok {
							fields[f] = "0"
						}
					}
					result = append(result, fields["Offset"], fields["Epoch"])
					continue
				}
				t, ok := typeNames[resTypes[k]]
				if !ok {
					return "", fmt.Errorf("%s: unsupported result type %s", env.pos(rx), resTypes[k])
				}
				v, err := env.expr(rx)
				if err != nil {
					return "", err
				}
				if v, err = env.asTyped(v, t, rx); err != nil {
					return "", err
				}
				result = append(result, v.term)
			}
		default:
			return "", fmt.Errorf("%s: unsupported statement %T", env.pos(st), st)
		}
	}
	if !returned {
		return "", fmt.Errorf("%s: no return statement", fd.Name.Name)
	}
	retTy := "Z"
	if len(result) == 2 {
		retTy = "Z * Z"
	} else if len(result) != 1 {
		return "", fmt.Errorf("%s: %d result components", fd.Name.Name, len(result))
	}
	body := strings.Join(lets, "\n")
	if body != "" {
		body += "\n"
	}
	res := result[0]
	if len(result) == 2 {
		res = "(" + result[0] + ", " + result[1] + ")"
	}
	return fmt.Sprintf("Definition gen_%s (%s : Z) : %s :=\n%s  %s.\n", fd.Name.Name, strings.Join(coqParams, " "), retTy, body, res), nil
}

func kCallName(x ast.Expr) string { // p.client.MarkCommitOffsets -> "p.client.MarkCommitOffsets"
	switch t := x.(type) {
	case *ast.Ident:
		return t.Name
	case *ast.SelectorExpr:
		return kCallName(t.X) + "." + t.Sel.Name
	}
	return "?"
}

// kCommit recognises the exact data flow of Plugin.Commit.
func kCommit(fset *token.FileSet, fd *ast.FuncDecl) (string, error) {
	bad := func(i int, why string) (string, error) {
		p := fset.Position(fd.Pos())
		if i < len(fd.Body.List) {
			p = fset.Position(fd.Body.List[i].Pos())
		}
		return "", fmt.Errorf("%s: Commit no longer has the recognised shape: %s", p, why)
	}
	if fd.Type.Params == nil || len(fd.Type.Params.List) != 1 || len(fd.Type.Params.List[0].Names) != 1 {
		return bad(0, "one parameter expected")
	}
	ev := fd.Type.Params.List[0].Names[0].Name
	recv := fd.Recv.List[0].Names[0].Name
	if len(fd.Body.List) != 4 {
		return bad(0, fmt.Sprintf("%d statements instead of 4", len(fd.Body.List)))
	}
	// 1: a, b := disassembleSourceID(event.SourceID)
	s1, ok := fd.Body.List[0].(*ast.AssignStmt)
	if !ok || s1.Tok != token.DEFINE || len(s1.Lhs) != 2 || len(s1.Rhs) != 1 {
		return bad(0, "statement 1")
	}
	c1, ok := s1.Rhs[0].(*ast.CallExpr)
	if !ok || kCallName(c1.Fun) != "disassembleSourceID" || len(c1.Args) != 1 || kCallName(c1.Args[0]) != ev+".SourceID" {
		return bad(0, "statement 1 is not disassembleSourceID(event.SourceID)")
	}
	vIndex, vPart := kCallName(s1.Lhs[0]), kCallName(s1.Lhs[1])
	// 2: o := disassembleOffset(event.Offset)
	s2, ok := fd.Body.List[1].(*ast.AssignStmt)
	if !ok || s2.Tok != token.DEFINE || len(s2.Lhs) != 1 || len(s2.Rhs) != 1 {
		return bad(1, "statement 2")
	}
	c2, ok := s2.Rhs[0].(*ast.CallExpr)
	if !ok || kCallName(c2.Fun) != "disassembleOffset" || len(c2.Args) != 1 || kCallName(c2.Args[0]) != ev+".Offset" {
		return bad(1, "statement 2 is not disassembleOffset(event.Offset)")
	}
	vOff := kCallName(s2.Lhs[0])
	// 3: m := map[string]map[int32]kgo.EpochOffset{ p.config.Topics[index]: {partition: offset} }
	s3, ok := fd.Body.List[2].(*ast.AssignStmt)
	if !ok || s3.Tok != token.DEFINE || len(s3.Lhs) != 1 || len(s3.Rhs) != 1 {
		return bad(2, "statement 3")
	}
	vMap := kCallName(s3.Lhs[0])
	cl, ok := s3.Rhs[0].(*ast.CompositeLit)
	if !ok || len(cl.Elts) != 1 {
		return bad(2, "statement 3 is not a one-entry map literal")
	}
	if _, ok := cl.Type.(*ast.MapType); !ok {
		return bad(2, "statement 3 is not a map literal")
	}
	kv, ok := cl.Elts[0].(*ast.KeyValueExpr)
	if !ok {
		return bad(2, "map entry")
	}
	ix, ok := kv.Key.(*ast.IndexExpr)
	if !ok || kCallName(ix.X) != recv+".config.Topics" {
		return bad(2, "outer key is not p.config.Topics[...]")
	}
	inner, ok := kv.Value.(*ast.CompositeLit)
	if !ok || len(inner.Elts) != 1 {
		return bad(2, "inner map literal")
	}
	kv2, ok := inner.Elts[0].(*ast.KeyValueExpr)
	if !ok {
		return bad(2, "inner map entry")
	}
	kIndex, kPart, kOff := kCallName(ix.Index), kCallName(kv2.Key), kCallName(kv2.Value)
	// 4: p.client.MarkCommitOffsets(m)
	s4, ok := fd.Body.List[3].(*ast.ExprStmt)
	if !ok {
		return bad(3, "statement 4")
	}
	c4, ok := s4.X.(*ast.CallExpr)
	if !ok || kCallName(c4.Fun) != recv+".client.MarkCommitOffsets" || len(c4.Args) != 1 || kCallName(c4.Args[0]) != vMap {
		return bad(3, "statement 4 is not p.client.MarkCommitOffsets(<the map>)")
	}
	// the three roles must be filled by the variables of statements 1 and 2 (in any assignment)
	role := func(v string) (string, error) {
		switch v {
		case vIndex:
			return "sid_fst", nil
		case vPart:
			return "sid_snd", nil
		}
		return "", fmt.Errorf("Commit: %s is not a result of disassembleSourceID", v)
	}
	rIndex, err := role(kIndex)
	if err != nil {
		return "", err
	}
	rPart, err := role(kPart)
	if err != nil {
		return "", err
	}
	if kOff != vOff {
		return "", fmt.Errorf("Commit: marked value %s is not the result of disassembleOffset", kOff)
	}
	return fmt.Sprintf(`(* Plugin.Commit: %s, %s := disassembleSourceID(event.SourceID); %s := disassembleOffset(event.Offset);
   MarkCommitOffsets({ Topics[%s]: { %s: %s } }).   Result: (topic index, partition key, (Offset, Epoch) to mark) *)
Definition gen_commit_target (event_SourceID event_Offset : Z) : Z * Z * (Z * Z) :=
  let sid := gen_disassembleSourceID event_SourceID in
  let sid_fst := fst sid in
  let sid_snd := snd sid in
  (%s, %s, gen_disassembleOffset event_Offset).
`, vIndex, vPart, vOff, kIndex, kPart, kOff, rIndex, rPart), nil
}

func kHasCall(root ast.Node, name string) bool {
	found := false
	ast.Inspect(root, func(n ast.Node) bool {
		if c, ok := n.(*ast.CallExpr); ok && kCallName(c.Fun) == name {
			found = true
		}
		return true
	})
	return found
}

func genKafka(repo string) (string, string, error) {
	fset := token.NewFileSet()
	dir := filepath.Join(repo, "plugin", "input", "kafka")
	f, err := parser.ParseFile(fset, filepath.Join(dir, "kafka.go"), nil, 0)
	if err != nil {
		return "", "", err
	}
	// pipeline.SourceID must be an unsigned 64-bit integer
	typeNames := map[string]kty{"int": kI64, "int64": kI64, "int32": kI32, "uint64": kU64}
	srcIDFound := false
	pfiles, _ := filepath.Glob(filepath.Join(repo, "pipeline", "*.go"))
	sort.Strings(pfiles)
	for _, pf := range pfiles {
		if strings.HasSuffix(pf, "_test.go") {
			continue
		}
		src, err := os.ReadFile(pf)
		if err != nil || !strings.Contains(string(src), "SourceID") {
			continue
		}
		af, err := parser.ParseFile(fset, pf, src, 0)
		if err != nil {
			continue
		}
		for _, d := range af.Decls {
			gd, ok := d.(*ast.GenDecl)
			if !ok || gd.Tok != token.TYPE {
				continue
			}
			for _, sp := range gd.Specs {
				ts := sp.(*ast.TypeSpec)
				if ts.Name.Name == "SourceID" {
					under := kTypeString(ts.Type)
					if under != "uint64" {
						return "", "", fmt.Errorf("pipeline.SourceID is %s, the translator knows only uint64", under)
					}
					srcIDFound = true
				}
			}
		}
	}
	if !srcIDFound {
		return "", "", fmt.Errorf("type pipeline.SourceID not found")
	}
	typeNames["pipeline.SourceID"] = kU64

	want := []string{"assembleSourceID", "disassembleSourceID", "assembleOffset", "disassembleOffset"}
	funcs := map[string]*ast.FuncDecl{}
	var commit, start *ast.FuncDecl
	for _, d := range f.Decls {
		fd, ok := d.(*ast.FuncDecl)
		if !ok || fd.Body == nil {
			continue
		}
		if fd.Recv == nil {
			funcs[fd.Name.Name] = fd
			continue
		}
		if len(fd.Recv.List) == 1 && kTypeString(fd.Recv.List[0].Type) == "*Plugin" && len(fd.Recv.List[0].Names) == 1 {
			switch fd.Name.Name {
			case "Commit":
				commit = fd
			case "Start":
				start = fd
			}
		}
	}
	var out strings.Builder
	out.WriteString(`(* GENERATED from /repo/plugin/input/kafka/{kafka.go,client.go} by harness/gen (translator "kafka") — do not edit.
   Bodies of the packing functions in the integer operators of Model/KafkaInt.v; Go int = I64. *)
From Coq Require Import ZArith.
From Verif Require Import Model.KafkaInt.
Open Scope Z_scope.

`)
	for _, name := range want {
		fd := funcs[name]
		if fd == nil {
			return "", "", fmt.Errorf("function %s not found in kafka.go", name)
		}
		def, err := kFunc(fset, fd, typeNames)
		if err != nil {
			return "", "", err
		}
		out.WriteString(def + "\n")
	}
	if commit == nil || start == nil {
		return "", "", fmt.Errorf("Plugin.Commit / Plugin.Start not found")
	}
	cdef, err := kCommit(fset, commit)
	if err != nil {
		return "", "", err
	}
	out.WriteString(cdef + "\n")

	// client.go: NewClient passes kgo.AutoCommitMarks()
	cf, err := parser.ParseFile(fset, filepath.Join(dir, "client.go"), nil, 0)
	if err != nil {
		return "", "", err
	}
	var newClient *ast.FuncDecl
	for _, d := range cf.Decls {
		if fd, ok := d.(*ast.FuncDecl); ok && fd.Recv == nil && fd.Name.Name == "NewClient" {
			newClient = fd
		}
	}
	if newClient == nil {
		return "", "", fmt.Errorf("NewClient not found in client.go")
	}
	marks := kHasCall(newClient, "kgo.AutoCommitMarks") && !kHasCall(newClient, "kgo.DisableAutoCommit")
	recvName := start.Recv.List[0].Names[0].Name
	spread := kHasCall(start, recvName+".controller.UseSpread") && kHasCall(start, recvName+".controller.DisableStreams")
	fmt.Fprintf(&out, "(* NewClient passes kgo.AutoCommitMarks() (and not kgo.DisableAutoCommit()) *)\nDefinition gen_autocommit_marks : bool := %v.\n\n", marks)
	fmt.Fprintf(&out, "(* Start calls controller.UseSpread() and controller.DisableStreams() *)\nDefinition gen_use_spread : bool := %v.\n", spread)
	return "KafkaGen.v", out.String(), nil
}
