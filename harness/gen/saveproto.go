package main

// Translator "saveproto" (property C07): reads the two offset-saving functions
//   plugin/input/file/offset.go   (*offsetDB).save
//   offset/offset.go              (*Offset).Save  (+ saveToTmp, inlined; the callback's Write is checked
//                                                  in offset/simple_offset.go (*yamlValue).Save)
// and emits Gen/SaveProtocol.v: for each, the ordered list of file-system calls (open tmp, write, fsync,
// rename tmp->cur, close, remove tmp; deferred calls placed where they run) and, per call, what the code
// does when that call returns an error: go on (None) or return after the listed clean-up calls (Some [..]).
// Anything it does not recognise (another call on the file or on package os, the file handed to another
// function, a rename of other paths) is an error: the tie is broken and the check says so.

import (
	"bytes"
	"fmt"
	"go/ast"
	"go/parser"
	"go/printer"
	"go/token"
	"path/filepath"
	"strings"
)

func init() { gens["saveproto"] = genSaveProto }

type spStep struct {
	op      string
	handler []string // nil = the error is logged/ignored and execution continues
	returns bool
	pos     string
}

type spFunc struct {
	fset    *token.FileSet
	methods map[string]*ast.FuncDecl // methods of the same receiver type (for inlining)
	fileVar string
	tmpExpr string
	curExpr string
	subst   map[string]string // inside an inlined helper: parameter name -> text of the caller's argument
	steps   []spStep
}

// pathText prints a path expression; inside an inlined helper a parameter stands for the caller's argument
func (f *spFunc) pathText(e ast.Expr) string {
	if id, ok := e.(*ast.Ident); ok {
		if t, ok := f.subst[id.Name]; ok {
			return t
		}
	}
	return spPrint(f.fset, e)
}

func (f *spFunc) pathText2(outer map[string]string, e ast.Expr) string {
	if id, ok := e.(*ast.Ident); ok {
		if t, ok := outer[id.Name]; ok {
			return t
		}
	}
	return spPrint(f.fset, e)
}

func spPrint(fset *token.FileSet, n ast.Node) string {
	var b bytes.Buffer
	_ = printer.Fprint(&b, fset, n)
	return b.String()
}

func isIdent(e ast.Expr, name string) bool {
	id, ok := e.(*ast.Ident)
	return ok && id.Name == name
}

// classify returns the fs operation a call performs ("" = none), or "inline:<method>".
func (f *spFunc) classify(call *ast.CallExpr) (string, error) {
	sel, ok := call.Fun.(*ast.SelectorExpr)
	if !ok {
		return "", nil
	}
	name := sel.Sel.Name
	if isIdent(sel.X, "os") {
		switch name {
		case "OpenFile", "Create":
			if len(call.Args) < 1 {
				return "", fmt.Errorf("os.%s without arguments", name)
			}
			if name == "OpenFile" {
				flags := spPrint(f.fset, call.Args[1])
				if !strings.Contains(flags, "O_TRUNC") || !strings.Contains(flags, "O_CREATE") {
					return "", fmt.Errorf("os.OpenFile flags %q: the model assumes O_CREATE|O_TRUNC", flags)
				}
			}
			arg := f.pathText(call.Args[0])
			if f.tmpExpr != "" && f.tmpExpr != arg {
				return "", fmt.Errorf("a second file %q is opened", arg)
			}
			f.tmpExpr = arg
			return "OpOpen", nil
		case "Rename":
			if len(call.Args) != 2 {
				return "", fmt.Errorf("os.Rename arity")
			}
			from, to := f.pathText(call.Args[0]), f.pathText(call.Args[1])
			if from != f.tmpExpr {
				return "", fmt.Errorf("os.Rename source %q is not the temp file %q", from, f.tmpExpr)
			}
			if to == f.tmpExpr {
				return "", fmt.Errorf("os.Rename onto itself")
			}
			if f.curExpr != "" && f.curExpr != to {
				return "", fmt.Errorf("two rename targets %q / %q", f.curExpr, to)
			}
			f.curExpr = to
			return "OpRename", nil
		case "Remove":
			if len(call.Args) != 1 || f.pathText(call.Args[0]) != f.tmpExpr {
				return "", fmt.Errorf("os.Remove of something else than the temp file")
			}
			return "OpRemove", nil
		default:
			return "", fmt.Errorf("unrecognised call os.%s in the save protocol", name)
		}
	}
	if f.fileVar != "" && isIdent(sel.X, f.fileVar) {
		switch name {
		case "Write":
			return "OpWrite", nil
		case "Sync":
			return "OpSync", nil
		case "Close":
			return "OpClose", nil
		default:
			return "", fmt.Errorf("unrecognised call %s.%s in the save protocol", f.fileVar, name)
		}
	}
	// o.Callback.Save(file): the callback writes the value into the file (checked separately)
	if name == "Save" && len(call.Args) == 1 && f.fileVar != "" && isIdent(call.Args[0], f.fileVar) {
		if inner, ok := sel.X.(*ast.SelectorExpr); ok && inner.Sel.Name == "Callback" {
			return "OpWrite", nil
		}
	}
	// a helper method of the same receiver type (saveToTmp, or whatever a refactoring calls it) is inlined
	if _, ok := f.methods[name]; ok {
		if _, onVar := sel.X.(*ast.Ident); onVar && !isIdent(sel.X, "os") {
			return "inline:" + name, nil
		}
	}
	// the file handed to any other function: not understood
	for _, a := range call.Args {
		if f.fileVar != "" && isIdent(a, f.fileVar) {
			if _, isLit := call.Fun.(*ast.FuncLit); !isLit {
				return "", fmt.Errorf("the file is passed to %s", spPrint(f.fset, call.Fun))
			}
		}
	}
	return "", nil
}

// fsCallsIn lists the fs operations syntactically inside n, in source order.
func (f *spFunc) fsCallsIn(n ast.Node) ([]string, error) {
	var ops []string
	var err error
	ast.Inspect(n, func(x ast.Node) bool {
		if err != nil {
			return false
		}
		if call, ok := x.(*ast.CallExpr); ok {
			op, e := f.classify(call)
			if e != nil {
				err = e
				return false
			}
			if op != "" {
				ops = append(ops, op)
			}
		}
		return true
	})
	return ops, err
}

func isErrNotNil(e ast.Expr) bool {
	b, ok := e.(*ast.BinaryExpr)
	return ok && b.Op == token.NEQ && isIdent(b.X, "err") && isIdent(b.Y, "nil")
}

func isErrIsNil(e ast.Expr) bool {
	b, ok := e.(*ast.BinaryExpr)
	return ok && b.Op == token.EQL && isIdent(b.X, "err") && isIdent(b.Y, "nil")
}

func endsWithReturn(b *ast.BlockStmt) bool {
	if len(b.List) == 0 {
		return false
	}
	_, ok := b.List[len(b.List)-1].(*ast.ReturnStmt)
	return ok
}

func rev(xs []string) []string {
	out := make([]string, 0, len(xs))
	for i := len(xs) - 1; i >= 0; i-- {
		out = append(out, xs[i])
	}
	return out
}

// translate walks the top-level statements of fd. It returns the steps; a step with returns=true ends the
// function when it fails (its handler already contains the deferred calls of THIS function).
func (f *spFunc) translate(fd *ast.FuncDecl) ([]spStep, error) {
	var steps []spStep
	var deferred []string
	pending := -1          // index in steps of the call whose error sits in `err`
	pendingInline := false // `err` is the result of an inlined callee (its propagating steps carry "^")
	// chain: steps whose error is accumulated in `err` by the shape  err = a(); if err == nil { err = b() } ...:
	// each ran only because the earlier ones succeeded, and none is examined until `return err` / `if err != nil`
	var chain []int
	pos := func(n ast.Node) string {
		p := f.fset.Position(n.Pos())
		return fmt.Sprintf("%s:%d", filepath.Base(p.Filename), p.Line)
	}

	emitCall := func(call *ast.CallExpr, lhs []ast.Expr) (bool, error) {
		op, err := f.classify(call)
		if err != nil || op == "" {
			return false, err
		}
		if strings.HasPrefix(op, "inline:") {
			callee := f.methods[strings.TrimPrefix(op, "inline:")]
			// bind the helper's parameters to the texts of the arguments
			saved := f.subst
			f.subst = map[string]string{}
			ai := 0
			if callee.Type.Params != nil {
				for _, fld := range callee.Type.Params.List {
					for _, nm := range fld.Names {
						if ai < len(call.Args) {
							f.subst[nm.Name] = f.pathText2(saved, call.Args[ai])
						}
						ai++
					}
				}
			}
			sub, err := f.translate(callee)
			f.subst = saved
			if err != nil {
				return false, err
			}
			// a failing step of the callee that returns makes the callee return its error: mark them so
			// that the caller's `if err != nil` attaches to all of them
			for i := range sub {
				if sub[i].returns {
					sub[i].op = "^" + sub[i].op
				}
			}
			steps = append(steps, sub...)
			pending = len(steps) - 1
			pendingInline = true
			return true, nil
		}
		if op == "OpOpen" {
			if len(lhs) < 1 {
				return false, fmt.Errorf("open result not bound")
			}
			id, ok := lhs[0].(*ast.Ident)
			if !ok {
				return false, fmt.Errorf("open result not bound to a variable")
			}
			f.fileVar = id.Name
		}
		steps = append(steps, spStep{op: op, pos: pos(call)})
		pending = len(steps) - 1
		pendingInline = false
		return true, nil
	}

	attach := func(body *ast.BlockStmt) error {
		ops, err := f.fsCallsIn(body)
		if err != nil {
			return err
		}
		ret := endsWithReturn(body)
		if !ret && len(ops) > 0 {
			return fmt.Errorf("%s: file-system calls in an error branch that does not return", pos(body))
		}
		if pending < 0 {
			if len(ops) > 0 {
				return fmt.Errorf("%s: error branch with file-system calls but no preceding call", pos(body))
			}
			return nil
		}
		if pendingInline {
			if !ret {
				return fmt.Errorf("%s: the error of an inlined callee is not propagated", pos(body))
			}
			h := append(append([]string{}, ops...), rev(deferred)...)
			for i := range steps {
				if strings.HasPrefix(steps[i].op, "^") {
					steps[i].op = strings.TrimPrefix(steps[i].op, "^")
					steps[i].handler = append(append([]string{}, steps[i].handler...), h...)
					steps[i].returns = true
				}
			}
		} else if ret {
			steps[pending].handler = append(append([]string{}, ops...), rev(deferred)...)
			steps[pending].returns = true
		}
		pending = -1
		return nil
	}

	// if err == nil { err = next() [; if err == nil { ... }] }: next runs only when the pending call succeeded
	var nilChain func(s *ast.IfStmt) error
	nilChain = func(s *ast.IfStmt) error {
		lst := s.Body.List
		if len(lst) == 0 || len(lst) > 2 {
			return fmt.Errorf("%s: unsupported `if err == nil` body", pos(s.Body))
		}
		as, ok := lst[0].(*ast.AssignStmt)
		if !ok || as.Tok != token.ASSIGN || len(as.Lhs) != 1 || !isIdent(as.Lhs[0], "err") || len(as.Rhs) != 1 {
			return fmt.Errorf("%s: an `if err == nil` body must start with err = <call>", pos(s.Body))
		}
		call, ok := as.Rhs[0].(*ast.CallExpr)
		if !ok {
			return fmt.Errorf("%s: an `if err == nil` body must assign a call result to err", pos(s.Body))
		}
		prev := pending
		done, err := emitCall(call, as.Lhs)
		if err != nil {
			return err
		}
		if !done || pendingInline {
			return fmt.Errorf("%s: `if err == nil` body without a plain file-system call", pos(s.Body))
		}
		if len(chain) == 0 || chain[len(chain)-1] != prev {
			chain = append(chain, prev)
		}
		chain = append(chain, pending)
		if len(lst) == 2 {
			inner, ok := lst[1].(*ast.IfStmt)
			if !ok || !isErrIsNil(inner.Cond) || inner.Else != nil || inner.Init != nil {
				return fmt.Errorf("%s: unsupported statement after the call in an `if err == nil` body", pos(lst[1]))
			}
			return nilChain(inner)
		}
		return nil
	}
	// closeChain: the accumulated err is examined (returned): every step of the chain ends the function when it fails
	closeChain := func() {
		for _, i := range chain {
			steps[i].handler = rev(deferred)
			steps[i].returns = true
		}
		chain = nil
		pending = -1
	}

	for _, st := range fd.Body.List {
		if len(chain) > 0 {
			// an accumulated error is open: only its examination (return err / if err != nil { return }), a further
			// `if err == nil` link, or statements without file-system calls that leave err alone may follow
			switch s := st.(type) {
			case *ast.ReturnStmt:
				if len(s.Results) != 1 || !isIdent(s.Results[0], "err") {
					return nil, fmt.Errorf("%s: an accumulated error is not returned", pos(s))
				}
				closeChain()
			case *ast.IfStmt:
				switch {
				case isErrIsNil(s.Cond) && s.Else == nil && s.Init == nil:
				case isErrNotNil(s.Cond) && s.Else == nil && s.Init == nil && endsWithReturn(s.Body):
					ops, err := f.fsCallsIn(s.Body)
					if err != nil {
						return nil, err
					}
					h := append(append([]string{}, ops...), rev(deferred)...)
					for _, i := range chain {
						steps[i].handler = h
						steps[i].returns = true
					}
					chain = nil
					pending = -1
					continue
				default:
					return nil, fmt.Errorf("%s: unsupported statement while an accumulated error is open", pos(s))
				}
			default:
				ops, err := f.fsCallsIn(st)
				if err != nil || len(ops) > 0 {
					return nil, fmt.Errorf("%s: file-system call while an accumulated error is open (%v)", pos(st), err)
				}
				if as, ok := st.(*ast.AssignStmt); ok {
					for _, l := range as.Lhs {
						if isIdent(l, "err") {
							return nil, fmt.Errorf("%s: err is overwritten while an accumulated error is open", pos(st))
						}
					}
				}
			}
		}
		switch s := st.(type) {
		case *ast.AssignStmt:
			if len(s.Rhs) == 1 {
				if call, ok := s.Rhs[0].(*ast.CallExpr); ok {
					done, err := emitCall(call, s.Lhs)
					if err != nil {
						return nil, err
					}
					if done {
						continue
					}
				}
			}
			if ops, err := f.fsCallsIn(s); err != nil || len(ops) > 0 {
				return nil, fmt.Errorf("%s: file-system call in an unsupported position (%v)", pos(s), err)
			}
		case *ast.ExprStmt:
			if call, ok := s.X.(*ast.CallExpr); ok {
				done, err := emitCall(call, nil)
				if err != nil {
					return nil, err
				}
				if done {
					pending = -1 // result dropped: the error is ignored
					continue
				}
			}
			if ops, err := f.fsCallsIn(s); err != nil || len(ops) > 0 {
				return nil, fmt.Errorf("%s: file-system call in an unsupported position (%v)", pos(s), err)
			}
		case *ast.IfStmt:
			if isErrNotNil(s.Cond) && s.Else == nil {
				if s.Init != nil {
					as, ok := s.Init.(*ast.AssignStmt)
					if !ok || len(as.Rhs) != 1 {
						return nil, fmt.Errorf("%s: unsupported if-initialiser", pos(s))
					}
					call, ok := as.Rhs[0].(*ast.CallExpr)
					if !ok {
						return nil, fmt.Errorf("%s: unsupported if-initialiser", pos(s))
					}
					done, err := emitCall(call, as.Lhs)
					if err != nil {
						return nil, err
					}
					if !done {
						pending = -1
					}
				}
				if err := attach(s.Body); err != nil {
					return nil, err
				}
				continue
			}
			if isErrIsNil(s.Cond) && s.Else == nil && s.Init == nil && pending >= 0 && !pendingInline {
				if err := nilChain(s); err != nil {
					return nil, err
				}
				continue
			}
			if ops, err := f.fsCallsIn(s); err != nil || len(ops) > 0 {
				return nil, fmt.Errorf("%s: file-system call under a condition the translator does not understand (%v)", pos(s), err)
			}
		case *ast.DeferStmt:
			ops, err := f.fsCallsIn(s.Call)
			if err != nil {
				return nil, err
			}
			deferred = append(deferred, ops...)
		case *ast.ReturnStmt:
			if len(s.Results) == 1 {
				if call, ok := s.Results[0].(*ast.CallExpr); ok {
					done, err := emitCall(call, nil)
					if err != nil {
						return nil, err
					}
					if done {
						i := len(steps) - 1
						steps[i].handler = rev(deferred)
						steps[i].returns = true
					}
				}
			}
			for _, op := range rev(deferred) {
				steps = append(steps, spStep{op: op, pos: pos(s) + " (deferred)"})
			}
			return steps, nil
		default:
			if ops, err := f.fsCallsIn(st); err != nil || len(ops) > 0 {
				return nil, fmt.Errorf("%s: file-system call in an unsupported statement (%v)", pos(st), err)
			}
		}
	}
	if len(chain) > 0 {
		return nil, fmt.Errorf("%s: an accumulated error is never examined", fd.Name.Name)
	}
	for _, op := range rev(deferred) {
		steps = append(steps, spStep{op: op, pos: "function end (deferred)"})
	}
	return steps, nil
}

func spMethods(f *ast.File, recv string) map[string]*ast.FuncDecl {
	out := map[string]*ast.FuncDecl{}
	for _, d := range f.Decls {
		fd, ok := d.(*ast.FuncDecl)
		if !ok || fd.Recv == nil || len(fd.Recv.List) != 1 {
			continue
		}
		t := fd.Recv.List[0].Type
		if se, ok := t.(*ast.StarExpr); ok {
			t = se.X
		}
		if id, ok := t.(*ast.Ident); ok && id.Name == recv {
			out[fd.Name.Name] = fd
		}
	}
	return out
}

func spRender(name string, steps []spStep) (string, error) {
	var b strings.Builder
	fmt.Fprintf(&b, "Definition %s : protocol :=\n  [", name)
	for i, s := range steps {
		if strings.HasPrefix(s.op, "^") {
			return "", fmt.Errorf("%s: the error of %s is never examined by the caller", name, s.op)
		}
		if i > 0 {
			b.WriteString(";\n   ")
		}
		h := "None"
		if s.returns {
			h = "Some [" + strings.Join(s.handler, "; ") + "]"
		}
		fmt.Fprintf(&b, "(%s, %s)", s.op, h)
		fmt.Fprintf(&b, " (* %s *)", s.pos)
	}
	b.WriteString("].\n")
	return b.String(), nil
}

// the generic saver hands the file to Callback.Save: the only implementation must write it once and
// return the write error
func spCheckCallback(repo string, fset *token.FileSet) error {
	f, err := parser.ParseFile(fset, filepath.Join(repo, "offset", "simple_offset.go"), nil, 0)
	if err != nil {
		return err
	}
	fd := spMethods(f, "yamlValue")["Save"]
	if fd == nil || len(fd.Type.Params.List) != 1 || len(fd.Type.Params.List[0].Names) != 1 {
		return fmt.Errorf("(*yamlValue).Save(w) not found")
	}
	w := fd.Type.Params.List[0].Names[0].Name
	writes, other := 0, 0
	ast.Inspect(fd.Body, func(n ast.Node) bool {
		if call, ok := n.(*ast.CallExpr); ok {
			if sel, ok := call.Fun.(*ast.SelectorExpr); ok && isIdent(sel.X, w) {
				if sel.Sel.Name == "Write" {
					writes++
				} else {
					other++
				}
			}
			for _, a := range call.Args {
				if isIdent(a, w) {
					other++
				}
			}
		}
		return true
	})
	if writes != 1 || other != 0 {
		return fmt.Errorf("(*yamlValue).Save: expected exactly one w.Write and no other use of w (writes=%d other=%d)", writes, other)
	}
	// the write error must be returned
	ok := false
	for i, st := range fd.Body.List {
		as, isAs := st.(*ast.AssignStmt)
		if !isAs || len(as.Rhs) != 1 {
			continue
		}
		call, isCall := as.Rhs[0].(*ast.CallExpr)
		if !isCall {
			continue
		}
		if sel, isSel := call.Fun.(*ast.SelectorExpr); isSel && isIdent(sel.X, w) && sel.Sel.Name == "Write" && i+1 < len(fd.Body.List) {
			if ifs, isIf := fd.Body.List[i+1].(*ast.IfStmt); isIf && isErrNotNil(ifs.Cond) && endsWithReturn(ifs.Body) {
				ok = true
			}
		}
	}
	if !ok {
		return fmt.Errorf("(*yamlValue).Save: the error of w.Write is not returned")
	}
	return nil
}

// spHoldsMu: does offsetDB.save keep o.mu from before its first use of the shared snapshot/buffer until after
// the rename?  true iff o.mu.Lock() is a top-level statement that precedes every mention of o.buf /
// o.snapshotJobs, and the only o.mu.Unlock() is either deferred right there (runs at function exit, after the
// rename) or a top-level statement after the rename.
func spHoldsMu(fset *token.FileSet, fd *ast.FuncDecl) (bool, string) {
	isMu := func(n ast.Node, method string) bool {
		call, ok := n.(*ast.CallExpr)
		if !ok {
			return false
		}
		sel, ok := call.Fun.(*ast.SelectorExpr)
		if !ok || sel.Sel.Name != method {
			return false
		}
		inner, ok := sel.X.(*ast.SelectorExpr)
		return ok && inner.Sel.Name == "mu" && isIdent(inner.X, "o")
	}
	lockIdx, deferUnlockIdx, unlockIdx, firstShared, renameIdx := -1, -1, -1, -1, -1
	unlocks, locks := 0, 0
	for i, st := range fd.Body.List {
		if es, ok := st.(*ast.ExprStmt); ok {
			if isMu(es.X, "Lock") && lockIdx < 0 {
				lockIdx = i
			}
			if isMu(es.X, "Unlock") {
				unlockIdx = i
			}
		}
		if ds, ok := st.(*ast.DeferStmt); ok && isMu(ds.Call, "Unlock") {
			deferUnlockIdx = i
		}
		ast.Inspect(st, func(n ast.Node) bool {
			if isMu(n, "Unlock") {
				unlocks++
			}
			if isMu(n, "Lock") {
				locks++
			}
			if sel, ok := n.(*ast.SelectorExpr); ok && isIdent(sel.X, "o") && (sel.Sel.Name == "buf" || sel.Sel.Name == "snapshotJobs" || sel.Sel.Name == "jobsSnapshot") && firstShared < 0 {
				firstShared = i
			}
			if call, ok := n.(*ast.CallExpr); ok {
				if sel, ok := call.Fun.(*ast.SelectorExpr); ok && isIdent(sel.X, "os") && sel.Sel.Name == "Rename" {
					renameIdx = i
				}
			}
			return true
		})
	}
	why := fmt.Sprintf("Lock stmt %d, defer Unlock stmt %d, Unlock stmt %d, first use of o.buf/snapshotJobs stmt %d, Rename stmt %d, %d Lock / %d Unlock calls",
		lockIdx, deferUnlockIdx, unlockIdx, firstShared, renameIdx, locks, unlocks)
	if lockIdx < 0 || locks != 1 || unlocks != 1 || firstShared < 0 || renameIdx < 0 || lockIdx > firstShared {
		return false, why
	}
	if deferUnlockIdx >= 0 {
		return deferUnlockIdx > lockIdx && deferUnlockIdx < firstShared, why
	}
	return unlockIdx > renameIdx, why
}

func genSaveProto(repo string) (string, string, error) {
	fset := token.NewFileSet()
	// --- file plugin
	ff, err := parser.ParseFile(fset, filepath.Join(repo, "plugin", "input", "file", "offset.go"), nil, 0)
	if err != nil {
		return "", "", err
	}
	fm := spMethods(ff, "offsetDB")
	if fm["save"] == nil {
		return "", "", fmt.Errorf("(*offsetDB).save not found")
	}
	f1 := &spFunc{fset: fset, methods: map[string]*ast.FuncDecl{}}
	s1, err := f1.translate(fm["save"])
	if err != nil {
		return "", "", fmt.Errorf("offsetDB.save: %w", err)
	}
	// --- generic saver
	gf, err := parser.ParseFile(fset, filepath.Join(repo, "offset", "offset.go"), nil, 0)
	if err != nil {
		return "", "", err
	}
	gm := spMethods(gf, "Offset")
	if gm["Save"] == nil {
		return "", "", fmt.Errorf("(*Offset).Save not found")
	}
	if err := spCheckCallback(repo, fset); err != nil {
		return "", "", err
	}
	f2 := &spFunc{fset: fset, methods: gm}
	s2, err := f2.translate(gm["Save"])
	if err != nil {
		return "", "", fmt.Errorf("Offset.Save: %w", err)
	}
	r1, err := spRender("filed_save_protocol", s1)
	if err != nil {
		return "", "", err
	}
	r2, err := spRender("generic_save_protocol", s2)
	if err != nil {
		return "", "", err
	}
	holds, why := spHoldsMu(fset, fm["save"])
	content := fmt.Sprintf(`(* GENERATED from /repo/plugin/input/file/offset.go (offsetDB.save) and /repo/offset/offset.go
   (Offset.Save, saveToTmp inlined) by harness/gen (translator "saveproto") — do not edit.
   One entry per file-system call in execution order; None = an error of this call is logged/ignored and
   execution continues, Some cl = the function returns after the calls cl.
   temp file: %s -> %s   |   %s -> %s *)
From Verif Require Import Base.Sx Model.FsCrash.

%s
%s
(* offsetDB.save keeps o.mu (which guards the shared o.buf / o.jobsSnapshot) from before it builds the buffer
   until after the rename: %s *)
Definition save_holds_mu_until_rename : bool := %v.
`, f1.tmpExpr, f1.curExpr, f2.tmpExpr, f2.curExpr, r1, r2, why, holds)
	return "SaveProtocol.v", content, nil
}
