// verifgen — translators from /repo's Go source to coq/Gen/*.v (run on every check; see DESIGN §2.3b).
//
//	verifgen <name> -repo /repo -coq /verif/coq
//
// Each translator lives in its own file and registers itself in init(). A translator that no longer
// recognises the code exits non-zero: the tie is broken and the check reports it.
package main

import (
	"flag"
	"fmt"
	"os"
	"path/filepath"
)

type genFn func(repo string) (file string, content string, err error)

var gens = map[string]genFn{}

func main() {
	if len(os.Args) < 2 {
		fmt.Fprintln(os.Stderr, "usage: verifgen <name> -repo DIR -coq DIR")
		os.Exit(2)
	}
	g, ok := gens[os.Args[1]]
	if !ok {
		fmt.Fprintln(os.Stderr, "unknown translator", os.Args[1])
		os.Exit(2)
	}
	fs := flag.NewFlagSet("gen", flag.ExitOnError)
	repo := fs.String("repo", "/repo", "")
	coq := fs.String("coq", "/verif/coq", "")
	_ = fs.Parse(os.Args[2:])
	file, content, err := g(*repo)
	if err != nil {
		fmt.Fprintln(os.Stderr, "translator", os.Args[1], "failed:", err)
		os.Exit(1)
	}
	path := filepath.Join(*coq, "Gen", file)
	old, _ := os.ReadFile(path)
	if string(old) == content {
		fmt.Println(file, "unchanged")
		return
	}
	if err := os.WriteFile(path, []byte(content), 0o644); err != nil {
		fmt.Fprintln(os.Stderr, err)
		os.Exit(1)
	}
	fmt.Println(file, "rewritten")
}
