package main

// Translator "pool": reads pipeline/event.go and emits Gen/PoolGen.v
//   pool_lm_fits       : the capacity test of lowMemoryEventPool.get          (`inUse <= p.capacity`)
//   pool_lm_avail      : the comparison of lowMemoryEventPool.eventsAvailable (`int(p.inUseEvents.Load()) < p.capacity`)
//   pool_std_avail     : the availability test of eventPool.wakeupWaiters     (`p.inUseEvents.Load() < int64(p.capacity)`)
//   pool_lm_tick_cond  : the condition under which lowMemoryEventPool.wakeupWaiters broadcasts, over
//   pool_std_tick_cond   (w = `waiters > 0`, a = `eventsAvailable`); same for eventPool.wakeupWaiters
//   pool_lm_hb_forever  : lowMemoryEventPool.wakeupWaiters is `for { if p.stopped.Load() { return }; time.Sleep(p.wakeupInterval); ... }`
//   pool_std_hb_forever   and the stop guard is the ONLY way out of the loop (no other return / break / goto / panic / exit, nothing
//                         that may block): false as soon as the heartbeat has an exit path - the liveness theorems of the pools
//                         (Proofs/PoolHb.v, PoolTheorems.v) take `true` as a hypothesis, so an exit path breaks a proof obligation
//   pool_lm_hb_starts   : get() runs `p.runHeartbeatOnce.Do(func() { go p.wakeupWaiters() })` on every path that reaches
//   pool_std_hb_starts    getCond.Wait() (same block, in front of the statement that waits, no label in between)
// Anything it does not recognise is an error: the tie is broken and the check reports it.

import (
	"fmt"
	"go/ast"
	"go/parser"
	"go/token"
	"path/filepath"
	"strings"
)

func init() { gens["pool"] = genPool }

func poolMethod(f *ast.File, recv, name string) *ast.FuncDecl {
	for _, d := range f.Decls {
		fd, ok := d.(*ast.FuncDecl)
		if !ok || fd.Recv == nil || fd.Name.Name != name || len(fd.Recv.List) != 1 {
			continue
		}
		if se, ok := fd.Recv.List[0].Type.(*ast.StarExpr); ok {
			if id, ok := se.X.(*ast.Ident); ok && id.Name == recv {
				return fd
			}
		}
	}
	return nil
}

func plUnparen(e ast.Expr) ast.Expr {
	for {
		p, ok := e.(*ast.ParenExpr)
		if !ok {
			return e
		}
		e = p.X
	}
}

// strips conversions int(x) / int64(x)
func plUnconv(e ast.Expr) ast.Expr {
	e = plUnparen(e)
	if c, ok := e.(*ast.CallExpr); ok && len(c.Args) == 1 {
		if id, ok := c.Fun.(*ast.Ident); ok && (id.Name == "int" || id.Name == "int64") {
			return plUnconv(c.Args[0])
		}
	}
	return e
}

// p.<field>
func plIsPField(e ast.Expr, field string) bool {
	s, ok := plUnconv(e).(*ast.SelectorExpr)
	if !ok || s.Sel.Name != field {
		return false
	}
	id, ok := s.X.(*ast.Ident)
	return ok && id.Name == "p"
}

// p.<field>.<method>()
func plIsPFieldCall(e ast.Expr, field, method string) bool {
	c, ok := plUnconv(e).(*ast.CallExpr)
	if !ok || len(c.Args) != 0 {
		return false
	}
	s, ok := c.Fun.(*ast.SelectorExpr)
	return ok && s.Sel.Name == method && plIsPField(s.X, field)
}

// p.<method>()
func plIsPCall(e ast.Expr, method string) bool {
	c, ok := plUnparen(e).(*ast.CallExpr)
	if !ok || len(c.Args) != 0 {
		return false
	}
	s, ok := c.Fun.(*ast.SelectorExpr)
	if !ok || s.Sel.Name != method {
		return false
	}
	id, ok := s.X.(*ast.Ident)
	return ok && id.Name == "p"
}

func plIsIdent(e ast.Expr, name string) bool {
	id, ok := plUnparen(e).(*ast.Ident)
	return ok && id.Name == name
}

func plIsZero(e ast.Expr) bool {
	b, ok := plUnparen(e).(*ast.BasicLit)
	return ok && b.Kind == token.INT && b.Value == "0"
}

// comparison `x op y` as a Coq boolean over Z variables named xs, ys
func plCoqCmp(op token.Token, xs, ys string) (string, error) {
	switch op {
	case token.LSS:
		return fmt.Sprintf("(%s <? %s)", xs, ys), nil
	case token.LEQ:
		return fmt.Sprintf("(%s <=? %s)", xs, ys), nil
	case token.GTR:
		return fmt.Sprintf("(%s <? %s)", ys, xs), nil
	case token.GEQ:
		return fmt.Sprintf("(%s <=? %s)", ys, xs), nil
	case token.EQL:
		return fmt.Sprintf("(%s =? %s)", xs, ys), nil
	case token.NEQ:
		return fmt.Sprintf("(negb (%s =? %s))", xs, ys), nil
	}
	return "", fmt.Errorf("unsupported comparison %s", op)
}

// the heartbeat condition over w (= waiters > 0) and a (= eventsAvailable)
func plCoqTickCond(e ast.Expr) (string, error) {
	e = plUnparen(e)
	switch v := e.(type) {
	case *ast.Ident:
		if v.Name == "eventsAvailable" {
			return "a", nil
		}
	case *ast.UnaryExpr:
		if v.Op == token.NOT {
			s, err := plCoqTickCond(v.X)
			if err != nil {
				return "", err
			}
			return "(negb " + s + ")", nil
		}
	case *ast.BinaryExpr:
		switch v.Op {
		case token.LAND, token.LOR:
			l, err := plCoqTickCond(v.X)
			if err != nil {
				return "", err
			}
			r, err := plCoqTickCond(v.Y)
			if err != nil {
				return "", err
			}
			if v.Op == token.LAND {
				return "(" + l + " && " + r + ")", nil
			}
			return "(" + l + " || " + r + ")", nil
		case token.GTR:
			if plIsIdent(v.X, "waiters") && plIsZero(v.Y) {
				return "w", nil
			}
		case token.LSS:
			if plIsZero(v.X) && plIsIdent(v.Y, "waiters") {
				return "w", nil
			}
		case token.NEQ:
			if plIsIdent(v.X, "waiters") && plIsZero(v.Y) {
				return "w", nil // the counter is never negative (invariant lm_waiters_count / sd_waiters_count)
			}
		}
	}
	return "", fmt.Errorf("heartbeat condition: unsupported expression")
}

func plContainsBroadcast(n ast.Node) bool {
	found := false
	ast.Inspect(n, func(x ast.Node) bool {
		if e, ok := x.(ast.Expr); ok && plIsPFieldCall(e, "getCond", "Broadcast") {
			found = true
		}
		return true
	})
	return found
}

// wakeupWaiters: returns (rhs of `eventsAvailable :=`, condition of the `if` that broadcasts)
func poolTick(fd *ast.FuncDecl) (ast.Expr, ast.Expr, error) {
	var availRhs, cond ast.Expr
	waitersOK := false
	nIf, nBc := 0, 0
	ast.Inspect(fd.Body, func(n ast.Node) bool {
		switch v := n.(type) {
		case *ast.AssignStmt:
			if len(v.Lhs) == 1 && len(v.Rhs) == 1 {
				if plIsIdent(v.Lhs[0], "waiters") && plIsPFieldCall(v.Rhs[0], "slowWaiters", "Load") {
					waitersOK = true
				}
				if plIsIdent(v.Lhs[0], "eventsAvailable") {
					availRhs = v.Rhs[0]
				}
			}
		case *ast.IfStmt:
			if plContainsBroadcast(v.Body) {
				nIf++
				cond = v.Cond
				if v.Else != nil {
					nIf += 10
				}
			}
		case *ast.CallExpr:
			if plIsPFieldCall(v, "getCond", "Broadcast") {
				nBc++
			}
		}
		return true
	})
	if !waitersOK || availRhs == nil || nIf != 1 || nBc != 1 {
		return nil, nil, fmt.Errorf("%s: expected `waiters := p.slowWaiters.Load()`, `eventsAvailable := ...` and exactly one `if` guarding the only Broadcast (waiters=%v avail=%v ifs=%d broadcasts=%d)",
			fd.Name.Name, waitersOK, availRhs != nil, nIf, nBc)
	}
	return availRhs, cond, nil
}

// `<inUseEvents.Load()> op <p.capacity>` (conversions ignored)
func poolAvailCmp(e ast.Expr) (string, error) {
	b, ok := plUnparen(e).(*ast.BinaryExpr)
	if !ok || !plIsPFieldCall(b.X, "inUseEvents", "Load") || !plIsPField(b.Y, "capacity") {
		return "", fmt.Errorf("availability test is not `p.inUseEvents.Load() <op> p.capacity`")
	}
	return plCoqCmp(b.Op, "inuse", "cap")
}

// ---- the heartbeat's life cycle ------------------------------------------------------------------------------------------

// `if p.stopped.Load() { return }`
func plIsStopGuard(st ast.Stmt) bool {
	is, ok := st.(*ast.IfStmt)
	if !ok || is.Init != nil || is.Else != nil || !plIsPFieldCall(is.Cond, "stopped", "Load") || len(is.Body.List) != 1 {
		return false
	}
	r, ok := is.Body.List[0].(*ast.ReturnStmt)
	return ok && len(r.Results) == 0
}

// `time.Sleep(p.wakeupInterval)`
func plIsSleepInterval(st ast.Stmt) bool {
	es, ok := st.(*ast.ExprStmt)
	if !ok {
		return false
	}
	c, ok := es.X.(*ast.CallExpr)
	if !ok || len(c.Args) != 1 || !plIsPField(c.Args[0], "wakeupInterval") {
		return false
	}
	s, ok := c.Fun.(*ast.SelectorExpr)
	if !ok || s.Sel.Name != "Sleep" {
		return false
	}
	id, ok := s.X.(*ast.Ident)
	return ok && id.Name == "time"
}

// poolHbForever: the body of wakeupWaiters must be one unconditional `for { ... }` that sleeps p.wakeupInterval once per
// iteration (a direct statement of the loop, in front of the loads). Returns the ways out of the loop other than the stop
// guard (empty = the heartbeat ticks for ever) - or an error when the shape is not recognised at all.
func poolHbForever(fset *token.FileSet, fd *ast.FuncDecl) ([]string, error) {
	name := fd.Name.Name
	if len(fd.Body.List) != 1 {
		return nil, fmt.Errorf("%s: expected the body to be a single `for { ... }` loop (%d statements)", name, len(fd.Body.List))
	}
	st := fd.Body.List[0]
	loopLabel := ""
	if ls, ok := st.(*ast.LabeledStmt); ok {
		loopLabel, st = ls.Label.Name, ls.Stmt
	}
	loop, ok := st.(*ast.ForStmt)
	if !ok {
		return nil, fmt.Errorf("%s: expected the body to be a single `for { ... }` loop", name)
	}
	var exits []string
	at := func(n ast.Node, what string) {
		exits = append(exits, fmt.Sprintf("%s (line %d)", what, fset.Position(n.Pos()).Line))
	}
	if loop.Init != nil || loop.Cond != nil || loop.Post != nil {
		at(loop, "the loop has a condition")
	}
	// shape of the iteration: [stop guard] ... Sleep(p.wakeupInterval) ... `waiters :=` ...
	nSleep, sleepIdx, loadIdx := 0, -1, -1
	for i, s := range loop.Body.List {
		if plIsSleepInterval(s) {
			nSleep++
			sleepIdx = i
		}
		if as, ok := s.(*ast.AssignStmt); ok && loadIdx < 0 && len(as.Lhs) == 1 && plIsIdent(as.Lhs[0], "waiters") {
			loadIdx = i
		}
	}
	nSleepAll := 0
	ast.Inspect(fd.Body, func(n ast.Node) bool {
		if c, ok := n.(*ast.CallExpr); ok {
			if s, ok := c.Fun.(*ast.SelectorExpr); ok && s.Sel.Name == "Sleep" {
				nSleepAll++
			}
		}
		return true
	})
	if nSleep != 1 || nSleepAll != 1 || loadIdx < 0 || sleepIdx > loadIdx {
		return nil, fmt.Errorf("%s: expected exactly one `time.Sleep(p.wakeupInterval)` as a statement of the loop, in front of `waiters := ...` (found %d of %d Sleep calls)", name, nSleep, nSleepAll)
	}
	// labels declared inside the loop: a break to one of them stays inside
	inner := map[string]bool{}
	ast.Inspect(loop.Body, func(n ast.Node) bool {
		if ls, ok := n.(*ast.LabeledStmt); ok {
			inner[ls.Label.Name] = true
		}
		return true
	})
	var cerr error
	var walk func(n ast.Node, depth int)
	walkList := func(l []ast.Stmt, depth int) {
		for _, s := range l {
			walk(s, depth)
		}
	}
	walk = func(n ast.Node, depth int) {
		switch v := n.(type) {
		case nil:
			return
		case *ast.FuncLit:
			return // another function
		case *ast.ReturnStmt:
			at(v, "return")
			return
		case *ast.BranchStmt:
			switch v.Tok {
			case token.GOTO:
				at(v, "goto")
			case token.BREAK:
				if v.Label != nil {
					if !inner[v.Label.Name] || v.Label.Name == loopLabel {
						at(v, "break "+v.Label.Name)
					}
				} else if depth == 0 {
					at(v, "break")
				}
			case token.CONTINUE:
				if cerr == nil {
					cerr = fmt.Errorf("%s: `continue` in the heartbeat loop (line %d) is not supported by the translator", name, fset.Position(v.Pos()).Line)
				}
			}
			return
		case *ast.ForStmt:
			walk(v.Init, depth)
			walk(v.Cond, depth)
			walk(v.Post, depth)
			walkList(v.Body.List, depth+1)
			return
		case *ast.RangeStmt:
			at(v, "range loop (may block or not terminate)")
			walkList(v.Body.List, depth+1)
			return
		case *ast.SwitchStmt:
			walk(v.Init, depth)
			walk(v.Tag, depth)
			walkList(v.Body.List, depth+1)
			return
		case *ast.TypeSwitchStmt:
			walkList(v.Body.List, depth+1)
			return
		case *ast.SelectStmt:
			at(v, "select (may block)")
			walkList(v.Body.List, depth+1)
			return
		case *ast.SendStmt:
			at(v, "channel send (may block)")
		case *ast.UnaryExpr:
			if v.Op == token.ARROW {
				at(v, "channel receive (may block)")
			}
		case *ast.CallExpr:
			if id, ok := v.Fun.(*ast.Ident); ok && id.Name == "panic" {
				at(v, "panic")
			}
			if s, ok := v.Fun.(*ast.SelectorExpr); ok {
				x, _ := s.X.(*ast.Ident)
				switch {
				case x != nil && x.Name == "os" && s.Sel.Name == "Exit", x != nil && x.Name == "runtime" && s.Sel.Name == "Goexit":
					at(v, x.Name+"."+s.Sel.Name)
				case x != nil && (x.Name == "logger" || x.Name == "log") && (strings.HasPrefix(s.Sel.Name, "Fatal") || strings.HasPrefix(s.Sel.Name, "Panic")):
					at(v, x.Name+"."+s.Sel.Name)
				case s.Sel.Name == "Wait" || s.Sel.Name == "Lock" || s.Sel.Name == "RLock" || s.Sel.Name == "Acquire":
					at(v, "call of ."+s.Sel.Name+"() (may block)")
				}
			}
		}
		// generic descent
		switch v := n.(type) {
		case *ast.BlockStmt:
			walkList(v.List, depth)
		case *ast.IfStmt:
			walk(v.Init, depth)
			walk(v.Cond, depth)
			walk(v.Body, depth)
			walk(v.Else, depth)
		case *ast.CaseClause:
			for _, e := range v.List {
				walk(e, depth)
			}
			walkList(v.Body, depth)
		case *ast.CommClause:
			walk(v.Comm, depth)
			walkList(v.Body, depth)
		case *ast.LabeledStmt:
			walk(v.Stmt, depth)
		case *ast.ExprStmt:
			walk(v.X, depth)
		case *ast.AssignStmt:
			for _, e := range v.Rhs {
				walk(e, depth)
			}
		case *ast.DeclStmt, *ast.IncDecStmt, *ast.EmptyStmt:
		case *ast.GoStmt:
			walk(v.Call, depth)
		case *ast.DeferStmt:
			walk(v.Call, depth)
		case *ast.CallExpr:
			walk(v.Fun, depth)
			for _, e := range v.Args {
				walk(e, depth)
			}
		case *ast.BinaryExpr:
			walk(v.X, depth)
			walk(v.Y, depth)
		case *ast.UnaryExpr:
			walk(v.X, depth)
		case *ast.ParenExpr:
			walk(v.X, depth)
		case *ast.SelectorExpr:
			walk(v.X, depth)
		case *ast.StarExpr:
			walk(v.X, depth)
		case *ast.IndexExpr:
			walk(v.X, depth)
			walk(v.Index, depth)
		case *ast.Ident, *ast.BasicLit:
		case ast.Stmt:
			if cerr == nil {
				cerr = fmt.Errorf("%s: statement at line %d is not supported by the translator of the heartbeat loop", name, fset.Position(v.Pos()).Line)
			}
		}
	}
	for _, s := range loop.Body.List {
		if plIsStopGuard(s) {
			continue // the only way out that the model knows (the pool is stopped at shutdown)
		}
		walk(s, 0)
	}
	if cerr != nil {
		return nil, cerr
	}
	return exits, nil
}

// `p.runHeartbeatOnce.Do(func() { go p.wakeupWaiters() })`
func plIsHeartbeatStart(st ast.Stmt) bool {
	es, ok := st.(*ast.ExprStmt)
	if !ok {
		return false
	}
	c, ok := es.X.(*ast.CallExpr)
	if !ok || len(c.Args) != 1 {
		return false
	}
	s, ok := c.Fun.(*ast.SelectorExpr)
	if !ok || s.Sel.Name != "Do" || !plIsPField(s.X, "runHeartbeatOnce") {
		return false
	}
	fl, ok := c.Args[0].(*ast.FuncLit)
	if !ok || len(fl.Body.List) != 1 {
		return false
	}
	g, ok := fl.Body.List[0].(*ast.GoStmt)
	return ok && plIsPCall(g.Call, "wakeupWaiters")
}

// poolHbStarts: every path of get() that reaches getCond.Wait() has run `p.runHeartbeatOnce.Do(func() { go p.wakeupWaiters() })`:
// the Do statement and the statement that contains the (only) Wait are statements of the same block, Do first, and no label
// lies between them (nothing jumps over the Do). Returns a reason when it is not so.
func poolHbStarts(fset *token.FileSet, fd *ast.FuncDecl) (string, error) {
	name := fd.Name.Name
	var waits []ast.Node
	nGo := 0
	ast.Inspect(fd.Body, func(n ast.Node) bool {
		if e, ok := n.(ast.Expr); ok && plIsPFieldCall(e, "getCond", "Wait") {
			waits = append(waits, n)
		}
		if g, ok := n.(*ast.GoStmt); ok && plIsPCall(g.Call, "wakeupWaiters") {
			nGo++
		}
		return true
	})
	if len(waits) != 1 {
		return "", fmt.Errorf("%s: expected exactly one p.getCond.Wait() (%d found)", name, len(waits))
	}
	wait := waits[0]
	var block *ast.BlockStmt
	doIdx, nDo := -1, 0
	ast.Inspect(fd.Body, func(n ast.Node) bool {
		if b, ok := n.(*ast.BlockStmt); ok {
			for i, s := range b.List {
				if plIsHeartbeatStart(s) {
					block, doIdx = b, i
					nDo++
				}
			}
		}
		return true
	})
	if nDo == 0 {
		if nGo != 0 {
			return "", fmt.Errorf("%s: the heartbeat is started in a way the translator does not recognise (expected `p.runHeartbeatOnce.Do(func() { go p.wakeupWaiters() })`)", name)
		}
		return "get() never starts the heartbeat", nil
	}
	if nDo != 1 || nGo != 1 {
		return "", fmt.Errorf("%s: expected exactly one start of the heartbeat (%d Do statements, %d go statements)", name, nDo, nGo)
	}
	do := block.List[doIdx]
	waitIdx := -1
	for j := doIdx + 1; j < len(block.List); j++ {
		if block.List[j].Pos() <= wait.Pos() && wait.End() <= block.List[j].End() {
			waitIdx = j
		}
	}
	if waitIdx < 0 {
		return fmt.Sprintf("the heartbeat start (line %d) does not precede getCond.Wait() (line %d) in one block", fset.Position(do.Pos()).Line, fset.Position(wait.Pos()).Line), nil
	}
	jumpIn := ""
	ast.Inspect(fd.Body, func(n ast.Node) bool {
		if ls, ok := n.(*ast.LabeledStmt); ok && ls.Pos() > do.Pos() && ls.Pos() <= wait.Pos() {
			jumpIn = fmt.Sprintf("label %s (line %d) between the heartbeat start and getCond.Wait()", ls.Label.Name, fset.Position(ls.Pos()).Line)
		}
		return true
	})
	return jumpIn, nil
}

func plCoqBool(b bool) string {
	if b {
		return "true"
	}
	return "false"
}

func genPool(repo string) (string, string, error) {
	fset := token.NewFileSet()
	f, err := parser.ParseFile(fset, filepath.Join(repo, "pipeline", "event.go"), nil, 0)
	if err != nil {
		return "", "", err
	}
	lmGet := poolMethod(f, "lowMemoryEventPool", "get")
	lmAvail := poolMethod(f, "lowMemoryEventPool", "eventsAvailable")
	lmTick := poolMethod(f, "lowMemoryEventPool", "wakeupWaiters")
	stdTick := poolMethod(f, "eventPool", "wakeupWaiters")
	stdGet := poolMethod(f, "eventPool", "get")
	if lmGet == nil || lmAvail == nil || lmTick == nil || stdTick == nil || stdGet == nil {
		return "", "", fmt.Errorf("pool methods not found in pipeline/event.go")
	}
	// 1. capacity test of the low-memory get: the only `if` comparing `inUse` with p.capacity
	var fits string
	nFits := 0
	var ferr error
	ast.Inspect(lmGet.Body, func(n ast.Node) bool {
		if is, ok := n.(*ast.IfStmt); ok {
			if b, ok := plUnparen(is.Cond).(*ast.BinaryExpr); ok && plIsIdent(b.X, "inUse") && plIsPField(b.Y, "capacity") {
				nFits++
				fits, ferr = plCoqCmp(b.Op, "r", "cap")
			}
		}
		return true
	})
	if nFits != 1 || ferr != nil {
		return "", "", fmt.Errorf("lowMemoryEventPool.get: expected exactly one `if inUse <op> p.capacity` (%d found, %v)", nFits, ferr)
	}
	// 2. eventsAvailable of the low-memory pool: a single return of the comparison
	if len(lmAvail.Body.List) != 1 {
		return "", "", fmt.Errorf("lowMemoryEventPool.eventsAvailable: expected a single return statement")
	}
	ret, ok := lmAvail.Body.List[0].(*ast.ReturnStmt)
	if !ok || len(ret.Results) != 1 {
		return "", "", fmt.Errorf("lowMemoryEventPool.eventsAvailable: expected a single return statement")
	}
	lmAvailS, err := poolAvailCmp(ret.Results[0])
	if err != nil {
		return "", "", fmt.Errorf("lowMemoryEventPool.eventsAvailable: %v", err)
	}
	// 3. heartbeats
	lmRhs, lmCond, err := poolTick(lmTick)
	if err != nil {
		return "", "", fmt.Errorf("lowMemoryEventPool.%v", err)
	}
	if !plIsPCall(lmRhs, "eventsAvailable") {
		return "", "", fmt.Errorf("lowMemoryEventPool.wakeupWaiters: eventsAvailable is not p.eventsAvailable()")
	}
	lmCondS, err := plCoqTickCond(lmCond)
	if err != nil {
		return "", "", fmt.Errorf("lowMemoryEventPool.wakeupWaiters: %v", err)
	}
	stdRhs, stdCond, err := poolTick(stdTick)
	if err != nil {
		return "", "", fmt.Errorf("eventPool.%v", err)
	}
	stdAvailS, err := poolAvailCmp(stdRhs)
	if err != nil {
		return "", "", fmt.Errorf("eventPool.wakeupWaiters: %v", err)
	}
	stdCondS, err := plCoqTickCond(stdCond)
	if err != nil {
		return "", "", fmt.Errorf("eventPool.wakeupWaiters: %v", err)
	}
	// 4. the heartbeats' life cycle
	lmExits, err := poolHbForever(fset, lmTick)
	if err != nil {
		return "", "", fmt.Errorf("lowMemoryEventPool.%v", err)
	}
	stdExits, err := poolHbForever(fset, stdTick)
	if err != nil {
		return "", "", fmt.Errorf("eventPool.%v", err)
	}
	lmNoStart, err := poolHbStarts(fset, lmGet)
	if err != nil {
		return "", "", fmt.Errorf("lowMemoryEventPool.%v", err)
	}
	stdNoStart, err := poolHbStarts(fset, stdGet)
	if err != nil {
		return "", "", fmt.Errorf("eventPool.%v", err)
	}
	var b strings.Builder
	b.WriteString("(* GENERATED from /repo/pipeline/event.go by harness/gen (translator \"pool\") — do not edit.\n")
	b.WriteString("   The comparisons and heartbeat conditions of the two event pools, as written in the source. *)\n")
	b.WriteString("From Coq Require Import ZArith Bool.\nLocal Open Scope Z_scope.\n")
	b.WriteString("(* lowMemoryEventPool.get: `if inUse <op> p.capacity` with r = the result of inUseEvents.Inc() *)\n")
	fmt.Fprintf(&b, "Definition pool_lm_fits (r cap : Z) : bool := %s.\n", fits)
	b.WriteString("(* lowMemoryEventPool.eventsAvailable *)\n")
	fmt.Fprintf(&b, "Definition pool_lm_avail (inuse cap : Z) : bool := %s.\n", lmAvailS)
	b.WriteString("(* eventPool.wakeupWaiters: `eventsAvailable := ...` *)\n")
	fmt.Fprintf(&b, "Definition pool_std_avail (inuse cap : Z) : bool := %s.\n", stdAvailS)
	b.WriteString("(* the `if` that guards the heartbeat's Broadcast; w = `waiters > 0`, a = `eventsAvailable` *)\n")
	fmt.Fprintf(&b, "Definition pool_lm_tick_cond (w a : bool) : bool := %s.\n", lmCondS)
	fmt.Fprintf(&b, "Definition pool_std_tick_cond (w a : bool) : bool := %s.\n", stdCondS)
	b.WriteString("(* wakeupWaiters is `for { if p.stopped.Load() { return }; time.Sleep(p.wakeupInterval); ... }` and the stop guard is the\n")
	b.WriteString("   only way out of the loop: the heartbeat, once started, ticks until the pool is stopped *)\n")
	hb := func(name string, exits []string) {
		if len(exits) > 0 {
			fmt.Fprintf(&b, "(* %s: ways out of the heartbeat loop: %s *)\n", name, strings.Join(exits, "; "))
		}
		fmt.Fprintf(&b, "Definition %s : bool := %s.\n", name, plCoqBool(len(exits) == 0))
	}
	hb("pool_lm_hb_forever", lmExits)
	hb("pool_std_hb_forever", stdExits)
	b.WriteString("(* get() runs `p.runHeartbeatOnce.Do(func() { go p.wakeupWaiters() })` on every path to getCond.Wait() *)\n")
	st := func(name, why string) {
		if why != "" {
			fmt.Fprintf(&b, "(* %s: %s *)\n", name, why)
		}
		fmt.Fprintf(&b, "Definition %s : bool := %s.\n", name, plCoqBool(why == ""))
	}
	st("pool_lm_hb_starts", lmNoStart)
	st("pool_std_hb_starts", stdNoStart)
	return "PoolGen.v", b.String(), nil
}
