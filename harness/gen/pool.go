package main

// Translator "pool": reads pipeline/event.go and emits Gen/PoolGen.v
//   pool_lm_fits       : the capacity test of lowMemoryEventPool.get          (`inUse <= p.capacity`)
//   pool_lm_avail      : the comparison of lowMemoryEventPool.eventsAvailable (`int(p.inUseEvents.Load()) < p.capacity`)
//   pool_std_avail     : the availability test of eventPool.wakeupWaiters     (`p.inUseEvents.Load() < int64(p.capacity)`)
//   pool_lm_tick_cond  : the condition under which lowMemoryEventPool.wakeupWaiters broadcasts, over
//   pool_std_tick_cond   (w = `waiters > 0`, a = `eventsAvailable`); same for eventPool.wakeupWaiters
// Anything it does not recognise is an error: the tie is broken and the check reports it.

import (
	"fmt"
	"go/ast"
	"go/parser"
	"go/token"
	"path/filepath"
	"strings"
)

func init() { gens["pool"] = genPool }

func poolMethod(f *ast.File, recv, name string) *ast.FuncDecl {
	for _, d := range f.Decls {
		fd, ok := d.(*ast.FuncDecl)
		if !ok || fd.Recv == nil || fd.Name.Name != name || len(fd.Recv.List) != 1 {
			continue
		}
		if se, ok := fd.Recv.List[0].Type.(*ast.StarExpr); ok {
			if id, ok := se.X.(*ast.Ident); ok && id.Name == recv {
				return fd
			}
		}
	}
	return nil
}

func plUnparen(e ast.Expr) ast.Expr {
	for {
		p, ok := e.(*ast.ParenExpr)
		if !ok {
			return e
		}
		e = p.X
	}
}

// strips conversions int(x) / int64(x)
func plUnconv(e ast.Expr) ast.Expr {
	e = plUnparen(e)
	if c, ok := e.(*ast.CallExpr); ok && len(c.Args) == 1 {
		if id, ok := c.Fun.(*ast.Ident); ok && (id.Name == "int" || id.Name == "int64") {
			return plUnconv(c.Args[0])
		}
	}
	return e
}

// p.<field>
func plIsPField(e ast.Expr, field string) bool {
	s, ok := plUnconv(e).(*ast.SelectorExpr)
	if !ok || s.Sel.Name != field {
		return false
	}
	id, ok := s.X.(*ast.Ident)
	return ok && id.Name == "p"
}

// p.<field>.<method>()
func plIsPFieldCall(e ast.Expr, field, method string) bool {
	c, ok := plUnconv(e).(*ast.CallExpr)
	if !ok || len(c.Args) != 0 {
		return false
	}
	s, ok := c.Fun.(*ast.SelectorExpr)
	return ok && s.Sel.Name == method && plIsPField(s.X, field)
}

// p.<method>()
func plIsPCall(e ast.Expr, method string) bool {
	c, ok := plUnparen(e).(*ast.CallExpr)
	if !ok || len(c.Args) != 0 {
		return false
	}
	s, ok := c.Fun.(*ast.SelectorExpr)
	if !ok || s.Sel.Name != method {
		return false
	}
	id, ok := s.X.(*ast.Ident)
	return ok && id.Name == "p"
}

func plIsIdent(e ast.Expr, name string) bool {
	id, ok := plUnparen(e).(*ast.Ident)
	return ok && id.Name == name
}

func plIsZero(e ast.Expr) bool {
	b, ok := plUnparen(e).(*ast.BasicLit)
	return ok && b.Kind == token.INT && b.Value == "0"
}

// comparison `x op y` as a Coq boolean over Z variables named xs, ys
func plCoqCmp(op token.Token, xs, ys string) (string, error) {
	switch op {
	case token.LSS:
		return fmt.Sprintf("(%s <? %s)", xs, ys), nil
	case token.LEQ:
		return fmt.Sprintf("(%s <=? %s)", xs, ys), nil
	case token.GTR:
		return fmt.Sprintf("(%s <? %s)", ys, xs), nil
	case token.GEQ:
		return fmt.Sprintf("(%s <=? %s)", ys, xs), nil
	case token.EQL:
		return fmt.Sprintf("(%s =? %s)", xs, ys), nil
	case token.NEQ:
		return fmt.Sprintf("(negb (%s =? %s))", xs, ys), nil
	}
	return "", fmt.Errorf("unsupported comparison %s", op)
}

// the heartbeat condition over w (= waiters > 0) and a (= eventsAvailable)
func plCoqTickCond(e ast.Expr) (string, error) {
	e = plUnparen(e)
	switch v := e.(type) {
	case *ast.Ident:
		if v.Name == "eventsAvailable" {
			return "a", nil
		}
	case *ast.UnaryExpr:
		if v.Op == token.NOT {
			s, err := plCoqTickCond(v.X)
			if err != nil {
				return "", err
			}
			return "(negb " + s + ")", nil
		}
	case *ast.BinaryExpr:
		switch v.Op {
		case token.LAND, token.LOR:
			l, err := plCoqTickCond(v.X)
			if err != nil {
				return "", err
			}
			r, err := plCoqTickCond(v.Y)
			if err != nil {
				return "", err
			}
			if v.Op == token.LAND {
				return "(" + l + " && " + r + ")", nil
			}
			return "(" + l + " || " + r + ")", nil
		case token.GTR:
			if plIsIdent(v.X, "waiters") && plIsZero(v.Y) {
				return "w", nil
			}
		case token.LSS:
			if plIsZero(v.X) && plIsIdent(v.Y, "waiters") {
				return "w", nil
			}
		case token.NEQ:
			if plIsIdent(v.X, "waiters") && plIsZero(v.Y) {
				return "w", nil // the counter is never negative (invariant lm_waiters_count / sd_waiters_count)
			}
		}
	}
	return "", fmt.Errorf("heartbeat condition: unsupported expression")
}

func plContainsBroadcast(n ast.Node) bool {
	found := false
	ast.Inspect(n, func(x ast.Node) bool {
		if e, ok := x.(ast.Expr); ok && plIsPFieldCall(e, "getCond", "Broadcast") {
			found = true
		}
		return true
	})
	return found
}

// wakeupWaiters: returns (rhs of `eventsAvailable :=`, condition of the `if` that broadcasts)
func poolTick(fd *ast.FuncDecl) (ast.Expr, ast.Expr, error) {
	var availRhs, cond ast.Expr
	waitersOK := false
	nIf, nBc := 0, 0
	ast.Inspect(fd.Body, func(n ast.Node) bool {
		switch v := n.(type) {
		case *ast.AssignStmt:
			if len(v.Lhs) == 1 && len(v.Rhs) == 1 {
				if plIsIdent(v.Lhs[0], "waiters") && plIsPFieldCall(v.Rhs[0], "slowWaiters", "Load") {
					waitersOK = true
				}
				if plIsIdent(v.Lhs[0], "eventsAvailable") {
					availRhs = v.Rhs[0]
				}
			}
		case *ast.IfStmt:
			if plContainsBroadcast(v.Body) {
				nIf++
				cond = v.Cond
				if v.Else != nil {
					nIf += 10
				}
			}
		case *ast.CallExpr:
			if plIsPFieldCall(v, "getCond", "Broadcast") {
				nBc++
			}
		}
		return true
	})
	if !waitersOK || availRhs == nil || nIf != 1 || nBc != 1 {
		return nil, nil, fmt.Errorf("%s: expected `waiters := p.slowWaiters.Load()`, `eventsAvailable := ...` and exactly one `if` guarding the only Broadcast (waiters=%v avail=%v ifs=%d broadcasts=%d)",
			fd.Name.Name, waitersOK, availRhs != nil, nIf, nBc)
	}
	return availRhs, cond, nil
}

// `<inUseEvents.Load()> op <p.capacity>` (conversions ignored)
func poolAvailCmp(e ast.Expr) (string, error) {
	b, ok := plUnparen(e).(*ast.BinaryExpr)
	if !ok || !plIsPFieldCall(b.X, "inUseEvents", "Load") || !plIsPField(b.Y, "capacity") {
		return "", fmt.Errorf("availability test is not `p.inUseEvents.Load() <op> p.capacity`")
	}
	return plCoqCmp(b.Op, "inuse", "cap")
}

func genPool(repo string) (string, string, error) {
	fset := token.NewFileSet()
	f, err := parser.ParseFile(fset, filepath.Join(repo, "pipeline", "event.go"), nil, 0)
	if err != nil {
		return "", "", err
	}
	lmGet := poolMethod(f, "lowMemoryEventPool", "get")
	lmAvail := poolMethod(f, "lowMemoryEventPool", "eventsAvailable")
	lmTick := poolMethod(f, "lowMemoryEventPool", "wakeupWaiters")
	stdTick := poolMethod(f, "eventPool", "wakeupWaiters")
	if lmGet == nil || lmAvail == nil || lmTick == nil || stdTick == nil {
		return "", "", fmt.Errorf("pool methods not found in pipeline/event.go")
	}
	// 1. capacity test of the low-memory get: the only `if` comparing `inUse` with p.capacity
	var fits string
	nFits := 0
	var ferr error
	ast.Inspect(lmGet.Body, func(n ast.Node) bool {
		if is, ok := n.(*ast.IfStmt); ok {
			if b, ok := plUnparen(is.Cond).(*ast.BinaryExpr); ok && plIsIdent(b.X, "inUse") && plIsPField(b.Y, "capacity") {
				nFits++
				fits, ferr = plCoqCmp(b.Op, "r", "cap")
			}
		}
		return true
	})
	if nFits != 1 || ferr != nil {
		return "", "", fmt.Errorf("lowMemoryEventPool.get: expected exactly one `if inUse <op> p.capacity` (%d found, %v)", nFits, ferr)
	}
	// 2. eventsAvailable of the low-memory pool: a single return of the comparison
	if len(lmAvail.Body.List) != 1 {
		return "", "", fmt.Errorf("lowMemoryEventPool.eventsAvailable: expected a single return statement")
	}
	ret, ok := lmAvail.Body.List[0].(*ast.ReturnStmt)
	if !ok || len(ret.Results) != 1 {
		return "", "", fmt.Errorf("lowMemoryEventPool.eventsAvailable: expected a single return statement")
	}
	lmAvailS, err := poolAvailCmp(ret.Results[0])
	if err != nil {
		return "", "", fmt.Errorf("lowMemoryEventPool.eventsAvailable: %v", err)
	}
	// 3. heartbeats
	lmRhs, lmCond, err := poolTick(lmTick)
	if err != nil {
		return "", "", fmt.Errorf("lowMemoryEventPool.%v", err)
	}
	if !plIsPCall(lmRhs, "eventsAvailable") {
		return "", "", fmt.Errorf("lowMemoryEventPool.wakeupWaiters: eventsAvailable is not p.eventsAvailable()")
	}
	lmCondS, err := plCoqTickCond(lmCond)
	if err != nil {
		return "", "", fmt.Errorf("lowMemoryEventPool.wakeupWaiters: %v", err)
	}
	stdRhs, stdCond, err := poolTick(stdTick)
	if err != nil {
		return "", "", fmt.Errorf("eventPool.%v", err)
	}
	stdAvailS, err := poolAvailCmp(stdRhs)
	if err != nil {
		return "", "", fmt.Errorf("eventPool.wakeupWaiters: %v", err)
	}
	stdCondS, err := plCoqTickCond(stdCond)
	if err != nil {
		return "", "", fmt.Errorf("eventPool.wakeupWaiters: %v", err)
	}
	var b strings.Builder
	b.WriteString("(* GENERATED from /repo/pipeline/event.go by harness/gen (translator \"pool\") — do not edit.\n")
	b.WriteString("   The comparisons and heartbeat conditions of the two event pools, as written in the source. *)\n")
	b.WriteString("From Coq Require Import ZArith Bool.\nLocal Open Scope Z_scope.\n")
	b.WriteString("(* lowMemoryEventPool.get: `if inUse <op> p.capacity` with r = the result of inUseEvents.Inc() *)\n")
	fmt.Fprintf(&b, "Definition pool_lm_fits (r cap : Z) : bool := %s.\n", fits)
	b.WriteString("(* lowMemoryEventPool.eventsAvailable *)\n")
	fmt.Fprintf(&b, "Definition pool_lm_avail (inuse cap : Z) : bool := %s.\n", lmAvailS)
	b.WriteString("(* eventPool.wakeupWaiters: `eventsAvailable := ...` *)\n")
	fmt.Fprintf(&b, "Definition pool_std_avail (inuse cap : Z) : bool := %s.\n", stdAvailS)
	b.WriteString("(* the `if` that guards the heartbeat's Broadcast; w = `waiters > 0`, a = `eventsAvailable` *)\n")
	fmt.Fprintf(&b, "Definition pool_lm_tick_cond (w a : bool) : bool := %s.\n", lmCondS)
	fmt.Fprintf(&b, "Definition pool_std_tick_cond (w a : bool) : bool := %s.\n", stdCondS)
	return "PoolGen.v", b.String(), nil
}
