package main

// C20, which = 5 (audit item 36): the REAL Pipeline.In with the CRI decoder, rows that carry their OWN time and stream.
//
//	case = (max cutoff mark dec T U nsrc (op ...) MI)                         MI = antispam maintenance interval, ns
//	  op = (0) antispam Maintenance
//	     | (1 id isNew cur (soff_stdout soff_stderr soff_noname) stream hdr #record valid t)
//	       soff_x   saved offset of stream x in the Offsets handed to In (-2: no entry for that stream)
//	       stream   0 stdout | 1 stderr: the stream named in the row - only ITS saved offset may refuse the row
//	       hdr      length of "<time> <stream> <tag> " (the delivered payload is what follows)
//	       t        the time IsSpam must be handed, ns since 1970: the row time if it has the pipeline's layout
//	                2006-01-02T15:04:05.999999999Z, the zero time.Time otherwise (known to the generator by construction;
//	                oracle: time.Parse with that layout agrees)
//	obs as which = 3.
//
// What the stream `pipeline-in-cri-times` crosses and `pipeline-in` does not: gaps between the events of one source
// around MI measured on the ROW times (diff < MI in IsSpam is reached with diff != 0 through In), rows whose time does
// not parse (zero time: a huge negative / positive gap), a different saved offset for every stream name.
// Regressions it exposes: IsSpam fed with time.Now() or with the zero time instead of the row time; a layout that no
// longer accepts shortened fractions; the saved offset looked up under the wrong / the empty stream name; the
// already-committed short-cut taken for a stream that has no saved offset.

import (
	"bytes"
	"time"

	"github.com/ozontech/file.d/pipeline"

	"verif/harness/hmain"
	"verif/harness/hx"
)

const c20CriLayout = "2006-01-02T15:04:05.999999999Z" // pipeline.go: the layout In parses row.Time with

func c20GenCriTimes(c *hmain.Ctx) {
	r := c.R
	zero := time.Time{}.UnixNano()
	base := time.Date(2016, 10, 6, 0, 17, 9, 669794202, time.UTC)
	const MI = int64(time.Hour)

	for i := 0; i < 60*c.Scale; i++ {
		max := hx.Pick(r, []int{0, 0, 41, 44, 50, 64}) // > the longest header (40): a cut keeps it
		cutoff, mark := r.Bool(), r.Bool()
		T := hx.Pick(r, []int{2, 3, 3, 5, 8})
		nsrc := r.Range(1, 3)
		now := base.Add(time.Duration(r.Intn(1000)) * time.Millisecond)
		var ops []hx.Sx
		for j := r.Range(20, 70); j > 0; j-- {
			if r.Chance(1, 10) {
				ops = append(ops, c20Maint)
				c.W.Count("cri-times-op:maintenance")
				continue
			}
			// the gap to the previous row (of any source; with 1 source in a third of the cases it is the source's own gap)
			switch r.Intn(9) {
			case 0:
				now = now.Add(time.Duration(MI))
			case 1:
				now = now.Add(time.Duration(MI - 1))
			case 2:
				now = now.Add(time.Duration(MI + 1))
			case 3:
				now = now.Add(-time.Duration(r.Intn(3)) * time.Second) // time going backwards
			case 4:
				now = now.Add(time.Duration(MI) * time.Duration(r.Range(2, 5)))
			case 5:
				now = now.Add(time.Duration(r.Intn(2000)) * time.Millisecond)
			}
			// the time column
			var tcol string
			t := now.UnixNano()
			switch r.Intn(12) {
			case 0: // whole seconds, no fraction: parses
				tcol = now.Format("2006-01-02T15:04:05Z")
				t = now.Truncate(time.Second).UnixNano()
				c.W.Count("cri-times-format:seconds-only")
			case 1: // trailing zeros dropped
				tm := now.Truncate(time.Millisecond)
				tcol = tm.Format(c20CriLayout)
				t = tm.UnixNano()
				c.W.Count("cri-times-format:short-fraction")
			case 2: // a numeric zone: does not parse -> zero time
				tcol = now.Format("2006-01-02T15:04:05") + "+03:00"
				t = zero
				c.W.Count("cri-times-format:numeric-zone(unparsed)")
			case 3: // no zone at all
				tcol = now.Format("2006-01-02T15:04:05.000000000")
				t = zero
				c.W.Count("cri-times-format:no-zone(unparsed)")
			case 4:
				tcol = hx.Pick(r, []string{"yesterday", "1475713029", "2016-10-06", "2016-13-06T00:17:09Z"})
				t = zero
				c.W.Count("cri-times-format:garbage(unparsed)")
			case 5: // an empty time column: In does not even try to parse it
				tcol = ""
				t = zero
				c.W.Count("cri-times-format:empty")
			default:
				tcol = now.Format("2006-01-02T15:04:05.000000000Z")
				c.W.Count("cri-times-format:full")
			}
			if c20W != nil {
				pt, err := time.Parse(c20CriLayout, tcol)
				want := zero
				if err == nil {
					want = pt.UnixNano()
				}
				c.W.Oracle("time.Parse with the pipeline's layout gives the row time the generator intended (zero time when it does not parse)",
					want == t, tcol)
			}
			stream := r.Intn(2)
			b := []byte(tcol + " " + []string{"stdout", "stderr"}[stream] + " ")
			valid := 1
			if r.Chance(1, 5) {
				valid = 2
				b = append(b, "P "...)
			} else {
				b = append(b, "F "...)
			}
			hdr := len(b)
			k := r.Intn(16)
			if max > 0 && r.Chance(1, 2) {
				k = max - hdr + r.Range(-2, 2)
			}
			for ; k > 0; k-- {
				b = append(b, "abcdefgh {}\""[r.Intn(12)])
			}
			if r.Chance(1, 12) {
				valid = 0 // no space at all: DecodeCRI fails on it and on every prefix
				b = bytes.Repeat([]byte{'x'}, 30+r.Intn(20))
				hdr = 0
			}
			if r.Chance(2, 3) {
				b = append(b, '\n')
			}
			// saved offsets: the row's own stream and the two other names get DIFFERENT values around cur
			cur := int64(r.Range(1, 50))
			pickOff := func() int64 {
				switch r.Intn(6) {
				case 0:
					return cur + int64(r.Range(1, 9)) // would refuse
				case 1:
					return cur // boundary: cur < soff is false
				case 2:
					return cur - 1
				case 3:
					return -2 // no entry
				case 4:
					return 0
				default:
					return -1
				}
			}
			so := []int64{pickOff(), pickOff(), pickOff()}
			own, other := so[stream], so[1-stream]
			switch {
			case valid == 0:
				c.W.Count("cri-times-op:garbage-row")
			case own > cur && valid == 1:
				c.W.Count("cri-times-op:own-stream-committed")
			case (other > cur || so[2] > cur) && valid == 1:
				c.W.Count("cri-times-op:only-another-stream-committed")
			case valid == 2:
				c.W.Count("cri-times-op:partial-row")
			default:
				c.W.Count("cri-times-op:plain")
			}
			ops = append(ops, hx.L(hx.I(1), hx.I(r.Intn(nsrc)), hx.Bool(r.Chance(1, 30)), hx.Z(cur),
				hx.L(hx.Z(so[0]), hx.Z(so[1]), hx.Z(so[2])), hx.I(stream), hx.I(hdr), hx.B(b), hx.I(valid), hx.Z(t)))
		}
		c.Do("pipeline-in-cri-times", 5, hx.L(hx.I(max), hx.Bool(cutoff), hx.Bool(mark), hx.I(2), hx.I(T),
			hx.I(pipeline.VerifC20UnbanIterations), hx.I(nsrc), hx.L(ops...), hx.Z(MI)), true)
	}
}
