package main

// C20, which = 4: the REAL Antispammer with exceptions given as concrete cfg/matchrule rule sets (audit item 35).
//
//	case = (T MI U nsrc (exc ...) (op ...))
//	  exc  = (check_source_name cond (rule ...))     cond 0 and | 1 or  (matchrule.CondAnd / CondOr)
//	  rule = (mode ci invert (#value ...))           mode 0 prefix | 1 contains | 2 suffix (matchrule.Mode*)
//	  op   = (0) Maintenance | (1 id isNew t #name #event) | (1 id isNew t #name #event (bit ...))
//	obs as which = 1.
//
// The model computes "exception i matches" from the specification of a rule (prefix / contains / suffix of one of the
// values, lower-cased on both sides when case_insensitive, negated when invert; and / or over the rules of a set). It
// lower-cases ASCII only; for case-insensitive rules over non-ASCII text the generator supplies the bits (7th element of
// the op), computed by c20RefMatch below with bytes.ToLower / strings.ToLower on the WHOLE data.
//
// Also here: the int32 threshold-width cases of audit item 36 (which = 1) and knownListed.

import (
	"bytes"
	"fmt"
	"os"
	"path/filepath"
	"strconv"
	"strings"
	"time"

	"github.com/ozontech/file.d/cfg/matchrule"
	"github.com/ozontech/file.d/metric"
	"github.com/ozontech/file.d/pipeline/antispam"
	"github.com/prometheus/client_golang/prometheus"
	"go.uber.org/zap"

	"verif/harness/hmain"
	"verif/harness/hx"
)

// knownListed: a family that shows a genuine, not yet recorded defect is emitted only once the coordinator has listed
// the proposed finding id in /verif/known_findings.json (the check stays green until then).
func knownListed(id string) bool {
	if os.Getenv("C20_ASSUME_LISTED") != "" { // development aid: behave as if the findings were already listed
		return true
	}
	exe, _ := os.Executable()
	kf, err := os.ReadFile(filepath.Join(filepath.Dir(filepath.Dir(exe)), "known_findings.json"))
	return err == nil && bytes.Contains(kf, []byte(id))
}

type c20Rule struct {
	mode    int
	ci, inv bool
	vals    [][]byte
}

type c20Exc struct {
	name  bool // CheckSourceName
	or    bool
	rules []c20Rule
}

func (e c20Exc) sx() hx.Sx {
	rs := make([]hx.Sx, len(e.rules))
	for i, r := range e.rules {
		rs[i] = hx.L(hx.I(r.mode), hx.Bool(r.ci), hx.Bool(r.inv), hx.Bs(r.vals))
	}
	return hx.L(hx.Bool(e.name), hx.Bool(e.or), hx.L(rs...))
}

func c20ExcOfSx(v hx.Sx) c20Exc {
	it := hx.Items(v)
	e := c20Exc{name: hx.Truth(it[0]), or: hx.Truth(it[1])}
	for _, rv := range hx.Items(it[2]) {
		ri := hx.Items(rv)
		r := c20Rule{mode: int(hx.Int(ri[0])), ci: hx.Truth(ri[1]), inv: hx.Truth(ri[2])}
		for _, x := range hx.Items(ri[3]) {
			r.vals = append(r.vals, hx.Bytes(x))
		}
		e.rules = append(e.rules, r)
	}
	return e
}

// the specification of a rule set, independent of matchrule.go (whole-data lower-casing, no cutting)
func c20RefMatch(e c20Exc, data []byte) bool {
	if len(e.rules) == 0 {
		return false
	}
	for _, r := range e.rules {
		d := data
		if r.ci {
			d = bytes.ToLower(d)
		}
		hit := false
		for _, v := range r.vals {
			if r.ci {
				v = []byte(strings.ToLower(string(v)))
			}
			switch r.mode {
			case 0:
				hit = hit || bytes.HasPrefix(d, v)
			case 1:
				hit = hit || bytes.Contains(d, v)
			default:
				hit = hit || bytes.HasSuffix(d, v)
			}
		}
		if hit != r.inv { // the rule matches
			if e.or {
				return true
			}
		} else if !e.or {
			return false
		}
	}
	return !e.or
}

func c20RulesExec(cs hx.Sx) hx.Sx {
	it := hx.Items(cs)
	T, MI, U := int(hx.Int(it[0])), hx.Int(it[1]), int(hx.Int(it[2]))
	nsrc := int(hx.Int(it[3]))
	var excs []c20Exc
	for _, ev := range hx.Items(it[4]) {
		excs = append(excs, c20ExcOfSx(ev))
	}
	// as fd does (extractAntispamExceptions): from the JSON text of the configuration, whenever the values can be
	// written as JSON strings (valid UTF-8); else the structs are filled in directly
	exc, viaJSON := c20ExceptionsFromJSON(excs)
	if !viaJSON {
		for i, e := range excs {
			rs := matchrule.RuleSet{Name: "e" + strconv.Itoa(i), Cond: matchrule.CondAnd}
			if e.or {
				rs.Cond = matchrule.CondOr
			}
			for _, r := range e.rules {
				vals := make([]string, len(r.vals))
				for k, v := range r.vals {
					vals[k] = string(v)
				}
				rs.Rules = append(rs.Rules, matchrule.Rule{Values: vals, Mode: matchrule.Mode(r.mode), CaseInsensitive: r.ci, Invert: r.inv})
			}
			exc = append(exc, antispam.Exception{RuleSet: rs, CheckSourceName: e.name})
		}
	}
	exc.Prepare()
	a := antispam.NewAntispammer(&antispam.Options{
		MaintenanceInterval: time.Duration(MI),
		Threshold:           T,
		UnbanIterations:     U,
		Exceptions:          exc,
		Logger:              zap.NewNop(),
		MetricsController:   metric.NewCtl("c20", prometheus.NewRegistry(), time.Minute, 0),
	})
	ops := hx.Items(it[5])
	out := make([]hx.Sx, 0, len(ops))
	for _, op := range ops {
		o := hx.Items(op)
		if hx.Int(o[0]) == 0 {
			if msg := hx.Catch(a.Maintenance); msg != "" {
				out = append(out, hx.S(msg))
				continue
			}
			cnt := make([]hx.Sx, nsrc)
			for i := 0; i < nsrc; i++ {
				if c, ok := a.VerifC20Counter(strconv.Itoa(i)); ok {
					cnt[i] = hx.I(int(c))
				} else {
					cnt[i] = hx.I(-1)
				}
			}
			out = append(out, hx.L(cnt...))
			continue
		}
		id := int(hx.Int(o[1]))
		isNew := hx.Truth(o[2])
		t := hx.Int(o[3])
		name := hx.Str(o[4])
		// the event is handed over as the inputs do: a window of a larger buffer, which must stay untouched
		ev := hx.Bytes(o[5])
		buf := append(append(make([]byte, 0, len(ev)+4), ev...), 0xEE, 0xEE, 0xEE, 0xEE)
		var spam bool
		if msg := hx.Catch(func() { spam = a.IsSpam(strconv.Itoa(id), name, isNew, buf[:len(ev):len(ev)], time.Unix(0, t), nil) }); msg != "" {
			if strings.Contains(msg, "rule must be prepared") { // a rule without values was reached (model: MPanic)
				out = append(out, hx.I(2))
			} else {
				out = append(out, hx.S(msg))
			}
			continue
		}
		if !bytes.Equal(buf[:len(ev)], ev) || !bytes.Equal(buf[len(ev):], []byte{0xEE, 0xEE, 0xEE, 0xEE}) {
			out = append(out, hx.S("IsSpam changed the event bytes"))
			continue
		}
		out = append(out, hx.Bool(spam))
	}
	return hx.L(out...)
}

func c20RulesCase(T int, MI int64, U, nsrc int, excs []c20Exc, ops []hx.Sx) hx.Sx {
	return hx.L(hx.I(T), hx.Z(MI), hx.I(U), hx.I(nsrc), hx.List(excs, func(e c20Exc) hx.Sx { return e.sx() }), hx.L(ops...))
}

func c20RuleEv(id int, isNew bool, t int64, name, ev []byte) hx.Sx {
	return hx.L(hx.I(1), hx.I(id), hx.Bool(isNew), hx.Z(t), hx.B(name), hx.B(ev))
}

// with explicit bits (case-insensitive rules over non-ASCII text)
func c20RuleEvBits(id int, isNew bool, t int64, name, ev []byte, excs []c20Exc) hx.Sx {
	bits := make([]hx.Sx, len(excs))
	for i, e := range excs {
		d := ev
		if e.name {
			d = name
		}
		bits[i] = hx.Bool(c20RefMatch(e, d))
	}
	return hx.L(hx.I(1), hx.I(id), hx.Bool(isNew), hx.Z(t), hx.B(name), hx.B(ev), hx.L(bits...))
}

var c20ModeName = []string{"prefix", "contains", "suffix"}

// where the data length lies relative to the rule's minValueSize / maxValueSize (the three guards of Rule.match)
func c20CountLen(c *hmain.Ctx, r c20Rule, data []byte) {
	min, max := len(r.vals[0]), len(r.vals[0])
	for _, v := range r.vals {
		if len(v) < min {
			min = len(v)
		}
		if len(v) > max {
			max = len(v)
		}
	}
	cls := ""
	switch {
	case len(data) == 0:
		cls = "empty"
	case len(data) < min:
		cls = "shorter-than-min"
	case len(data) < max:
		cls = "between-min-and-max"
	case len(data) == max:
		cls = "exactly-max"
	default:
		cls = "longer-than-max"
	}
	c.W.Count("matchrule-data:" + c20ModeName[r.mode] + ":" + cls)
}

func c20FlipCase(r *hx.Rng, b []byte) []byte {
	o := append([]byte(nil), b...)
	for i, ch := range o {
		if r.Chance(1, 2) {
			switch {
			case 'a' <= ch && ch <= 'z':
				o[i] = ch - 32
			case 'A' <= ch && ch <= 'Z':
				o[i] = ch + 32
			}
		}
	}
	return o
}

func c20GenRules(c *hmain.Ctx) {
	r := c.R

	// ---- 10. matchrule, exhaustive small scope: ONE exception of ONE rule; every mode x case_insensitive x invert x
	//          five value sets (one value; two / three values of different lengths; the empty value; a long one) x
	//          checked on the event / the source name; the data runs over EVERY string over {a,b,B} up to length 4
	//          (5 in the thorough tier). T = 1, U = 0: a non-excepted event is counted, reaches T and is flagged, the
	//          counter restarts at 0 - so flag = not(match) for every op, whatever came before.
	//          Crosses in cfg/matchrule/matchrule.go: len(raw) < minValueSize (:106) with Invert (:99), the cut to
	//          maxValueSize for prefix and suffix (:129-138), len(cutData) < len(value) (:145), ToLower (:141).
	//          Regressions it exposes: the suffix window taken from the front, an off-by-one in either cut, dropping the
	//          len(cutData) < len(value) guard (slice panic), applying Invert before the minValueSize shortcut is lost.
	L := 4
	if c.Tier == "thorough" {
		L = 5
	}
	var datas [][]byte
	var enum func(b []byte)
	enum = func(b []byte) {
		datas = append(datas, b)
		if len(b) < L {
			for _, ch := range []byte("abB") {
				enum(append(b[:len(b):len(b)], ch))
			}
		}
	}
	enum([]byte{})
	valueSets := [][][]byte{
		{[]byte("ab")},
		{[]byte("b"), []byte("aab")},
		{[]byte("ab"), []byte("ba"), []byte("aBa")},
		{[]byte(""), []byte("ba")},
		{[]byte("ababa"), []byte("a")}, // longer than every data string of the quick tier
	}
	for mode := 0; mode < 3; mode++ {
		for ci := 0; ci < 2; ci++ {
			for inv := 0; inv < 2; inv++ {
				for vi, vs := range valueSets {
					rule := c20Rule{mode: mode, ci: ci == 1, inv: inv == 1, vals: vs}
					onName := (mode+ci+inv+vi)%2 == 1
					excs := []c20Exc{{name: onName, or: vi%2 == 0, rules: []c20Rule{rule}}}
					ops := make([]hx.Sx, 0, len(datas))
					for _, d := range datas {
						name, ev := []byte("src"), []byte("{}")
						if onName {
							name = d
						} else {
							ev = d
						}
						ops = append(ops, c20RuleEv(0, false, 0, name, ev))
						c20CountLen(c, rule, d)
					}
					c.Do("matchrule-exhaustive", 4, c20RulesCase(1, 1, 0, 1, excs, ops), true)
				}
			}
		}
	}
	c.W.Dist["matchrule-exhaustive:ops"] = 3 * 2 * 2 * len(valueSets) * len(datas)

	// ---- 11. matchrule, random rule sets on the antispammer: 1..3 exceptions, each 1..3 rules under and / or, every
	//          mode, 1..3 values of length 0..8 (bytes >= 0x80 only in case-sensitive rules), invert, case_insensitive;
	//          events and source names are built around the values: exact, padded on either side, truncated, one byte
	//          changed, case flipped, empty, or up to 40 bytes longer than the longest value.
	alpha := []byte("abAB;x")
	randVal := func(ci bool) []byte {
		n := hx.Pick(r, []int{0, 1, 1, 2, 3, 3, 4, 5, 8})
		v := make([]byte, n)
		for i := range v {
			v[i] = hx.Pick(r, alpha)
			if !ci && r.Chance(1, 12) {
				v[i] = hx.Pick(r, []byte{0xC8, 0xBA, 0xFF, 0x80})
			}
		}
		return v
	}
	pad := func(max int) []byte {
		p := make([]byte, r.Intn(max+1))
		for i := range p {
			p[i] = hx.Pick(r, alpha)
		}
		return p
	}
	nops := 0
	for i := 0; i < 150*c.Scale; i++ {
		var excs []c20Exc
		anyCI := false
		for k := r.Range(1, 3); k > 0; k-- {
			e := c20Exc{name: r.Bool(), or: r.Bool()}
			for j := hx.Pick(r, []int{1, 1, 2, 3}); j > 0; j-- {
				rule := c20Rule{mode: r.Intn(3), ci: r.Chance(1, 3), inv: r.Chance(1, 4)}
				anyCI = anyCI || rule.ci
				for n := r.Range(1, 3); n > 0; n-- {
					rule.vals = append(rule.vals, randVal(rule.ci))
				}
				e.rules = append(e.rules, rule)
			}
			excs = append(excs, e)
			c.W.Count(fmt.Sprintf("matchrule-set:%d-rules-%s", len(e.rules), map[bool]string{false: "and", true: "or"}[e.or]))
		}
		mkData := func() []byte {
			e := hx.Pick(r, excs)
			rule := hx.Pick(r, e.rules)
			v := hx.Pick(r, rule.vals)
			if rule.ci && r.Chance(1, 2) {
				v = c20FlipCase(r, v)
			}
			var d []byte
			switch r.Intn(10) {
			case 0:
				d = append(d, v...)
			case 1:
				d = append(append(d, v...), pad(6)...)
			case 2:
				d = append(append(d, pad(6)...), v...)
			case 3:
				d = append(append(append(d, pad(4)...), v...), pad(4)...)
			case 4:
				if len(v) > 0 {
					d = append(d, v[:len(v)-1]...)
				}
			case 5:
				if len(v) > 0 {
					d = append(d, v[1:]...)
				}
			case 6:
				d = append(d, v...)
				if len(d) > 0 {
					d[r.Intn(len(d))] = hx.Pick(r, alpha)
				}
			case 7:
				// empty
			case 8:
				d = append(append(append(d, pad(40)...), v...), pad(40)...)
			default:
				d = pad(3)
			}
			if anyCI { // a case-insensitive rule may look at this text: keep it ASCII (the model lower-cases ASCII only)
				for k, ch := range d {
					if ch >= 0x80 {
						d[k] = 'x'
					}
				}
			}
			return d
		}
		T := hx.Pick(r, []int{1, 2, 3, 5})
		U := hx.Pick(r, []int{0, 1, 4})
		nsrc := r.Range(1, 3)
		var ops []hx.Sx
		t := int64(0)
		for j := r.Range(20, 80); j > 0; j-- {
			if r.Chance(1, 8) {
				ops = append(ops, c20Maint)
				continue
			}
			if r.Chance(1, 4) {
				t += 5
			}
			name, ev := mkData(), mkData()
			for _, e := range excs {
				for _, rule := range e.rules {
					if e.name {
						c20CountLen(c, rule, name)
					} else {
						c20CountLen(c, rule, ev)
					}
				}
			}
			ops = append(ops, c20RuleEv(r.Intn(nsrc), r.Chance(1, 30), t, name, ev))
		}
		nops += len(ops)
		c.Do("matchrule-random", 4, c20RulesCase(T, 4, U, nsrc, excs, ops), true)
	}
	c.W.Dist["matchrule-random:ops"] = nops

	// ---- 12. case-insensitive rules over non-ASCII text whose lower-case form has the SAME byte length (directed; the
	//          bits come from c20RefMatch). The cut to maxValueSize may fall inside a rune of the data; the bytes the
	//          comparison window keeps are still those of the value.
	{
		vals := [][]byte{[]byte("été"), []byte("Ñandú"), []byte("é")}
		texts := []string{"ÉTÉ", "été 2024", "l'ÉtÉ", "ñANDÚ", "xÑandú", "Ñandúx", "É", "e", "", "ÉÉÉÉÉÉ", "aaÉ", "Éaa"}
		for mode := 0; mode < 3; mode++ {
			for inv := 0; inv < 2; inv++ {
				excs := []c20Exc{
					{name: false, or: true, rules: []c20Rule{{mode: mode, ci: true, inv: inv == 1, vals: vals}}},
					{name: true, or: false, rules: []c20Rule{{mode: mode, ci: true, inv: inv == 1, vals: vals[:2]}, {mode: 1, ci: false, vals: [][]byte{[]byte("a")}}}},
				}
				var ops []hx.Sx
				for k, tx := range texts {
					ops = append(ops, c20RuleEvBits(0, false, 0, []byte(texts[(k+5)%len(texts)]), []byte(tx), excs))
				}
				c.Do("matchrule-ci-samelen", 4, c20RulesCase(1, 1, 0, 1, excs, ops), true)
			}
		}
	}

	// ---- 13. GENUINE DEFECT (notes/finding-C20-matchrule-ci-unicode.md), emitted only when the finding is listed:
	//          case-insensitive prefix / suffix rules whose value or data changes its byte length when lower-cased
	//          (U+0130 2 -> 1 bytes, U+212A 3 -> 1, U+023A 2 -> 3): matchrule cuts the data to maxValueSize bytes and
	//          tests len(raw) < minValueSize BEFORE lower-casing, so "İstanbul-7" does not match the prefix "İstanbul".
	if knownListed("C20-matchrule-ci-unicode") {
		for _, w := range []struct {
			mode       int
			vals, text string
		}{
			// (Prepare takes minValueSize / maxValueSize from the FIRST value before lower-casing it, so a lone value is
			// given its original length and matches by accident; the value that changes length stands second here)
			{0, "zz|İstanbul", "İstanbul-7"}, // raw[:8] lower-cases to 7 bytes: len(cutData) < len(value)
			{2, "zz|pod-İ", "x-pod-İ"},
			{0, "z|\u212a", "\u212a8s"},   // Kelvin sign: the cut keeps 1 of its 3 bytes
			{0, "ⱥ", "Ⱥ"},                 // lower(U+023A) = U+2C65 is longer: len(raw) < minValueSize
			{2, "nodeⱥ", "nodeȺ"},         // the same through the suffix window
			{0, "İstanbul", "İstanbul-7"}, // a lone value: matches today (see above), must keep matching after a repair
		} {
			var vals [][]byte
			for _, v := range strings.Split(w.vals, "|") {
				vals = append(vals, []byte(v))
			}
			excs := []c20Exc{{name: true, or: true, rules: []c20Rule{{mode: w.mode, ci: true, vals: vals}}}}
			ops := []hx.Sx{c20RuleEvBits(0, false, 0, []byte(w.text), []byte("{}"), excs), c20RuleEvBits(0, false, 0, []byte(w.text), []byte("{}"), excs)}
			c.Do("matchrule-ci-unicode", 4, c20RulesCase(1, 1, 0, 1, excs, ops), true)
		}
	}

	// ---- 14. threshold width (audit item 36). The counter is an atomic.Int32 and IsSpam compares x with
	//          int32(threshold): the largest thresholds that still fit are exercised always (never a ban within a few
	//          events; Maintenance subtracts the full threshold) ...
	none := hx.L()
	for _, T := range []int{1<<31 - 1, 1 << 30, 1<<31 - 2} {
		for _, U := range []int{0, 1} {
			var ops []hx.Sx
			for j := 0; j < 12; j++ {
				if j%5 == 4 {
					ops = append(ops, c20Maint)
				}
				ops = append(ops, c20Ev(j%2, j == 7, int64(j/3), none, none))
			}
			ops = append(ops, c20Maint, c20Maint)
			c.Do("antispam-int32-edge", 1, c20AsCase(T, 2, U, 0, 0, nil, 2, ops), true)
		}
	}
	//          ... and thresholds that do NOT fit int32 (notes/finding-C20-threshold-int32.md, repaired by a92854d: IsSpam
	//          compares in int and clamps what it stores): before the repair 1<<32+3 banned at the 3rd event and 1<<31
	//          flagged every event. The cases stay below the ban (the clamp of the stored ban value U*T to MaxInt32 would
	//          need 2^29 calls to be observed and is not modelled).
	//          Regression it exposes: any int32(threshold) conversion coming back into IsSpam.
	{
		for _, T := range []int{1<<32 + 3, 1 << 31, 1<<32 + 1, 1<<31 + 2, 1<<40 + 1} {
			var ops []hx.Sx
			for j := 0; j < 6; j++ {
				ops = append(ops, c20Ev(0, false, 0, none, none))
			}
			ops = append(ops, c20Maint)
			c.Do("antispam-int32-threshold", 1, c20AsCase(T, 1, 4, 0, 0, nil, 1, ops), true)
		}
	}
}
